(* Proofs/SamplerMat.v -- lemmas about the array samplers (C12): sums, trace, determinant (Laplace expansion),
   symmetry classes and their preservation by every step of the SquareMatrices pipeline. *)
From Coq Require Import ZArith QArith Qabs Lia Lqa List Bool Arith Setoid Ring Field.
From Verif.Lib Require Import QRound.
From Verif.Model Require Import Sampler SamplerMat.
From Verif.Proofs Require Import Credit Sampler.
Import ListNotations.
Open Scope Q_scope.

(* ------------------------------------------------------------------------------------------ *)
(* small complex facts                                                                        *)
(* ------------------------------------------------------------------------------------------ *)
Lemma cdiv_mul : forall a r, ceq (cdiv a r) (cmul (cinv r) a).
Proof. intros. unfold cdiv. ring. Qed.

Lemma creal_cinv : forall r, creal r -> creal (cinv r).
Proof. intros [x y]. unfold creal, cinv, cnormsq. cbn [fst snd]. intro H. rewrite H. unfold Qdiv. ring. Qed.
Lemma creal_mul : forall a b, creal a -> creal b -> creal (cmul a b).
Proof. intros [x y] [z w]. unfold creal, cmul. simpl. intros H1 H2. rewrite H1, H2. ring. Qed.
Lemma creal_sub : forall a b, creal a -> creal b -> creal (csub a b).
Proof. intros [x y] [z w]. unfold creal, csub. simpl. intros H1 H2. rewrite H1, H2. ring. Qed.
Lemma creal_opp : forall a, creal a -> creal (copp a).
Proof. intros [x y]. unfold creal, copp. simpl. intros H1. rewrite H1. ring. Qed.
Lemma creal_conj : forall a, creal a -> creal (cconj a).
Proof. intros [x y]. unfold creal, cconj. simpl. intros H1. rewrite H1. ring. Qed.
Lemma creal_cofQ : forall q, creal (cofQ q).
Proof. intro q. reflexivity. Qed.
Lemma creal_c1 : creal c1.
Proof. reflexivity. Qed.
Lemma creal_div : forall a b, creal a -> creal b -> creal (cdiv a b).
Proof. intros. unfold cdiv. apply creal_mul; [assumption | apply creal_cinv; assumption]. Qed.
Lemma creal_ceq : forall a b, ceq a b -> creal a -> creal b.
Proof. intros [x y] [z w] [H1 H2]. unfold creal. simpl in *. intro H. rewrite <- H2. exact H. Qed.
Lemma creal_cofQ_cre : forall a, creal a -> ceq (cofQ (cre a)) a.
Proof. intros [x y]. unfold creal, cofQ, cre, ceq. simpl. intro H. split; [reflexivity | symmetry; exact H]. Qed.
Lemma creal_conj_eq : forall a, creal a -> ceq (cconj a) a.
Proof. intros [x y]. unfold creal, cconj, ceq. simpl. intro H. split; [reflexivity | rewrite H; ring]. Qed.

Lemma cofQ_nonzero : forall q, ~ q == 0 -> ~ ceq (cofQ q) c0.
Proof. intros q H [E _]. simpl in E. contradiction. Qed.

Lemma cpow_succ : forall a n, cpow a (S n) = cmul a (cpow a n).
Proof. reflexivity. Qed.
Add Parametric Morphism : cpow with signature ceq ==> eq ==> ceq as cpow_mor.
Proof. intros a b H n. induction n as [|n IH]; simpl; [reflexivity | rewrite IH, H; reflexivity]. Qed.

Lemma cpow_mul : forall a b n, ceq (cpow (cmul a b) n) (cmul (cpow a n) (cpow b n)).
Proof. intros a b n. induction n as [|n IH]; simpl; [ring | rewrite IH; ring]. Qed.

Lemma cpow_inv : forall r n, ~ ceq r c0 -> ceq (cmul (cpow (cinv r) n) (cpow r n)) c1.
Proof.
  intros r n H. rewrite <- cpow_mul. induction n as [|n IH]; simpl; [reflexivity|].
  rewrite IH. rewrite cinv_l by exact H. ring.
Qed.

Lemma cpow_neg1_odd : forall n, Nat.odd n = true -> ceq (cpow (copp c1) n) (copp c1).
Proof.
  intro n. induction n as [n IH] using lt_wf_ind. intro H.
  destruct n as [|[|n]]; [discriminate | simpl; ring |].
  change (cpow (copp c1) (S (S n))) with (cmul (copp c1) (cmul (copp c1) (cpow (copp c1) n))).
  rewrite IH; [ring | lia |]. rewrite Nat.odd_succ_succ in H. exact H.
Qed.

(* ------------------------------------------------------------------------------------------ *)
(* finite sums                                                                                *)
(* ------------------------------------------------------------------------------------------ *)
Lemma csum_ext : forall n f g, (forall i, (i < n)%nat -> ceq (f i) (g i)) -> ceq (csum n f) (csum n g).
Proof.
  induction n as [|n IH]; intros f g H; simpl; [reflexivity|].
  rewrite (IH f g) by (intros; apply H; lia). rewrite (H n) by lia. reflexivity.
Qed.
Lemma csum_add : forall n f g, ceq (csum n (fun i => cadd (f i) (g i))) (cadd (csum n f) (csum n g)).
Proof. induction n as [|n IH]; intros; simpl; [ring | rewrite IH; ring]. Qed.
Lemma csum_sub : forall n f g, ceq (csum n (fun i => csub (f i) (g i))) (csub (csum n f) (csum n g)).
Proof. induction n as [|n IH]; intros; simpl; [ring | rewrite IH; ring]. Qed.
Lemma csum_scale : forall n c f, ceq (csum n (fun i => cmul c (f i))) (cmul c (csum n f)).
Proof. induction n as [|n IH]; intros; simpl; [ring | rewrite IH; ring]. Qed.
Lemma csum_zero : forall n f, (forall i, (i < n)%nat -> ceq (f i) c0) -> ceq (csum n f) c0.
Proof.
  induction n as [|n IH]; intros f H; simpl; [reflexivity|].
  rewrite IH by (intros; apply H; lia). rewrite (H n) by lia. ring.
Qed.
Lemma csum_real : forall n f, (forall i, (i < n)%nat -> creal (f i)) -> creal (csum n f).
Proof.
  induction n as [|n IH]; intros f H; simpl; [apply creal_c0|].
  apply creal_add; [apply IH; intros; apply H; lia | apply H; lia].
Qed.
Lemma csum_imag : forall n f, (forall i, (i < n)%nat -> cre (f i) == 0) -> cre (csum n f) == 0.
Proof.
  induction n as [|n IH]; intros f H; simpl; [reflexivity|].
  unfold cre, cadd in *. simpl. rewrite IH by (intros; apply H; lia). rewrite (H n) by lia. ring.
Qed.
(* only the first summand is non-zero *)
Lemma csum_first : forall n f, (forall i, (0 < i < S n)%nat -> ceq (f i) c0) -> ceq (csum (S n) f) (f O).
Proof.
  induction n as [|n IH]; intros f H.
  - simpl. ring.
  - change (csum (S (S n)) f) with (cadd (csum (S n) f) (f (S n))).
    rewrite IH by (intros; apply H; lia). rewrite (H (S n)) by lia. ring.
Qed.
Lemma csum_eye : forall n, ceq (csum n (fun i => meye i i)) (cofQ (inject_Z (Z.of_nat n))).
Proof.
  induction n as [|n IH]; [reflexivity|]. simpl csum. rewrite IH. unfold meye. rewrite Nat.eqb_refl.
  rewrite qnat_succ. unfold cofQ, cadd, c1, ceq. simpl. split; ring.
Qed.

Lemma qsum_ext : forall n f g, (forall i, (i < n)%nat -> f i == g i) -> qsum n f == qsum n g.
Proof.
  induction n as [|n IH]; intros f g H; simpl; [reflexivity|].
  rewrite (IH f g) by (intros; apply H; lia). rewrite (H n) by lia. reflexivity.
Qed.
Lemma qsum_scale : forall n c f, qsum n (fun i => c * f i) == c * qsum n f.
Proof. induction n as [|n IH]; intros; simpl; [ring | rewrite IH; ring]. Qed.
Lemma qsum_nonneg : forall n f, (forall i, (i < n)%nat -> 0 <= f i) -> 0 <= qsum n f.
Proof.
  induction n as [|n IH]; intros f H; simpl; [lra|].
  assert (0 <= qsum n f) by (apply IH; intros; apply H; lia). assert (0 <= f n) by (apply H; lia). lra.
Qed.

(* ------------------------------------------------------------------------------------------ *)
(* pointwise equality of matrices on the index range; materialize                             *)
(* ------------------------------------------------------------------------------------------ *)
Definition meq (n m : nat) (A B : fmat) : Prop :=
  forall i j, (i < n)%nat -> (j < m)%nat -> ceq (A i j) (B i j).

Lemma meq_refl : forall n m A, meq n m A A.
Proof. intros n m A i j _ _. reflexivity. Qed.
Lemma meq_sym : forall n m A B, meq n m A B -> meq n m B A.
Proof. intros n m A B H i j Hi Hj. symmetry. apply H; assumption. Qed.
Lemma meq_trans : forall n m A B D, meq n m A B -> meq n m B D -> meq n m A D.
Proof. intros n m A B D H1 H2 i j Hi Hj. rewrite (H1 i j Hi Hj). apply H2; assumption. Qed.

Lemma nth_map_seq : forall (A : Type) (f : nat -> A) n i d, (i < n)%nat -> nth i (map f (seq 0 n)) d = f i.
Proof.
  intros A f n i d H. rewrite (nth_indep _ d (f O)) by (rewrite map_length, seq_length; exact H).
  rewrite map_nth. rewrite seq_nth by exact H. reflexivity.
Qed.

Lemma materialize_get : forall n m M i j, (i < n)%nat -> (j < m)%nat ->
  materialize n m M i j = cred (M i j).
Proof.
  intros n m M i j Hi Hj. unfold materialize, of_rows, to_rows.
  rewrite nth_map_seq by exact Hi. rewrite nth_map_seq by exact Hj. reflexivity.
Qed.

Lemma materialize_meq : forall n m M, meq n m (materialize n m M) M.
Proof. intros n m M i j Hi Hj. rewrite materialize_get by assumption. apply cred_eq. Qed.

Lemma mtrace_ext : forall n A B, meq n n A B -> ceq (mtrace n A) (mtrace n B).
Proof. intros n A B H. unfold mtrace. apply csum_ext. intros i Hi. apply H; exact Hi. Qed.

Lemma mnormsq_ext : forall n m A B, meq n m A B -> mnormsq n m A == mnormsq n m B.
Proof.
  intros n m A B H. unfold mnormsq. apply qsum_ext. intros i Hi. apply qsum_ext. intros j Hj.
  rewrite (H i j Hi Hj). reflexivity.
Qed.

(* ------------------------------------------------------------------------------------------ *)
(* determinant                                                                                *)
(* ------------------------------------------------------------------------------------------ *)
Lemma alt_ext : forall j a b, ceq a b -> ceq (alt j a) (alt j b).
Proof. intros j a b H. unfold alt. destruct (Nat.even j); rewrite H; reflexivity. Qed.
Lemma alt_scale : forall j c a, ceq (alt j (cmul c a)) (cmul c (alt j a)).
Proof. intros j c a. unfold alt. destruct (Nat.even j); ring. Qed.
Lemma alt_zero : forall j a, ceq a c0 -> ceq (alt j a) c0.
Proof. intros j a H. unfold alt. destruct (Nat.even j); rewrite H; ring. Qed.

Lemma minor_meq : forall n A B k, meq (S n) (S n) A B -> meq n n (minor A k) (minor B k).
Proof.
  intros n A B k H i j Hi Hj. unfold minor. apply H; [lia|]. destruct (Nat.ltb j k); lia.
Qed.

Lemma mdet_ext : forall n A B, meq n n A B -> ceq (mdet n A) (mdet n B).
Proof.
  induction n as [|n IH]; intros A B H; [reflexivity|].
  change (mdet (S n) A) with (csum (S n) (fun j => alt j (cmul (A O j) (mdet n (minor A j))))).
  change (mdet (S n) B) with (csum (S n) (fun j => alt j (cmul (B O j) (mdet n (minor B j))))).
  apply csum_ext. intros j Hj. apply alt_ext.
  rewrite (H O j) by lia. rewrite (IH (minor A j) (minor B j)) by (apply minor_meq; exact H). reflexivity.
Qed.

Lemma csum_red_eq : forall n f, ceq (csum_red n f) (csum n f).
Proof. induction n as [|n IH]; intro f; simpl; [reflexivity | rewrite cred_eq, IH; reflexivity]. Qed.

Lemma mdetr_eq : forall n A, ceq (mdetr n A) (mdet n A).
Proof.
  induction n as [|n IH]; intro A; [reflexivity|].
  change (mdetr (S n) A) with (csum_red (S n) (fun j => alt j (cred (cmul (A O j) (mdetr n (minor A j)))))).
  change (mdet (S n) A) with (csum (S n) (fun j => alt j (cmul (A O j) (mdet n (minor A j))))).
  rewrite csum_red_eq. apply csum_ext. intros j Hj. apply alt_ext. rewrite cred_eq, IH. reflexivity.
Qed.

(* det (c A) = c^n det A *)
Lemma mdet_scale : forall n c A, ceq (mdet n (mscale c A)) (cmul (cpow c n) (mdet n A)).
Proof.
  induction n as [|n IH]; intros c A; [simpl; ring|].
  change (mdet (S n) (mscale c A))
    with (csum (S n) (fun j => alt j (cmul (cmul c (A O j)) (mdet n (mscale c (minor A j)))))).
  change (mdet (S n) A) with (csum (S n) (fun j => alt j (cmul (A O j) (mdet n (minor A j))))).
  rewrite <- csum_scale. apply csum_ext. intros j Hj.
  rewrite <- alt_scale. apply alt_ext. rewrite IH. simpl cpow. ring.
Qed.

(* a diagonal matrix with a zero on its diagonal has determinant 0 *)
Definition is_diag (n : nat) (D : fmat) : Prop :=
  forall i j, (i < n)%nat -> (j < n)%nat -> i <> j -> ceq (D i j) c0.

Lemma mdet_diag_step : forall n D, is_diag (S n) D ->
  ceq (mdet (S n) D) (cmul (D O O) (mdet n (minor D O))).
Proof.
  intros n D H.
  change (mdet (S n) D) with (csum (S n) (fun j => alt j (cmul (D O j) (mdet n (minor D j))))).
  rewrite csum_first.
  - unfold alt. simpl. reflexivity.
  - intros j Hj. apply alt_zero. rewrite (H O j) by lia. ring.
Qed.

Lemma minor0_diag : forall n D, is_diag (S n) D -> is_diag n (minor D O).
Proof. intros n D H i j Hi Hj Hne. unfold minor. simpl. apply H; lia. Qed.

Lemma mdet_diag_zero : forall n D t, is_diag n D -> (t < n)%nat -> ceq (D t t) c0 -> ceq (mdet n D) c0.
Proof.
  induction n as [|n IH]; intros D t Hd Ht Hz; [lia|].
  rewrite mdet_diag_step by exact Hd. destruct t as [|t].
  - rewrite Hz. ring.
  - rewrite (IH (minor D O) t); [ring | apply minor0_diag; exact Hd | lia |].
    unfold minor. simpl. exact Hz.
Qed.

(* determinants of real matrices are real *)
Definition is_real (n m : nat) (A : fmat) : Prop := forall i j, (i < n)%nat -> (j < m)%nat -> creal (A i j).

Lemma minor_real : forall n A k, is_real (S n) (S n) A -> is_real n n (minor A k).
Proof. intros n A k H i j Hi Hj. unfold minor. apply H; [lia|]. destruct (Nat.ltb j k); lia. Qed.

Lemma mdet_real : forall n A, is_real n n A -> creal (mdet n A).
Proof.
  induction n as [|n IH]; intros A H; [apply creal_c1|].
  change (mdet (S n) A) with (csum (S n) (fun j => alt j (cmul (A O j) (mdet n (minor A j))))).
  apply csum_real. intros j Hj. unfold alt.
  assert (creal (cmul (A O j) (mdet n (minor A j)))).
  { apply creal_mul; [apply H; lia | apply IH; apply minor_real; exact H]. }
  destruct (Nat.even j); [assumption | apply creal_opp; assumption].
Qed.

(* ------------------------------------------------------------------------------------------ *)
(* symmetry classes                                                                           *)
(* ------------------------------------------------------------------------------------------ *)
Definition has_symmetry (sym : symm) (n : nat) (M : fmat) : Prop :=
  forall i j, (i < n)%nat -> (j < n)%nat ->
  match sym with
  | SNone => True
  | SDiag => i <> j -> ceq (M i j) c0
  | SSym => ceq (M i j) (M j i)
  | SAnti => ceq (M i j) (copp (M j i))
  | SHerm => ceq (M i j) (cconj (M j i))
  | SAHerm => ceq (M i j) (copp (cconj (M j i)))
  end.

Lemma has_symmetry_ext : forall sym n A B, meq n n B A -> has_symmetry sym n A -> has_symmetry sym n B.
Proof.
  intros sym n A B E H i j Hi Hj. specialize (H i j Hi Hj).
  pose proof (E i j Hi Hj) as E1. pose proof (E j i Hj Hi) as E2.
  destruct sym; try exact I; try (rewrite E1, E2; exact H).
  intro Hne. rewrite E1. apply H. exact Hne.
Qed.

(* the symmetrisation step produces the requested class, whatever the input *)
Lemma symmetrize_has_symmetry : forall sym n A, has_symmetry sym n (sq_symmetrize sym A).
Proof.
  intros sym n A i j Hi Hj. destruct sym; simpl; unfold mdiagonal, madd, msub, mconj, mT.
  - exact I.
  - intro Hne. apply Nat.eqb_neq in Hne. rewrite Hne. reflexivity.
  - ring.
  - ring.
  - rewrite cconj_add, cconj_involutive. ring.
  - rewrite cconj_sub, cconj_involutive. ring.
Qed.

(* scalars that may multiply / be subtracted on the diagonal without leaving the class *)
Definition k_ok (sym : symm) (k : C) : Prop :=
  match sym with SHerm | SAHerm => creal k | _ => True end.
Definition shift_ok (sym : symm) (c : C) : Prop :=
  match sym with SHerm => creal c | SAHerm => cre c == 0 | SAnti => ceq c c0 | _ => True end.

Lemma sym_scale : forall sym n A k, has_symmetry sym n A -> k_ok sym k -> has_symmetry sym n (mscale k A).
Proof.
  intros sym n A k H Hk i j Hi Hj. specialize (H i j Hi Hj). unfold mscale.
  destruct sym; simpl in *.
  - exact I.
  - intro Hne. rewrite (H Hne). ring.
  - rewrite H. reflexivity.
  - rewrite H. ring.
  - rewrite H. rewrite cconj_mul, (creal_conj_eq k Hk). reflexivity.
  - rewrite H. rewrite cconj_mul, (creal_conj_eq k Hk). ring.
Qed.

Lemma meye_sym : forall i j, meye i j = meye j i.
Proof. intros i j. unfold meye. rewrite (Nat.eqb_sym i j). reflexivity. Qed.
Lemma meye_off : forall i j, i <> j -> meye i j = c0.
Proof. intros i j H. unfold meye. apply Nat.eqb_neq in H. rewrite H. reflexivity. Qed.

Lemma cconj_meye : forall i j, ceq (cconj (meye i j)) (meye i j).
Proof. intros i j. unfold meye. destruct (Nat.eqb i j); unfold cconj, c1, c0, ceq; simpl; split; ring. Qed.

Lemma sym_shift : forall sym n A c, has_symmetry sym n A -> shift_ok sym c ->
  has_symmetry sym n (msub A (mscale c meye)).
Proof.
  intros sym n A c H Hc i j Hi Hj. specialize (H i j Hi Hj). unfold msub, mscale.
  destruct sym; simpl in *.
  - exact I.
  - intro Hne. rewrite (H Hne), (meye_off i j Hne). ring.
  - rewrite H, (meye_sym i j). reflexivity.
  - rewrite H, (meye_sym i j), Hc. ring.
  - rewrite H, (meye_sym i j). rewrite cconj_sub, cconj_mul, cconj_meye, (creal_conj_eq c Hc).
    reflexivity.
  - assert (E : ceq (cconj c) (copp c)).
    { destruct c as [x y]. unfold cre, cconj, copp, ceq in *. simpl in *. split; [rewrite Hc; ring | ring]. }
    rewrite H, (meye_sym i j). rewrite cconj_sub, cconj_mul, cconj_meye.
    rewrite E. ring.
Qed.

Lemma mdivc_meq : forall n m A r, meq n m (mdivc A r) (mscale (cinv r) A).
Proof. intros n m A r i j _ _. unfold mdivc, mscale. apply cdiv_mul. Qed.
Lemma mopp_meq : forall n m A, meq n m (mopp A) (mscale (copp c1) A).
Proof. intros n m A i j _ _. unfold mopp, mscale. ring. Qed.

Lemma k_ok_real : forall sym k, creal k -> k_ok sym k.
Proof. intros sym k H. destruct sym; simpl; auto. Qed.

Lemma sym_divc : forall sym n A r, has_symmetry sym n A -> k_ok sym r -> has_symmetry sym n (mdivc A r).
Proof.
  intros sym n A r H Hr. apply (has_symmetry_ext sym n (mscale (cinv r) A)); [apply mdivc_meq|].
  apply sym_scale; [exact H|]. destruct sym; simpl in *; auto; apply creal_cinv; exact Hr.
Qed.

Lemma sym_opp : forall sym n A, has_symmetry sym n A -> has_symmetry sym n (mopp A).
Proof.
  intros sym n A H. apply (has_symmetry_ext sym n (mscale (copp c1) A)); [apply mopp_meq|].
  apply sym_scale; [exact H|]. apply k_ok_real. reflexivity.
Qed.

Lemma sym_mset_diag : forall n A t, has_symmetry SDiag n A -> has_symmetry SDiag n (mset A t t c0).
Proof.
  intros n A t H i j Hi Hj Hne. unfold mset.
  destruct (Nat.eqb i t && Nat.eqb j t); [reflexivity | apply H; assumption].
Qed.

(* ---- the trace ---- *)
Lemma trace_shift_ok : forall sym n W, has_symmetry sym n W ->
  shift_ok sym (cdiv (mtrace n W) (cofQ (inject_Z (Z.of_nat n)))).
Proof.
  intros sym n W H. destruct sym; simpl; try exact I.
  - (* antisymmetric: the diagonal vanishes *)
    assert (E : ceq (mtrace n W) c0).
    { unfold mtrace. apply csum_zero. intros i Hi. specialize (H i i Hi Hi). simpl in H.
      destruct (W i i) as [x y]. unfold ceq, copp, c0 in *. simpl in *. destruct H. split; lra. }
    rewrite E. unfold cdiv. ring.
  - (* hermitian: the diagonal is real *)
    apply creal_div; [|apply creal_cofQ]. unfold mtrace. apply csum_real. intros i Hi.
    specialize (H i i Hi Hi). simpl in H. destruct (W i i) as [x y]. unfold ceq, cconj, creal in *. simpl in *.
    destruct H. lra.
  - (* antihermitian: the diagonal is purely imaginary *)
    assert (E : cre (mtrace n W) == 0).
    { unfold mtrace. apply csum_imag. intros i Hi. specialize (H i i Hi Hi). simpl in H.
      destruct (W i i) as [x y]. unfold ceq, cconj, copp, cre in *. simpl in *. destruct H. lra. }
    destruct (mtrace n W) as [x y]. unfold cdiv, cinv, cmul, cofQ, cre, cnormsq in *. simpl in *. rewrite E. unfold Qdiv. ring.
Qed.

Lemma traceless_has_symmetry : forall sym n W, has_symmetry sym n W -> has_symmetry sym n (sq_traceless n W).
Proof. intros sym n W H. unfold sq_traceless. cbv zeta. apply sym_shift; [exact H | apply trace_shift_ok; exact H]. Qed.

Lemma apply_symmetry_has_symmetry : forall sym traceless n A,
  has_symmetry sym n (sq_apply_symmetry sym traceless n A).
Proof.
  intros sym traceless n A. unfold sq_apply_symmetry. cbv zeta. destruct traceless.
  - apply traceless_has_symmetry. apply symmetrize_has_symmetry.
  - apply symmetrize_has_symmetry.
Qed.

Lemma mtrace_shift : forall n W c,
  ceq (mtrace n (msub W (mscale c meye))) (csub (mtrace n W) (cmul c (cofQ (inject_Z (Z.of_nat n))))).
Proof.
  intros n W c. unfold mtrace, msub, mscale.
  rewrite (csum_sub n (fun i => W i i) (fun i => cmul c (meye i i))).
  rewrite csum_scale, csum_eye. reflexivity.
Qed.

Lemma traceless_trace : forall n W, (0 < n)%nat -> ceq (mtrace n (sq_traceless n W)) c0.
Proof.
  intros n W Hn. unfold sq_traceless. cbv zeta. rewrite mtrace_shift.
  assert (Hne : ~ ceq (cofQ (inject_Z (Z.of_nat n))) c0).
  { apply cofQ_nonzero. intro E. assert (0 < inject_Z (Z.of_nat n)) by (rewrite <- (Zlt_Qlt 0); lia). lra. }
  field. exact Hne.
Qed.

Lemma mtrace_scale : forall n k A, ceq (mtrace n (mscale k A)) (cmul k (mtrace n A)).
Proof. intros n k A. unfold mtrace, mscale. apply csum_scale. Qed.

Lemma trace_zero_scale : forall n k A, ceq (mtrace n A) c0 -> ceq (mtrace n (mscale k A)) c0.
Proof. intros n k A H. rewrite mtrace_scale, H. ring. Qed.

(* ---- realness ---- *)
Lemma is_real_ext : forall n m A B, meq n m B A -> is_real n m A -> is_real n m B.
Proof. intros n m A B E H i j Hi Hj. apply (creal_ceq (A i j)); [symmetry; apply E; assumption | apply H; assumption]. Qed.

Lemma raw_array_real : forall re im n m, is_real n m (raw_array false re im).
Proof. intros re im n m i j _ _. unfold raw_array, creal. simpl. reflexivity. Qed.

Lemma symmetrize_real : forall sym n A, is_real n n A -> is_real n n (sq_symmetrize sym A).
Proof.
  intros sym n A H i j Hi Hj. destruct sym; simpl; unfold mdiagonal, madd, msub, mconj, mT.
  - apply H; assumption.
  - destruct (Nat.eqb i j); [apply H; assumption | apply creal_c0].
  - apply creal_add; apply H; assumption.
  - apply creal_sub; apply H; assumption.
  - apply creal_add; [|apply creal_conj]; apply H; assumption.
  - apply creal_sub; [|apply creal_conj]; apply H; assumption.
Qed.

Lemma meye_real : forall i j, creal (meye i j).
Proof. intros i j. unfold meye. destruct (Nat.eqb i j); reflexivity. Qed.

Lemma shift_real : forall n A c, is_real n n A -> creal c -> is_real n n (msub A (mscale c meye)).
Proof.
  intros n A c H Hc i j Hi Hj. unfold msub, mscale. apply creal_sub; [apply H; assumption|].
  apply creal_mul; [exact Hc | apply meye_real].
Qed.

Lemma mtrace_real : forall n A, is_real n n A -> creal (mtrace n A).
Proof. intros n A H. unfold mtrace. apply csum_real. intros i Hi. apply H; exact Hi. Qed.

Lemma apply_symmetry_real : forall sym traceless n A, is_real n n A ->
  is_real n n (sq_apply_symmetry sym traceless n A).
Proof.
  intros sym traceless n A H. unfold sq_apply_symmetry. cbv zeta.
  pose proof (symmetrize_real sym n A H) as Hs. destruct traceless; [|exact Hs].
  unfold sq_traceless. cbv zeta. apply shift_real; [exact Hs|].
  apply creal_div; [apply mtrace_real; exact Hs | apply creal_cofQ].
Qed.

Lemma scale_real : forall n m A k, is_real n m A -> creal k -> is_real n m (mscale k A).
Proof. intros n m A k H Hk i j Hi Hj. unfold mscale. apply creal_mul; [exact Hk | apply H; assumption]. Qed.

(* ------------------------------------------------------------------------------------------ *)
(* normalisation                                                                              *)
(* ------------------------------------------------------------------------------------------ *)
Definition norm_factor (lo hi : Q) (a : attempt) : Q := real_interval lo hi (a_u a) / a_norm a.

Lemma base_normalize_meq : forall n m lo hi a X,
  meq n m (base_normalize lo hi a X) (mscale (cofQ (norm_factor lo hi a)) X).
Proof.
  intros n m lo hi a X i j _ _. unfold base_normalize, mscale, norm_factor. cbv zeta.
  destruct (X i j) as [x y]. unfold cscale, cmul, cofQ, ceq. simpl. split; unfold Qdiv; ring.
Qed.

Lemma mnormsq_scale : forall n m q X, mnormsq n m (mscale (cofQ q) X) == q * q * mnormsq n m X.
Proof.
  intros n m q X. unfold mnormsq, mscale.
  rewrite <- qsum_scale. apply qsum_ext. intros i Hi. rewrite <- qsum_scale. apply qsum_ext. intros j Hj.
  rewrite cnormsq_mul, cnormsq_cofQ. reflexivity.
Qed.

(* with the contract of np.linalg.norm (its square is the sum of squares, and it is not 0), the
   squared norm of the normalised array is the square of the value drawn from the declared norm interval *)
Lemma base_normalize_norm : forall n m lo hi a X,
  a_norm a * a_norm a == mnormsq n m X -> ~ a_norm a == 0 ->
  mnormsq n m (base_normalize lo hi a X) == real_interval lo hi (a_u a) * real_interval lo hi (a_u a).
Proof.
  intros n m lo hi a X Hn Hz.
  rewrite (mnormsq_ext n m _ _ (base_normalize_meq n m lo hi a X)). rewrite mnormsq_scale, <- Hn.
  unfold norm_factor. field. exact Hz.
Qed.

Lemma base_normalize_sym : forall sym n lo hi a X, has_symmetry sym n X ->
  has_symmetry sym n (base_normalize lo hi a X).
Proof.
  intros sym n lo hi a X H. apply (has_symmetry_ext sym n _ _ (base_normalize_meq n n lo hi a X)).
  apply sym_scale; [exact H | apply k_ok_real; apply creal_cofQ].
Qed.

Lemma base_normalize_trace : forall n lo hi a X, ceq (mtrace n X) c0 ->
  ceq (mtrace n (base_normalize lo hi a X)) c0.
Proof.
  intros n lo hi a X H. rewrite (mtrace_ext n _ _ (base_normalize_meq n n lo hi a X)).
  apply trace_zero_scale. exact H.
Qed.

Lemma base_normalize_real : forall n m lo hi a X, is_real n m X -> is_real n m (base_normalize lo hi a X).
Proof.
  intros n m lo hi a X H. apply (is_real_ext n m _ _ (base_normalize_meq n m lo hi a X)).
  apply scale_real; [exact H | apply creal_cofQ].
Qed.

Lemma base_normalize_det : forall n lo hi a X,
  ceq (mdet n (base_normalize lo hi a X)) (cmul (cpow (cofQ (norm_factor lo hi a)) n) (mdet n X)).
Proof.
  intros n lo hi a X. rewrite (mdet_ext n _ _ (base_normalize_meq n n lo hi a X)). apply mdet_scale.
Qed.

(* ---- triangular matrices (GeneralMatrices) ---- *)
Definition is_upper (n m : nat) (M : fmat) : Prop := forall i j, (i < n)%nat -> (j < m)%nat -> (j < i)%nat -> ceq (M i j) c0.
Definition is_lower (n m : nat) (M : fmat) : Prop := forall i j, (i < n)%nat -> (j < m)%nat -> (i < j)%nat -> ceq (M i j) c0.
Definition tri_spec (tri : triopt) (n m : nat) (M : fmat) : Prop :=
  match tri with TUpper => is_upper n m M | TLower => is_lower n m M | TNone => True end.

Lemma tri_apply_spec : forall tri n m A, tri_spec tri n m (tri_apply tri A).
Proof.
  intros tri n m A. destruct tri; simpl; [exact I | |]; intros i j Hi Hj Hlt.
  - unfold mtriu. assert (E : Nat.leb i j = false) by (apply Nat.leb_gt; lia). rewrite E. reflexivity.
  - unfold mtril. assert (E : Nat.leb j i = false) by (apply Nat.leb_gt; lia). rewrite E. reflexivity.
Qed.

Lemma tri_spec_ext : forall tri n m A B, meq n m B A -> tri_spec tri n m A -> tri_spec tri n m B.
Proof.
  intros tri n m A B E H. destruct tri; simpl in *; [exact I | |]; intros i j Hi Hj Hlt;
    rewrite (E i j Hi Hj); apply H; assumption.
Qed.

Lemma tri_spec_scale : forall tri n m A k, tri_spec tri n m A -> tri_spec tri n m (mscale k A).
Proof.
  intros tri n m A k H. destruct tri; simpl in *; [exact I | |]; intros i j Hi Hj Hlt; unfold mscale;
    rewrite (H i j Hi Hj Hlt); ring.
Qed.

(* the whole pass for vectors / matrices / tensors *)
Lemma array_attempt_sound : forall tri cplx n m lo hi a,
  0 <= a_u a < 1 ->
  (let X := materialize n m (tri_apply tri (raw_array cplx (a_re a) (a_im a))) in
   a_norm a * a_norm a == mnormsq n m X /\ ~ a_norm a == 0) ->
  let M := array_attempt tri cplx n m lo hi a in
  tri_spec tri n m M /\
  (exists d, Qmin lo hi <= d <= Qmax lo hi /\ mnormsq n m M == d * d) /\
  (cplx = false -> is_real n m M).
Proof.
  intros tri cplx n m lo hi a [Hu0 Hu1] [Hn Hz]. cbv zeta. unfold array_attempt. cbv zeta.
  set (X := materialize n m (tri_apply tri (raw_array cplx (a_re a) (a_im a)))) in *.
  split; [|split].
  - apply (tri_spec_ext tri n m _ _ (base_normalize_meq n m lo hi a X)). apply tri_spec_scale.
    apply (tri_spec_ext tri n m _ _ (materialize_meq n m _)). apply tri_apply_spec.
  - exists (real_interval lo hi (a_u a)). destruct (real_interval_range lo hi (a_u a) Hu0 Hu1) as (R1 & R2 & _).
    split; [split; assumption|]. apply base_normalize_norm; assumption.
  - intros ->. apply base_normalize_real. apply (is_real_ext n m _ _ (materialize_meq n m _)).
    intros i j Hi Hj. destruct tri; simpl; unfold mtriu, mtril.
    + apply raw_array_real with (n := n) (m := m); assumption.
    + destruct (Nat.leb i j); [apply raw_array_real with (n := n) (m := m); assumption | apply creal_c0].
    + destruct (Nat.leb j i); [apply raw_array_real with (n := n) (m := m); assumption | apply creal_c0].
Qed.

(* ---- IdentityMatrixMultiples ---- *)
Lemma identity_multiple_spec : forall s i j,
  ceq (identity_multiple s i j) (if Nat.eqb i j then s else c0).
Proof. intros s i j. unfold identity_multiple, mscale, meye. destruct (Nat.eqb i j); ring. Qed.
