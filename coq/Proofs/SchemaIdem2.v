(* Proofs/SchemaIdem2.v -- idempotence of the special shapes: answers (validate_single_answer), NumberRange,
   shape specifications, Any(PercentageString, number), Any(class, Coerce(class)...). *)
From Coq Require Import ZArith QArith List Bool String Lia.
From Verif.Model Require Import Result Schema.
From Verif.Proofs Require Import Schema SchemaIdem.
Import ListNotations.
Open Scope list_scope.

(* ------------------------------------------------------------------------------------------------ *)
(* dictionaries                                                                                      *)
(* ------------------------------------------------------------------------------------------------ *)
Lemma dict_get_set_same : forall s x l, dict_get s (dict_set s x l) = Some x.
Proof.
  intros s x l. induction l as [|[k v] r IH]; cbn [dict_get dict_set].
  - rewrite key_is_refl. reflexivity.
  - destruct (key_is k s) eqn:K; cbn [dict_get]; rewrite K; [reflexivity | exact IH].
Qed.

Lemma dict_get_set_other : forall s t x l, str_eqb s t = false -> dict_get t (dict_set s x l) = dict_get t l.
Proof.
  intros s t x l Hst. induction l as [|[k v] r IH]; cbn [dict_get dict_set].
  - cbn [key_is]. rewrite Hst. reflexivity.
  - destruct (key_is k s) eqn:K; cbn [dict_get].
    + apply key_is_str in K. subst k. cbn [key_is]. rewrite Hst. reflexivity.
    + rewrite IH. reflexivity.
Qed.

Lemma dict_set_idem : forall s x l, dict_set s x (dict_set s x l) = dict_set s x l.
Proof.
  intros s x l. induction l as [|[k v] r IH]; cbn [dict_set].
  - rewrite key_is_refl. reflexivity.
  - destruct (key_is k s) eqn:K; cbn [dict_set]; rewrite K; [reflexivity | rewrite IH; reflexivity].
Qed.

Lemma dict_get_has_key : forall s l v, dict_get s l = Some v -> has_key s l = true.
Proof.
  intros s l v. unfold has_key. induction l as [|[k x] r IH]; cbn [dict_get existsb fst]; intro H; [discriminate|].
  destruct (key_is k s); [reflexivity | apply IH; exact H].
Qed.

Definition ok_values : list pyval := [PBool false; PBool true; PStr (zs "partial")].

Lemma grade_ok_value_in : forall g, In (grade_ok_value g) ok_values.
Proof.
  intro g. unfold grade_ok_value, ok_values.
  destruct (py_eqb g (PInt 0)); [left; reflexivity|]. destruct (py_eqb g (PInt 1)); [right; left; reflexivity | right; right; left; reflexivity].
Qed.

Lemma ok_value_not_computed : forall y, In y ok_values -> py_eqb y (PStr (zs "computed")) = false.
Proof. intros y [<-|[<-|[<-|[]]]]; reflexivity. Qed.

(* the `ok` recomputation of validate_single_answer is idempotent *)
Lemma fix_ok_dict : forall l,
  fix_ok (PDict l) =
  match dict_get (zs "ok") l, dict_get (zs "grade_decimal") l with
  | Some ok, Some g =>
      if py_eqb ok (PStr (zs "computed")) || negb (py_eqb g (PInt 1))
      then PDict (dict_set (zs "ok") (grade_ok_value g) l) else PDict l
  | _, _ => PDict l
  end.
Proof. reflexivity. Qed.

Lemma fix_ok_idem : forall r, fix_ok (fix_ok r) = fix_ok r.
Proof.
  intro r. destruct r; try reflexivity.
  rewrite (fix_ok_dict l).
  destruct (dict_get (zs "ok") l) as [ok|] eqn:Hok.
  2: { rewrite fix_ok_dict, Hok. reflexivity. }
  destruct (dict_get (zs "grade_decimal") l) as [g|] eqn:Hg.
  2: { rewrite fix_ok_dict, Hok, Hg. reflexivity. }
  destruct (py_eqb ok (PStr (zs "computed")) || negb (py_eqb g (PInt 1))) eqn:C.
  - rewrite fix_ok_dict, dict_get_set_same.
    rewrite (dict_get_set_other (zs "ok") (zs "grade_decimal")) by reflexivity. rewrite Hg.
    rewrite (ok_value_not_computed _ (grade_ok_value_in g)).
    destruct (negb (py_eqb g (PInt 1))); cbn [orb]; [rewrite dict_set_idem|]; reflexivity.
  - rewrite fix_ok_dict, Hok, Hg, C. reflexivity.
Qed.

Section Special.
  Variable orc : Z -> pyval -> outcome pyval.
  Notation V := (validate orc).
  Notation Idem := (Idem orc).

  Lemma single_answer_unfold : forall ans v,
    V (SSingleAnswer ans) v =
    match V ans v with
    | Ret r => Ret (fix_ok r)
    | Raise EInvalid =>
        match V ans (PDict [(s_expect, v); (s_ok, PBool true)]) with
        | Ret r => Ret (fix_ok r)
        | Raise e => Raise e
        end
    | Raise e => Raise e
    end.
  Proof. reflexivity. Qed.

  (* ItemGrader.validate_single_answer around a mapping schema whose `ok` option accepts True/False/'partial' *)
  Theorem idem_single_answer : forall es sok,
    Idem (SDict es None) ->
    lookup_schema None es (PStr (zs "ok")) = Some sok ->
    (forall y, In y ok_values -> V sok y = Ret y) ->
    Idem (SSingleAnswer (SDict es None)).
  Proof.
    intros es sok Hd Lok Hok v v' H.
    assert (Hx : exists x r, V (SDict es None) x = Ret r /\ v' = fix_ok r).
    { rewrite single_answer_unfold in H. destruct (V (SDict es None) v) as [r|e] eqn:E.
      - inversion H. exists v, r. auto.
      - destruct e; try discriminate.
        destruct (V (SDict es None) (PDict [(s_expect, v); (s_ok, PBool true)])) as [r|e] eqn:E2; [|discriminate].
        inversion H. eexists _, r. split; [exact E2 | reflexivity]. }
    destruct Hx as [x [r [Hr ->]]].
    pose proof (Hd _ _ Hr) as Hfix.
    destruct (dict_output_dict orc _ _ _ _ Hr) as [out ->].
    assert (H1 : V (SDict es None) (fix_ok (PDict out)) = Ret (fix_ok (PDict out))).
    { rewrite fix_ok_dict. destruct (dict_get (zs "ok") out) as [ok|] eqn:Gok; [|exact Hfix].
      destruct (dict_get (zs "grade_decimal") out) as [g|]; [|exact Hfix].
      destruct (py_eqb ok (PStr (zs "computed")) || negb (py_eqb g (PInt 1))); [|exact Hfix].
      eapply dict_set_fixed; [exact Hfix | eapply dict_get_has_key; exact Gok | exact Lok | apply Hok; apply grade_ok_value_in]. }
    rewrite single_answer_unfold, H1, fix_ok_idem. reflexivity.
  Qed.

  (* ---------------------------------------------------------------------------------------------- *)
  (* NumberRange(t)                                                                                 *)
  (* ---------------------------------------------------------------------------------------------- *)
  Definition number_range_dict (t : pytype) : schema :=
    SDict [(zs "start", true, Some (PInt 1), SType t); (zs "stop", true, Some (PInt 5), SType t)] None.
  Definition number_range_alt (t : pytype) : schema :=
    SAll [SAll [SList [SType t; SType t]; SLength (Some 2%Z) (Some 2%Z)]; SStartStop].
  Definition number_range (t : pytype) : schema := SAny [number_range_dict t; number_range_alt t].

  Lemma type_ret : forall t a y, V (SType t) a = Ret y -> has_type t a = true /\ y = a.
  Proof. intros t a y H. simpl in H. destruct (has_type t a); inversion H. auto. Qed.

  Lemma number_range_alt_output : forall t v v',
    V (number_range_alt t) v = Ret v' ->
    exists a b, v' = PDict [(PStr (zs "start"), a); (PStr (zs "stop"), b)] /\ has_type t a = true /\ has_type t b = true.
  Proof.
    intros t v v' H. unfold number_range_alt in H. rewrite all_two in H.
    destruct (V (SAll [SList [SType t; SType t]; SLength (Some 2%Z) (Some 2%Z)]) v) as [w|e] eqn:E; [|discriminate].
    assert (Hf : is_filter (SAll [SList [SType t; SType t]; SLength (Some 2%Z) (Some 2%Z)]) = true) by reflexivity.
    pose proof (filter_same orc _ Hf _ _ E). subst w.
    simpl in H. destruct v; try discriminate. destruct l as [|a [|b [|c r]]]; try discriminate.
    inversion H; subst v'. exists a, b. split; [reflexivity|].
    rewrite all_two in E. destruct (V (SList [SType t; SType t]) (PList [a; b])) as [w|e] eqn:E1; [|discriminate].
    rewrite validate_SList in E1. unfold seq_result in E1.
    destruct (seq_loop (V (SAny [SType t; SType t])) [a; b]) as [ys|e] eqn:E2; [|discriminate].
    apply seq_loop_ret in E2. inversion E2 as [|? ya ? ? Ha Hrest]; subst. inversion Hrest as [|? yb ? ? Hb _]; subst.
    assert (Hany : forall z y, V (SAny [SType t; SType t]) z = Ret y -> has_type t z = true).
    { intros z y Hz. rewrite validate_SAny in Hz. simpl in Hz. destruct (has_type t z); [reflexivity | discriminate]. }
    split; [eapply Hany; exact Ha | eapply Hany; exact Hb].
  Qed.

  Lemma number_range_dict_accepts : forall t a b, has_type t a = true -> has_type t b = true ->
    V (number_range_dict t) (PDict [(PStr (zs "start"), a); (PStr (zs "stop"), b)])
    = Ret (PDict [(PStr (zs "start"), a); (PStr (zs "stop"), b)]).
  Proof.
    intros t a b Ha Hb. unfold number_range_dict. rewrite validate_SDict.
    replace (defaults_for _ _) with (@nil (pyval * pyval)) by reflexivity.
    simpl app. cbn [dict_loop]. unfold dict_fn.
    replace (lookup_schema None _ (PStr (zs "start"))) with (Some (SType t)) by reflexivity.
    replace (lookup_schema None _ (PStr (zs "stop"))) with (Some (SType t)) by reflexivity.
    simpl. rewrite Ha, Hb. reflexivity.
  Qed.

  Theorem idem_number_range : forall t, Idem (number_range t).
  Proof.
    intro t. unfold number_range. apply idem_any_head.
    - apply idem_dict; [|exact I]. repeat constructor; apply idem_filter; reflexivity.
    - constructor; [|constructor]. right. intros v v' H.
      destruct (number_range_alt_output _ _ _ H) as [a [b [-> [Ha Hb]]]]. apply number_range_dict_accepts; assumption.
  Qed.

  (* ---------------------------------------------------------------------------------------------- *)
  (* is_shape_specification                                                                         *)
  (* ---------------------------------------------------------------------------------------------- *)
  Definition shape_any (p : schema) : schema :=
    SAny [SAll [p; SWrapAlways]; STuple [p]; SAll [SList [p]; SCoerceTuple]].

  Lemma tuple1_fixed : forall p xs, is_filter p = true -> seq_loop (V (SAny [p])) xs = Ret xs ->
    V (STuple [p]) (PTuple xs) = Ret (PTuple xs).
  Proof. intros p xs Hp H. rewrite validate_STuple. unfold seq_result. rewrite H. reflexivity. Qed.

  Theorem idem_shape_any : forall p, is_filter p = true -> (forall l, V p (PTuple l) = Raise EInvalid) -> Idem (shape_any p).
  Proof.
    intros p Hp Hrej. unfold shape_any. apply idem_any.
    assert (Hskip : forall l, V (SAll [p; SWrapAlways]) (PTuple l) = Raise EInvalid) by (intro l; rewrite all_two, Hrej; reflexivity).
    constructor; [|constructor; [|constructor; [|constructor]]].
    - right. intros v v' H. rewrite all_two in H. destruct (V p v) as [y|e] eqn:E; [|discriminate].
      pose proof (filter_same orc p Hp _ _ E). subst y. simpl in H. inversion H; subst v'.
      rewrite any_skip by apply Hskip. apply any_head_ret. apply tuple1_fixed; [exact Hp|].
      cbn [seq_loop]. rewrite any_single, E. reflexivity.
    - left. simpl. rewrite Hp. reflexivity.
    - right. intros v v' H. rewrite all_two in H. destruct (V (SList [p]) v) as [w|e] eqn:E; [|discriminate].
      assert (Hf : is_filter (SList [p]) = true) by (simpl; rewrite Hp; reflexivity).
      pose proof (filter_same orc _ Hf _ _ E). subst w.
      rewrite validate_SList in E. destruct v; try discriminate. unfold seq_result in E.
      destruct (seq_loop (V (SAny [p])) l) as [ys|e] eqn:E2; [|discriminate]. inversion E; subst ys.
      simpl in H. inversion H; subst v'.
      rewrite any_skip by apply Hskip. apply any_head_ret. apply tuple1_fixed; assumption.
  Qed.

  (* ---------------------------------------------------------------------------------------------- *)
  (* Any(PercentageString, filter)                                                                  *)
  (* ---------------------------------------------------------------------------------------------- *)
  Theorem idem_oracle_first : forall id f,
    (forall v v', orc id v = Ret v' -> orc id v' = Ret v') -> is_filter f = true -> Idem (SAny [SOracle id; f]).
  Proof.
    intros id f Ho Hf. apply idem_any_head.
    - intros v v' H. simpl in *. eapply Ho. exact H.
    - constructor; [left; exact Hf | constructor].
  Qed.

  (* ---------------------------------------------------------------------------------------------- *)
  (* Any(SomeClass, ..., Coerce(SubClassOfIt))                                                      *)
  (* ---------------------------------------------------------------------------------------------- *)
  Lemma class_accepts_tagged : forall c tags body, existsb (Z.eqb c) tags = true ->
    V (SType (TClass c)) (PObj tags body) = Ret (PObj tags body).
  Proof. intros c tags body H. simpl. rewrite H. reflexivity. Qed.

  Fixpoint last_coerce_tags (l : list schema) : option (list Z) :=
    match l with
    | [] => None
    | a :: r => match r with
                | [] => match a with SCoerceObj tags _ _ => Some tags | _ => None end
                | _ => last_coerce_tags r
                end
    end.

  Lemma last_coerce_tags_spec : forall l tags, last_coerce_tags l = Some tags ->
    exists pre inner p, l = pre ++ [SCoerceObj tags inner p].
  Proof.
    induction l as [|a r IH]; intros tags H; [discriminate|].
    destruct r as [|b r'].
    - simpl in H. destruct a as [| | | | | | | | | | | | | | | | | | | | |tg inner p]; try discriminate.
      inversion H; subst. exists [], inner, p. reflexivity.
    - change (last_coerce_tags (a :: b :: r')) with (last_coerce_tags (b :: r')) in H.
      destruct (IH _ H) as [pre [inner [p Hp]]]. exists (a :: pre), inner, p. rewrite Hp. reflexivity.
  Qed.

  (* the alternative always ends in Coerce(SomeClass) where SomeClass is (a subclass of) class c *)
  Definition coerces_into (c : Z) (a : schema) : bool :=
    match a with
    | SCoerceObj tags _ _ => existsb (Z.eqb c) tags
    | SAll l => match last_coerce_tags l with Some tags => existsb (Z.eqb c) tags | None => false end
    | _ => false
    end.

  Lemma coerces_into_output : forall c a v v', coerces_into c a = true -> V a v = Ret v' ->
    exists tags body, v' = PObj tags body /\ existsb (Z.eqb c) tags = true.
  Proof.
    intros c a v v' Hc H. destruct a; try discriminate Hc.
    - simpl in Hc. destruct (last_coerce_tags steps) as [tags|] eqn:L; [|discriminate].
      destruct (last_coerce_tags_spec _ _ L) as [pre [inner [p ->]]].
      destruct (all_last_coerce orc _ _ _ _ _ _ H) as [body ->]. exists tags, body. auto.
    - simpl in Hc. destruct (coerce_output orc _ _ _ _ _ H) as [body ->]. exists tags, body. auto.
  Qed.

  Theorem idem_class_or_coerced : forall c rest,
    forallb (fun a => is_filter a || coerces_into c a) rest = true -> Idem (SAny (SType (TClass c) :: rest)).
  Proof.
    intros c rest HF. apply idem_any_head; [apply idem_filter; reflexivity|].
    rewrite forallb_forall in HF. apply Forall_forall. intros a Hin. specialize (HF a Hin).
    apply orb_true_iff in HF. destruct HF as [Hf|Hc]; [left; exact Hf|].
    right. intros v v' H. destruct (coerces_into_output _ _ _ _ Hc H) as [tags [body [-> Ht]]].
    apply class_accepts_tagged. exact Ht.
  Qed.

  (* schema_user_functions: Any(is_callable, All([is_callable], Coerce(SpecificFunctions)), FunctionSamplingSet) *)
  Theorem idem_callable_coerce_class : forall g tags inner p c,
    existsb (Z.eqb c) tags = true ->
    Idem (SAny [SCallable; SAll [SList g; SCoerceObj tags inner p]; SType (TClass c)]).
  Proof.
    intros g tags inner p c Ht. apply idem_any.
    constructor; [left; reflexivity | constructor; [|constructor; [left; reflexivity | constructor]]].
    right. intros v v' H.
    destruct (all_last_coerce orc [SList g] tags inner p v v' H) as [body ->].
    destruct (V SCallable (PObj tags body)) as [y|e] eqn:E.
    - apply any_head_ret. pose proof (filter_same orc SCallable eq_refl _ _ E). subst y. exact E.
    - assert (e = EInvalid) by (cbn [validate] in E; destruct (has_tag tag_callable (PObj tags body)); inversion E; reflexivity). subst e.
      rewrite any_skip by exact E. rewrite any_skip.
      + apply any_head_ret. apply class_accepts_tagged. exact Ht.
      + rewrite all_two. rewrite validate_SList. reflexivity.
  Qed.
End Special.
