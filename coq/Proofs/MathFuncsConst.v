(* Proofs/MathFuncsConst.v -- C15: the double-precision constants behind np.pi and np.e (the exact rationals are what
   evaluator('pi') / evaluator('e') return; the harness checks that equality on every run) are the doubles nearest to
   pi and e: enclosures certified by Interval. *)
From Coq Require Import Reals.
From Interval Require Import Tactic.
Open Scope R_scope.

Definition pi_double : R := 884279719003555 / 281474976710656.
Definition e_double : R := 6121026514868073 / 2251799813685248.

(* half an ulp of a double in [2, 4) is 2^-52 *)
Lemma pi_double_nearest : Rabs (PI - pi_double) <= / 2 ^ 52.
Proof. unfold pi_double. interval with (i_prec 100). Qed.

Lemma e_double_nearest : Rabs (exp 1 - e_double) <= / 2 ^ 52.
Proof. unfold e_double. interval with (i_prec 100). Qed.
