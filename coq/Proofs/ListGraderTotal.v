(* Proofs/ListGraderTotal.v -- C05, part 5: totality of the unordered branch (the model returns whenever the
   subgraders return, by C06's unconditional termination theorem); under a grouping with equal-size groups the total credit
   of ALL reported entries is maximal over all one-to-one assignments of groups to answers. *)
From Coq Require Import ZArith QArith Qabs List Bool Arith Lia Lqa Permutation Sorted.
From Verif.Lib Require Import QRound.
From Verif.Model Require Import Result Munkres ListGrader.
From Verif.Proofs Require Import Credit MunkresDuality MunkresSpec MunkresCorrect MunkresTerm
                                 ListGraderGroup ListGraderAssign ListGrader ListGraderFinal.
Import ListNotations.
Close Scope Q_scope.
Open Scope nat_scope.

Lemma total_perm : forall a b, Permutation a b -> (total a == total b)%Q.
Proof. intros a b P. unfold total. apply sumQ_perm. apply Permutation_map. exact P. Qed.

Lemma picks_Forall : forall (P : result -> Prop) R m rs,
  (forall p r, pick R p = Some r -> P r) -> all_some (map (pick R) m) = Some rs -> Forall P rs.
Proof.
  intros P R m rs HP H. apply all_some_map_Forall2 in H.
  induction H; constructor; eauto.
Qed.

Lemma rect_pick : forall n (R : list (list result)) i j, rect n n R -> i < n -> j < n ->
  exists r, pick R (i, j) = Some r.
Proof.
  intros n R i j [L F] Hi Hj. unfold pick. simpl.
  destruct (nth_error R i) as [row|] eqn:Er; [| apply nth_error_None in Er; lia].
  rewrite Forall_forall in F. specialize (F row (nth_error_In _ _ Er)).
  destruct (nth_error row j) as [r|] eqn:Ej; [eauto | apply nth_error_None in Ej; lia].
Qed.

Section Returns.
  Variables X A : Type.
  Variable check : nat -> A -> ginput X -> option (list (nat * ginput X)) -> option result.

  (* the unordered branch returns whenever every subgrader call returns (C06: the solver terminates on every
     integer matrix, so no bound on the grades or on the scaled costs is needed) *)
  Theorem unordered_returns : forall n answers gin R,
    1 <= n -> length answers = n -> length gin = n ->
    result_matrix X A check answers gin = Some R ->
    exists rs, unordered_results X A check solveZ answers gin = Some rs.
  Proof.
    intros n answers gin R Hn La Lg HR. unfold unordered_results. rewrite HR.
    destruct (result_matrix_spec X A check _ _ _ HR) as [Hrect _]. rewrite La, Lg in Hrect.
    assert (HRC : rect n n (cost_matrix R)).
    { destruct Hrect as [H1 H2]. unfold rect, cost_matrix. rewrite map_length. split; [exact H1|].
      apply Forall_forall. intros row Hr. apply in_map_iff in Hr. destruct Hr as [row' [<- Hin]].
      rewrite map_length. rewrite Forall_forall in H2. apply H2. exact Hin. }
    destruct (solveZ (cost_matrix R)) as [idx|] eqn:ES.
    - destruct (solveZ_ok n n (cost_matrix R) idx Hn Hn HRC ES) as [[_ [_ Hin]] _].
      apply all_some_total. intros o Ho. apply in_map_iff in Ho. destruct Ho as [[i j] [<- Hp]].
      rewrite Forall_forall in Hin. specialize (Hin _ Hp). simpl in Hin.
      destruct (rect_pick n R i j Hrect (proj1 Hin) (proj2 Hin)) as [r Hr]. rewrite Hr. discriminate.
    - exfalso. unfold solveZ in ES.
      exact (munkres_terminates n n (scaled_matrix (cost_matrix R)) Hn Hn (rect_scaled _ _ _ HRC) ES).
  Qed.

  Lemma flatten_plain_total : forall rs, Forall (fun r => exists e, r = GOne e) rs ->
    exists es, flatten_plain rs = Some es.
  Proof.
    intros rs H. unfold flatten_plain. apply all_some_total. intros o Ho.
    apply in_map_iff in Ho. destruct Ho as [r [<- Hr]]. rewrite Forall_forall in H.
    destruct (H r Hr) as [e ->]. discriminate.
  Qed.

  (* ... hence an unordered ListGrader without grouping always returns when its subgrader returns a short-form
     result for every (answer, input) pair and the submission has the right length *)
  Theorem unordered_flat_returns : forall (dX : X) c answers xs R,
    lg_ordered c = false -> lg_grouping c = [] -> 1 <= length xs -> length answers = length xs ->
    result_matrix X A check answers (map GOne xs) = Some R ->
    (forall p r, pick R p = Some r -> exists e, r = GOne e) ->
    exists es, perform_check X A dX check solveZ c answers xs = Some es.
  Proof.
    intros dX c answers xs R Ho Hg Hn La HR Hshort. unfold perform_check. rewrite Hg, La, Nat.eqb_refl.
    unfold sub_results. rewrite Ho.
    destruct (unordered_returns (length xs) answers (map GOne xs) R Hn La (map_length _ _) HR) as [rs Hrs].
    rewrite Hrs. apply flatten_plain_total.
    unfold unordered_results in Hrs. rewrite HR in Hrs.
    destruct (solveZ (cost_matrix R)) as [idx|]; [| discriminate].
    eapply picks_Forall; [| exact Hrs]. exact Hshort.
  Qed.
End Returns.

Section GroupedTotal.
  Variables X A : Type.
  Variable dX : X.
  Variable check : nat -> A -> ginput X -> option (list (nat * ginput X)) -> option result.

  (* groups of k boxes each, every subgrader result with one non-negative entry per box of the group:
     the SUM OF ALL REPORTED ENTRIES is at least the sum of the entries of any other one-to-one assignment of
     groups to answers *)
  Theorem unordered_grouped_total_max : forall c answers xs es k,
    lg_ordered c = false -> valid_grouping (lg_grouping c) ->
    length answers = list_max (lg_grouping c) ->
    1 <= k -> (forall grp, In grp (group_map (lg_grouping c)) -> length grp = k) ->
    (forall R, result_matrix X A check answers (groupify dX (group_map (lg_grouping c)) xs) = Some R ->
               forall p r, pick R p = Some r -> well_shaped k r) ->
    perform_check X A dX check solveZ c answers xs = Some es ->
    let gm := group_map (lg_grouping c) in
    let gin := groupify dX gm xs in
    let n := length gm in
    exists R sigma rs,
      result_matrix X A check answers gin = Some R
      /\ Permutation sigma (seq 0 n)
      /\ all_some (map (pick R) (combine (seq 0 n) sigma)) = Some rs
      /\ Permutation es (concat (map entries_of rs))
      /\ forall tau rs', Permutation tau (seq 0 n) ->
           all_some (map (pick R) (combine (seq 0 n) tau)) = Some rs' ->
           (total (concat (map entries_of rs')) <= total es)%Q.
  Proof.
    intros c answers xs es k Ho V La Hk Hsz Hws H gm gin n.
    destruct (unordered_grouped_optimal_Z X A dX check c answers xs es Ho V La H)
      as [Le [R [sigma [rs [HR [Ps [Hsel [Hu [Hbox Hmax]]]]]]]]].
    fold gm gin n in HR, Ps, Hsel, Hu, Hbox, Hmax.
    specialize (Hws R HR).
    assert (Wrs : Forall (well_shaped k) rs) by (eapply picks_Forall; eauto).
    assert (Lrs : length rs = length gm).
    { rewrite (all_some_length _ _ Hsel), map_length, combine_length, seq_length.
      rewrite (Permutation_length Ps), seq_length. unfold n. lia. }
    assert (Pe : Permutation es (concat (map entries_of rs))).
    { apply (ungroupify_permutation (lg_grouping c) rs es V Hu Lrs).
      intros t grp r Hg Hr. rewrite (Hsz grp (nth_error_In _ _ Hg)).
      rewrite Forall_forall in Wrs. destruct (Wrs r (nth_error_In _ _ Hr)) as [Lr _]. exact Lr. }
    exists R, sigma, rs. split; [exact HR|]. split; [exact Ps|]. split; [exact Hsel|]. split; [exact Pe|].
    intros tau rs' Pt Hrs'.
    assert (Wrs' : Forall (well_shaped k) rs') by (eapply picks_Forall; eauto).
    pose proof (credit_grouped k rs Hk Wrs) as C1.
    pose proof (credit_grouped k rs' Hk Wrs') as C2.
    pose proof (Hmax tau rs' Pt Hrs') as Hle.
    pose proof (inject_nat_pos k Hk) as HK.
    rewrite (total_perm _ _ Pe), <- C1, <- C2.
    apply Qmult_le_compat_r; [exact Hle | lra].
  Qed.
End GroupedTotal.
