(* EvalFrontDoor.v -- lemmas about the string-level entry points of the model: spaces are irrelevant,
   blank input is nan, the max_array_dim check, undefined names, suffix scaling, redundant parentheses
   at token level. *)
From Coq Require Import ZArith QArith Qabs List Bool Lia.
From Verif.Model Require Import Result Lexer Parser Eval EvalSpec.
From Verif.Proofs Require Import ParserRoundTrip ParserSound.
Import ListNotations.

(* ---------- spaces (anywhere) ---------- *)
Theorem parse_formula_spaces : forall s s', strip_spaces s = strip_spaces s' -> parse_formula s = parse_formula s'.
Proof. intros s s' H. unfold parse_formula. rewrite H. reflexivity. Qed.

Lemma strip_spaces_app : forall a b, strip_spaces (a ++ b) = strip_spaces a ++ strip_spaces b.
Proof. intros. unfold strip_spaces. apply filter_app. Qed.

Lemma strip_spaces_insert : forall a b n, strip_spaces (a ++ repeat ch_space n ++ b) = strip_spaces (a ++ b).
Proof.
  intros a b n. rewrite !strip_spaces_app. f_equal.
  replace (strip_spaces (repeat ch_space n)) with (@nil Z); [reflexivity|].
  induction n; simpl; auto.
Qed.

Theorem parse_formula_insert_spaces : forall a b n,
  parse_formula (a ++ repeat ch_space n ++ b) = parse_formula (a ++ b).
Proof. intros. apply parse_formula_spaces, strip_spaces_insert. Qed.

Lemma space_is_pyspace : is_pyspace ch_space = true.
Proof. reflexivity. Qed.

Lemma lstrip_strip : forall s, strip_spaces (lstrip s) = lstrip (strip_spaces s).
Proof.
  induction s as [|c s IH]; [reflexivity|]. simpl.
  destruct (is_pyspace c) eqn:P.
  - destruct (Z.eqb c ch_space) eqn:C; simpl.
    + exact IH.
    + rewrite P. exact IH.
  - assert (C : Z.eqb c ch_space = false).
    { destruct (Z.eqb c ch_space) eqn:C; [|reflexivity]. apply Z.eqb_eq in C. subst. discriminate. }
    simpl. rewrite C. simpl. rewrite P. reflexivity.
Qed.

Lemma strip_spaces_rev : forall s, strip_spaces (rev s) = rev (strip_spaces s).
Proof.
  induction s as [|c s IH]; [reflexivity|]. simpl. rewrite strip_spaces_app, IH. simpl.
  destruct (negb (c =? ch_space)%Z); simpl; [reflexivity|apply app_nil_r].
Qed.

Lemma py_strip_strip : forall s, strip_spaces (py_strip s) = py_strip (strip_spaces s).
Proof.
  intro s. unfold py_strip. rewrite strip_spaces_rev, lstrip_strip, strip_spaces_rev, lstrip_strip. reflexivity.
Qed.

Lemma lstrip_head : forall s c r, lstrip s = c :: r -> is_pyspace c = false.
Proof.
  induction s as [|d s IH]; intros c r H; [discriminate|]. simpl in H.
  destruct (is_pyspace d) eqn:P; [apply (IH _ _ H)|]. inversion H; subst. assumption.
Qed.

Lemma py_strip_head : forall s c r, py_strip s = c :: r -> is_pyspace c = false.
Proof.
  intros s c r H. unfold py_strip in H.
  (* the first character of the result is the last character kept by the inner lstrip of the reverse,
     which is the first character of lstrip s *)
  remember (lstrip s) as u eqn:Eu.
  assert (Hu : forall c' r', u = c' :: r' -> is_pyspace c' = false) by (intros; eapply lstrip_head; rewrite <- Eu; eassumption).
  clear Eu. destruct u as [|c0 u]; [discriminate|].
  specialize (Hu c0 u eq_refl).
  (* rev (lstrip (rev (c0 :: u))) starts with c0 because c0 is not stripped *)
  assert (Hk : forall l, lstrip (l ++ [c0]) = lstrip l ++ [c0] \/ (lstrip l = [] /\ lstrip (l ++ [c0]) = [c0])).
  { induction l as [|x l IH]; simpl.
    - rewrite Hu. right. auto.
    - destruct (is_pyspace x); [exact IH|left; reflexivity]. }
  simpl in H. destruct (Hk (rev u)) as [E|[E1 E2]].
  - rewrite E, rev_app_distr in H. simpl in H. inversion H; subst. assumption.
  - rewrite E2 in H. simpl in H. inversion H; subst. assumption.
Qed.

Lemma strip_spaces_nil_pyspace : forall s c r, s = c :: r -> is_pyspace c = false -> strip_spaces s <> [].
Proof.
  intros s c r E P. subst. simpl.
  assert (C : Z.eqb c ch_space = false).
  { destruct (Z.eqb c ch_space) eqn:C; [|reflexivity]. apply Z.eqb_eq in C. subst. discriminate. }
  rewrite C. simpl. discriminate.
Qed.

(* the evaluator's outcome depends on the formula only through its space-free text *)
Theorem evaluator_spaces : forall E md s s',
  strip_spaces s = strip_spaces s' -> evaluator E md (Some s) = evaluator E md (Some s').
Proof.
  intros E md s s' H.
  assert (K : strip_spaces (py_strip s) = strip_spaces (py_strip s')) by (rewrite !py_strip_strip, H; reflexivity).
  unfold evaluator.
  destruct (py_strip s) as [|c r] eqn:A; destruct (py_strip s') as [|c' r'] eqn:B.
  - reflexivity.
  - exfalso. apply (strip_spaces_nil_pyspace (c' :: r') c' r' eq_refl (py_strip_head _ _ _ B)). rewrite <- K. reflexivity.
  - exfalso. apply (strip_spaces_nil_pyspace (c :: r) c r eq_refl (py_strip_head _ _ _ A)). rewrite K. reflexivity.
  - rewrite (parse_formula_spaces _ _ K). reflexivity.
Qed.

(* ---------- blank input ---------- *)
Lemma lstrip_blank : forall s, forallb is_pyspace s = true -> lstrip s = [].
Proof.
  induction s as [|c s IH]; intro H; [reflexivity|]. simpl in *.
  apply andb_true_iff in H. destruct H as [H1 H2]. rewrite H1. auto.
Qed.

Theorem evaluator_none : forall E md, evaluator E md None = ONan.
Proof. reflexivity. Qed.

Theorem evaluator_blank : forall E md s, forallb is_pyspace s = true -> evaluator E md (Some s) = ONan.
Proof.
  intros E md s H. unfold evaluator, py_strip. rewrite (lstrip_blank s H). reflexivity.
Qed.

(* ---------- outcomes of a non-blank formula ---------- *)
Theorem evaluator_unparsable : forall E md s c r,
  py_strip s = c :: r -> parse_formula (c :: r) = PUnparsable -> evaluator E md (Some s) = OParseError PEUnparsable.
Proof. intros E md s c r H1 H2. unfold evaluator. rewrite H1, H2. reflexivity. Qed.

Theorem evaluator_unbalanced : forall E md s c r e,
  py_strip s = c :: r -> parse_formula (c :: r) = PUnbalanced e ->
  evaluator E md (Some s) = OParseError (PEUnbalanced e).
Proof. intros E md s c r e H1 H2. unfold evaluator. rewrite H1, H2. reflexivity. Qed.

(* the dimension check happens after a successful evaluation and turns the value into a parse-class error *)
Theorem evaluator_max_array_dim : forall E d s c r t v,
  py_strip s = c :: r -> parse_formula (c :: r) = PTree t -> check_scope E t = None -> eval E t = Ok v ->
  evaluator E (Some d) (Some s) = if (d <? max_dim_used E t)%nat then OParseError PETooManyDims else OVal v.
Proof. intros E d s c r t v H1 H2 H3 H4. unfold evaluator. rewrite H1, H2, H3, H4. reflexivity. Qed.

Theorem evaluator_value : forall E s c r t v,
  py_strip s = c :: r -> parse_formula (c :: r) = PTree t -> check_scope E t = None -> eval E t = Ok v ->
  evaluator E None (Some s) = OVal v.
Proof. intros E s c r t v H1 H2 H3 H4. unfold evaluator. rewrite H1, H2, H3, H4. reflexivity. Qed.

(* ---------- names resolve exactly (case-sensitively): an undefined name is an error whatever else is bound ---- *)
Lemma forallb_false_in : forall (A : Type) (f : A -> bool) l x, In x l -> f x = false -> forallb f l = false.
Proof.
  intros A f l x Hin Hf. induction l as [|y l IH]; [contradiction|]. simpl.
  destruct Hin as [->|Hin]; [rewrite Hf; reflexivity|]. rewrite (IH Hin). apply andb_false_r.
Qed.

Theorem undefined_variable_rejected : forall E t n,
  In n (vars_of t) -> venv E n = None -> check_scope E t = Some EUndefVar.
Proof.
  intros E t n Hin Hn. unfold check_scope.
  rewrite (forallb_false_in _ _ _ n Hin); [reflexivity|]. unfold defined. rewrite Hn. reflexivity.
Qed.

Theorem undefined_function_rejected : forall E t n,
  forallb (defined (venv E)) (vars_of t) = true ->
  In n (funcs_of t) -> fenv E n = None -> check_scope E t = Some EUndefFun.
Proof.
  intros E t n Hv Hin Hn. unfold check_scope. rewrite Hv. simpl.
  rewrite (forallb_false_in _ _ _ n Hin); [reflexivity|]. unfold defined. rewrite Hn. reflexivity.
Qed.

Theorem undefined_suffix_rejected : forall E t n,
  forallb (defined (venv E)) (vars_of t) = true -> forallb (defined (fenv E)) (funcs_of t) = true ->
  In n (suffixes_of t) -> senv E n = None -> check_scope E t = Some EUndefSuffix.
Proof.
  intros E t n Hv Hf Hin Hn. unfold check_scope. rewrite Hv, Hf. simpl.
  rewrite (forallb_false_in _ _ _ n Hin); [reflexivity|]. unfold defined. rewrite Hn. reflexivity.
Qed.

(* a binding under a different name (e.g. the same letters in another case) does not influence a lookup *)
Theorem assoc_other_name : forall (A : Type) (l : list (str * A)) m n v, m <> n -> assoc ((m, v) :: l) n = assoc l n.
Proof.
  intros A l m n v H. simpl. destruct (str_eqb m n) eqn:E; [|reflexivity].
  apply str_eqb_eq in E. contradiction.
Qed.

(* ---------- numbers and suffixes ---------- *)
Theorem suffix_scaling : forall E x u q m,
  numeral_value x = Some q -> senv E u = Some m -> cfinite (creal (Qred (q * m))) = true ->
  eval E (Num x (Some u)) = Ok (VS (creal (Qred (q * m)))).
Proof.
  intros E x u q m Hq Hm Hf. simpl. unfold eval_number. rewrite Hq, Hm. unfold chk. rewrite Hf. reflexivity.
Qed.

Theorem plain_number : forall E x q,
  numeral_value x = Some q -> cfinite (creal (Qred q)) = true ->
  eval E (Num x None) = Ok (VS (creal (Qred q))).
Proof.
  intros E x q Hq Hf. simpl. unfold eval_number. rewrite Hq. unfold chk. rewrite Hf. reflexivity.
Qed.

(* ---------- redundant parentheses around a whole token list ---------- *)
Theorem redundant_parens_tokens : forall E ts t,
  parse_tokens ts = Some t ->
  parse_tokens (TLP :: ts ++ [TRP]) = Some (Paren t) /\ eval E (Paren t) = eval E t.
Proof.
  intros E ts t H. destruct (parse_tokens_sound ts t H) as [Ets W]. subst ts. split; [|reflexivity].
  change (TLP :: print t ++ [TRP]) with (print (Paren t)). apply parse_print. exact W.
Qed.
