(* Proofs/MunkresStep46.v -- the step 4 loop and step 6 preserve the loop invariant P4;
   step 4 exits either to step 6 (state unchanged since the last iteration) or to step 5 with P5. *)
From Coq Require Import ZArith List Bool Arith Lia Permutation.
From Verif.Model Require Import Munkres.
From Verif.Proofs Require Import MunkresInvLib MunkresInvDefs MunkresStep123.
Import ListNotations.
Open Scope Z_scope.

(* ---------- find_a_zero ---------- *)
Definition zuncovered_zero : st -> nat -> nat -> bool := uncovered_zero Z 0 Z.eqb.

Lemma uncovered_zero_true : forall s i j, zuncovered_zero s i j = true <->
  gC s i j = 0 /\ rcov s i = false /\ ccov s j = false.
Proof.
  intros. unfold zuncovered_zero, uncovered_zero, gC, rcov, ccov.
  rewrite !andb_true_iff, !negb_true_iff, Z.eqb_eq. tauto.
Qed.

Lemma last_zero_fold : forall s i l acc j,
  fold_left (fun acc j => if zuncovered_zero s i j then Some j else acc) l acc = Some j ->
  acc = Some j \/ (In j l /\ zuncovered_zero s i j = true).
Proof.
  induction l as [|x l IH]; intros acc j H; simpl in H; [left; exact H|].
  apply IH in H. destruct H as [H|[H1 H2]].
  - destruct (zuncovered_zero s i x) eqn:U.
    + inversion H; subst. right. split; [left; reflexivity | exact U].
    + left; exact H.
  - right. split; [right; exact H1 | exact H2].
Qed.

Lemma last_zero_fold_none : forall s i l acc,
  fold_left (fun acc j => if zuncovered_zero s i j then Some j else acc) l acc = None ->
  acc = None /\ forall j, In j l -> zuncovered_zero s i j = false.
Proof.
  induction l as [|x l IH]; intros acc H; simpl in H; [split; [exact H | intros j []]|].
  apply IH in H. destruct H as [H1 H2].
  destruct (zuncovered_zero s i x) eqn:U; [discriminate|].
  split; [exact H1|]. intros j [<-|Hj]; [exact U | apply H2; exact Hj].
Qed.

Lemma first_row_with_some : forall n s j0 rows r c,
  first_row_with Z 0 Z.eqb n s j0 rows = Some (r, c) ->
  In r rows /\ last_zero_in_row Z 0 Z.eqb n s r j0 = Some c.
Proof.
  induction rows as [|i rows IH]; intros r c H; simpl in H; [discriminate|].
  destruct (last_zero_in_row Z 0 Z.eqb n s i j0) as [j|] eqn:L.
  - inversion H; subst. split; [left; reflexivity | exact L].
  - apply IH in H. destruct H as [H1 H2]. split; [right; exact H1 | exact H2].
Qed.

Lemma first_row_with_none : forall n s j0 rows,
  first_row_with Z 0 Z.eqb n s j0 rows = None ->
  forall i, In i rows -> last_zero_in_row Z 0 Z.eqb n s i j0 = None.
Proof.
  induction rows as [|i rows IH]; intros H k Hk; simpl in H; [destruct Hk|].
  destruct (last_zero_in_row Z 0 Z.eqb n s i j0) as [j|] eqn:L; [discriminate|].
  destruct Hk as [<-|Hk]; [exact L | apply IH; assumption].
Qed.

Lemma find_a_zero_some : forall n s i0 j0 r c, zfind_a_zero n s i0 j0 = Some (r, c) ->
  (r < n)%nat /\ (c < n)%nat /\ gC s r c = 0 /\ rcov s r = false /\ ccov s c = false.
Proof.
  intros n s i0 j0 r c H. unfold zfind_a_zero, find_a_zero in H.
  apply first_row_with_some in H. destruct H as [Hr Hc].
  unfold last_zero_in_row in Hc. apply (last_zero_fold s r) in Hc.
  destruct Hc as [Hc|[Hc U]]; [discriminate|].
  apply uncovered_zero_true in U.
  split; [eapply cyc_lt; exact Hr|]. split; [eapply cyc_lt; exact Hc | exact U].
Qed.

Lemma find_a_zero_none : forall n s i0 j0 i j, zfind_a_zero n s i0 j0 = None ->
  (i < n)%nat -> (j < n)%nat -> zuncovered_zero s i j = false.
Proof.
  intros n s i0 j0 i j H Hi Hj. unfold zfind_a_zero, find_a_zero in H.
  pose proof (first_row_with_none n s j0 _ H i (cyc_all n i0 i Hi)) as L.
  unfold last_zero_in_row in L. apply (last_zero_fold_none s i) in L. destruct L as [_ L].
  apply L. apply cyc_all. exact Hj.
Qed.

(* ---------- one iteration of step 4 ---------- *)
Section Step4.
  Variable n : nat.
  Variable M0 : nat -> nat -> Z.

  Lemma gM_prime : forall s r c rc cc z i j, wf n s -> (r < n)%nat -> (c < n)%nat ->
    gM (mkState (sC s) (upd2 (sM s) r c 2%nat) rc cc z) i j =
    if (Nat.eqb i r && Nat.eqb j c)%bool then 2%nat else gM s i j.
  Proof.
    intros s r c rc cc z i j [_ [SM _]] Hr Hc. unfold gM; simpl. apply (get2_upd2 n); assumption.
  Qed.

  (* priming a cell keeps the base invariant: the stars of the new marks are stars of the old ones *)
  Lemma base_prime : forall s r c rc cc z, base n M0 s -> (r < n)%nat -> (c < n)%nat ->
    length rc = n -> length cc = n ->
    base n M0 (mkState (sC s) (upd2 (sM s) r c 2%nat) rc cc z).
  Proof.
    intros s r c rc cc z B Hr Hc Lr Lc. pose proof (b_wf _ _ _ B) as W.
    assert (G : forall i j, gM (mkState (sC s) (upd2 (sM s) r c 2%nat) rc cc z) i j = 1%nat -> gM s i j = 1%nat).
    { intros i j. rewrite gM_prime by assumption. destruct (Nat.eqb i r && Nat.eqb j c)%bool; [discriminate | auto]. }
    destruct B as [[SC [SM [L1 L2]]] B2 B3 B4 B5 B6]. constructor.
    - repeat split; simpl; auto; try apply SC; apply sq_upd2; exact SM.
    - exact B2.
    - exact B3.
    - intros i j H. apply G in H. apply (B4 i j H).
    - intros i j j' H1 H2. apply G in H1, H2. exact (B5 i j j' H1 H2).
    - intros i i' j H1 H2. apply G in H1, H2. exact (B6 i i' j H1 H2).
  Qed.

  Lemma step4_iter_cont : forall s r c sc, P4 n M0 s ->
    (r < n)%nat -> (c < n)%nat -> gC s r c = 0 -> rcov s r = false -> ccov s c = false ->
    find_in_row 1 (upd2 (sM s) r c 2%nat) r = Some sc ->
    P4 n M0 (mkState (sC s) (upd2 (sM s) r c 2%nat) (upd (sRC s) r true) (upd (sCC s) sc false) (sZ0 s)).
  Proof.
    intros s r c sc [B [SCV PO]] Hr Hc HC Rr Cc F.
    pose proof (b_wf _ _ _ B) as W. pose proof W as [SC [SM [Lr Lc]]].
    apply (find_in_row_some n) in F; [|apply sq_upd2; exact SM | discriminate].
    destruct F as [_ [Hsc [F _]]].
    rewrite (get2_upd2 n) in F by assumption. rewrite Nat.eqb_refl in F. simpl in F.
    destruct (Nat.eqb_spec sc c) as [E|Nsc]; [discriminate|]. fold (gM s r sc) in F.
    set (s1 := mkState (sC s) (upd2 (sM s) r c 2%nat) (upd (sRC s) r true) (upd (sCC s) sc false) (sZ0 s)).
    assert (GM : forall i j, gM s1 i j = if (Nat.eqb i r && Nat.eqb j c)%bool then 2%nat else gM s i j)
      by (intros; apply gM_prime; assumption).
    assert (GR : forall i, rcov s1 i = if Nat.eqb i r then true else rcov s i).
    { intro i. unfold rcov, s1; simpl. rewrite nth_upd. rewrite Lr.
      destruct (Nat.ltb_spec r n); [|lia]. rewrite andb_true_r. reflexivity. }
    assert (GC : forall j, ccov s1 j = if Nat.eqb j sc then false else ccov s j).
    { intro j. unfold ccov, s1; simpl. rewrite nth_upd. rewrite Lc.
      destruct (Nat.ltb_spec sc n); [|lia]. rewrite andb_true_r. reflexivity. }
    split; [|split].
    - apply base_prime; auto; rewrite upd_length; assumption.
    - intros i j H. rewrite GM in H. rewrite GR, GC.
      destruct (Nat.eqb i r && Nat.eqb j c)%bool; [discriminate|].
      destruct (Nat.eqb_spec i r) as [->|Ni].
      + assert (j = sc) by (apply (b_row _ _ _ B r j sc); assumption). subst j.
        rewrite Nat.eqb_refl. reflexivity.
      + destruct (Nat.eqb_spec j sc) as [->|Nj].
        * exfalso. apply Ni. apply (b_col _ _ _ B i r sc); assumption.
        * apply SCV. exact H.
    - intros i j H. rewrite GM in H. rewrite GR, GC. unfold s1 at 1. change (gC _ i j) with (gC s i j).
      destruct (Nat.eqb_spec i r) as [->|Ni]; simpl in H.
      + destruct (Nat.eqb_spec j c) as [E|Nj]; [subst j|].
        * split; [exact HC|]. split; [reflexivity|].
          destruct (Nat.eqb_spec c sc) as [E|_]; [reflexivity | exact Cc].
        * destruct (PO r j H) as [A [A1 A2]]. split; [exact A|]. split; [reflexivity|].
          destruct (Nat.eqb j sc); [reflexivity | exact A2].
      + destruct (PO i j H) as [A [A1 A2]]. split; [exact A|]. split; [exact A1|].
        destruct (Nat.eqb j sc); [reflexivity | exact A2].
  Qed.

  Lemma step4_iter_exit5 : forall s r c, P4 n M0 s ->
    (r < n)%nat -> (c < n)%nat -> gC s r c = 0 ->
    find_in_row 1 (upd2 (sM s) r c 2%nat) r = None ->
    P5 n M0 (mkState (sC s) (upd2 (sM s) r c 2%nat) (sRC s) (sCC s) (r, c)).
  Proof.
    intros s r c [B [SCV PO]] Hr Hc HC F.
    pose proof (b_wf _ _ _ B) as W. pose proof W as [SC [SM [Lr Lc]]].
    set (s1 := mkState (sC s) (upd2 (sM s) r c 2%nat) (sRC s) (sCC s) (r, c)).
    assert (GM : forall i j, gM s1 i j = if (Nat.eqb i r && Nat.eqb j c)%bool then 2%nat else gM s i j)
      by (intros; apply gM_prime; assumption).
    assert (B1 : base n M0 s1) by (apply base_prime; auto).
    split; [exact B1|]. split; [|split; [exact Hr | split; [exact Hc | split]]].
    - intros i j H. rewrite GM in H. change (gC s1 i j) with (gC s i j).
      destruct (Nat.eqb_spec i r) as [->|Ni]; simpl in H.
      + destruct (Nat.eqb_spec j c) as [E|Nj]; [subst j; exact HC | apply PO; exact H].
      + apply PO; exact H.
    - simpl. rewrite GM. rewrite !Nat.eqb_refl. reflexivity.
    - simpl. intros j H.
      assert (R : (r < n /\ j < n)%nat) by (apply (gM_range n s1 r j (b_wf _ _ _ B1)); rewrite H; discriminate).
      apply (find_in_row_none n 1%nat _ r j) in F; [| apply sq_upd2; exact SM | lia | lia].
      apply F. exact H.
  Qed.

  Lemma step4_loop_P : forall fuel s row col s' nx, P4 n M0 s ->
    zstep4_loop fuel n s row col = Some (s', nx) ->
    (nx = 6%nat /\ P4 n M0 s') \/ (nx = 5%nat /\ P5 n M0 s').
  Proof.
    induction fuel as [|f IH]; intros s row col s' nx P H; simpl in H; [discriminate|].
    fold zfind_a_zero in H. fold zstep4_loop in H.
    destruct (zfind_a_zero n s row col) as [[r c]|] eqn:FZ.
    - apply find_a_zero_some in FZ. destruct FZ as [Hr [Hc [HC [Rr Cc]]]].
      destruct (find_in_row 1 (upd2 (sM s) r c 2%nat) r) as [sc|] eqn:F.
      + eapply IH; [|exact H]. apply step4_iter_cont; assumption.
      + inversion H; subst. right. split; [reflexivity|]. apply step4_iter_exit5; assumption.
    - inversion H; subst. left. split; [reflexivity | exact P].
  Qed.

  Lemma step4_P : forall s s' nx, P4 n M0 s -> zstep4 n s = Some (s', nx) ->
    (nx = 6%nat /\ P4 n M0 s') \/ (nx = 5%nat /\ P5 n M0 s').
  Proof. intros s s' nx P H. eapply step4_loop_P; [exact P | exact H]. Qed.
End Step4.

(* ---------- find_smallest ---------- *)
(* result r of a "running minimum" fold started from m over a segment whose candidate values are S *)
Definition fs_ok (S : Z -> Prop) (m r : option Z) : Prop :=
  (forall x, S x -> exists v, r = Some v /\ v <= x)
  /\ (forall a, m = Some a -> exists v, r = Some v /\ v <= a)
  /\ (forall v, r = Some v -> m = Some v \/ S v).

Definition fs_step (cc : list bool) (m' : option Z) (jx : nat * Z) : option Z :=
  let (j, x) := jx in
  if nth j cc false then m'
  else match m' with
       | None => Some x
       | Some v => if Z.ltb x v then Some x else m'
       end.

Definition fs_inner (cc : list bool) (l : list (nat * Z)) (m : option Z) : option Z :=
  fold_left (fs_step cc) l m.

Lemma fs_step_some : forall cc m k x a, m = Some a -> exists a', fs_step cc m (k, x) = Some a' /\ a' <= a.
Proof.
  intros cc m k x a ->. simpl. destruct (nth k cc false); [exists a; split; [reflexivity | lia]|].
  destruct (Z.ltb_spec x a); [exists x | exists a]; split; try reflexivity; lia.
Qed.

Lemma fs_step_uncov : forall cc m k x, nth k cc false = false -> exists a', fs_step cc m (k, x) = Some a' /\ a' <= x.
Proof.
  intros cc m k x H. simpl. rewrite H. destruct m as [a|]; [|exists x; split; [reflexivity | lia]].
  destruct (Z.ltb_spec x a); [exists x | exists a]; split; try reflexivity; lia.
Qed.

Lemma fs_step_inv : forall cc m k x v, fs_step cc m (k, x) = Some v -> m = Some v \/ (nth k cc false = false /\ v = x).
Proof.
  intros cc m k x v H. simpl in H. destruct (nth k cc false); [left; exact H|].
  destruct m as [a|].
  - destruct (Z.ltb x a); [right | left]; inversion H; auto.
  - right. inversion H; auto.
Qed.

Lemma fs_inner_spec : forall cc row k m,
  fs_ok (fun x => exists j, (j < length row)%nat /\ nth (k + j) cc false = false /\ x = nth j row 0)
        m (fs_inner cc (combine (seq k (length row)) row) m).
Proof.
  induction row as [|x row IH]; intros k m; simpl.
  - split; [intros y [j [Hj _]]; lia|]. split; [intros a ->; exists a; split; [reflexivity | lia] | intros v ->; left; reflexivity].
  - fold (fs_inner cc (combine (seq (S k) (length row)) row) (fs_step cc m (k, x))).
    destruct (IH (S k) (fs_step cc m (k, x))) as [H1 [H2 H3]].
    split; [|split].
    + intros y [[|j] [Hj [Hc E]]].
      * rewrite Nat.add_0_r in Hc. simpl in E. subst y.
        destruct (fs_step_uncov cc m k x Hc) as [a' [E1 L1]].
        destruct (H2 a' E1) as [v [E2 L2]]. exists v. split; [exact E2 | lia].
      * apply H1. exists j. split; [lia|]. split; [|exact E].
        replace (S k + j)%nat with (k + S j)%nat by lia. exact Hc.
    + intros a Ha. destruct (fs_step_some cc m k x a Ha) as [a' [E1 L1]].
      destruct (H2 a' E1) as [v [E2 L2]]. exists v. split; [exact E2 | lia].
    + intros v Hv. destruct (H3 v Hv) as [E|[j [Hj [Hc E]]]].
      * destruct (fs_step_inv cc m k x v E) as [E'|[Hc E']]; [left; exact E'|].
        right. exists 0%nat. split; [lia|]. split; [rewrite Nat.add_0_r; exact Hc | exact E'].
      * right. exists (S j). split; [lia|]. split; [|exact E].
        replace (k + S j)%nat with (S k + j)%nat by lia. exact Hc.
Qed.

Definition fs_ostep (rc cc : list bool) (m : option Z) (irow : nat * list Z) : option Z :=
  let (i, row) := irow in
  if nth i rc false then m else fs_inner cc (combine (seq 0 (length row)) row) m.

Definition fs_outer (rc cc : list bool) (l : list (nat * list Z)) (m : option Z) : option Z :=
  fold_left (fs_ostep rc cc) l m.

Lemma fs_outer_spec : forall rc cc rows k m,
  fs_ok (fun x => exists i j, (i < length rows)%nat /\ (j < length (nth i rows []))%nat /\
                   nth (k + i) rc false = false /\ nth j cc false = false /\ x = nth j (nth i rows []) 0)
        m (fs_outer rc cc (combine (seq k (length rows)) rows) m).
Proof.
  induction rows as [|row rows IH]; intros k m; simpl.
  - split; [intros y [i [j [Hi _]]]; lia|]. split; [intros a ->; exists a; split; [reflexivity | lia] | intros v ->; left; reflexivity].
  - fold (fs_outer rc cc (combine (seq (S k) (length rows)) rows) (fs_ostep rc cc m (k, row))).
    destruct (IH (S k) (fs_ostep rc cc m (k, row))) as [H1 [H2 H3]].
    destruct (fs_inner_spec cc row 0 m) as [I1 [I2 I3]].
    split; [|split].
    + intros y [[|i] [j [Hi [Hj [Hr [Hc E]]]]]].
      * rewrite Nat.add_0_r in Hr. simpl in Hj, E.
        destruct (I1 y) as [a' [E1 L1]]; [exists j; auto|].
        assert (E0 : fs_ostep rc cc m (k, row) = Some a') by (simpl; rewrite Hr; exact E1).
        destruct (H2 a' E0) as [v [E2 L2]]. exists v. split; [exact E2 | lia].
      * apply H1. exists i, j. simpl in Hj, E. split; [lia|]. split; [exact Hj|].
        split; [replace (S k + i)%nat with (k + S i)%nat by lia; exact Hr|]. split; [exact Hc | exact E].
    + intros a Ha.
      assert (X : exists a', fs_ostep rc cc m (k, row) = Some a' /\ a' <= a).
      { simpl. destruct (nth k rc false); [exists a; split; [exact Ha | lia] | apply I2; exact Ha]. }
      destruct X as [a' [E1 L1]]. destruct (H2 a' E1) as [v [E2 L2]]. exists v. split; [exact E2 | lia].
    + intros v Hv. destruct (H3 v Hv) as [E|[i [j [Hi [Hj [Hr [Hc E]]]]]]].
      * simpl in E. destruct (nth k rc false) eqn:Rk; [left; exact E|].
        destruct (I3 v E) as [E'|[j [Hj [Hc E']]]]; [left; exact E'|].
        right. exists 0%nat, j. split; [lia|]. split; [exact Hj|]. split; [rewrite Nat.add_0_r; exact Rk|].
        split; [exact Hc | exact E'].
      * right. exists (S i), j. split; [lia|]. split; [exact Hj|].
        split; [replace (k + S i)%nat with (S k + i)%nat by lia; exact Hr|]. split; [exact Hc | exact E].
Qed.

Definition zfind_smallest_opt : st -> option Z := find_smallest_opt Z Z.ltb.

Lemma find_smallest_opt_spec : forall n s, wf n s ->
  (forall i j, (i < n)%nat -> (j < n)%nat -> rcov s i = false -> ccov s j = false ->
     exists v, zfind_smallest_opt s = Some v /\ v <= gC s i j)
  /\ (forall v, zfind_smallest_opt s = Some v ->
        exists i j, (i < n)%nat /\ (j < n)%nat /\ rcov s i = false /\ ccov s j = false /\ v = gC s i j).
Proof.
  intros n s [SC _].
  destruct (fs_outer_spec (sRC s) (sCC s) (sC s) 0 None) as [H1 [_ H3]].
  change (fs_outer (sRC s) (sCC s) (combine (seq 0 (length (sC s))) (sC s)) None) with (zfind_smallest_opt s) in *.
  pose proof SC as [L _]. split.
  - intros i j Hi Hj Hr Hc. apply H1. exists i, j. split; [lia|].
    split; [rewrite (sq_row_len n _ i SC Hi); exact Hj|]. auto.
  - intros v Hv. destruct (H3 v Hv) as [E|[i [j [Hi [Hj [Hr [Hc E]]]]]]]; [discriminate|].
    exists i, j. rewrite L in Hi. rewrite (sq_row_len n _ i SC Hi) in Hj. auto.
Qed.

Lemma zfind_smallest_unfold : forall s,
  zfind_smallest s = match zfind_smallest_opt s with None => zmaxsize | Some v => v end.
Proof. reflexivity. Qed.

(* lower bound; attained unless nothing is uncovered (then sys.maxsize); attained whenever a cell is uncovered *)
Lemma find_smallest_spec : forall n s, wf n s ->
  let m := zfind_smallest s in
  (forall i j, (i < n)%nat -> (j < n)%nat -> rcov s i = false -> ccov s j = false -> m <= gC s i j)
  /\ (m = zmaxsize \/ exists i j, (i < n)%nat /\ (j < n)%nat /\ rcov s i = false /\ ccov s j = false /\ m = gC s i j)
  /\ ((exists i j, (i < n)%nat /\ (j < n)%nat /\ rcov s i = false /\ ccov s j = false) ->
      exists i j, (i < n)%nat /\ (j < n)%nat /\ rcov s i = false /\ ccov s j = false /\ m = gC s i j).
Proof.
  intros n s W. destruct (find_smallest_opt_spec n s W) as [H1 H2]. simpl.
  rewrite zfind_smallest_unfold. split; [|split].
  - intros i j Hi Hj Hr Hc. destruct (H1 i j Hi Hj Hr Hc) as [v [E L]]. rewrite E. exact L.
  - destruct (zfind_smallest_opt s) as [v|]; [right; apply H2; reflexivity | left; reflexivity].
  - intros [i [j [Hi [Hj [Hr Hc]]]]]. destruct (H1 i j Hi Hj Hr Hc) as [v [E _]]. rewrite E. apply H2. exact E.
Qed.

(* ---------- step 6 ---------- *)
Lemma step6_some : forall s s', zstep6 s = Some s' ->
  s' = mkState (mapij (fun i j x => let x1 := if nth i (sRC s) false then x + zfind_smallest s else x in
                          if nth j (sCC s) false then x1 else x1 - zfind_smallest s) (sC s))
               (sM s) (sRC s) (sCC s) (sZ0 s).
Proof.
  intros s s' H. unfold zstep6, step6 in H. destruct (Z.eqb (events Z s) 0); [discriminate|].
  inversion H. reflexivity.
Qed.

Lemma step6_C : forall n s s' i j, wf n s -> zstep6 s = Some s' -> (i < n)%nat -> (j < n)%nat ->
  gC s' i j = gC s i j + (if rcov s i then zfind_smallest s else 0) - (if ccov s j then 0 else zfind_smallest s).
Proof.
  intros n s s' i j [SC _] H Hi Hj. rewrite (step6_some s s' H). unfold gC; simpl.
  rewrite (get2_mapij n _ _ i j 0 0 SC Hi Hj). unfold rcov, ccov.
  destruct (nth i (sRC s) false); destruct (nth j (sCC s) false); simpl; lia.
Qed.

Lemma step6_P : forall n M0 s s', P4 n M0 s -> zstep6 s = Some s' -> P4 n M0 s'.
Proof.
  intros n M0 s s' [B [SCV PO]] H.
  pose proof (b_wf _ _ _ B) as W. pose proof W as [SC [SM [Lr Lc]]].
  destruct (find_smallest_spec n s W) as [F2 [F3 F4]]. set (m := zfind_smallest s) in *.
  assert (Mnn : 0 <= m).
  { destruct F3 as [E|[i [j [Hi [Hj [_ [_ E]]]]]]]; [rewrite E; unfold zmaxsize; lia|].
    rewrite E. apply (b_nonneg _ _ _ B); assumption. }
  assert (GC : forall i j, (i < n)%nat -> (j < n)%nat ->
            gC s' i j = gC s i j + (if rcov s i then m else 0) - (if ccov s j then 0 else m))
    by (intros; apply (step6_C n); assumption).
  assert (GM : forall i j, gM s' i j = gM s i j) by (intros; rewrite (step6_some s s' H); reflexivity).
  assert (GR : forall i, rcov s' i = rcov s i) by (intros; rewrite (step6_some s s' H); reflexivity).
  assert (GCC : forall j, ccov s' j = ccov s j) by (intros; rewrite (step6_some s s' H); reflexivity).
  assert (W' : wf n s').
  { rewrite (step6_some s s' H). repeat split; simpl; auto; try apply SM; apply (sq_mapij n); exact SC. }
  split; [|split].
  - constructor.
    + exact W'.
    + destruct (b_shift _ _ _ B) as [u [v Huv]].
      exists (fun i => u i - (if rcov s i then m else 0)), (fun j => v j + (if ccov s j then 0 else m)).
      intros i j Hi Hj. rewrite GC by assumption. rewrite (Huv i j Hi Hj). lia.
    + intros i j Hi Hj. rewrite GC by assumption.
      pose proof (b_nonneg _ _ _ B i j Hi Hj) as NN.
      destruct (rcov s i) eqn:R; destruct (ccov s j) eqn:Cj; try lia.
      pose proof (F2 i j Hi Hj R Cj). lia.
    + intros i j HS. rewrite GM in HS.
      assert (R : (i < n /\ j < n)%nat) by (apply (gM_range n s i j W); rewrite HS; discriminate).
      rewrite GC by lia. rewrite (b_star0 _ _ _ B i j HS). rewrite (SCV i j HS).
      destruct (ccov s j); simpl; lia.
    + intros i j j'. rewrite !GM. apply (b_row _ _ _ B).
    + intros i i' j. rewrite !GM. apply (b_col _ _ _ B).
  - intros i j HS. rewrite GM in HS. rewrite GR, GCC. apply SCV. exact HS.
  - intros i j HP. rewrite GM in HP. rewrite GR, GCC.
    assert (R : (i < n /\ j < n)%nat) by (apply (gM_range n s i j W); rewrite HP; discriminate).
    destruct (PO i j HP) as [A [A1 A2]]. rewrite GC by lia. rewrite A, A1, A2. split; [lia | auto].
Qed.
