(* RenderString.v -- the string-level statement: every rendering of a derivation -- canonical token text,
   arbitrary TAB / LF / CR runs between the tokens, spaces anywhere -- parses to the derivation's flat tree
   and evaluates to its documented value. *)
From Coq Require Import ZArith QArith List Bool Lia.
From Verif.Model Require Import Result Lexer Parser Eval EvalSpec.
From Verif.Proofs Require Import ParserRoundTrip ParserSound ParserReject EvalFlatten EvalFrontDoor LexerLemmas LexerPrint.
Import ListNotations.
Local Open Scope Z_scope.

(* ---------- brackets only depend on the bracket characters ---------- *)
Definition is_brk (c : Z) : bool := is_opener c || match opener_of c with Some _ => true | None => false end.

Lemma brackets_filter : forall s st, brackets st s = brackets st (filter is_brk s).
Proof.
  induction s as [|c s IH]; intro st; [reflexivity|]. simpl. unfold is_brk.
  destruct (is_opener c) eqn:O; simpl.
  - rewrite O. apply IH.
  - destruct (opener_of c) as [o|] eqn:P; simpl.
    + rewrite O, P. destruct st as [|o' st]; [reflexivity|]. destruct (o' =? o); [apply IH|reflexivity].
    + apply IH.
Qed.

(* a bracket sequence that leaves every stack as it found it *)
Definition dyck (l : str) : Prop := forall st rest, brackets st (l ++ rest) = brackets st rest.

Lemma dyck_nil : dyck [].
Proof. intros st rest. reflexivity. Qed.

Lemma dyck_app : forall a b, dyck a -> dyck b -> dyck (a ++ b).
Proof. intros a b Ha Hb st rest. rewrite <- app_assoc, Ha, Hb. reflexivity. Qed.

Lemma dyck_wrap : forall o c l, is_opener o = true -> is_opener c = false -> opener_of c = Some o ->
  dyck l -> dyck (o :: l ++ [c]).
Proof.
  intros o c l Ho Hc Hoc Hl st rest. simpl. rewrite Ho. rewrite <- app_assoc, Hl. simpl.
  rewrite Hc, Hoc, Z.eqb_refl. reflexivity.
Qed.

Lemma dyck_flat_map : forall (A : Type) (f : A -> str) (l : list A), Forall (fun x => dyck (f x)) l -> dyck (flat_map f l).
Proof. intros A f l H. induction H; simpl; [apply dyck_nil|apply dyck_app; assumption]. Qed.

Definition bt (t : token) : str := filter is_brk (print_token t).
Definition btoks (ts : list token) : str := flat_map bt ts.

Lemma btoks_app : forall a b, btoks (a ++ b) = btoks a ++ btoks b.
Proof. intros. unfold btoks. apply flat_map_app. Qed.

Lemma filter_none : forall s, forallb (fun c => negb (is_brk c)) s = true -> filter is_brk s = [].
Proof.
  induction s as [|c s IH]; intro H; [reflexivity|]. simpl in *. apply andb_true_iff in H. destruct H as [H1 H2].
  apply negb_true_iff in H1. rewrite H1. auto.
Qed.

Lemma class_no_brk : forall (p : Z -> bool) s, (forall c, p c = true -> is_brk c = false) ->
  forallb p s = true -> filter is_brk s = [].
Proof.
  intros p s Hp H. apply filter_none. rewrite forallb_forall in *. intros c Hc. rewrite (Hp c (H c Hc)). reflexivity.
Qed.

Ltac range_brk :=
  intros c H; unfold is_sub_char, is_suffix_char, is_alnum, is_alpha, is_upper, is_lower, is_digit, is_prime, is_ws in H;
  unfold is_brk, is_opener, opener_of;
  repeat match goal with
         | H : (_ || _) = true |- _ => apply orb_true_iff in H; destruct H as [H|H]
         | H : (_ && _) = true |- _ => apply andb_true_iff in H; destruct H
         | H : (_ <=? _) = true |- _ => apply Z.leb_le in H
         | H : (_ =? _) = true |- _ => apply Z.eqb_eq in H
         end;
  repeat match goal with |- context [?a =? ?b] => let E := fresh in destruct (Z.eqb_spec a b) as [E|E]; [lia|] end;
  reflexivity.

Lemma digit_no_brk : forall c, is_digit c = true -> is_brk c = false. Proof. range_brk. Qed.
Lemma alnum_no_brk : forall c, is_alnum c = true -> is_brk c = false. Proof. range_brk. Qed.
Lemma sub_no_brk : forall c, is_sub_char c = true -> is_brk c = false. Proof. range_brk. Qed.
Lemma prime_no_brk : forall c, is_prime c = true -> is_brk c = false. Proof. range_brk. Qed.
Lemma suffix_no_brk : forall c, is_suffix_char c = true -> is_brk c = false. Proof. range_brk. Qed.
Lemma ws_no_brk : forall c, is_ws c = true -> is_brk c = false. Proof. range_brk. Qed.

Lemma filter_app' : forall (a b : str), filter is_brk (a ++ b) = filter is_brk a ++ filter is_brk b.
Proof. intros. apply filter_app. Qed.

Lemma valid_index_dyck : forall lead i, (lead = ch_us \/ lead = ch_caret) -> valid_index lead i = true ->
  dyck (filter is_brk i).
Proof.
  intros lead i Hl H. unfold valid_index in H. destruct i as [|c [|b r]]; try discriminate.
  apply andb_true_iff in H. destruct H as [H H3]. apply andb_true_iff in H. destruct H as [H1 H2].
  apply Z.eqb_eq in H1. apply Z.eqb_eq in H2. subst c b.
  set (r1 := match r with d :: r' => if d =? ch_minus then r' else r | [] => r end) in *.
  destruct (rev r1) as [|cl w] eqn:Er; [discriminate|].
  apply andb_true_iff in H3. destruct H3 as [H3 H5]. apply andb_true_iff in H3. destruct H3 as [H3 H4].
  apply rev_cons_app in Er. apply Z.eqb_eq in H3. subst cl.
  assert (Hr1 : filter is_brk r1 = [ch_rbrace]).
  { rewrite Er, filter_app'. rewrite (class_no_brk is_alnum (rev w) alnum_no_brk) by (rewrite forallb_rev; assumption). reflexivity. }
  assert (Hr : filter is_brk r = [ch_rbrace]).
  { subst r1. destruct r as [|d r']; [exact Hr1|]. destruct (d =? ch_minus) eqn:D; [|exact Hr1].
    apply Z.eqb_eq in D. subst d. simpl. exact Hr1. }
  assert (Hlead : is_brk lead = false) by (destruct Hl; subst; reflexivity).
  simpl. rewrite Hlead. change (is_brk ch_lbrace) with true. cbv iota. rewrite Hr.
  apply (dyck_wrap ch_lbrace ch_rbrace []); try reflexivity. apply dyck_nil.
Qed.

Lemma valid_name_dyck : forall n, valid_name n -> dyck (filter is_brk n).
Proof.
  intros n (c & front & mid & pr & -> & Hc & Hf & Hm & Hp).
  change (c :: front ++ mid ++ pr) with ((c :: front) ++ mid ++ pr). rewrite !filter_app'.
  rewrite (class_no_brk is_alnum (c :: front) alnum_no_brk) by (simpl; rewrite (alpha_alnum c Hc), Hf; reflexivity).
  rewrite (class_no_brk is_prime pr prime_no_brk Hp). rewrite app_nil_r. simpl.
  inversion Hm as [|u Hu|lo Hlo|up Hup|lo up Hlo Hup]; subst.
  - apply dyck_nil.
  - rewrite (class_no_brk is_sub_char (ch_us :: u) sub_no_brk) by (simpl; rewrite Hu; reflexivity). apply dyck_nil.
  - apply (valid_index_dyck ch_us); auto.
  - apply (valid_index_dyck ch_caret); auto.
  - rewrite filter_app'. apply dyck_app; [apply (valid_index_dyck ch_us)|apply (valid_index_dyck ch_caret)]; auto.
Qed.

Lemma valid_num_no_brk : forall x suf, valid_token (TNum x suf) -> bt (TNum x suf) = [].
Proof.
  intros x suf [(m & e & -> & Hm & He) Hs]. unfold bt. rewrite print_token_num, !filter_app'.
  assert (Em : filter is_brk m = []).
  { inversion Hm; subst; rewrite ?filter_app'; simpl;
      repeat rewrite (class_no_brk is_digit _ digit_no_brk) by assumption; reflexivity. }
  assert (Ee : filter is_brk e = []).
  { inversion He as [|sg ds Hsg N D]; subst; [reflexivity|]. simpl. rewrite filter_app'.
    rewrite (class_no_brk is_digit ds digit_no_brk D). destruct Hsg as [->|[->| ->]]; reflexivity. }
  rewrite Em, Ee. destruct suf as [u|]; [|reflexivity]. simpl.
  destruct Hs as (_ & A & _). apply (class_no_brk is_suffix_char u suffix_no_brk A).
Qed.

(* ---------- the bracket characters of the print of a well-formed tree are balanced ---------- *)
Lemma Forall_valid_app : forall a b, Forall valid_token (a ++ b) -> Forall valid_token a /\ Forall valid_token b.
Proof. intros a b H. apply Forall_app. assumption. Qed.

Lemma Forall_valid_flat_map : forall (A : Type) (f : A -> list token) (l : list A),
  Forall valid_token (flat_map f l) -> Forall (fun x => Forall valid_token (f x)) l.
Proof.
  intros A f l. induction l as [|x l IH]; intro H; [constructor|]. simpl in H. apply Forall_app in H. destruct H.
  constructor; auto.
Qed.

Lemma btoks_flat_map : forall (A : Type) (f : A -> list token) (l : list A),
  btoks (flat_map f l) = flat_map (fun x => btoks (f x)) l.
Proof. intros A f l. induction l as [|x l IH]; [reflexivity|]. simpl. rewrite btoks_app, IH. reflexivity. Qed.

Lemma items_dyck : forall (A : Type) (f : A -> list token) (g : A -> tree) (l : list A),
  (forall x, exists pre, f x = pre ++ print (g x) /\ btoks pre = []) ->
  Forall (fun x => Forall valid_token (print (g x)) -> dyck (btoks (print (g x)))) l ->
  Forall valid_token (flat_map f l) -> dyck (btoks (flat_map f l)).
Proof.
  intros A f g l Hf IH Hv. rewrite btoks_flat_map.
  apply dyck_flat_map. apply Forall_valid_flat_map in Hv.
  rewrite Forall_forall in *. intros x Hx. destruct (Hf x) as (pre & E & Bp).
  rewrite E, btoks_app, Bp. simpl. apply IH; [assumption|].
  specialize (Hv x Hx). rewrite E in Hv. apply Forall_app in Hv. tauto.
Qed.

Theorem print_dyck : forall t, Forall valid_token (print t) -> dyck (btoks (print t)).
Proof.
  induction t using tree_ind'; intro Hv.
  - simpl in Hv. inversion Hv; subst. simpl. rewrite app_nil_r. fold (bt (TNum x s)).
    rewrite (valid_num_no_brk x s) by assumption. apply dyck_nil.
  - simpl in Hv. inversion Hv; subst. unfold btoks. simpl. rewrite app_nil_r. apply valid_name_dyck. assumption.
  - (* Fun *)
    rewrite print_Fun' in *. inversion Hv as [|? ? Hn Hv1]; subst. inversion Hv1 as [|? ? _ Hv']; subst.
    apply Forall_app in Hv'. destruct Hv' as [Ha _].
    change (TName n :: TLP :: args_toks args ++ [TRP]) with ([TName n] ++ (TLP :: args_toks args ++ [TRP])).
    rewrite btoks_app. apply dyck_app; [unfold btoks; simpl; rewrite app_nil_r; apply valid_name_dyck; assumption|].
    change (TLP :: args_toks args ++ [TRP]) with ([TLP] ++ args_toks args ++ [TRP]). rewrite !btoks_app.
    change (btoks [TLP]) with [40]. change (btoks [TRP]) with [41].
    apply (dyck_wrap 40 41); try reflexivity.
    destruct args as [|a l]; [apply dyck_nil|]. simpl args_toks in *. inversion H as [|? ? Pa Pl]; subst.
    apply Forall_app in Ha. destruct Ha as [Ha Hl]. rewrite btoks_app. apply dyck_app; [auto|].
    apply (items_dyck tree (fun t => TComma :: print t) (fun t => t) l); auto.
    intro x. exists [TComma]. split; reflexivity.
  - (* Paren *)
    simpl print in *. inversion Hv as [|? ? _ Hv']; subst. apply Forall_app in Hv'. destruct Hv' as [Ht _].
    change (TLP :: print t ++ [TRP]) with ([TLP] ++ print t ++ [TRP]). rewrite !btoks_app.
    change (btoks [TLP]) with [40]. change (btoks [TRP]) with [41].
    apply (dyck_wrap 40 41); try reflexivity. auto.
  - (* Arr *)
    rewrite print_Arr' in *. inversion Hv as [|? ? _ Hv']; subst. apply Forall_app in Hv'. destruct Hv' as [Ha _].
    change (TLB :: args_toks items ++ [TRB]) with ([TLB] ++ args_toks items ++ [TRB]). rewrite !btoks_app.
    change (btoks [TLB]) with [91]. change (btoks [TRB]) with [93].
    apply (dyck_wrap 91 93); try reflexivity.
    destruct items as [|a l]; [apply dyck_nil|]. simpl args_toks in *. inversion H as [|? ? Pa Pl]; subst.
    apply Forall_app in Ha. destruct Ha as [Ha Hl]. rewrite btoks_app. apply dyck_app; [auto|].
    apply (items_dyck tree (fun t => TComma :: print t) (fun t => t) l); auto.
    intro x. exists [TComma]. split; reflexivity.
  - (* Pow *)
    rewrite print_Pow in *. apply Forall_app in Hv. destruct Hv as [Hb Hr]. rewrite btoks_app.
    apply dyck_app; [auto|]. unfold pow_toks in *.
    apply (items_dyck (bool * tree) _ snd rest); auto.
    intros [sg a]. exists (TCaret :: (if sg then [TMinus] else [])). split; [reflexivity|destruct sg; reflexivity].
  - (* Neg *)
    simpl print in *. inversion Hv; subst. change (TMinus :: print t) with ([TMinus] ++ print t).
    rewrite btoks_app. apply dyck_app; [apply dyck_nil|auto].
  - (* Par *)
    rewrite print_Par in *. apply Forall_app in Hv. destruct Hv as [Hb Hr]. rewrite btoks_app.
    apply dyck_app; [auto|]. unfold par_toks in *.
    apply (items_dyck tree _ (fun t => t) rest); auto.
    intro x. exists [TPipe; TPipe]. split; reflexivity.
  - (* Prod *)
    rewrite print_Prod in *. apply Forall_app in Hv. destruct Hv as [Hb Hr]. rewrite btoks_app.
    apply dyck_app; [auto|]. unfold prod_toks in *.
    apply (items_dyck (mulop * tree) _ snd rest); auto.
    intros [o a]. exists [mul_tok o]. split; [reflexivity|destruct o; reflexivity].
  - (* Sum *)
    rewrite print_Sum in *. apply Forall_app in Hv. destruct Hv as [Hl Hv]. apply Forall_app in Hv. destruct Hv as [Hb Hr].
    rewrite !btoks_app. apply dyck_app; [destruct lead; apply dyck_nil|]. apply dyck_app; [auto|]. unfold sum_toks in *.
    apply (items_dyck (addop * tree) _ snd rest); auto.
    intros [o a]. exists [add_tok o]. split; [reflexivity|destruct o; reflexivity].
Qed.

Lemma filter_spaced : forall ts seps, Forall (fun w => forallb is_ws w = true) seps ->
  filter is_brk (spaced seps ts) = btoks ts.
Proof.
  induction ts as [|t ts IH]; intros seps Hs.
  - simpl. destruct seps as [|w seps]; [reflexivity|]. inversion Hs; subst. apply (class_no_brk is_ws w ws_no_brk). assumption.
  - simpl. destruct seps as [|w seps].
    + rewrite filter_app'. rewrite IH by constructor. reflexivity.
    + inversion Hs; subst. rewrite !filter_app', (class_no_brk is_ws w ws_no_brk) by assumption.
      rewrite (IH seps) by assumption. reflexivity.
Qed.

(* ---------- accepted token lists are well separated ---------- *)
Lemma pair_ok_sep : forall a b, pair_ok a b = true -> is_punct_tok a || is_punct_tok b = true.
Proof.
  intros a b H. destruct a; simpl in *; try reflexivity; destruct b; simpl in *; try reflexivity; discriminate.
Qed.

Lemma ok_from_sep : forall r k e, ok_from k r = Some e -> sep_ok (k :: r) = true.
Proof.
  induction r as [|b r IH]; intros k e H; [reflexivity|]. simpl in H.
  destruct (pair_ok k b) eqn:P; [|discriminate].
  change (sep_ok (k :: b :: r)) with ((is_punct_tok k || is_punct_tok b) && sep_ok (b :: r)).
  rewrite (pair_ok_sep k b P), (IH b e H). reflexivity.
Qed.

Lemma print_sep_ok : forall t, wfb t = true -> sep_ok (print t) = true.
Proof.
  intros t W. destruct (head0 t W) as (k & r & Ep & Sk).
  destruct (print_good t W TLP k r Ep Sk) as (e & Eo & _).
  rewrite Ep in *. simpl in Eo. change (pair_ok TLP k) with (expr_start k) in Eo. rewrite Sk in Eo.
  apply (ok_from_sep r k e Eo).
Qed.

(* ---------- the string-level round trip ---------- *)
Theorem parse_formula_rendering : forall t seps s,
  wfb t = true -> Forall valid_token (print t) -> Forall (fun w => forallb is_ws w = true) seps ->
  strip_spaces s = spaced seps (print t) ->
  parse_formula s = PTree t.
Proof.
  intros t seps s W Hv Hs E. unfold parse_formula. rewrite E.
  assert (Hb : check_brackets (spaced seps (print t)) = None).
  { unfold check_brackets. rewrite brackets_filter, (filter_spaced _ _ Hs).
    rewrite <- (app_nil_r (btoks (print t))). rewrite (print_dyck t Hv [] []). reflexivity. }
  rewrite Hb, (lex_spaced (print t) seps Hs Hv (print_sep_ok t W)), (parse_print t W). reflexivity.
Qed.

Lemma spaced_nonempty : forall t ts seps, valid_token t -> spaced seps (t :: ts) <> [].
Proof.
  intros t ts seps Hv H.
  assert (Hn : forall r, print_token t ++ r <> []).
  { intro r. destruct (is_punct_tok t) eqn:P.
    - destruct (punct_tok_char t P) as (c & -> & _). discriminate.
    - destruct t; try discriminate.
      + destruct (num_first text suffix r Hv) as (c & r' & -> & _). discriminate.
      + destruct (name_first n r Hv) as (c & r' & E & _). simpl. rewrite E. discriminate. }
  simpl in H. destruct seps as [|w seps].
  - apply (Hn _ H).
  - apply app_eq_nil in H. destruct H as [_ H]. apply (Hn _ H).
Qed.

Section StringLevel.
  Variable E : env.

  (* For every derivation e of the documented grammar whose numerals and names are texts the lexer produces,
     every rendering s -- the canonical tokens of e (only the parentheses precedence requires, plus the
     redundant ones e carries), any TAB / LF / CR runs between, before and after them, spaces anywhere --
     evaluates to exactly the documented value of e. *)
  Theorem evaluator_rendering : forall e seps s v,
    wf_expr e = true -> Forall valid_token (render e) -> Forall (fun w => forallb is_ws w = true) seps ->
    strip_spaces (py_strip s) = spaced seps (render e) ->
    check_scope E (flatten e) = None ->
    (evaluator E None (Some s) = OVal v <-> denote E e = Ok v).
  Proof.
    intros e seps s v Wf Hv Hs Es Hsc.
    pose proof (flatten_wf e Wf) as W.
    assert (Hp : parse_formula (py_strip s) = PTree (flatten e))
      by (apply (parse_formula_rendering (flatten e) seps); assumption).
    assert (Hne : py_strip s <> []).
    { intro K. rewrite K in Es. simpl in Es. unfold render in *.
      destruct (head0 (flatten e) W) as (k & r & Ep & _). rewrite Ep in *. inversion Hv; subst.
      symmetry in Es. apply (spaced_nonempty k r seps) in Es; auto. }
    rewrite <- (eval_flatten E e Wf v).
    unfold evaluator. destruct (py_strip s) as [|c r] eqn:Ps; [contradiction|].
    rewrite Hp, Hsc. destruct (eval E (flatten e)) as [v'|err]; split; intro H; inversion H; subst; reflexivity.
  Qed.
End StringLevel.

(* ---------- non-vacuity: the hypotheses of evaluator_rendering are satisfiable with rich leaf texts ---------- *)
(*  2.5E-1% * -x_{1}' ^ 2   with a TAB before the star, LF after it, CR at the end (removed by strip()) and spaces sprinkled in *)
Definition ex_r_expr : expr :=
  EMul (ENum [50;46;53;69;45;49] (Some [37]))
       (ENeg (EPow (EVar [120;95;123;49;125;39]) (ENum [50] None))).

Definition ex_r_seps : list str := [[]; [9]; [10]; []; []; []].

Definition ex_r_string : str :=
  [32;50;46;53;32;69;45;49;37;9;42;10;32;45;120;95;123;32;49;125;39;94;50;13;32].

Lemma ex_r_valid : wf_expr ex_r_expr = true /\ Forall valid_token (render ex_r_expr)
  /\ Forall (fun w => forallb is_ws w = true) ex_r_seps
  /\ strip_spaces (py_strip ex_r_string) = spaced ex_r_seps (render ex_r_expr).
Proof.
  split; [reflexivity|]. split; [|split; [repeat constructor|reflexivity]].
  unfold render. simpl.
  repeat constructor.
  - exists [50;46;53], [69;45;49]. split; [reflexivity|]. split.
    + apply (man_dec [50] [53]); reflexivity.
    + apply (exp_some [45] [49]); auto.
  - exists 120, [], [95;123;49;125], [39]. repeat split; try reflexivity. apply mid_lo. reflexivity.
  - exists [50], []. split; [reflexivity|]. split; [apply man_int; reflexivity|apply exp_none].
Qed.
