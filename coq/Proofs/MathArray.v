(* Proofs/MathArray.v -- lemmas about the MathArray model (C14) *)
From Coq Require Import ZArith QArith List Bool Arith Lia.
From Verif.Model Require Import MathArray MathArraySpec.
Import ListNotations.
Open Scope Q_scope.

(* ------------------------------------------------------------------ small facts *)
Lemma shape_eqb_eq : forall a b, shape_eqb a b = true -> a = b.
Proof.
  induction a as [|x a IH]; destruct b as [|y b]; simpl; intro H; try discriminate; auto.
  apply andb_true_iff in H. destruct H as [H1 H2]. apply Nat.eqb_eq in H1. f_equal; auto.
Qed.
Lemma shape_eqb_refl : forall a, shape_eqb a a = true.
Proof. induction a; simpl; auto. rewrite Nat.eqb_refl. auto. Qed.
Lemma shape_eqb_neq : forall a b, a <> b -> shape_eqb a b = false.
Proof.
  intros a b H. destruct (shape_eqb a b) eqn:E; auto. apply shape_eqb_eq in E. contradiction.
Qed.

Lemma proper_not_numberlike : forall sh, (1 < sprod sh)%nat -> Nat.eqb (sprod sh) 1 = false.
Proof. intros sh H. apply Nat.eqb_neq. lia. Qed.

Lemma map2_length : forall {A B D} (f : A -> B -> D) l1 l2, length l1 = length l2 -> length (map2 f l1 l2) = length l1.
Proof.
  intros A B D f. induction l1 as [|x l1 IH]; destruct l2 as [|y l2]; simpl; intro H; try discriminate; auto.
Qed.
Lemma map2_nth : forall {A B D} (f : A -> B -> D) l1 l2 i a b d,
  (i < length l1)%nat -> (i < length l2)%nat -> nth i (map2 f l1 l2) d = f (nth i l1 a) (nth i l2 b).
Proof.
  intros A B D f. induction l1 as [|x l1 IH]; destruct l2 as [|y l2]; simpl; intros i a b d H1 H2; try lia.
  destruct i; auto. apply IH; lia.
Qed.
Lemma map2_map_r : forall {A B B' D} (f : A -> B' -> D) (g : B -> B') l1 l2,
  map2 f l1 (map g l2) = map2 (fun x y => f x (g y)) l1 l2.
Proof.
  intros A B B' D f g. induction l1 as [|x l1 IH]; destruct l2 as [|y l2]; simpl; auto. f_equal. apply IH.
Qed.

(* flat_map over seq with rows of constant length *)
Lemma flat_map_const_length : forall {A} (f : nat -> list A) q l,
  (forall i, length (f i) = q) -> length (flat_map f l) = (length l * q)%nat.
Proof.
  intros A f q l H. induction l as [|x l IH]; simpl; auto. rewrite app_length, H, IH. lia.
Qed.
Lemma flat_map_seq_nth : forall {A} (f : nat -> list A) q (d : A) m s i j,
  (forall i, length (f i) = q) -> (i < m)%nat -> (j < q)%nat ->
  nth (i * q + j) (flat_map f (seq s m)) d = nth j (f (s + i)%nat) d.
Proof.
  intros A f q d m. induction m as [|m IH]; intros s i j Hf Hi Hj; [lia|].
  simpl. destruct i as [|i].
  - simpl. rewrite app_nth1 by (rewrite Hf; lia). rewrite Nat.add_0_r. reflexivity.
  - rewrite app_nth2 by (rewrite Hf; simpl; lia). rewrite Hf.
    replace (S i * q + j - q)%nat with (i * q + j)%nat by (simpl; lia).
    rewrite IH by (auto; lia). f_equal. f_equal. lia.
Qed.


Lemma nth_map_seq : forall {A} (f : nat -> A) m s i d, (i < m)%nat -> nth i (map f (seq s m)) d = f (s + i)%nat.
Proof.
  intros A f. induction m as [|m IH]; intros s i d H; [lia|]. simpl. destruct i.
  - rewrite Nat.add_0_r. reflexivity.
  - rewrite IH by lia. f_equal. lia.
Qed.

(* ------------------------------------------------------------------ the kernels are the textbook definitions *)
Lemma matvec_length : forall m n a v, length (matvec m n a v) = m.
Proof. intros. unfold matvec. rewrite map_length, seq_length. reflexivity. Qed.
Lemma vecmat_length : forall n q v b, length (vecmat n q v b) = q.
Proof. intros. unfold vecmat. rewrite map_length, seq_length. reflexivity. Qed.
Lemma matmat_length : forall m n q a b, length (matmat m n q a b) = (m * q)%nat.
Proof.
  intros. unfold matmat. rewrite (flat_map_const_length _ q).
  - rewrite seq_length. reflexivity.
  - intro i. rewrite map_length, seq_length. reflexivity.
Qed.
Lemma identity_length : forall n, length (identity n) = (n * n)%nat.
Proof.
  intros. unfold identity. rewrite (flat_map_const_length _ n).
  - rewrite seq_length. reflexivity.
  - intro i. rewrite map_length, seq_length. reflexivity.
Qed.
Lemma mpow_length : forall n d k, length (mpow n d k) = (n * n)%nat.
Proof. intros n d k. destruct k; simpl; [apply identity_length | apply matmat_length]. Qed.

(* entry i of M.v is  sum_l M[i,l] v[l] *)
Lemma matvec_entry : forall m n a v i, (i < m)%nat ->
  ent (matvec m n a v) i = sigma n (fun l => cmul (ent a (i * n + l)) (ent v l)).
Proof.
  intros m n a v i Hi. unfold ent at 1, matvec. rewrite nth_map_seq by exact Hi. reflexivity.
Qed.
Lemma vecmat_entry : forall n q v b j, (j < q)%nat ->
  ent (vecmat n q v b) j = sigma n (fun l => cmul (ent v l) (ent b (l * q + j))).
Proof.
  intros n q v b j Hj. unfold ent at 1, vecmat. rewrite nth_map_seq by exact Hj. reflexivity.
Qed.
(* entry (i,j) of A.B is  sum_l A[i,l] B[l,j] *)
Lemma matmat_entry : forall m n q a b i j, (i < m)%nat -> (j < q)%nat ->
  ent (matmat m n q a b) (i * q + j) = sigma n (fun l => cmul (ent a (i * n + l)) (ent b (l * q + j))).
Proof.
  intros m n q a b i j Hi Hj. unfold ent at 1, matmat.
  rewrite (flat_map_seq_nth _ q) by (auto; intro; rewrite map_length, seq_length; reflexivity).
  rewrite nth_map_seq by exact Hj. reflexivity.
Qed.
Lemma identity_entry : forall n i j, (i < n)%nat -> (j < n)%nat ->
  ent (identity n) (i * n + j) = if Nat.eqb i j then c1 else c0.
Proof.
  intros n i j Hi Hj. unfold ent, identity.
  rewrite (flat_map_seq_nth _ n) by (auto; intro; rewrite map_length, seq_length; reflexivity).
  rewrite nth_map_seq by exact Hj. reflexivity.
Qed.
Lemma mpow_0 : forall n d, mpow n d 0 = identity n.
Proof. reflexivity. Qed.
Lemma mpow_S : forall n d k, mpow n d (S k) = matmat n n n d (mpow n d k).
Proof. reflexivity. Qed.

(* ------------------------------------------------------------------ complex-zero test *)
Lemma Qeq_bool_opp0 : forall x, Qeq_bool (- x) 0 = Qeq_bool x 0.
Proof.
  intro x. destruct (Qeq_bool x 0) eqn:E.
  - apply Qeq_bool_iff in E. apply Qeq_bool_iff. rewrite E. reflexivity.
  - destruct (Qeq_bool (- x) 0) eqn:E'; auto. apply Qeq_bool_iff in E'.
    assert (x == 0) as X by (rewrite <- (Qopp_involutive x), E'; reflexivity).
    apply Qeq_bool_iff in X. congruence.
Qed.
Lemma cis_zero_cneg : forall c, cis_zero (cneg c) = cis_zero c.
Proof. intros [a b]. unfold cis_zero, cneg. simpl. rewrite !Qeq_bool_opp0. reflexivity. Qed.

(* ------------------------------------------------------------------ dispatch analysis *)
Ltac brk H :=
  repeat match type of H with
         | context [if ?c then _ else _] => let E := fresh "E" in destruct c eqn:E; simpl in H
         end.
Ltac inv_ret H := first [discriminate H | injection H as H; subst].

Section Main.
  Variable negpow : bool.
  Variable rk : rank_oracle.
  Variable inv : inv_oracle.
  Variable spow : spow_oracle.

  Local Notation bop := (py_binop negpow rk inv spow).

  (* T1: whenever an operator returns, it returns the value linear algebra gives *)
  Theorem operator_sound : forall op a b r,
    proper a -> proper b -> bop op a b = Ret r -> la_value negpow rk inv spow op a b r.
  Proof.
    intros op a b r Ha Hb H.
    destruct a as [ka ca | ka sha da]; destruct b as [kb cb | kb shb db].
    - constructor. exact H.
    - destruct Hb as [Hl Hp]. pose proof (proper_not_numberlike _ Hp) as Hn.
      destruct op; simpl in H.
      + unfold add_arr in H. rewrite Hn in H. brk H; inv_ret H. apply LA_add_zero_l; auto.
      + unfold rsub_arr, add_arr in H. rewrite Hn in H. brk H; inv_ret H. apply LA_sub_zero_l; auto.
      + unfold rmul_arr in H. inv_ret H. apply LA_scale_l.
      + unfold rdiv_arr in H. destruct shb; [simpl in Hp; lia | discriminate].
      + unfold rpow_arr in H. rewrite Hn in H. discriminate.
    - destruct Ha as [Hl Hp]. pose proof (proper_not_numberlike _ Hp) as Hn.
      destruct op; simpl in H.
      + unfold add_arr in H. rewrite Hn in H. brk H; inv_ret H. apply LA_add_zero_r; auto.
      + unfold sub_arr, add_arr in H. simpl in H. rewrite Hn, cis_zero_cneg in H. brk H; inv_ret H.
        apply LA_sub_zero_r; auto.
      + inv_ret H. apply LA_scale_r.
      + unfold div_data in H. brk H; inv_ret H. apply LA_div; auto.
      + unfold pow_arr in H. rewrite Hn in H.
        destruct sha as [|m [|n [|x y]]]; try discriminate.
        destruct (Nat.eqb m n) eqn:Emn; try discriminate. apply Nat.eqb_eq in Emn. subst n.
        destruct (integer_like kb cb) eqn:Eil; try discriminate.
        destruct ((exponent_Z cb <? 0)%Z && negb negpow) eqn:Eneg; try discriminate.
        destruct ((exponent_Z cb <? 0)%Z && rk ka m da) eqn:Erk; try discriminate.
        unfold matrix_power in H. destruct (0 <=? exponent_Z cb)%Z eqn:Ez.
        * inv_ret H. apply LA_pow_nonneg; auto. apply Z.leb_le. exact Ez.
        * apply Z.leb_gt in Ez. destruct (inv ka m da) as [b|] eqn:Einv; inv_ret H.
          assert ((exponent_Z cb <? 0)%Z = true) as L by (apply Z.ltb_lt; exact Ez).
          rewrite L in Eneg, Erk. simpl in Eneg, Erk.
          apply LA_pow_neg; auto. destruct negpow; auto; discriminate.
    - destruct Ha as [Hla Hpa]. destruct Hb as [Hlb Hpb].
      pose proof (proper_not_numberlike _ Hpa) as Hna. pose proof (proper_not_numberlike _ Hpb) as Hnb.
      destruct op; simpl in H.
      + unfold add_arr in H. rewrite Hna, Hnb in H. simpl in H.
        destruct (shape_eqb sha shb) eqn:Es; inv_ret H. apply shape_eqb_eq in Es. subst. apply LA_add.
      + unfold sub_arr, add_arr in H. simpl in H. rewrite Hna, Hnb in H. simpl in H.
        destruct (shape_eqb sha shb) eqn:Es; inv_ret H. apply shape_eqb_eq in Es. subst.
        rewrite map2_map_r. apply LA_sub.
      + unfold mul_arr in H. rewrite Hna, Hnb in H.
        destruct (Nat.ltb 2 (length sha) || Nat.ltb 2 (length shb)) eqn:Et; try discriminate.
        unfold dot_arr in H.
        destruct sha as [|m [|n [|x y]]]; destruct shb as [|p [|q [|x' y']]]; try discriminate;
          destruct (Nat.eqb _ p) eqn:Enp; try discriminate; apply Nat.eqb_eq in Enp; subst p; inv_ret H.
        * apply LA_dot.
        * apply LA_vecmat.
        * apply LA_matvec.
        * apply LA_matmat.
      + unfold div_arr in H. rewrite Hnb in H. discriminate.
      + unfold pow_arr in H. rewrite Hna in H.
        destruct sha as [|m [|n [|x y]]]; try discriminate.
        destruct (Nat.eqb m n); try discriminate. rewrite Hnb in H. discriminate.
  Qed.

  Definition is_student_error (o : outcome) : Prop := exists e, o = Raise e /\ student_facing e = true.

  Ltac serr := eexists; split; [reflexivity | reflexivity].

  (* T3: where linear algebra defines no result, the operator raises a student-facing error *)
  Theorem undefined_is_error : forall op a b,
    proper a -> proper b -> la_shape negpow op a b = None -> is_student_error (bop op a b).
  Proof.
    intros op a b Ha Hb H. unfold is_student_error.
    destruct a as [ka ca | ka sha da]; destruct b as [kb cb | kb shb db].
    - destruct op; simpl in H; discriminate.
    - destruct Hb as [Hl Hp]. pose proof (proper_not_numberlike _ Hp) as Hn.
      destruct op; simpl in H; simpl.
      + unfold add_arr. rewrite Hn. destruct (cis_zero ca); [discriminate | serr].
      + unfold rsub_arr, add_arr. rewrite Hn. destruct (cis_zero ca); [discriminate | serr].
      + discriminate.
      + unfold rdiv_arr. destruct shb; [simpl in Hp; lia | serr].
      + unfold rpow_arr. rewrite Hn. serr.
    - destruct Ha as [Hl Hp]. pose proof (proper_not_numberlike _ Hp) as Hn.
      destruct op; simpl in H; simpl.
      + unfold add_arr. rewrite Hn. destruct (cis_zero cb); [discriminate | serr].
      + unfold sub_arr, add_arr. simpl. rewrite Hn, cis_zero_cneg. destruct (cis_zero cb); [discriminate | serr].
      + discriminate.
      + discriminate.
      + unfold pow_arr. rewrite Hn.
        destruct sha as [|m [|n [|x y]]]; try serr.
        destruct (Nat.eqb m n) eqn:Emn; simpl in H; [| serr].
        destruct (integer_like kb cb) eqn:Eil; simpl in H; [| serr].
        destruct (0 <=? exponent_Z cb)%Z eqn:Ez; simpl in H; [discriminate |].
        destruct negpow; [discriminate |]. apply Z.leb_gt in Ez.
        assert ((exponent_Z cb <? 0)%Z = true) as L by (apply Z.ltb_lt; exact Ez).
        rewrite L. simpl. serr.
    - destruct Ha as [Hla Hpa]. destruct Hb as [Hlb Hpb].
      pose proof (proper_not_numberlike _ Hpa) as Hna. pose proof (proper_not_numberlike _ Hpb) as Hnb.
      destruct op; simpl in H; simpl.
      + unfold add_arr. rewrite Hna, Hnb. simpl. destruct (shape_eqb sha shb); [discriminate | serr].
      + unfold sub_arr, add_arr. simpl. rewrite Hna, Hnb. simpl. destruct (shape_eqb sha shb); [discriminate | serr].
      + unfold mul_arr. rewrite Hna, Hnb.
        destruct (Nat.ltb 2 (length sha) || Nat.ltb 2 (length shb)) eqn:Et; [serr |].
        unfold dot_arr. unfold product_shape in H.
        destruct sha as [|m [|n [|x y]]]; destruct shb as [|p [|q [|x' y']]]; try serr;
          destruct (Nat.eqb _ p) eqn:Enp; try discriminate; serr.
      + unfold div_arr. rewrite Hnb. serr.
      + unfold pow_arr. rewrite Hna.
        destruct sha as [|m [|n [|x y]]]; try serr.
        destruct (Nat.eqb m n); [| serr]. rewrite Hnb. serr.
  Qed.

  (* T2: no silent broadcast -- a returned value has exactly the shape linear algebra prescribes *)
  Theorem no_silent_broadcast : forall op a b r,
    proper a -> proper b -> is_arr a \/ is_arr b -> bop op a b = Ret r ->
    la_shape negpow op a b = Some (vshape r).
  Proof.
    intros op a b r Ha Hb Harr H.
    destruct (la_shape negpow op a b) as [s|] eqn:Es.
    2:{ destruct (undefined_is_error op a b Ha Hb Es) as [e [E _]]. congruence. }
    pose proof (operator_sound op a b r Ha Hb H) as V.
    inversion V; subst; simpl in Es; simpl.
    - destruct Harr as [X | X]; destruct X.
    - rewrite shape_eqb_refl in Es. congruence.
    - rewrite H0 in Es. congruence.
    - rewrite H0 in Es. congruence.
    - rewrite shape_eqb_refl in Es. congruence.
    - rewrite H0 in Es. congruence.
    - rewrite H0 in Es. congruence.
    - congruence.
    - congruence.
    - rewrite Nat.eqb_refl in Es. congruence.
    - rewrite Nat.eqb_refl in Es. injection Es as <-. unfold collapse, cshape. destruct (Nat.eqb (sprod [m]) 1); reflexivity.
    - rewrite Nat.eqb_refl in Es. injection Es as <-. unfold collapse, cshape. destruct (Nat.eqb (sprod [q]) 1); reflexivity.
    - rewrite Nat.eqb_refl in Es. injection Es as <-. unfold collapse, cshape. destruct (Nat.eqb (sprod [m; q]) 1); reflexivity.
    - congruence.
    - rewrite Nat.eqb_refl, H0 in Es. simpl in Es.
      destruct ((0 <=? exponent_Z e)%Z || negpow); [congruence | discriminate].
    - rewrite Nat.eqb_refl, H1 in Es. simpl in Es. rewrite orb_true_r in Es. congruence.
  Qed.

  (* T4: where linear algebra defines a result the operator returns one, the only exceptions being a zero
     divisor and an inverse the oracle refuses *)
  Theorem defined_returns : forall op a b s,
    proper a -> proper b -> is_arr a \/ is_arr b -> la_shape negpow op a b = Some s ->
    (exists r, bop op a b = Ret r) \/
    (op = Div /\ is_number_zero b = true /\ bop op a b = Raise EZeroDiv) \/
    (op = Pow /\ bop op a b = Raise ESingular).
  Proof.
    intros op a b s Ha Hb Harr H.
    destruct a as [ka ca | ka sha da]; destruct b as [kb cb | kb shb db].
    - destruct Harr as [X | X]; destruct X.
    - destruct Hb as [Hl Hp]. pose proof (proper_not_numberlike _ Hp) as Hn.
      destruct op; simpl in H; simpl.
      + unfold add_arr. rewrite Hn. destruct (cis_zero ca); [left; eexists; reflexivity | discriminate].
      + unfold rsub_arr, add_arr. rewrite Hn. destruct (cis_zero ca); [left; eexists; reflexivity | discriminate].
      + left; eexists; reflexivity.
      + discriminate.
      + discriminate.
    - destruct Ha as [Hl Hp]. pose proof (proper_not_numberlike _ Hp) as Hn.
      destruct op; simpl in H; simpl.
      + unfold add_arr. rewrite Hn. destruct (cis_zero cb); [left; eexists; reflexivity | discriminate].
      + unfold sub_arr, add_arr. simpl. rewrite Hn, cis_zero_cneg.
        destruct (cis_zero cb); [left; eexists; reflexivity | discriminate].
      + left; eexists; reflexivity.
      + unfold div_data. destruct (cis_zero cb); [right; left; auto | left; eexists; reflexivity].
      + unfold pow_arr. rewrite Hn.
        destruct sha as [|m [|n [|x y]]]; try discriminate.
        destruct (Nat.eqb m n) eqn:Emn; simpl in H; [| discriminate].
        destruct (integer_like kb cb) eqn:Eil; simpl in H; [| discriminate].
        unfold matrix_power.
        destruct (0 <=? exponent_Z cb)%Z eqn:Ez; simpl in H.
        * assert ((exponent_Z cb <? 0)%Z = false) as L by (apply Z.ltb_ge; apply Z.leb_le; exact Ez).
          rewrite L. simpl. left; eexists; reflexivity.
        * destruct negpow; [| discriminate]. rewrite andb_false_r.
          destruct ((exponent_Z cb <? 0)%Z && rk ka n da); [right; right; auto |].
          destruct (inv ka n da); [left; eexists; reflexivity | right; right; auto].
    - destruct Ha as [Hla Hpa]. destruct Hb as [Hlb Hpb].
      pose proof (proper_not_numberlike _ Hpa) as Hna. pose proof (proper_not_numberlike _ Hpb) as Hnb.
      destruct op; simpl in H; simpl.
      + unfold add_arr. rewrite Hna, Hnb. simpl. destruct (shape_eqb sha shb); [left; eexists; reflexivity | discriminate].
      + unfold sub_arr, add_arr. simpl. rewrite Hna, Hnb. simpl.
        destruct (shape_eqb sha shb); [left; eexists; reflexivity | discriminate].
      + unfold mul_arr. rewrite Hna, Hnb. unfold product_shape in H.
        destruct sha as [|m [|n [|x y]]]; destruct shb as [|p [|q [|x' y']]]; try discriminate; simpl;
          destruct (Nat.eqb _ p) eqn:Enp; try discriminate; left; eexists; reflexivity.
      + discriminate.
      + destruct sha as [|? [|? [|? ?]]]; discriminate.
  Qed.

  (* closure: results stay inside the property's quantifier, whatever the oracles answer for matrices *)
  Lemma collapse_proper : forall k sh d, length d = sprod sh -> (1 <= sprod sh)%nat -> proper (collapse k sh d).
  Proof.
    intros k sh d Hl Hp. unfold collapse. destruct (Nat.eqb (sprod sh) 1) eqn:E; simpl; auto.
    apply Nat.eqb_neq in E. split; auto. lia.
  Qed.

  Theorem proper_closed : forall op a b r,
    proper a -> proper b -> is_arr a \/ is_arr b -> bop op a b = Ret r -> proper r.
  Proof.
    intros op a b r Ha Hb Harr H.
    pose proof (operator_sound op a b r Ha Hb H) as V.
    inversion V; subst; simpl in *.
    - destruct Harr as [X | X]; destruct X.
    - destruct Ha, Hb. split; auto. rewrite map2_length; lia.
    - exact Ha.
    - exact Hb.
    - destruct Ha, Hb. split; auto. rewrite map2_length; lia.
    - exact Ha.
    - destruct Hb. split; auto. rewrite map_length. auto.
    - destruct Ha. split; auto. rewrite map_length. auto.
    - destruct Hb. split; auto. rewrite map_length. auto.
    - exact I.
    - destruct Ha as [_ Hp]. apply collapse_proper; [rewrite matvec_length; simpl; lia | simpl in *; nia].
    - destruct Hb as [_ Hp]. apply collapse_proper; [rewrite vecmat_length; simpl; lia | simpl in *; nia].
    - destruct Ha as [_ Hpa]. destruct Hb as [_ Hpb].
      apply collapse_proper; [rewrite matmat_length; simpl; lia | simpl in *; nia].
    - destruct Ha. split; auto. rewrite map_length. auto.
    - destruct Ha as [_ Hp]. split; auto. rewrite mpow_length. simpl. lia.
    - destruct Ha as [_ Hp]. split; auto. rewrite mpow_length. simpl. lia.
  Qed.

  (* ---------------------------------------------------------------- the error clauses of the property *)
  Definition addsub (op : binop) : Prop := op = Add \/ op = Sub.

  (* adding/subtracting a nonzero scalar to/from an array, in either order *)
  Theorem nonzero_scalar_plus_array_error : forall op ks c a,
    addsub op -> proper a -> is_arr a -> cis_zero c = false ->
    is_student_error (bop op (Num ks c) a) /\ is_student_error (bop op a (Num ks c)).
  Proof.
    intros op ks c a Hop Ha Harr Hc. destruct a as [|ka sh d]; [destruct Harr|].
    split; apply undefined_is_error; simpl; auto; destruct Hop; subst op; simpl; rewrite Hc; reflexivity.
  Qed.

  (* adding/subtracting arrays of different shapes *)
  Theorem shape_mismatch_error : forall op ka sa da kb sb db,
    addsub op -> proper (Arr ka sa da) -> proper (Arr kb sb db) -> sa <> sb ->
    is_student_error (bop op (Arr ka sa da) (Arr kb sb db)).
  Proof.
    intros op ka sa da kb sb db Hop Ha Hb Hne. apply undefined_is_error; auto.
    destruct Hop; subst op; simpl; rewrite (shape_eqb_neq _ _ Hne); reflexivity.
  Qed.

  (* multiplying arrays whose shapes allow no dot / matrix-vector / vector-matrix / matrix-matrix product
     (inner dimensions differ, or a tensor is involved) *)
  Theorem product_mismatch_error : forall ka sa da kb sb db,
    proper (Arr ka sa da) -> proper (Arr kb sb db) -> product_shape sa sb = None ->
    is_student_error (bop Mul (Arr ka sa da) (Arr kb sb db)).
  Proof. intros. apply undefined_is_error; auto. Qed.

  Theorem tensor_product_error : forall ka sa da kb sb db,
    proper (Arr ka sa da) -> proper (Arr kb sb db) -> (2 < length sa)%nat \/ (2 < length sb)%nat ->
    is_student_error (bop Mul (Arr ka sa da) (Arr kb sb db)).
  Proof.
    intros ka sa da kb sb db Ha Hb Ht. apply product_mismatch_error; auto.
    destruct sa as [|m [|n [|x y]]]; destruct sb as [|p [|q [|x' y']]]; simpl in *; try reflexivity; lia.
  Qed.

  (* dividing anything by an array *)
  Theorem divide_by_array_error : forall a b,
    proper a -> proper b -> is_arr b -> is_student_error (bop Div a b).
  Proof.
    intros a b Ha Hb Harr. apply undefined_is_error; auto.
    destruct b as [|kb shb db]; [destruct Harr|]. destruct a; reflexivity.
  Qed.

  (* raising a vector, a tensor or a non-square matrix to any power *)
  Definition square_matrix (v : val) : Prop := match v with Arr _ [m; n] _ => m = n | _ => False end.
  Theorem bad_base_power_error : forall a b,
    proper a -> proper b -> is_arr a -> ~ square_matrix a -> is_student_error (bop Pow a b).
  Proof.
    intros a b Ha Hb Harr Hns. apply undefined_is_error; auto.
    destruct a as [|ka sh d]; [destruct Harr|]. simpl in Hns.
    destruct b as [kb cb | kb shb db]; destruct sh as [|m [|n [|x y]]]; simpl; try reflexivity.
    destruct (Nat.eqb m n) eqn:E; [apply Nat.eqb_eq in E; contradiction | reflexivity].
  Qed.
  (* raising a matrix to a non-integer power (a float with a fractional part, or any complex number) *)
  Theorem non_integer_power_error : forall a ke e,
    proper a -> is_arr a -> integer_like ke e = false -> is_student_error (bop Pow a (Num ke e)).
  Proof.
    intros a ke e Ha Harr Hni. apply undefined_is_error; simpl; auto.
    destruct a as [|ka sh d]; [destruct Harr|].
    destruct sh as [|m [|n [|x y]]]; simpl; try reflexivity. rewrite Hni, andb_false_r. reflexivity.
  Qed.
  (* raising anything to an array power *)
  Theorem array_exponent_error : forall a b,
    proper a -> proper b -> is_arr b -> is_student_error (bop Pow a b).
  Proof.
    intros a b Ha Hb Harr. apply undefined_is_error; auto.
    destruct b as [|kb shb db]; [destruct Harr|]. destruct a as [|ka sh d]; [reflexivity|].
    destruct sh as [|m [|n [|x y]]]; reflexivity.
  Qed.

  (* in-place and reflected forms are the plain operators *)
  Theorem inplace_is_plain : forall op a b, py_inplace negpow rk inv spow op a b = bop op a b.
  Proof. reflexivity. Qed.
  Theorem radd_is_add : forall ks c ka sh d, bop Add (Num ks c) (Arr ka sh d) = bop Add (Arr ka sh d) (Num ks c).
  Proof. reflexivity. Qed.

  (* ---------------------------------------------------------------- chains (eval_sum, eval_product) *)
  Definition proper_arr (v : val) : Prop := proper v /\ is_arr v.

  Lemma proper_closed_arith : forall op a b r,
    op <> Pow -> proper a -> proper b -> bop op a b = Ret r -> proper r.
  Proof.
    intros op a b r Hop Ha Hb H.
    destruct a as [ka ca|ka sa da] eqn:Ea; destruct b as [kb cb|kb sb db] eqn:Eb;
      try (subst; eapply proper_closed; [| | | exact H]; simpl; auto; fail).
    destruct op; simpl in H; try (inv_ret H; exact I); try contradiction.
    destruct (cis_zero cb); inv_ret H. exact I.
  Qed.

  Theorem eval_sum_sound : forall rest first r,
    proper first -> Forall (fun p => proper (snd p)) rest ->
    eval_sum negpow rk inv spow first rest = Ret r ->
    la_chain negpow rk inv spow Add Sub first rest r /\ proper r.
  Proof.
    induction rest as [|[o v] rest IH]; intros first r Hf Hr H; simpl in H.
    - inv_ret H. split; [constructor | exact Hf].
    - inversion Hr as [|? ? Hv Hr']; subst. simpl in Hv.
      destruct o.
      + destruct (bop Add first v) as [mid|] eqn:E; simpl in H; [|discriminate].
        assert (proper mid) as Hm by (eapply proper_closed_arith; [| | | exact E]; auto; discriminate).
        destruct (IH mid r Hm Hr' H) as [Hc Hp]. split; auto.
        econstructor; [|exact Hc]. simpl. apply operator_sound; auto.
      + destruct (bop Sub first v) as [mid|] eqn:E; simpl in H; [|discriminate].
        assert (proper mid) as Hm by (eapply proper_closed_arith; [| | | exact E]; auto; discriminate).
        destruct (IH mid r Hm Hr' H) as [Hc Hp]. split; auto.
        econstructor; [|exact Hc]. simpl. apply operator_sound; auto.
  Qed.

  (* eval_product: every step is a linear-algebra product / division; the flag only ever adds refusals *)
  Lemma product_loop_sound : forall rest first flag r,
    proper first -> Forall (fun p => proper (snd p)) rest ->
    product_loop negpow rk inv spow first flag rest = Ret r ->
    la_chain negpow rk inv spow Mul Div first rest r /\ proper r.
  Proof.
    induction rest as [|[o v] rest IH]; intros first flag r Hf Hr H; simpl in H.
    - inv_ret H. split; [constructor | exact Hf].
    - inversion Hr as [|? ? Hv Hr']; subst. simpl in Hv.
      destruct o.
      + destruct (is_vector v && flag); [discriminate|].
        destruct (bop Mul first v) as [mid|] eqn:E; simpl in H; [|discriminate].
        assert (proper mid) as Hm by (eapply proper_closed_arith; [| | | exact E]; auto; discriminate).
        destruct (IH mid _ r Hm Hr' H) as [Hc Hp]. split; auto.
        econstructor; [|exact Hc]. simpl. apply operator_sound; auto.
      + destruct (bop Div first v) as [mid|] eqn:E; simpl in H; [|discriminate].
        assert (proper mid) as Hm by (eapply proper_closed_arith; [| | | exact E]; auto; discriminate).
        destruct (IH mid _ r Hm Hr' H) as [Hc Hp]. split; auto.
        econstructor; [|exact Hc]. simpl. apply operator_sound; auto.
  Qed.
  Theorem eval_product_sound : forall rest first r,
    proper first -> Forall (fun p => proper (snd p)) rest ->
    eval_product negpow rk inv spow first rest = Ret r ->
    la_chain negpow rk inv spow Mul Div first rest r /\ proper r.
  Proof. intros. eapply product_loop_sound; eauto. Qed.

  (* ---------------------------------------------------------------- triple vector products *)
  Definition eval_error (o : outcome) : Prop := exists e, o = Raise e /\ student_facing_eval e = true.
  Ltac everr := eexists; split; [reflexivity | reflexivity].

  Definition needed (flag : bool) (result : val) : nat :=
    if flag then 1%nat else if is_vector result then 2%nat else 3%nat.
  Definition mul_vectors (rest : list (bool * val)) : nat :=
    length (filter (fun p : bool * val => fst p && is_vector (snd p)) rest).

  Ltac fin_count :=
    unfold needed, mul_vectors in *; simpl in *; rewrite ?orb_false_r in *;
    repeat match goal with |- context [if ?f then _ else _] => destruct f end; simpl in *; lia.

  Lemma sov_cases : forall v, scalar_or_vector v ->
    (exists k c, v = Num k c) \/ (exists k n d, v = Arr k [n] d /\ length d = n).
  Proof.
    intros [k c | k sh d] H; [left; eauto|]. simpl in H.
    destruct sh as [|n [|x y]]; try contradiction. right. eauto.
  Qed.

  Lemma product_loop_refuses : forall rest result flag,
    scalar_or_vector result -> Forall (fun p => scalar_or_vector (snd p)) rest ->
    (needed flag result <= mul_vectors rest)%nat ->
    eval_error (product_loop negpow rk inv spow result flag rest).
  Proof.
    induction rest as [|[o value] rest IH]; intros result flag Hres Hrest Hcount.
    - unfold needed, mul_vectors in Hcount. simpl in Hcount. destruct flag; [lia|]. destruct (is_vector result); lia.
    - inversion Hrest as [|? ? Hv Hrest']; subst. simpl in Hv.
      unfold mul_vectors in Hcount. simpl in Hcount. fold (mul_vectors rest) in Hcount.
      destruct (sov_cases _ Hres) as [[kr [cr ->]] | [kr [nr [dr [-> Hlr]]]]];
        destruct (sov_cases _ Hv) as [[kv [cv ->]] | [kv [nv [dv [-> Hlv]]]]];
        destruct o; simpl in Hcount; simpl.
      + (* Num * Num *) apply IH; [exact I | assumption | fin_count].
      + (* Num / Num *) destruct (cis_zero cv); simpl; [everr|]. apply IH; [exact I | assumption | fin_count].
      + (* Num * vec *) destruct flag; simpl; [everr|].
        apply IH; [simpl; rewrite map_length; exact Hlv | assumption | fin_count].
      + (* Num / vec *) everr.
      + (* vec * Num *) apply IH; [simpl; rewrite map_length; exact Hlr | assumption | fin_count].
      + (* vec / Num *) unfold div_data. destruct (cis_zero cv); simpl; [everr|].
        apply IH; [simpl; rewrite map_length; exact Hlr | assumption | fin_count].
      + (* vec * vec *) destruct flag; simpl; [everr|].
        destruct (Nat.eqb (nr * 1) 1); simpl.
        { apply IH; [simpl; rewrite map_length; exact Hlv | assumption | fin_count]. }
        destruct (Nat.eqb (nv * 1) 1); simpl.
        { apply IH; [simpl; rewrite map_length; exact Hlr | assumption | fin_count]. }
        destruct (Nat.eqb nr nv); simpl; [|everr].
        apply IH; [exact I | assumption | fin_count].
      + (* vec / vec *) unfold div_data.
        destruct (Nat.eqb (nv * 1) 1); simpl; [|everr].
        destruct (cis_zero (item dv)); simpl; [everr|].
        apply IH; [simpl; rewrite map_length; exact Hlr | assumption | fin_count].
  Qed.

  (* a chain of numbers and vectors (any lengths, any number of operands, '*' and '/' in any positions)
     containing three or more vectors as factors is refused *)
  Theorem triple_vector_refused : forall first rest,
    scalar_or_vector first -> Forall (fun p => scalar_or_vector (snd p)) rest ->
    (3 <= count_mul_vectors first rest)%nat ->
    eval_error (eval_product negpow rk inv spow first rest).
  Proof.
    intros first rest Hf Hr Hc. unfold eval_product. apply product_loop_refuses; auto.
    unfold count_mul_vectors in Hc. unfold needed, mul_vectors. destruct (is_vector first); lia.
  Qed.

  (* ---------------------------------------------------------------- eval_array *)
  Lemma all_nums_spec : forall l k d, all_nums l = Some (k, d) ->
    length d = length l /\ Forall (fun v => exists kv cv, v = Num kv cv) l.
  Proof.
    induction l as [|v l IH]; intros k d H; simpl in H.
    - inv_ret H. auto.
    - destruct v as [kv cv|]; [|discriminate]. destruct (all_nums l) as [[ka dd]|] eqn:E; [|discriminate].
      inv_ret H. destruct (IH _ _ eq_refl) as [Hl Hf]. simpl. split; [lia|]. constructor; eauto.
  Qed.
  Lemma all_arrs_spec : forall sh l k d, all_arrs sh l = Some (k, d) ->
    Forall (fun v => exists kv dv, v = Arr kv sh dv) l /\
    (Forall (fun v => match v with Arr _ s dv => length dv = sprod s | _ => True end) l ->
     length d = (length l * sprod sh)%nat).
  Proof.
    induction l as [|v l IH]; intros k d H; simpl in H.
    - inv_ret H. split; auto.
    - destruct v as [|kv s dv]; [discriminate|]. destruct (all_arrs sh l) as [[ka dd]|] eqn:E; [|discriminate].
      destruct (shape_eqb s sh) eqn:Es; [|discriminate]. apply shape_eqb_eq in Es. subst s.
      inv_ret H. destruct (IH _ _ eq_refl) as [Hf Hl]. split.
      + constructor; eauto.
      + intro Hw. inversion Hw; subst. rewrite app_length. simpl. rewrite Hl by assumption. lia.
  Qed.

  (* an array literal either stacks children of one common shape or is refused; it never mixes shapes *)
  Theorem eval_array_spec : forall items r,
    eval_array items = Ret r ->
    (exists k d, r = Arr k [length items] d /\ length d = length items
                 /\ Forall (fun v => exists kv cv, v = Num kv cv) items) \/
    (exists k sh d, r = Arr k (length items :: sh) d
                 /\ Forall (fun v => exists kv dv, v = Arr kv sh dv) items).
  Proof.
    intros items r H. unfold eval_array in H.
    destruct items as [|v items]; [discriminate|].
    destruct v as [kv cv | kv sh dv].
    - destruct (all_nums (Num kv cv :: items)) as [[k d]|] eqn:E; inv_ret H.
      destruct (all_nums_spec _ _ _ E) as [Hl Hf]. left. eauto 8.
    - destruct (all_arrs sh (Arr kv sh dv :: items)) as [[k d]|] eqn:E; inv_ret H.
      destruct (all_arrs_spec _ _ _ _ E) as [Hf _]. right. eauto 8.
  Qed.
  Theorem eval_array_ragged : forall items,
    items <> [] -> (forall r, eval_array items <> Ret r) -> eval_array items = Raise ERagged.
  Proof.
    intros items Hne Hno. unfold eval_array in *.
    destruct items as [|v items]; [contradiction|].
    destruct v as [kv cv | kv sh dv].
    - destruct (all_nums (Num kv cv :: items)) as [[k d]|]; [exfalso; eapply Hno; reflexivity | reflexivity].
    - destruct (all_arrs sh (Arr kv sh dv :: items)) as [[k d]|]; [exfalso; eapply Hno; reflexivity | reflexivity].
  Qed.

  (* ---------------------------------------------------------------- negative powers *)
  (* while negative powers are disabled, a negative exponent on a square matrix is refused, whatever its type *)
  Theorem negative_power_disabled_error : forall a ke e,
    negpow = false -> proper a -> is_arr a -> cre e < 0 -> is_student_error (bop Pow a (Num ke e)).
  Proof.
    intros a ke e Hoff Ha Harr Hneg. apply undefined_is_error; simpl; auto.
    destruct a as [|ka sh d]; [destruct Harr|].
    destruct sh as [|m [|n [|x y]]]; simpl; try reflexivity.
    rewrite Hoff. rewrite orb_false_r.
    destruct (Nat.eqb m n); simpl; [|reflexivity]. destruct (integer_like ke e); simpl; [|reflexivity].
    assert ((0 <=? exponent_Z e)%Z = false) as L.
    { apply Z.leb_gt. unfold exponent_Z.
      assert (Qred (cre e) < 0) as Q by (rewrite Qred_correct; exact Hneg).
      unfold Qlt in Q. simpl in Q. lia. }
    rewrite L. reflexivity.
  Qed.
End Main.

(* ------------------------------------------------------------------ Gaussian rationals up to == *)
From Coq Require Import Setoid Morphisms Lqa.

Definition ceq (x y : C) : Prop := cre x == cre y /\ cim x == cim y.
Lemma ceq_refl : forall x, ceq x x.
Proof. intro x. split; reflexivity. Qed.
Lemma ceq_sym : forall x y, ceq x y -> ceq y x.
Proof. intros x y [H1 H2]. split; symmetry; assumption. Qed.
Lemma ceq_trans : forall x y z, ceq x y -> ceq y z -> ceq x z.
Proof. intros x y z [H1 H2] [H3 H4]. split; etransitivity; eassumption. Qed.
Add Parametric Relation : C ceq
  reflexivity proved by ceq_refl symmetry proved by ceq_sym transitivity proved by ceq_trans as ceq_rel.

Add Parametric Morphism : cadd with signature ceq ==> ceq ==> ceq as cadd_mor.
Proof. intros [a b] [a' b'] [H1 H2] [c d] [c' d'] [H3 H4]. unfold ceq, cadd, cre, cim in *. cbn [fst snd] in *. rewrite !Qred_correct. split; lra. Qed.
Add Parametric Morphism : cmul with signature ceq ==> ceq ==> ceq as cmul_mor.
Proof.
  intros [a b] [a' b'] [H1 H2] [c d] [c' d'] [H3 H4]. unfold ceq, cmul, cre, cim in *. cbn [fst snd] in *.
  split; rewrite !Qred_correct, H1, H2, H3, H4; reflexivity.
Qed.

Lemma cadd_0_l : forall x, ceq (cadd c0 x) x.
Proof. intros [a b]. unfold ceq, cadd, c0, cre, cim. cbn [fst snd]. rewrite ?Qred_correct. split; lra. Qed.
Lemma cadd_0_r : forall x, ceq (cadd x c0) x.
Proof. intros [a b]. unfold ceq, cadd, c0, cre, cim. cbn [fst snd]. rewrite ?Qred_correct. split; lra. Qed.
Lemma cadd_comm : forall x y, ceq (cadd x y) (cadd y x).
Proof. intros [a b] [c d]. unfold ceq, cadd, cre, cim. cbn [fst snd]. rewrite ?Qred_correct. split; lra. Qed.
Lemma cadd_assoc : forall x y z, ceq (cadd x (cadd y z)) (cadd (cadd x y) z).
Proof. intros [a b] [c d] [e f]. unfold ceq, cadd, cre, cim. cbn [fst snd]. rewrite ?Qred_correct. split; lra. Qed.
Lemma cmul_0_r : forall x, ceq (cmul x c0) c0.
Proof. intros [a b]. unfold ceq, cmul, c0, cre, cim. cbn [fst snd]. rewrite ?Qred_correct. split; lra. Qed.
Lemma cmul_0_l : forall x, ceq (cmul c0 x) c0.
Proof. intros [a b]. unfold ceq, cmul, c0, cre, cim. cbn [fst snd]. rewrite ?Qred_correct. split; lra. Qed.
Lemma cmul_1_l : forall x, ceq (cmul c1 x) x.
Proof. intros [a b]. unfold ceq, cmul, c1, cre, cim. cbn [fst snd]. rewrite ?Qred_correct. split; lra. Qed.
Lemma cmul_assoc : forall x y z, ceq (cmul x (cmul y z)) (cmul (cmul x y) z).
Proof. intros [a b] [c d] [e f]. unfold ceq, cmul, cre, cim. cbn [fst snd]. rewrite ?Qred_correct. split; ring. Qed.
Lemma cmul_add_distr_l : forall x y z, ceq (cmul x (cadd y z)) (cadd (cmul x y) (cmul x z)).
Proof. intros [a b] [c d] [e f]. unfold ceq, cmul, cadd, cre, cim. cbn [fst snd]. rewrite ?Qred_correct. split; ring. Qed.
Lemma cmul_add_distr_r : forall x y z, ceq (cmul (cadd x y) z) (cadd (cmul x z) (cmul y z)).
Proof. intros [a b] [c d] [e f]. unfold ceq, cmul, cadd, cre, cim. cbn [fst snd]. rewrite ?Qred_correct. split; ring. Qed.
Lemma ceq_zero : forall x, ceq x c0 -> cis_zero x = true.
Proof.
  intros [a b] [H1 H2]. unfold cis_zero. simpl in *. apply andb_true_iff. split; apply Qeq_bool_iff; assumption.
Qed.

(* finite sums over seq s n *)
Definition sig (s n : nat) (f : nat -> C) : C := csum (map f (seq s n)).
Lemma sigma_sig : forall n f, sigma n f = sig 0 n f.
Proof. reflexivity. Qed.
Lemma sig_S : forall s n f, sig s (S n) f = cadd (f s) (sig (S s) n f).
Proof. reflexivity. Qed.
Lemma sig_ext : forall n s f g, (forall l, (s <= l < s + n)%nat -> ceq (f l) (g l)) -> ceq (sig s n f) (sig s n g).
Proof.
  induction n as [|n IH]; intros s f g H.
  - reflexivity.
  - rewrite !sig_S. rewrite (H s) by lia. rewrite (IH (S s) f g); [reflexivity|]. intros l Hl. apply H. lia.
Qed.
Lemma sig_zero : forall n s f, (forall l, (s <= l < s + n)%nat -> ceq (f l) c0) -> ceq (sig s n f) c0.
Proof.
  induction n as [|n IH]; intros s f H.
  - reflexivity.
  - rewrite sig_S. rewrite (H s) by lia. rewrite IH; [apply cadd_0_l|]. intros l Hl. apply H. lia.
Qed.
Lemma sig_add : forall n s f g, ceq (sig s n (fun l => cadd (f l) (g l))) (cadd (sig s n f) (sig s n g)).
Proof.
  induction n as [|n IH]; intros s f g.
  - unfold sig. simpl. symmetry. apply cadd_0_l.
  - rewrite !sig_S. rewrite IH.
    destruct (f s) as [a b], (g s) as [c d], (sig (S s) n f) as [e h], (sig (S s) n g) as [i j].
    unfold ceq, cadd, cre, cim. cbn [fst snd]. rewrite !Qred_correct. split; lra.
Qed.
Lemma sig_scal_l : forall n s a f, ceq (sig s n (fun l => cmul a (f l))) (cmul a (sig s n f)).
Proof.
  induction n as [|n IH]; intros s a f.
  - unfold sig. simpl. symmetry. apply cmul_0_r.
  - rewrite !sig_S. rewrite IH. symmetry. apply cmul_add_distr_l.
Qed.
Lemma sig_scal_r : forall n s a f, ceq (sig s n (fun l => cmul (f l) a)) (cmul (sig s n f) a).
Proof.
  induction n as [|n IH]; intros s a f.
  - unfold sig. simpl. symmetry. apply cmul_0_l.
  - rewrite !sig_S. rewrite IH. symmetry. apply cmul_add_distr_r.
Qed.
Lemma sig_exchange : forall n m s t (f : nat -> nat -> C),
  ceq (sig s n (fun i => sig t m (fun j => f i j))) (sig t m (fun j => sig s n (fun i => f i j))).
Proof.
  induction n as [|n IH]; intros m s t f.
  - unfold sig at 1. simpl. symmetry. apply sig_zero. intros. reflexivity.
  - rewrite sig_S. rewrite IH.
    rewrite <- sig_add. apply sig_ext. intros l Hl. rewrite sig_S. reflexivity.
Qed.
(* sum_j delta(i,j) x_j = x_i *)
Lemma sig_delta : forall n s i (x : nat -> C), (s <= i < s + n)%nat ->
  ceq (sig s n (fun j => cmul (if Nat.eqb i j then c1 else c0) (x j))) (x i).
Proof.
  induction n as [|n IH]; intros s i x H; [lia|].
  rewrite sig_S. destruct (Nat.eqb i s) eqn:E.
  - apply Nat.eqb_eq in E. subst s. rewrite cmul_1_l.
    rewrite sig_zero; [apply cadd_0_r|]. intros l Hl.
    assert (Nat.eqb i l = false) as N by (apply Nat.eqb_neq; lia). rewrite N. apply cmul_0_l.
  - apply Nat.eqb_neq in E. rewrite cmul_0_l. rewrite IH by lia. apply cadd_0_l.
Qed.

Lemma Forall2_nth : forall {A} (R : A -> A -> Prop) l1 l2 d i,
  Forall2 R l1 l2 -> (i < length l1)%nat -> R (nth i l1 d) (nth i l2 d).
Proof.
  intros A R l1 l2 d i H. revert i. induction H as [|x y l1 l2 Hxy H IH]; intros i Hi; simpl in Hi; [lia|].
  destruct i; simpl; auto. apply IH. lia.
Qed.

(* a matrix with a left inverse has only the zero vector in its kernel *)
Lemma left_inverse_kernel : forall n d b x,
  data_eq (matmat n n n b d) (identity n) ->
  data_eq (matvec n n d x) (repeat c0 n) ->
  forall i, (i < n)%nat -> ceq (ent x i) c0.
Proof.
  intros n d b x Hinv Hker i Hi.
  (* x_i = sum_j I[i,j] x_j = sum_j (sum_l b[i,l] d[l,j]) x_j = sum_l b[i,l] (sum_j d[l,j] x_j) = 0 *)
  transitivity (sig 0 n (fun j => cmul (if Nat.eqb i j then c1 else c0) (ent x j))).
  { symmetry. apply (sig_delta n 0 i (ent x)). lia. }
  transitivity (sig 0 n (fun j => cmul (sig 0 n (fun l => cmul (ent b (i * n + l)) (ent d (l * n + j)))) (ent x j))).
  { apply sig_ext. intros j Hj.
    assert (ceq (ent (matmat n n n b d) (i * n + j)) (ent (identity n) (i * n + j))) as E.
    { unfold ent. apply (Forall2_nth (fun x y => cre x == cre y /\ cim x == cim y)); [exact Hinv|].
      rewrite matmat_length. nia. }
    rewrite matmat_entry, identity_entry in E by lia. rewrite sigma_sig in E. rewrite E. reflexivity. }
  transitivity (sig 0 n (fun j => sig 0 n (fun l => cmul (ent b (i * n + l)) (cmul (ent d (l * n + j)) (ent x j))))).
  { apply sig_ext. intros j Hj. rewrite <- sig_scal_r. apply sig_ext. intros l Hl. symmetry. apply cmul_assoc. }
  rewrite sig_exchange.
  apply sig_zero. intros l Hl. rewrite sig_scal_l.
  assert (ceq (ent (matvec n n d x) l) (ent (repeat c0 n) l)) as E.
  { unfold ent. apply (Forall2_nth (fun x y => cre x == cre y /\ cim x == cim y)); [exact Hker|].
    rewrite matvec_length. lia. }
  rewrite matvec_entry in E by lia. rewrite sigma_sig in E. rewrite E.
  unfold ent. rewrite nth_repeat. apply cmul_0_r.
Qed.

Section Inverse.
  Variable negpow : bool.
  Variable rk : rank_oracle.
  Variable inv : inv_oracle.
  Variable spow : spow_oracle.

  (* an inverse oracle whose every answer is a true inverse refuses every matrix that has a nonzero kernel vector *)
  Lemma sound_oracle_refuses_singular : inv_sound inv -> forall k n d, has_kernel_vector n d -> inv k n d = None.
  Proof.
    intros inv_ok k n d [x [Hlx [Hnz Hker]]]. destruct (inv k n d) as [b|] eqn:E; [|reflexivity]. exfalso.
    destruct (inv_ok _ _ _ _ E) as [_ [_ Hleft]].
    apply Exists_exists in Hnz. destruct Hnz as [c [Hin Hc]].
    destruct (In_nth _ _ c0 Hin) as [i [Hi Hnth]].
    pose proof (left_inverse_kernel n d b x Hleft Hker i) as Z. rewrite Hlx in Hi. specialize (Z Hi).
    apply ceq_zero in Z. unfold ent in Z. rewrite Hnth in Z. congruence.
  Qed.

  (* negative integer powers of a square matrix: the power of the inverse (of a matrix the rank test let through),
     or the singular-matrix error *)
  Theorem negative_power_spec : inv_sound_regular rk inv -> forall ka n d ke e,
    negpow = true -> proper (Arr ka [n; n] d) -> integer_like ke e = true -> (exponent_Z e < 0)%Z ->
    (exists b, rk ka n d = false /\
               py_binop negpow rk inv spow Pow (Arr ka [n; n] d) (Num ke e)
               = Ret (Arr (kmax KFloat ka) [n; n] (mpow n b (Z.to_nat (- exponent_Z e))))
               /\ data_eq (matmat n n n d b) (identity n) /\ data_eq (matmat n n n b d) (identity n))
    \/ py_binop negpow rk inv spow Pow (Arr ka [n; n] d) (Num ke e) = Raise ESingular.
  Proof.
    intros inv_ok ka n d ke e Hon [Hl Hp] Hil Hneg. simpl. unfold pow_arr.
    rewrite (proper_not_numberlike _ Hp), Nat.eqb_refl, Hil, Hon. rewrite andb_false_r.
    assert ((exponent_Z e <? 0)%Z = true) as Lt by (apply Z.ltb_lt; exact Hneg). rewrite Lt. simpl.
    destruct (rk ka n d) eqn:Erk; [right; reflexivity|].
    unfold matrix_power. assert ((0 <=? exponent_Z e)%Z = false) as L by (apply Z.leb_gt; exact Hneg). rewrite L.
    destruct (inv ka n d) as [b|] eqn:E; [left | right; reflexivity].
    exists b. destruct (inv_ok _ _ _ _ Erk E) as [_ [H1 H2]]. auto.
  Qed.

  (* the repaired code: a matrix with a nonzero kernel vector raised to a negative power is always a student-facing
     error, whatever np.linalg.inv would have answered -- it is never asked *)
  Theorem singular_negative_power_error : rank_complete rk -> forall ka n d ke e,
    proper (Arr ka [n; n] d) -> has_kernel_vector n d -> cre e < 0 ->
    is_student_error (py_binop negpow rk inv spow Pow (Arr ka [n; n] d) (Num ke e)).
  Proof.
    intros rk_ok ka n d ke e [Hl Hp] Hk Hneg. unfold is_student_error. simpl. unfold pow_arr.
    rewrite (proper_not_numberlike _ Hp), Nat.eqb_refl.
    destruct (integer_like ke e); [| eexists; split; reflexivity].
    assert ((exponent_Z e <? 0)%Z = true) as L.
    { apply Z.ltb_lt. unfold exponent_Z.
      assert (Qred (cre e) < 0) as Q by (rewrite Qred_correct; exact Hneg).
      unfold Qlt in Q. simpl in Q. lia. }
    rewrite L. destruct negpow; simpl; [| eexists; split; reflexivity].
    rewrite (rk_ok ka n d Hk). eexists; split; reflexivity.
  Qed.
End Inverse.

(* the exact inverse of Model/MathArray.v certifies its own answers, so inv_sound is satisfiable *)
Lemma list_ceqb_data_eq : forall a b, list_ceqb a b = true -> data_eq a b.
Proof.
  induction a as [|x a IH]; destruct b as [|y b]; simpl; intro H; try discriminate; [constructor|].
  apply andb_true_iff in H. destruct H as [H1 H2]. constructor; [|apply IH; exact H2].
  unfold ceqb in H1. apply andb_true_iff in H1. destruct H1 as [P Q]. split; apply Qeq_bool_iff; assumption.
Qed.
Theorem exact_inv_sound : inv_sound exact_inv.
Proof.
  intros k n d b H. unfold exact_inv in H.
  destruct (cis_zero (det n d)); [discriminate|].
  destruct (list_ceqb _ _ && list_ceqb _ _) eqn:E; [|discriminate]. injection H as <-.
  apply andb_true_iff in E. destruct E as [E1 E2].
  split; [| split; apply list_ceqb_data_eq; assumption].
  rewrite map_length. unfold adjugate. rewrite (flat_map_const_length _ n).
  - rewrite seq_length. reflexivity.
  - intro i. rewrite map_length, seq_length. reflexivity.
Qed.

(* the exact oracles satisfy both contracts, so the hypotheses of the negative-power theorems are satisfiable *)
Theorem exact_rank_complete : rank_complete exact_rank_deficient.
Proof.
  intros k n d H. unfold exact_rank_deficient.
  rewrite (sound_oracle_refuses_singular exact_inv exact_inv_sound k n d H). reflexivity.
Qed.
Theorem exact_inv_sound_regular : inv_sound_regular exact_rank_deficient exact_inv.
Proof. intros k n d b _ H. exact (exact_inv_sound k n d b H). Qed.

(* ------------------------------------------------------------------ restatements used verbatim by Props/C14.v *)
Lemma elementwise_entry : forall (f : C -> C -> C) l1 l2 i, (i < length l1)%nat -> (i < length l2)%nat ->
  nth i (map2 f l1 l2) c0 = f (nth i l1 c0) (nth i l2 c0).
Proof. intros. apply map2_nth; assumption. Qed.
Lemma power_unfolds : forall n d k, mpow n d 0 = identity n /\ mpow n d (S k) = matmat n n n d (mpow n d k).
Proof. intros. split; reflexivity. Qed.
Lemma negative_power_disabled_error' : forall rk inv spow a ke e,
  proper a -> is_arr a -> cre e < 0 -> is_student_error (py_binop false rk inv spow Pow a (Num ke e)).
Proof. intros. apply negative_power_disabled_error; auto. Qed.
Lemma negative_power_inverse : forall rk inv spow, inv_sound_regular rk inv -> forall ka n d ke e,
  proper (Arr ka [n; n] d) -> integer_like ke e = true -> (exponent_Z e < 0)%Z ->
  (exists b, rk ka n d = false /\
             py_binop true rk inv spow Pow (Arr ka [n; n] d) (Num ke e)
             = Ret (Arr (kmax KFloat ka) [n; n] (mpow n b (Z.to_nat (- exponent_Z e))))
             /\ data_eq (matmat n n n d b) (identity n) /\ data_eq (matmat n n n b d) (identity n))
  \/ py_binop true rk inv spow Pow (Arr ka [n; n] d) (Num ke e) = Raise ESingular.
Proof. intros rk inv spow H ka n d ke e. apply (negative_power_spec true rk inv spow H). reflexivity. Qed.

(* ------------------------------------------------------------------ witnesses and examples *)
(* np.linalg.inv([[3,3],[5,5]]) as observed on the implementation (exact doubles) *)
Definition numpy_inv_observed : inv_oracle := fun _ _ _ =>
  Some [ (2251799813685248 # 1, 0); (- (1351079888211149 # 1), 0);
         (- (2251799813685248 # 1), 0); (1351079888211149 # 1, 0) ].
Definition singular_witness : list C := [ (3, 0); (3, 0); (5, 0); (5, 0) ].
Definition no_spow : spow_oracle := fun _ _ _ _ => Raise EOutside.
Definition zi (z : Z) : C := (inject_Z z, 0).
Definition cred (c : C) : C := (Qred (cre c), Qred (cim c)).

(* the former defect, now a regression example: numpy's rank test flags [[3,3],[5,5]] (observed: rank 1), so the model of the
   repaired __pow__ raises the singular-matrix error although np.linalg.inv would still hand back the huge matrix *)
Definition numpy_rank_observed : rank_oracle := fun _ _ _ => true.
Lemma c14_singular_witness_is_error :
  proper (Arr KInt [2; 2]%nat singular_witness) /\
  has_kernel_vector 2 singular_witness /\
  py_binop true numpy_rank_observed numpy_inv_observed no_spow Pow (Arr KInt [2; 2]%nat singular_witness) (Num KInt (zi (-1)))
    = Raise ESingular /\
  py_binop true exact_rank_deficient exact_inv no_spow Pow (Arr KInt [2; 2]%nat singular_witness) (Num KFloat (zi (-2)))
    = Raise ESingular /\
  ~ inv_sound numpy_inv_observed.
Proof.
  split; [split; [reflexivity | simpl; lia] |]. split; [| split; [| split]].
  - exists [ (1, 0); (- (1), 0) ]. split; [reflexivity|]. split.
    + constructor. reflexivity.
    + unfold data_eq. simpl. repeat (constructor; [split; vm_compute; reflexivity |]). constructor.
  - vm_compute. reflexivity.
  - vm_compute. reflexivity.
  - intro H. destruct (H KInt 2%nat singular_witness _ eq_refl) as [_ [H1 _]].
    inversion H1 as [|? ? ? ? [Hre _] _]. vm_compute in Hre. discriminate.
Qed.

Lemma c14_ex_products :
  py_binop true exact_rank_deficient exact_inv no_spow Mul (Arr KInt [2;2]%nat (map zi [1;2;3;4]%Z)) (Arr KInt [2]%nat (map zi [5;6]%Z))
    = Ret (Arr KInt [2]%nat [(17,0); (39,0)]) /\
  py_binop true exact_rank_deficient exact_inv no_spow Mul (Arr KInt [2]%nat (map zi [1;2]%Z)) (Arr KInt [2;2]%nat (map zi [1;2;3;4]%Z))
    = Ret (Arr KInt [2]%nat [(7,0); (10,0)]) /\
  py_binop true exact_rank_deficient exact_inv no_spow Mul (Arr KInt [2]%nat (map zi [1;2]%Z)) (Arr KInt [2]%nat (map zi [3;4]%Z))
    = Ret (Num KInt (11,0)) /\
  py_binop true exact_rank_deficient exact_inv no_spow Mul (Arr KInt [1;2]%nat (map zi [1;2]%Z)) (Arr KInt [2;1]%nat (map zi [3;4]%Z))
    = Ret (Num KInt (11,0)).
Proof. vm_compute. repeat split; reflexivity. Qed.

Lemma c14_ex_powers :
  (match py_binop true exact_rank_deficient exact_inv no_spow Pow (Arr KInt [2;2]%nat (map zi [1;2;3;4]%Z)) (Num KInt (zi (-1))) with
   | Ret (Arr KFloat [2%nat; 2%nat] d) => map cred d = [(-2,0); (1,0); (3#2,0); (-1#2,0)]
   | _ => False end) /\
  py_binop false exact_rank_deficient exact_inv no_spow Pow (Arr KInt [2;2]%nat (map zi [1;2;3;4]%Z)) (Num KInt (zi (-1))) = Raise ENegPowDisabled /\
  py_binop true exact_rank_deficient exact_inv no_spow Pow (Arr KInt [2;2]%nat (map zi [1;2;2;4]%Z)) (Num KInt (zi (-1))) = Raise ESingular /\
  py_binop true exact_rank_deficient exact_inv no_spow Pow (Arr KInt [2;2]%nat (map zi [1;2;3;4]%Z)) (Num KFloat (2,0))
    = Ret (Arr KInt [2;2]%nat [(7,0); (10,0); (15,0); (22,0)]) /\
  py_binop true exact_rank_deficient exact_inv no_spow Pow (Arr KInt [2;2]%nat (map zi [1;2;3;4]%Z)) (Num KFloat (1#2,0)) = Raise ENonIntPow /\
  py_binop true exact_rank_deficient exact_inv no_spow Pow (Arr KInt [2;2]%nat (map zi [1;2;3;4]%Z)) (Num KComplex (2,0)) = Raise ENonIntPow /\
  py_binop true exact_rank_deficient exact_inv no_spow Pow (Arr KInt [2;3]%nat (map zi [1;2;3;4;5;6]%Z)) (Num KInt (zi 2)) = Raise EPowNonSquare /\
  py_binop true exact_rank_deficient exact_inv no_spow Pow (Arr KInt [2]%nat (map zi [1;2]%Z)) (Num KInt (zi 2)) = Raise EPowShape.
Proof. vm_compute. repeat split; reflexivity. Qed.

Lemma c14_ex_errors :
  py_binop true exact_rank_deficient exact_inv no_spow Add (Arr KInt [2]%nat (map zi [1;2]%Z)) (Arr KInt [3]%nat (map zi [1;2;3]%Z)) = Raise EAddShape /\
  py_binop true exact_rank_deficient exact_inv no_spow Add (Arr KInt [2]%nat (map zi [1;2]%Z)) (Num KInt (zi 1)) = Raise EAddScalar /\
  py_binop true exact_rank_deficient exact_inv no_spow Sub (Num KInt (zi 1)) (Arr KInt [2]%nat (map zi [1;2]%Z)) = Raise EAddScalar /\
  py_binop true exact_rank_deficient exact_inv no_spow Div (Arr KInt [2]%nat (map zi [1;2]%Z)) (Arr KInt [2]%nat (map zi [1;2]%Z)) = Raise EDivArray /\
  py_binop true exact_rank_deficient exact_inv no_spow Div (Num KInt (zi 2)) (Arr KInt [2]%nat (map zi [1;2]%Z)) = Raise ERDivArray /\
  py_binop true exact_rank_deficient exact_inv no_spow Pow (Num KInt (zi 2)) (Arr KInt [2]%nat (map zi [1;2]%Z)) = Raise ERPowArray /\
  py_binop true exact_rank_deficient exact_inv no_spow Add (Num KFloat (zi 0)) (Arr KInt [2]%nat (map zi [1;2]%Z))
    = Ret (Arr KFloat [2]%nat (map zi [1;2]%Z)).
Proof. vm_compute. repeat split; reflexivity. Qed.

Lemma c14_ex_formulas :
  let v12 := EArr [EVal (Num KFloat (zi 1)); EVal (Num KFloat (zi 2))] in
  let v34 := EArr [EVal (Num KFloat (zi 3)); EVal (Num KFloat (zi 4))] in
  let v56 := EArr [EVal (Num KFloat (zi 5)); EVal (Num KFloat (zi 6))] in
  eval_expr true exact_rank_deficient exact_inv no_spow (EProd v12 [(true, v34); (true, v56)]) = Raise ETripleVec /\
  eval_expr true exact_rank_deficient exact_inv no_spow (EProd (EParen (EProd v12 [(true, v34)])) [(true, v56)])
    = Ret (Arr KFloat [2]%nat [(55,0); (66,0)]) /\
  eval_expr true exact_rank_deficient exact_inv no_spow (EArr [v12; EArr [EVal (Num KFloat (zi 3))]]) = Raise ERagged.
Proof. vm_compute. repeat split; reflexivity. Qed.

(* ------------------------------------------------------------------ formula trees *)
Section ExprInd.
  Variable P : expr -> Prop.
  Hypothesis Hval : forall v, P (EVal v).
  Hypothesis Harr : forall items, Forall P items -> P (EArr items).
  Hypothesis Hneg : forall k e, P e -> P (ENeg k e).
  Hypothesis Hpow : forall items, Forall (opt_pred P) items -> P (EPow items).
  Hypothesis Hprod : forall first rest, P first -> Forall (fun p => P (snd p)) rest -> P (EProd first rest).
  Hypothesis Hsum : forall first rest, P first -> Forall (fun p => P (snd p)) rest -> P (ESum first rest).
  Hypothesis Hpar : forall e, P e -> P (EParen e).

  Fixpoint expr_ind' (e : expr) : P e :=
    match e with
    | EVal v => Hval v
    | EArr items =>
        Harr items ((fix go (l : list expr) : Forall P l :=
                       match l with [] => Forall_nil _ | x :: r => Forall_cons x (expr_ind' x) (go r) end) items)
    | ENeg k e' => Hneg k e' (expr_ind' e')
    | EPow items =>
        Hpow items ((fix go (l : list (option expr)) : Forall (opt_pred P) l :=
                       match l with
                       | [] => Forall_nil _
                       | None :: r => Forall_cons None (OP_none P) (go r)
                       | Some x :: r => Forall_cons (Some x) (OP_some P x (expr_ind' x)) (go r)
                       end) items)
    | EProd first rest =>
        Hprod first rest (expr_ind' first)
          ((fix go (l : list (bool * expr)) : Forall (fun p => P (snd p)) l :=
              match l with [] => Forall_nil _ | (o, x) :: r => Forall_cons (o, x) (expr_ind' x) (go r) end) rest)
    | ESum first rest =>
        Hsum first rest (expr_ind' first)
          ((fix go (l : list (bool * expr)) : Forall (fun p => P (snd p)) l :=
              match l with [] => Forall_nil _ | (o, x) :: r => Forall_cons (o, x) (expr_ind' x) (go r) end) rest)
    | EParen e' => Hpar e' (expr_ind' e')
    end.
End ExprInd.

Lemma mapM_inl : forall {A B} (f : A -> B + err) l vs, mapM f l = inl vs -> Forall2 (fun x v => f x = inl v) l vs.
Proof.
  intros A B f. induction l as [|x l IH]; intros vs H; simpl in H.
  - injection H as <-. constructor.
  - destruct (f x) as [v|e] eqn:E; [|discriminate].
    destruct (mapM f l) as [vs'|e] eqn:E'; [|discriminate]. injection H as <-.
    constructor; auto.
Qed.

Lemma Forall2_len : forall {A B} (R : A -> B -> Prop) l1 l2, Forall2 R l1 l2 -> length l1 = length l2.
Proof. intros A B R l1 l2 H. induction H; simpl; auto. Qed.

Lemma neg_val_proper : forall v, proper v -> proper (neg_val v).
Proof. intros [k c | k sh d] H; simpl in *; auto. rewrite map_length. exact H. Qed.

Section Trees.
  Variable negpow : bool.
  Variable rk : rank_oracle.
  Variable inv : inv_oracle.
  Variable spow : spow_oracle.
  Hypothesis spow_num : spow_numeric spow.

  Local Notation bop := (py_binop negpow rk inv spow).

  Lemma pow_proper : forall a b r, proper a -> proper b -> bop Pow a b = Ret r -> proper r.
  Proof.
    intros a b r Ha Hb H.
    destruct a as [ka ca | ka sa da] eqn:Ea; destruct b as [kb cb | kb sb db] eqn:Eb;
      try (subst; eapply proper_closed; [| | | exact H]; simpl; auto; fail).
    simpl in H. destruct (spow_num _ _ _ _ _ H) as [k [c ->]]. exact I.
  Qed.

  Lemma power_loop_sound : forall rest res r,
    proper res -> Forall (opt_pred proper) rest ->
    power_loop negpow rk inv spow rest res = Ret r ->
    la_power_loop negpow rk inv spow rest res r /\ proper r.
  Proof.
    induction rest as [|[w|] rest IH]; intros res r Hres Hrest H; simpl in H.
    - inv_ret H. split; [constructor | exact Hres].
    - inversion Hrest as [|? ? Hw Hrest']; subst. inversion Hw; subst.
      destruct (bop Pow w res) as [mid|] eqn:E; simpl in H; [|discriminate].
      assert (proper mid) as Hm by (eapply pow_proper; [| | exact E]; auto).
      destruct (IH mid r Hm Hrest' H) as [Hc Hp]. split; auto.
      econstructor; [|exact Hc]. apply operator_sound; auto.
    - inversion Hrest as [|? ? _ Hrest']; subst.
      destruct (IH (neg_val res) r (neg_val_proper _ Hres) Hrest' H) as [Hc Hp]. split; auto. constructor. exact Hc.
  Qed.

  Lemma eval_power_sound : forall items r,
    Forall (opt_pred proper) items -> eval_power negpow rk inv spow items = Ret r ->
    la_power negpow rk inv spow items r /\ proper r.
  Proof.
    intros items r Hi H. unfold eval_power in H. unfold la_power.
    apply Forall_rev in Hi. destruct (rev items) as [|[last|] rest]; try discriminate.
    inversion Hi as [|? ? Hl Hr]; subst. inversion Hl; subst.
    apply power_loop_sound; auto.
  Qed.

  Lemma eval_negation_sound : forall k v r,
    proper v -> eval_negation negpow rk inv spow k v = Ret r ->
    la_value negpow rk inv spow Mul v (Num KInt (if Nat.even k then c1 else cneg c1)) r /\ proper r.
  Proof.
    intros k v r Hv H. unfold eval_negation in H. split.
    - apply operator_sound; simpl; auto.
    - eapply proper_closed_arith; [| | | exact H]; simpl; auto. discriminate.
  Qed.

  Lemma eval_array_proper : forall items r,
    (2 <= length items)%nat -> Forall proper items -> eval_array items = Ret r -> proper r.
  Proof.
    intros items r Hlen Hp H. unfold eval_array in H.
    destruct items as [|v items]; [discriminate|].
    destruct v as [kv cv | kv sh dv].
    - destruct (all_nums (Num kv cv :: items)) as [[k d]|] eqn:E; inv_ret H.
      destruct (all_nums_spec _ _ _ E) as [Hl _]. simpl in *. split; lia.
    - destruct (all_arrs sh (Arr kv sh dv :: items)) as [[k d]|] eqn:E; inv_ret H.
      destruct (all_arrs_spec _ _ _ _ E) as [_ Hl].
      assert (Forall (fun v => match v with Arr _ s dv0 => length dv0 = sprod s | _ => True end) (Arr kv sh dv :: items)) as W.
      { eapply Forall_impl; [|exact Hp]. intros [? ?|? ? ?] Q; simpl in *; auto. destruct Q; auto. }
      specialize (Hl W). inversion Hp as [|? ? Hfirst _]; subst. simpl in Hfirst. destruct Hfirst as [_ Hs].
      simpl in *. split; [lia | nia].
  Qed.

  Definition tree_ok (e : expr) : Prop :=
    forall r, wf_expr e -> eval_expr negpow rk inv spow e = Ret r -> la_eval negpow rk inv spow e r /\ proper r.

  Lemma ops_sound : forall rest vs,
    Forall (fun p => tree_ok (snd p)) rest -> Forall (fun p => wf_expr (snd p)) rest ->
    mapM (op_item (eval_expr negpow rk inv spow)) rest = inl vs ->
    Forall2 (fun p q => fst p = fst q /\ la_eval negpow rk inv spow (snd p) (snd q)) rest vs /\
    Forall (fun q => proper (snd q)) vs.
  Proof.
    intros rest vs Hok Hwf H. apply mapM_inl in H.
    induction H as [|[o x] [o' v] rest vs Hx H IH]; [split; constructor|].
    inversion Hok as [|? ? Hk Hok']; subst. inversion Hwf as [|? ? Hw Hwf']; subst. simpl in *.
    unfold op_item in Hx. simpl in Hx. destruct (eval_expr negpow rk inv spow x) as [v0|] eqn:E; [|discriminate].
    injection Hx as <- <-. destruct (Hk v0 Hw ltac:(first [exact E | reflexivity])) as [Hl Hp]. destruct (IH Hok' Hwf') as [H1 H2].
    split; constructor; auto.
  Qed.

  (* every formula tree inside the quantifier: if evaluation returns, every operator application on the way was a
     linear-algebra step (la_eval), and the result is again a proper value *)
  Theorem eval_expr_sound : forall e, tree_ok e.
  Proof.
    apply expr_ind'; unfold tree_ok.
    - intros v r Hwf H. simpl in H. inv_ret H. inversion Hwf; subst. split; [constructor | assumption].
    - intros items IH r Hwf H. inversion Hwf as [| | |? Hlen Hw| | |]; subst. simpl in H.
      destruct (mapM (arg_item (eval_expr negpow rk inv spow)) items) as [vs|] eqn:E; [|discriminate].
      apply mapM_inl in E.
      assert (Forall2 (la_eval negpow rk inv spow) items vs /\ Forall proper vs) as [F2 Fp].
      { clear H Hlen Hwf. induction E as [|x v items vs Hx E IHE]; [split; constructor|].
        inversion IH as [|? ? Hk IH']; subst. inversion Hw as [|? ? Hwx Hw']; subst.
        unfold arg_item, lift in Hx. destruct (eval_expr negpow rk inv spow x) as [v0|] eqn:Ex; [|discriminate].
        injection Hx as <-. destruct (Hk v0 Hwx ltac:(first [exact Ex | reflexivity])) as [Hl Hp]. destruct (IHE IH' Hw') as [H1 H2].
        split; constructor; auto. }
      split; [econstructor; eauto|].
      eapply eval_array_proper; [| exact Fp | exact H].
      rewrite <- (Forall2_len _ _ _ F2). exact Hlen.
    - intros k e IH r Hwf H. inversion Hwf; subst. simpl in H.
      destruct (eval_expr negpow rk inv spow e) as [v|] eqn:E; simpl in H; [|discriminate].
      destruct (IH v H1 ltac:(first [exact E | reflexivity])) as [Hl Hp]. destruct (eval_negation_sound k v r Hp H) as [Hv Hr].
      split; [econstructor; eauto | exact Hr].
    - intros items IH r Hwf H. inversion Hwf as [| | | |? Hw| |]; subst. simpl in H.
      destruct (mapM (pow_item (eval_expr negpow rk inv spow)) items) as [vs|] eqn:E; [|discriminate].
      apply mapM_inl in E.
      assert (Forall2 (opt_rel (la_eval negpow rk inv spow)) items vs /\ Forall (opt_pred proper) vs) as [F2 Fp].
      { clear H Hwf. induction E as [|o w items vs Hx E IHE]; [split; constructor|].
        inversion IH as [|? ? Hk IH']; subst. inversion Hw as [|? ? Hwx Hw']; subst.
        destruct (IHE IH' Hw') as [H1 H2].
        destruct o as [x|]; simpl in Hx.
        - destruct (eval_expr negpow rk inv spow x) as [v0|] eqn:Ex; [|discriminate]. injection Hx as <-.
          inversion Hk as [|? Hkx]; subst. inversion Hwx as [|? Hwxx]; subst.
          destruct (Hkx v0 Hwxx ltac:(first [exact Ex | reflexivity])) as [Hl Hp].
          split; constructor; auto; constructor; auto.
        - injection Hx as <-. split; constructor; auto; constructor. }
      destruct (eval_power_sound vs r Fp H) as [Hl Hp]. split; [econstructor; eauto | exact Hp].
    - intros first rest IHf IHr r Hwf H. inversion Hwf as [| | | | |? ? Hwf1 Hwr|]; subst. simpl in H.
      destruct (eval_expr negpow rk inv spow first) as [f|] eqn:E; simpl in H; [|discriminate].
      destruct (mapM (op_item (eval_expr negpow rk inv spow)) rest) as [vs|] eqn:E'; [|discriminate].
      destruct (IHf f Hwf1 ltac:(first [exact E | reflexivity])) as [Hlf Hpf]. destruct (ops_sound rest vs IHr Hwr E') as [F2 Fp].
      destruct (eval_product_sound negpow rk inv spow vs f r Hpf Fp H) as [Hc Hp].
      split; [econstructor; eauto | exact Hp].
    - intros first rest IHf IHr r Hwf H. inversion Hwf as [| | | | | |? ? Hwf1 Hwr]; subst. simpl in H.
      destruct (eval_expr negpow rk inv spow first) as [f|] eqn:E; simpl in H; [|discriminate].
      destruct (mapM (op_item (eval_expr negpow rk inv spow)) rest) as [vs|] eqn:E'; [|discriminate].
      destruct (IHf f Hwf1 ltac:(first [exact E | reflexivity])) as [Hlf Hpf]. destruct (ops_sound rest vs IHr Hwr E') as [F2 Fp].
      destruct (eval_sum_sound negpow rk inv spow vs f r Hpf Fp H) as [Hc Hp].
      split; [econstructor; eauto | exact Hp].
    - intros e IH r Hwf H. inversion Hwf; subst. simpl in H. destruct (IH r H1 H) as [Hl Hp].
      split; [constructor; exact Hl | exact Hp].
  Qed.
End Trees.

(* ------------------------------------------------------------------ single-element arrays (outside the property's quantifier) *)
(* as right operand of *, / and ^ a one-element array of any shape acts as the number it holds *)
Lemma numberlike_acts_as_scalar : forall negpow rk inv spow op ks shs ds ko sho d2,
  op = Mul \/ op = Div \/ op = Pow ->
  proper (Arr ks shs ds) -> sprod sho = 1%nat ->
  py_binop negpow rk inv spow op (Arr ks shs ds) (Arr ko sho d2)
  = py_binop negpow rk inv spow op (Arr ks shs ds) (Num ko (item d2)).
Proof.
  intros negpow rk inv spow op ks shs ds ko sho d2 Hop [Hl Hp] Ho.
  pose proof (proper_not_numberlike _ Hp) as Hn.
  destruct Hop as [-> | [-> | ->]]; simpl.
  - unfold mul_arr. rewrite Hn, Ho. reflexivity.
  - unfold div_arr. rewrite Ho. reflexivity.
  - unfold pow_arr. rewrite Hn.
    destruct shs as [|m [|n [|x y]]]; try reflexivity.
    destruct (Nat.eqb m n); [|reflexivity]. rewrite Ho. reflexivity.
Qed.

(* ------------------------------------------------------------------ the negative-powers switch *)
Lemma run_no_with : forall p f, no_with p = true ->
  run f p = run_prev f p /\ snd (run f p) = f /\ Forall (eq f) (fst (run f p)).
Proof.
  induction p as [|p IHp q IHq|v body IH]; intros f H; simpl in *.
  - repeat split. constructor; auto.
  - apply andb_true_iff in H. destruct H as [Hp Hq].
    destruct (IHp f Hp) as [E1 [F1 O1]].
    destruct (run f p) as [o1 f1] eqn:R1. destruct (run_prev f p) as [o1' f1'] eqn:R1'.
    injection E1 as <- <-. simpl in F1. subst f1.
    destruct (IHq f Hq) as [E2 [F2 O2]].
    destruct (run f q) as [o2 f2] eqn:R2. destruct (run_prev f q) as [o2' f2'] eqn:R2'.
    injection E2 as <- <-. simpl in *. subst f2.
    repeat split. apply Forall_app. split; assumption.
  - discriminate.
Qed.

(* restore-to-default and restore-to-previous agree on every program without a `with` inside a `with`, started at the default;
   the flag is back at the default afterwards *)
Lemma switch_teardown_irrelevant_without_nesting : forall p, nesting_free p = true ->
  run default_negpow p = run_prev default_negpow p /\ snd (run default_negpow p) = default_negpow.
Proof.
  induction p as [|p IHp q IHq|v body IH]; intro H; simpl in *.
  - split; reflexivity.
  - apply andb_true_iff in H. destruct H as [Hp Hq].
    destruct (IHp Hp) as [E1 F1].
    destruct (run default_negpow p) as [o1 f1] eqn:R1. destruct (run_prev default_negpow p) as [o1' f1'] eqn:R1'.
    injection E1 as <- <-. simpl in F1. subst f1.
    destruct (IHq Hq) as [E2 F2].
    destruct (run default_negpow q) as [o2 f2] eqn:R2. destruct (run_prev default_negpow q) as [o2' f2'] eqn:R2'.
    injection E2 as <- <-. simpl in *. subst f2. split; reflexivity.
  - destruct (run_no_with body v H) as [E _]. rewrite E. split; reflexivity.
Qed.

(* while a `with value` block whose body opens no further block runs, every read of the flag sees `value` *)
Lemma switch_in_force : forall v body, no_with body = true -> Forall (eq v) (fst (run default_negpow (With v body))).
Proof. intros v body H. simpl. apply (run_no_with body v H). Qed.

(* under nesting the two teardowns differ: an inner block (of any value) re-enables negative powers for the rest of an outer
   disabling block -- exactly what a grader's check_response would suffer if code it calls opened its own block *)
Lemma c14_ex_nested_switch :
  fst (run default_negpow (With false (Seq (With true Obs) Obs))) = [true; true] /\
  fst (run_prev default_negpow (With false (Seq (With true Obs) Obs))) = [true; false] /\
  fst (run default_negpow (With false (Seq (With false Obs) Obs))) = [false; true].
Proof. repeat split; reflexivity. Qed.

(* ------------------------------------------------------------------ triple vector products with anything in between *)
Section DotThenVector.
  Variable negpow : bool.
  Variable rk : rank_oracle.
  Variable inv : inv_oracle.
  Variable spow : spow_oracle.

  (* once the double-vector flag is set, a chain that still contains a vector factor never returns, whatever numbers,
     matrices, tensors and divisions stand in between *)
  Lemma flag_then_vector_refused : forall rest result,
    Exists (fun p : bool * val => fst p = true /\ is_vector (snd p) = true) rest ->
    exists e, product_loop negpow rk inv spow result true rest = Raise e.
  Proof.
    induction rest as [|[o v] rest IH]; intros result H; [inversion H|].
    simpl. destruct o.
    - destruct (is_vector v) eqn:Ev; simpl.
      + eexists; reflexivity.
      + inversion H as [? ? [_ Hv]|? ? H']; subst; [simpl in Hv; congruence|].
        destruct (py_binop negpow rk inv spow Mul result v) as [res'|e]; simpl; [apply IH; exact H' | eexists; reflexivity].
    - inversion H as [? ? [Ho _]|? ? H']; subst; [discriminate|].
      destruct (py_binop negpow rk inv spow Div result v) as [res'|e]; simpl; [apply IH; exact H' | eexists; reflexivity].
  Qed.

  (* a vector.vector step followed, anywhere later in the same chain, by another vector factor is refused:
     a*b*c, a*b*2*c, a*b*M*c, a*M*b*c (a*M is a vector) ... for operands of any shape in between *)
  Theorem dot_then_vector_refused : forall result flag b rest,
    is_vector result = true -> is_vector b = true ->
    Exists (fun p : bool * val => fst p = true /\ is_vector (snd p) = true) rest ->
    exists e, product_loop negpow rk inv spow result flag ((true, b) :: rest) = Raise e.
  Proof.
    intros result flag b rest Hr Hb H. simpl. rewrite Hb, Hr. simpl.
    destruct flag; simpl; [eexists; reflexivity|].
    destruct (py_binop negpow rk inv spow Mul result b) as [res'|e]; simpl; [| eexists; reflexivity].
    apply flag_then_vector_refused. exact H.
  Qed.
End DotThenVector.
