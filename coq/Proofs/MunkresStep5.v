(* Proofs/MunkresStep5.v -- step 5 (augmenting path, flip, erase primes, clear covers): P5 -> P3.
   The path is duplicate-free because its columns have pairwise distinct distances to the end of the path;
   this needs no ranking of the covered rows, only that step5_path returned. *)
From Coq Require Import ZArith List Bool Arith Lia Permutation.
From Verif.Model Require Import Munkres.
From Verif.Proofs Require Import MunkresInvLib MunkresInvDefs MunkresStep123.
Import ListNotations.
Local Open Scope nat_scope.

Definition pair_eq_dec : forall a b : nat * nat, {a = b} + {a <> b}.
Proof. decide equality; apply Nat.eq_dec. Defined.

Section Path.
  Variable n : nat.
  Variable mk : marks.
  Hypothesis SM : sq n mk.
  Notation g := (get2 0 mk).
  Hypothesis Hrow : forall i j j', g i j = 1 -> g i j' = 1 -> j = j'.
  Hypothesis Hcol : forall i i' j, g i j = 1 -> g i' j = 1 -> i = i'.
  Variables r0 c0 : nat.
  Hypothesis Hz0 : g r0 c0 = 2.
  Hypothesis Hnostar : forall j, g r0 j <> 1.

  (* paths as built by step5_path, most recent cell first *)
  Inductive vpath : list (nat * nat) -> Prop :=
  | vp0 : vpath [(r0, c0)]
  | vpS : forall r c c' rc rest, vpath ((rc, c) :: rest) ->
      find_in_col 1 mk c = Some r -> find_in_row 2 mk r = Some c' ->
      vpath ((r, c') :: (r, c) :: (rc, c) :: rest).

  Lemma step5_path_vpath : forall fuel path out, vpath path -> step5_path fuel mk path = Some out ->
    vpath out /\ find_in_col 1 mk (snd (hd (0, 0) out)) = None.
  Proof.
    induction fuel as [|f IH]; intros path out V H; simpl in H; [discriminate|].
    destruct path as [|[x c] rest]; [discriminate|].
    destruct (find_in_col 1 mk c) as [r|] eqn:FC.
    - destruct (find_in_row 2 mk r) as [c'|] eqn:FR; [|discriminate].
      apply (IH _ _ (vpS r c c' x rest V FC FR) H).
    - inversion H; subst. split; [exact V | exact FC].
  Qed.

  (* number of star/prime hops from a column to the end of the alternating sequence *)
  Inductive dist : nat -> nat -> Prop :=
  | d0 : forall c, find_in_col 1 mk c = None -> dist c 0
  | dS : forall c r c' d, find_in_col 1 mk c = Some r -> find_in_row 2 mk r = Some c' -> dist c' d -> dist c (S d).

  Lemma dist_fun : forall c d, dist c d -> forall d', dist c d' -> d = d'.
  Proof.
    induction 1 as [c H|c r c' d H1 H2 H3 IH]; intros d' H'; inversion H' as [c1 G|c1 r1 c1' d1 G1 G2 G3]; subst.
    - reflexivity.
    - congruence.
    - congruence.
    - rewrite H1 in G1. inversion G1; subst. rewrite H2 in G2. inversion G2; subst.
      f_equal. apply IH. exact G3.
  Qed.

  Record Q (d : nat) (p : list (nat * nat)) : Prop := mkQ {
    q_nodup : NoDup p;
    q_kind : forall x y, In (x, y) p ->
      (g x y = 2 /\ exists e, d <= e /\ dist y e) \/ (g x y = 1 /\ exists e, d < e /\ dist y e);
    q_prime_row : forall x y, In (x, y) p -> g x y = 2 ->
      (x, y) = (r0, c0) \/ (find_in_row 2 mk x = Some y /\ exists y', In (x, y') p /\ g x y' = 1);
    q_prime_col : forall x y, In (x, y) (tl p) -> g x y = 2 -> exists x', In (x', y) p /\ g x' y = 1;
    q_col_uniq : forall x x' y, In (x, y) p -> In (x', y) p -> g x y = 2 -> g x' y = 2 -> x = x' }.

  Lemma vpath_Q : forall p, vpath p -> forall d, dist (snd (hd (0, 0) p)) d -> Q d p.
  Proof.
    induction 1 as [|r c c' rc rest V IH FC FR]; intros d D; simpl in D.
    - constructor.
      + constructor; [intros [] | constructor].
      + intros x y [E|[]]. inversion E; subst. left. split; [exact Hz0|]. exists d. split; [lia | exact D].
      + intros x y [E|[]] _. left. symmetry. exact E.
      + intros x y [].
      + intros x x' y [E|[]] [E'|[]] _ _. inversion E; inversion E'; subst. reflexivity.
    - assert (DS : dist c (S d)) by (apply (dS c r c' d); assumption).
      specialize (IH (S d) DS). destruct IH as [I1 I2 I3 I4 I5].
      pose proof (find_in_col_some n 1 mk r c SM ltac:(discriminate) FC) as [Hr [Hc [Grc _]]].
      pose proof (find_in_row_some n 2 mk r c' SM ltac:(discriminate) FR) as [_ [Hc' [Grc' _]]].
      set (p0 := (rc, c) :: rest) in *.
      assert (N1 : ~ In (r, c') p0).
      { intro HI. destruct (I2 r c' HI) as [[_ [e [He De]]]|[G1 _]].
        - pose proof (dist_fun c' d D e De). lia.
        - congruence. }
      assert (N2 : ~ In (r, c) p0).
      { intro HI. destruct (I2 r c HI) as [[G1 _]|[_ [e [He De]]]].
        - congruence.
        - pose proof (dist_fun c (S d) DS e De). lia. }
      assert (N3 : (r, c') <> (r, c)) by (intro E; inversion E; subst; congruence).
      constructor.
      + constructor; [|constructor; assumption].
        intros [E|HI]; [apply N3; symmetry; exact E | exact (N1 HI)].
      + intros x y [E|[E|HI]].
        * inversion E; subst. left. split; [exact Grc'|]. exists d. split; [lia | exact D].
        * inversion E; subst. right. split; [exact Grc|]. exists (S d). split; [lia | exact DS].
        * destruct (I2 x y HI) as [[G1 [e [He De]]]|[G1 [e [He De]]]].
          -- left. split; [exact G1|]. exists e. split; [lia | exact De].
          -- right. split; [exact G1|]. exists e. split; [lia | exact De].
      + intros x y [E|[E|HI]] G2.
        * inversion E; subst. right. split; [exact FR|]. exists c. split; [right; left; reflexivity | exact Grc].
        * inversion E; subst. congruence.
        * destruct (I3 x y HI G2) as [E|[F [y' [HI' G1]]]]; [left; exact E|].
          right. split; [exact F|]. exists y'. split; [right; right; exact HI' | exact G1].
      + simpl. intros x y [E|HI] G2.
        * inversion E; subst. congruence.
        * destruct HI as [E|HI].
          -- inversion E; subst. exists r. split; [right; left; reflexivity | exact Grc].
          -- destruct (I4 x y HI G2) as [x' [HI' G1]]. exists x'. split; [right; right; exact HI' | exact G1].
      + intros x x' y H1 H2 G2 G2'.
        assert (K : forall z, In (z, y) ((r, c') :: (r, c) :: p0) -> g z y = 2 -> (z, y) = (r, c') \/ In (z, y) p0).
        { intros z [E|[E|HI]] Gz; [left; symmetry; exact E | inversion E; subst; congruence | right; exact HI]. }
        destruct (K x H1 G2) as [E1|E1]; destruct (K x' H2 G2') as [E2|E2].
        * inversion E1; inversion E2; subst. reflexivity.
        * inversion E1; subst. exfalso. destruct (I2 x' c' E2) as [[_ [e [He De]]]|[G1 _]]; [|congruence].
          pose proof (dist_fun c' d D e De). lia.
        * inversion E2; subst. exfalso. destruct (I2 x c' E1) as [[_ [e [He De]]]|[G1 _]]; [|congruence].
          pose proof (dist_fun c' d D e De). lia.
        * exact (I5 x x' y E1 E2 G2 G2').
  Qed.

  Lemma Q_row_uniq : forall d p x y y', Q d p -> In (x, y) p -> In (x, y') p -> g x y = 2 -> g x y' = 2 -> y = y'.
  Proof.
    intros d p x y y' q H1 H2 G1 G2.
    destruct (q_prime_row d p q x y H1 G1) as [E1|[F1 [z1 [_ S1]]]];
    destruct (q_prime_row d p q x y' H2 G2) as [E2|[F2 [z2 [_ S2]]]].
    - congruence.
    - inversion E1; subst. exfalso. exact (Hnostar z2 S2).
    - inversion E2; subst. exfalso. exact (Hnostar z1 S1).
    - congruence.
  Qed.
End Path.

(* ---------- flipping ---------- *)
Definition flipv (v : nat) : nat := if Nat.eqb v 1 then 0 else 1.

Lemma flip_get : forall n m i j x y, sq n m -> i < n -> j < n ->
  get2 0 (flip m (i, j)) x y = if (Nat.eqb x i && Nat.eqb y j)%bool then flipv (get2 0 m i j) else get2 0 m x y.
Proof.
  intros n m i j x y S Hi Hj. unfold flip, flipv.
  destruct (Nat.eqb (get2 0 m i j) 1); apply (get2_upd2 n); assumption.
Qed.

Lemma flip_sq : forall n m p, sq n m -> sq n (flip m p).
Proof. intros n m [i j] S. unfold flip. destruct (Nat.eqb (get2 0 m i j) 1); apply sq_upd2; exact S. Qed.

Lemma fold_flip_sq : forall n l m, sq n m -> sq n (fold_left flip l m).
Proof. induction l as [|p l IH]; intros m S; simpl; [exact S | apply IH; apply flip_sq; exact S]. Qed.

Lemma fold_flip_notin : forall n l m x y, sq n m -> (forall i j, In (i, j) l -> i < n /\ j < n) ->
  ~ In (x, y) l -> get2 0 (fold_left flip l m) x y = get2 0 m x y.
Proof.
  induction l as [|[i j] l IH]; intros m x y S R NI; [reflexivity|].
  change (fold_left flip ((i, j) :: l) m) with (fold_left flip l (flip m (i, j))).
  rewrite IH; [| apply flip_sq; exact S | intros; apply R; right; assumption | intro; apply NI; right; assumption].
  destruct (R i j (or_introl eq_refl)) as [Hi Hj]. rewrite (flip_get n) by assumption.
  destruct (Nat.eqb_spec x i) as [->|]; [|reflexivity]. destruct (Nat.eqb_spec y j) as [->|]; [|reflexivity].
  exfalso. apply NI. left. reflexivity.
Qed.

Lemma fold_flip_in : forall n l m x y, sq n m -> (forall i j, In (i, j) l -> i < n /\ j < n) ->
  NoDup l -> In (x, y) l -> get2 0 (fold_left flip l m) x y = flipv (get2 0 m x y).
Proof.
  induction l as [|[i j] l IH]; intros m x y S R ND HI; [destruct HI|].
  change (fold_left flip ((i, j) :: l) m) with (fold_left flip l (flip m (i, j))).
  inversion ND as [|? ? NI ND']; subst.
  destruct (R i j (or_introl eq_refl)) as [Hi Hj].
  destruct HI as [E|HI].
  - inversion E; subst. rewrite (fold_flip_notin n); [| apply flip_sq; exact S | intros; apply R; right; assumption | exact NI].
    rewrite (flip_get n) by assumption. rewrite !Nat.eqb_refl. reflexivity.
  - rewrite IH; [| apply flip_sq; exact S | intros; apply R; right; assumption | exact ND' | exact HI].
    rewrite (flip_get n) by assumption.
    destruct (Nat.eqb_spec x i) as [->|]; [|reflexivity]. destruct (Nat.eqb_spec y j) as [->|]; [|reflexivity].
    contradiction.
Qed.

(* ---------- step 5 ---------- *)
Lemma erase_get : forall mk i j, get2 0 (erase_primes mk) i j = (if Nat.eqb (get2 0 mk i j) 2 then 0 else get2 0 mk i j).
Proof. intros. unfold erase_primes. apply (get2_mapmap (fun v => if Nat.eqb v 2 then 0 else v)). reflexivity. Qed.

Lemma step5_P : forall n M0 s s', P5 n M0 s -> zstep5 n s = Some s' -> P3 n M0 s'.
Proof.
  intros n M0 s s' [B [PZ [Hr0 [Hc0 [Hz0 Hns]]]]] H.
  pose proof (b_wf _ _ _ B) as W. pose proof W as [SC [SM [Lr Lc]]].
  unfold zstep5, step5 in H.
  destruct (step5_path (S (S n)) (sM s) [sZ0 s]) as [path|] eqn:SP; [|discriminate].
  injection H as Hs'. subst s'.
  destruct (sZ0 s) as [r0 c0] eqn:Z0. simpl in Hr0, Hc0, Hz0, Hns.
  set (mk := sM s) in *.
  assert (V0 : vpath mk r0 c0 [(r0, c0)]) by constructor.
  destruct (step5_path_vpath mk r0 c0 _ _ _ V0 SP) as [V T].
  assert (D : dist mk (snd (hd (0, 0) path)) 0) by (constructor; exact T).
  pose proof (vpath_Q n mk SM r0 c0 Hz0 Hns path V 0 D) as q.
  assert (RG : forall i j, In (i, j) path -> i < n /\ j < n).
  { intros i j HI. apply (get2_range n mk i j 0 SM).
    destruct (q_kind _ _ _ _ _ q i j HI) as [[G _]|[G _]]; rewrite G; discriminate. }
  assert (RG' : forall i j, In (i, j) (rev path) -> i < n /\ j < n) by (intros i j HI; apply RG; apply in_rev; exact HI).
  set (mk' := fold_left flip (rev path) mk) in *.
  set (s' := mkState (sC s) (erase_primes mk') (clear (sRC s)) (clear (sCC s)) (r0, c0)).
  assert (NS : forall i j, gM s' i j = 1 ->
            (In (i, j) path /\ get2 0 mk i j = 2) \/ (~ In (i, j) path /\ get2 0 mk i j = 1)).
  { intros i j G. unfold gM, s' in G; simpl in G. rewrite erase_get in G.
    destruct (Nat.eqb_spec (get2 0 mk' i j) 2) as [|_]; [discriminate|].
    destruct (in_dec pair_eq_dec (i, j) path) as [HI|HI].
    - left. split; [exact HI|]. unfold mk' in G.
      rewrite (fold_flip_in n) in G; [| exact SM | exact RG' | apply NoDup_rev; exact (q_nodup _ _ _ _ _ q) | apply -> in_rev; exact HI].
      destruct (q_kind _ _ _ _ _ q i j HI) as [[G2 _]|[G1 _]]; [exact G2|]. rewrite G1 in G. discriminate.
    - right. split; [exact HI|]. unfold mk' in G.
      rewrite (fold_flip_notin n) in G; [exact G | exact SM | exact RG' | intro X; apply HI; apply in_rev; exact X]. }
  assert (Hrow : forall i j j', get2 0 mk i j = 1 -> get2 0 mk i j' = 1 -> j = j') by (exact (b_row _ _ _ B)).
  assert (Hcol : forall i i' j, get2 0 mk i j = 1 -> get2 0 mk i' j = 1 -> i = i') by (exact (b_col _ _ _ B)).
  assert (W' : wf n s').
  { unfold s'. repeat split; simpl; try apply SC.
    - unfold erase_primes. rewrite map_length. destruct (fold_flip_sq n (rev path) mk SM) as [L _]. exact L.
    - unfold erase_primes. apply (sq_mapmap n). apply fold_flip_sq. exact SM.
    - rewrite clear_length; exact Lr.
    - rewrite clear_length; exact Lc. }
  assert (GCs : forall i j, gC s' i j = gC s i j) by (intros; reflexivity).
  split; [|split].
  - constructor.
    + exact W'.
    + destruct (b_shift _ _ _ B) as [u [v Huv]]. exists u, v. intros i j Hi Hj. rewrite GCs. apply Huv; assumption.
    + intros i j Hi Hj. rewrite GCs. apply (b_nonneg _ _ _ B); assumption.
    + intros i j G. rewrite GCs. destruct (NS i j G) as [[_ G2]|[_ G1]].
      * apply PZ. exact G2.
      * apply (b_star0 _ _ _ B). exact G1.
    + intros i j j' G G'.
      destruct (NS i j G) as [[I1 A1]|[I1 A1]]; destruct (NS i j' G') as [[I2 A2]|[I2 A2]].
      * exact (Q_row_uniq mk r0 c0 Hns 0 path i j j' q I1 I2 A1 A2).
      * exfalso. destruct (q_prime_row _ _ _ _ _ q i j I1 A1) as [E|[_ [y' [I3 A3]]]].
        -- inversion E; subst. exact (Hns j' A2).
        -- assert (y' = j') by (apply (Hrow i); assumption). subst y'. exact (I2 I3).
      * exfalso. destruct (q_prime_row _ _ _ _ _ q i j' I2 A2) as [E|[_ [y' [I3 A3]]]].
        -- inversion E; subst. exact (Hns j A1).
        -- assert (y' = j) by (apply (Hrow i); assumption). subst y'. exact (I1 I3).
      * exact (Hrow i j j' A1 A2).
    + intros i i' j G G'.
      assert (K : forall a b, In (a, j) path -> get2 0 mk a j = 2 -> ~ In (b, j) path -> get2 0 mk b j = 1 -> False).
      { intros a b I1 A1 I2 A2.
        destruct path as [|hd tlp] eqn:EP; [destruct I1|].
        destruct I1 as [E|I1].
        - subst hd. simpl in T.
          assert (Rb : b < n /\ j < n) by (apply (get2_range n mk b j 0 SM); rewrite A2; discriminate).
          exact (find_in_col_none n 1 mk b j SM (proj1 Rb) T A2).
        - destruct (q_prime_col _ _ _ _ _ q a j I1 A1) as [x' [I3 A3]].
          assert (x' = b) by (apply (Hcol x' b j); assumption). subst x'. exact (I2 I3). }
      destruct (NS i j G) as [[I1 A1]|[I1 A1]]; destruct (NS i' j G') as [[I2 A2]|[I2 A2]].
      * exact (q_col_uniq _ _ _ _ _ q i i' j I1 I2 A1 A2).
      * exfalso. exact (K i i' I1 A1 I2 A2).
      * exfalso. exact (K i' i I2 A2 I1 A1).
      * exact (Hcol i i' j A1 A2).
  - intros i j G. unfold gM, s' in G; simpl in G. rewrite erase_get in G.
    destruct (Nat.eqb_spec (get2 0 mk' i j) 2) as [|N]; [discriminate | exact (N G)].
  - split; intro k; unfold rcov, ccov, s'; simpl; apply nth_clear.
Qed.
