(* Proofs/SchemaGen.v -- facts about the schemas REGENERATED from the source (Gen/Schemas.v): every class falls in
   the idempotent fragment, exposes its documented defaults, which classes are guarded against non-validation
   errors, domains of the validatorfuncs combinators, and the refuting witnesses. *)
From Coq Require Import ZArith QArith List Bool String Lia.
From Verif.Lib Require Import QRound.
From Verif.Model Require Import Result Schema SchemaTables.
From Verif.Gen Require Schemas.
From Verif.Proofs Require Import Schema SchemaIdem SchemaIdem2 SchemaSafe.
From Verif.Bridge Require Import Schemas.
Import ListNotations.
Open Scope list_scope.

Definition class_row (name : str) : option (str * list Z * (pyval -> schema)) :=
  find (fun row => str_eqb (fst (fst row)) name) Schemas.gen_classes.
Definition class_tags (name : str) : list Z := match class_row name with Some row => snd (fst row) | None => [] end.
Definition class_schema (name : str) : option (pyval -> schema) := option_map snd (class_row name).
Definition gen_obj (name : str) (cfg : pyval) : pyval := PObj (class_tags name) cfg.

(* ------------------------------------------------------------------------------------------------ *)
(* documented defaults                                                                               *)
(* ------------------------------------------------------------------------------------------------ *)
Definition doc_row_ok (row : doc_row) : bool :=
  match class_schema (fst (fst row)) with
  | Some sch =>
      match validate_config doc_orc (sch PNone) (PDict (snd (fst row))) with
      | Ret out => exposes (snd row) out
      | Raise _ => false
      end
  | None => false
  end.

(* constructing with only the required options is accepted and exposes every documented option with its
   documented default -- checked on the schemas regenerated from the source *)
Theorem defaults_match_documentation : forallb doc_row_ok (doc_table gen_obj) = true.
Proof. vm_compute. reflexivity. Qed.

(* every regenerated class has a row in the documentation table (the two positional classes excepted) *)
Definition positional_classes : list str := [zs "DiscreteSet"; zs "SpecificFunctions"].
Theorem every_class_documented :
  forallb (fun row => existsb (fun d => str_eqb (fst (fst d)) (fst (fst row))) (doc_table gen_obj)
                      || existsb (str_eqb (fst (fst row))) positional_classes) Schemas.gen_classes = true.
Proof. vm_compute. reflexivity. Qed.

(* ------------------------------------------------------------------------------------------------ *)
(* idempotence of every class schema                                                                 *)
(* ------------------------------------------------------------------------------------------------ *)
Section GenIdem.
  Variable orc : Z -> pyval -> outcome pyval.
  (* PercentageString returns its normal form: re-applying it returns the same string *)
  Hypothesis Ho : forall v v', orc 1%Z v = Ret v' -> orc 1%Z v' = Ret v'.

  Lemma idem_eval : forall s s', s = s' -> Idem orc s' -> Idem orc s.
  Proof. intros; subst; assumption. Qed.

  Ltac ok_vals := let y := fresh in let Hy := fresh in
    intros y Hy; repeat (destruct Hy as [<-|Hy]; [vm_compute; reflexivity|]); destruct Hy.

  Ltac solve_idem :=
    lazymatch goal with
    | |- Idem _ _ =>
      first
      [ apply idem_filter; vm_compute; reflexivity
      | apply idem_dict; [repeat (apply Forall_cons; [cbn [de_schema snd]; solve_idem|]); apply Forall_nil
                         | first [exact I | cbn [opt_idem]; solve_idem]]
      | apply idem_wrap_tuple1; solve_idem
      | apply idem_wrap_list1; solve_idem
      | apply idem_wrap_filter; vm_compute; reflexivity
      | eapply idem_single_answer; [solve_idem | reflexivity | ok_vals]
      | apply idem_formula_expect; solve_idem
      | exact (idem_number_range orc TNumber)
      | exact (idem_number_range orc TInt)
      | exact (idem_number_range orc TReal)
      | apply idem_oracle_first; [exact Ho | vm_compute; reflexivity]
      | apply idem_then_filters; [solve_idem | vm_compute; reflexivity]
      | apply idem_shape_any; [vm_compute; reflexivity | intro; reflexivity]
      | apply idem_keys_dict; solve_idem
      | apply idem_callable_coerce_class; vm_compute; reflexivity
      | apply idem_class_or_coerced; vm_compute; reflexivity
      ]
    end.

  (* re-validating a validated configuration returns it unchanged, for every class and every configuration *)
  Theorem all_classes_idem : forall dc, Forall (fun row => Idem orc (snd row dc)) Schemas.gen_classes.
  Proof.
    intro dc. unfold Schemas.gen_classes.
    repeat (apply Forall_cons; [cbn [snd]; eapply idem_eval; [vm_compute; reflexivity|]; solve_idem|]).
    apply Forall_nil.
  Qed.

  (* the regenerated combinators, for every parameter (through the bridge) *)
  Lemma gen_number_range_idem : forall t, Idem orc (Schemas.gen_NumberRange t).
  Proof. intro t. rewrite number_range_bridge. apply idem_number_range. Qed.

  Lemma gen_shape_specification_idem : forall lo hi, Idem orc (Schemas.gen_is_shape_specification lo hi).
  Proof.
    intros lo hi. rewrite shape_specification_bridge. apply idem_then_filters; [|reflexivity].
    apply idem_shape_any; [reflexivity | intro; reflexivity].
  Qed.

  Lemma gen_tuple_of_type_idem : forall ts, Idem orc (Schemas.gen_TupleOfType ts None).
  Proof.
    intro ts. rewrite tuple_of_type_bridge. apply idem_wrap_filter.
    cbn. rewrite andb_true_r. induction ts as [|t r IH]; [reflexivity | exact IH].
  Qed.

  Corollary class_config_idem : forall name tags sch dc cfg cfg',
    In (name, tags, sch) Schemas.gen_classes ->
    validate_config orc (sch dc) cfg = Ret cfg' -> validate_config orc (sch dc) cfg' = Ret cfg'.
  Proof.
    intros name tags sch dc cfg cfg' Hin H.
    pose proof (all_classes_idem dc) as HF. rewrite Forall_forall in HF. specialize (HF _ Hin). simpl in HF.
    unfold validate_config in *. destruct (validate orc (sch dc) cfg) as [y|e] eqn:E.
    - inversion H; subst. rewrite (HF _ _ E). reflexivity.
    - destruct e; discriminate.
  Qed.
End GenIdem.

(* ------------------------------------------------------------------------------------------------ *)
(* every class schema is guarded: a refused configuration is a validation error                      *)
(* ------------------------------------------------------------------------------------------------ *)
Theorem guarded_classes : forall dc, forallb (fun row => guarded (snd row dc)) Schemas.gen_classes = true.
Proof. intro dc. vm_compute. reflexivity. Qed.

(* for EVERY class of the library, EVERY value handed in as configuration and every default comparer: when
   validate_config refuses, it raises voluptuous.Error -- never a TypeError or any other exception *)
Theorem class_refusal_is_validation_error : forall orc name tags sch dc cfg e,
  (forall id v e, orc id v = Raise e -> e = EInvalid) ->
  In (name, tags, sch) Schemas.gen_classes ->
  validate_config orc (sch dc) cfg = Raise e -> e = EVError.
Proof.
  intros orc name tags sch dc cfg e Horc Hin H.
  pose proof (guarded_classes dc) as HG. rewrite forallb_forall in HG. specialize (HG _ Hin). cbn [fst snd] in HG.
  eapply guarded_refusal_is_validation_error; eassumption.
Qed.

(* ------------------------------------------------------------------------------------------------ *)
(* regression: the witnesses of the repaired defects (9e7ee91, 49c25d3) are now validation errors    *)
(* ------------------------------------------------------------------------------------------------ *)
Definition escapes (sch : pyval -> schema) (cfg : pyval) : bool :=
  match validate_config doc_orc (sch PNone) cfg with
  | Raise e => negb (is_config_or_validation_error e)
  | Ret _ => false
  end.

Definition a_complex_number : pyval := PObj [tag_Number] (PInt 1).

(* LinearComparer(equals='a'), NumericalGrader(variables=5), FormulaGrader(tolerance=1j), RealInterval(start=1j) *)
Lemma repaired_witnesses_are_validation_errors :
  validate_config doc_orc (Schemas.gen_schema_LinearComparer PNone) (PDict [(PStr (zs "equals"), PStr (zs "a"))]) = Raise EVError
  /\ validate_config doc_orc (Schemas.gen_schema_NumericalGrader PNone) (PDict [(PStr (zs "variables"), PInt 5)]) = Raise EVError
  /\ validate_config doc_orc (Schemas.gen_schema_FormulaGrader PNone) (PDict [(PStr (zs "tolerance"), a_complex_number)]) = Raise EVError
  /\ validate_config doc_orc (Schemas.gen_schema_RealInterval PNone) (PDict [(PStr (zs "start"), a_complex_number)]) = Raise EVError
  /\ validate_config doc_orc (Schemas.gen_schema_RealInterval PNone) (PList [a_complex_number; PInt 2]) = Raise EVError.
Proof. vm_compute. repeat split. Qed.

(* ------------------------------------------------------------------------------------------------ *)
(* domains of the regenerated combinators                                                            *)
(* ------------------------------------------------------------------------------------------------ *)
Lemma Qle_bool_inject : forall a b : Z, Qle_bool (inject_Z a) (inject_Z b) = (a <=? b)%Z.
Proof.
  intros a b. destruct (Qle_bool (inject_Z a) (inject_Z b)) eqn:E.
  - apply Qle_bool_iff in E. rewrite <- Zle_Qle in E. symmetry. apply Z.leb_le. exact E.
  - symmetry. apply Z.leb_gt. destruct (Z.lt_ge_cases b a) as [H|H]; [exact H|].
    rewrite Zle_Qle in H. apply Qle_bool_iff in H. congruence.
Qed.

Section Domains.
  Variable orc : Z -> pyval -> outcome pyval.
  Notation accepts := (accepts orc).

  (* Positive(int): exactly the integers >= 1 (True is the integer 1) *)
  Theorem positive_int_domain : forall v,
    accepts (Schemas.gen_Positive TInt) v <-> (exists z, v = PInt z /\ (1 <= z)%Z) \/ v = PBool true.
  Proof.
    intro v. unfold accepts. split.
    - intros [v' H]. destruct v; try discriminate H.
      + destruct b; [right; reflexivity | vm_compute in H; discriminate H].
      + left. exists z. split; [reflexivity|]. cbn in H. unfold bnd_lo_ok, bnd_hi_ok, num_leb in H.
        change (1 # 1)%Q with (inject_Z 1) in H. rewrite Qle_bool_inject in H.
        destruct (1 <=? z)%Z eqn:E; [apply Z.leb_le; exact E | discriminate H].
    - intros [[z [-> Hz]] | ->]; [|eexists; vm_compute; reflexivity].
      exists (PInt z). cbn. unfold bnd_lo_ok, bnd_hi_ok, num_leb. change (1 # 1)%Q with (inject_Z 1).
      rewrite Qle_bool_inject. apply Z.leb_le in Hz. rewrite Hz. reflexivity.
  Qed.

  (* NonNegative(int): exactly the integers >= 0 (booleans are the integers 0 and 1) *)
  Theorem nonnegative_int_domain : forall v,
    accepts (Schemas.gen_NonNegative TInt) v <-> (exists z, v = PInt z /\ (0 <= z)%Z) \/ (exists b, v = PBool b).
  Proof.
    intro v. unfold accepts. split.
    - intros [v' H]. destruct v; try discriminate H.
      + right. exists b. reflexivity.
      + left. exists z. split; [reflexivity|]. cbn in H. unfold bnd_lo_ok, bnd_hi_ok, num_leb in H.
        change (0 # 1)%Q with (inject_Z 0) in H. rewrite Qle_bool_inject in H.
        destruct (0 <=? z)%Z eqn:E; [apply Z.leb_le; exact E | discriminate H].
    - intros [[z [-> Hz]]|[b ->]]; [|destruct b; eexists; vm_compute; reflexivity].
      exists (PInt z). cbn. unfold bnd_lo_ok, bnd_hi_ok, num_leb. change (0 # 1)%Q with (inject_Z 0).
      rewrite Qle_bool_inject. apply Z.leb_le in Hz. rewrite Hz. reflexivity.
  Qed.

  (* the options these combinators guard in the regenerated class schemas *)
  Definition option_schema (sch : schema) (k : string) : option schema :=
    match sch with SDict es extra => lookup_schema extra es (PStr (zs k)) | _ => None end.

  Lemma formula_samples_is_positive_int : forall dc,
    option_schema (Schemas.gen_schema_FormulaGrader dc) "samples" = Some (Schemas.gen_Positive TInt).
  Proof. intro dc. vm_compute. reflexivity. Qed.

  Lemma string_min_length_is_nonnegative_int : forall dc,
    option_schema (Schemas.gen_schema_StringGrader dc) "min_length" = Some (Schemas.gen_NonNegative TInt).
  Proof. intro dc. vm_compute. reflexivity. Qed.

  Lemma linear_credit_after_is_positive_int : forall dc,
    option_schema (Schemas.gen_schema_LinearCredit dc) "decrease_credit_after" = Some (Schemas.gen_Positive TInt).
  Proof. intro dc. vm_compute. reflexivity. Qed.
End Domains.

(* ------------------------------------------------------------------------------------------------ *)
(* a configuration that cannot be rebuilt: a default constant deleted with None and reused as a variable *)
(* ------------------------------------------------------------------------------------------------ *)
From Verif.Model Require Import SchemaInit.

Definition default_constant_names : list pyval := [PStr (zs "i"); PStr (zs "j"); PStr (zs "e"); PStr (zs "pi")].

Definition cfg_deleted_constant : pyval :=
  PDict [(PStr (zs "variables"), PList [PStr (zs "pi")]);
         (PStr (zs "user_constants"), PDict [(PStr (zs "pi"), PNone)]);
         (PStr (zs "numbered_vars"), PList []); (PStr (zs "user_functions"), PDict []);
         (PStr (zs "blacklist"), PList []); (PStr (zs "whitelist"), PList []);
         (PStr (zs "suppress_warnings"), PBool false); (PStr (zs "sample_from"), PDict [])].

Definition gen_math_rules (cfg : pyval) : outcome pyval :=
  math_rules no_orc [] default_constant_names (Schemas.gen_sample_from_default PNone) (Schemas.gen_sample_from_value PNone) cfg.

(* accepted, but the configuration it exposes is refused when handed back: the None entry has been dropped *)
Lemma deleted_constant_not_rebuildable :
  match gen_math_rules cfg_deleted_constant with
  | Ret out => gen_math_rules out = Raise EConfig
  | Raise _ => False
  end.
Proof. vm_compute. reflexivity. Qed.

(* non-vacuity: the default StringGrader configuration, and the normal form of an answers tuple *)
Definition string_grader_answers (a : pyval) : option pyval :=
  match validate_config doc_orc (Schemas.gen_schema_StringGrader PNone) (PDict [(PStr (zs "answers"), a)]) with
  | Ret (PDict items) => dict_get (zs "answers") items
  | _ => None
  end.

Lemma answers_normal_form_example :
  string_grader_answers (PTuple [PStr (zs "cat");
                                 PDict [(PStr (zs "expect"), PTuple [PStr (zs "a"); PStr (zs "b")]);
                                        (PStr (zs "grade_decimal"), PFloat (1 # 2))]])
  = Some (PTuple [PDict [(PStr (zs "expect"), PTuple [PStr (zs "cat")]); (PStr (zs "ok"), PBool true);
                         (PStr (zs "grade_decimal"), PInt 1); (PStr (zs "msg"), PStr [])];
                  PDict [(PStr (zs "expect"), PTuple [PStr (zs "a"); PStr (zs "b")]);
                         (PStr (zs "grade_decimal"), PFloat (1 # 2));
                         (PStr (zs "msg"), PStr []); (PStr (zs "ok"), PStr (zs "partial"))]]).
Proof. vm_compute. reflexivity. Qed.

Lemma unknown_option_example :
  validate_config doc_orc (Schemas.gen_schema_StringGrader PNone) (PDict [(PStr (zs "not_an_option"), PInt 1)]) = Raise EVError.
Proof. vm_compute. reflexivity. Qed.
