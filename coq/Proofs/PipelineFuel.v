(* Proofs/PipelineFuel.v -- C01: the recursion budget is never the reason for an outcome on trees of smaller depth. *)
From Coq Require Import ZArith QArith Lia List Bool Arith.
From Verif.Lib Require Import QRound PyNum.
From Verif.Model Require Import Result Credit Pipeline.
From Verif.Proofs Require Import Pipeline.
Import ListNotations.
Open Scope Q_scope.

Fixpoint gdepth (g : grader) : nat :=
  match g with
  | GItem _ _ | GSum _ => 1
  | GSList _ _ s | GInterval _ _ s => S (gdepth s)
  | GList _ subs => S (fold_right Nat.max 1%nat (map gdepth subs))
  end.

Lemma bind_fuel : forall {A B} (o : out A) (f : A -> out B),
  bind o f = Fuel -> o = Fuel \/ exists a, o = Ret a /\ f a = Fuel.
Proof. intros A B o f H. destruct o; simpl in H; try discriminate; [right; eauto | left; reflexivity]. Qed.

Lemma collect_fuel : forall {A} (l : list (out A)), collect l = Fuel -> exists o, In o l /\ o = Fuel.
Proof.
  induction l as [|o l IH]; intro H; simpl in H; [discriminate|].
  apply bind_fuel in H. destruct H as [-> | [a [-> H]]]; [exists Fuel; split; [left|]; reflexivity|].
  apply bind_fuel in H. destruct H as [H | [t [_ H]]]; [|discriminate].
  destruct (IH H) as [o' [Hin Ho']]. exists o'. split; [right; exact Hin | exact Ho'].
Qed.

Lemma pick_pairs_not_fuel : forall {A} (m : list (list A)) pairs, pick_pairs m pairs <> Fuel.
Proof.
  intros A m pairs H. unfold pick_pairs in H. apply collect_fuel in H. destruct H as [o [Hin Ho]].
  apply in_map_iff in Hin. destruct Hin as [[i j] [E _]]. simpl in E. destruct (nth2 m i j); congruence.
Qed.

Lemma item_select_not_fuel : forall w rs, item_select w rs <> Fuel.
Proof.
  intros w rs H. unfold item_select in H. destruct rs; [discriminate|].
  destruct (filter _ _); discriminate.
Qed.

Lemma process_not_fuel : forall a b gl n m c, process_grade_list a b gl n m c <> Fuel.
Proof. intros a b gl n m c H. unfold process_grade_list in H. destruct n; discriminate. Qed.

Lemma leaf_response_not_fuel : forall rc k c m o l, leaf_response rc k c m o l <> Fuel.
Proof.
  intros rc k c m o l H. destruct l as [r|s|v|e em| |]; simpl in H; try discriminate;
    destruct k as [| |f|f mc]; try discriminate.
  unfold matrix_err in H. destruct (m_suppress mc); [discriminate|].
  destruct e; [destruct (m_shape_errors mc) | destruct (m_is_raised mc) |]; discriminate.
Qed.

Lemma grade_bracket_not_fuel : forall a c r, grade_bracket a c r <> Fuel.
Proof.
  intros a c r H. unfold grade_bracket in H. destruct (Qeq_bool _ 0); [discriminate|].
  destruct a; [|discriminate]. destruct (best_bracket c alts None); discriminate.
Qed.

Lemma zero_unless_perfect_not_fuel : forall l, zero_unless_perfect l <> Fuel.
Proof.
  intros l H. unfold zero_unless_perfect in H. destruct (negb _); [discriminate|].
  match type of H with context [if ?b then _ else _] => destruct b end; discriminate.
Qed.

Lemma choose_best_not_fuel : forall rs b, choose_best rs b <> Fuel.
Proof.
  intros rs b H. unfold choose_best in H.
  assert (G : (if forallb all_slots_good rs then match nth_error rs b with Some r => Ret r | None => Missing end else Raise)
              <> Fuel).
  { destruct (forallb all_slots_good rs); [destruct (nth_error rs b)|]; discriminate. }
  destruct rs as [|r [|r' rest]]; [apply G; exact H | discriminate | apply G; exact H].
Qed.

Section Fuel.
  Variable OR : oracles.

  (* a checking function that does not run out of budget on a given subgrader *)
  Definition no_fuel (chk : grader -> ans -> input -> path -> out res) (g : grader) : Prop :=
    forall a x p, chk g a x p <> Fuel.

  Lemma sl_checker_nf : forall chk sub p idx oa os, no_fuel chk sub -> sl_checker chk sub p idx oa os <> Fuel.
  Proof.
    intros chk sub p idx oa os Hn H. unfold sl_checker in H. destruct oa; [destruct os|]; try discriminate.
    unfold as_short in H. apply bind_fuel in H. destruct H as [H | [r [_ H]]]; [exact (Hn _ _ _ H) | destruct r; discriminate].
  Qed.

  Lemma sl_graded_nf : forall chk ordered sub p n pa ps, no_fuel chk sub -> sl_graded OR chk ordered sub p n pa ps <> Fuel.
  Proof.
    intros chk ordered sub p n pa ps Hn H. unfold sl_graded in H. destruct ordered.
    - apply collect_fuel in H. destruct H as [o [Hin Ho]]. apply in_mapi in Hin. destruct Hin as [k [pr [_ ->]]].
      exact (sl_checker_nf _ _ _ _ _ _ Hn Ho).
    - apply bind_fuel in H. destruct H as [H | [flat [_ H]]]; [|exact (pick_pairs_not_fuel _ _ H)].
      apply collect_fuel in H. destruct H as [o [Hin Ho]]. apply in_concat in Hin. destruct Hin as [row [Hrow Hin]].
      apply in_mapi in Hrow. destruct Hrow as [i [os [_ ->]]]. apply in_mapi in Hin. destruct Hin as [j [oa [_ ->]]].
      exact (sl_checker_nf _ _ _ _ _ _ Hn Ho).
  Qed.

  Lemma slist_response_nf : forall chk c sub a e x p, no_fuel chk sub -> slist_response OR chk c sub a e x p <> Fuel.
  Proof.
    intros chk c sub a e x p Hn H. unfold slist_response in H. destruct e; [discriminate|]. destruct x; [|discriminate].
    destruct (split _ _); [|discriminate]. destruct (_ && _); [discriminate|]. destruct (_ && _); [discriminate|].
    apply bind_fuel in H. destruct H as [H | [gl [_ H]]]; [exact (sl_graded_nf _ _ _ _ _ _ _ Hn H)|].
    apply bind_fuel in H. destruct H as [H | [r [_ H]]]; [exact (process_not_fuel _ _ _ _ _ _ H) | discriminate].
  Qed.

  Lemma interval_response_nf : forall chk c sub a e x p, no_fuel chk sub -> interval_response OR chk c sub a e x p <> Fuel.
  Proof.
    intros chk c sub a e x p Hn H. unfold interval_response in H. destruct e as [|items]; [discriminate|].
    destruct items as [|a1 [|a2 [|a3 [|a4 [|]]]]]; try discriminate. destruct x; [|discriminate].
    destruct (_ <? _)%nat; [discriminate|]. destruct (negb _); [discriminate|]. destruct (negb _); [discriminate|].
    apply bind_fuel in H. destruct H as [H | [[r gl] [_ H]]]; [exact (slist_response_nf _ _ _ _ _ _ _ Hn H)|].
    cbn [snd] in H. destruct gl as [|g0 [|g1 [|]]]; try discriminate.
    apply bind_fuel in H. destruct H as [H | [g0' [_ H]]]; [exact (grade_bracket_not_fuel _ _ _ H)|].
    apply bind_fuel in H. destruct H as [H | [g1' [_ H]]]; [exact (grade_bracket_not_fuel _ _ _ H)|].
    exact (process_not_fuel _ _ _ _ _ _ H).
  Qed.

  Lemma run_groups_nf : forall chk c subs answers grouped p off k,
    (forall g, In g subs -> no_fuel chk g) -> no_fuel chk (GSum 0) ->
    fst (run_groups OR chk c subs answers grouped p off k) <> Fuel.
  Proof.
    intros chk c subs answers grouped p off k Hsubs Hdef H. unfold run_groups in H.
    assert (Hhd : no_fuel chk (hd (GSum 0) subs)) by (destruct subs; [exact Hdef | apply Hsubs; left; reflexivity]).
    destruct (l_ordered c); simpl in H.
    - apply collect_fuel in H. destruct H as [o [Hin Ho]]. apply in_mapi in Hin. destruct Hin as [i [[g [a x]] [Hz ->]]].
      simpl in Ho. apply in_zip in Hz. destruct Hz as [Hg _].
      destruct (l_single c).
      + apply repeat_spec in Hg. subst g. exact (Hhd _ _ _ Ho).
      + exact (Hsubs _ Hg _ _ _ Ho).
    - apply bind_fuel in H. destruct H as [H | [flat [_ H]]]; [|exact (pick_pairs_not_fuel _ _ H)].
      apply collect_fuel in H. destruct H as [o [Hin Ho]]. apply in_concat in Hin. destruct Hin as [row [Hrow Hin]].
      apply in_mapi in Hrow. destruct Hrow as [i [xi [_ ->]]]. apply in_mapi in Hin. destruct Hin as [j [aj [_ ->]]].
      exact (Hhd _ _ _ Ho).
  Qed.

  Lemma perform_all_nf : forall chk c subs lists inputs p off k o,
    (forall g, In g subs -> no_fuel chk g) -> no_fuel chk (GSum 0) ->
    In o (perform_all OR chk c subs lists inputs p off k) -> o <> Fuel.
  Proof.
    intros chk c subs lists. induction lists as [|al lists IH]; intros inputs p off k o Hsubs Hdef Hin; simpl in Hin;
      [contradiction|]. destruct Hin as [<- | Hin]; [|eapply IH; eassumption].
    unfold perform_check. match goal with |- context [if ?b then _ else _] => destruct b end; [discriminate|].
    simpl. intro H. apply bind_fuel in H. destruct H as [H | [rs [_ H]]]; [|discriminate].
    exact (run_groups_nf _ _ _ _ _ _ _ _ Hsubs Hdef H).
  Qed.

  Lemma in_fold_max : forall l x, In x l -> (x <= fold_right Nat.max 1 l)%nat.
  Proof.
    induction l as [|y l IH]; intros x Hx; simpl in *; [contradiction|].
    destruct Hx as [<- | H]; [lia | specialize (IH _ H); lia].
  Qed.

  Lemma check_fuel_enough : forall fuel g, (gdepth g <= fuel)%nat -> no_fuel (check OR fuel) g.
  Proof.
    induction fuel as [|f IH]; intros g Hd a x p H.
    - destruct g; simpl in Hd; lia.
    - simpl in H. destruct g as [k wrong | c wrong sub | c wrong sub | c subs | failable]; simpl in Hd.
      + destruct a as [alts|]; [|discriminate]. destruct alts; [discriminate|].
        apply bind_fuel in H. destruct H as [H | [rs [_ H]]].
        * apply collect_fuel in H. destruct H as [o [Hin Ho]]. apply in_mapi in Hin. destruct Hin as [i [ea [_ ->]]].
          exact (leaf_response_not_fuel _ _ _ _ _ _ Ho).
        * apply bind_fuel in H. destruct H as [H | [r [_ H]]]; [exact (item_select_not_fuel _ _ H) | discriminate].
      + assert (Hn : no_fuel (check OR f) sub) by (apply IH; lia).
        destruct a as [alts|]; [|discriminate]. destruct alts; [discriminate|].
        apply bind_fuel in H. destruct H as [H | [rs [_ H]]].
        * apply collect_fuel in H. destruct H as [o [Hin Ho]]. apply in_mapi in Hin. destruct Hin as [i [ea [_ ->]]].
          apply bind_fuel in Ho. destruct Ho as [Ho | [rg [_ Ho]]]; [exact (slist_response_nf _ _ _ _ _ _ _ Hn Ho) | discriminate].
        * apply bind_fuel in H. destruct H as [H | [r [_ H]]]; [exact (item_select_not_fuel _ _ H) | discriminate].
      + assert (Hn : no_fuel (check OR f) sub) by (apply IH; lia).
        destruct a as [alts|]; [|discriminate]. destruct alts; [discriminate|].
        apply bind_fuel in H. destruct H as [H | [rs [_ H]]].
        * apply collect_fuel in H. destruct H as [o [Hin Ho]]. apply in_mapi in Hin. destruct Hin as [i [ea [_ ->]]].
          exact (interval_response_nf _ _ _ _ _ _ _ Hn Ho).
        * apply bind_fuel in H. destruct H as [H | [r [_ H]]]; [exact (item_select_not_fuel _ _ H) | discriminate].
      + assert (Hsubs : forall g, In g subs -> no_fuel (check OR f) g).
        { intros g Hg. apply IH. pose proof (in_fold_max (map gdepth subs) (gdepth g) (in_map gdepth _ _ Hg)). lia. }
        assert (Hdef : no_fuel (check OR f) (GSum 0)).
        { apply IH. simpl. pose proof (Nat.le_max_l 1 0). assert (1 <= fold_right Nat.max 1 (map gdepth subs))%nat.
          { clear. induction (map gdepth subs); simpl; lia. } lia. }
        destruct a as [|lists]; [discriminate|]. destruct lists; [discriminate|]. destruct x; [discriminate|].
        apply bind_fuel in H. destruct H as [H | [results [_ H]]].
        * apply collect_fuel in H. destruct H as [o [Hin Ho]].
          exact (perform_all_nf _ _ _ _ _ _ _ _ _ Hsubs Hdef Hin Ho).
        * apply bind_fuel in H. destruct H as [H | [sl [_ H]]]; [exact (choose_best_not_fuel _ _ H)|].
          apply bind_fuel in H. destruct H as [H | [sl' [_ H]]]; [|discriminate].
          destruct (l_partial c); [discriminate | exact (zero_unless_perfect_not_fuel _ H)].
      + destruct (o_leaf OR p); discriminate.
  Qed.

  Lemma call_fuel_enough : forall fuel cfg g a x attempt log,
    (gdepth g <= fuel)%nat -> call fuel OR cfg g a x attempt log <> Fuel.
  Proof.
    intros fuel cfg g a x attempt log Hd H. unfold call in H. destruct (negb _); [discriminate|].
    apply bind_fuel in H. destruct H as [H | [r [_ H]]]; [exact (check_fuel_enough _ _ Hd _ _ _ H)|].
    apply bind_fuel in H. destruct H as [H | [[[ov es] multi] [_ H]]].
    - destruct r; [discriminate|]. apply bind_fuel in H. destruct H as [H | [es [_ H]]]; [|discriminate].
      unfold slots_entries in H. apply collect_fuel in H. destruct H as [o [Hin Ho]].
      apply in_map_iff in Hin. destruct Hin as [[d|] [E _]]; congruence.
    - apply bind_fuel in H. destruct H as [H | [[es' note] [_ H]]].
      + destruct (c_sched cfg); [destruct (apply_credit _ _ _ _)|]; discriminate.
      + destruct multi; [discriminate|]. destruct es' as [|e [|]]; discriminate.
  Qed.
End Fuel.
