(* ParserRoundTrip.v -- completeness of the token-level parser on canonical prints:
     parse_tokens (print t) = Some t   for every well-formed tree t (any size, any nesting depth).
   The proof goes level by level (atom, power, negation, parallel, product, sum) inside a section that
   assumes the property for the parser one bracket level down, and closes the recursion by induction on
   the bracket depth. *)
From Coq Require Import ZArith List Bool Lia Arith.
From Verif.Model Require Import Result Lexer Parser.
Import ListNotations.

(* ---------- shape vocabulary ---------- *)
Definition tlevel (t : tree) : nat :=
  match t with
  | Sum _ _ _ => 0 | Prod _ _ => 1 | Par _ _ => 2 | Neg _ => 3 | Pow _ _ => 4 | _ => 5
  end.

Definition nonempty {A} (l : list A) : bool := match l with [] => false | _ => true end.

(* a tree the grammar can produce: operands bind at least as tightly as their position requires, flat
   nodes are not degenerate (group_if_multiple), argument lists and arrays are non-empty *)
Fixpoint wfb (t : tree) : bool :=
  match t with
  | Num _ _ | Var _ => true
  | Fun _ args => nonempty args && forallb wfb args
  | Paren t => wfb t
  | Arr items => nonempty items && forallb wfb items
  | Pow b rest => nonempty rest && (5 <=? tlevel b) && wfb b
                  && forallb (fun p : bool * tree => (5 <=? tlevel (snd p)) && wfb (snd p)) rest
  | Neg t => (4 <=? tlevel t) && wfb t
  | Par f rest => nonempty rest && (3 <=? tlevel f) && wfb f
                  && forallb (fun t => (3 <=? tlevel t) && wfb t) rest
  | Prod f rest => nonempty rest && (2 <=? tlevel f) && wfb f
                   && forallb (fun p : mulop * tree => (2 <=? tlevel (snd p)) && wfb (snd p)) rest
  | Sum lead f rest => (lead || nonempty rest) && (1 <=? tlevel f) && wfb f
                       && forallb (fun p : addop * tree => (1 <=? tlevel (snd p)) && wfb (snd p)) rest
  end.

(* bracket nesting depth *)
Fixpoint bdepth (t : tree) : nat :=
  match t with
  | Num _ _ | Var _ => 0
  | Fun _ args => S (list_max (map bdepth args))
  | Paren t => S (bdepth t)
  | Arr items => S (list_max (map bdepth items))
  | Pow b rest => Nat.max (bdepth b) (list_max (map (fun p : bool * tree => bdepth (snd p)) rest))
  | Neg t => bdepth t
  | Par f rest => Nat.max (bdepth f) (list_max (map bdepth rest))
  | Prod f rest => Nat.max (bdepth f) (list_max (map (fun p : mulop * tree => bdepth (snd p)) rest))
  | Sum _ f rest => Nat.max (bdepth f) (list_max (map (fun p : addop * tree => bdepth (snd p)) rest))
  end.

(* what may follow a complete phrase of the given level without being absorbed by it *)
Definition stop (lvl : nat) (rest : list token) : bool :=
  match rest with
  | [] => true
  | TRP :: _ | TRB :: _ | TComma :: _ => true
  | TPlus :: _ | TMinus :: _ => 1 <=? lvl
  | TStar :: _ | TSlash :: _ => 2 <=? lvl
  | TPipe :: _ => 3 <=? lvl
  | TCaret :: _ => 5 <=? lvl
  | _ => false
  end.

Definition atom_start (k : token) : bool :=
  match k with TNum _ _ | TName _ | TLP | TLB => true | _ => false end.

Definition closer (rest : list token) : bool :=
  match rest with TRP :: _ | TRB :: _ => true | _ => false end.

(* token text of the repeated parts *)
Definition list_toks (l : list tree) : list token := flat_map (fun t => TComma :: print t) l.
Definition pow_toks (l : list (bool * tree)) : list token :=
  flat_map (fun p : bool * tree => TCaret :: (if fst p then [TMinus] else []) ++ print (snd p)) l.
Definition par_toks (l : list tree) : list token := flat_map (fun t => TPipe :: TPipe :: print t) l.
Definition mul_tok (o : mulop) : token := match o with OpMul => TStar | OpDiv => TSlash end.
Definition add_tok (o : addop) : token := match o with OpAdd => TPlus | OpSub => TMinus end.
Definition prod_toks (l : list (mulop * tree)) : list token :=
  flat_map (fun p : mulop * tree => mul_tok (fst p) :: print (snd p)) l.
Definition sum_toks (l : list (addop * tree)) : list token :=
  flat_map (fun p : addop * tree => add_tok (fst p) :: print (snd p)) l.

Lemma print_Pow : forall b rest, print (Pow b rest) = print b ++ pow_toks rest.
Proof. reflexivity. Qed.
Lemma print_Par : forall f rest, print (Par f rest) = print f ++ par_toks rest.
Proof. reflexivity. Qed.
Lemma print_Prod : forall f rest, print (Prod f rest) = print f ++ prod_toks rest.
Proof. reflexivity. Qed.
Lemma print_Sum : forall lead f rest,
  print (Sum lead f rest) = (if lead then [TPlus] else []) ++ print f ++ sum_toks rest.
Proof. reflexivity. Qed.
Lemma print_Fun : forall n a l, print (Fun n (a :: l)) = TName n :: TLP :: (print a ++ list_toks l) ++ [TRP].
Proof. reflexivity. Qed.
Lemma print_Arr : forall a l, print (Arr (a :: l)) = TLB :: (print a ++ list_toks l) ++ [TRB].
Proof. reflexivity. Qed.

(* unfolding equations (so that [simpl] never touches the comparisons) *)
Lemma wfb_Pow : forall b rest, wfb (Pow b rest) =
  nonempty rest && (5 <=? tlevel b) && wfb b
  && forallb (fun p : bool * tree => (5 <=? tlevel (snd p)) && wfb (snd p)) rest.
Proof. reflexivity. Qed.
Lemma wfb_Neg : forall t, wfb (Neg t) = (4 <=? tlevel t) && wfb t.
Proof. reflexivity. Qed.
Lemma wfb_Par : forall f rest, wfb (Par f rest) =
  nonempty rest && (3 <=? tlevel f) && wfb f && forallb (fun t => (3 <=? tlevel t) && wfb t) rest.
Proof. reflexivity. Qed.
Lemma wfb_Prod : forall f rest, wfb (Prod f rest) =
  nonempty rest && (2 <=? tlevel f) && wfb f
  && forallb (fun p : mulop * tree => (2 <=? tlevel (snd p)) && wfb (snd p)) rest.
Proof. reflexivity. Qed.
Lemma wfb_Sum : forall lead f rest, wfb (Sum lead f rest) =
  (lead || nonempty rest) && (1 <=? tlevel f) && wfb f
  && forallb (fun p : addop * tree => (1 <=? tlevel (snd p)) && wfb (snd p)) rest.
Proof. reflexivity. Qed.
Lemma wfb_Fun : forall n args, wfb (Fun n args) = nonempty args && forallb wfb args.
Proof. reflexivity. Qed.
Lemma wfb_Arr : forall items, wfb (Arr items) = nonempty items && forallb wfb items.
Proof. reflexivity. Qed.

Ltac split_wf W :=
  repeat match type of W with
         | (_ && _) = true => let W' := fresh "W" in apply andb_true_iff in W; destruct W as [W W']
         end.
Ltac leb_all :=
  repeat match goal with
         | H : (_ <=? _) = true |- _ => apply Nat.leb_le in H
         end.

Lemma stop_mono : forall l l' rest, l <= l' -> stop l rest = true -> stop l' rest = true.
Proof.
  intros l l' rest Hl H. destruct rest as [|k r]; [reflexivity|].
  destruct k; cbv beta iota delta [stop] in *; try assumption; try discriminate;
    apply Nat.leb_le in H; apply Nat.leb_le; lia.
Qed.

(* ---------- first token of a print ---------- *)
Lemma head5 : forall t, tlevel t = 5 -> wfb t = true -> exists k r, print t = k :: r /\ atom_start k = true.
Proof.
  intros t H W. destruct t; simpl in H; try discriminate; simpl; eauto.
Qed.

Lemma head4 : forall t, 4 <= tlevel t -> wfb t = true -> exists k r, print t = k :: r /\ atom_start k = true.
Proof.
  intros t H W. destruct t; simpl in H; try lia; try (apply head5; [reflexivity|assumption]).
  rewrite wfb_Pow in W. split_wf W. leb_all.
  assert (Hb : tlevel t = 5) by (destruct t; simpl in *; lia).
  destruct (head5 t Hb W1) as (k & r & E & A). rewrite print_Pow, E. simpl. eauto.
Qed.

Definition operand_start (k : token) : bool := atom_start k || match k with TMinus => true | _ => false end.

Lemma head3 : forall t, 3 <= tlevel t -> wfb t = true -> exists k r, print t = k :: r /\ operand_start k = true.
Proof.
  intros t H W. destruct (Nat.eq_dec (tlevel t) 3) as [E|NE].
  - destruct t; simpl in E; try discriminate. simpl. eauto.
  - destruct (head4 t ltac:(lia) W) as (k & r & E & A). exists k, r. split; [assumption|].
    unfold operand_start. rewrite A. reflexivity.
Qed.

Lemma head2 : forall t, 2 <= tlevel t -> wfb t = true -> exists k r, print t = k :: r /\ operand_start k = true.
Proof.
  intros t H W. destruct (Nat.eq_dec (tlevel t) 2) as [E|NE].
  - destruct t; simpl in E; try discriminate.
    rewrite wfb_Par in W. split_wf W. leb_all.
    destruct (head3 t W2 W1) as (k & r & E' & A). rewrite print_Par, E'. simpl. eauto.
  - apply head3; [lia|assumption].
Qed.

Lemma head1 : forall t, 1 <= tlevel t -> wfb t = true -> exists k r, print t = k :: r /\ operand_start k = true.
Proof.
  intros t H W. destruct (Nat.eq_dec (tlevel t) 1) as [E|NE].
  - destruct t; simpl in E; try discriminate.
    rewrite wfb_Prod in W. split_wf W. leb_all.
    destruct (head2 t W2 W1) as (k & r & E' & A). rewrite print_Prod, E'. simpl. eauto.
  - apply head2; [lia|assumption].
Qed.

(* ---------- lengths (fuel of the loops) ---------- *)
Lemma len_flat_map : forall (A : Type) (f : A -> list token) (l : list A) rest,
  (forall x, 1 <= length (f x)) -> length l <= length (flat_map f l ++ rest).
Proof.
  intros A f l rest Hf. induction l as [|x l IH]; simpl; [lia|].
  rewrite <- app_assoc, app_length. specialize (Hf x). lia.
Qed.
Lemma len_list_toks : forall l rest, length l <= length (list_toks l ++ rest).
Proof. intros. apply len_flat_map. intros; simpl; lia. Qed.
Lemma len_pow_toks : forall l rest, length l <= length (pow_toks l ++ rest).
Proof. intros. apply len_flat_map. intros; simpl; lia. Qed.
Lemma len_par_toks : forall l rest, length l <= length (par_toks l ++ rest).
Proof. intros. apply len_flat_map. intros; simpl; lia. Qed.
Lemma len_prod_toks : forall l rest, length l <= length (prod_toks l ++ rest).
Proof. intros. apply len_flat_map. intros; simpl; lia. Qed.
Lemma len_sum_toks : forall l rest, length l <= length (sum_toks l ++ rest).
Proof. intros. apply len_flat_map. intros; simpl; lia. Qed.

Lemma list_max_map_lt : forall (A : Type) (f : A -> nat) (l : list A) n,
  list_max (map f l) < n -> Forall (fun x => f x < n) l.
Proof.
  intros A f l n H. induction l as [|x l IH]; constructor; simpl in H; [lia|apply IH; lia].
Qed.

Lemma list_max_map_le : forall (A : Type) (f : A -> nat) (l : list A) n,
  list_max (map f l) <= n -> Forall (fun x => f x <= n) l.
Proof.
  intros A f l n H. induction l as [|x l IH]; constructor; simpl in H; [lia|apply IH; lia].
Qed.

(* ============================================================================================== *)
Section Complete.
  Variable rec : list token -> option (tree * list token).
  Variable d : nat.
  Hypothesis Hrec : forall t rest, bdepth t < d -> wfb t = true -> stop 0 rest = true ->
                                   rec (print t ++ rest) = Some (t, rest).

  (* --- comma-separated lists --- *)
  Lemma stop0_list_toks : forall l rest, closer rest = true -> stop 0 (list_toks l ++ rest) = true.
  Proof.
    intros [|t l] rest H; simpl; [|reflexivity].
    destruct rest as [|k r]; [reflexivity|]. destruct k; simpl in *; try discriminate; reflexivity.
  Qed.

  Lemma list_loop_complete : forall l k rest,
    length l <= k -> Forall (fun t => bdepth t < d /\ wfb t = true) l -> closer rest = true ->
    list_loop rec k (list_toks l ++ rest) = (l, rest).
  Proof.
    induction l as [|t l IH]; intros k rest Hk Hl Hc.
    - simpl. destruct k; [reflexivity|]. simpl.
      destruct rest as [|c r]; [reflexivity|]. destruct c; simpl in Hc; try discriminate; reflexivity.
    - destruct k; [simpl in Hk; lia|]. inversion Hl as [|? ? [Hd Hw] Hl']; subst.
      simpl. rewrite <- app_assoc.
      rewrite (Hrec t (list_toks l ++ rest) Hd Hw (stop0_list_toks l rest Hc)).
      rewrite (IH k rest); [reflexivity|simpl in Hk; lia|assumption|assumption].
  Qed.

  Lemma parse_list_complete : forall a l rest,
    Forall (fun t => bdepth t < d /\ wfb t = true) (a :: l) -> closer rest = true ->
    parse_list rec (print a ++ list_toks l ++ rest) = Some (a :: l, rest).
  Proof.
    intros a l rest Hl Hc. inversion Hl as [|? ? [Hd Hw] Hl']; subst.
    unfold parse_list.
    rewrite (Hrec a (list_toks l ++ rest) Hd Hw (stop0_list_toks l rest Hc)).
    rewrite (list_loop_complete l _ rest (len_list_toks l rest) Hl' Hc). reflexivity.
  Qed.

  Lemma forall_args : forall l, forallb wfb l = true -> list_max (map bdepth l) < d ->
    Forall (fun t => bdepth t < d /\ wfb t = true) l.
  Proof.
    intros l W D. apply list_max_map_lt in D. rewrite forallb_forall in W.
    rewrite Forall_forall in *. intros x Hx. split; auto.
  Qed.

  (* --- atoms --- *)
  Lemma atom_complete : forall t rest,
    wfb t = true -> tlevel t = 5 -> bdepth t <= d -> stop 5 rest = true ->
    parse_atom rec (print t ++ rest) = Some (t, rest).
  Proof.
    intros t rest W L D S. destruct t; simpl in L; try discriminate.
    - reflexivity.
    - simpl. destruct rest as [|k r]; [reflexivity|]. destruct k; simpl in S; try discriminate; reflexivity.
    - destruct args as [|a l]; [discriminate|]. simpl in W. simpl in D.
      rewrite print_Fun. simpl. rewrite <- !app_assoc. simpl.
      rewrite (parse_list_complete a l (TRP :: rest)); [reflexivity| |reflexivity].
      apply forall_args; [assumption|]. simpl. lia.
    - simpl in W, D. simpl. rewrite <- app_assoc. simpl.
      rewrite (Hrec t (TRP :: rest)); [reflexivity|lia|assumption|reflexivity].
    - destruct items as [|a l]; [discriminate|]. simpl in W. simpl in D.
      rewrite print_Arr. simpl. rewrite <- !app_assoc. simpl.
      rewrite (parse_list_complete a l (TRB :: rest)); [reflexivity| |reflexivity].
      apply forall_args; [assumption|]. simpl. lia.
  Qed.

  (* --- power --- *)
  Lemma pow_loop_stop : forall k rest, stop 4 rest = true -> pow_loop rec k rest = ([], rest).
  Proof.
    intros k rest S. destruct k; [reflexivity|]. simpl.
    destruct rest as [|c r]; [reflexivity|]. destruct c; simpl in S; try discriminate; reflexivity.
  Qed.

  Definition pitem_ok (p : bool * tree) : Prop :=
    tlevel (snd p) = 5 /\ wfb (snd p) = true /\ bdepth (snd p) <= d.

  Lemma stop5_pow_toks : forall l rest, stop 4 rest = true -> stop 5 (pow_toks l ++ rest) = true.
  Proof. intros [|p l] rest H; simpl; [apply (stop_mono 4); [lia|assumption]|reflexivity]. Qed.

  Lemma pow_loop_S : forall k r,
    pow_loop rec (S k) (TCaret :: r) =
    let '(sg, r1) := match r with TMinus :: r0 => (true, r0) | _ => (false, r) end in
    match parse_atom rec r1 with
    | Some (a, r2) => let (l, r3) := pow_loop rec k r2 in ((sg, a) :: l, r3)
    | None => ([], TCaret :: r)
    end.
  Proof. reflexivity. Qed.

  Lemma no_sign : forall ts c r, ts = c :: r -> atom_start c = true ->
    (match ts with TMinus :: r0 => (true, r0) | _ => (false, ts) end) = (false, ts).
  Proof. intros ts c r E A. subst. destruct c; simpl in A; try discriminate; reflexivity. Qed.

  Lemma pow_loop_complete : forall l k rest,
    length l <= k -> Forall pitem_ok l -> stop 4 rest = true ->
    pow_loop rec k (pow_toks l ++ rest) = (l, rest).
  Proof.
    induction l as [|[sg a] l IH]; intros k rest Hk Hl S.
    - simpl. apply pow_loop_stop. assumption.
    - destruct k; [simpl in Hk; lia|]. inversion Hl as [|? ? (L5 & W & D) Hl']; subst. simpl in L5, W, D.
      assert (Ha : parse_atom rec (print a ++ pow_toks l ++ rest) = Some (a, pow_toks l ++ rest))
        by (apply atom_complete; auto using stop5_pow_toks).
      destruct (head5 a L5 W) as (c & r & Ep & As).
      assert (IH' : pow_loop rec k (pow_toks l ++ rest) = (l, rest))
        by (apply IH; [simpl in Hk; lia|assumption|assumption]).
      change (pow_toks ((sg, a) :: l)) with
        ((TCaret :: (if sg then [TMinus] else []) ++ print a) ++ pow_toks l).
      rewrite <- app_assoc. simpl app at 1. rewrite pow_loop_S.
      destruct sg.
      + change (([TMinus] ++ print a) ++ pow_toks l ++ rest) with (TMinus :: (print a ++ pow_toks l ++ rest)).
        cbv beta iota. rewrite Ha, IH'. reflexivity.
      + change (([] ++ print a) ++ pow_toks l ++ rest) with (print a ++ pow_toks l ++ rest).
        rewrite (no_sign (print a ++ pow_toks l ++ rest) c (r ++ pow_toks l ++ rest)); [| rewrite Ep; reflexivity | assumption].
        cbv beta iota. rewrite Ha, IH'. reflexivity.
  Qed.

  Lemma level5 : forall t, 5 <= tlevel t -> tlevel t = 5.
  Proof. intros t H. destruct t; simpl in *; lia. Qed.

  Lemma pitems_ok : forall rest,
    forallb (fun p : bool * tree => (5 <=? tlevel (snd p)) && wfb (snd p)) rest = true ->
    list_max (map (fun p : bool * tree => bdepth (snd p)) rest) <= d -> Forall pitem_ok rest.
  Proof.
    intros rest W D. apply list_max_map_le in D. rewrite forallb_forall in W. rewrite Forall_forall in *.
    intros x Hx. specialize (W x Hx). apply andb_true_iff in W. destruct W as [W1 W2].
    apply Nat.leb_le, level5 in W1. repeat split; auto.
  Qed.

  Lemma power_complete : forall t rest,
    wfb t = true -> 4 <= tlevel t -> bdepth t <= d -> stop 4 rest = true ->
    parse_power rec (print t ++ rest) = Some (t, rest).
  Proof.
    intros t rest W L D S. unfold parse_power.
    destruct (Nat.eq_dec (tlevel t) 4) as [E|NE].
    - destruct t; simpl in E; try discriminate.
      rewrite wfb_Pow in W. split_wf W. leb_all. apply level5 in W2.
      change (bdepth (Pow t rest0)) with
        (Nat.max (bdepth t) (list_max (map (fun p : bool * tree => bdepth (snd p)) rest0))) in D.
      rewrite print_Pow, <- app_assoc.
      rewrite (atom_complete t (pow_toks rest0 ++ rest)); [|assumption|assumption|lia|apply stop5_pow_toks; assumption].
      rewrite (pow_loop_complete rest0 _ rest (len_pow_toks rest0 rest)); [| apply pitems_ok; [assumption|lia] |assumption].
      destruct rest0; [discriminate|reflexivity].
    - assert (L5 : tlevel t = 5) by (destruct t; simpl in *; lia).
      rewrite (atom_complete t rest W L5 D (stop_mono 4 5 rest ltac:(lia) S)).
      rewrite pow_loop_stop by assumption. reflexivity.
  Qed.

  (* --- negation --- *)
  Lemma negation_complete : forall t rest,
    wfb t = true -> 3 <= tlevel t -> bdepth t <= d -> stop 4 rest = true ->
    parse_negation rec (print t ++ rest) = Some (t, rest).
  Proof.
    intros t rest W L D S. destruct (Nat.eq_dec (tlevel t) 3) as [E|NE].
    - destruct t; simpl in E; try discriminate.
      rewrite wfb_Neg in W. split_wf W. leb_all. simpl in D.
      change (print (Neg t) ++ rest) with (TMinus :: (print t ++ rest)).
      unfold parse_negation. rewrite (power_complete t rest); auto.
    - assert (L4 : 4 <= tlevel t) by lia.
      destruct (head4 t L4 W) as (c & r & Ep & As).
      unfold parse_negation. rewrite <- (power_complete t rest W L4 D S).
      rewrite Ep. destruct c; simpl in As; try discriminate; reflexivity.
  Qed.

  (* --- parallel --- *)
  Definition item_ok (lvl : nat) (t : tree) : Prop := lvl <= tlevel t /\ wfb t = true /\ bdepth t <= d.

  Lemma par_loop_S : forall k r,
    par_loop rec (S k) (TPipe :: TPipe :: r) =
    match parse_negation rec r with
    | Some (n, r') => let (l, r'') := par_loop rec k r' in (n :: l, r'')
    | None => ([], TPipe :: TPipe :: r)
    end.
  Proof. reflexivity. Qed.

  Lemma par_loop_stop : forall k rest, stop 2 rest = true -> par_loop rec k rest = ([], rest).
  Proof.
    intros k rest S. destruct k; [reflexivity|]. simpl.
    destruct rest as [|c r]; [reflexivity|]. destruct c; simpl in S; try discriminate; reflexivity.
  Qed.

  Lemma stop4_par_toks : forall l rest, stop 2 rest = true -> stop 4 (par_toks l ++ rest) = true.
  Proof. intros [|p l] rest H; simpl; [apply (stop_mono 2); [lia|assumption]|reflexivity]. Qed.

  Lemma par_loop_complete : forall l k rest,
    length l <= k -> Forall (item_ok 3) l -> stop 2 rest = true ->
    par_loop rec k (par_toks l ++ rest) = (l, rest).
  Proof.
    induction l as [|a l IH]; intros k rest Hk Hl S.
    - simpl. apply par_loop_stop. assumption.
    - destruct k; [simpl in Hk; lia|]. inversion Hl as [|? ? (L3 & W & D) Hl']; subst.
      change (par_toks (a :: l) ++ rest) with (TPipe :: TPipe :: ((print a ++ par_toks l) ++ rest)).
      rewrite <- app_assoc, par_loop_S.
      rewrite (negation_complete a (par_toks l ++ rest)); auto using stop4_par_toks.
      rewrite (IH k rest); [reflexivity|simpl in Hk; lia|assumption|assumption].
  Qed.

  Lemma items_ok_plain : forall lvl rest,
    forallb (fun t => (lvl <=? tlevel t) && wfb t) rest = true ->
    list_max (map bdepth rest) <= d -> Forall (item_ok lvl) rest.
  Proof.
    intros lvl rest W D. apply list_max_map_le in D. rewrite forallb_forall in W. rewrite Forall_forall in *.
    intros x Hx. specialize (W x Hx). apply andb_true_iff in W. destruct W as [W1 W2].
    apply Nat.leb_le in W1. repeat split; auto.
  Qed.

  Lemma items_ok_pair : forall (A : Type) lvl (rest : list (A * tree)),
    forallb (fun p : A * tree => (lvl <=? tlevel (snd p)) && wfb (snd p)) rest = true ->
    list_max (map (fun p : A * tree => bdepth (snd p)) rest) <= d ->
    Forall (fun p => item_ok lvl (snd p)) rest.
  Proof.
    intros A lvl rest W D. apply list_max_map_le in D. rewrite forallb_forall in W. rewrite Forall_forall in *.
    intros x Hx. specialize (W x Hx). apply andb_true_iff in W. destruct W as [W1 W2].
    apply Nat.leb_le in W1. repeat split; auto.
  Qed.

  Lemma parallel_complete : forall t rest,
    wfb t = true -> 2 <= tlevel t -> bdepth t <= d -> stop 2 rest = true ->
    parse_parallel rec (print t ++ rest) = Some (t, rest).
  Proof.
    intros t rest W L D S. unfold parse_parallel.
    destruct (Nat.eq_dec (tlevel t) 2) as [E|NE].
    - destruct t; simpl in E; try discriminate.
      rewrite wfb_Par in W. split_wf W. leb_all.
      change (bdepth (Par t rest0)) with (Nat.max (bdepth t) (list_max (map bdepth rest0))) in D.
      rewrite print_Par, <- app_assoc.
      rewrite (negation_complete t (par_toks rest0 ++ rest)); [|assumption|assumption|lia|apply stop4_par_toks; assumption].
      rewrite (par_loop_complete rest0 _ rest (len_par_toks rest0 rest)); [| apply items_ok_plain; [assumption|lia] |assumption].
      destruct rest0; [discriminate|reflexivity].
    - rewrite (negation_complete t rest W ltac:(lia) D (stop_mono 2 4 rest ltac:(lia) S)).
      rewrite par_loop_stop by assumption. reflexivity.
  Qed.

  (* --- product --- *)
  Lemma prod_loop_S : forall k o r,
    prod_loop rec (S k) (mul_tok o :: r) =
    match parse_parallel rec r with
    | Some (p, r') => let (l, r'') := prod_loop rec k r' in ((o, p) :: l, r'')
    | None => ([], mul_tok o :: r)
    end.
  Proof. intros k [] r; reflexivity. Qed.

  Lemma prod_loop_stop : forall k rest, stop 1 rest = true -> prod_loop rec k rest = ([], rest).
  Proof.
    intros k rest S. destruct k; [reflexivity|]. simpl.
    destruct rest as [|c r]; [reflexivity|]. destruct c; simpl in S; try discriminate; reflexivity.
  Qed.

  Lemma stop2_prod_toks : forall l rest, stop 1 rest = true -> stop 2 (prod_toks l ++ rest) = true.
  Proof.
    intros [|[[] p] l] rest H; simpl; [apply (stop_mono 1); [lia|assumption]|reflexivity|reflexivity].
  Qed.

  Lemma prod_loop_complete : forall l k rest,
    length l <= k -> Forall (fun p : mulop * tree => item_ok 2 (snd p)) l -> stop 1 rest = true ->
    prod_loop rec k (prod_toks l ++ rest) = (l, rest).
  Proof.
    induction l as [|[o a] l IH]; intros k rest Hk Hl S.
    - simpl. apply prod_loop_stop. assumption.
    - destruct k; [simpl in Hk; lia|]. inversion Hl as [|? ? (L3 & W & D) Hl']; subst. simpl in L3, W, D.
      change (prod_toks ((o, a) :: l) ++ rest) with (mul_tok o :: ((print a ++ prod_toks l) ++ rest)).
      rewrite <- app_assoc, prod_loop_S.
      rewrite (parallel_complete a (prod_toks l ++ rest)); auto using stop2_prod_toks.
      rewrite (IH k rest); [reflexivity|simpl in Hk; lia|assumption|assumption].
  Qed.

  Lemma product_complete : forall t rest,
    wfb t = true -> 1 <= tlevel t -> bdepth t <= d -> stop 1 rest = true ->
    parse_product rec (print t ++ rest) = Some (t, rest).
  Proof.
    intros t rest W L D S. unfold parse_product.
    destruct (Nat.eq_dec (tlevel t) 1) as [E|NE].
    - destruct t; simpl in E; try discriminate.
      rewrite wfb_Prod in W. split_wf W. leb_all.
      change (bdepth (Prod t rest0)) with
        (Nat.max (bdepth t) (list_max (map (fun p : mulop * tree => bdepth (snd p)) rest0))) in D.
      rewrite print_Prod, <- app_assoc.
      rewrite (parallel_complete t (prod_toks rest0 ++ rest)); [|assumption|assumption|lia|apply stop2_prod_toks; assumption].
      rewrite (prod_loop_complete rest0 _ rest (len_prod_toks rest0 rest)); [| apply items_ok_pair; [assumption|lia] |assumption].
      destruct rest0; [discriminate|reflexivity].
    - rewrite (parallel_complete t rest W ltac:(lia) D (stop_mono 1 2 rest ltac:(lia) S)).
      rewrite prod_loop_stop by assumption. reflexivity.
  Qed.

  (* --- sum --- *)
  Lemma sum_loop_S : forall k o r,
    sum_loop rec (S k) (add_tok o :: r) =
    match parse_product rec r with
    | Some (p, r') => let (l, r'') := sum_loop rec k r' in ((o, p) :: l, r'')
    | None => ([], add_tok o :: r)
    end.
  Proof. intros k [] r; reflexivity. Qed.

  Lemma sum_loop_stop : forall k rest, stop 0 rest = true -> sum_loop rec k rest = ([], rest).
  Proof.
    intros k rest S. destruct k; [reflexivity|]. simpl.
    destruct rest as [|c r]; [reflexivity|]. destruct c; simpl in S; try discriminate; reflexivity.
  Qed.

  Lemma stop1_sum_toks : forall l rest, stop 0 rest = true -> stop 1 (sum_toks l ++ rest) = true.
  Proof.
    intros [|[[] p] l] rest H; simpl; [apply (stop_mono 0); [lia|assumption]|reflexivity|reflexivity].
  Qed.

  Lemma sum_loop_complete : forall l k rest,
    length l <= k -> Forall (fun p : addop * tree => item_ok 1 (snd p)) l -> stop 0 rest = true ->
    sum_loop rec k (sum_toks l ++ rest) = (l, rest).
  Proof.
    induction l as [|[o a] l IH]; intros k rest Hk Hl S.
    - simpl. apply sum_loop_stop. assumption.
    - destruct k; [simpl in Hk; lia|]. inversion Hl as [|? ? (L3 & W & D) Hl']; subst. simpl in L3, W, D.
      change (sum_toks ((o, a) :: l) ++ rest) with (add_tok o :: ((print a ++ sum_toks l) ++ rest)).
      rewrite <- app_assoc, sum_loop_S.
      rewrite (product_complete a (sum_toks l ++ rest)); auto using stop1_sum_toks.
      rewrite (IH k rest); [reflexivity|simpl in Hk; lia|assumption|assumption].
  Qed.

  Lemma no_lead : forall ts c r, ts = c :: r -> operand_start c = true ->
    (match ts with TPlus :: r0 => (true, r0) | _ => (false, ts) end) = (false, ts).
  Proof. intros ts c r E A. subst. destruct c; simpl in A; try discriminate; reflexivity. Qed.

  Lemma sum_complete : forall t rest,
    wfb t = true -> bdepth t <= d -> stop 0 rest = true ->
    parse_sum rec (print t ++ rest) = Some (t, rest).
  Proof.
    intros t rest W D S. unfold parse_sum.
    destruct (Nat.eq_dec (tlevel t) 0) as [E|NE].
    - destruct t; simpl in E; try discriminate.
      rewrite wfb_Sum in W. split_wf W. leb_all.
      change (bdepth (Sum lead t rest0)) with
        (Nat.max (bdepth t) (list_max (map (fun p : addop * tree => bdepth (snd p)) rest0))) in D.
      assert (Hp : parse_product rec (print t ++ sum_toks rest0 ++ rest) = Some (t, sum_toks rest0 ++ rest))
        by (apply product_complete; [assumption|assumption|lia|apply stop1_sum_toks; assumption]).
      assert (Hl : sum_loop rec (length (sum_toks rest0 ++ rest)) (sum_toks rest0 ++ rest) = (rest0, rest))
        by (apply sum_loop_complete; [apply len_sum_toks|apply items_ok_pair; [assumption|lia]|assumption]).
      rewrite print_Sum. destruct lead.
      + change (([TPlus] ++ print t ++ sum_toks rest0) ++ rest) with (TPlus :: ((print t ++ sum_toks rest0) ++ rest)).
        cbv beta iota. rewrite <- app_assoc, Hp, Hl. reflexivity.
      + change (([] ++ print t ++ sum_toks rest0) ++ rest) with ((print t ++ sum_toks rest0) ++ rest).
        rewrite <- app_assoc.
        destruct (head1 t W2 W1) as (c & r & Ep & As).
        rewrite (no_lead (print t ++ sum_toks rest0 ++ rest) c (r ++ sum_toks rest0 ++ rest)); [|rewrite Ep; reflexivity|assumption].
        cbv beta iota. rewrite Hp, Hl.
        destruct rest0; [simpl in W; discriminate|reflexivity].
    - assert (L1 : 1 <= tlevel t) by lia.
      destruct (head1 t L1 W) as (c & r & Ep & As).
      rewrite (no_lead (print t ++ rest) c (r ++ rest)); [|rewrite Ep; reflexivity|assumption].
      cbv beta iota.
      rewrite (product_complete t rest W L1 D (stop_mono 0 1 rest ltac:(lia) S)).
      rewrite sum_loop_stop by assumption. reflexivity.
  Qed.
End Complete.

(* ---------- closing the recursion ---------- *)
Theorem parse_expr_complete : forall n t rest,
  bdepth t < n -> wfb t = true -> stop 0 rest = true ->
  parse_expr n (print t ++ rest) = Some (t, rest).
Proof.
  induction n as [|n IH]; intros t rest D W S; [lia|].
  simpl. apply (sum_complete (parse_expr n) n); auto. lia.
Qed.

(* ---------- induction principle for the nested tree type ---------- *)
Section tree_ind'.
  Variable P : tree -> Prop.
  Hypothesis HNum : forall x s, P (Num x s).
  Hypothesis HVar : forall n, P (Var n).
  Hypothesis HFun : forall n args, Forall P args -> P (Fun n args).
  Hypothesis HParen : forall t, P t -> P (Paren t).
  Hypothesis HArr : forall items, Forall P items -> P (Arr items).
  Hypothesis HPow : forall b rest, P b -> Forall (fun p : bool * tree => P (snd p)) rest -> P (Pow b rest).
  Hypothesis HNeg : forall t, P t -> P (Neg t).
  Hypothesis HPar : forall f rest, P f -> Forall P rest -> P (Par f rest).
  Hypothesis HProd : forall f rest, P f -> Forall (fun p : mulop * tree => P (snd p)) rest -> P (Prod f rest).
  Hypothesis HSum : forall lead f rest, P f -> Forall (fun p : addop * tree => P (snd p)) rest -> P (Sum lead f rest).

  Fixpoint tree_ind' (t : tree) : P t :=
    match t with
    | Num x s => HNum x s
    | Var n => HVar n
    | Fun n args =>
        HFun n args ((fix go (l : list tree) : Forall P l :=
                        match l with [] => Forall_nil _ | x :: r => Forall_cons _ (tree_ind' x) (go r) end) args)
    | Paren t => HParen t (tree_ind' t)
    | Arr items =>
        HArr items ((fix go (l : list tree) : Forall P l :=
                       match l with [] => Forall_nil _ | x :: r => Forall_cons _ (tree_ind' x) (go r) end) items)
    | Pow b rest =>
        HPow b rest (tree_ind' b)
             ((fix go (l : list (bool * tree)) : Forall (fun p => P (snd p)) l :=
                 match l with [] => Forall_nil _ | x :: r => Forall_cons _ (tree_ind' (snd x)) (go r) end) rest)
    | Neg t => HNeg t (tree_ind' t)
    | Par f rest =>
        HPar f rest (tree_ind' f)
             ((fix go (l : list tree) : Forall P l :=
                 match l with [] => Forall_nil _ | x :: r => Forall_cons _ (tree_ind' x) (go r) end) rest)
    | Prod f rest =>
        HProd f rest (tree_ind' f)
              ((fix go (l : list (mulop * tree)) : Forall (fun p => P (snd p)) l :=
                  match l with [] => Forall_nil _ | x :: r => Forall_cons _ (tree_ind' (snd x)) (go r) end) rest)
    | Sum lead f rest =>
        HSum lead f rest (tree_ind' f)
             ((fix go (l : list (addop * tree)) : Forall (fun p => P (snd p)) l :=
                 match l with [] => Forall_nil _ | x :: r => Forall_cons _ (tree_ind' (snd x)) (go r) end) rest)
    end.
End tree_ind'.

(* the bracket depth never exceeds the number of tokens *)
Lemma list_max_flat_map : forall (A : Type) (f : A -> nat) (g : A -> list token) (l : list A),
  Forall (fun x => f x <= length (g x)) l -> list_max (map f l) <= length (flat_map g l).
Proof.
  intros A f g l H. induction H as [|x l Hx Hl IH]; simpl; [lia|]. rewrite app_length. lia.
Qed.

Lemma bdepth_args : forall l, Forall (fun t => bdepth t <= length (print t)) l ->
  list_max (map bdepth l) <= length (match l with [] => [] | a :: r => print a ++ list_toks r end).
Proof.
  intros l H. destruct l as [|a r]; [simpl; lia|]. inversion H; subst.
  simpl. rewrite app_length.
  assert (list_max (map bdepth r) <= length (list_toks r)).
  { unfold list_toks. apply list_max_flat_map. eapply Forall_impl; [|eassumption]. intros x Hx. simpl in *. lia. }
  lia.
Qed.

Lemma bdepth_le_length : forall t, bdepth t <= length (print t).
Proof.
  induction t using tree_ind'; simpl; try lia.
  - apply bdepth_args in H. unfold list_toks in H. rewrite app_length. simpl. lia.
  - rewrite app_length. simpl. lia.
  - apply bdepth_args in H. unfold list_toks in H. rewrite app_length. simpl. lia.
  - rewrite app_length.
    assert (list_max (map (fun p : bool * tree => bdepth (snd p)) rest)
            <= length (flat_map (fun p : bool * tree => TCaret :: (if fst p then [TMinus] else []) ++ print (snd p)) rest)).
    { apply list_max_flat_map. eapply Forall_impl; [|eassumption]. intros a Ha; simpl in *. rewrite app_length. lia. }
    lia.
  - rewrite app_length.
    assert (list_max (map bdepth rest) <= length (flat_map (fun t => TPipe :: TPipe :: print t) rest)).
    { apply list_max_flat_map. eapply Forall_impl; [|eassumption]. intros a Ha; simpl in *. lia. }
    lia.
  - rewrite app_length.
    assert (list_max (map (fun p : mulop * tree => bdepth (snd p)) rest)
            <= length (flat_map (fun p : mulop * tree => match fst p with OpMul => TStar | OpDiv => TSlash end :: print (snd p)) rest)).
    { apply list_max_flat_map. eapply Forall_impl; [|eassumption]. intros a Ha; simpl in *. lia. }
    lia.
  - rewrite !app_length.
    assert (list_max (map (fun p : addop * tree => bdepth (snd p)) rest)
            <= length (flat_map (fun p : addop * tree => match fst p with OpAdd => TPlus | OpSub => TMinus end :: print (snd p)) rest)).
    { apply list_max_flat_map. eapply Forall_impl; [|eassumption]. intros a Ha; simpl in *. lia. }
    lia.
Qed.

(* ---------- the round trip ---------- *)
Theorem parse_print : forall t, wfb t = true -> parse_tokens (print t) = Some t.
Proof.
  intros t W. unfold parse_tokens.
  pose proof (parse_expr_complete (S (length (print t))) t [] ) as H.
  rewrite app_nil_r in H. rewrite H; [reflexivity| |assumption|reflexivity].
  pose proof (bdepth_le_length t). lia.
Qed.
