(* ParserStateCb.v -- the parse actions of the grammar record exactly the names of the accepted tree.

   (i)  cb_tree     : the tree component of the callback parser is Model/Parser.v's parse_tokens.
   (ii) cb_exact    : if the whole input is accepted, the names recorded by *every* callback that fired,
                      including those inside alternatives / repetition bodies that were abandoned, are a
                      permutation of (vars_of t, funcs_of t, suffixes_of t): each occurrence fires exactly
                      once, nothing fired in an abandoned attempt.
   Why (ii) holds for this grammar: an attempt is abandoned only after its text was consumed successfully
   and the next token did not fit ( name '(' args  not followed by ')', a repetition body whose operand
   fails).  In each such case the parser returns a rest that begins with a token no enclosing level can
   absorb ( '(' after a name, the operator of the repetition that just gave up ), so the rest survives to
   the enclosing bracket or to stringEnd, which reject it.  Formally: every level satisfies
        result = Some (t, rest)  /\  stop L rest  ->  recorded ~ names_of t
   where [stop L] (Proofs/ParserRoundTrip.v) says that rest may legitimately follow a phrase of level L. *)
From Coq Require Import ZArith List Bool Lia Arith Permutation.
From Verif.Model Require Import Result Lexer Parser ParserStateCb.
From Verif.Proofs Require Import ParserRoundTrip.
Import ListNotations.

(* ---------- names up to reordering ---------- *)
Definition nperm (a b : names) : Prop :=
  Permutation (n_vars a) (n_vars b) /\ Permutation (n_funcs a) (n_funcs b) /\ Permutation (n_sufs a) (n_sufs b).

Lemma nperm_refl : forall a, nperm a a.
Proof. intro a. repeat split; apply Permutation_refl. Qed.

Lemma nperm_sym : forall a b, nperm a b -> nperm b a.
Proof. intros a b (H1 & H2 & H3). repeat split; apply Permutation_sym; assumption. Qed.

Lemma nperm_trans : forall a b c, nperm a b -> nperm b c -> nperm a c.
Proof. intros a b c (H1 & H2 & H3) (K1 & K2 & K3). repeat split; eapply Permutation_trans; eassumption. Qed.

Lemma nperm_app : forall a a' b b', nperm a a' -> nperm b b' -> nperm (a +++ b) (a' +++ b').
Proof. intros a a' b b' (H1 & H2 & H3) (K1 & K2 & K3). repeat split; simpl; apply Permutation_app; assumption. Qed.

Lemma names_app_nil_l : forall a, no_names +++ a = a.
Proof. intros [v f s]. reflexivity. Qed.

Lemma names_app_nil_r : forall a, a +++ no_names = a.
Proof. intros [v f s]. unfold names_app. simpl. rewrite !app_nil_r. reflexivity. Qed.

Lemma names_app_assoc : forall a b c, (a +++ b) +++ c = a +++ (b +++ c).
Proof. intros [v f s] [v' f' s'] [v'' f'' s'']. unfold names_app. simpl. rewrite !app_assoc. reflexivity. Qed.

(* names of lists of subtrees *)
Definition names_list (l : list tree) : names :=
  mkNames (flat_map vars_of l) (flat_map funcs_of l) (flat_map suffixes_of l).
Definition names_pairs {A} (l : list (A * tree)) : names :=
  mkNames (flat_map (fun p => vars_of (snd p)) l) (flat_map (fun p => funcs_of (snd p)) l)
          (flat_map (fun p => suffixes_of (snd p)) l).

Lemma names_list_cons : forall t l, names_list (t :: l) = names_of t +++ names_list l.
Proof. reflexivity. Qed.
Lemma names_pairs_cons : forall A (x : A) t l, names_pairs ((x, t) :: l) = names_of t +++ names_pairs l.
Proof. reflexivity. Qed.

Lemma names_mk_pow : forall a l, names_of (mk_pow a l) = names_of a +++ names_pairs l.
Proof. intros a [|p l]; [simpl; rewrite names_app_nil_r|]; reflexivity. Qed.
Lemma names_mk_par : forall a l, names_of (mk_par a l) = names_of a +++ names_list l.
Proof. intros a [|p l]; [simpl; rewrite names_app_nil_r|]; reflexivity. Qed.
Lemma names_mk_prod : forall a l, names_of (mk_prod a l) = names_of a +++ names_pairs l.
Proof. intros a [|p l]; [simpl; rewrite names_app_nil_r|]; reflexivity. Qed.
Lemma names_mk_sum : forall b a l, names_of (mk_sum b a l) = names_of a +++ names_pairs l.
Proof. intros [|] a [|p l]; try reflexivity; unfold mk_sum, names_of, names_pairs, names_app; simpl; rewrite !app_nil_r; reflexivity. Qed.

(* ============================================================================================== *)
(* (i) the tree component *)
Section Tree.
  Variable rec : list token -> option (tree * list token) * names.
  Variable rec0 : list token -> option (tree * list token).
  Hypothesis Hrec : forall ts, fst (rec ts) = rec0 ts.

  Ltac use Hx :=
    let E := fresh "E" in
    pose proof Hx as E;
    match type of E with
    | fst ?c = _ => destruct c as [[[? ?]|] ?]; simpl in E; rewrite <- E; clear E
    end.
  Ltac useL Hx :=
    let E := fresh "E" in
    pose proof Hx as E;
    match type of E with
    | fst ?c = _ => destruct c as [[? ?] ?]; simpl in E; rewrite <- E; clear E
    end.

  Lemma cb_list_loop_fst : forall k ts, fst (cb_list_loop rec k ts) = list_loop rec0 k ts.
  Proof.
    induction k as [|k IH]; intro ts; [reflexivity|].
    destruct ts as [|[] r]; try reflexivity. simpl.
    use (Hrec r); [|reflexivity]. useL (IH l). reflexivity.
  Qed.

  Lemma cb_parse_list_fst : forall ts, fst (cb_parse_list rec ts) = parse_list rec0 ts.
  Proof.
    intro ts. unfold cb_parse_list, parse_list. use (Hrec ts); [|reflexivity].
    pose proof (cb_list_loop_fst (length l) l) as E.
    destruct (cb_list_loop rec (length l) l) as [[? ?] ?]. simpl in E. rewrite <- E. reflexivity.
  Qed.

  Lemma cb_parse_atom_fst : forall ts, fst (cb_parse_atom rec ts) = parse_atom rec0 ts.
  Proof.
    intro ts. destruct ts as [|[] r]; try reflexivity.
    - (* TName *) destruct r as [|[] r]; try reflexivity. simpl.
      pose proof (cb_parse_list_fst r) as E.
      destruct (cb_parse_list rec r) as [[[args r']|] l1]; simpl in E; rewrite <- E; [|reflexivity].
      destruct r' as [|[] r']; reflexivity.
    - (* TLP *) simpl. use (Hrec r); [|reflexivity]. destruct l as [|[] r']; reflexivity.
    - (* TLB *) simpl. pose proof (cb_parse_list_fst r) as E.
      destruct (cb_parse_list rec r) as [[[args r']|] l1]; simpl in E; rewrite <- E; [|reflexivity].
      destruct r' as [|[] r']; reflexivity.
  Qed.

  Lemma cb_pow_loop_fst : forall k ts, fst (cb_pow_loop rec k ts) = pow_loop rec0 k ts.
  Proof.
    induction k as [|k IH]; intro ts; [reflexivity|].
    destruct ts as [|[] r]; try reflexivity. simpl.
    destruct (match r with TMinus :: r0 => (true, r0) | _ => (false, r) end) as [sg r1].
    use (cb_parse_atom_fst r1); [|reflexivity]. useL (IH l). reflexivity.
  Qed.

  Lemma cb_parse_power_fst : forall ts, fst (cb_parse_power rec ts) = parse_power rec0 ts.
  Proof.
    intro ts. unfold cb_parse_power, parse_power. use (cb_parse_atom_fst ts); [|reflexivity].
    useL (cb_pow_loop_fst (length l) l). reflexivity.
  Qed.

  Lemma cb_parse_negation_fst : forall ts, fst (cb_parse_negation rec ts) = parse_negation rec0 ts.
  Proof.
    intro ts. destruct ts as [|[] r]; try apply cb_parse_power_fst.
    simpl. use (cb_parse_power_fst r); reflexivity.
  Qed.

  Lemma cb_par_loop_fst : forall k ts, fst (cb_par_loop rec k ts) = par_loop rec0 k ts.
  Proof.
    induction k as [|k IH]; intro ts; [reflexivity|].
    destruct ts as [|[] r]; try reflexivity. destruct r as [|[] r]; try reflexivity. simpl.
    use (cb_parse_negation_fst r); [|reflexivity]. useL (IH l). reflexivity.
  Qed.

  Lemma cb_parse_parallel_fst : forall ts, fst (cb_parse_parallel rec ts) = parse_parallel rec0 ts.
  Proof.
    intro ts. unfold cb_parse_parallel, parse_parallel. use (cb_parse_negation_fst ts); [|reflexivity].
    useL (cb_par_loop_fst (length l) l). reflexivity.
  Qed.

  Lemma cb_prod_loop_fst : forall k ts, fst (cb_prod_loop rec k ts) = prod_loop rec0 k ts.
  Proof.
    induction k as [|k IH]; intro ts; [reflexivity|].
    destruct ts as [|[] r]; try reflexivity; simpl;
      (use (cb_parse_parallel_fst r); [|reflexivity]); useL (IH l); reflexivity.
  Qed.

  Lemma cb_parse_product_fst : forall ts, fst (cb_parse_product rec ts) = parse_product rec0 ts.
  Proof.
    intro ts. unfold cb_parse_product, parse_product. use (cb_parse_parallel_fst ts); [|reflexivity].
    useL (cb_prod_loop_fst (length l) l). reflexivity.
  Qed.

  Lemma cb_sum_loop_fst : forall k ts, fst (cb_sum_loop rec k ts) = sum_loop rec0 k ts.
  Proof.
    induction k as [|k IH]; intro ts; [reflexivity|].
    destruct ts as [|[] r]; try reflexivity; simpl;
      (use (cb_parse_product_fst r); [|reflexivity]); useL (IH l); reflexivity.
  Qed.

  Lemma cb_parse_sum_fst : forall ts, fst (cb_parse_sum rec ts) = parse_sum rec0 ts.
  Proof.
    intro ts. unfold cb_parse_sum, parse_sum.
    destruct (match ts with TPlus :: r => (true, r) | _ => (false, ts) end) as [lead ts1].
    use (cb_parse_product_fst ts1); [|reflexivity].
    useL (cb_sum_loop_fst (length l) l). reflexivity.
  Qed.
End Tree.

Lemma cb_parse_expr_fst : forall n ts, fst (cb_parse_expr n ts) = parse_expr n ts.
Proof.
  induction n as [|n IH]; intro ts; [reflexivity|]. simpl. apply cb_parse_sum_fst. assumption.
Qed.

Theorem cb_tree : forall ts, fst (cb_parse_tokens ts) = parse_tokens ts.
Proof.
  intro ts. unfold cb_parse_tokens, parse_tokens.
  pose proof (cb_parse_expr_fst (S (length ts)) ts) as E.
  destruct (cb_parse_expr (S (length ts)) ts) as [[[t [|k r]]|] l]; cbv [fst] in E; rewrite <- E; reflexivity.
Qed.

(* ============================================================================================== *)
(* (ii) exactness of the recorded names on accepted input *)

(* a result is good at level L: if its rest may legitimately follow a level-L phrase, the names recorded so
   far are exactly (up to order) those of the tree *)
Definition good (L : nat) (r : option (tree * list token) * names) : Prop :=
  forall t rest, fst r = Some (t, rest) -> stop L rest = true -> nperm (snd r) (names_of t).

Lemma stop_closer : forall rest, closer rest = true -> stop 0 rest = true.
Proof. intros [|[] r] H; simpl in *; try discriminate; reflexivity. Qed.

Lemma nperm_snoc_fun : forall l args n,
  nperm l (names_list args) -> nperm (l +++ cb_fun n) (names_of (Fun n args)).
Proof.
  intros l args n (H1 & H2 & H3). repeat split; simpl.
  - rewrite app_nil_r. assumption.
  - apply Permutation_sym. apply Permutation_cons_app. rewrite app_nil_r. apply Permutation_sym. assumption.
  - rewrite app_nil_r. assumption.
Qed.

Section Exact.
  Variable rec : list token -> option (tree * list token) * names.
  Hypothesis Hrec : forall ts, good 0 (rec ts).

  (* --- comma-separated lists: good when followed by a closing bracket --- *)
  Lemma cb_list_loop_good : forall k ts l rest log,
    cb_list_loop rec k ts = ((l, rest), log) -> closer rest = true ->
    nperm log (names_list l) /\ stop 0 ts = true.
  Proof.
    induction k as [|k IH]; intros ts l rest log E C.
    - simpl in E. inversion E; subst. split; [apply nperm_refl|apply stop_closer; assumption].
    - destruct ts as [|[] r]; simpl in E;
        try (inversion E; subst; split; [apply nperm_refl|apply stop_closer; assumption]).
      destruct (rec r) as [[[t r']|] l1] eqn:Er.
      + destruct (cb_list_loop rec k r') as [[l' r''] l2] eqn:El. inversion E; subst.
        destruct (IH _ _ _ _ El C) as [Hl Hs]. split; [|reflexivity].
        rewrite names_list_cons. apply nperm_app; [|assumption].
        pose proof (Hrec r t r') as G. rewrite Er in G. apply G; [reflexivity|assumption].
      + inversion E; subst. discriminate.
  Qed.

  Lemma cb_parse_list_good : forall ts l rest log,
    cb_parse_list rec ts = (Some (l, rest), log) -> closer rest = true -> nperm log (names_list l).
  Proof.
    intros ts l rest log E C. unfold cb_parse_list in E.
    destruct (rec ts) as [[[t r]|] l1] eqn:Er; [|discriminate].
    destruct (cb_list_loop rec (length r) r) as [[l' r'] l2] eqn:El. inversion E; subst.
    destruct (cb_list_loop_good _ _ _ _ _ El C) as [Hl Hs].
    rewrite names_list_cons. apply nperm_app; [|assumption].
    pose proof (Hrec ts t r) as G. rewrite Er in G. apply G; [reflexivity|assumption].
  Qed.

  (* --- atoms --- *)
  Lemma cb_parse_atom_good : forall ts, good 5 (cb_parse_atom rec ts).
  Proof.
    intros ts t rest E S. destruct ts as [|k r]; [discriminate|].
    destruct k; try discriminate.
    - (* number *) simpl in *. inversion E; subst. destruct suffix; apply nperm_refl.
    - (* name *)
      destruct r as [|k2 r2].
      { simpl in *. inversion E; subst. apply nperm_refl. }
      destruct k2; try (simpl in *; inversion E; subst; apply nperm_refl).
      (* name '(' *)
      simpl in E |- *.
      destruct (cb_parse_list rec r2) as [[[args r']|] l1] eqn:El.
      + destruct r' as [|k3 r3].
        { simpl in E. inversion E; subst. discriminate. }
        destruct k3; try (simpl in E; inversion E; subst; discriminate).
        simpl in E |- *. inversion E; subst.
        apply nperm_snoc_fun. apply (cb_parse_list_good _ _ _ _ El). reflexivity.
      + simpl in E. inversion E; subst. discriminate.
    - (* '(' *)
      simpl in E |- *.
      destruct (rec r) as [[[t' r']|] l1] eqn:Er; [|discriminate].
      destruct r' as [|k3 r3]; [discriminate|].
      destruct k3; try discriminate. simpl in E |- *. inversion E; subst.
      pose proof (Hrec r t' (TRP :: rest)) as G. rewrite Er in G. apply G; reflexivity.
    - (* '[' *)
      simpl in E |- *.
      destruct (cb_parse_list rec r) as [[[items r']|] l1] eqn:El; [|discriminate].
      destruct r' as [|k3 r3]; [discriminate|].
      destruct k3; try discriminate. simpl in E |- *. inversion E; subst.
      apply (cb_parse_list_good _ _ _ _ El). reflexivity.
  Qed.

  Ltac at_good H E :=
    match type of E with
    | ?f ?x = (Some (?t, ?r), ?l) =>
        let G := fresh "G" in pose proof (H x t r) as G; rewrite E in G; simpl in G
    end.

  (* --- power --- *)
  Lemma cb_pow_loop_good : forall k ts l rest log,
    cb_pow_loop rec k ts = ((l, rest), log) -> stop 4 rest = true ->
    nperm log (names_pairs l) /\ stop 5 ts = true.
  Proof.
    induction k as [|k IH]; intros ts l rest log E S.
    - simpl in E. inversion E; subst. split; [apply nperm_refl|apply (stop_mono 4); [lia|assumption]].
    - destruct ts as [|[] r]; simpl in E;
        try (inversion E; subst; split; [apply nperm_refl|apply (stop_mono 4); [lia|assumption]]).
      destruct (match r with TMinus :: r0 => (true, r0) | _ => (false, r) end) as [sg r1].
      destruct (cb_parse_atom rec r1) as [[[a r2]|] l1] eqn:Ea.
      + destruct (cb_pow_loop rec k r2) as [[l' r3] l2] eqn:El. inversion E; subst.
        destruct (IH _ _ _ _ El S) as [Hl Hs]. split; [|reflexivity].
        rewrite names_pairs_cons. apply nperm_app; [|assumption].
        at_good cb_parse_atom_good Ea. apply G; [reflexivity|assumption].
      + inversion E; subst. discriminate.
  Qed.

  Lemma cb_parse_power_good : forall ts, good 4 (cb_parse_power rec ts).
  Proof.
    intros ts t rest E S. unfold cb_parse_power in *.
    destruct (cb_parse_atom rec ts) as [[[a r]|] l1] eqn:Ea; [|discriminate].
    destruct (cb_pow_loop rec (length r) r) as [[l r'] l2] eqn:El. simpl in E |- *. inversion E; subst.
    destruct (cb_pow_loop_good _ _ _ _ _ El S) as [Hl Hs].
    rewrite names_mk_pow. apply nperm_app; [|assumption].
    at_good cb_parse_atom_good Ea. apply G; [reflexivity|assumption].
  Qed.

  (* --- negation --- *)
  Lemma cb_parse_negation_good : forall ts, good 4 (cb_parse_negation rec ts).
  Proof.
    intros ts t rest E S.
    assert (D : (exists r, ts = TMinus :: r) \/ cb_parse_negation rec ts = cb_parse_power rec ts).
    { destruct ts as [|[] r]; try (right; reflexivity). left; eauto. }
    destruct D as [[r ->]|D].
    - simpl in E |- *. destruct (cb_parse_power rec r) as [[[p r']|] l1] eqn:Ep; [|discriminate].
      simpl in E |- *. inversion E; subst.
      at_good cb_parse_power_good Ep. apply G; [reflexivity|assumption].
    - rewrite D in *. apply (cb_parse_power_good ts t rest E S).
  Qed.

  (* --- parallel --- *)
  Lemma cb_par_loop_good : forall k ts l rest log,
    cb_par_loop rec k ts = ((l, rest), log) -> stop 2 rest = true ->
    nperm log (names_list l) /\ stop 4 ts = true.
  Proof.
    induction k as [|k IH]; intros ts l rest log E S.
    - simpl in E. inversion E; subst. split; [apply nperm_refl|apply (stop_mono 2); [lia|assumption]].
    - destruct ts as [|[] r]; simpl in E;
        try (inversion E; subst; split; [apply nperm_refl|apply (stop_mono 2); [lia|assumption]]).
      destruct r as [|[] r]; try (inversion E; subst; discriminate).
      destruct (cb_parse_negation rec r) as [[[a r2]|] l1] eqn:Ea.
      + destruct (cb_par_loop rec k r2) as [[l' r3] l2] eqn:El. inversion E; subst.
        destruct (IH _ _ _ _ El S) as [Hl Hs]. split; [|reflexivity].
        rewrite names_list_cons. apply nperm_app; [|assumption].
        at_good cb_parse_negation_good Ea. apply G; [reflexivity|assumption].
      + inversion E; subst. discriminate.
  Qed.

  Lemma cb_parse_parallel_good : forall ts, good 2 (cb_parse_parallel rec ts).
  Proof.
    intros ts t rest E S. unfold cb_parse_parallel in *.
    destruct (cb_parse_negation rec ts) as [[[a r]|] l1] eqn:Ea; [|discriminate].
    destruct (cb_par_loop rec (length r) r) as [[l r'] l2] eqn:El. simpl in E |- *. inversion E; subst.
    destruct (cb_par_loop_good _ _ _ _ _ El S) as [Hl Hs].
    rewrite names_mk_par. apply nperm_app; [|assumption].
    at_good cb_parse_negation_good Ea. apply G; [reflexivity|assumption].
  Qed.

  (* --- product --- *)
  Lemma cb_prod_loop_good : forall k ts l rest log,
    cb_prod_loop rec k ts = ((l, rest), log) -> stop 1 rest = true ->
    nperm log (names_pairs l) /\ stop 2 ts = true.
  Proof.
    induction k as [|k IH]; intros ts l rest log E S.
    - simpl in E. inversion E; subst. split; [apply nperm_refl|apply (stop_mono 1); [lia|assumption]].
    - destruct ts as [|[] r]; simpl in E;
        try (inversion E; subst; split; [apply nperm_refl|apply (stop_mono 1); [lia|assumption]]);
        (destruct (cb_parse_parallel rec r) as [[[a r2]|] l1] eqn:Ea;
         [ destruct (cb_prod_loop rec k r2) as [[l' r3] l2] eqn:El; inversion E; subst;
           destruct (IH _ _ _ _ El S) as [Hl Hs]; split; [|reflexivity];
           rewrite names_pairs_cons; apply nperm_app; [|assumption];
           at_good cb_parse_parallel_good Ea; apply G; [reflexivity|assumption]
         | inversion E; subst; discriminate ]).
  Qed.

  Lemma cb_parse_product_good : forall ts, good 1 (cb_parse_product rec ts).
  Proof.
    intros ts t rest E S. unfold cb_parse_product in *.
    destruct (cb_parse_parallel rec ts) as [[[a r]|] l1] eqn:Ea; [|discriminate].
    destruct (cb_prod_loop rec (length r) r) as [[l r'] l2] eqn:El. simpl in E |- *. inversion E; subst.
    destruct (cb_prod_loop_good _ _ _ _ _ El S) as [Hl Hs].
    rewrite names_mk_prod. apply nperm_app; [|assumption].
    at_good cb_parse_parallel_good Ea. apply G; [reflexivity|assumption].
  Qed.

  (* --- sum --- *)
  Lemma cb_sum_loop_good : forall k ts l rest log,
    cb_sum_loop rec k ts = ((l, rest), log) -> stop 0 rest = true ->
    nperm log (names_pairs l) /\ stop 1 ts = true.
  Proof.
    induction k as [|k IH]; intros ts l rest log E S.
    - simpl in E. inversion E; subst. split; [apply nperm_refl|apply (stop_mono 0); [lia|assumption]].
    - destruct ts as [|[] r]; simpl in E;
        try (inversion E; subst; split; [apply nperm_refl|apply (stop_mono 0); [lia|assumption]]);
        (destruct (cb_parse_product rec r) as [[[a r2]|] l1] eqn:Ea;
         [ destruct (cb_sum_loop rec k r2) as [[l' r3] l2] eqn:El; inversion E; subst;
           destruct (IH _ _ _ _ El S) as [Hl Hs]; split; [|reflexivity];
           rewrite names_pairs_cons; apply nperm_app; [|assumption];
           at_good cb_parse_product_good Ea; apply G; [reflexivity|assumption]
         | inversion E; subst; discriminate ]).
  Qed.

  Lemma cb_parse_sum_good : forall ts, good 0 (cb_parse_sum rec ts).
  Proof.
    intros ts t rest E S. unfold cb_parse_sum in *.
    destruct (match ts with TPlus :: r => (true, r) | _ => (false, ts) end) as [lead ts1].
    destruct (cb_parse_product rec ts1) as [[[a r]|] l1] eqn:Ea; [|discriminate].
    destruct (cb_sum_loop rec (length r) r) as [[l r'] l2] eqn:El. simpl in E |- *. inversion E; subst.
    destruct (cb_sum_loop_good _ _ _ _ _ El S) as [Hl Hs].
    rewrite names_mk_sum. apply nperm_app; [|assumption].
    at_good cb_parse_product_good Ea. apply G; [reflexivity|assumption].
  Qed.
End Exact.

Lemma cb_parse_expr_good : forall n ts, good 0 (cb_parse_expr n ts).
Proof.
  induction n as [|n IH]; intro ts.
  - intros t rest E. discriminate.
  - simpl. apply cb_parse_sum_good. assumption.
Qed.

(* every callback that fired while the whole input was being accepted belongs to the accepted tree,
   and every occurrence in the tree fired exactly once *)
Theorem cb_exact : forall ts t log, cb_parse_tokens ts = (Some t, log) -> nperm log (names_of t).
Proof.
  intros ts t log E. unfold cb_parse_tokens in E.
  destruct (cb_parse_expr (S (length ts)) ts) as [[[t' rest]|] l] eqn:Ee; [|discriminate].
  destruct rest; [|discriminate]. inversion E; subst.
  pose proof (cb_parse_expr_good (S (length ts)) ts t []) as G. rewrite Ee in G. apply G; reflexivity.
Qed.

Corollary cb_exact_parse : forall ts t, parse_tokens ts = Some t ->
  exists log, cb_parse_tokens ts = (Some t, log) /\ nperm log (names_of t).
Proof.
  intros ts t H. pose proof (cb_tree ts) as E. rewrite H in E.
  destruct (cb_parse_tokens ts) as [o log] eqn:Ec. simpl in E. subst o.
  exists log. split; [reflexivity|]. apply (cb_exact ts). assumption.
Qed.

(* set-level consequences *)
Lemma nperm_in_vars : forall a b x, nperm a b -> (In x (n_vars a) <-> In x (n_vars b)).
Proof. intros a b x (H & _ & _). split; apply Permutation_in; [|apply Permutation_sym]; assumption. Qed.
Lemma nperm_in_funcs : forall a b x, nperm a b -> (In x (n_funcs a) <-> In x (n_funcs b)).
Proof. intros a b x (_ & H & _). split; apply Permutation_in; [|apply Permutation_sym]; assumption. Qed.
Lemma nperm_in_sufs : forall a b x, nperm a b -> (In x (n_sufs a) <-> In x (n_sufs b)).
Proof. intros a b x (_ & _ & H). split; apply Permutation_in; [|apply Permutation_sym]; assumption. Qed.
