(* ParserStateBr.v -- the bracket pre-pass never rejects a string whose token stream is the text of a tree.

   BracketValidator runs on the characters (over ( ) [ ] { }), the grammar on tokens.  If the lexer turns a
   string into tokens, the characters inside number and name tokens are bracket-neutral (a name may contain
   _{..} and ^{..}, each opened and closed inside the name), so the character-level stack machine behaves like
   the token-level one; and the token text of any tree is balanced.  Hence
       lex k = Some (print t)  ->  check_brackets k = None,
   which removes the bracket hypothesis from names_exact. *)
From Coq Require Import ZArith List Bool Lia Arith.
From Verif.Model Require Import Result Lexer Parser.
From Verif.Proofs Require Import ParserRoundTrip.
Import ListNotations.
Local Open Scope Z_scope.

(* ---------- the stack machine on tokens ---------- *)
Definition close_tok (o : Z) (stack : list Z) (k : list Z -> option bracket_error) : option bracket_error :=
  match stack with
  | [] => Some CloseWithoutOpen
  | o' :: st => if o' =? o then k st else Some WrongCloser
  end.

Fixpoint tbrackets (stack : list Z) (ts : list token) : option bracket_error :=
  match ts with
  | [] => match stack with [] => None | _ => Some OpenWithoutClose end
  | TLP :: r => tbrackets (40 :: stack) r
  | TLB :: r => tbrackets (91 :: stack) r
  | TRP :: r => close_tok 40 stack (fun st => tbrackets st r)
  | TRB :: r => close_tok 91 stack (fun st => tbrackets st r)
  | _ :: r => tbrackets stack r
  end.

(* ---------- bracket-neutral text ---------- *)
Definition nb (c : Z) : bool := negb (is_opener c) && match opener_of c with None => true | Some _ => false end.

Definition neutral (p : str) : Prop := forall stack r, brackets stack (p ++ r) = brackets stack r.

Lemma neutral_nil : neutral [].
Proof. intros stack r. reflexivity. Qed.

Lemma neutral_app : forall p q, neutral p -> neutral q -> neutral (p ++ q).
Proof. intros p q Hp Hq stack r. rewrite <- app_assoc, Hp, Hq. reflexivity. Qed.

Lemma neutral_char : forall c, nb c = true -> neutral [c].
Proof.
  intros c H stack r. unfold nb in H. apply andb_true_iff in H. destruct H as [H1 H2].
  simpl. destruct (is_opener c); [discriminate|]. destruct (opener_of c); [discriminate|reflexivity].
Qed.

Lemma neutral_nb : forall p, forallb nb p = true -> neutral p.
Proof.
  induction p as [|c p IH]; intro H; [apply neutral_nil|].
  simpl in H. apply andb_true_iff in H. destruct H as [H1 H2].
  change (c :: p) with ([c] ++ p). apply neutral_app; [apply neutral_char; assumption|apply IH; assumption].
Qed.

(* character classes contain no brackets *)
Lemma nb_of : forall (f : Z -> bool), (forall c, f c = true -> nb c = true) ->
  forall p, forallb f p = true -> forallb nb p = true.
Proof.
  intros f Hf p. induction p as [|c p IH]; simpl; intro H; [reflexivity|].
  apply andb_true_iff in H. destruct H as [H1 H2]. rewrite (Hf c H1), (IH H2). reflexivity.
Qed.

Ltac nb_range :=
  intros c H; unfold nb, is_opener, opener_of;
  repeat match goal with
         | |- context [?a =? ?b] => destruct (Z.eqb_spec a b); subst; simpl; try reflexivity; try (exfalso; revert H; vm_compute; congruence)
         end; try reflexivity.

Lemma nb_digit : forall c, is_digit c = true -> nb c = true.
Proof.
  intros c H. unfold is_digit in H. apply andb_true_iff in H. destruct H as [H1 H2].
  apply Z.leb_le in H1, H2. unfold nb, is_opener, opener_of.
  repeat match goal with |- context [?a =? ?b] => destruct (Z.eqb_spec a b); [lia|] end. reflexivity.
Qed.

Lemma nb_alpha : forall c, is_alpha c = true -> nb c = true.
Proof.
  intros c H. unfold is_alpha, is_upper, is_lower in H.
  assert (R : 65 <= c <= 90 \/ 97 <= c <= 122).
  { apply orb_true_iff in H. destruct H as [H|H]; apply andb_true_iff in H; destruct H as [H1 H2];
      apply Z.leb_le in H1, H2; lia. }
  unfold nb, is_opener, opener_of.
  repeat match goal with |- context [?a =? ?b] => destruct (Z.eqb_spec a b); [lia|] end. reflexivity.
Qed.

Lemma nb_alnum : forall c, is_alnum c = true -> nb c = true.
Proof.
  intros c H. unfold is_alnum in H. apply orb_true_iff in H. destruct H; [apply nb_alpha|apply nb_digit]; assumption.
Qed.

Lemma nb_const : forall c k, c = k -> nb k = true -> nb c = true.
Proof. intros; subst; assumption. Qed.

Lemma nb_ws : forall c, is_ws c = true -> nb c = true.
Proof.
  intros c H. unfold is_ws in H. repeat (apply orb_true_iff in H; destruct H as [H|H]);
    apply Z.eqb_eq in H; subst; reflexivity.
Qed.

Lemma nb_suffix_char : forall c, is_suffix_char c = true -> nb c = true.
Proof.
  intros c H. unfold is_suffix_char in H. apply orb_true_iff in H. destruct H as [H|H]; [apply nb_alpha; assumption|].
  apply Z.eqb_eq in H; subst; reflexivity.
Qed.

Lemma nb_sub_char : forall c, is_sub_char c = true -> nb c = true.
Proof.
  intros c H. unfold is_sub_char in H. apply orb_true_iff in H. destruct H as [H|H]; [apply nb_alnum; assumption|].
  apply Z.eqb_eq in H; subst; reflexivity.
Qed.

Lemma nb_prime : forall c, is_prime c = true -> nb c = true.
Proof. intros c H. unfold is_prime in H. apply Z.eqb_eq in H; subst; reflexivity. Qed.

(* ---------- span ---------- *)
Lemma span_spec : forall f s a b, span f s = (a, b) -> s = a ++ b /\ forallb f a = true.
Proof.
  intros f s. induction s as [|c s IH]; intros a b H; simpl in H.
  - inversion H; subst. split; reflexivity.
  - destruct (f c) eqn:E.
    + destruct (span f s) as [a' b'] eqn:Es. inversion H; subst.
      destruct (IH a' b eq_refl) as [H1 H2]. split; [simpl; congruence|simpl; rewrite E, H2; reflexivity].
    + inversion H; subst. split; reflexivity.
Qed.

(* a prefix was consumed and it is neutral *)
Definition eats (s r : str) : Prop := exists p, s = p ++ r /\ neutral p.

Lemma eats_refl : forall s, eats s s.
Proof. intro s. exists []. split; [reflexivity|apply neutral_nil]. Qed.

Lemma eats_trans : forall a b c, eats a b -> eats b c -> eats a c.
Proof.
  intros a b c (p & -> & Hp) (q & -> & Hq). exists (p ++ q). split; [rewrite app_assoc; reflexivity|].
  apply neutral_app; assumption.
Qed.

Lemma eats_brackets : forall s r stack, eats s r -> brackets stack s = brackets stack r.
Proof. intros s r stack (p & -> & Hp). apply Hp. Qed.

Lemma eats_span : forall f s a b, (forall c, f c = true -> nb c = true) -> span f s = (a, b) -> eats s b.
Proof.
  intros f s a b Hf H. destruct (span_spec f s a b H) as [-> Ha].
  exists a. split; [reflexivity|]. apply neutral_nb. apply (nb_of f Hf). assumption.
Qed.

Lemma eats_cons : forall c s r, nb c = true -> eats s r -> eats (c :: s) r.
Proof.
  intros c s r Hc (p & -> & Hp). exists (c :: p). split; [reflexivity|].
  change (c :: p) with ([c] ++ p). apply neutral_app; [apply neutral_char; assumption|assumption].
Qed.

Lemma eats_skip_ws : forall s, eats s (skip_ws s).
Proof.
  intro s. unfold skip_ws. destruct (span is_ws s) as [a b] eqn:E. simpl.
  apply (eats_span is_ws s a b nb_ws E).
Qed.

(* ---------- numerals ---------- *)
Lemma eats_mantissa : forall s m r, lex_mantissa s = Some (m, r) -> eats s r.
Proof.
  intros s m r H. unfold lex_mantissa in H.
  destruct (span is_digit s) as [ip r1] eqn:E1.
  pose proof (eats_span is_digit s ip r1 nb_digit E1) as H1.
  destruct ip as [|d ip].
  - destruct r1 as [|c r2]; [discriminate|]. destruct (c =? ch_dot) eqn:Ec; [|discriminate].
    destruct (span is_digit r2) as [fp r3] eqn:E2. destruct fp; [discriminate|]. inversion H; subst.
    eapply eats_trans; [exact H1|]. apply eats_cons; [apply Z.eqb_eq in Ec; subst; reflexivity|].
    apply (eats_span is_digit r2 _ _ nb_digit E2).
  - destruct r1 as [|c r2]; [inversion H; subst; assumption|].
    destruct (c =? ch_dot) eqn:Ec.
    + destruct (span is_digit r2) as [fp r3] eqn:E2. inversion H; subst.
      eapply eats_trans; [exact H1|]. apply eats_cons; [apply Z.eqb_eq in Ec; subst; reflexivity|].
      apply (eats_span is_digit r2 _ _ nb_digit E2).
    + inversion H; subst. assumption.
Qed.

Lemma eats_exponent : forall s e r, lex_exponent s = (e, r) -> eats s r.
Proof.
  intros s e r H. unfold lex_exponent in H. destruct s as [|c s']; [inversion H; subst; apply eats_refl|].
  destruct ((c =? ch_e) || (c =? ch_E)) eqn:Ec; [|inversion H; subst; apply eats_refl].
  assert (Hc : nb c = true).
  { apply orb_true_iff in Ec. destruct Ec as [Ec|Ec]; apply Z.eqb_eq in Ec; subst; reflexivity. }
  destruct s' as [|d r'].
  - simpl in H. inversion H; subst. apply eats_refl.
  - destruct (d =? ch_plus) eqn:Ed1.
    + destruct (span is_digit r') as [ds r2] eqn:E2. destruct ds; inversion H; subst; [apply eats_refl|].
      apply eats_cons; [assumption|]. apply eats_cons; [apply Z.eqb_eq in Ed1; subst; reflexivity|].
      apply (eats_span is_digit r' _ _ nb_digit E2).
    + destruct ((d =? ch_minus) || (d =? ch_emdash)) eqn:Ed2.
      * destruct (span is_digit r') as [ds r2] eqn:E2. destruct ds; inversion H; subst; [apply eats_refl|].
        apply eats_cons; [assumption|].
        apply eats_cons; [apply orb_true_iff in Ed2; destruct Ed2 as [Ed2|Ed2]; apply Z.eqb_eq in Ed2; subst; reflexivity|].
        apply (eats_span is_digit r' _ _ nb_digit E2).
      * destruct (span is_digit (d :: r')) as [ds r2] eqn:E2. destruct ds; inversion H; subst; [apply eats_refl|].
        apply eats_cons; [assumption|]. apply (eats_span is_digit (d :: r') _ _ nb_digit E2).
Qed.

Lemma eats_suffix : forall s u r, lex_suffix s = (u, r) -> eats s r.
Proof.
  intros s u r H. unfold lex_suffix in H.
  destruct (span is_suffix_char (skip_ws s)) as [a b] eqn:E. destruct a; inversion H; subst; [apply eats_refl|].
  eapply eats_trans; [apply eats_skip_ws|]. apply (eats_span is_suffix_char _ _ _ nb_suffix_char E).
Qed.

Lemma eats_number : forall s t r, lex_number s = Some (t, r) -> eats s r.
Proof.
  intros s t r H. unfold lex_number in H.
  destruct (lex_mantissa s) as [[m r1]|] eqn:Em; [|discriminate].
  destruct (lex_exponent r1) as [e r2] eqn:Ee. destruct (lex_suffix r2) as [suf r3] eqn:Es.
  inversion H; subst.
  eapply eats_trans; [apply (eats_mantissa _ _ _ Em)|].
  eapply eats_trans; [apply (eats_exponent _ _ _ Ee)|apply (eats_suffix _ _ _ Es)].
Qed.

(* ---------- names ---------- *)
Lemma brackets_open : forall c stack r, is_opener c = true -> brackets stack (c :: r) = brackets (c :: stack) r.
Proof. intros c stack r H. simpl. rewrite H. reflexivity. Qed.

Lemma brackets_close : forall c o stack r, is_opener c = false -> opener_of c = Some o ->
  brackets (o :: stack) (c :: r) = brackets stack r.
Proof. intros c o stack r H1 H2. simpl. rewrite H1, H2, Z.eqb_refl. reflexivity. Qed.

Lemma eats_index : forall lead s x r, nb lead = true -> lex_index lead s = (x, r) -> eats s r.
Proof.
  intros lead s x r Hl H. unfold lex_index in H.
  destruct s as [|c [|b s']]; try (inversion H; subst; apply eats_refl).
  destruct ((c =? lead) && (b =? ch_lbrace)) eqn:Ecb; [|inversion H; subst; apply eats_refl].
  apply andb_true_iff in Ecb. destruct Ecb as [Ec Eb]. apply Z.eqb_eq in Ec, Eb. subst c b.
  set (sgr := match s' with
              | d :: r' => if d =? ch_minus then ([ch_minus], r') else ([], s')
              | [] => ([], s')
              end) in H.
  assert (Hsg : exists sg r1, sgr = (sg, r1) /\ s' = sg ++ r1 /\ forallb nb sg = true).
  { unfold sgr. destruct s' as [|d r']; [exists [], []; auto|].
    destruct (d =? ch_minus) eqn:Ed; [|exists [], (d :: r'); auto].
    apply Z.eqb_eq in Ed. subst. exists [ch_minus], r'. auto. }
  destruct Hsg as (sg & r1 & Esg & Hs' & Hnb). rewrite Esg in H.
  destruct (span is_alnum r1) as [w r2] eqn:Ew.
  destruct (span_spec _ _ _ _ Ew) as [Hr1 Hw].
  destruct w as [|w0 w]; [inversion H; subst; apply eats_refl|].
  destruct r2 as [|cl r3]; [inversion H; subst; apply eats_refl|].
  destruct (cl =? ch_rbrace) eqn:Ecl; [|inversion H; subst; apply eats_refl].
  apply Z.eqb_eq in Ecl. subst cl. inversion H; subst x r. clear H.
  exists (lead :: ch_lbrace :: sg ++ (w0 :: w) ++ [ch_rbrace]). split.
  - rewrite Hs', Hr1. simpl. repeat (rewrite <- app_assoc; simpl). reflexivity.
  - intros stack rest.
    assert (Nin : neutral (sg ++ w0 :: w)).
    { apply neutral_app; apply neutral_nb; [assumption|apply (nb_of is_alnum nb_alnum); assumption]. }
    replace ((lead :: ch_lbrace :: sg ++ (w0 :: w) ++ [ch_rbrace]) ++ rest)
      with ([lead] ++ (ch_lbrace :: ((sg ++ w0 :: w) ++ (ch_rbrace :: rest))))
      by (simpl; repeat (rewrite <- app_assoc; simpl); reflexivity).
    rewrite (neutral_char lead Hl).
    rewrite (brackets_open ch_lbrace stack _ eq_refl).
    rewrite (Nin (ch_lbrace :: stack)).
    apply (brackets_close ch_rbrace ch_lbrace stack rest); reflexivity.
Qed.

Lemma eats_name : forall s n r, lex_name s = (n, r) -> eats s r.
Proof.
  intros s n r H. unfold lex_name in H.
  destruct (span is_alnum s) as [front r1] eqn:E1.
  destruct (span is_sub_char r1) as [u r2] eqn:E2.
  pose proof (eats_span _ _ _ _ nb_alnum E1) as H1.
  pose proof (eats_span _ _ _ _ nb_sub_char E2) as H2.
  destruct (lex_index ch_us r1) as [lo ra] eqn:A. destruct (lex_index ch_caret ra) as [up rb] eqn:B.
  assert (Hi : eats r1 rb).
  { eapply eats_trans; [apply (eats_index ch_us _ _ _ eq_refl A)|apply (eats_index ch_caret _ _ _ eq_refl B)]. }
  assert (Tail : forall mid r3, eats r1 r3 ->
            (let (pr, r4) := span is_prime r3 in (front ++ mid ++ pr, r4)) = (n, r) -> eats s r).
  { intros mid r3 Hr3 Ht. destruct (span is_prime r3) as [pr r4] eqn:E4. inversion Ht; subst.
    eapply eats_trans; [exact H1|]. eapply eats_trans; [exact Hr3|]. apply (eats_span _ _ _ _ nb_prime E4). }
  destruct u as [|u0 u].
  - apply (Tail _ _ Hi H).
  - destruct r2 as [|c r2'].
    + apply (Tail _ _ H2 H).
    + destruct (c =? ch_lbrace); [apply (Tail _ _ Hi H)|apply (Tail _ _ H2 H)].
Qed.

(* ---------- the token stream ---------- *)
Lemma punct_brackets : forall c t r stack ts, punct c = Some t ->
  (forall stack', brackets stack' r = tbrackets stack' ts) ->
  brackets stack (c :: r) = tbrackets stack (t :: ts).
Proof.
  intros c t r stack ts H IH. unfold punct in H.
  repeat match type of H with
         | (if ?a =? ?b then _ else _) = _ =>
             destruct (Z.eqb_spec a b); [subst; inversion H; subst; simpl; try apply IH;
                                         destruct stack as [|o st]; try reflexivity;
                                         simpl; destruct (o =? _); try reflexivity; apply IH|]
         | (if (?a =? ?b) || (?c =? ?d) then _ else _) = _ =>
             destruct (Z.eqb_spec a b); [subst; inversion H; subst; simpl; apply IH|];
             destruct (Z.eqb_spec c d); [subst; inversion H; subst; simpl; apply IH|]; simpl in H
         end.
  discriminate.
Qed.

Lemma lex_loop_brackets : forall fuel s ts, lex_loop fuel s = Some ts ->
  forall stack, brackets stack s = tbrackets stack ts.
Proof.
  induction fuel as [|f IH]; intros s ts H stack; [discriminate|].
  simpl in H. rewrite (eats_brackets _ _ stack (eats_skip_ws s)).
  destruct (skip_ws s) as [|c r]; [inversion H; subst; reflexivity|].
  destruct (is_digit c || (c =? ch_dot)) eqn:Ed.
  - destruct (lex_number (c :: r)) as [[t r']|] eqn:En; [|discriminate].
    destruct (lex_loop f r') as [ts'|] eqn:El; [|discriminate]. inversion H; subst.
    rewrite (eats_brackets _ _ stack (eats_number _ _ _ En)).
    assert (Ht : exists x u, t = TNum x u).
    { unfold lex_number in En. destruct (lex_mantissa (c :: r)) as [[m r1]|]; [|discriminate].
      destruct (lex_exponent r1) as [e r2]. destruct (lex_suffix r2) as [u r3]. inversion En; subst. eauto. }
    destruct Ht as (x & u & ->). simpl. apply (IH _ _ El).
  - destruct (is_alpha c) eqn:Ea.
    + destruct (lex_name (c :: r)) as [n r'] eqn:En.
      destruct (lex_loop f r') as [ts'|] eqn:El; [|discriminate]. inversion H; subst.
      rewrite (eats_brackets _ _ stack (eats_name _ _ _ En)). simpl. apply (IH _ _ El).
    + destruct (punct c) as [t|] eqn:Ep; [|discriminate].
      destruct (lex_loop f r) as [ts'|] eqn:El; [|discriminate]. inversion H; subst.
      apply punct_brackets; [assumption|]. intro stack'. apply (IH _ _ El).
Qed.

Theorem lex_brackets : forall s ts, lex s = Some ts -> check_brackets s = tbrackets [] ts.
Proof. intros s ts H. apply (lex_loop_brackets _ _ _ H). Qed.

(* ---------- the token text of a tree is balanced ---------- *)
Definition tneutral (ts : list token) : Prop :=
  forall stack rest, tbrackets stack (ts ++ rest) = tbrackets stack rest.

Lemma tneutral_nil : tneutral [].
Proof. intros stack rest. reflexivity. Qed.

Lemma tneutral_app : forall a b, tneutral a -> tneutral b -> tneutral (a ++ b).
Proof. intros a b Ha Hb stack rest. rewrite <- app_assoc, Ha, Hb. reflexivity. Qed.

Definition plain (k : token) : bool :=
  match k with TLP | TRP | TLB | TRB => false | _ => true end.

Lemma tneutral_plain : forall k, plain k = true -> tneutral [k].
Proof. intros k H stack rest. destruct k; try discriminate; reflexivity. Qed.

Lemma tneutral_cons : forall k ts, plain k = true -> tneutral ts -> tneutral (k :: ts).
Proof. intros k ts Hk Ht. change (k :: ts) with ([k] ++ ts). apply tneutral_app; [apply tneutral_plain|]; assumption. Qed.

Lemma tneutral_paren : forall ts, tneutral ts -> tneutral (TLP :: ts ++ [TRP]).
Proof.
  intros ts H stack rest. simpl. rewrite <- app_assoc. rewrite (H (40 :: stack)). simpl. reflexivity.
Qed.

Lemma tneutral_bracket : forall ts, tneutral ts -> tneutral (TLB :: ts ++ [TRB]).
Proof.
  intros ts H stack rest. simpl. rewrite <- app_assoc. rewrite (H (91 :: stack)). simpl. reflexivity.
Qed.

Lemma tneutral_flat_map : forall A (f : A -> list token) l,
  Forall (fun x => tneutral (f x)) l -> tneutral (flat_map f l).
Proof.
  intros A f l H. induction H as [|x l Hx Hl IH]; simpl; [apply tneutral_nil|apply tneutral_app; assumption].
Qed.

Lemma tneutral_args : forall l, Forall (fun t => tneutral (print t)) l ->
  tneutral (match l with [] => [] | a :: r => print a ++ flat_map (fun t => TComma :: print t) r end).
Proof.
  intros l H. destruct l as [|a r]; [apply tneutral_nil|]. inversion H; subst.
  apply tneutral_app; [assumption|]. apply tneutral_flat_map.
  eapply Forall_impl; [|eassumption]. intros x Hx. apply tneutral_cons; [reflexivity|assumption].
Qed.

Lemma print_tneutral : forall t, tneutral (print t).
Proof.
  induction t using tree_ind'; simpl.
  - apply tneutral_plain. reflexivity.
  - apply tneutral_plain. reflexivity.
  - apply tneutral_cons; [reflexivity|]. apply tneutral_paren. apply tneutral_args. assumption.
  - apply tneutral_paren. assumption.
  - apply tneutral_bracket. apply tneutral_args. assumption.
  - apply tneutral_app; [assumption|]. apply tneutral_flat_map.
    eapply Forall_impl; [|eassumption]. intros [sg a] Ha. simpl in *.
    apply tneutral_cons; [reflexivity|]. apply tneutral_app; [|assumption].
    destruct sg; [apply tneutral_plain; reflexivity|apply tneutral_nil].
  - apply tneutral_cons; [reflexivity|assumption].
  - apply tneutral_app; [assumption|]. apply tneutral_flat_map.
    eapply Forall_impl; [|eassumption]. intros a Ha. simpl.
    apply tneutral_cons; [reflexivity|]. apply tneutral_cons; [reflexivity|assumption].
  - apply tneutral_app; [assumption|]. apply tneutral_flat_map.
    eapply Forall_impl; [|eassumption]. intros [o a] Ha. simpl in *.
    apply tneutral_cons; [destruct o; reflexivity|assumption].
  - apply tneutral_app; [destruct lead; [apply tneutral_plain; reflexivity|apply tneutral_nil]|].
    apply tneutral_app; [assumption|]. apply tneutral_flat_map.
    eapply Forall_impl; [|eassumption]. intros [o a] Ha. simpl in *.
    apply tneutral_cons; [destruct o; reflexivity|assumption].
Qed.

(* the pre-pass accepts every string that lexes to the token text of a tree *)
Theorem brackets_of_print : forall k t, lex k = Some (print t) -> check_brackets k = None.
Proof.
  intros k t H. rewrite (lex_brackets k _ H).
  pose proof (print_tneutral t [] []) as N. rewrite app_nil_r in N. exact N.
Qed.
