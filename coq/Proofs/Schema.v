(* Proofs/Schema.v -- lemmas about the validation interpreter Model/Schema.v (C20).
   Part 1: induction principle for the nested schema type, unfolding equations, loops, mapping theorems. *)
From Coq Require Import ZArith QArith List Bool String Lia.
From Verif.Model Require Import Result Schema.
Import ListNotations.
Open Scope list_scope.

(* ------------------------------------------------------------------------------------------------ *)
(* induction on schemas (nested through list, product and option)                                    *)
(* ------------------------------------------------------------------------------------------------ *)
Section SchemaInd.
  Variable P : schema -> Prop.
  Hypothesis HType : forall t, P (SType t).
  Hypothesis HLit : forall v, P (SLit v).
  Hypothesis HRange : forall lo hi, P (SRange lo hi).
  Hypothesis HLength : forall lo hi, P (SLength lo hi).
  Hypothesis HNotIn : forall l, P (SNotIn l).
  Hypothesis HAny : forall l, Forall P l -> P (SAny l).
  Hypothesis HAll : forall l, Forall P l -> P (SAll l).
  Hypothesis HList : forall l, Forall P l -> P (SList l).
  Hypothesis HTuple : forall l, Forall P l -> P (STuple l).
  Definition opt_P (x : option schema) : Prop := match x with Some e => P e | None => True end.
  Hypothesis HDict : forall es extra, Forall (fun e => P (de_schema e)) es -> opt_P extra -> P (SDict es extra).
  Hypothesis HWrap : forall k, P (SWrap k).
  Hypothesis HWrapAlways : P SWrapAlways.
  Hypothesis HCoerceTuple : P SCoerceTuple.
  Hypothesis HStartStop : P SStartStop.
  Hypothesis HAllUnique : P SAllUnique.
  Hypothesis HKeysStr : P SKeysStr.
  Hypothesis HCallable : P SCallable.
  Hypothesis HCallableArgs : forall n, P (SCallableArgs n).
  Hypothesis HOracle : forall id, P (SOracle id).
  Hypothesis HSingle : forall a, P a -> P (SSingleAnswer a).
  Hypothesis HFormula : forall d s, P s -> P (SFormulaExpect d s).
  Hypothesis HCoerce : forall t i p, P i -> P (SCoerceObj t i p).

  Fixpoint schema_ind' (s : schema) : P s :=
    match s with
    | SType t => HType t
    | SLit v => HLit v
    | SRange lo hi => HRange lo hi
    | SLength lo hi => HLength lo hi
    | SNotIn l => HNotIn l
    | SAny l => HAny l ((fix go (l : list schema) : Forall P l :=
                            match l with
                            | [] => Forall_nil _
                            | a :: r => Forall_cons a (schema_ind' a) (go r)
                            end) l)
    | SAll l => HAll l ((fix go (l : list schema) : Forall P l :=
                            match l with
                            | [] => Forall_nil _
                            | a :: r => Forall_cons a (schema_ind' a) (go r)
                            end) l)
    | SList l => HList l ((fix go (l : list schema) : Forall P l :=
                            match l with
                            | [] => Forall_nil _
                            | a :: r => Forall_cons a (schema_ind' a) (go r)
                            end) l)
    | STuple l => HTuple l ((fix go (l : list schema) : Forall P l :=
                            match l with
                            | [] => Forall_nil _
                            | a :: r => Forall_cons a (schema_ind' a) (go r)
                            end) l)
    | SDict es extra =>
        HDict es extra
          ((fix go (l : list dentry) : Forall (fun e => P (de_schema e)) l :=
              match l with
              | [] => Forall_nil _
              | e :: r => Forall_cons e (match e as e0 return P (de_schema e0) with (_, s') => schema_ind' s' end) (go r)
              end) es)
          (match extra as x return opt_P x with
           | Some e => schema_ind' e
           | None => I
           end)
    | SWrap k => HWrap k
    | SWrapAlways => HWrapAlways
    | SCoerceTuple => HCoerceTuple
    | SStartStop => HStartStop
    | SAllUnique => HAllUnique
    | SKeysStr => HKeysStr
    | SCallable => HCallable
    | SCallableArgs n => HCallableArgs n
    | SOracle id => HOracle id
    | SSingleAnswer a => HSingle a (schema_ind' a)
    | SFormulaExpect d s' => HFormula d s' (schema_ind' s')
    | SCoerceObj t i p => HCoerce t i p (schema_ind' i)
    end.
End SchemaInd.

(* ------------------------------------------------------------------------------------------------ *)
(* the loops of the interpreter as stand-alone functions, and the unfolding equations                *)
(* ------------------------------------------------------------------------------------------------ *)
Fixpoint any_loop (f : schema -> outcome pyval) (l : list schema) : outcome pyval :=
  match l with
  | [] => Raise EInvalid
  | a :: r => match f a with Raise EInvalid => any_loop f r | o => o end
  end.

Fixpoint all_loop (f : schema -> pyval -> outcome pyval) (l : list schema) (x : pyval) : outcome pyval :=
  match l with
  | [] => Ret x
  | a :: r => match f a x with Ret y => all_loop f r y | Raise e => Raise e end
  end.

Fixpoint look_loop (f : schema -> pyval -> outcome pyval) (extra : option schema) (l : list dentry) (k x : pyval)
  : option (outcome pyval) :=
  match l with
  | [] => match extra with Some e => Some (f e x) | None => None end
  | (k', _, _, s') :: r => if key_is k k' then Some (f s' x) else look_loop f extra r k x
  end.

(* the schema that applies to a key *)
Fixpoint lookup_schema (extra : option schema) (l : list dentry) (k : pyval) : option schema :=
  match l with
  | [] => extra
  | e :: r => if key_is k (de_key e) then Some (de_schema e) else lookup_schema extra r k
  end.

Lemma look_loop_lookup : forall f extra l k x,
  look_loop f extra l k x = option_map (fun s => f s x) (lookup_schema extra l k).
Proof.
  intros f extra l k x. induction l as [|[[[k' rq] df] s'] r IH]; simpl.
  - destruct extra; reflexivity.
  - unfold de_key, de_schema. simpl. destruct (key_is k k'); [reflexivity | exact IH].
Qed.

Section Unfold.
  Variable orc : Z -> pyval -> outcome pyval.
  Notation V := (validate orc).

  Lemma validate_SAny : forall alts v, V (SAny alts) v = any_loop (fun a => V a v) alts.
  Proof.
    intros alts v. simpl. induction alts as [|a r IH]; [reflexivity|].
    simpl. destruct (V a v) as [y|[]]; try reflexivity. exact IH.
  Qed.

  Lemma validate_SAll : forall steps v, V (SAll steps) v = all_loop V steps v.
  Proof.
    intros steps v. simpl. revert v. induction steps as [|a r IH]; intro v; [reflexivity|].
    simpl. destruct (V a v) as [y|e]; [apply IH | reflexivity].
  Qed.

  Lemma any_fix_eq : forall alts x,
    (fix go (l : list schema) : outcome pyval :=
       match l with
       | [] => Raise EInvalid
       | a :: r => match V a x with Raise EInvalid => go r | o => o end
       end) alts = V (SAny alts) x.
  Proof. intros. reflexivity. Qed.

  Definition seq_result (wrap : list pyval -> pyval) (alts : list schema) (v : pyval) (xs : list pyval) : outcome pyval :=
    match alts with
    | [] => match xs with [] => Ret v | _ => Raise EInvalid end
    | _ => match seq_loop (V (SAny alts)) xs with Ret ys => Ret (wrap ys) | Raise e => Raise e end
    end.

  Lemma validate_SList : forall alts v,
    V (SList alts) v = match v with PList xs => seq_result PList alts v xs | _ => Raise EInvalid end.
  Proof. intros alts v. destruct v; try reflexivity; destruct alts; reflexivity. Qed.

  Lemma validate_STuple : forall alts v,
    V (STuple alts) v = match v with PTuple xs => seq_result PTuple alts v xs | _ => Raise EInvalid end.
  Proof. intros alts v. destruct v; try reflexivity; destruct alts; reflexivity. Qed.

  Definition dict_fn (es : list dentry) (extra : option schema) : pyval -> pyval -> option (outcome pyval) :=
    fun k x => option_map (fun s => V s x) (lookup_schema extra es k).

  Lemma dict_loop_ext : forall f g items, (forall k x, f k x = g k x) -> dict_loop f items = dict_loop g items.
  Proof.
    intros f g items H. induction items as [|[k x] r IH]; [reflexivity|].
    simpl. rewrite H, IH. reflexivity.
  Qed.

  Lemma validate_SDict : forall es extra v,
    V (SDict es extra) v =
    match v with
    | PDict items =>
        match dict_loop (dict_fn es extra) (items ++ defaults_for es items) with
        | Ret out => if required_present es items then Ret (PDict out) else Raise EInvalid
        | Raise e => Raise e
        end
    | _ => Raise EInvalid
    end.
  Proof.
    intros es extra v. destruct v; try reflexivity. simpl.
    erewrite dict_loop_ext; [reflexivity|].
    intros k x. unfold dict_fn. rewrite <- look_loop_lookup.
    induction es as [|[[[k' rq] df] s'] r IH]; simpl; [reflexivity|].
    destruct (key_is k k'); [reflexivity | exact IH].
  Qed.
End Unfold.

(* ------------------------------------------------------------------------------------------------ *)
(* loops                                                                                             *)
(* ------------------------------------------------------------------------------------------------ *)
Lemma Forall2_in_r : forall {A B : Type} (R : A -> B -> Prop) l l' y,
  Forall2 R l l' -> In y l' -> exists x, In x l /\ R x y.
Proof.
  intros A B R l l' y H. induction H as [|x y' l l' Hr _ IH]; intro Hin; [contradiction|].
  destruct Hin as [->|Hin]; [exists x; split; [left; reflexivity | exact Hr]|].
  destruct (IH Hin) as [x' [Hx HR]]. exists x'. split; [right; exact Hx | exact HR].
Qed.

Lemma Forall2_in_l : forall {A B : Type} (R : A -> B -> Prop) l l' x,
  Forall2 R l l' -> In x l -> exists y, In y l' /\ R x y.
Proof.
  intros A B R l l' x H. induction H as [|x' y l l' Hr _ IH]; intro Hin; [contradiction|].
  destruct Hin as [->|Hin]; [exists y; split; [left; reflexivity | exact Hr]|].
  destruct (IH Hin) as [y' [Hy HR]]. exists y'. split; [right; exact Hy | exact HR].
Qed.

Lemma seq_loop_ret : forall f xs ys,
  seq_loop f xs = Ret ys <-> Forall2 (fun x y => f x = Ret y) xs ys.
Proof.
  intros f xs. induction xs as [|x r IH]; intro ys; simpl.
  - split; intro H; [inversion H; constructor | inversion H; reflexivity].
  - destruct (f x) as [y|e] eqn:E.
    + destruct (seq_loop f r) as [zs|e'] eqn:E'.
      * split; intro H.
        -- inversion H; subst. constructor; [exact E | apply IH; reflexivity].
        -- inversion H; subst. rewrite E in H2. inversion H2; subst.
           apply IH in H4. inversion H4; subst. reflexivity.
      * split; intro H; [discriminate|].
        inversion H; subst. apply IH in H4. discriminate.
    + split; intro H.
      * destruct e; try discriminate. destruct (seq_loop f r); discriminate.
      * inversion H; subst. rewrite E in H2. discriminate.
Qed.

Lemma dict_loop_ret : forall f items out,
  dict_loop f items = Ret out <->
  Forall2 (fun kx ky => fst kx = fst ky /\ f (fst kx) (snd kx) = Some (Ret (snd ky))) items out.
Proof.
  intros f items. induction items as [|[k x] r IH]; intro out; simpl.
  - split; intro H; [inversion H; constructor | inversion H; reflexivity].
  - destruct (f k x) as [[y|e]|] eqn:E.
    + destruct (dict_loop f r) as [o|e'] eqn:E'.
      * split; intro H.
        -- inversion H; subst. constructor; [simpl; split; [reflexivity | exact E] | apply IH; reflexivity].
        -- inversion H; subst. destruct y0 as [k0 y0]. simpl in H2. destruct H2 as [Hk Hf]. subst k0.
           rewrite E in Hf. inversion Hf; subst. apply IH in H4. inversion H4; subst. reflexivity.
      * split; intro H; [discriminate|]. inversion H; subst. apply IH in H4. discriminate.
    + split; intro H.
      * destruct e; try discriminate; destruct (dict_loop f r); discriminate.
      * inversion H; subst. destruct H2 as [_ Hf]. simpl in Hf. rewrite E in Hf. discriminate.
    + split; intro H.
      * destruct (dict_loop f r); discriminate.
      * inversion H; subst. destruct H2 as [_ Hf]. simpl in Hf. rewrite E in Hf. discriminate.
Qed.

Lemma dict_loop_keys : forall f items out, dict_loop f items = Ret out -> keys_of out = keys_of items.
Proof.
  intros f items out H. apply dict_loop_ret in H. unfold keys_of.
  induction H as [|[k x] [k' y] r o [Hk _] _ IH]; [reflexivity|]. simpl in *. subst. f_equal. exact IH.
Qed.

(* ------------------------------------------------------------------------------------------------ *)
(* keys                                                                                              *)
(* ------------------------------------------------------------------------------------------------ *)
Lemma has_key_keys : forall s a b, keys_of a = keys_of b -> has_key s a = has_key s b.
Proof.
  intros s a. unfold has_key, keys_of. induction a as [|[k x] a IH]; intros [|[k' y] b] H; simpl in *; try discriminate.
  - reflexivity.
  - inversion H; subst. f_equal. apply IH. assumption.
Qed.

Lemma has_key_app : forall s a b, has_key s (a ++ b) = has_key s a || has_key s b.
Proof. intros. unfold has_key. apply existsb_app. Qed.

Lemma lookup_schema_declared : forall es k s,
  lookup_schema None es k = Some s -> exists e, In e es /\ key_is k (de_key e) = true /\ de_schema e = s.
Proof.
  induction es as [|e r IH]; intros k s H; simpl in H; [discriminate|].
  destruct (key_is k (de_key e)) eqn:K.
  - inversion H; subst. exists e. split; [left; reflexivity | split; [exact K | reflexivity]].
  - destruct (IH _ _ H) as [e' [Hin [Hk Hs]]]. exists e'. split; [right; exact Hin | split; assumption].
Qed.

Lemma lookup_schema_in : forall extra es k s,
  lookup_schema extra es k = Some s -> (exists e, In e es /\ de_schema e = s) \/ extra = Some s.
Proof.
  induction es as [|e r IH]; intros k s H; simpl in H; [right; exact H|].
  destruct (key_is k (de_key e)).
  - inversion H; subst. left. exists e. split; [left; reflexivity | reflexivity].
  - destruct (IH _ _ H) as [[e' [Hin Hs]]|Hx]; [left; exists e'; split; [right; exact Hin | exact Hs] | right; exact Hx].
Qed.

Lemma key_is_str : forall k s, key_is k s = true -> k = PStr s.
Proof.
  intros k s H. destruct k; simpl in H; try discriminate. apply str_eqb_eq in H. subst. reflexivity.
Qed.

Lemma key_is_refl : forall s, key_is (PStr s) s = true.
Proof. intro s. simpl. apply str_eqb_eq. reflexivity. Qed.

Lemma has_key_in : forall s items, has_key s items = true <-> In (PStr s) (keys_of items).
Proof.
  intros s items. unfold has_key, keys_of. rewrite existsb_exists. split.
  - intros [[k x] [Hin Hk]]. simpl in Hk. apply key_is_str in Hk. subst. apply in_map_iff. exists (PStr s, x). split; [reflexivity | exact Hin].
  - intro H. apply in_map_iff in H. destruct H as [[k x] [Hk Hin]]. simpl in Hk. subst. exists (PStr s, x). split; [exact Hin | apply key_is_refl].
Qed.

Lemma defaults_for_keys : forall es items k,
  In k (keys_of (defaults_for es items)) ->
  exists e, In e es /\ k = PStr (de_key e) /\ de_default e <> None /\ has_key (de_key e) items = false.
Proof.
  induction es as [|e r IH]; intros items k H; simpl in H; [contradiction|].
  destruct (de_default e) as [d|] eqn:D.
  - destruct (has_key (de_key e) items) eqn:HK.
    + destruct (IH _ _ H) as [e' [Hin Hrest]]. exists e'. split; [right; exact Hin | exact Hrest].
    + simpl in H. destruct H as [H|H].
      * exists e. split; [left; reflexivity|]. split; [symmetry; exact H|]. split; [rewrite D; discriminate | exact HK].
      * destruct (IH _ _ H) as [e' [Hin Hrest]]. exists e'. split; [right; exact Hin | exact Hrest].
  - destruct (IH _ _ H) as [e' [Hin Hrest]]. exists e'. split; [right; exact Hin | exact Hrest].
Qed.

Lemma defaults_for_complete : forall es items e d,
  In e es -> de_default e = Some d -> has_key (de_key e) items = false ->
  In (PStr (de_key e)) (keys_of (defaults_for es items)).
Proof.
  induction es as [|e0 r IH]; intros items e d Hin Hd Hk; [contradiction|].
  simpl. destruct Hin as [->|Hin].
  - rewrite Hd, Hk. simpl. left. reflexivity.
  - destruct (de_default e0); [destruct (has_key (de_key e0) items)|]; simpl; try right; eapply IH; eassumption.
Qed.

Lemma defaults_for_nil : forall es items,
  (forall e, In e es -> de_default e <> None -> has_key (de_key e) items = true) -> defaults_for es items = [].
Proof.
  induction es as [|e r IH]; intros items H; [reflexivity|]. simpl.
  destruct (de_default e) eqn:D.
  - rewrite (H e); [apply IH; intros; apply H; [right|]; assumption | left; reflexivity | rewrite D; discriminate].
  - apply IH. intros; apply H; [right|]; assumption.
Qed.

(* ------------------------------------------------------------------------------------------------ *)
(* mapping theorems                                                                                  *)
(* ------------------------------------------------------------------------------------------------ *)
Section Mapping.
  Variable orc : Z -> pyval -> outcome pyval.
  Notation V := (validate orc).

  Definition accepts (s : schema) (v : pyval) : Prop := exists v', V s v = Ret v'.

  Lemma dict_accept_inv : forall es extra items v,
    V (SDict es extra) (PDict items) = Ret v ->
    exists out, v = PDict out /\ dict_loop (dict_fn orc es extra) (items ++ defaults_for es items) = Ret out
                /\ required_present es items = true.
  Proof.
    intros es extra items v H. rewrite validate_SDict in H.
    destruct (dict_loop _ _) as [out|e] eqn:E; [|discriminate].
    destruct (required_present es items) eqn:R; [|discriminate].
    inversion H; subst. exists out. auto.
  Qed.

  Lemma dict_only_dicts : forall es extra v v', V (SDict es extra) v = Ret v' -> exists items, v = PDict items.
  Proof. intros es extra v v' H. rewrite validate_SDict in H. destruct v; try discriminate. eexists; reflexivity. Qed.

  (* an accepted configuration has the supplied keys followed by the defaulted keys ... *)
  Theorem accepted_keys : forall es extra items out,
    V (SDict es extra) (PDict items) = Ret (PDict out) ->
    keys_of out = keys_of items ++ keys_of (defaults_for es items).
  Proof.
    intros es extra items out H. apply dict_accept_inv in H. destruct H as [o [Ho [Hl _]]]. inversion Ho; subst.
    apply dict_loop_keys in Hl. rewrite Hl. unfold keys_of. apply map_app.
  Qed.

  (* ... each of which is a declared option name (no Extra entry) *)
  Theorem accepted_keys_declared : forall es items out k,
    V (SDict es None) (PDict items) = Ret (PDict out) -> In k (keys_of out) ->
    exists e, In e es /\ k = PStr (de_key e).
  Proof.
    intros es items out k H Hin. apply dict_accept_inv in H. destruct H as [o [Ho [Hl _]]]. inversion Ho; subst o.
    apply dict_loop_ret in Hl.
    unfold keys_of in Hin. apply in_map_iff in Hin. destruct Hin as [[k0 y] [Hk Hin]]. simpl in Hk. subst k0.
    destruct (Forall2_in_r _ _ _ _ Hl Hin) as [[k1 x] [Hin1 [Hk1 Hf]]] .
    simpl in *. subst k1. unfold dict_fn in Hf.
    destruct (lookup_schema None es k) as [s|] eqn:L; [|discriminate].
    apply lookup_schema_declared in L. destruct L as [e [He [Hk _]]]. exists e. split; [exact He|]. apply key_is_str. exact Hk.
  Qed.

  (* every declared option that is required or has a default is present *)
  Theorem declared_keys_present : forall es extra items out e,
    V (SDict es extra) (PDict items) = Ret (PDict out) -> In e es ->
    de_required e = true \/ de_default e <> None -> has_key (de_key e) out = true.
  Proof.
    intros es extra items out e H Hin Hreq.
    pose proof (accepted_keys _ _ _ _ H) as Hk.
    apply dict_accept_inv in H. destruct H as [o [Ho [_ Hr]]].
    apply has_key_in. rewrite Hk. apply in_or_app.
    destruct (has_key (de_key e) items) eqn:HK.
    - left. apply has_key_in. exact HK.
    - destruct (de_default e) as [d|] eqn:D.
      + right. eapply defaults_for_complete; eassumption.
      + exfalso. unfold required_present in Hr. rewrite forallb_forall in Hr. specialize (Hr e Hin).
        rewrite D, HK in Hr. destruct Hreq as [Hq|Hq]; [rewrite Hq in Hr; discriminate | apply Hq; reflexivity].
  Qed.

  (* a required option without default that is not supplied: refused *)
  Theorem missing_required_refused : forall es extra items e,
    In e es -> de_required e = true -> de_default e = None -> has_key (de_key e) items = false ->
    forall v, V (SDict es extra) (PDict items) <> Ret v.
  Proof.
    intros es extra items e Hin Hq Hd Hk v H.
    apply dict_accept_inv in H. destruct H as [o [_ [_ Hr]]].
    unfold required_present in Hr. rewrite forallb_forall in Hr. specialize (Hr e Hin).
    rewrite Hq, Hd, Hk in Hr. discriminate.
  Qed.

  Lemma lookup_none_undeclared : forall es k,
    (forall e, In e es -> key_is k (de_key e) = false) -> lookup_schema None es k = None.
  Proof.
    induction es as [|e r IH]; intros k H; [reflexivity|]. simpl.
    rewrite (H e (or_introl eq_refl)). apply IH. intros e' He'. apply H. right. exact He'.
  Qed.

  (* known option names only: a supplied key that no declared option carries is refused *)
  Theorem unknown_key_refused : forall es items k x,
    In (k, x) items -> (forall e, In e es -> key_is k (de_key e) = false) ->
    forall v, V (SDict es None) (PDict items) <> Ret v.
  Proof.
    intros es items k x Hin Hun v H.
    apply dict_accept_inv in H. destruct H as [o [_ [Hl _]]].
    apply dict_loop_ret in Hl.
    destruct (Forall2_in_l _ _ _ (k, x) Hl) as [[k' y] [_ [_ Hf]]]; [apply in_or_app; left; exact Hin|].
    simpl in Hf. unfold dict_fn in Hf. rewrite (lookup_none_undeclared es k Hun) in Hf. discriminate.
  Qed.

  (* a supplied option is validated by the schema of its name, and the configuration carries the result *)
  Theorem supplied_option_validated : forall es extra items out k x,
    V (SDict es extra) (PDict items) = Ret (PDict out) -> In (k, x) items ->
    exists s y, lookup_schema extra es k = Some s /\ V s x = Ret y /\ In (k, y) out.
  Proof.
    intros es extra items out k x H Hin.
    apply dict_accept_inv in H. destruct H as [o [Ho [Hl _]]]. inversion Ho; subst o.
    apply dict_loop_ret in Hl.
    destruct (Forall2_in_l _ _ _ (k, x) Hl) as [[k' y] [Hy [Hk Hf]]]; [apply in_or_app; left; exact Hin|].
    simpl in Hk, Hf. subst k'. unfold dict_fn in Hf.
    destruct (lookup_schema extra es k) as [s|] eqn:L; [|discriminate]. simpl in Hf. inversion Hf.
    exists s, y. auto.
  Qed.

  Lemma defaults_for_in : forall es items e d,
    In e es -> de_default e = Some d -> has_key (de_key e) items = false ->
    In (PStr (de_key e), d) (defaults_for es items).
  Proof.
    induction es as [|e0 r IH]; intros items e d Hin Hd Hk; [contradiction|].
    simpl. destruct Hin as [->|Hin].
    - rewrite Hd, Hk. left. reflexivity.
    - destruct (de_default e0); [destruct (has_key (de_key e0) items)|]; simpl; try right; eapply IH; eassumption.
  Qed.

  (* an omitted option with a default carries the VALIDATED default *)
  Theorem omitted_option_gets_default : forall es extra items out e d,
    V (SDict es extra) (PDict items) = Ret (PDict out) -> In e es -> de_default e = Some d ->
    has_key (de_key e) items = false ->
    exists s y, lookup_schema extra es (PStr (de_key e)) = Some s /\ V s d = Ret y /\ In (PStr (de_key e), y) out.
  Proof.
    intros es extra items out e d H Hin Hd Hk.
    apply dict_accept_inv in H. destruct H as [o [Ho [Hl _]]]. inversion Ho; subst o.
    apply dict_loop_ret in Hl.
    destruct (Forall2_in_l _ _ _ (PStr (de_key e), d) Hl) as [[k' y] [Hy [Hk' Hf]]].
    { apply in_or_app. right. eapply defaults_for_in; eassumption. }
    simpl in Hk', Hf. subst k'. unfold dict_fn in Hf.
    destruct (lookup_schema extra es (PStr (de_key e))) as [s|] eqn:L; [|discriminate]. simpl in Hf. inversion Hf.
    exists s, y. auto.
  Qed.

  (* conversely every entry of the accepted configuration is a validated supplied or default value *)
  Theorem accepted_entries_origin : forall es extra items out k y,
    V (SDict es extra) (PDict items) = Ret (PDict out) -> In (k, y) out ->
    exists s x, In (k, x) (items ++ defaults_for es items) /\ lookup_schema extra es k = Some s /\ V s x = Ret y.
  Proof.
    intros es extra items out k y H Hin.
    apply dict_accept_inv in H. destruct H as [o [Ho [Hl _]]]. inversion Ho; subst o.
    apply dict_loop_ret in Hl.
    destruct (Forall2_in_r _ _ _ (k, y) Hl Hin) as [[k' x] [Hx [Hk Hf]]].
    simpl in Hk, Hf. subst k'. unfold dict_fn in Hf.
    destruct (lookup_schema extra es k) as [s|] eqn:L; [|discriminate]. simpl in Hf. inversion Hf.
    exists s, x. auto.
  Qed.

  Lemma dict_loop_total : forall f items,
    (forall k x, In (k, x) items -> exists y, f k x = Some (Ret y)) -> exists out, dict_loop f items = Ret out.
  Proof.
    intros f items. induction items as [|[k x] r IH]; intro H; [exists []; reflexivity|].
    destruct (H k x (or_introl eq_refl)) as [y Hy].
    destruct IH as [o Ho]; [intros k' x' Hin; apply H; right; exact Hin|].
    exists ((k, y) :: o). simpl. rewrite Hy, Ho. reflexivity.
  Qed.

  (* construction of the mapping succeeds EXACTLY WHEN every supplied option (and every default of an omitted
     one) has a declared name and lies in the domain of that option, and the required options are supplied *)
  Theorem accept_iff_in_domain : forall es extra items,
    (exists out, V (SDict es extra) (PDict items) = Ret (PDict out)) <->
    ((forall k x, In (k, x) (items ++ defaults_for es items) ->
                  exists s, lookup_schema extra es k = Some s /\ accepts s x)
     /\ required_present es items = true).
  Proof.
    intros es extra items. split.
    - intros [out H]. apply dict_accept_inv in H. destruct H as [o [Ho [Hl Hr]]]. split; [|exact Hr].
      intros k x Hin. apply dict_loop_ret in Hl.
      destruct (Forall2_in_l _ _ _ (k, x) Hl Hin) as [[k' y] [_ [_ Hf]]]. simpl in Hf. unfold dict_fn in Hf.
      destruct (lookup_schema extra es k) as [s|] eqn:L; [|discriminate]. simpl in Hf. inversion Hf.
      exists s. split; [reflexivity | exists y; assumption].
    - intros [Hall Hr].
      destruct (dict_loop_total (dict_fn orc es extra) (items ++ defaults_for es items)) as [out Ho].
      { intros k x Hin. destruct (Hall k x Hin) as [s [L [y Hy]]]. exists y. unfold dict_fn. rewrite L. simpl. rewrite Hy. reflexivity. }
      exists out. rewrite validate_SDict, Ho, Hr. reflexivity.
  Qed.
End Mapping.
