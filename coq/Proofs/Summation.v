(* Proofs/Summation.v -- lemmas about the SumGrader model (C19) *)
From Coq Require Import ZArith QArith Qround Qabs Qreduction Bool List Lia Permutation Sorted.
From Verif.Lib Require Import SummationPy.
From Verif.Model Require Import Summation.
Import ListNotations.
Open Scope Z_scope.

(* ================================================================================================ *)
(* A. integer-valued Python numbers                                                                   *)
(* ================================================================================================ *)
Lemma Qred_inject_Z : forall z, Qred (inject_Z z) = inject_Z z.
Proof.
  intro z. unfold Qred, inject_Z.
  pose proof (Z.ggcd_gcd z 1) as G. pose proof (Z.ggcd_correct_divisors z 1) as D.
  destruct (Z.ggcd z 1) as [g [q1 q2]]. simpl in *. rewrite Z.gcd_1_r in G. subst g.
  destruct D as [D1 D2]. assert (E1 : z = q1) by lia. assert (E2 : q2 = 1) by lia. rewrite E1, E2. reflexivity.
Qed.

Lemma Qred_eq_Z : forall q z, (q == inject_Z z)%Q -> Qred q = inject_Z z.
Proof. intros q z H. rewrite (Qred_complete _ _ H). apply Qred_inject_Z. Qed.

Lemma Qeq_bool_inject : forall a b, Qeq_bool (inject_Z a) (inject_Z b) = (a =? b).
Proof.
  intros a b. destruct (Z.eqb_spec a b) as [E | N].
  - subst. apply Qeq_bool_iff. reflexivity.
  - destruct (Qeq_bool (inject_Z a) (inject_Z b)) eqn:Q; [| reflexivity].
    apply Qeq_bool_iff in Q. unfold Qeq in Q. simpl in Q. lia.
Qed.

Lemma Qle_bool_inject : forall a b, Qle_bool (inject_Z a) (inject_Z b) = (a <=? b).
Proof.
  intros a b. destruct (Z.leb_spec a b) as [L | G].
  - apply Qle_bool_iff. rewrite <- Zle_Qle. exact L.
  - destruct (Qle_bool (inject_Z a) (inject_Z b)) eqn:Q; [| reflexivity].
    apply Qle_bool_iff in Q. rewrite <- Zle_Qle in Q. lia.
Qed.

Lemma Qlt_b_inject : forall a b, Qlt_b (inject_Z a) (inject_Z b) = (a <? b).
Proof. intros a b. unfold Qlt_b. rewrite Qle_bool_inject. rewrite Z.ltb_antisym. reflexivity. Qed.

Lemma p_add_lit : forall a b, p_add (p_lit a) (p_lit b) = p_lit (a + b).
Proof.
  intros a b. unfold p_add, p_lit. do 2 f_equal. apply Qred_eq_Z. rewrite inject_Z_plus. reflexivity.
Qed.

Lemma p_neg_lit : forall a, p_neg (p_lit a) = p_lit (- a).
Proof. intro a. unfold p_neg, p_lit. do 2 f_equal. apply Qred_eq_Z. rewrite inject_Z_opp. reflexivity. Qed.

Lemma p_abs_lit : forall a, p_abs (p_lit a) = p_lit (Z.abs a).
Proof. intro a. unfold p_abs, p_lit. do 2 f_equal. apply Qred_eq_Z. reflexivity. Qed.

Lemma p_mod2_lit : forall a, p_mod (p_lit a) (p_lit 2) = p_lit (a mod 2).
Proof.
  intro a. unfold p_mod, p_lit.
  replace (Qeq_bool (inject_Z 2) 0) with false by reflexivity.
  do 2 f_equal. apply Qred_eq_Z.
  assert (F : Qfloor (inject_Z a / inject_Z 2) = a / 2).
  { unfold Qfloor, Qdiv, Qmult, Qinv, inject_Z. simpl. rewrite Z.mul_1_r. reflexivity. }
  rewrite F. unfold Qeq, Qminus, Qplus, Qopp, Qmult, inject_Z. simpl.
  pose proof (Z.div_mod a 2 ltac:(lia)). lia.
Qed.

Lemma qtrunc_inject : forall a, qtrunc (inject_Z a) = a.
Proof.
  intro a. unfold qtrunc. change 0%Q with (inject_Z 0). rewrite Qlt_b_inject.
  destruct (a <? 0).
  - change (- inject_Z a)%Q with (inject_Z (- a)). rewrite Qfloor_Z. lia.
  - apply Qfloor_Z.
Qed.

Lemma p_int_lit : forall a, p_int (p_lit a) = p_lit a.
Proof. intro a. unfold p_int, p_lit. rewrite qtrunc_inject. reflexivity. Qed.

Lemma p_eq_lit : forall a b, p_eq (p_lit a) (p_lit b) = tb (a =? b).
Proof. intros a b. unfold p_eq, p_lit, x_eq. rewrite Qeq_bool_inject. reflexivity. Qed.

Lemma p_ne_lit : forall a b, p_ne (p_lit a) (p_lit b) = tb (negb (a =? b)).
Proof. intros a b. unfold p_ne. rewrite p_eq_lit. destruct (a =? b); reflexivity. Qed.

Lemma p_gt_lit : forall a b, p_gt (p_lit a) (p_lit b) = tb (b <? a).
Proof. intros a b. unfold p_gt, p_lit, x_gt. rewrite Qlt_b_inject. reflexivity. Qed.

Lemma p_range_lit : forall a b d, d <> 0 -> p_range (p_lit a) (p_lit b) (p_lit d) = Ret (a, b, d).
Proof.
  intros a b d Hd. unfold p_range, p_lit, inject_Z. simpl.
  destruct (Z.eqb_spec d 0); [contradiction | reflexivity].
Qed.

(* ================================================================================================ *)
(* B. ranges                                                                                          *)
(* ================================================================================================ *)
Definition parity_ok (eo k : Z) : bool :=
  match eo with 1 => Z.odd k | 2 => Z.even k | _ => true end.
Definition step_of (eo : Z) : Z := match eo with 1 | 2 => 2 | _ => 1 end.
(* the first integer >= l of the requested parity *)
Definition adjust (eo l : Z) : Z := if parity_ok eo l then l else l + 1.

(* all integers l, l+1, ..., (n of them) *)
Fixpoint zseq_n (l : Z) (n : nat) : list Z :=
  match n with O => [] | S m => l :: zseq_n (l + 1) m end.
(* all integers between l and h inclusive, ascending *)
Definition zseq (l h : Z) : list Z := zseq_n l (Z.to_nat (h + 1 - l)).

Lemma zseq_n_In : forall n l k, In k (zseq_n l n) <-> l <= k < l + Z.of_nat n.
Proof.
  induction n as [|n IH]; intros l k; simpl.
  - lia.
  - rewrite IH. lia.
Qed.

Lemma zseq_In : forall l h k, In k (zseq l h) <-> l <= k <= h.
Proof. intros l h k. unfold zseq. rewrite zseq_n_In. lia. Qed.

Lemma zseq_n_sorted : forall n l, StronglySorted Z.lt (zseq_n l n).
Proof.
  induction n as [|n IH]; intro l; simpl; constructor.
  - apply IH.
  - apply Forall_forall. intros k Hk. apply zseq_n_In in Hk. lia.
Qed.

Lemma parity_adjust_next : forall eo l, parity_ok eo l = false -> parity_ok eo (l + 1) = true.
Proof.
  intros eo l. unfold parity_ok.
  destruct eo as [|[p|p|]|]; try discriminate; try (destruct p; discriminate).
  - destruct p as [p|p|]; try discriminate. rewrite Z.even_add. rewrite <- Z.negb_odd. intro H.
    apply negb_false_iff in H. rewrite Z.negb_odd. rewrite <- Z.negb_odd, H. reflexivity.
  - rewrite Z.odd_add. rewrite <- Z.negb_even. intro H. rewrite <- Z.negb_even.
    destruct (Z.even l); simpl in *; congruence.
Qed.

Lemma parity_next_of_ok : forall eo l, step_of eo = 2 -> parity_ok eo l = true -> parity_ok eo (l + 1) = false.
Proof.
  intros eo l Hs. unfold parity_ok, step_of in *.
  destruct eo as [|[[p|p|]|[p|p|]|]|]; try discriminate.
  - rewrite Z.even_add. intro H. rewrite H. reflexivity.
  - rewrite Z.odd_add. intro H. rewrite H. reflexivity.
Qed.

Lemma step_one_all_ok : forall eo k, step_of eo = 1 -> parity_ok eo k = true.
Proof.
  intros eo k. unfold step_of, parity_ok. destruct eo as [|[[p|p|]|[p|p|]|]|]; try discriminate; reflexivity.
Qed.

Lemma step_cases : forall eo, step_of eo = 1 \/ step_of eo = 2.
Proof. intro eo. unfold step_of. destruct eo as [|[[p|p|]|[p|p|]|]|]; auto. Qed.

(* range(adjust l, h+1, step) enumerates exactly the integers of [l, h] with the requested parity *)
Lemma zrange_go_filter : forall eo n fuel l h,
  Z.to_nat (h + 1 - l) = n ->
  (Z.to_nat (h + 1 - adjust eo l) <= fuel)%nat ->
  zrange_go fuel (adjust eo l) (h + 1) (step_of eo) = filter (parity_ok eo) (zseq_n l n).
Proof.
  intros eo n. induction n as [|n IH]; intros fuel l h Hn Hf.
  - simpl. assert (h + 1 <= l) by lia.
    assert (h + 1 <= adjust eo l) by (unfold adjust; destruct (parity_ok eo l); lia).
    destruct fuel; simpl; [reflexivity|]. destruct (Z.ltb_spec (adjust eo l) (h + 1)); [lia | reflexivity].
  - simpl. assert (Hl : l <= h) by lia.
    assert (Hn' : Z.to_nat (h + 1 - (l + 1)) = n) by lia.
    unfold adjust in *. destruct (parity_ok eo l) eqn:P.
    + (* l is kept *)
      destruct fuel as [|fuel]; [lia|]. simpl.
      destruct (Z.ltb_spec l (h + 1)); [| lia]. f_equal.
      destruct (step_cases eo) as [S1 | S2].
      * rewrite S1.
        specialize (IH fuel (l + 1) h Hn').
        rewrite (step_one_all_ok eo (l + 1) S1) in IH. rewrite S1 in IH. apply IH. lia.
      * rewrite S2. specialize (IH fuel (l + 1) h Hn').
        rewrite (parity_next_of_ok eo l S2 P) in IH. rewrite S2 in IH.
        replace (l + 2) with (l + 1 + 1) by lia. apply IH. lia.
    + (* l is skipped *)
      specialize (IH fuel (l + 1) h Hn').
      rewrite (parity_adjust_next eo l P) in IH. apply IH. lia.
Qed.

Lemma step_of_pos : forall eo, 0 < step_of eo.
Proof. intro eo. destruct (step_cases eo) as [H|H]; rewrite H; lia. Qed.

Theorem zrange_spec : forall eo l h,
  zrange (adjust eo l) (h + 1) (step_of eo) = filter (parity_ok eo) (zseq l h).
Proof.
  intros eo l h. unfold zrange, zseq.
  destruct (Z.ltb_spec 0 (step_of eo)) as [_ | H]; [| pose proof (step_of_pos eo); lia].
  apply (zrange_go_filter eo _ _ l h); [reflexivity | lia].
Qed.

(* the index set of the property *)
Definition index_set (eo l h : Z) : list Z := filter (parity_ok eo) (zseq l h).

Lemma index_set_In : forall eo l h k, In k (index_set eo l h) <-> (l <= k <= h /\ parity_ok eo k = true).
Proof. intros. unfold index_set. rewrite filter_In, zseq_In. tauto. Qed.

Lemma StronglySorted_filter : forall (f : Z -> bool) l, StronglySorted Z.lt l -> StronglySorted Z.lt (filter f l).
Proof.
  intros f l H. induction H as [|a l Hs IH Ha]; simpl; [constructor|].
  destruct (f a); [| exact IH]. constructor; [exact IH|].
  rewrite Forall_forall in *. intros x Hx. apply filter_In in Hx. apply Ha. tauto.
Qed.

Lemma index_set_sorted : forall eo l h, StronglySorted Z.lt (index_set eo l h).
Proof. intros. apply StronglySorted_filter. apply zseq_n_sorted. Qed.

Lemma StronglySorted_lt_NoDup : forall l, StronglySorted Z.lt l -> NoDup l.
Proof.
  intros l H. induction H as [|a l Hs IH Ha]; constructor; [| exact IH].
  intro Hin. rewrite Forall_forall in Ha. specialize (Ha a Hin). lia.
Qed.

Lemma index_set_NoDup : forall eo l h, NoDup (index_set eo l h).
Proof. intros. apply StronglySorted_lt_NoDup, index_set_sorted. Qed.

(* ================================================================================================ *)
(* C. perform_summation: the plan handed to range()                                                   *)
(* ================================================================================================ *)
Inductive ilim := IFin (z : Z) | IPInf | INInf.
Definition pl (l : ilim) : pyv :=
  match l with IFin z => p_lit z | IPInf => PNum XPInf | INInf => PNum XNInf end.

Inductive bounds := Bounds (l h : Z) | BErr (m : sum_msg).
(* what the code does with the two limits: sort, then replace infinities by the cutoff *)
Definition code_bounds (lo hi : ilim) (cut : Z) : bounds :=
  match lo, hi with
  | IFin a, IFin b => Bounds (Z.min a b) (Z.max a b)
  | IFin a, IPInf | IPInf, IFin a => Bounds a cut
  | INInf, IFin a | IFin a, INInf => Bounds (- cut) a
  | INInf, IPInf | IPInf, INInf => Bounds (- cut) cut
  | IPInf, IPInf => BErr MPosInf
  | INInf, INInf => BErr MNegInf
  end.

Definition plan_tail (lower upper even_odd : pyv) : outcome (Z * Z * Z) :=
  bind (tif (p_eq even_odd (p_lit 1))
         (bind (parity_adjust lower (p_lit 1)) (fun lower => Ret (p_lit 2, lower)))
         (bind (tif (p_eq even_odd (p_lit 2))
                  (bind (parity_adjust lower (p_lit 0)) (fun lower => Ret (p_lit 2, lower)))
                  (Ret (p_lit 1, lower)))
               (fun '(delta, lower) => Ret (delta, lower))))
       (fun '(delta, lower) =>
  p_range (p_int lower) (p_int (p_add upper (p_lit 1))) delta).

Lemma Zeq_bool_false_intro : forall a b, a <> b -> Zeq_bool a b = false.
Proof. intros a b H. destruct (Zeq_bool a b) eqn:E; [apply Zeq_bool_eq in E; contradiction | reflexivity]. Qed.

Lemma abs_mod2_odd : forall l, (Z.abs (l mod 2) =? 1) = Z.odd l.
Proof.
  intro l. rewrite Zodd_mod. pose proof (Z.mod_pos_bound l 2 ltac:(lia)).
  rewrite Z.abs_eq by lia. destruct (Z.eqb_spec (l mod 2) 1) as [E|E].
  - rewrite E. reflexivity.
  - symmetry. apply Zeq_bool_false_intro. exact E.
Qed.

Lemma abs_mod2_even : forall l, (Z.abs (l mod 2) =? 0) = Z.even l.
Proof.
  intro l. rewrite Zeven_mod. pose proof (Z.mod_pos_bound l 2 ltac:(lia)).
  rewrite Z.abs_eq by lia. destruct (Z.eqb_spec (l mod 2) 0) as [E|E].
  - rewrite E. reflexivity.
  - symmetry. apply Zeq_bool_false_intro. exact E.
Qed.

Lemma parity_adjust_odd : forall l, parity_adjust (p_lit l) (p_lit 1) = Ret (p_lit (adjust 1 l)).
Proof.
  intro l. unfold parity_adjust. rewrite p_mod2_lit, p_abs_lit, p_ne_lit, abs_mod2_odd, p_add_lit.
  unfold adjust, parity_ok. destruct (Z.odd l); reflexivity.
Qed.

Lemma parity_adjust_even : forall l, parity_adjust (p_lit l) (p_lit 0) = Ret (p_lit (adjust 2 l)).
Proof.
  intro l. unfold parity_adjust. rewrite p_mod2_lit, p_abs_lit, p_ne_lit, abs_mod2_even, p_add_lit.
  unfold adjust, parity_ok. destruct (Z.even l); reflexivity.
Qed.

Lemma other_parity : forall eo, eo <> 1 -> eo <> 2 -> step_of eo = 1 /\ forall k, adjust eo k = k.
Proof.
  intros eo H1 H2. unfold step_of, adjust, parity_ok.
  destruct eo as [|[[p|p|]|[p|p|]|]|]; try (split; [reflexivity | intro; reflexivity]); congruence.
Qed.

Lemma plan_tail_spec : forall eo l h,
  plan_tail (p_lit l) (p_lit h) (p_lit eo) = Ret (adjust eo l, h + 1, step_of eo).
Proof.
  intros eo l h. unfold plan_tail. rewrite !p_eq_lit.
  destruct (Z.eqb_spec eo 1) as [E1 | N1].
  - subst eo. simpl tb. cbn [tif]. rewrite parity_adjust_odd. cbn [bind].
    rewrite p_int_lit, p_add_lit, p_int_lit. apply p_range_lit; first [lia | compute; discriminate].
  - simpl tb. cbn [tif]. destruct (Z.eqb_spec eo 2) as [E2 | N2].
    + subst eo. simpl tb. cbn [tif]. rewrite parity_adjust_even. cbn [bind].
      rewrite p_int_lit, p_add_lit, p_int_lit. apply p_range_lit; first [lia | compute; discriminate].
    + simpl tb. cbn [tif bind]. destruct (other_parity eo N1 N2) as [S A]. rewrite S, A.
      rewrite p_int_lit, p_add_lit, p_int_lit. apply p_range_lit; first [lia | compute; discriminate].
Qed.

Lemma summation_plan_unfold : forall lower upper even_odd infty_val,
  summation_plan lower upper even_odd infty_val =
  bind (tif (p_gt lower upper) (Ret (upper, lower)) (Ret (lower, upper))) (fun '(lower, upper) =>
  bind (tif (p_eq lower (p_neg p_inf)) (Ret (p_neg infty_val)) (Ret lower)) (fun lower =>
  bind (tif (p_eq upper p_inf) (Ret infty_val) (Ret upper)) (fun upper =>
  bind (tif (p_eq upper (p_neg p_inf)) (Raise (ESummation MNegInf)) (Ret tt)) (fun _ =>
  bind (tif (p_eq lower p_inf) (Raise (ESummation MPosInf)) (Ret tt)) (fun _ =>
  plan_tail lower upper even_odd))))).
Proof. reflexivity. Qed.

Lemma p_eq_lit_ninf : forall a, p_eq (p_lit a) (p_neg p_inf) = FF.
Proof. reflexivity. Qed.
Lemma p_eq_lit_pinf : forall a, p_eq (p_lit a) p_inf = FF.
Proof. reflexivity. Qed.

Theorem summation_plan_spec : forall lo hi eo cut,
  summation_plan (pl lo) (pl hi) (p_lit eo) (p_lit cut) =
  match code_bounds lo hi cut with
  | Bounds l h => Ret (adjust eo l, h + 1, step_of eo)
  | BErr m => Raise (ESummation m)
  end.
Proof.
  intros lo hi eo cut. rewrite summation_plan_unfold.
  destruct lo as [a| |], hi as [b| |]; unfold pl, code_bounds.
  - (* finite, finite *)
    rewrite p_gt_lit. destruct (Z.ltb_spec b a) as [L | G]; simpl tb; cbn [tif bind];
      rewrite !p_eq_lit_ninf, !p_eq_lit_pinf; cbn [tif bind]; rewrite plan_tail_spec.
    + rewrite Z.min_r, Z.max_l by lia. reflexivity.
    + rewrite Z.min_l, Z.max_r by lia. reflexivity.
  - (* finite, +inf *)
    change (p_gt (p_lit a) (PNum XPInf)) with FF. cbn [tif bind]. rewrite p_eq_lit_ninf. cbn [tif bind].
    change (p_eq (PNum XPInf) p_inf) with TT. cbn [tif bind].
    rewrite p_eq_lit_ninf, p_eq_lit_pinf. cbn [tif bind]. apply plan_tail_spec.
  - (* finite, -inf : swapped *)
    change (p_gt (p_lit a) (PNum XNInf)) with TT. cbn [tif bind].
    change (p_eq (PNum XNInf) (p_neg p_inf)) with TT. cbn [tif bind].
    rewrite p_eq_lit_pinf. cbn [tif bind]. rewrite p_eq_lit_ninf. cbn [tif bind].
    rewrite p_neg_lit. rewrite p_eq_lit_pinf. cbn [tif bind]. apply plan_tail_spec.
  - (* +inf, finite : swapped *)
    change (p_gt (PNum XPInf) (p_lit b)) with TT. cbn [tif bind]. rewrite p_eq_lit_ninf. cbn [tif bind].
    change (p_eq (PNum XPInf) p_inf) with TT. cbn [tif bind].
    rewrite p_eq_lit_ninf, p_eq_lit_pinf. cbn [tif bind]. apply plan_tail_spec.
  - reflexivity.
  - (* +inf, -inf : swapped *)
    change (p_gt (PNum XPInf) (PNum XNInf)) with TT. cbn [tif bind].
    change (p_eq (PNum XNInf) (p_neg p_inf)) with TT. cbn [tif bind].
    change (p_eq (PNum XPInf) p_inf) with TT. cbn [tif bind].
    rewrite p_neg_lit. rewrite p_eq_lit_ninf, p_eq_lit_pinf. cbn [tif bind]. apply plan_tail_spec.
  - (* -inf, finite *)
    change (p_gt (PNum XNInf) (p_lit b)) with FF. cbn [tif bind].
    change (p_eq (PNum XNInf) (p_neg p_inf)) with TT. cbn [tif bind].
    rewrite p_eq_lit_pinf. cbn [tif bind]. rewrite p_eq_lit_ninf. cbn [tif bind].
    rewrite p_neg_lit. rewrite p_eq_lit_pinf. cbn [tif bind]. apply plan_tail_spec.
  - (* -inf, +inf *)
    change (p_gt (PNum XNInf) (PNum XPInf)) with FF. cbn [tif bind].
    change (p_eq (PNum XNInf) (p_neg p_inf)) with TT. cbn [tif bind].
    change (p_eq (PNum XPInf) p_inf) with TT. cbn [tif bind].
    rewrite p_neg_lit. rewrite p_eq_lit_ninf, p_eq_lit_pinf. cbn [tif bind]. apply plan_tail_spec.
  - reflexivity.
Qed.

(* ================================================================================================ *)
(* D. perform_summation: the sum                                                                       *)
(* ================================================================================================ *)
Section Sums.
  Context {V : Type}.
  Variable vzero : V.
  Variable vadd : V -> V -> V.

  Definition bounds_sum (f : Z -> outcome V) (eo : Z) (b : bounds) : outcome V :=
    match b with
    | Bounds l h => sum_over vzero vadd f (index_set eo l h)
    | BErr m => Raise (ESummation m)
    end.

  (* sum_spec: the result is the sum over { k | l <= k <= h, parity } in increasing order *)
  Theorem perform_summation_spec : forall f lo hi eo cut,
    perform_summation vzero vadd f (pl lo) (pl hi) (p_lit eo) (p_lit cut)
    = bounds_sum f eo (code_bounds lo hi cut).
  Proof.
    intros. unfold perform_summation. rewrite summation_plan_spec.
    destruct (code_bounds lo hi cut) as [l h | m]; [| reflexivity].
    cbn [bind sum_range bounds_sum]. rewrite zrange_spec. reflexivity.
  Qed.

  Lemma eval_all_total : forall (g : Z -> V) f l,
    (forall k, In k l -> f k = Ret (g k)) -> eval_all f l = Ret (map g l).
  Proof.
    intros g f l. induction l as [|k l IH]; intro H; simpl; [reflexivity|].
    rewrite (H k (or_introl eq_refl)). cbn [bind]. rewrite IH by (intros; apply H; right; assumption). reflexivity.
  Qed.

  Lemma sum_over_total : forall (g : Z -> V) f l,
    (forall k, In k l -> f k = Ret (g k)) -> sum_over vzero vadd f l = Ret (fold_left vadd (map g l) vzero).
  Proof. intros g f l H. unfold sum_over. rewrite (eval_all_total g f l H). reflexivity. Qed.

  Lemma eval_all_ext : forall (f f' : Z -> outcome V) l, (forall k, In k l -> f k = f' k) -> eval_all f l = eval_all f' l.
  Proof.
    intros f f' l. induction l as [|k l IH]; intro H; simpl; [reflexivity|].
    rewrite (H k (or_introl eq_refl)). rewrite IH by (intros; apply H; right; assumption). reflexivity.
  Qed.

  Lemma eval_all_map : forall (f : Z -> outcome V) (h : Z -> Z) l, eval_all f (map h l) = eval_all (fun k => f (h k)) l.
  Proof. intros f h l. induction l as [|k l IH]; simpl; [reflexivity|]. rewrite IH. reflexivity. Qed.

  (* the first failing evaluation decides the error *)
  Lemma eval_all_first_error : forall (f : Z -> outcome V) l1 k l2 e,
    (forall j, In j l1 -> exists v, f j = Ret v) -> f k = Raise e -> eval_all f (l1 ++ k :: l2) = Raise e.
  Proof.
    intros f l1 k l2 e. induction l1 as [|j l1 IH]; intros Hok Hk; simpl.
    - rewrite Hk. reflexivity.
    - destruct (Hok j (or_introl eq_refl)) as [v Hv]. rewrite Hv. cbn [bind].
      rewrite IH; [reflexivity | intros; apply Hok; right; assumption | exact Hk].
  Qed.

  (* sum_symmetric *)
  Lemma code_bounds_sym : forall lo hi cut, code_bounds lo hi cut = code_bounds hi lo cut.
  Proof.
    intros lo hi cut. destruct lo, hi; simpl; try reflexivity. rewrite Z.min_comm, Z.max_comm. reflexivity.
  Qed.

  Theorem perform_summation_symmetric : forall f lo hi eo cut,
    perform_summation vzero vadd f (pl lo) (pl hi) (p_lit eo) (p_lit cut)
    = perform_summation vzero vadd f (pl hi) (pl lo) (p_lit eo) (p_lit cut).
  Proof. intros. rewrite !perform_summation_spec. rewrite code_bounds_sym. reflexivity. Qed.

  (* infinite_cutoff: an infinite limit behaves as the cutoff *)
  Theorem infinite_cutoff_upper : forall f a eo cut, a <= cut ->
    perform_summation vzero vadd f (pl (IFin a)) (pl IPInf) (p_lit eo) (p_lit cut)
    = perform_summation vzero vadd f (pl (IFin a)) (pl (IFin cut)) (p_lit eo) (p_lit cut).
  Proof.
    intros. rewrite !perform_summation_spec. simpl. rewrite Z.min_l, Z.max_r by lia. reflexivity.
  Qed.

  Theorem infinite_cutoff_lower : forall f a eo cut, - cut <= a ->
    perform_summation vzero vadd f (pl INInf) (pl (IFin a)) (p_lit eo) (p_lit cut)
    = perform_summation vzero vadd f (pl (IFin (- cut))) (pl (IFin a)) (p_lit eo) (p_lit cut).
  Proof.
    intros. rewrite !perform_summation_spec. simpl. rewrite Z.min_l, Z.max_r by lia. reflexivity.
  Qed.

  Theorem infinite_cutoff_both : forall f eo cut, 0 <= cut ->
    perform_summation vzero vadd f (pl INInf) (pl IPInf) (p_lit eo) (p_lit cut)
    = perform_summation vzero vadd f (pl (IFin (- cut))) (pl (IFin cut)) (p_lit eo) (p_lit cut).
  Proof.
    intros. rewrite !perform_summation_spec. simpl. rewrite Z.min_l, Z.max_r by lia. reflexivity.
  Qed.

  (* a finite limit beyond the cutoff: the limits are sorted BEFORE infinity is replaced, so the range is empty *)
  Lemma index_set_empty : forall eo l h, h < l -> index_set eo l h = [].
  Proof. intros eo l h H. unfold index_set, zseq. replace (Z.to_nat (h + 1 - l)) with O by lia. reflexivity. Qed.

  Theorem beyond_cutoff_is_empty : forall f a eo cut, cut < a ->
    perform_summation vzero vadd f (pl (IFin a)) (pl IPInf) (p_lit eo) (p_lit cut) = Ret vzero.
  Proof.
    intros. rewrite perform_summation_spec. simpl. rewrite index_set_empty by lia. reflexivity.
  Qed.

  (* ---- reindexing ---- *)
  Lemma zseq_n_shift : forall n l s, zseq_n (l + s) n = map (fun k => k + s) (zseq_n l n).
  Proof.
    induction n as [|n IH]; intros l s; simpl; [reflexivity|]. f_equal.
    replace (l + s + 1) with (l + 1 + s) by lia. apply IH.
  Qed.

  Lemma filter_map_comm : forall (p : Z -> bool) (h : Z -> Z) l,
    (forall k, p (h k) = p k) -> filter p (map h l) = map h (filter p l).
  Proof.
    intros p h l H. induction l as [|k l IH]; simpl; [reflexivity|].
    rewrite H. destruct (p k); simpl; rewrite IH; reflexivity.
  Qed.

  Definition shift_ok (eo s : Z) : Prop := step_of eo = 1 \/ Z.even s = true.

  Lemma parity_shift : forall eo s k, shift_ok eo s -> parity_ok eo (k + s) = parity_ok eo k.
  Proof.
    intros eo s k [S1 | Ev].
    - rewrite !(step_one_all_ok eo _ S1). reflexivity.
    - unfold parity_ok. destruct eo as [|[[p|p|]|[p|p|]|]|]; try reflexivity.
      + rewrite Z.even_add, Ev. destruct (Z.even k); reflexivity.
      + rewrite Z.odd_add. rewrite <- (Z.negb_even s), Ev. destruct (Z.odd k); reflexivity.
  Qed.

  Lemma index_set_shift : forall eo l h s, shift_ok eo s ->
    index_set eo (l + s) (h + s) = map (fun k => k + s) (index_set eo l h).
  Proof.
    intros eo l h s Hs. unfold index_set, zseq.
    replace (h + s + 1 - (l + s)) with (h + 1 - l) by lia.
    rewrite zseq_n_shift. apply filter_map_comm. intro k. apply parity_shift. exact Hs.
  Qed.

  (* sum_reindex (shift): sum_{k=a+s}^{b+s} f(k-s) = sum_{k=a}^{b} f(k) *)
  Theorem perform_summation_shift : forall f a b eo cut s, shift_ok eo s ->
    perform_summation vzero vadd (fun k => f (k - s)) (pl (IFin (a + s))) (pl (IFin (b + s))) (p_lit eo) (p_lit cut)
    = perform_summation vzero vadd f (pl (IFin a)) (pl (IFin b)) (p_lit eo) (p_lit cut).
  Proof.
    intros f a b eo cut s Hs. rewrite !perform_summation_spec. simpl.
    replace (Z.min (a + s) (b + s)) with (Z.min a b + s) by lia.
    replace (Z.max (a + s) (b + s)) with (Z.max a b + s) by lia.
    rewrite index_set_shift by exact Hs. unfold sum_over. rewrite eval_all_map.
    rewrite (eval_all_ext (fun k => f (k + s - s)) f); [reflexivity|].
    intros k _. f_equal. lia.
  Qed.

  (* ---- commutative monoid: permutations and reversal ---- *)
  Hypothesis vadd_assoc : forall x y z, vadd x (vadd y z) = vadd (vadd x y) z.
  Hypothesis vadd_comm : forall x y, vadd x y = vadd y x.

  Lemma fold_left_perm : forall l l', Permutation l l' -> forall z, fold_left vadd l z = fold_left vadd l' z.
  Proof.
    intros l l' P. induction P as [| x l l' P IH | x y l | l l' l'' P1 IH1 P2 IH2]; intro z; simpl.
    - reflexivity.
    - apply IH.
    - f_equal. rewrite <- !vadd_assoc. f_equal. apply vadd_comm.
    - rewrite IH1. apply IH2.
  Qed.

  (* the value of the sum does not depend on the order of evaluation: it is a sum over the index SET *)
  Theorem sum_over_set : forall (g : Z -> V) l l',
    Permutation l l' -> fold_left vadd (map g l) vzero = fold_left vadd (map g l') vzero.
  Proof. intros g l l' P. apply fold_left_perm. apply Permutation_map. exact P. Qed.

  Lemma parity_opp : forall eo k, parity_ok eo (- k) = parity_ok eo k.
  Proof.
    intros eo k. unfold parity_ok. destruct eo as [|[[p|p|]|[p|p|]|]|]; try reflexivity.
    - apply Z.even_opp.
    - apply Z.odd_opp.
  Qed.

  Lemma index_set_opp_perm : forall eo l h,
    Permutation (map Z.opp (index_set eo (- h) (- l))) (index_set eo l h).
  Proof.
    intros eo l h. apply NoDup_Permutation.
    - apply FinFun.Injective_map_NoDup; [intros x y H; lia | apply index_set_NoDup].
    - apply index_set_NoDup.
    - intro k. rewrite in_map_iff. split.
      + intros [k' [E H]]. apply index_set_In in H. apply index_set_In. subst k.
        rewrite parity_opp. split; [lia | tauto].
      + intro H. apply index_set_In in H. exists (- k). split; [lia|].
        apply index_set_In. rewrite parity_opp. split; [lia | tauto].
  Qed.

  (* sum_reindex (reversal): sum_{k=-b}^{-a} g(-k) = sum_{k=a}^{b} g(k) *)
  Theorem perform_summation_reverse : forall (g : Z -> V) a b eo cut,
    perform_summation vzero vadd (fun k => Ret (g (- k))) (pl (IFin (- b))) (pl (IFin (- a))) (p_lit eo) (p_lit cut)
    = perform_summation vzero vadd (fun k => Ret (g k)) (pl (IFin a)) (pl (IFin b)) (p_lit eo) (p_lit cut).
  Proof.
    intros g a b eo cut. rewrite !perform_summation_spec. simpl.
    replace (Z.min (- b) (- a)) with (- Z.max a b) by lia.
    replace (Z.max (- b) (- a)) with (- Z.min a b) by lia.
    rewrite (sum_over_total (fun k => g (- k))) by reflexivity.
    rewrite (sum_over_total g) by reflexivity. f_equal.
    rewrite <- (map_map Z.opp g). apply sum_over_set. apply index_set_opp_perm.
  Qed.
End Sums.

(* ================================================================================================ *)
(* E. evaluate_sum                                                                                     *)
(* ================================================================================================ *)
Lemma str_eqb_refl : forall a, str_eqb a a = true.
Proof. induction a as [|x a IH]; simpl; [reflexivity|]. rewrite Z.eqb_refl, IH. reflexivity. Qed.

Lemma str_eqb_eq : forall a b, str_eqb a b = true <-> a = b.
Proof.
  induction a as [|x a IH]; destruct b as [|y b]; simpl; split; intro H; try discriminate; try reflexivity.
  - apply andb_true_iff in H. destruct H as [H1 H2]. apply Z.eqb_eq in H1. apply IH in H2. subst. reflexivity.
  - inversion H; subst. rewrite Z.eqb_refl. simpl. apply IH. reflexivity.
Qed.

Lemma mem_In : forall s l, mem s l = true <-> In s l.
Proof.
  intros s l. unfold mem. rewrite existsb_exists. split.
  - intros [x [Hx E]]. apply str_eqb_eq in E. subst. exact Hx.
  - intro H. exists s. split; [exact H | apply str_eqb_refl].
Qed.

Lemma bind_assoc : forall A B C (x : outcome A) (k : A -> outcome B) (k' : B -> outcome C),
  bind (bind x k) k' = bind x (fun a => bind (k a) k').
Proof. intros. destruct x; reflexivity. Qed.

Lemma cutoff_choice : forall a b cf c,
  evaluate_sum_cutoff (tb a) (tb b) cf c = Ret (if a || b then cf else c).
Proof. intros a b cf c. destruct a, b; reflexivity. Qed.

Section EvaluateSum.
  Context {V : Type}.
  Variables (vzero : V) (vadd : V -> V -> V).
  Variables (parses : str -> outcome unit) (uses_fact uses_factorial : str -> bool).
  Variable eval_limit : str -> list str -> nat -> outcome pyv.
  Variable scope_check : str -> list str -> str -> outcome unit.
  Variable eval_term : str -> list str -> str -> Z -> nat -> outcome V.
  Variable cfg : config.

  Local Notation esum := (evaluate_sum vzero vadd parses uses_fact uses_factorial eval_limit scope_check eval_term cfg).
  Local Notation eplan := (evaluate_sum_plan parses uses_fact uses_factorial eval_limit scope_check cfg).

  Definition any_fact (lower upper summand : str) : bool :=
    (uses_fact lower || uses_fact upper || uses_fact summand)
    || (uses_factorial lower || uses_factorial upper || uses_factorial summand).
  Definition cutoff_for (lower upper summand : str) : pyv :=
    if any_fact lower upper summand then c_infty_val_fact cfg else c_infty_val cfg.

  (* the model's evaluate_sum is the source's sequence ending in perform_summation(eval_summand, lower, upper, even_odd, infty_val) *)
  Lemma evaluate_sum_unfold : forall summand lower upper var scope i,
    esum summand lower upper var scope i =
    bind (evaluate_sum_pre (tb (mem var scope))) (fun _ =>
    bind (eval_limit lower scope i) (fun lo =>
    bind (eval_limit upper scope i) (fun hi =>
    bind (parses summand) (fun _ =>
    bind (evaluate_sum_limits lo hi) (fun _ =>
    bind (parses summand) (fun _ =>
    bind (scope_check summand scope var) (fun _ =>
    perform_summation vzero vadd (fun n => eval_term summand scope var n i) lo hi (c_even_odd cfg)
                      (cutoff_for lower upper summand)))))))).
  Proof.
    intros. unfold evaluate_sum, evaluate_sum_plan, perform_summation, cutoff_for, any_fact.
    rewrite cutoff_choice.
    destruct (evaluate_sum_pre (tb (mem var scope))); [| reflexivity]. cbn [bind].
    destruct (eval_limit lower scope i) as [lo|]; [| reflexivity]. cbn [bind].
    destruct (eval_limit upper scope i) as [hi|]; [| reflexivity]. cbn [bind].
    destruct (parses summand); [| reflexivity]. cbn [bind].
    destruct (evaluate_sum_limits lo hi); [| reflexivity]. cbn [bind].
    destruct (scope_check summand scope var); reflexivity.
  Qed.

  (* dummy_conflict_error (evaluate_sum part): the summation variable is already bound in the scope *)
  Theorem dummy_in_scope_error : forall summand lower upper var scope i,
    mem var scope = true -> esum summand lower upper var scope i = Raise (ESummation MConflict).
  Proof. intros. rewrite evaluate_sum_unfold. rewrite H. reflexivity. Qed.

  Section Limits.
    Variables (summand lower upper var : str) (scope : list str) (i : nat) (lo hi : pyv).
    Hypothesis Hvar : mem var scope = false.
    Hypothesis Hlo : eval_limit lower scope i = Ret lo.
    Hypothesis Hhi : eval_limit upper scope i = Ret hi.
    Hypothesis Hparse : parses summand = Ret tt.

    Lemma evaluate_sum_after_limits :
      esum summand lower upper var scope i =
      bind (evaluate_sum_limits lo hi) (fun _ =>
      bind (scope_check summand scope var) (fun _ =>
      perform_summation vzero vadd (fun n => eval_term summand scope var n i) lo hi (c_even_odd cfg)
                        (cutoff_for lower upper summand))).
    Proof. rewrite evaluate_sum_unfold, Hvar, Hlo, Hhi, Hparse. reflexivity. Qed.

    (* limit_errors *)
    Theorem complex_limit_error : lo = PCplx \/ (hi = PCplx /\ lo <> PExc) ->
      esum summand lower upper var scope i = Raise (ESummation MComplex).
    Proof.
      intro H. rewrite evaluate_sum_after_limits. unfold evaluate_sum_limits.
      destruct H as [H | [H N]]; subst.
      - reflexivity.
      - destruct lo as [x| | |]; try reflexivity. contradiction.
    Qed.

    Definition non_integer (q : Q) : Prop := ~ (inject_Z (qtrunc q) == q)%Q.

    Lemma lower_check_fails : forall q, non_integer q ->
      t_and (p_ne (p_abs (PNum (XFin q))) p_inf) (p_ne (p_int (PNum (XFin q))) (PNum (XFin q))) = TT.
    Proof.
      intros q H. unfold p_ne, p_eq, p_abs, p_int, p_inf, x_eq.
      destruct (Qeq_bool (inject_Z (qtrunc q)) q) eqn:E; [| reflexivity].
      apply Qeq_bool_iff in E. contradiction.
    Qed.

    Theorem noninteger_lower_error : forall q y, lo = PNum (XFin q) -> non_integer q -> hi = PNum y ->
      esum summand lower upper var scope i = Raise (ESummation MLowerInt).
    Proof.
      intros q y El Hq Eh. rewrite evaluate_sum_after_limits. unfold evaluate_sum_limits. subst lo hi.
      cbn [p_is_complex t_or tif bind]. rewrite lower_check_fails by exact Hq. reflexivity.
    Qed.

    Lemma limit_check_passes : forall l,
      t_and (p_ne (p_abs (pl l)) p_inf) (p_ne (p_int (pl l)) (pl l)) = FF.
    Proof.
      intros [z| |]; try reflexivity. unfold pl. rewrite p_abs_lit, p_int_lit, p_ne_lit, Z.eqb_refl.
      change (p_ne (p_lit (Z.abs z)) p_inf) with TT. reflexivity.
    Qed.

    Theorem noninteger_upper_error : forall l q, lo = pl l -> hi = PNum (XFin q) -> non_integer q ->
      esum summand lower upper var scope i = Raise (ESummation MUpperInt).
    Proof.
      intros l q El Eh Hq. rewrite evaluate_sum_after_limits. unfold evaluate_sum_limits. subst lo hi.
      replace (t_or (p_is_complex (pl l)) (p_is_complex (PNum (XFin q)))) with FF by (destruct l; reflexivity).
      cbn [tif bind]. rewrite limit_check_passes. cbn [tif bind]. rewrite lower_check_fails by exact Hq. reflexivity.
    Qed.

    Lemma limits_ok : forall l h, evaluate_sum_limits (pl l) (pl h) = Ret tt.
    Proof.
      intros l h. unfold evaluate_sum_limits.
      replace (t_or (p_is_complex (pl l)) (p_is_complex (pl h))) with FF by (destruct l, h; reflexivity).
      cbn [tif bind]. rewrite !limit_check_passes. reflexivity.
    Qed.

    (* integer / infinite limits: the sum over the index set, with the cutoff chosen by the use of factorials *)
    Theorem evaluate_sum_spec : forall l h eo c cf,
      scope_check summand scope var = Ret tt ->
      lo = pl l -> hi = pl h -> c_even_odd cfg = p_lit eo ->
      c_infty_val cfg = p_lit c -> c_infty_val_fact cfg = p_lit cf ->
      esum summand lower upper var scope i =
      bounds_sum vzero vadd (fun n => eval_term summand scope var n i) eo
                 (code_bounds l h (if any_fact lower upper summand then cf else c)).
    Proof.
      intros l h eo c cf Hsc El Eh Eeo Ec Ecf. rewrite evaluate_sum_after_limits. subst lo hi.
      rewrite limits_ok. cbn [bind]. rewrite Hsc. cbn [bind]. rewrite Eeo. unfold cutoff_for. rewrite Ec, Ecf.
      destruct (any_fact lower upper summand); apply perform_summation_spec.
    Qed.

    Theorem same_infinity_error : forall eo c cf,
      scope_check summand scope var = Ret tt ->
      c_even_odd cfg = p_lit eo -> c_infty_val cfg = p_lit c -> c_infty_val_fact cfg = p_lit cf ->
      (lo = pl IPInf /\ hi = pl IPInf -> esum summand lower upper var scope i = Raise (ESummation MPosInf)) /\
      (lo = pl INInf /\ hi = pl INInf -> esum summand lower upper var scope i = Raise (ESummation MNegInf)).
    Proof.
      intros eo c cf Hsc Eeo Ec Ecf. split; intros [El Eh];
        rewrite (evaluate_sum_spec _ _ eo c cf Hsc El Eh Eeo Ec Ecf); reflexivity.
    Qed.
  End Limits.

  (* sum_reindex (renaming): the summation variable may be renamed freely *)
  Theorem rename_variable : forall s s' lower upper v v' scope i,
    mem v' scope = mem v scope -> parses s' = parses s ->
    uses_fact s' = uses_fact s -> uses_factorial s' = uses_factorial s ->
    scope_check s' scope v' = scope_check s scope v ->
    (forall n, eval_term s' scope v' n i = eval_term s scope v n i) ->
    esum s' lower upper v' scope i = esum s lower upper v scope i.
  Proof.
    intros s s' lower upper v v' scope i Hm Hp Hf Hff Hsc Ht.
    unfold evaluate_sum, evaluate_sum_plan. rewrite Hm, Hp, Hf, Hff, Hsc.
    match goal with |- bind ?p _ = bind ?p _ => destruct p as [[[a b] d]|]; [| reflexivity] end.
    cbn [bind sum_range]. unfold sum_over. rewrite (eval_all_ext _ (fun n => eval_term s scope v n i)); [reflexivity|].
    intros; apply Ht.
  Qed.
End EvaluateSum.

(* ================================================================================================ *)
(* F. the grader: input positions, pre-checks, author failures, verdict                              *)
(* ================================================================================================ *)
Lemma zmem_In : forall z l, zmem z l = true <-> In z l.
Proof.
  intros z l. induction l as [|x l IH]; simpl; [split; [discriminate | tauto]|].
  rewrite orb_true_iff, IH, Z.eqb_eq. tauto.
Qed.

Lemma has_dup_NoDup : forall l, has_dup l = false <-> NoDup l.
Proof.
  induction l as [|x l IH]; simpl.
  - split; [constructor | reflexivity].
  - rewrite orb_false_iff, IH. split.
    + intros [H1 H2]. constructor; [| exact H2]. intro Hin. apply zmem_In in Hin. congruence.
    + intro H. inversion H; subst. split; [| assumption].
      destruct (zmem x l) eqn:E; [apply zmem_In in E; contradiction | reflexivity].
Qed.

(* input_positions_spec: accepted exactly when the used positions are distinct and are 1..n; then shifted to 0-based *)
Theorem validate_input_positions_spec : forall pos,
  (NoDup (somes pos) /\ (forall z, In z (somes pos) -> 1 <= z <= Z.of_nat (length (somes pos))))
  -> validate_input_positions pos = Ret (map (option_map (fun z => z - 1)) pos).
Proof.
  intros pos [Hnd Hr]. unfold validate_input_positions.
  apply has_dup_NoDup in Hnd. rewrite Hnd.
  assert (C : consecutive_from_1 (somes pos) = true).
  { unfold consecutive_from_1. apply forallb_forall. intros z Hz. specialize (Hr z Hz).
    apply andb_true_iff. split; apply Z.leb_le; lia. }
  rewrite C. reflexivity.
Qed.

Theorem invalid_input_positions_config_error : forall pos,
  ~ (NoDup (somes pos) /\ (forall z, In z (somes pos) -> 1 <= z <= Z.of_nat (length (somes pos))))
  -> validate_input_positions pos = Raise EConfig.
Proof.
  intros pos H. unfold validate_input_positions.
  destruct (has_dup (somes pos)) eqn:D; [reflexivity|].
  destruct (consecutive_from_1 (somes pos)) eqn:C; [| reflexivity].
  exfalso. apply H. split; [apply has_dup_NoDup; exact D|].
  intros z Hz. unfold consecutive_from_1 in C. rewrite forallb_forall in C. specialize (C z Hz).
  apply andb_true_iff in C. destruct C as [C1 C2]. apply Z.leb_le in C1, C2. lia.
Qed.

(* consolidate_results *)
Fixpoint count_false (l : list bool) : nat :=
  match l with [] => O | true :: r => count_false r | false :: r => S (count_false r) end.

Lemma consolidate_go_spec : forall rs nf single failable,
  consolidate_go rs nf single failable = true <->
  (if single then count_false rs = O else (nf + count_false rs <= failable)%nat \/ count_false rs = O).
Proof.
  induction rs as [|r rs IH]; intros nf single failable; simpl.
  - destruct single; split; auto; intros; reflexivity.
  - destruct r.
    + apply IH.
    + destruct single; simpl.
      * split; [discriminate | intro H; discriminate].
      * destruct (Nat.ltb_spec failable (S nf)) as [L | G].
        -- split; [discriminate | intros [H | H]; [lia | discriminate]].
        -- rewrite IH. split; intros [H | H]; try (left; lia); try discriminate.
Qed.

Theorem consolidate_spec : forall rs failable,
  consolidate rs failable = true <->
  ((count_false rs <= failable)%nat \/ count_false rs = O) /\ (length rs = 1%nat -> count_false rs = O).
Proof.
  intros rs failable. unfold consolidate. rewrite consolidate_go_spec.
  destruct (Nat.eqb_spec (length rs) 1) as [E | N]; simpl.
  - split; [intro H; split; [right; exact H | intro; exact H] | intros [_ H]; apply H; exact E].
  - split; [intro H; split; [exact H | intro; contradiction] | intros [H _]; exact H].
Qed.

Lemma count_false_zero : forall rs, count_false rs = O <-> forallb (fun b => b) rs = true.
Proof.
  induction rs as [|r rs IH]; simpl; [tauto|]. destruct r; simpl; [exact IH | split; discriminate].
Qed.

Theorem consolidate_all_samples : forall rs, consolidate rs 0 = forallb (fun b => b) rs.
Proof.
  intro rs. apply eq_true_iff_eq. rewrite consolidate_spec, <- count_false_zero. split.
  - intros [[H | H] _]; lia.
  - intro H. split; [right; exact H | intro; exact H].
Qed.

Lemma seq_split : forall i n, (i < n)%nat -> seq 0 n = seq 0 i ++ i :: seq (S i) (n - S i).
Proof.
  intros i n H. assert (E : n = (i + S (n - S i))%nat) by lia.
  rewrite E at 1. rewrite seq_app. reflexivity.
Qed.

Section GraderProofs.
  Context {V : Type}.
  Variables (vzero : V) (vadd : V -> V -> V) (within : V -> V -> bool).
  Variables (parses : str -> outcome unit) (uses_fact uses_factorial : str -> bool).
  Variable eval_limit : str -> list str -> nat -> outcome pyv.
  Variable scope_check : str -> list str -> str -> outcome unit.
  Variable eval_term : str -> list str -> str -> Z -> nat -> outcome V.
  Variable valid_name : str -> outcome bool.
  Variable cfg : config.

  Local Notation efields := (evaluate_fields vzero vadd parses uses_fact uses_factorial eval_limit scope_check eval_term cfg).
  Local Notation aeval := (author_eval vzero vadd parses uses_fact uses_factorial eval_limit scope_check eval_term cfg).
  Local Notation seval := (student_eval vzero vadd parses uses_fact uses_factorial eval_limit scope_check eval_term cfg).
  Local Notation geval := (gen_evaluations vzero vadd parses uses_fact uses_factorial eval_limit scope_check eval_term cfg).
  Local Notation rcheck := (raw_check vzero vadd within parses uses_fact uses_factorial eval_limit scope_check eval_term cfg).
  Local Notation chk := (check vzero vadd within parses uses_fact uses_factorial eval_limit scope_check eval_term valid_name cfg).
  Local Notation cl := (call vzero vadd within parses uses_fact uses_factorial eval_limit scope_check eval_term valid_name cfg).
  Local Notation grd := (grade vzero vadd within parses uses_fact uses_factorial eval_limit scope_check eval_term valid_name cfg).
  Local Notation sscope := (student_scope cfg).

  (* ---- wrong number of inputs ---- *)
  Theorem wrong_count_config_error : forall tp inputs,
    count_used tp <> length inputs -> cl tp inputs = Raise EConfig.
  Proof.
    intros tp inputs H. unfold call, check, structure_input.
    destruct (Nat.eqb_spec (count_used tp) (length inputs)); [contradiction | reflexivity].
  Qed.

  (* ---- blank fields ---- *)
  Theorem blank_field_error : forall tp inputs fields,
    structure_input cfg tp inputs = Ret fields -> existsb is_empty fields = true ->
    cl tp inputs = Raise EMissing.
  Proof. intros tp inputs fields H E. unfold call, check. rewrite H. cbn [bind]. rewrite E. reflexivity. Qed.

  (* a box the student leaves empty is one of the structured fields *)
  Lemma student_blank_is_field : forall tp inputs fields k a,
    structure_input cfg tp inputs = Ret fields ->
    In (Some k, a) (combine tp (c_answers cfg)) -> nth (Z.to_nat k) inputs [] = [] ->
    existsb is_empty fields = true.
  Proof.
    intros tp inputs fields k a H Hin Hb. unfold structure_input in H.
    destruct (negb (count_used tp =? length inputs)%nat); [discriminate|]. inversion H; subst fields; clear H.
    apply existsb_exists. exists []. split; [| reflexivity].
    apply in_map_iff. exists (Some k, a). split; [simpl; exact Hb | exact Hin].
  Qed.

  (* ---- the dummy variable has another meaning / is not a name ---- *)
  Theorem dummy_reserved_error : forall tp inputs fields,
    structure_input cfg tp inputs = Ret fields -> existsb is_empty fields = false ->
    mem (f_var fields) (c_reserved cfg) = true -> cl tp inputs = Raise EInvalid.
  Proof.
    intros tp inputs fields H E M. unfold call, check. rewrite H. cbn [bind]. rewrite E.
    unfold validate_dummy. rewrite M. reflexivity.
  Qed.

  Theorem dummy_invalid_name_error : forall tp inputs fields,
    structure_input cfg tp inputs = Ret fields -> existsb is_empty fields = false ->
    mem (f_var fields) (c_reserved cfg) = false -> valid_name (f_var fields) = Ret false ->
    cl tp inputs = Raise EInvalid.
  Proof.
    intros tp inputs fields H E M N. unfold call, check. rewrite H. cbn [bind]. rewrite E.
    unfold validate_dummy. rewrite M, N. reflexivity.
  Qed.

  (* ---- evaluation of all samples ---- *)
  Lemma gen_evaluations_ok : forall student (A S : nat -> V) todo,
    (forall i, In i todo -> aeval i = Ret (A i) /\ seval student i = Ret (S i)) ->
    geval student todo = Ret (map (fun i => (A i, S i)) todo).
  Proof.
    intros student A S todo. induction todo as [|i todo IH]; intro H; simpl; [reflexivity|].
    destruct (H i (or_introl eq_refl)) as [Ha Hs]. rewrite Ha, Hs. cbn [bind].
    rewrite IH by (intros; apply H; right; assumption). reflexivity.
  Qed.

  (* author_failure_is_config_error (the guarded part): a library error while evaluating the author's sum *)
  Lemma gen_evaluations_author_failure : forall student todo1 i todo2 e,
    (forall j, In j todo1 -> exists a s, aeval j = Ret a /\ seval student j = Ret s) ->
    efields (c_answers cfg) (c_scope cfg) i = Raise e -> is_mitx e = true ->
    geval student (todo1 ++ i :: todo2) = Raise EConfig.
  Proof.
    intros student todo1 i todo2 e. induction todo1 as [|j todo1 IH]; intros Hok He Hm; simpl.
    - unfold author_eval. rewrite He, Hm. reflexivity.
    - destruct (Hok j (or_introl eq_refl)) as [a [s [Ha Hs]]]. rewrite Ha, Hs. cbn [bind].
      rewrite IH; [reflexivity | intros; apply Hok; right; assumption | exact He | exact Hm].
  Qed.

  (* a student-side error at sample i (author fine up to and including i) is passed on unchanged *)
  Lemma gen_evaluations_student_failure : forall student todo1 i todo2 e a,
    (forall j, In j todo1 -> exists a s, aeval j = Ret a /\ seval student j = Ret s) ->
    aeval i = Ret a -> seval student i = Raise e ->
    geval student (todo1 ++ i :: todo2) = Raise e.
  Proof.
    intros student todo1 i todo2 e a. induction todo1 as [|j todo1 IH]; intros Hok Ha He; simpl.
    - rewrite Ha, He. reflexivity.
    - destruct (Hok j (or_introl eq_refl)) as [a' [s [Ha' Hs]]]. rewrite Ha', Hs. cbn [bind].
      rewrite IH; [reflexivity | intros; apply Hok; right; assumption | exact Ha | exact He].
  Qed.

  Section Accepted.
    (* a submission that passes the pre-checks *)
    Variables (tp : list (option Z)) (inputs fields : list str).
    Hypothesis Hstruct : structure_input cfg tp inputs = Ret fields.
    Hypothesis Hnonblank : existsb is_empty fields = false.
    Hypothesis Hdummy : validate_dummy valid_name cfg (f_var fields) = Ret tt.
    Hypothesis Hparse : parse_all parses (c_answers cfg ++ fields) = Ret tt.

    Lemma check_is_raw_check : chk tp inputs = rcheck fields.
    Proof. unfold check. rewrite Hstruct. cbn [bind]. rewrite Hnonblank, Hdummy. reflexivity. Qed.

    Theorem author_failure_is_config_error_guarded : forall i e,
      (i < c_samples cfg)%nat ->
      (forall j, (j < i)%nat -> exists a s, aeval j = Ret a /\ seval fields j = Ret s) ->
      efields (c_answers cfg) (c_scope cfg) i = Raise e -> is_mitx e = true ->
      cl tp inputs = Raise EConfig.
    Proof.
      intros i e Hi Hok He Hm. unfold call. rewrite check_is_raw_check. unfold raw_check. rewrite Hparse. cbn [bind].
      rewrite (seq_split i _ Hi).
      rewrite (gen_evaluations_author_failure fields (seq 0 i) i _ e); [reflexivity | | exact He | exact Hm].
      intros j Hj. apply in_seq in Hj. apply Hok. lia.
    Qed.

    Theorem student_error_is_passed_on : forall i e a,
      (i < c_samples cfg)%nat ->
      (forall j, (j < i)%nat -> exists a s, aeval j = Ret a /\ seval fields j = Ret s) ->
      aeval i = Ret a -> seval fields i = Raise e -> e <> EOther ->
      cl tp inputs = Raise e.
    Proof.
      intros i e a Hi Hok Ha He Hne. unfold call. rewrite check_is_raw_check. unfold raw_check. rewrite Hparse. cbn [bind].
      rewrite (seq_split i _ Hi).
      rewrite (gen_evaluations_student_failure fields (seq 0 i) i _ e a); [| | exact Ha | exact He].
      - cbn [bind]. destruct e; try reflexivity. contradiction.
      - intros j Hj. apply in_seq in Hj. apply Hok. lia.
    Qed.

    (* the verdict: with failable_evals = 0, correct exactly when every sample is within tolerance *)
    Theorem verdict_general : forall (A S : nat -> V),
      (forall i, (i < c_samples cfg)%nat -> aeval i = Ret (A i) /\ seval fields i = Ret (S i)) ->
      cl tp inputs = Ret (consolidate (map (fun i => within (A i) (S i)) (seq 0 (c_samples cfg))) (c_failable cfg)).
    Proof.
      intros A S H. unfold call. rewrite check_is_raw_check. unfold raw_check. rewrite Hparse. cbn [bind].
      rewrite (gen_evaluations_ok fields A S).
      - cbn [bind]. rewrite map_map. reflexivity.
      - intros i Hi. apply in_seq in Hi. apply H. lia.
    Qed.

    Theorem graded_correct_iff : forall (A S : nat -> V),
      c_failable cfg = O ->
      (forall i, (i < c_samples cfg)%nat -> aeval i = Ret (A i) /\ seval fields i = Ret (S i)) ->
      exists b, cl tp inputs = Ret b /\
                (b = true <-> forall i, (i < c_samples cfg)%nat -> within (A i) (S i) = true).
    Proof.
      intros A S Hf H. eexists. split; [apply (verdict_general A S H)|].
      rewrite Hf, consolidate_all_samples, forallb_forall. split.
      - intros Hall i Hi. apply (Hall (within (A i) (S i))). apply in_map_iff. exists i. split; [reflexivity|].
        apply in_seq. lia.
      - intros Hall b Hb. apply in_map_iff in Hb. destruct Hb as [i [E Hi]]. apply in_seq in Hi. subst b. apply Hall. lia.
    Qed.
  End Accepted.

  (* ---- instructor-only variables ---- *)
  Lemma instructor_var_hidden : forall v,
    In v (c_instructor cfg) -> mem v (c_scope cfg) = true -> mem v sscope = false.
  Proof.
    intros v Hi Hs. unfold student_scope.
    destruct (mem v (filter (fun x => negb (mem x (blacklist cfg))) (c_scope cfg))) eqn:E; [| reflexivity].
    apply mem_In in E. apply filter_In in E. destruct E as [_ E].
    assert (B : mem v (blacklist cfg) = true).
    { apply mem_In. unfold blacklist. apply filter_In. split; assumption. }
    rewrite B in E. discriminate.
  Qed.

  Lemma other_vars_visible : forall v, mem v (blacklist cfg) = false -> mem v sscope = mem v (c_scope cfg).
  Proof using cfg.
    intros v Hb. unfold student_scope. apply eq_true_iff_eq. rewrite !mem_In, filter_In. split.
    - intros [H _]. exact H.
    - intro H. split; [exact H | rewrite Hb; reflexivity].
  Qed.

End GraderProofs.

Section StudentEval.
  Context {V : Type}.
  Variables (vzero : V) (vadd : V -> V -> V).
  Variables (parses : str -> outcome unit) (uses_fact uses_factorial : str -> bool).
  Variable eval_limit : str -> list str -> nat -> outcome pyv.
  Variable scope_check : str -> list str -> str -> outcome unit.
  Variable eval_term : str -> list str -> str -> Z -> nat -> outcome V.
  Variable cfg : config.
  Local Notation efields := (evaluate_fields vzero vadd parses uses_fact uses_factorial eval_limit scope_check eval_term cfg).
  Local Notation seval := (student_eval vzero vadd parses uses_fact uses_factorial eval_limit scope_check eval_term cfg).
  Local Notation sscope := (student_scope cfg).

  (* dummy_conflict_error, full strength: EVERY name bound in the sample dictionaries (variables, constants, also the
     instructor-only ones) is refused as the student's summation variable *)
  Theorem dummy_in_problem_scope_error : forall student i,
    mem (f_var student) (c_scope cfg) = true -> seval student i = Raise (ESummation MConflict).
  Proof.
    intros student i H. unfold student_eval.
    destruct (mem (f_var student) (blacklist cfg)) eqn:B; [reflexivity|].
    unfold evaluate_fields. apply dummy_in_scope_error. rewrite (other_vars_visible cfg (f_var student) B). exact H.
  Qed.

  Lemma student_eval_other : forall student i,
    mem (f_var student) (blacklist cfg) = false -> seval student i = efields student sscope i.
  Proof. intros student i B. unfold student_eval. rewrite B. reflexivity. Qed.
End StudentEval.

(* ================================================================================================ *)
(* G. instructor-only variables in the student's fields                                               *)
(* ================================================================================================ *)
Section InstructorVars.
  Context {V : Type}.
  Variables (vzero : V) (vadd : V -> V -> V).
  Variables (parses : str -> outcome unit) (uses_fact uses_factorial : str -> bool).
  Variable eval_limit : str -> list str -> nat -> outcome pyv.
  Variable scope_check : str -> list str -> str -> outcome unit.
  Variable eval_term : str -> list str -> str -> Z -> nat -> outcome V.
  Variable cfg : config.
  (* the evaluator checks the scope before it evaluates (C09 / C10): an expression mentioning a name that is not in
     the scope it is given raises the undefined-variable error; check_scope is that very test *)
  Variable mentions : str -> str -> bool.
  Hypothesis limit_scope_checked : forall s sc i v,
    mentions s v = true -> mem v sc = false -> eval_limit s sc i = Raise ECalc.
  Hypothesis summand_scope_checked : forall s sc x v,
    mentions s v = true -> mem v sc = false -> str_eqb v x = false -> scope_check s sc x = Raise ECalc.

  Local Notation esum := (evaluate_sum vzero vadd parses uses_fact uses_factorial eval_limit scope_check eval_term cfg).

  (* wherever the instructor variable is used, the student's sum is never evaluated to a value ... *)
  Theorem instructor_var_never_evaluates : forall summand lower upper var v i,
    In v (c_instructor cfg) -> mem v (c_scope cfg) = true -> str_eqb v var = false ->
    mentions lower v = true \/ mentions upper v = true \/ mentions summand v = true ->
    exists e, esum summand lower upper var (student_scope cfg) i = Raise e.
  Proof.
    intros summand lower upper var v i Hi Hs Hx Hm.
    pose proof (instructor_var_hidden cfg v Hi Hs) as Hid.
    rewrite evaluate_sum_unfold.
    destruct (evaluate_sum_pre (tb (mem var (student_scope cfg)))) as [u|e]; [| exists e; reflexivity]. cbn [bind].
    destruct (eval_limit lower (student_scope cfg) i) as [lo|e] eqn:El; [| exists e; reflexivity]. cbn [bind].
    destruct (eval_limit upper (student_scope cfg) i) as [hi|e] eqn:Eh; [| exists e; reflexivity]. cbn [bind].
    destruct (parses summand) as [u1|e]; [| exists e; reflexivity]. cbn [bind].
    destruct (evaluate_sum_limits lo hi) as [u2|e]; [| exists e; reflexivity]. cbn [bind].
    destruct Hm as [Hm | [Hm | Hm]].
    - rewrite (limit_scope_checked lower _ i v Hm Hid) in El. discriminate.
    - rewrite (limit_scope_checked upper _ i v Hm Hid) in Eh. discriminate.
    - rewrite (summand_scope_checked summand _ var v Hm Hid Hx). exists ECalc. reflexivity.
  Qed.

  (* ... and when the rest of the submission is well-formed the error is the evaluator's undefined-variable error,
     also when the index set is empty *)
  Theorem instructor_var_rejected : forall summand lower upper var v i,
    In v (c_instructor cfg) -> mem v (c_scope cfg) = true -> mem var (student_scope cfg) = false ->
    (mentions lower v = true -> esum summand lower upper var (student_scope cfg) i = Raise ECalc) /\
    (forall lo, eval_limit lower (student_scope cfg) i = Ret lo -> mentions upper v = true ->
       esum summand lower upper var (student_scope cfg) i = Raise ECalc) /\
    (forall lo hi, eval_limit lower (student_scope cfg) i = Ret lo -> eval_limit upper (student_scope cfg) i = Ret hi ->
       parses summand = Ret tt -> evaluate_sum_limits lo hi = Ret tt ->
       mentions summand v = true -> str_eqb v var = false ->
       esum summand lower upper var (student_scope cfg) i = Raise ECalc).
  Proof.
    intros summand lower upper var v i Hi Hs Hvar.
    pose proof (instructor_var_hidden cfg v Hi Hs) as Hid.
    split; [| split].
    - intro Hm. rewrite evaluate_sum_unfold, Hvar. cbn [tb evaluate_sum_pre tif bind].
      rewrite (limit_scope_checked lower _ i v Hm Hid). reflexivity.
    - intros lo Hlo Hm. rewrite evaluate_sum_unfold, Hvar. cbn [tb evaluate_sum_pre tif bind].
      rewrite Hlo. cbn [bind]. rewrite (limit_scope_checked upper _ i v Hm Hid). reflexivity.
    - intros lo hi Hlo Hhi Hp Hl Hm Hx. rewrite evaluate_sum_unfold, Hvar. cbn [tb evaluate_sum_pre tif bind].
      rewrite Hlo, Hhi. cbn [bind]. rewrite Hp. cbn [bind]. rewrite Hl. cbn [bind].
      rewrite (summand_scope_checked summand _ var v Hm Hid Hx). reflexivity.
  Qed.
End InstructorVars.
