(* Proofs/SummationGen.v -- the C19 theorems about perform_summation / the evaluate_sum fragments, restated on the
   definitions REGENERATED from integralgrader.py (through Bridge/Summation.v), plus the concrete worlds used by
   the non-vacuity examples and the _refuted witnesses of Props/C19.v *)
From Coq Require Import ZArith QArith Bool List Lia Permutation Sorted.
From Verif.Lib Require Import SummationPy.
From Verif.Gen Require Summation.
From Verif.Model Require Import Summation.
From Verif.Bridge Require Import Summation.
From Verif.Proofs Require Import Summation.
Import ListNotations.
Open Scope Z_scope.

Section Gen.
  Context {V : Type}.
  Variables (vzero : V) (vadd : V -> V -> V).

  Lemma gen_sum_spec : forall (f : Z -> outcome V) lo hi eo cut,
    Gen.Summation.gen_perform_summation vzero vadd f (pl lo) (pl hi) (p_lit eo) (p_lit cut)
    = bounds_sum vzero vadd f eo (code_bounds lo hi cut).
  Proof. intros. rewrite perform_summation_bridge. apply perform_summation_spec. Qed.

  Lemma gen_plan_spec : forall lo hi eo cut,
    Gen.Summation.gen_summation_plan (pl lo) (pl hi) (p_lit eo) (p_lit cut) =
    match code_bounds lo hi cut with
    | Bounds l h => Ret (adjust eo l, h + 1, step_of eo)
    | BErr m => Raise (ESummation m)
    end.
  Proof. intros. rewrite summation_plan_bridge. apply summation_plan_spec. Qed.

  Lemma gen_sum_symmetric : forall (f : Z -> outcome V) lo hi eo cut,
    Gen.Summation.gen_perform_summation vzero vadd f (pl lo) (pl hi) (p_lit eo) (p_lit cut)
    = Gen.Summation.gen_perform_summation vzero vadd f (pl hi) (pl lo) (p_lit eo) (p_lit cut).
  Proof. intros. rewrite !perform_summation_bridge. apply perform_summation_symmetric. Qed.

  Lemma gen_sum_shift : forall (f : Z -> outcome V) a b eo cut s, shift_ok eo s ->
    Gen.Summation.gen_perform_summation vzero vadd (fun k => f (k - s)) (pl (IFin (a + s))) (pl (IFin (b + s))) (p_lit eo) (p_lit cut)
    = Gen.Summation.gen_perform_summation vzero vadd f (pl (IFin a)) (pl (IFin b)) (p_lit eo) (p_lit cut).
  Proof. intros. rewrite !perform_summation_bridge. apply perform_summation_shift. assumption. Qed.

  Lemma gen_sum_reverse :
    (forall x y z, vadd x (vadd y z) = vadd (vadd x y) z) -> (forall x y, vadd x y = vadd y x) ->
    forall (g : Z -> V) a b eo cut,
    Gen.Summation.gen_perform_summation vzero vadd (fun k => Ret (g (- k))) (pl (IFin (- b))) (pl (IFin (- a))) (p_lit eo) (p_lit cut)
    = Gen.Summation.gen_perform_summation vzero vadd (fun k => Ret (g k)) (pl (IFin a)) (pl (IFin b)) (p_lit eo) (p_lit cut).
  Proof. intros A C g a b eo cut. rewrite !perform_summation_bridge. apply perform_summation_reverse; assumption. Qed.

  Lemma gen_cutoff_upper : forall (f : Z -> outcome V) a eo cut, a <= cut ->
    Gen.Summation.gen_perform_summation vzero vadd f (pl (IFin a)) (pl IPInf) (p_lit eo) (p_lit cut)
    = Gen.Summation.gen_perform_summation vzero vadd f (pl (IFin a)) (pl (IFin cut)) (p_lit eo) (p_lit cut).
  Proof. intros. rewrite !perform_summation_bridge. apply infinite_cutoff_upper. assumption. Qed.

  Lemma gen_cutoff_lower : forall (f : Z -> outcome V) a eo cut, - cut <= a ->
    Gen.Summation.gen_perform_summation vzero vadd f (pl INInf) (pl (IFin a)) (p_lit eo) (p_lit cut)
    = Gen.Summation.gen_perform_summation vzero vadd f (pl (IFin (- cut))) (pl (IFin a)) (p_lit eo) (p_lit cut).
  Proof. intros. rewrite !perform_summation_bridge. apply infinite_cutoff_lower. assumption. Qed.

  Lemma gen_cutoff_both : forall (f : Z -> outcome V) eo cut, 0 <= cut ->
    Gen.Summation.gen_perform_summation vzero vadd f (pl INInf) (pl IPInf) (p_lit eo) (p_lit cut)
    = Gen.Summation.gen_perform_summation vzero vadd f (pl (IFin (- cut))) (pl (IFin cut)) (p_lit eo) (p_lit cut).
  Proof. intros. rewrite !perform_summation_bridge. apply infinite_cutoff_both. assumption. Qed.

  Lemma gen_beyond_cutoff : forall (f : Z -> outcome V) a eo cut, cut < a ->
    Gen.Summation.gen_perform_summation vzero vadd f (pl (IFin a)) (pl IPInf) (p_lit eo) (p_lit cut) = Ret vzero.
  Proof. intros. rewrite perform_summation_bridge. apply beyond_cutoff_is_empty. assumption. Qed.
End Gen.

(* the regenerated limit checks *)
Lemma gen_limits_complex : forall lo hi, lo = PCplx \/ (hi = PCplx /\ lo <> PExc) ->
  Gen.Summation.gen_evaluate_sum_limits lo hi = Raise (ESummation MComplex).
Proof.
  intros lo hi H. rewrite evaluate_sum_limits_bridge. unfold evaluate_sum_limits.
  destruct H as [H | [H N]]; subst; [reflexivity|]. destruct lo as [x| | |]; try reflexivity. contradiction.
Qed.

Lemma gen_limits_integers_pass : forall l h, Gen.Summation.gen_evaluate_sum_limits (pl l) (pl h) = Ret tt.
Proof.
  intros l h. rewrite evaluate_sum_limits_bridge. unfold evaluate_sum_limits.
  replace (t_or (p_is_complex (pl l)) (p_is_complex (pl h))) with FF by (destruct l, h; reflexivity).
  cbn [tif bind].
  assert (P : forall x, t_and (p_ne (p_abs (pl x)) p_inf) (p_ne (p_int (pl x)) (pl x)) = FF).
  { intros [z| |]; try reflexivity. unfold pl. rewrite p_abs_lit, p_int_lit, p_ne_lit, Z.eqb_refl.
    change (p_ne (p_lit (Z.abs z)) p_inf) with TT. reflexivity. }
  rewrite !P. reflexivity.
Qed.

Lemma gen_pre_conflict : Gen.Summation.gen_evaluate_sum_pre TT = Raise (ESummation MConflict)
                         /\ Gen.Summation.gen_evaluate_sum_pre FF = Ret tt.
Proof. split; reflexivity. Qed.

Lemma gen_cutoff_choice : forall a b cf c,
  Gen.Summation.gen_evaluate_sum_cutoff (tb a) (tb b) cf c = Ret (if a || b then cf else c).
Proof. intros. rewrite evaluate_sum_cutoff_bridge. apply cutoff_choice. Qed.

(* ------------------------------------------------------------------------------------------------ *)
(* concrete worlds for the examples: values are integers, expressions are looked up in tables        *)
(* ------------------------------------------------------------------------------------------------ *)
Definition S1 : str := [49].      (* "1" *)
Definition S2 : str := [50].      (* "2" *)
Definition S4 : str := [52].      (* "4" *)
Definition Sn : str := [110].     (* "n" *)
Definition Sk : str := [107].     (* "k" *)
Definition Sc : str := [99].      (* "c" : an instructor variable *)
Definition Snn : str := [110; 94; 50].    (* "n^2" *)
Definition Skk : str := [107; 94; 50].    (* "k^2" *)
Definition Scc : str := [99; 94; 50].     (* "c^2" *)
Definition Scn : str := [99; 42; 110].    (* "c*n" *)
Definition Sbad : str := [110; 43].       (* "n+"  : does not parse *)
Definition Sws : str := [32].             (* " "   : evaluates to nan *)
Definition Ssin : str := [115; 105; 110]. (* "sin" *)

Definition w_parses (s : str) : outcome unit := if str_eqb s Sbad then Raise ECalc else Ret tt.
Definition w_limit (s : str) (_ : list str) (_ : nat) : outcome pyv :=
  if str_eqb s S1 then Ret (p_lit 1) else if str_eqb s S2 then Ret (p_lit 2) else if str_eqb s S4 then Ret (p_lit 4)
  else if str_eqb s Sws then Ret (PNum XNaN) else Raise ECalc.
(* "n^2" / "k^2" / "c^2" square their own variable; "c*n" needs c in the scope *)
Definition w_term (s : str) (scope : list str) (x : str) (n : Z) (_ : nat) : outcome Z :=
  if (str_eqb s Snn && str_eqb x Sn) || (str_eqb s Skk && str_eqb x Sk) || (str_eqb s Scc && str_eqb x Sc) then Ret (n * n)
  else if str_eqb s Sn && str_eqb x Sn then Ret n
  else if str_eqb s Scn && str_eqb x Sn then (if mem Sc scope then Ret (3 * n) else Raise ECalc)
  else Raise ECalc.
(* check_scope of the summand: "c*n" uses c, every other summand only its own variable *)
Definition w_scope (s : str) (scope : list str) (x : str) : outcome unit :=
  if str_eqb s Scn then (if mem Sc scope || str_eqb x Sc then Ret tt else Raise ECalc) else Ret tt.
Definition w_valid (s : str) : outcome bool := Ret true.
Definition w_cfg (answers : list str) (pos : list (option Z)) (eo : Z) (instr scope : list str) : config :=
  mkConfig pos answers instr (p_lit eo) (p_lit 1000) (p_lit 80) 2 0 scope [Ssin].
Definition w_grade (cfg : config) (inputs : list str) : outcome bool :=
  grade 0 Z.add Z.eqb w_parses (fun _ => false) (fun _ => false) w_limit w_scope w_term w_valid cfg inputs.
Definition w_author_sum (cfg : config) : outcome Z :=
  evaluate_fields 0 Z.add w_parses (fun _ => false) (fun _ => false) w_limit w_scope w_term cfg (c_answers cfg) (c_scope cfg) 0.

Definition all_four : list (option Z) := [Some 1; Some 2; Some 3; Some 4].

(* non-vacuity: sum_{n=1}^{4} n^2 = 30, entered as sum_{k=4}^{1} k^2 *)
Lemma ex_graded_correct :
  w_grade (w_cfg [S1; S4; Snn; Sn] all_four 0 [] []) [S4; S1; Skk; Sk] = Ret true
  /\ w_author_sum (w_cfg [S1; S4; Snn; Sn] all_four 0 [] []) = Ret 30.
Proof. split; vm_compute; reflexivity. Qed.

Lemma ex_graded_incorrect :
  w_grade (w_cfg [S1; S4; Snn; Sn] all_four 0 [] []) [S1; S2; Skk; Sk] = Ret false.
Proof. vm_compute. reflexivity. Qed.

Lemma ex_parity :
  map (fun eo => Gen.Summation.gen_perform_summation 0 Z.add (fun n => Ret n) (p_lit 5) (p_lit 1) (p_lit eo) (p_lit 1000))
      [0; 1; 2] = [Ret 15; Ret 9; Ret 6]
  /\ Gen.Summation.gen_perform_summation 0 Z.add (fun n => Ret n) (p_lit 1) (PNum XPInf) (p_lit 0) (p_lit 1000) = Ret 500500
  /\ Gen.Summation.gen_summation_plan (p_lit (-3)) (p_lit 4) (p_lit 1) (p_lit 1000) = Ret (-3, 5, 2)
  /\ Gen.Summation.gen_summation_plan (p_lit 2) (p_lit 2) (p_lit 1) (p_lit 1000) = Ret (3, 3, 2).
Proof. repeat split; vm_compute; reflexivity. Qed.

(* a finite limit beyond the cutoff: the limits are sorted before infinity is replaced, the range is empty *)
Lemma ex_limit_beyond_cutoff :
  Gen.Summation.gen_perform_summation 0 Z.add (fun n => Ret n) (p_lit 5) (PNum XPInf) (p_lit 0) (p_lit 3) = Ret 0.
Proof. vm_compute. reflexivity. Qed.

(* ---- refutations of the full-strength error statements (the model follows the code) ---- *)
(* (1) failures in the author's own sum that are NOT reported as configuration errors *)
Definition author_blank_cfg := w_cfg [[]; S4; Snn; Sn] [None; None; Some 1; None] 0 [] [].
Definition author_unparsable_cfg := w_cfg [S1; S4; Sbad; Sn] all_four 0 [] [].
Definition author_nan_cfg := w_cfg [Sws; S4; Snn; Sn] all_four 0 [] [].
Definition author_reserved_cfg := w_cfg [S1; S4; S2; Ssin] [None; None; Some 1; None] 0 [] [].

Lemma author_failure_refuted :
  (* blank author field the student cannot fill in: MissingInput *)
  (w_grade author_blank_cfg [Snn] = Raise EMissing) /\
  (* author's summation variable is a function name, not entered by the student: InvalidInput *)
  (w_grade author_reserved_cfg [S2] = Raise EInvalid) /\
  (* author's summand does not parse: the parser's student-facing error *)
  (w_grade author_unparsable_cfg [S1; S4; Snn; Sn] = Raise ECalc) /\
  (* author's limit evaluates to nan: int(nan) raises ValueError, which is not an MITxError *)
  (w_author_sum author_nan_cfg = Raise EOther /\ w_grade author_nan_cfg [S1; S4; Snn; Sn] = Raise EGeneric).
Proof. repeat split; vm_compute; reflexivity. Qed.

(* ---- the two repaired defects (fix commits 390fac8, e54e9a1 in /repo): now positive examples ---- *)
(* an instructor-only variable in a summand over an EMPTY index set is rejected like over a non-empty one *)
Definition instr_cfg (lo hi : str) (eo : Z) := w_cfg [lo; hi; Sn; Sn] all_four eo [Sc] [Sc].
Lemma ex_instructor_var_rejected :
  w_grade (instr_cfg S2 S2 1) [S2; S2; Scn; Sn] = Raise ECalc
  /\ w_grade (instr_cfg S1 S2 0) [S1; S2; Scn; Sn] = Raise ECalc
  (* the author may use it *)
  /\ w_grade (w_cfg [S1; S2; Scn; Sn] all_four 0 [Sc] [Sc]) [S1; S2; Sn; Sn] = Ret false.
Proof. repeat split; vm_compute; reflexivity. Qed.

(* an instructor-only variable is refused as the student's summation variable *)
Lemma ex_instructor_var_as_dummy_rejected :
  mem Sc (c_scope (w_cfg [S1; S2; Snn; Sn] all_four 0 [Sc] [Sc])) = true
  /\ w_grade (w_cfg [S1; S2; Snn; Sn] all_four 0 [Sc] [Sc]) [S1; S2; Scc; Sc] = Raise (ESummation MConflict).
Proof. split; vm_compute; reflexivity. Qed.
