(* Proofs/ComparersCredit.v -- MatrixEntryComparer credit, LinearComparer modes, shape-mismatch policy (C16) *)
From Coq Require Import ZArith QArith Qround Qabs Lia Lqa List Bool Setoid Morphisms.
From Verif.Lib Require Import QRound.
From Verif.Model Require Import Result Comparers.
From Verif.Proofs Require Import Credit ComparersLA Comparers.
Import ListNotations.
Open Scope Q_scope.

Arguments Qred : simpl never.

(* the grade a comparer result stands for (ItemGrader.standardize_cfn_return) *)
Definition cgrade (r : cres) : option Q :=
  match r with CBool true => Some 1 | CBool false => Some 0 | CDict g _ => Some g | CRaise _ => None end.

Lemma standardize_grade r en : standardize r = inl en -> cgrade r = Some (e_grade en) /\ e_ok en = grade_to_ok (e_grade en).
Proof.
  destruct r as [[|]|g m|e]; simpl; intro H; inversion H; subst; simpl; split; reflexivity.
Qed.

(* =========================================================================================== *)
(* MatrixEntryComparer                                                                           *)
(* =========================================================================================== *)
Definition all_match (locs : list bool) : bool := forallb (fun b => b) locs.
Definition none_match (locs : list bool) : bool := forallb negb locs.

Lemma count_true_le l : (count_true l <= length l)%nat.
Proof. unfold count_true. induction l as [|[|] l IH]; simpl; lia. Qed.

Lemma count_true_all l : count_true l = length l <-> all_match l = true.
Proof.
  unfold count_true, all_match. induction l as [|[|] l IH]; simpl.
  - tauto.
  - rewrite <- IH. split; intro H; lia.
  - pose proof (count_true_le l) as L. unfold count_true in L. split; [lia | discriminate].
Qed.

Lemma count_true_none l : count_true l = 0%nat <-> none_match l = true.
Proof.
  unfold count_true, none_match. induction l as [|[|] l IH]; simpl.
  - tauto.
  - split; [lia | discriminate].
  - exact IH.
Qed.

Definition partial_value (pc : partial_credit) (locs : list bool) : Q :=
  match pc with
  | PCFlat q => q
  | PCProp => inject_Z (Z.of_nat (count_true locs)) / inject_Z (Z.of_nat (length locs))
  end.

(* the three-way rule *)
Theorem entry_credit_spec pc locs : locs <> [] ->
  (all_match locs = true -> entry_credit pc locs = CBool true) /\
  (none_match locs = true -> entry_credit pc locs = CDict 0 (MsgEntries locs)) /\
  (all_match locs = false -> none_match locs = false ->
     entry_credit pc locs = CDict (partial_value pc locs) (MsgEntries locs)).
Proof.
  intro Hne. unfold entry_credit. repeat split.
  - intro H. apply count_true_all in H. rewrite H, Nat.eqb_refl. reflexivity.
  - intro H. apply count_true_none in H. rewrite H.
    destruct locs as [|b locs]; [contradiction|]. simpl length. simpl. reflexivity.
  - intros H1 H2.
    destruct (Nat.eqb (count_true locs) (length locs)) eqn:E1.
    { apply Nat.eqb_eq in E1. apply count_true_all in E1. congruence. }
    destruct (Nat.eqb (count_true locs) 0) eqn:E2.
    { apply Nat.eqb_eq in E2. apply count_true_none in E2. congruence. }
    destruct pc; reflexivity.
Qed.

Lemma frac_lt_1 k n : (0 < k)%nat -> (k < n)%nat ->
  0 < inject_Z (Z.of_nat k) / inject_Z (Z.of_nat n) /\ inject_Z (Z.of_nat k) / inject_Z (Z.of_nat n) < 1.
Proof.
  intros Hk Hn.
  assert (A : 0 < inject_Z (Z.of_nat k)) by (change 0 with (inject_Z 0); rewrite <- Zlt_Qlt; lia).
  assert (B : inject_Z (Z.of_nat k) < inject_Z (Z.of_nat n)) by (rewrite <- Zlt_Qlt; lia).
  split.
  - apply Qlt_shift_div_l; lra.
  - apply Qlt_shift_div_r; lra.
Qed.

(* the proportional credit is the fraction of matching entries, strictly between 0 and 1 in the mixed case *)
Theorem entry_proportional_strict locs : all_match locs = false -> none_match locs = false ->
  0 < partial_value PCProp locs < 1.
Proof.
  intros H1 H2. simpl. apply frac_lt_1.
  - destruct (count_true locs) eqn:E; [|lia]. apply count_true_none in E. congruence.
  - pose proof (count_true_le locs). destruct (Nat.eq_dec (count_true locs) (length locs)) as [E|E]; [|lia].
    apply count_true_all in E. congruence.
Qed.

Definition strictly_partial (pc : partial_credit) : Prop :=
  match pc with PCProp => True | PCFlat q => 0 < q < 1 end.

Lemma all_none_excl locs : locs <> [] -> all_match locs = true -> none_match locs = true -> False.
Proof. destruct locs as [|[|] l]; simpl; intros; try contradiction; discriminate. Qed.

(* full credit iff all entries match, zero iff none does -- for a partial credit strictly between 0 and 1
   (with a configured flat credit of exactly 1 or 0 the "otherwise" clause of the rule takes over) *)
Theorem entry_full_iff pc locs : locs <> [] -> strictly_partial pc ->
  ((exists g, cgrade (entry_credit pc locs) = Some g /\ g == 1) <-> all_match locs = true).
Proof.
  intros Hne Hpc. destruct (entry_credit_spec pc locs Hne) as [S1 [S2 S3]]. split.
  - intros [g [Hg Eg]]. destruct (all_match locs) eqn:A; [reflexivity|]. exfalso.
    destruct (none_match locs) eqn:N.
    + rewrite (S2 eq_refl) in Hg. simpl in Hg. injection Hg as <-. lra.
    + rewrite (S3 eq_refl eq_refl) in Hg. simpl in Hg. injection Hg as <-.
      destruct pc as [q|]; [simpl in *; lra|].
      pose proof (entry_proportional_strict locs A N). lra.
  - intro A. rewrite (S1 A). exists 1. split; reflexivity.
Qed.

Theorem entry_zero_iff pc locs : locs <> [] -> strictly_partial pc ->
  ((exists g, cgrade (entry_credit pc locs) = Some g /\ g == 0) <-> none_match locs = true).
Proof.
  intros Hne Hpc. destruct (entry_credit_spec pc locs Hne) as [S1 [S2 S3]]. split.
  - intros [g [Hg Eg]]. destruct (none_match locs) eqn:N; [reflexivity|]. exfalso.
    destruct (all_match locs) eqn:A.
    + rewrite (S1 eq_refl) in Hg. simpl in Hg. injection Hg as <-. lra.
    + rewrite (S3 eq_refl eq_refl) in Hg. simpl in Hg. injection Hg as <-.
      destruct pc as [q|]; [simpl in *; lra|].
      pose proof (entry_proportional_strict locs A N). lra.
  - intro N. rewrite (S2 N). exists 0. split; reflexivity.
Qed.

(* which entries count as matching: entry k matches iff it is within tolerance in every sample *)
Definition entry_match (tl : tol) (ss : list sample) (k : nat) : bool :=
  forallb (fun es => entry_ok tl (nth k (flat (fst es)) (0, 0)) (nth k (flat (snd es)) (0, 0))) ss.

Lemma entry_rows_spec tl : forall e s n, length e = n -> length s = n ->
  entry_rows tl e s = map (fun k => entry_ok tl (nth k e (0, 0)) (nth k s (0, 0))) (seq 0 n).
Proof.
  induction e as [|x e IH]; intros s n He Hs.
  - simpl in He. subst n. reflexivity.
  - destruct s as [|y s]; [simpl in *; lia|]. destruct n as [|n]; [simpl in *; lia|].
    simpl. f_equal. rewrite <- seq_shift, map_map. apply IH; simpl in *; lia.
Qed.

Lemma entries_and_map (f g : nat -> bool) l :
  entries_and (map f l) (map g l) = map (fun k => f k && g k) l.
Proof. induction l as [|k l IH]; simpl; [reflexivity | f_equal; exact IH]. Qed.

Theorem entry_summary_spec tl ss n : ss <> [] ->
  Forall (fun es => length (flat (fst es)) = n /\ length (flat (snd es)) = n) ss ->
  entry_summary tl ss = map (entry_match tl ss) (seq 0 n).
Proof.
  intros Hne Hall. induction ss as [|[e s] r IH]; [contradiction|].
  inversion Hall as [|x0 l0 Hes Hr]; subst. destruct Hes as [He Hs]. simpl in He, Hs.
  destruct r as [|es' r'].
  - simpl. rewrite (entry_rows_spec tl _ _ _ He Hs). apply map_ext. intro k.
    unfold entry_match. simpl. rewrite andb_true_r. reflexivity.
  - change (entry_summary tl ((e, s) :: es' :: r')) with
      (entries_and (entry_rows tl (flat e) (flat s)) (entry_summary tl (es' :: r'))).
    rewrite IH by (try discriminate; exact Hr).
    rewrite (entry_rows_spec tl _ _ _ He Hs), entries_and_map. apply map_ext. intro k. reflexivity.
Qed.

(* =========================================================================================== *)
(* LinearComparer                                                                                *)
(* =========================================================================================== *)
Definition credit_or_0 (cfg : lconfig) (m : lmode) : Q := match credit_of cfg m with Some c => c | None => 0 end.

Lemma qmax_list_none l : qmax_list l = None <-> l = [].
Proof.
  destruct l as [|g r]; simpl; [tauto|]. destruct (qmax_list r); split; discriminate.
Qed.

Lemma qmax_list_spec l g : qmax_list l = Some g -> In g l /\ forall x, In x l -> x <= g.
Proof.
  revert g. induction l as [|a r IH]; intros g H; [discriminate|].
  simpl in H. destruct (qmax_list r) as [m|] eqn:E.
  - destruct (IH m eq_refl) as [Hin Hmax]. injection H as <-.
    destruct (Qle_bool a m) eqn:L; qbool.
    + split; [right; exact Hin|]. intros x [<- | Hx]; [exact L | apply Hmax; exact Hx].
    + split; [left; reflexivity|]. intros x [<- | Hx]; [lra | specialize (Hmax x Hx); lra].
  - injection H as <-. apply qmax_list_none in E. subst r. split; [left; reflexivity|].
    intros x [<- | []]. lra.
Qed.

Lemma mode_grades_spec cfg tl ref2 x y : forall ms gs, mode_grades cfg tl ref2 x y ms = Some gs ->
  Forall2 (fun m g => exists b, mode_holds tl ref2 x y m = Some b /\ g = if b then credit_or_0 cfg m else 0) ms gs.
Proof.
  induction ms as [|m r IH]; intros gs H; simpl in H.
  - injection H as <-. constructor.
  - destruct (mode_holds tl ref2 x y m) as [b|] eqn:E; [|discriminate].
    destruct (mode_grades cfg tl ref2 x y r) as [gs'|] eqn:E'; [|discriminate].
    injection H as <-. constructor; [|apply IH; reflexivity].
    exists b. split; [exact E|]. unfold credit_or_0. reflexivity.
Qed.

Definition lin_x (ss : list sample) : cvec := concat (map (fun es => flat (snd es)) ss).
Definition lin_y (ss : list sample) : cvec := concat (map (fun es => flat (fst es)) ss).
Definition holds (tl : tol) (ss : list sample) (m : lmode) : Prop :=
  mode_holds tl (norm2 (lin_x ss)) (lin_x ss) (lin_y ss) m = Some true.

(* LinearComparer awards the largest configured credit among the (zero-compatible, when comparing with zero)
   relations that hold, and 0 when none of them holds or none can be checked *)
Theorem linear_best_mode tl cfg ss g mk :
  (forall m c, credit_of cfg m = Some c -> 0 <= c) ->
  linear_cmp None tl cfg ss = CDict g mk ->
  let ms := valid_modes cfg (comparing_zero tl ss) in
  (forall m, In m ms -> holds tl ss m -> credit_or_0 cfg m <= g) /\
  0 <= g /\
  (g = 0 \/ exists m, In m ms /\ holds tl ss m /\ g = credit_or_0 cfg m).
Proof.
  intros Hpos H ms. unfold linear_cmp in H. fold (lin_x ss) (lin_y ss) in H.
  destruct (length ss <? 3)%nat; [discriminate|]. fold ms in H.
  destruct (mode_grades cfg tl (norm2 (lin_x ss)) (lin_x ss) (lin_y ss) ms) as [gs|] eqn:E; [|discriminate].
  pose proof (mode_grades_spec _ _ _ _ _ _ _ E) as F.
  assert (Hc0 : forall m, 0 <= credit_or_0 cfg m).
  { intro m. unfold credit_or_0. destruct (credit_of cfg m) eqn:C; [apply (Hpos m q C) | lra]. }
  destruct (qmax_list gs) as [g'|] eqn:M.
  - injection H as -> _. destruct (qmax_list_spec gs g M) as [Hin Hmax].
    assert (Key : forall g0, In g0 gs -> 0 <= g0 /\ (g0 = 0 \/ exists m, In m ms /\ holds tl ss m /\ g0 = credit_or_0 cfg m)).
    { clear - F Hc0. induction F as [|m0 g0 ms0 gs0 [b [Hb Hg]] _ IH]; intros g1 Hg1; [destruct Hg1|].
      destruct Hg1 as [<- | Hg1].
      - destruct b; subst g0.
        + split; [apply Hc0|]. right. exists m0. split; [left; reflexivity|]. split; [exact Hb | reflexivity].
        + split; [lra | left; reflexivity].
      - destruct (IH g1 Hg1) as [P [Q | [m [I1 I2]]]]; split; auto. right. exists m. split; [right; exact I1 | exact I2]. }
    split; [|exact (Key g Hin)].
    intros m Hm Hh.
    assert (G : exists g0, In g0 gs /\ g0 = credit_or_0 cfg m).
    { clear - F Hm Hh. induction F as [|m0 g0 ms0 gs0 [b [Hb Hg]] _ IH]; [destruct Hm|].
      destruct Hm as [-> | Hm].
      - exists g0. split; [left; reflexivity|]. unfold holds in Hh. rewrite Hh in Hb. injection Hb as <-. exact Hg.
      - destruct (IH Hm) as [g1 [I1 I2]]. exists g1. split; [right; exact I1 | exact I2]. }
    destruct G as [g0 [I1 ->]]. apply Hmax. exact I1.
  - injection H as <- _. apply qmax_list_none in M. subst gs. inversion F as [E0|]; subst.
    split; [intros m []|]. split; [lra | left; reflexivity].
Qed.

(* zero rule: when the student's samples are all zero within tolerance, or the expected samples are all exactly
   zero, 'proportional' and 'linear' are not consulted at all: the result is that of the comparer configured
   with these two modes switched off *)
Lemma filter_zero_configured cfg :
  filter zero_compatible (configured cfg) = configured (mkL (l_equals cfg) None (l_offset cfg) None).
Proof.
  unfold configured, all_modes. destruct cfg as [[e|] [p|] [o|] [l|]]; reflexivity.
Qed.

Lemma mode_grades_ext cfg cfg' tl ref2 x y ms :
  (forall m, In m ms -> credit_of cfg m = credit_of cfg' m) ->
  mode_grades cfg tl ref2 x y ms = mode_grades cfg' tl ref2 x y ms.
Proof.
  induction ms as [|m r IH]; intro H; [reflexivity|]. simpl.
  rewrite (H m (or_introl eq_refl)), IH; [reflexivity|]. intros m' Hm'. apply H. right. exact Hm'.
Qed.

Theorem linear_zero_rule dv tl cfg ss : comparing_zero tl ss = true ->
  linear_cmp dv tl cfg ss = linear_cmp dv tl (mkL (l_equals cfg) None (l_offset cfg) None) ss.
Proof.
  intro Hz. unfold linear_cmp. rewrite Hz. unfold valid_modes at 1 2.
  rewrite filter_zero_configured.
  set (cfg' := mkL (l_equals cfg) None (l_offset cfg) None).
  assert (E : filter zero_compatible (configured cfg') = configured cfg').
  { unfold cfg', configured, all_modes. destruct (l_equals cfg), (l_offset cfg); reflexivity. }
  rewrite E.
  rewrite (mode_grades_ext cfg cfg' tl _ _ _ (configured cfg')); [reflexivity|].
  intros m Hm. unfold cfg', configured, all_modes in Hm. simpl in Hm.
  destruct m; try reflexivity; exfalso;
    destruct (l_equals cfg), (l_offset cfg); simpl in Hm; intuition discriminate.
Qed.

(* ---------- what the four relations mean ---------- *)
(* equals: the samples coincide within tolerance *)
Theorem equals_holds_iff tl ref2 (x y : cvec) :
  mode_holds tl ref2 x y LEquals = Some true <-> tol_ok tl = true /\ dist2 x y <= tol2 tl ref2.
Proof.
  simpl. rewrite <- norm_le_iff. split; [intro H; injection H as H; exact H | intro H; rewrite H; reflexivity].
Qed.

(* proportional: expected = a * student for some complex a, within tolerance *)
Theorem proportional_holds_iff tl ref2 (x y : cvec) : vzero x = false ->
  (mode_holds tl ref2 x y LProportional = Some true <->
   tol_ok tl = true /\ exists a : C, dist2 y (cvscale a x) <= tol2 tl ref2).
Proof.
  intro Hx. simpl. rewrite Hx. split.
  - intro H. injection H as H. apply norm_le_iff in H. destruct H as [Hok H]. split; [exact Hok|].
    destruct (cres2_attained_lincomb [x] y) as [cs Hcs]. destruct cs as [|a cs].
    + exists (0, 0). assert (E : dist2 y (cvscale (0, 0) x) == dist2 y (lincomb [] [x])).
      { apply veq_dist2; [reflexivity|]. intro c. rewrite rdot_cvscale_l. simpl. ring. }
      rewrite E, Hcs. exact H.
    + exists a. assert (E : dist2 y (cvscale a x) == dist2 y (lincomb (a :: cs) [x])).
      { apply veq_dist2; [reflexivity|]. intro c. destruct cs; simpl lincomb; rewrite rdot_vadd_l; simpl (rdot [] c); ring. }
      rewrite E, Hcs. exact H.
  - intros [Hok [a Ha]]. f_equal. apply norm_le_iff. split; [exact Hok|].
    pose proof (cres2_min_lincomb [x] y [a]) as L.
    rewrite (veq_dist2 y y _ _ (veq_refl y) (lincomb1 a x)) in L. lra.
Qed.

Lemma lincomb2 a b (x o : cvec) : veq (lincomb [a; b] [x; o]) (vadd (cvscale a x) (cvscale b o)).
Proof. intro c. simpl lincomb. rewrite !rdot_vadd_l. simpl (rdot [] c). ring. Qed.

(* linear, student samples not constant: expected = a * student + b for some complex a, b, within tolerance *)
Theorem linear_holds_iff tl ref2 (x y : cvec) : Nat.eqb (crank [ones (length x); x]) 1 = false ->
  (mode_holds tl ref2 x y LLinear = Some true <->
   tol_ok tl = true /\ exists a b : C, dist2 y (vadd (cvscale a x) (cvscale b (ones (length x)))) <= tol2 tl ref2).
Proof.
  intro Hx. unfold mode_holds. rewrite Hx. set (o := ones (length x)). split.
  - intro H. injection H as H. apply norm_le_iff in H. destruct H as [Hok H]. split; [exact Hok|].
    destruct (cres2_attained_lincomb [x; o] y) as [cs Hcs].
    exists (hd (0, 0) cs), (hd (0, 0) (List.tl cs)).
    assert (E : veq (lincomb cs [x; o]) (vadd (cvscale (hd (0, 0) cs) x) (cvscale (hd (0, 0) (List.tl cs)) o))).
    { intro c. destruct cs as [|a [|b [|c0 cs]]]; cbn [lincomb hd List.tl]; rewrite ?rdot_vadd_l, ?rdot_cvscale_l;
        cbn [fst snd rdot]; ring. }
    rewrite <- (veq_dist2 y y _ _ (veq_refl y) E), Hcs. exact H.
  - intros [Hok [a [b Hab]]]. f_equal. apply norm_le_iff. split; [exact Hok|].
    pose proof (cres2_min_lincomb [x; o] y [a; b]) as L.
    rewrite (veq_dist2 y y _ _ (veq_refl y) (lincomb2 a b x o)) in L. lra.
Qed.

(* offset: expected = student + b for some complex b, within tolerance (the mean difference is the best b) *)
Lemma rdot_ones d : rdot d (ones (length d)) == fst (fold_right cadd (0, 0) d).
Proof.
  induction d as [|z d IH]; [reflexivity|].
  unfold ones in *. cbn [length repeat fold_right]. rewrite rdot_cons, fst_cadd, IH. cbn [fst snd]. ring.
Qed.

Lemma rdot_J_ones d : rdot d (vJ (ones (length d))) == snd (fold_right cadd (0, 0) d).
Proof.
  induction d as [|z d IH]; [reflexivity|].
  unfold ones, vJ in *. cbn [length repeat fold_right map]. rewrite rdot_cons, snd_cadd, IH. unfold cJ. cbn [fst snd]. ring.
Qed.

Lemma norm2_ones n : norm2 (ones n) == inject_Z (Z.of_nat n).
Proof.
  unfold norm2. induction n as [|n IH]; [reflexivity|].
  unfold ones in *. cbn [repeat]. rewrite rdot_cons, IH, Nat2Z.inj_succ. unfold Z.succ. rewrite inject_Z_plus. cbn [fst snd]. change (inject_Z 1) with 1. ring.
Qed.

Lemma map_cadd_ones m (x : cvec) : veq (map (cadd m) x) (vadd x (cvscale m (ones (length x)))).
Proof.
  apply Forall2_ceq_veq. induction x as [|z x IH]; [constructor|].
  unfold ones, cvscale in *. cbn [map length repeat vadd]. constructor; [|exact IH].
  split; rewrite ?fst_cadd, ?snd_cadd, ?fst_cmul, ?snd_cmul; cbn [fst snd]; ring.
Qed.

Lemma vsub_length a b : length a = length b -> length (vsub a b) = length a.
Proof.
  unfold vsub, vscale. revert b. induction a as [|x a IH]; intros [|y b] H; simpl in *; try lia.
  f_equal. apply IH. lia.
Qed.

Lemma sq_nonneg (z : Q) : 0 <= z * z.
Proof.
  destruct (Qlt_le_dec z 0).
  - setoid_replace (z * z) with ((- z) * (- z)) by ring. apply Qmult_le_0_compat; lra.
  - apply Qmult_le_0_compat; lra.
Qed.

(* q + 2 (a r + b s) + (a^2 + b^2) n  is smallest at (a, b) = (ma, mb) when ma n = -r, mb n = -s *)
Lemma off_quad (q r s n ma mb a b : Q) : 0 < n -> ma * n == - r -> mb * n == - s ->
  q + 2 * ma * r + 2 * mb * s + (ma * ma + mb * mb) * n <= q + 2 * a * r + 2 * b * s + (a * a + b * b) * n.
Proof.
  intros Hn Ha Hb.
  assert (Er : r == - (ma * n)) by (rewrite Ha; ring). assert (Es : s == - (mb * n)) by (rewrite Hb; ring).
  assert (D : q + 2 * a * r + 2 * b * s + (a * a + b * b) * n - (q + 2 * ma * r + 2 * mb * s + (ma * ma + mb * mb) * n)
              == n * ((a - ma) * (a - ma) + (b - mb) * (b - mb))).
  { rewrite Er, Es. ring. }
  pose proof (sq_nonneg (a - ma)). pose proof (sq_nonneg (b - mb)).
  assert (0 <= n * ((a - ma) * (a - ma) + (b - mb) * (b - mb))) by (apply Qmult_le_0_compat; lra).
  apply Qle_minus_iff.
  setoid_replace (q + 2 * a * r + 2 * b * s + (a * a + b * b) * n + - (q + 2 * ma * r + 2 * mb * s + (ma * ma + mb * mb) * n))
    with (n * ((a - ma) * (a - ma) + (b - mb) * (b - mb))) by (rewrite <- D; ring).
  assumption.
Qed.

Section Offset.
  Variables x y : cvec.
  Hypothesis Hl : length x = length y.
  Hypothesis Hn : (0 < length x)%nat.

  Let n := inject_Z (Z.of_nat (length x)).
  Let o := ones (length x).
  Let e := vsub x y.
  Let f (b : C) := norm2 (vsub (vadd x (cvscale b o)) y).
  Let mean := cmean (vsub y x).

  Lemma off_n_pos : 0 < n.
  Proof. unfold n. change 0 with (inject_Z 0). rewrite <- Zlt_Qlt. lia. Qed.

  Lemma off_f_expand b : f b == norm2 e + 2 * fst b * rdot e o + 2 * snd b * rdot e (vJ o) + (fst b * fst b + snd b * snd b) * n.
  Proof.
    unfold f. assert (E : veq (vsub (vadd x (cvscale b o)) y) (vadd e (cvscale b o))) by (intro c; unfold e; vnorm; ring).
    rewrite (veq_norm2 _ _ E), norm2_vadd, norm2_cvscale, cabs2_eq.
    rewrite (rdot_comm e (cvscale b o)), rdot_cvscale_l, (rdot_comm o e), (rdot_comm (vJ o) e).
    unfold o, n. rewrite norm2_ones. ring.
  Qed.

  Lemma off_mean_val : fst mean * n == - rdot e o /\ snd mean * n == - rdot e (vJ o).
  Proof.
    unfold mean, cmean. rewrite fst_crs, snd_crs.
    assert (L : length (vsub y x) = length x) by (rewrite vsub_length; lia).
    rewrite <- (rdot_ones (vsub y x)), <- (rdot_J_ones (vsub y x)), L. fold o. fold n.
    unfold e. vnorm. pose proof off_n_pos. split; field; lra.
  Qed.

  Lemma off_min b : f mean <= f b.
  Proof.
    rewrite !off_f_expand. destruct off_mean_val as [M1 M2].
    apply off_quad; [apply off_n_pos | exact M1 | exact M2].
  Qed.

  Lemma off_err2_value : offset_err2 x y == f mean.
  Proof.
    unfold offset_err2. fold mean. unfold f. apply veq_norm2. apply veq_vsub; [|reflexivity]. apply map_cadd_ones.
  Qed.

  Theorem offset_holds_iff tl ref2 :
    (mode_holds tl ref2 x y LOffset = Some true <->
     tol_ok tl = true /\ exists b : C, dist2 (vadd x (cvscale b (ones (length x)))) y <= tol2 tl ref2).
  Proof.
    simpl.
    assert (K : norm_le tl ref2 (offset_err2 x y) = true <-> tol_ok tl = true /\ f mean <= tol2 tl ref2).
    { rewrite norm_le_iff, off_err2_value. reflexivity. }
    split.
    - intro H. injection H as H. apply K in H. destruct H as [Hok H]. split; [exact Hok|]. exists mean. exact H.
    - intros [Hok [b Hb]]. f_equal. apply K. split; [exact Hok|]. pose proof (off_min b) as M. unfold f in M at 2.
      unfold dist2 in Hb. fold o in Hb. lra.
  Qed.
End Offset.

(* ---------- comparing with zero always yields a result (possibly without credit) ---------- *)
Lemma mode_grades_total cfg tl ref2 x y ms : (forall m, In m ms -> zero_compatible m = true) ->
  exists gs, mode_grades cfg tl ref2 x y ms = Some gs.
Proof.
  induction ms as [|m r IH]; intro H; [exists []; reflexivity|].
  destruct IH as [gs Hgs]; [intros m' Hm'; apply H; right; exact Hm'|].
  pose proof (H m (or_introl eq_refl)) as Z. simpl. rewrite Hgs.
  destruct m; simpl in Z; try discriminate; simpl; eexists; reflexivity.
Qed.

(* "no proportional or linear credit when either side is zero": a result is returned, and it is the result of
   the comparer with these two modes switched off (linear_zero_rule) -- even when no mode is left to check *)
Theorem linear_zero_total tl cfg ss : (3 <= length ss)%nat -> comparing_zero tl ss = true ->
  exists g, linear_cmp None tl cfg ss = CDict g MsgOther.
Proof.
  intros Hl Hz. unfold linear_cmp.
  assert (E : (length ss <? 3)%nat = false) by (apply Nat.ltb_ge; exact Hl). rewrite E, Hz.
  destruct (mode_grades_total cfg tl (norm2 (concat (map (fun es => flat (snd es)) ss)))
              (concat (map (fun es => flat (snd es)) ss)) (concat (map (fun es => flat (fst es)) ss))
              (valid_modes cfg true)) as [gs Hgs].
  { intros m Hm. unfold valid_modes in Hm. apply filter_In in Hm. apply Hm. }
  rewrite Hgs. destruct (qmax_list gs); eexists; reflexivity.
Qed.

(* =========================================================================================== *)
(* shape mismatch policy                                                                         *)
(* =========================================================================================== *)
Definition mismatch_outcome (p : policy) (exp inp : list Z) : outcome :=
  if p_suppress p then ORes OkFalse 0 MsgNone
  else if p_raised p then ORaise (XInputType (MsgShape (shape_msg (p_detail p) exp inp)))
  else ORes OkFalse 0 (match shape_msg (p_detail p) exp inp with SMEmpty => MsgNone | m => MsgShape m end).

Lemma policy_on_shape_error p exp inp :
  mismatch_policy (GMatrix p) (XInputType (MsgShape (shape_msg (p_detail p) exp inp))) = mismatch_outcome p exp inp.
Proof.
  unfold mismatch_policy, mismatch_outcome. destruct (p_suppress p); [reflexivity|].
  destruct (p_raised p); [reflexivity|]. destruct (shape_msg (p_detail p) exp inp); reflexivity.
Qed.

Lemma validate_shape_wrong d s exp : shape_eqb exp (shape_of s) = false ->
  validate_shape d s exp = Some (XInputType (MsgShape (shape_msg d exp (shape_of s)))).
Proof. intro H. unfold validate_shape. rewrite H. reflexivity. Qed.

Lemma compare_simple_raise g tl c s ss e :
  run_simple g tl c s = CRaise e -> compare_simple g tl c (s :: ss) = inr e.
Proof. intro H. cbn [compare_simple]. rewrite H. reflexivity. Qed.

(* the shape each shape-validating comparer expects of the student input, read off the first sample *)
Definition expected_shape (c : comparer) (params : list value) : option (list Z) :=
  match c, params with
  | CmpEquality _, [e] => Some (shape_of e)
  | CmpEntry _ _, e :: _ => Some (shape_of e)
  | CmpLinear _, e :: _ => Some (shape_of e)
  | CmpEigen, [VMat m; VNum _] => Some [Z.of_nat (length m)]
  | CmpSpan, p :: _ => if same_length_vectors params then Some (shape_of p) else None
  | CmpPhase, [p] => if is_vec p then Some (shape_of p) else None
  | _, _ => None
  end.

(* A submission of the wrong shape is never graded: whatever the values, the tolerance, the partial-credit
   settings and the remaining samples, the outcome is the one the mismatch policy prescribes. *)
Theorem shape_mismatch_policy p tl c ag failable s ss exp :
  expected_shape c (s_params s) = Some exp ->
  shape_eqb exp (shape_of (s_student s)) = false ->
  grade (GMatrix p) tl c ag failable (s :: ss) = mismatch_outcome p exp (shape_of (s_student s)).
Proof.
  intros He Hs. rewrite <- policy_on_shape_error. unfold grade.
  assert (G : compare_evaluations (GMatrix p) tl c (s :: ss) =
              inr (XInputType (MsgShape (shape_msg (p_detail p) exp (shape_of (s_student s)))))).
  { pose proof (validate_shape_wrong (p_detail p) (s_student s) exp Hs) as V.
    destruct c; simpl in He.
    - (* equality *)
      destruct (s_params s) as [|e [|? ?]] eqn:P; try discriminate. injection He as <-.
      simpl. unfold run_simple. rewrite P. simpl. unfold equality_cmp. simpl. rewrite V. reflexivity.
    - (* entry *)
      destruct (s_params s) as [|e r] eqn:P; try discriminate. injection He as <-.
      simpl. unfold matrix_entry_cmp. simpl. rewrite P. simpl. rewrite V. reflexivity.
    - discriminate.
    - discriminate.
    - (* eigen *)
      destruct (s_params s) as [|[?|?|m] [|[lam|?|?] [|? ?]]] eqn:P; try discriminate. injection He as <-.
      simpl. unfold run_simple. rewrite P. simpl. unfold eigenvector_cmp. simpl. rewrite V. reflexivity.
    - (* span *)
      destruct (s_params s) as [|p0 r] eqn:P; try discriminate.
      destruct (same_length_vectors (p0 :: r)) eqn:SL; try discriminate. injection He as <-.
      change (compare_evaluations (GMatrix p) tl CmpSpan (s :: ss)) with (compare_simple (GMatrix p) tl CmpSpan (s :: ss)).
      apply compare_simple_raise. unfold run_simple. rewrite P.
      change (vector_span_cmp (Some (p_detail p)) tl (fun _ _ => s_coef s) (p0 :: r) (s_student s)
              = CRaise (XInputType (MsgShape (shape_msg (p_detail p) (shape_of p0) (shape_of (s_student s)))))).
      unfold vector_span_cmp. rewrite SL. cbn [negb hd]. rewrite V. reflexivity.
    - (* phase *)
      destruct (s_params s) as [|p0 [|? ?]] eqn:P; try discriminate.
      destruct (is_vec p0) eqn:IV; try discriminate. injection He as <-.
      change (compare_evaluations (GMatrix p) tl CmpPhase (s :: ss)) with (compare_simple (GMatrix p) tl CmpPhase (s :: ss)).
      apply compare_simple_raise. unfold run_simple. rewrite P.
      change (vector_phase_cmp (Some (p_detail p)) tl (fun _ _ => s_coef s) [p0] (s_student s)
              = CRaise (XInputType (MsgShape (shape_msg (p_detail p) (shape_of p0) (shape_of (s_student s)))))).
      assert (SL : same_length_vectors [p0] = true).
      { unfold same_length_vectors. cbn [forallb hd]. rewrite IV, shape_eqb_refl. reflexivity. }
      unfold vector_phase_cmp, vector_span_cmp. rewrite SL. cbn [length Nat.eqb negb andb hd]. rewrite V. reflexivity.
    - (* linear *)
      destruct (s_params s) as [|e r] eqn:P; try discriminate. injection He as <-.
      simpl. unfold linear_cmp. simpl. rewrite P. simpl. rewrite V. reflexivity. }
  rewrite G. reflexivity.
Qed.

(* and a submission of the right shape is never reported as a shape mismatch by the validating step *)
Lemma validate_shape_right d s exp : shape_eqb exp (shape_of s) = true -> validate_shape d s exp = None.
Proof. intro H. unfold validate_shape. rewrite H. reflexivity. Qed.

(* =========================================================================================== *)
(* the decision functions used in the statements are what the comparers compute on well-shaped input *)
(* =========================================================================================== *)
Lemma eigen_cmp_core d tl m lam v : length v = length m ->
  eigenvector_cmp (Some d) tl m lam (VVec v) = eigen_core tl m lam v.
Proof.
  intro H. unfold eigenvector_cmp, validate_shape. cbn [shape_of shape_eqb]. rewrite H, Z.eqb_refl. reflexivity.
Qed.

Lemma same_length_vectors_map ws n : ws <> [] -> Forall (fun w => length w = n) ws ->
  same_length_vectors (map VVec ws) = true.
Proof.
  intros Hne H. unfold same_length_vectors. apply andb_true_iff. split.
  - apply forallb_forall. intros p Hp. apply in_map_iff in Hp. destruct Hp as [w [<- _]]. reflexivity.
  - destruct ws as [|w0 ws]; [contradiction|]. apply forallb_forall. intros p Hp.
    apply in_map_iff in Hp. destruct Hp as [w [<- Hw]]. cbn [map hd shape_of shape_eqb].
    rewrite Forall_forall in H. rewrite (H w Hw), (H w0 (or_introl eq_refl)), Z.eqb_refl. reflexivity.
Qed.

Lemma span_cmp_core d tl lstsq (ws : list cvec) (v : cvec) : ws <> [] -> Forall (fun w => length w = length v) ws ->
  vector_span_cmp (Some d) tl lstsq (map VVec ws) (VVec v) = span_core tl ws (lstsq ws v) v.
Proof.
  intros Hne H. unfold vector_span_cmp. rewrite (same_length_vectors_map ws (length v) Hne H). cbn [negb].
  destruct ws as [|w0 ws]; [contradiction|]. cbn [map hd]. unfold validate_shape. cbn [shape_of shape_eqb].
  inversion H as [|? ? H0 _]; subst. rewrite H0, Z.eqb_refl. cbn [andb flat].
  rewrite map_map. cbn [flat]. rewrite map_id. reflexivity.
Qed.

Lemma linear_cmp_valid_shape d tl cfg e s ss : shape_eqb (shape_of e) (shape_of s) = true ->
  linear_cmp (Some d) tl cfg ((e, s) :: ss) = linear_cmp None tl cfg ((e, s) :: ss).
Proof.
  intro H. unfold linear_cmp. rewrite (validate_shape_right d s (shape_of e) H). reflexivity.
Qed.

Lemma first_shape_error_none d ss :
  Forall (fun es => shape_eqb (shape_of (fst es)) (shape_of (snd es)) = true) ss -> first_shape_error d ss = None.
Proof.
  induction 1 as [|[e s] ss H _ IH]; [reflexivity|]. simpl in *. rewrite (validate_shape_right d s (shape_of e) H). exact IH.
Qed.

Lemma entry_cmp_valid_shape d tl pc tr ss :
  Forall (fun es => shape_eqb (shape_of (fst es)) (shape_of (snd es)) = true) ss ->
  matrix_entry_cmp (Some d) tl pc tr ss = entry_credit pc (entry_summary tl (map (fun es => (tr (fst es), tr (snd es))) ss)).
Proof. intro H. unfold matrix_entry_cmp. rewrite (first_shape_error_none d ss H). reflexivity. Qed.

(* regression inputs of the repaired defects (used by the Examples of Props/C16.v) *)
Definition lc_zero_cfg : lconfig := mkL None (Some (1 # 2)) None None.
Definition lc_zero_samples : list sample :=
  [(VNum (NReal 2), VNum (NReal 0)); (VNum (NReal 3), VNum (NReal 0)); (VNum (NReal 5), VNum (NReal 0))].
Definition lc_cplx_samples : list sample :=
  [ (VVec [(2, 0); (3, 0)], VVec [(3, 0); (3, 1)])
  ; (VVec [(4, 0); (1, 0)], VVec [(5, 0); (1, 1)])
  ; (VVec [(1, 0); (5, 0)], VVec [(2, 0); (5, 1)]) ].

(* EqualityComparer on a submission of the right shape: the transform is applied to both sides, then within_tolerance *)
Lemma equality_cmp_valid_shape d tl tr e s : shape_eqb (shape_of e) (shape_of s) = true ->
  equality_cmp (Some d) tl tr e s = CBool (within tl (flat (tr e)) (flat (tr s))).
Proof. intro H. unfold equality_cmp. rewrite (validate_shape_right d s (shape_of e) H). reflexivity. Qed.

(* ... and on a submission of the wrong shape the transform is never consulted: same result for any two transforms *)
Lemma equality_cmp_wrong_shape d tl tr tr' e s : shape_eqb (shape_of e) (shape_of s) = false ->
  equality_cmp (Some d) tl tr e s = equality_cmp (Some d) tl tr' e s.
Proof. intro H. unfold equality_cmp. rewrite (validate_shape_wrong d s (shape_of e) H). reflexivity. Qed.
