(* Proofs/ResolveExamples.v -- closed instances (vm_compute) used as non-vacuity examples in Props/C13.v *)
From Coq Require Import ZArith QArith List Bool String.
From Verif.Model Require Import Result Resolve.
Import ListNotations.
Open Scope string_scope.

Definition V_ (s : string) : expr := EVar (s2l s).
Definition N_ (z : Z) : expr := ENum (inject_Z z).
Definition S_ (z : Z) : val := VS (inject_Z z, 0%Q).
Definition run := gen_sample val expr expr_vars eval_expr.

(* d = b - c, c = a * n_{1}, b = a + k; k a constant; a constant named a is shadowed by the variable a *)
Definition ex_sf : list (str * sampler expr) :=
  [(s2l "a", SInd); (s2l "n_{1}", SInd); (s2l "b", SDep (EAdd (V_ "a") (V_ "k")));
   (s2l "c", SDep (EMul (V_ "a") (V_ "n_{1}"))); (s2l "d", SDep (ESub (V_ "b") (V_ "c")))].
Definition ex_consts : list (str * val) := [(s2l "k", S_ 3); (s2l "a", S_ 99)].

Lemma c13_ex_diamond :
  match run (map s2l ["d"; "c"; "b"; "a"; "n_{1}"]) ex_sf ex_consts [S_ 2; S_ 5] with
  | ROk e => map (fun x => alookup e (s2l x)) ["a"; "n_{1}"; "b"; "c"; "d"; "k"; "zz"]
             = [Some (S_ 2); Some (S_ 5); Some (S_ 5); Some (S_ 10); Some (S_ (-5)); Some (S_ 3); None]
             /\ List.length e = 6%nat
  | RErr _ => False
  end.
Proof. vm_compute. split; reflexivity. Qed.

Lemma c13_ex_diamond_other_order :
  match run (map s2l ["a"; "b"; "n_{1}"; "c"; "d"]) ex_sf ex_consts [S_ 2; S_ 5] with
  | ROk e => map (fun x => alookup e (s2l x)) ["a"; "n_{1}"; "b"; "c"; "d"; "k"]
             = [Some (S_ 2); Some (S_ 5); Some (S_ 5); Some (S_ 10); Some (S_ (-5)); Some (S_ 3)]
  | RErr _ => False
  end.
Proof. vm_compute. reflexivity. Qed.

Lemma c13_ex_errors :
  run (map s2l ["x"; "y"]) [(s2l "x", SDep (EAdd (V_ "y") (N_ 1))); (s2l "y", SDep (EMul (V_ "x") (N_ 2)))] [] []
    = RErr (ECircular [s2l "x"; s2l "y"]) /\
  run [s2l "x"] [(s2l "x", SDep (EAdd (V_ "x") (N_ 1)))] [] [] = RErr (ECircular [s2l "x"]) /\
  run (map s2l ["x"; "y"]) [(s2l "x", SDep (EAdd (V_ "zz") (N_ 1))); (s2l "y", SDep (EMul (V_ "y") (N_ 2)))] [] []
    = RErr (EUndefined [s2l "zz"]) /\
  run [s2l "x"] [(s2l "x", SDep (EAdd (EVec [N_ 1; N_ 2]) (N_ 1)))] [] [] = RErr (EFormula (s2l "x")).
Proof. vm_compute. repeat split; reflexivity. Qed.

Lemma c13_ex_numbered :
  map (fun s => numbered_match [s2l "a"; s2l "ab"; s2l "Cat"] (s2l s))
      ["a_{1}"; "ab_{-12}"; "a_{0}"; "Cat_{17}"; "ab_{100}"; "a_{-0}"; "a_{05}"; "cat_{1}"; "a"; "a_{}"; "a_{1}x"; "b_{1}"; "a_{+1}"]
  = [Some (s2l "a"); Some (s2l "ab"); Some (s2l "a"); Some (s2l "Cat"); Some (s2l "ab");
     None; None; None; None; None; None; None; None].
Proof. vm_compute. reflexivity. Qed.
