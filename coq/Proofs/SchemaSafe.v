(* Proofs/SchemaSafe.v -- when is a refusal guaranteed to be a VALIDATION error?
   Range and Length report values they cannot order / measure as Invalid (vendored voluptuous since fix 9e7ee91).
   What can still escape is a plain callable that iterates or indexes its argument: all_unique (TypeError on a value
   that cannot be iterated) and the [a, b] -> {start, stop} step of NumberRange.  `guarded` is a syntactic check:
   all_unique is only reached by sized values, the start/stop step only by lists.  For guarded schemas the
   interpreter never raises anything but Invalid / voluptuous.Error -- for ALL values; every class schema of the
   library is guarded (Proofs/SchemaGen.v). *)
From Coq Require Import ZArith QArith List Bool String Lia.
From Verif.Model Require Import Result Schema.
From Verif.Proofs Require Import Schema SchemaIdem.
Import ListNotations.
Open Scope list_scope.

Record facts := mkFacts { f_sized : bool; f_list : bool }.
Definition no_facts : facts := mkFacts false false.
Definition join (a b : facts) : facts := mkFacts (f_sized a || f_sized b) (f_list a || f_list b).

Definition top_facts : facts := mkFacts true true.
Definition meet (a b : facts) : facts := mkFacts (f_sized a && f_sized b) (f_list a && f_list b).

Definition type_facts (t : pytype) : facts :=
  match t with
  | TStr | TTuple | TDict => mkFacts true false
  | TList => mkFacts true true
  | _ => no_facts
  end.

Definition is_sized (v : pyval) : bool := match py_len v with Some _ => true | None => false end.
Definition is_list (v : pyval) : bool := match v with PList _ => true | _ => false end.

Definition holds (f : facts) (v : pyval) : Prop :=
  (f_sized f = true -> is_sized v = true) /\ (f_list f = true -> is_list v = true).

(* (guarded under the incoming facts, facts about the value handed on) *)
Fixpoint guard (f : facts) (s : schema) : bool * facts :=
  match s with
  | SType t => (true, join f (type_facts t))
  | SLit _ | SNotIn _ | SKeysStr | SCallable | SCallableArgs _ | SRange _ _ | SLength _ _ => (true, f)
  | SAllUnique => (f_sized f, f)
  | SStartStop => (f_list f, mkFacts true false)
  | SAny l =>
      ((fix go (l : list schema) : bool := match l with [] => true | a :: r => fst (guard f a) && go r end) l,
       (fix go (l : list schema) : facts := match l with [] => top_facts | a :: r => meet (snd (guard f a)) (go r) end) l)
  | SAll l =>
      (fix go (l : list schema) (f : facts) : bool * facts :=
         match l with
         | [] => (true, f)
         | a :: r => let (ok, f') := guard f a in let (ok', f'') := go r f' in (ok && ok', f'')
         end) l f
  | SList l =>
      ((fix go (l : list schema) : bool := match l with [] => true | a :: r => fst (guard no_facts a) && go r end) l,
       mkFacts true true)
  | STuple l =>
      ((fix go (l : list schema) : bool := match l with [] => true | a :: r => fst (guard no_facts a) && go r end) l,
       mkFacts true false)
  | SDict es extra =>
      ((fix go (l : list dentry) : bool :=
          match l with [] => true | (_, _, _, s') :: r => fst (guard no_facts s') && go r end) es
       && match extra with Some e => fst (guard no_facts e) | None => true end,
       mkFacts true false)
  | SWrap KList => (true, mkFacts true true)
  | SWrap KTuple => (true, mkFacts true false)
  | SWrapAlways | SCoerceTuple => (true, mkFacts true false)
  | SOracle _ => (true, no_facts)
  | SSingleAnswer a => (fst (guard no_facts a), no_facts)
  | SFormulaExpect _ a => (fst (guard no_facts a), no_facts)
  | SCoerceObj _ inner _ => (fst (guard no_facts inner), no_facts)
  end.

Definition guarded (s : schema) : bool := fst (guard no_facts s).

Definition mild (e : exc) : Prop := e = EInvalid \/ e = EVError.

Section Safe.
  Variable orc : Z -> pyval -> outcome pyval.
  (* the uninterpreted callable (PercentageString) raises nothing but Invalid *)
  Hypothesis orc_mild : forall id v e, orc id v = Raise e -> e = EInvalid.
  Notation V := (validate orc).

  Definition Safe (f : facts) (s : schema) : Prop :=
    forall v, holds f v ->
      match V s v with
      | Ret v' => holds (snd (guard f s)) v'
      | Raise e => mild e
      end.

  Lemma holds_none : forall v, holds no_facts v.
  Proof. intro v. repeat split; intro H; discriminate H. Qed.

  Lemma holds_join : forall a b v, holds a v -> holds b v -> holds (join a b) v.
  Proof.
    intros a b v [A1 A2] [B1 B2]. unfold join. repeat split; simpl; intro H; apply orb_true_iff in H; destruct H; auto.
  Qed.

  Lemma holds_type : forall t v, has_type t v = true -> holds (type_facts t) v.
  Proof.
    intros t v H. destruct t; try apply holds_none; destruct v; try discriminate H; repeat split; intro; try discriminate; reflexivity.
  Qed.

  Lemma holds_meet_l : forall a b v, holds a v -> holds (meet a b) v.
  Proof.
    intros a b v [A1 A2]. unfold meet. repeat split; simpl; intro H; apply andb_true_iff in H; destruct H; auto.
  Qed.

  Lemma holds_meet_r : forall a b v, holds b v -> holds (meet a b) v.
  Proof.
    intros a b v [A1 A2]. unfold meet. repeat split; simpl; intro H; apply andb_true_iff in H; destruct H; auto.
  Qed.

  Definition any_ok (f : facts) (l : list schema) : bool := forallb (fun a => fst (guard f a)) l.
  Fixpoint any_out (f : facts) (l : list schema) : facts :=
    match l with [] => top_facts | a :: r => meet (snd (guard f a)) (any_out f r) end.

  Lemma guard_any : forall f l, guard f (SAny l) = (any_ok f l, any_out f l).
  Proof.
    intros f l. simpl. f_equal; induction l as [|a r IH]; try reflexivity; simpl; rewrite IH; reflexivity.
  Qed.

  Lemma guard_seq_list : forall l,
    (fix go (l : list schema) : bool := match l with [] => true | a :: r => fst (guard no_facts a) && go r end) l
    = any_ok no_facts l.
  Proof. induction l as [|a r IH]; [reflexivity|]. simpl. rewrite IH. reflexivity. Qed.

  Lemma guard_all_cons : forall f a r,
    guard f (SAll (a :: r)) = (fst (guard f a) && fst (guard (snd (guard f a)) (SAll r)), snd (guard (snd (guard f a)) (SAll r))).
  Proof.
    intros f a r. simpl. destruct (guard f a) as [ok f']. simpl.
    destruct ((fix go (l : list schema) (f0 : facts) {struct l} : bool * facts :=
                 match l with
                 | [] => (true, f0)
                 | a0 :: r0 => let (ok0, f'0) := guard f0 a0 in let (ok', f'') := go r0 f'0 in (ok0 && ok', f'')
                 end) r f'); reflexivity.
  Qed.

  Lemma any_loop_safe : forall f l v,
    Forall (fun a => forall f, fst (guard f a) = true -> Safe f a) l -> any_ok f l = true -> holds f v ->
    match any_loop (fun a => V a v) l with Ret y => holds (any_out f l) y | Raise e => mild e end.
  Proof.
    intros f l v HF. induction HF as [|a r Ha _ IH]; intros Hg Hv; simpl.
    - left. reflexivity.
    - unfold any_ok in Hg. simpl in Hg. apply andb_true_iff in Hg. destruct Hg as [Hga Hgr].
      specialize (Ha f Hga v Hv). destruct (V a v) as [y|e]; [apply holds_meet_l; exact Ha|].
      destruct e; try (destruct Ha as [Ha|Ha]; discriminate Ha).
      + specialize (IH Hgr Hv). destruct (any_loop (fun a0 => V a0 v) r); [apply holds_meet_r; exact IH | exact IH].
      + right. reflexivity.
  Qed.

  Lemma seq_loop_safe : forall g xs, (forall x, match g x with Ret _ => True | Raise e => mild e end) ->
    match seq_loop g xs with Ret _ => True | Raise e => mild e end.
  Proof.
    intros g xs Hg. induction xs as [|x r IH]; simpl; [exact I|].
    specialize (Hg x). destruct (g x) as [y|e].
    - destruct (seq_loop g r); [exact I | exact IH].
    - destruct e; try exact Hg; destruct (seq_loop g r); try (left; reflexivity); exact IH.
  Qed.

  Lemma dict_loop_safe : forall g items,
    (forall k x, match g k x with Some (Raise e) => mild e | _ => True end) ->
    match dict_loop g items with Ret _ => True | Raise e => mild e end.
  Proof.
    intros g items Hg. induction items as [|[k x] r IH]; simpl; [exact I|].
    specialize (Hg k x). destruct (g k x) as [[y|e]|].
    - destruct (dict_loop g r); [exact I | exact IH].
    - destruct e; try exact Hg; destruct (dict_loop g r); try (left; reflexivity); exact IH.
    - destruct (dict_loop g r); [left; reflexivity | exact IH].
  Qed.

  Lemma sized_list : forall l, holds (mkFacts true true) (PList l).
  Proof. intro l. repeat split; intro H; try discriminate H; reflexivity. Qed.
  Lemma sized_tuple : forall l, holds (mkFacts true false) (PTuple l).
  Proof. intro l. repeat split; intro H; try discriminate H; reflexivity. Qed.
  Lemma sized_dict : forall l, holds (mkFacts true false) (PDict l).
  Proof. intro l. repeat split; intro H; try discriminate H; reflexivity. Qed.


  Lemma apply_post_exc : forall p c e, apply_post p c = Raise e -> e = EType.
  Proof.
    intros p c e H. destruct p; simpl in H; [discriminate|]. destruct c; try discriminate.
    destruct (dict_get (zs "start") l); [|discriminate]. destruct (dict_get (zs "stop") l); [|discriminate].
    destruct (num_of p); [|inversion H; reflexivity]. destruct (num_of p0); [|inversion H; reflexivity].
    destruct (num_leb n n0); discriminate.
  Qed.

  Lemma mild_inv : forall e, mild e -> e = EInvalid \/ e = EVError.
  Proof. intros e H. exact H. Qed.

  (* soundness of the check *)
  Theorem guard_sound : forall s f, fst (guard f s) = true -> Safe f s.
  Proof.
    induction s using schema_ind'; intros f Hg w Hw.
    - (* SType *)
      cbn [validate guard snd]. destruct (has_type t w) eqn:E; [|left; reflexivity].
      apply holds_join; [exact Hw | apply holds_type; exact E].
    - (* SLit *) cbn [validate guard snd]. destruct (py_eqb w v); [exact Hw | left; reflexivity].
    - (* SRange *)
      cbn [validate guard snd fst] in *. destruct (num_of w) as [n|]; [|left; reflexivity].
      destruct (bnd_lo_ok lo n && bnd_hi_ok hi n); [exact Hw | left; reflexivity].
    - (* SLength *)
      cbn [validate guard snd fst] in *. destruct (py_len w) as [n|]; [|left; reflexivity].
      destruct (opt_leb lo n && opt_geb hi n); [exact Hw | left; reflexivity].
    - (* SNotIn *) cbn [validate guard snd]. destruct (existsb (py_eqb w) l); [left; reflexivity | exact Hw].
    - (* SAny *)
      rewrite guard_any in *. cbn [fst snd] in *. rewrite validate_SAny.
      apply any_loop_safe; assumption.
    - (* SAll *)
      revert f w Hg Hw. induction H as [|a r Ha _ IH]; intros f w Hg Hw.
      + cbn. exact Hw.
      + rewrite guard_all_cons in *. cbn [fst snd] in *. apply andb_true_iff in Hg. destruct Hg as [Hga Hgr].
        rewrite all_cons. specialize (Ha f Hga w Hw). destruct (V a w) as [y|e]; [|exact Ha].
        apply IH; assumption.
    - (* SList *)
      cbn [guard fst snd] in *. rewrite guard_seq_list in Hg. rewrite validate_SList.
      destruct w; try (left; reflexivity). unfold seq_result. destruct l as [|a r].
      + destruct l0; [apply sized_list | left; reflexivity].
      + assert (Hs : match seq_loop (V (SAny (a :: r))) l0 with Ret _ => True | Raise e => mild e end).
        { apply seq_loop_safe. intro x. rewrite validate_SAny.
          pose proof (any_loop_safe no_facts (a :: r) x H Hg (holds_none x)) as Hx.
          destruct (any_loop _ _); [exact I | exact Hx]. }
        destruct (seq_loop _ l0); [apply sized_list | exact Hs].
    - (* STuple *)
      cbn [guard fst snd] in *. rewrite guard_seq_list in Hg. rewrite validate_STuple.
      destruct w; try (left; reflexivity). unfold seq_result. destruct l as [|a r].
      + destruct l0; [apply sized_tuple | left; reflexivity].
      + assert (Hs : match seq_loop (V (SAny (a :: r))) l0 with Ret _ => True | Raise e => mild e end).
        { apply seq_loop_safe. intro x. rewrite validate_SAny.
          pose proof (any_loop_safe no_facts (a :: r) x H Hg (holds_none x)) as Hx.
          destruct (any_loop _ _); [exact I | exact Hx]. }
        destruct (seq_loop _ l0); [apply sized_tuple | exact Hs].
    - (* SDict *)
      cbn [guard fst snd] in *. apply andb_true_iff in Hg. destruct Hg as [Hge Hgx].
      rewrite validate_SDict. destruct w; try (left; reflexivity).
      assert (Hes : forall e, In e es -> fst (guard no_facts (de_schema e)) = true).
      { clear - Hge. induction es as [|[[[k rq] df] s'] r IH]; intros e Hin; [contradiction|].
        apply andb_true_iff in Hge. destruct Hge as [Ha Hr]. destruct Hin as [<-|Hin]; [exact Ha | apply IH; assumption]. }
      assert (Hd : match dict_loop (dict_fn orc es extra) (l ++ defaults_for es l) with Ret _ => True | Raise e => mild e end).
      { apply dict_loop_safe. intros k x. unfold dict_fn.
        destruct (lookup_schema extra es k) as [s|] eqn:L; [|exact I]. simpl.
        destruct (lookup_schema_in _ _ _ _ L) as [[e [He Hs]]|Hx].
        - rewrite Forall_forall in H. pose proof (H e He no_facts) as He'. rewrite Hs in He'.
          specialize (He' ltac:(rewrite <- Hs; apply Hes; exact He) x (holds_none x)).
          destruct (V s x); [exact I | exact He'].
        - subst extra. simpl in H0. specialize (H0 no_facts Hgx x (holds_none x)).
          destruct (V s x); [exact I | exact H0]. }
      destruct (dict_loop _ _); [|exact Hd]. destruct (required_present es l); [apply sized_dict | left; reflexivity].
    - (* SWrap *) destruct k, w; cbn; first [apply sized_list | apply sized_tuple].
    - (* SWrapAlways *) cbn. apply sized_tuple.
    - (* SCoerceTuple *) destruct w; cbn; first [apply sized_tuple | left; reflexivity].
    - (* SStartStop *)
      cbn [guard fst snd] in *. destruct Hw as [_ Hl]. specialize (Hl Hg). destruct w; try discriminate Hl.
      cbn. destruct l as [|a [|b [|c r]]]; first [apply sized_dict | left; reflexivity].
    - (* SAllUnique *)
      cbn [guard fst snd] in *. pose proof Hw as [Hs _]. specialize (Hs Hg). destruct w; try discriminate Hs; cbn [validate].
      + destruct (has_dup _); [left; reflexivity | exact Hw].
      + destruct (has_dup _); [left; reflexivity | exact Hw].
      + destruct (has_dup _); [left; reflexivity | exact Hw].
      + exact Hw.
    - (* SKeysStr *) cbn [validate guard snd]. destruct w; try (left; reflexivity). destruct (forallb _ l); [exact Hw | left; reflexivity].
    - (* SCallable *) cbn [validate guard snd]. destruct (has_tag tag_callable w); [exact Hw | left; reflexivity].
    - (* SCallableArgs *) cbn [validate guard snd]. destruct (has_tag tag_callable w && has_tag (tag_arity n) w); [exact Hw | left; reflexivity].
    - (* SOracle *) cbn [validate guard snd]. destruct (orc id w) as [y|e] eqn:E; [apply holds_none | left; eapply orc_mild; exact E].
    - (* SSingleAnswer *)
      cbn [guard fst snd] in *. change (V (SSingleAnswer s) w) with (match V s w with
        | Ret r => Ret (fix_ok r)
        | Raise EInvalid => match V s (PDict [(s_expect, w); (s_ok, PBool true)]) with Ret r => Ret (fix_ok r) | Raise e => Raise e end
        | Raise e => Raise e end).
      pose proof (IHs no_facts Hg w (holds_none w)) as H1.
      destruct (V s w) as [r|e]; [apply holds_none|].
      destruct e; try (destruct H1 as [H1|H1]; discriminate H1).
      + pose proof (IHs no_facts Hg (PDict [(s_expect, w); (s_ok, PBool true)]) (holds_none _)) as H2.
        destruct (V s _); [apply holds_none | exact H2].
      + right. reflexivity.
    - (* SFormulaExpect *)
      cbn [guard fst snd] in *. rewrite formula_expect_unfold.
      pose proof (IHs no_facts Hg _ (holds_none (match w with
           | PStr _ => PDict [(PStr (zs "comparer"), d); (PStr (zs "comparer_params"), PList [w])]
           | _ => w end))) as H1.
      destruct (V s _); [apply holds_none | exact H1].
    - (* SCoerceObj *)
      cbn [guard fst snd] in *. cbn [validate].
      pose proof (IHs no_facts Hg w (holds_none w)) as H1.
      destruct (V s w) as [c|e].
      + destruct (apply_post p c) as [c'|e] eqn:E; [apply holds_none|].
        apply apply_post_exc in E. subst e. left. reflexivity.
      + destruct e; try (destruct H1 as [H1|H1]; discriminate H1); [right; reflexivity | right; reflexivity].
  Qed.

  (* for a guarded schema every refusal of validate_config is a validation error, whatever the value *)
  Theorem guarded_refusal_is_validation_error : forall s v e,
    guarded s = true -> validate_config orc s v = Raise e -> e = EVError.
  Proof.
    intros s v e Hg H. unfold validate_config in H.
    pose proof (guard_sound s no_facts Hg v (holds_none v)) as Hs.
    destruct (V s v) as [y|e0]; [discriminate|].
    destruct Hs as [->| ->]; inversion H; reflexivity.
  Qed.
End Safe.
