(* Proofs/MunkresStepT5.v -- step 5 never fails (the path search always finds its prime and stays within its
   fuel because the covered-row ranks strictly decrease along the path) and adds one starred column. *)
From Coq Require Import ZArith List Bool Arith Lia Permutation.
From Verif.Model Require Import Munkres.
From Verif.Proofs Require Import MunkresDuality MunkresInvLib MunkresInvDefs MunkresStep123 MunkresStep5 MunkresInvTerm.
Import ListNotations.
Local Open Scope nat_scope.

Section PathT.
  Variable n : nat.
  Variable mk : marks.
  Hypothesis SM : sq n mk.
  Notation g := (get2 0 mk).
  Variable rank : nat -> nat.
  Hypothesis HRK : forall i j i', g i j = 2 -> g i' j = 1 -> rank i' < rank i.
  Hypothesis HP : forall i j x, g i j = 1 -> g x j = 2 -> exists j', g i j' = 2.

  Lemma step5_path_total : forall fuel path rows r c rest, path = (r, c) :: rest -> g r c = 2 ->
    NoDup rows -> In r rows -> (forall x, In x rows -> x < n) -> (forall x, In x rows -> rank r <= rank x) ->
    n + 1 <= fuel + length rows -> step5_path fuel mk path <> None.
  Proof.
    induction fuel as [|f IH]; intros path rows r c rest EP G ND HI HB HM HF.
    - exfalso. assert (length rows <= length (seq 0 n)).
      { apply NoDup_incl_length; [exact ND|]. intros x Hx. apply in_seq. specialize (HB x Hx). lia. }
      rewrite seq_length in H. lia.
    - subst path. simpl. destruct (find_in_col 1 mk c) as [r'|] eqn:FC; [|discriminate].
      pose proof (find_in_col_some n 1 mk r' c SM ltac:(discriminate) FC) as [Hr' [Hc [G1 _]]].
      pose proof (HRK r c r' G G1) as RK.
      destruct (HP r' c r G1 G) as [j' Gj'].
      assert (Rj' : r' < n /\ j' < n) by (apply (get2_range n mk r' j' 0 SM); rewrite Gj'; discriminate).
      destruct (find_in_row_exists n 2 mk r' j' SM Hr' (proj2 Rj') Gj') as [c' FR]. rewrite FR.
      pose proof (find_in_row_some n 2 mk r' c' SM ltac:(discriminate) FR) as [_ [_ [G2 _]]].
      apply (IH _ (r' :: rows) r' c' ((r', c) :: (r, c) :: rest)); auto.
      + constructor; [|exact ND]. intro X. specialize (HM r' X). lia.
      + left; reflexivity.
      + intros x [<-|Hx]; [exact Hr' | apply HB; exact Hx].
      + intros x [<-|Hx]; [lia | specialize (HM x Hx); lia].
      + simpl. lia.
  Qed.
End PathT.

Section PathMore.
  Variable n : nat.
  Variable mk : marks.
  Hypothesis SM : sq n mk.
  Notation g := (get2 0 mk).
  Variables r0 c0 : nat.
  Hypothesis Hz0 : g r0 c0 = 2.

  Lemma vpath_head_prime : forall p, vpath mk r0 c0 p -> exists x y rest, p = (x, y) :: rest /\ g x y = 2.
  Proof.
    intros p V. destruct V as [|r c c' rc rest V FC FR].
    - exists r0, c0, []. auto.
    - pose proof (find_in_row_some n 2 mk r c' SM ltac:(discriminate) FR) as [_ [_ [G2 _]]].
      exists r, c', ((r, c) :: (rc, c) :: rest). auto.
  Qed.

  Lemma vpath_star_col : forall p, vpath mk r0 c0 p -> forall x y, In (x, y) p -> g x y = 1 ->
    exists x', In (x', y) p /\ g x' y = 2.
  Proof.
    induction 1 as [|r c c' rc rest V IH FC FR]; intros x y HI G1.
    - destruct HI as [E|[]]. inversion E; subst. congruence.
    - pose proof (find_in_row_some n 2 mk r c' SM ltac:(discriminate) FR) as [_ [_ [G2 _]]].
      destruct HI as [E|[E|HI]].
      + inversion E; subst. congruence.
      + inversion E; subst. exists rc. split; [right; right; left; reflexivity|].
        destruct (vpath_head_prime _ V) as [x0 [y0 [rest0 [E0 G0]]]]. inversion E0; subst. exact G0.
      + destruct (IH x y HI G1) as [x' [HI' G']]. exists x'. split; [right; right; exact HI' | exact G'].
  Qed.
End PathMore.

Lemma step5_C : forall n s s', zstep5 n s = Some s' -> sC s' = sC s.
Proof.
  intros n s s' H. unfold zstep5, step5 in H.
  destruct (step5_path (S (S n)) (sM s) [sZ0 s]); [|discriminate]. inversion H. reflexivity.
Qed.

Lemma step5_kc : forall n M0 s s', P5 n M0 s -> zstep5 n s = Some s' -> kc n s < kc n s'.
Proof.
  intros n M0 s s' [B [PZ [Hr0 [Hc0 [Hz0 Hns]]]]] H.
  pose proof (b_wf _ _ _ B) as W. pose proof W as [SC [SM [Lr Lc]]].
  unfold zstep5, step5 in H.
  destruct (step5_path (S (S n)) (sM s) [sZ0 s]) as [path|] eqn:SP; [|discriminate].
  injection H as Hs'. subst s'.
  destruct (sZ0 s) as [r0 c0] eqn:Z0. simpl in Hr0, Hc0, Hz0, Hns.
  set (mk := sM s) in *.
  assert (V0 : vpath mk r0 c0 [(r0, c0)]) by constructor.
  destruct (step5_path_vpath mk r0 c0 _ _ _ V0 SP) as [V T].
  assert (D : dist mk (snd (hd (0, 0) path)) 0) by (constructor; exact T).
  pose proof (vpath_Q n mk SM r0 c0 Hz0 Hns path V 0 D) as q.
  assert (RG : forall i j, In (i, j) path -> i < n /\ j < n).
  { intros i j HI. apply (get2_range n mk i j 0 SM).
    destruct (q_kind _ _ _ _ _ q i j HI) as [[G _]|[G _]]; rewrite G; discriminate. }
  assert (RG' : forall i j, In (i, j) (rev path) -> i < n /\ j < n) by (intros i j HI; apply RG; apply in_rev; exact HI).
  set (mk' := fold_left flip (rev path) mk) in *.
  set (s' := mkState (sC s) (erase_primes mk') (clear (sRC s)) (clear (sCC s)) (r0, c0)).
  assert (SM' : sq n (sM s')).
  { unfold s'; simpl. unfold erase_primes. apply (sq_mapmap n). apply fold_flip_sq. exact SM. }
  assert (NA : forall i j, In (i, j) path -> get2 0 mk i j = 2 -> gM s' i j = 1).
  { intros i j HI G. unfold gM, s'; simpl. rewrite erase_get. unfold mk'.
    rewrite (fold_flip_in n); [| exact SM | exact RG' | apply NoDup_rev; exact (q_nodup _ _ _ _ _ q) | apply -> in_rev; exact HI].
    rewrite G. reflexivity. }
  assert (NB : forall i j, ~ In (i, j) path -> get2 0 mk i j = 1 -> gM s' i j = 1).
  { intros i j HI G. unfold gM, s'; simpl. rewrite erase_get. unfold mk'.
    rewrite (fold_flip_notin n); [| exact SM | exact RG' | intro X; apply HI; apply in_rev; exact X].
    rewrite G. reflexivity. }
  destruct (vpath_head_prime n mk SM r0 c0 Hz0 path V) as [x0 [y0 [rest0 [EP G0]]]].
  assert (H0 : In (x0, y0) path) by (rewrite EP; left; reflexivity).
  unfold kc. apply (filter_length_mono_strict _ _ _ y0).
  - intros j _ CH. apply (col_has_true n 1 mk j SM) in CH; [|discriminate]. destruct CH as [i [Hi G1]].
    apply (col_has_true n 1 _ j SM'); [discriminate|].
    destruct (in_dec pair_eq_dec (i, j) path) as [HI|HI].
    + destruct (vpath_star_col n mk SM r0 c0 Hz0 path V i j HI G1) as [x' [HI' G2]].
      exists x'. split; [apply (RG x' j HI') | apply NA; assumption].
    + exists i. split; [exact Hi | apply NB; assumption].
  - apply in_seq. destruct (RG x0 y0 H0). lia.
  - destruct (col_has 1 mk y0) eqn:CH; [|exact CH]. exfalso.
    apply (col_has_true n 1 mk y0 SM) in CH; [|discriminate]. destruct CH as [i [Hi G1]].
    rewrite EP in T. simpl in T. exact (find_in_col_none n 1 mk i y0 SM Hi T G1).
  - apply (col_has_true n 1 _ y0 SM'); [discriminate|]. exists x0. split; [apply (RG x0 y0 H0) | apply NA; assumption].
Qed.

Lemma step5_T : forall n M0 s, T5 n M0 s ->
  exists s', zstep5 n s = Some s' /\ T3 n M0 s' /\ kc n s < kc n s'.
Proof.
  intros n M0 s [P [K [SCV [PC [CP [rank PR]]]]]].
  pose proof P as [B [PZ [Hr0 [Hc0 [Hz0 Hns]]]]].
  pose proof (b_wf _ _ _ B) as [_ [SM _]].
  assert (NN : step5_path (S (S n)) (sM s) [sZ0 s] <> None).
  { destruct (sZ0 s) as [r0 c0] eqn:Z0. simpl in Hr0, Hc0, Hz0.
    apply (step5_path_total n (sM s) SM rank PR) with (rows := [r0]) (r := r0) (c := c0) (rest := []); auto.
    - intros i j x G1 G2. apply CP. rewrite (SCV i j G1). rewrite (PC x j G2). reflexivity.
    - constructor; [intros [] | constructor].
    - left; reflexivity.
    - intros x [<-|[]]. exact Hr0.
    - intros x [<-|[]]. lia.
    - simpl. lia. }
  assert (E : exists s', zstep5 n s = Some s').
  { unfold zstep5, step5. destruct (step5_path (S (S n)) (sM s) [sZ0 s]); [eexists; reflexivity | congruence]. }
  destruct E as [s' E]. exists s'. split; [exact E|]. split.
  - exact (step5_P n M0 s s' P E).
  - exact (step5_kc n M0 s s' P E).
Qed.
