(* Proofs/MunkresTerm.v -- termination of the Munkres model within its fuel, and total correctness, for
   arbitrary integer entries (find_smallest returns the true minimum of the uncovered cells since fix ea8a5bc). *)
From Coq Require Import ZArith List Bool Arith Lia Permutation Sorted.
From Verif.Model Require Import Munkres.
From Verif.Proofs Require Import MunkresDuality MunkresSpec MunkresInvLib MunkresInvDefs MunkresStep123 MunkresStep46
  MunkresStep5 MunkresInvFinal MunkresCorrect MunkresInvTerm MunkresStepT123 MunkresStepT4 MunkresStepT5 MunkresStepT6.
Import ListNotations.
Local Open Scope nat_scope.

(* one-step unfoldings of the driver *)
Lemma drive_0 : forall f n s tr, zdrive (S f) n s 0 tr = Some (s, rev tr).
Proof. reflexivity. Qed.
Lemma drive_1 : forall f n s tr, zdrive (S f) n s 1 tr = zdrive f n (zstep1 s) 2 (1 :: tr).
Proof. reflexivity. Qed.
Lemma drive_2 : forall f n s tr, zdrive (S f) n s 2 tr = zdrive f n (zstep2 s) 3 (2 :: tr).
Proof. reflexivity. Qed.
Lemma drive_3 : forall f n s tr,
  zdrive (S f) n s 3 tr = zdrive f n (fst (zstep3 n s)) (snd (zstep3 n s)) (3 :: tr).
Proof. reflexivity. Qed.
Lemma drive_4 : forall f n s tr, zdrive (S f) n s 4 tr =
  match zstep4 n s with None => None | Some (s', nx) => zdrive f n s' nx (4 :: tr) end.
Proof. reflexivity. Qed.
Lemma drive_5 : forall f n s tr, zdrive (S f) n s 5 tr =
  match zstep5 n s with None => None | Some s' => zdrive f n s' 3 (5 :: tr) end.
Proof. reflexivity. Qed.
Lemma drive_6 : forall f n s tr, zdrive (S f) n s 6 tr =
  match zstep6 s with None => None | Some s' => zdrive f n s' 4 (6 :: tr) end.
Proof. reflexivity. Qed.
Lemma drive_7 : forall f n s k tr, zdrive (S f) n s (S (S (S (S (S (S (S k))))))) tr = Some (s, rev tr).
Proof. reflexivity. Qed.

Section Term.
  Variable n : nat.
  Variable M0 : nat -> nat -> Z.

  Let W := 2 * n + 5.

  (* phase invariant together with the fuel still needed *)
  Definition TT (step fuel : nat) (s : st) : Prop :=
    match step with
    | 1 => T1 n M0 s /\ n * W + 4 <= fuel
    | 2 => T2 n M0 s /\ n * W + 3 <= fuel
    | 3 => T3 n M0 s /\ (n - kc n s) * W + 2 <= fuel
    | 4 => T4 n M0 s /\ (n - kc n s - 1) * W + 4 + 2 * (n - cnt (sRC s)) <= fuel
           /\ (noZero n s -> (n - kc n s - 1) * W + 6 + 2 * (n - cnt (sRC s)) <= fuel)
    | 5 => T5 n M0 s /\ (n - kc n s - 1) * W + 3 <= fuel
    | 6 => T4 n M0 s /\ (n - kc n s - 1) * W + 5 + 2 * (n - cnt (sRC s)) <= fuel
    | _ => 1 <= fuel
    end.

  Lemma drive_total : forall fuel step s tr, TT step fuel s -> zdrive fuel n s step tr <> None.
  Proof.
    induction fuel as [|f IH]; intros step s tr H.
    - exfalso. destruct step as [|[|[|[|[|[|[|k]]]]]]]; simpl in H; try lia;
        repeat match goal with X : _ /\ _ |- _ => destruct X end; nia.
    - destruct step as [|[|[|[|[|[|[|k]]]]]]]; simpl in H.
      + rewrite drive_0. discriminate.
      + rewrite drive_1. apply IH. unfold TT. destruct H as [T F]. remember (n * W) as X.
        split; [apply step1_T; assumption | lia].
      + rewrite drive_2. apply IH. unfold TT. destruct H as [T F]. split; [apply step2_T; assumption|].
        assert ((n - kc n (zstep2 s)) * W <= n * W) by (apply Nat.mul_le_mono_r; lia).
        remember (n * W) as X. remember ((n - kc n (zstep2 s)) * W) as Y. lia.
      + rewrite drive_3. apply IH. destruct H as [T F].
        destruct (step3_T n M0 s T) as [N|[N [T' [R0 K']]]]; rewrite N; unfold TT.
        * remember ((n - kc n s) * W) as X. lia.
        * pose proof T' as [_ [KL _]]. rewrite K' in *. rewrite R0.
          assert (EW : (n - kc n s) * W = (n - kc n s - 1) * W + W).
          { replace (n - kc n s) with (S (n - kc n s - 1)) at 1 by lia. simpl. lia. }
          rewrite EW in F. remember ((n - kc n s - 1) * W) as X. unfold W in F.
          split; [exact T'|]. split; [lia | intros _; lia].
      + rewrite drive_4. destruct H as [T [F1 F2]].
        destruct (step4_T n M0 s T) as [s' [nx [E [K' O]]]]. rewrite E. apply IH.
        destruct O as [[-> T']|[-> [T' [LE NZ]]]]; unfold TT; rewrite K'; remember ((n - kc n s - 1) * W) as X.
        * split; [exact T' | lia].
        * split; [exact T'|].
          assert (Lr : length (sRC s') = n) by (destruct T' as [[B _] _]; apply (b_wf _ _ _ B)).
          pose proof (cnt_le (sRC s')) as CL. rewrite Lr in CL.
          destruct (Nat.eq_dec (cnt (sRC s')) (cnt (sRC s))) as [EQ|NE].
          -- specialize (F2 (NZ EQ)). rewrite EQ. lia.
          -- lia.
      + rewrite drive_5. destruct H as [T F].
        destruct (step5_T n M0 s T) as [s' [E [T' KL]]]. rewrite E. apply IH. unfold TT. split; [exact T'|].
        assert ((n - kc n s') * W <= (n - kc n s - 1) * W) by (apply Nat.mul_le_mono_r; lia).
        remember ((n - kc n s - 1) * W) as X. remember ((n - kc n s') * W) as Y. lia.
      + rewrite drive_6. destruct H as [T F].
        destruct (step6_T n M0 s T) as [s' [E [T' [ER [EK [i [j [Hi [Hj U]]]]]]]]]. rewrite E. apply IH. unfold TT.
        rewrite ER, EK. remember ((n - kc n s - 1) * W) as X. split; [exact T'|]. split; [lia|].
        intro NZ. rewrite (NZ i j Hi Hj) in U. discriminate.
      + rewrite drive_7. discriminate.
  Qed.
End Term.

(* termination: the model never exhausts its fuel and never takes an error branch, for arbitrary integer entries *)
Theorem munkres_terminates : forall (r c : nat) (M : list (list Z)),
  1 <= r -> 1 <= c -> rect r c M -> computeZ M <> None.
Proof.
  intros r c M Hr Hc HR.
  destruct (init_P1 r c M Hr HR) as [_ [L P]].
  set (n := Nat.max c r) in *.
  unfold computeZ, compute, compute_full.
  change (init Z 0%Z M) with (zinit M). rewrite L.
  pose proof (drive_total n (gz M) (fuel_for n) 1 (zinit M) []) as DT.
  unfold zdrive in DT.
  destruct (drive Z 0%Z Z.add Z.sub Z.ltb Z.eqb zmaxsize (fuel_for n) n (zinit M) 1 []) as [[s tr]|].
  - discriminate.
  - exfalso. apply DT; [|reflexivity]. simpl. split; [exact P|]. unfold fuel_for. nia.
Qed.

(* total correctness, no hypothesis on the entries *)
Theorem munkres_correct : forall (r c : nat) (M : list (list Z)),
  1 <= r -> 1 <= c -> rect r c M ->
  exists res, computeZ M = Some res
    /\ is_matching r c res /\ length res = Nat.min r c
    /\ (forall m, is_matching r c m -> length m = Nat.min r c -> (cost M res <= cost M m)%Z)
    /\ StronglySorted lt (map fst res)
    /\ (r = c -> map fst res = seq 0 r).
Proof.
  intros r c M Hr Hc HR.
  destruct (computeZ M) as [res|] eqn:E.
  - exists res. split; [reflexivity|]. apply (munkres_result_props r c M res Hr Hc HR E).
  - exfalso. exact (munkres_terminates r c M Hr Hc HR E).
Qed.

(* the statements of MunkresSpec *)
Theorem munkres_terminates_spec : munkres_terminates_statement.
Proof. intros r c M Hr Hc HR _. exact (munkres_terminates r c M Hr Hc HR). Qed.

Theorem munkres_correct_spec : munkres_correct_statement.
Proof.
  intros r c M Hr Hc HR _. destruct (munkres_correct r c M Hr Hc HR) as [res [A [B [C [D _]]]]].
  exists res. auto.
Qed.

(* the earlier, bounded statements (kept for users written against them) *)
Theorem munkres_terminates_bounded : forall (r c : nat) (M : list (list Z)) (B : Z),
  1 <= r -> 1 <= c -> rect r c M ->
  (forall i j, i < r -> j < c -> (0 <= gz M i j <= B)%Z) ->
  (Z.of_nat (Nat.max r c) * B < zmaxsize)%Z ->
  computeZ M <> None.
Proof. intros r c M B Hr Hc HR _ _. exact (munkres_terminates r c M Hr Hc HR). Qed.

Theorem munkres_correct_bounded : forall (r c : nat) (M : list (list Z)) (B : Z),
  1 <= r -> 1 <= c -> rect r c M ->
  (forall i j, i < r -> j < c -> (0 <= gz M i j <= B)%Z) ->
  (Z.of_nat (Nat.max r c) * B < zmaxsize)%Z ->
  exists res, computeZ M = Some res
    /\ is_matching r c res /\ length res = Nat.min r c
    /\ (forall m, is_matching r c m -> length m = Nat.min r c -> (cost M res <= cost M m)%Z)
    /\ StronglySorted lt (map fst res)
    /\ (r = c -> map fst res = seq 0 r).
Proof. intros r c M B Hr Hc HR _ _. exact (munkres_correct r c M Hr Hc HR). Qed.
