(* ParserStateTok.v -- exactness of the reported names stated on the input itself.

   For every token stream the grammar accepts, the reported names are what a purely lexical scan of the input
   finds: each name token directly followed by '(' is a function, each other name token a variable, each
   numeral's suffix a suffix -- every occurrence exactly once, nothing else.  (scan_names, Model/ParserState.v.)
   Uses C03's parser soundness (accepted token lists are exactly the token texts of well-formed trees) and,
   for explicit renderings with arbitrary white space, C03's string-level round trip. *)
From Coq Require Import ZArith QArith List Bool Lia Arith Permutation.
From Verif.Model Require Import Result Lexer Parser Eval EvalSpec ParserStateCb ParserState.
From Verif.Proofs Require Import ParserRoundTrip ParserSound LexerPrint RenderString EvalFlatten
                                 ParserStateCb ParserState ParserStateNames.
Import ListNotations.
Local Open Scope nat_scope.

Definition nolp (rest : list token) : bool := match rest with TLP :: _ => false | _ => true end.

(* tokens that are neither names nor numerals and do not open a parenthesis *)
Definition opish (k : token) : bool :=
  match k with TName _ | TNum _ _ | TLP => false | _ => true end.

Lemma scan_pre : forall pre r, forallb opish pre = true -> scan_names (pre ++ r) = scan_names r.
Proof.
  induction pre as [|k pre IH]; intros r H; [reflexivity|].
  simpl in H. apply andb_true_iff in H. destruct H as [H1 H2].
  simpl app. destruct k; try discriminate; simpl; apply IH; assumption.
Qed.

Lemma scan_opish : forall k r, opish k = true -> scan_names (k :: r) = scan_names r.
Proof. intros k r H. destruct k; try discriminate; reflexivity. Qed.

Lemma nolp_pre : forall pre r, pre <> [] -> forallb opish pre = true -> nolp (pre ++ r) = true.
Proof.
  intros [|k pre] r Hn H; [contradiction|]. simpl in H. apply andb_true_iff in H. destruct H as [H1 _].
  destruct k; try discriminate; reflexivity.
Qed.

Definition names_sel {A} (sel : A -> tree) (l : list A) : names :=
  mkNames (flat_map (fun x => vars_of (sel x)) l) (flat_map (fun x => funcs_of (sel x)) l)
          (flat_map (fun x => suffixes_of (sel x)) l).

Lemma names_sel_cons : forall A (sel : A -> tree) x l,
  names_sel sel (x :: l) = names_of (sel x) +++ names_sel sel l.
Proof. reflexivity. Qed.

Definition scans (t : tree) : Prop :=
  forall rest, nolp rest = true -> scan_names (print t ++ rest) = names_of t +++ scan_names rest.

Lemma scan_items : forall A (pre : A -> list token) (sel : A -> tree) (l : list A) rest,
  (forall x, pre x <> [] /\ forallb opish (pre x) = true) ->
  Forall (fun x => scans (sel x)) l -> nolp rest = true ->
  scan_names (flat_map (fun x => pre x ++ print (sel x)) l ++ rest) = names_sel sel l +++ scan_names rest
  /\ nolp (flat_map (fun x => pre x ++ print (sel x)) l ++ rest) = true.
Proof.
  intros A pre sel l rest Hpre H Hr. induction H as [|x l Hx Hl IH].
  - simpl. split; [destruct (scan_names rest); reflexivity|assumption].
  - destruct IH as [IH1 IH2]. destruct (Hpre x) as [Hn Ho]. simpl flat_map.
    rewrite <- !app_assoc. split.
    + rewrite (scan_pre _ _ Ho), (Hx _ IH2), IH1, names_sel_cons, names_app_assoc. reflexivity.
    + apply nolp_pre; assumption.
Qed.

Lemma names_app_nil_l' : forall a, no_names +++ a = a.
Proof. intros [v f s]. reflexivity. Qed.

Lemma scans_args : forall a l rest (closer_tok : token),
  opish closer_tok = true -> Forall scans (a :: l) -> 
  scan_names ((print a ++ flat_map (fun t => TComma :: print t) l) ++ closer_tok :: rest)
  = names_list (a :: l) +++ scan_names rest.
Proof.
  intros a l rest c Hc H. inversion H as [|? ? Ha Hl]; subst.
  destruct (scan_items tree (fun _ => [TComma]) (fun t => t) l (c :: rest)) as [I1 I2].
  - intro x. split; [discriminate|reflexivity].
  - assumption.
  - apply (nolp_pre [c]); [discriminate|simpl; rewrite Hc; reflexivity].
  - rewrite <- app_assoc. change (flat_map (fun t => TComma :: print t) l) with
      (flat_map (fun t : tree => [TComma] ++ print t) l).
    rewrite (Ha _ I2), I1. rewrite (scan_opish c rest Hc).
    rewrite names_list_cons, names_app_assoc. reflexivity.
Qed.

Theorem scan_print : forall t, scans t.
Proof.
  induction t using tree_ind'; intros rest0 Hr.
  - (* Num *) simpl. destruct s; reflexivity.
  - (* Var *) simpl. destruct rest0 as [|[] r]; try discriminate; reflexivity.
  - (* Fun *)
    destruct args as [|a l].
    + simpl. destruct (scan_names rest0); reflexivity.
    + rewrite print_Fun. simpl app. rewrite <- app_assoc. simpl app.
      change (scan_names (TName n :: TLP :: (print a ++ list_toks l) ++ TRP :: rest0))
        with (cb_fun n +++ scan_names ((print a ++ list_toks l) ++ TRP :: rest0)).
      unfold list_toks. rewrite (scans_args a l rest0 TRP eq_refl H).
      rewrite <- names_app_assoc. reflexivity.
  - (* Paren *)
    simpl. rewrite <- app_assoc. simpl. rewrite (IHt (TRP :: rest0) eq_refl). reflexivity.
  - (* Arr *)
    destruct items as [|a l].
    + simpl. destruct (scan_names rest0); reflexivity.
    + rewrite print_Arr. simpl app. rewrite <- app_assoc. simpl app.
      change (scan_names (TLB :: (print a ++ list_toks l) ++ TRB :: rest0))
        with (scan_names ((print a ++ list_toks l) ++ TRB :: rest0)).
      unfold list_toks. rewrite (scans_args a l rest0 TRB eq_refl H). reflexivity.
  - (* Pow *)
    rewrite print_Pow, <- app_assoc. unfold pow_toks.
    destruct (scan_items (bool * tree) (fun p => TCaret :: (if fst p then [TMinus] else [])) snd rest rest0) as [I1 I2].
    + intros [[|] a]; split; try discriminate; reflexivity.
    + assumption.
    + assumption.
    + change (flat_map (fun p : bool * tree => TCaret :: (if fst p then [TMinus] else []) ++ print (snd p)) rest)
        with (flat_map (fun p : bool * tree => (TCaret :: (if fst p then [TMinus] else [])) ++ print (snd p)) rest).
      rewrite (IHt _ I2), I1, <- names_app_assoc. reflexivity.
  - (* Neg *)
    simpl. rewrite (IHt _ Hr). reflexivity.
  - (* Par *)
    rewrite print_Par, <- app_assoc. unfold par_toks.
    destruct (scan_items tree (fun _ => [TPipe; TPipe]) (fun t => t) rest rest0) as [I1 I2].
    + intro x; split; [discriminate|reflexivity].
    + assumption.
    + assumption.
    + change (flat_map (fun t : tree => TPipe :: TPipe :: print t) rest)
        with (flat_map (fun t : tree => [TPipe; TPipe] ++ print t) rest).
      rewrite (IHt _ I2), I1, <- names_app_assoc. reflexivity.
  - (* Prod *)
    rewrite print_Prod, <- app_assoc. unfold prod_toks.
    destruct (scan_items (mulop * tree) (fun p => [mul_tok (fst p)]) snd rest rest0) as [I1 I2].
    + intros [[|] a]; split; try discriminate; reflexivity.
    + assumption.
    + assumption.
    + change (flat_map (fun p : mulop * tree => mul_tok (fst p) :: print (snd p)) rest)
        with (flat_map (fun p : mulop * tree => [mul_tok (fst p)] ++ print (snd p)) rest).
      rewrite (IHt _ I2), I1, <- names_app_assoc. reflexivity.
  - (* Sum *)
    rewrite print_Sum, <- !app_assoc. unfold sum_toks.
    destruct (scan_items (addop * tree) (fun p => [add_tok (fst p)]) snd rest rest0) as [I1 I2].
    + intros [[|] a]; split; try discriminate; reflexivity.
    + assumption.
    + assumption.
    + change (flat_map (fun p : addop * tree => add_tok (fst p) :: print (snd p)) rest)
        with (flat_map (fun p : addop * tree => [add_tok (fst p)] ++ print (snd p)) rest).
      assert (E : scan_names (print t ++ flat_map (fun p : addop * tree => [add_tok (fst p)] ++ print (snd p)) rest ++ rest0)
                  = names_of (Sum lead t rest) +++ scan_names rest0).
      { rewrite (IHt _ I2), I1, <- names_app_assoc. reflexivity. }
      destruct lead; simpl app; [simpl scan_names at 1|]; exact E.
Qed.

(* the names of an accepted token stream, read off the stream itself *)
Theorem token_names : forall ts t, parse_tokens ts = Some t -> scan_names ts = names_of t.
Proof.
  intros ts t H. destruct (parse_tokens_sound ts t H) as [-> _].
  pose proof (scan_print t [] eq_refl) as S. rewrite app_nil_r in S. rewrite S.
  simpl. apply names_app_nil_r.
Qed.

(* every callback-recorded name of an accepted input is a token of the input in the matching role, once *)
Theorem cb_exact_tokens : forall ts t log, cb_parse_tokens ts = (Some t, log) -> nperm log (scan_names ts).
Proof.
  intros ts t log H. pose proof (cb_tree ts) as T. rewrite H in T. simpl in T. symmetry in T.
  rewrite (token_names ts t T). apply (cb_exact ts). assumption.
Qed.

(* on the shared parser, after any history: for every accepted string, the reported names are the lexical
   scan of its token stream *)
Theorem reported_names_are_the_tokens : forall junk engine ops s ts t,
  engine (strip_spaces s) = false ->
  check_brackets (strip_spaces s) = None -> lex (strip_spaces s) = Some ts -> parse_tokens ts = Some t ->
  exists l, snd (step junk engine faithful (run junk engine faithful init ops) (OParse s)) = VP (VTree t l) /\
            nperm l (scan_names ts).
Proof.
  intros junk engine ops s ts t He B L P.
  assert (PF : parse_formula s = PTree t) by (unfold parse_formula; rewrite B, L, P; reflexivity).
  destruct (reported_names_exact junk engine ops s t He PF) as (l & H1 & H2).
  exists l. split; [assumption|]. rewrite (token_names ts t P). assumption.
Qed.

(* every explicit rendering of a derivation -- canonical tokens, arbitrary TAB / LF / CR runs around them,
   spaces anywhere -- reports exactly the derivation's occurrences (tokens valid in the sense of C03's lexer
   round trip, which excludes suffixes beginning with e / E: for those use names_exact_string) *)
Theorem names_exact_rendering : forall junk engine ops e seps s,
  engine (strip_spaces s) = false ->
  wf_expr e = true -> Forall valid_token (render e) -> Forall (fun w => forallb is_ws w = true) seps ->
  strip_spaces s = spaced seps (render e) ->
  exists l, snd (step junk engine faithful (run junk engine faithful init ops) (OParse s)) = VP (VTree (flatten e) l) /\
            nperm l (enames e).
Proof.
  intros junk engine ops e seps s He W V S E.
  assert (PF : parse_formula s = PTree (flatten e)).
  { apply (parse_formula_rendering (flatten e) seps s); [apply flatten_wf; assumption|assumption|assumption|assumption]. }
  destruct (reported_names_exact junk engine ops s _ He PF) as (l & H1 & H2).
  exists l. split; [assumption|]. rewrite <- names_flatten. assumption.
Qed.
