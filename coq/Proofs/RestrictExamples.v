(* Proofs/RestrictExamples.v -- concrete runs of the restriction model (C09): non-vacuity of the theorems and the
   witnesses of the three places where the faithful model violates the full statement.  All by vm_compute.
   Strings are lists of code points; the comment next to each gives the text. *)
From Coq Require Import ZArith QArith List Bool.
From Verif.Model Require Import Result Lexer Parser Eval RestrictBase Restrict.
From Verif.Proofs Require Import Restrict RestrictGrade RestrictSum RestrictReport.
Import ListNotations.
Local Open Scope Z_scope.

Definition n_x : str := [120].          Definition n_z : str := [122].        Definition n_a : str := [97].
Definition n_a1 : str := [97; 95; 123; 49; 125].   (* a_{1} *)
Definition n_pi : str := [112; 105].    Definition n_sin : str := [115; 105; 110].  Definition n_cos : str := [99; 111; 115].
Definition n_sqrt : str := [115; 113; 114; 116].   Definition n_f : str := [102].   Definition n_n : str := [110].
Definition n_pct : str := [37].
Definition n_sib1 : str := [115; 105; 98; 108; 105; 110; 103; 95; 49].  (* sibling_1 *)
Definition n_sib2 : str := [115; 105; 98; 108; 105; 110; 103; 95; 50].  (* sibling_2 *)

(* FormulaGrader(variables=['x','z'], numbered_vars=['a'], instructor_vars=['z'], blacklist=['sin'],
                 user_functions={'f': ...}, forbidden_strings=['1 + x'], required_functions=[]) *)
Definition ex_cfg : rcfg :=
  mkCfg [n_sin; n_cos; n_sqrt] [n_f] [] [n_sin] [] [[49; 32; 43; 32; 120]] [n_x; n_z] [n_a] [n_z] [n_pi] [n_pct] [].
Definition ex_cfg_required : rcfg :=
  mkCfg [n_sin; n_cos; n_sqrt] [n_f] [] [] [n_cos] [] [n_x; n_z] [n_a] [n_z] [n_pi] [n_pct] [].
Definition ex_cfg_whitelist : rcfg :=
  mkCfg [n_sin; n_cos; n_sqrt] [n_f] [Some n_cos] [] [] [] [n_x; n_z] [n_a] [n_z] [n_pi] [n_pct] [].

Definition q (z : Z) : val := VS (mkC (inject_Z z) 0).
Definition const_fn (z : Z) : list val -> res val := fun _ => Ok (q z).
Definition id_fn : list val -> res val := fun l => match l with [v] => Ok v | _ => Err (EFunc 0) end.

(* one valuation: x = 2, z = 5, a_{1} = 7, pi = 3, sibling_1 = 9, sibling_2 = 3; sin = 0, cos = 1, sqrt = f = identity *)
Definition ex_env : env :=
  mkEnv (assoc [(n_x, q 2); (n_z, q 5); (n_a1, q 7); (n_pi, q 3); (n_sib1, q 9); (n_sib2, q 3)])
        (assoc [(n_sin, const_fn 0); (n_cos, const_fn 1); (n_sqrt, id_fn); (n_f, id_fn)])
        (assoc [(n_pct, (1 # 100)%Q)]).

Definition val_eqb (a b : option val) : bool :=
  match a, b with
  | Some (VS x), Some (VS y) => ceqb x y
  | _, _ => false
  end.

(* equality comparer, full credit *)
Definition ex_compare : comparison :=
  fun evals => if forallb (fun p => match fst p with [a] => val_eqb a (snd p) | _ => false end) evals
               then mkEntry OkTrue 1 [] else mkEntry OkFalse 0 [].

Definition ex_P : names := set_diff (set_union [n_f] [n_sin; n_cos; n_sqrt]) [n_sin].

Definition run (c : rcfg) (P : names) (answer input : str) : gout :=
  formula_check eval1 c P None [answer] [] [ex_env; ex_env] ex_compare input.

Definition credit : gout := GResult (mkEntry OkTrue 1 []).
Definition s_honest : str := [120; 43; 49].                        (* x+1 *)

Lemma ex_permitted : cfg_permitted ex_cfg = Some ex_P.
Proof. reflexivity. Qed.

Lemma ex_honest : run ex_cfg ex_P s_honest s_honest = credit.
Proof. vm_compute. reflexivity. Qed.

(* x+1+sin(0)*0 : blacklisted function behind a zero factor *)
Lemma ex_blacklisted_call : run ex_cfg ex_P s_honest [120; 43; 49; 43; 115; 105; 110; 40; 48; 41; 42; 48] = GInvalid (VNotPermitted [n_sin]).
Proof. vm_compute. reflexivity. Qed.

(* x + f(sin(0)) + 1 : nested inside the argument of a permitted function *)
Lemma ex_blacklisted_nested : run ex_cfg ex_P s_honest [120; 32; 43; 32; 102; 40; 115; 105; 110; 40; 48; 41; 41; 32; 43; 32; 49] = GInvalid (VNotPermitted [n_sin]).
Proof. vm_compute. reflexivity. Qed.

(* x+2+sin(0) : wrong anyway, so no error and no credit *)
Lemma ex_blacklisted_but_wrong : run ex_cfg ex_P s_honest [120; 43; 50; 43; 115; 105; 110; 40; 48; 41] = GResult (mkEntry OkFalse 0 []).
Proof. vm_compute. reflexivity. Qed.

(* x+1+z-z , x+1*z^0 , x+1+0*f(z) , x+1+0*[z,1] is an array: use x+1+0*f(z) *)
Lemma ex_instructor_var_cancelling :
  run ex_cfg ex_P s_honest [120; 43; 49; 43; 122; 45; 122] = GEvalError EUndefVar
  /\ run ex_cfg ex_P s_honest [40; 120; 43; 49; 41; 42; 122; 94; 48] = GEvalError EUndefVar
  /\ run ex_cfg ex_P s_honest [120; 43; 49; 43; 48; 42; 102; 40; 122; 41] = GEvalError EUndefVar.
Proof. vm_compute. repeat split; reflexivity. Qed.

(* the author's answer x+1+z-z+sin(0) may use the instructor variable and the blacklisted function *)
Lemma ex_author_free : run ex_cfg ex_P [120; 43; 49; 43; 122; 45; 122; 43; 115; 105; 110; 40; 48; 41] s_honest = credit.
Proof. vm_compute. reflexivity. Qed.

(* x+1+0*a_{1} is a numbered-variable instance; a_{01}, A_{1}, x', X are not names of anything *)
Lemma ex_numbered_and_variants :
  run ex_cfg ex_P s_honest [120; 43; 49; 43; 48; 42; 97; 95; 123; 49; 125] = credit
  /\ run ex_cfg ex_P s_honest [120; 43; 49; 43; 48; 42; 97; 95; 123; 48; 49; 125] = GEvalError EUndefVar
  /\ run ex_cfg ex_P s_honest [120; 43; 49; 43; 48; 42; 65; 95; 123; 49; 125] = GEvalError EUndefVar
  /\ run ex_cfg ex_P s_honest [120; 43; 49; 43; 48; 42; 120; 39] = GEvalError EUndefVar
  /\ run ex_cfg ex_P s_honest [88; 43; 49] = GEvalError EUndefVar.
Proof. vm_compute. repeat split; reflexivity. Qed.

(* x+1+Sin(0)*0 : case variant of a function; x+1+0*2k : undefined suffix *)
Lemma ex_case_variant_function : run ex_cfg ex_P s_honest [120; 43; 49; 43; 83; 105; 110; 40; 48; 41; 42; 48] = GEvalError EUndefFun
  /\ run ex_cfg ex_P s_honest [120; 43; 49; 43; 48; 42; 50; 107] = GEvalError EUndefSuffix.
Proof. vm_compute. split; reflexivity. Qed.

(* forbidden string '1 + x' : the answer '1 +x' contains it once spaces are ignored; 'x+1' does not *)
Lemma ex_forbidden_string : run ex_cfg ex_P s_honest [49; 32; 43; 120] = GInvalid VForbidden.
Proof. vm_compute. reflexivity. Qed.

(* required_functions=['cos']: x+1 is refused, x+1+0*cos(0) is accepted *)
Lemma ex_required_function :
  run ex_cfg_required (set_union [n_f] [n_sin; n_cos; n_sqrt]) s_honest s_honest = GInvalid (VRequired n_cos)
  /\ run ex_cfg_required (set_union [n_f] [n_sin; n_cos; n_sqrt]) s_honest [120; 43; 49; 43; 48; 42; 99; 111; 115; 40; 48; 41] = credit.
Proof. vm_compute. split; reflexivity. Qed.

(* whitelist=['cos']: sqrt is absent from the whitelist, the user function f is always allowed *)
Lemma ex_whitelist :
  cfg_permitted ex_cfg_whitelist = Some [n_f; n_cos]
  /\ run ex_cfg_whitelist [n_f; n_cos] s_honest [120; 43; 49; 43; 48; 42; 115; 113; 114; 116; 40; 52; 41] = GInvalid (VNotPermitted [n_sqrt])
  /\ run ex_cfg_whitelist [n_f; n_cos] s_honest [120; 43; 49; 43; 48; 42; 102; 40; 99; 111; 115; 40; 48; 41; 41] = credit.
Proof. vm_compute. repeat split; reflexivity. Qed.

(* numbered_vars_regexp(['a','Cat']) on a_{1}, a_{-12}, a_{0}, Cat_{7}; and on a, a_{01}, a_{-0}, A_{1}, a_{1}x *)
Lemma ex_numbered_match :
  map (numbered_match [n_a; [67; 97; 116]]) [[97; 95; 123; 49; 125]; [97; 95; 123; 45; 49; 50; 125]; [97; 95; 123; 48; 125]; [67; 97; 116; 95; 123; 55; 125]] = [true; true; true; true]
  /\ map (numbered_match [n_a; [67; 97; 116]]) [[97]; [97; 95; 123; 48; 49; 125]; [97; 95; 123; 45; 48; 125]; [65; 95; 123; 49; 125]; [97; 95; 123; 49; 125; 120]] = [false; false; false; false; false].
Proof. vm_compute. split; reflexivity. Qed.

(* ---------- ordered list: answers ['sibling_2^2', 'x+1'] ---------- *)
Definition mk_box (key : str) (answer input : str) : box :=
  mkBox ex_cfg key [answer] None input [ex_env] ex_compare.

(* inputs ['(x+1)^2', 'x+1'] *)
Lemma ex_list_honest :
  ordered_list_check eval1 [mk_box n_sib1 [115; 105; 98; 108; 105; 110; 103; 95; 50; 94; 50] [40; 120; 43; 49; 41; 94; 50]; mk_box n_sib2 s_honest s_honest]
  = inr [mkEntry OkTrue 1 []; mkEntry OkTrue 1 []].
Proof. vm_compute. reflexivity. Qed.

(* inputs ['(x+1)^2+0*sibling_2', 'x+1'] : box 1 mentions the sibling its answer is built from *)
Lemma ex_list_sibling_in_own_box :
  ordered_list_check eval1 [mk_box n_sib1 [115; 105; 98; 108; 105; 110; 103; 95; 50; 94; 50] [40; 120; 43; 49; 41; 94; 50; 43; 48; 42; 115; 105; 98; 108; 105; 110; 103; 95; 50]; mk_box n_sib2 s_honest s_honest] = inl (GEvalError EUndefVar).
Proof. vm_compute. reflexivity. Qed.

(* REFUTED (rejected, but not "as undefined"): inputs ['(x+1)^2', 'x+1+0*sibling_1'] and ['(x+1)^2', 'x+1+0*qq'].
   Box 1 is checked first; its sampling turns box 2's input into a DependentSampler, which cannot be resolved, so the
   student sees the author-facing ConfigError instead of UndefinedVariable. *)
Lemma ex_list_sibling_config_error :
  ordered_list_check eval1 [mk_box n_sib1 [115; 105; 98; 108; 105; 110; 103; 95; 50; 94; 50] [40; 120; 43; 49; 41; 94; 50]; mk_box n_sib2 s_honest [120; 43; 49; 43; 48; 42; 115; 105; 98; 108; 105; 110; 103; 95; 49]] = inl GConfigError
  /\ ordered_list_check eval1 [mk_box n_sib1 [115; 105; 98; 108; 105; 110; 103; 95; 50; 94; 50] [40; 120; 43; 49; 41; 94; 50]; mk_box n_sib2 s_honest [120; 43; 49; 43; 48; 42; 113; 113]] = inl GConfigError.
Proof. vm_compute. split; reflexivity. Qed.

(* a sibling that reaches the grader only through a DependentSampler (sample_from = {'s': DependentSampler(depends=
   ['sibling_1'], formula='sibling_1+1')}), answers ['1', 's'], inputs ['1', 'sibling_1+1']: sibling_1 is sampled for box 2
   and is scrubbed from the student's scope like the siblings named in the answer *)
Definition dep_cfg : rcfg :=
  mkCfg [n_sin; n_cos; n_sqrt] [] [] [] [] [] [n_x; [115]] [] [] [n_pi] [n_pct] [n_sib1].
Definition dep_env : env :=
  mkEnv (assoc [(n_x, q 2); ([115], q 10); (n_pi, q 3); (n_sib1, q 9)]) (assoc [(n_sin, const_fn 0)]) (assoc [(n_pct, (1 # 100)%Q)]).
Definition dep_boxes : list box :=
  [mkBox dep_cfg n_sib1 [[49]] None [49] [dep_env] ex_compare;
   mkBox dep_cfg n_sib2 [[115]] None [115; 105; 98; 108; 105; 110; 103; 95; 49; 43; 49] [dep_env] ex_compare].
Lemma ex_list_sibling_through_sampler :
  map (fun b => map fst (sibling_formulas_of dep_boxes b)) dep_boxes = [[n_sib1]; [n_sib1]]
  /\ ordered_list_check eval1 dep_boxes = inl (GEvalError EUndefVar).
Proof. vm_compute. split; reflexivity. Qed.

(* ---------- SumGrader ---------- *)
Definition sum_cfg : rcfg := mkCfg [n_sin; n_cos; n_sqrt] [] [] [n_sqrt] [] [[49; 48]] [n_z] [] [n_z] [n_pi] [n_pct] [].
Definition sum_P : names := [n_sin; n_cos].
Definition all_entered : entered := mkEntered true true true true.
Definition only_summand : entered := mkEntered false false true false.

(* integer indices lo..hi (at most 20), even_odd = 1 keeps the odd ones *)
Definition as_Z (v : option val) : option Z := match v with Some (VS c) => as_int c | _ => None end.
Fixpoint upto (k : nat) (lo : Z) : list Z := match k with O => [] | S k' => lo :: upto k' (lo + 1) end.
Definition odd_range (lo hi : option val) : option (list val) :=
  match as_Z lo, as_Z hi with
  | Some a, Some b => Some (map q (filter Z.odd (upto (Z.to_nat (b - a + 1)) a)))
  | _, _ => None
  end.
Definition add_all (l : list (option val)) : option val :=
  fold_left (fun acc v => match acc, v with Some (VS a), Some (VS b) => Some (VS (cadd a b)) | _, _ => None end) l (Some (q 0)).
Definition ex_oracle : sum_oracle := mkSumOracle odd_range add_all.
Definition sum_env : env := mkEnv (assoc [(n_z, q 4); (n_pi, q 3)]) (assoc [(n_sin, const_fn 0); (n_cos, const_fn 1); (n_sqrt, id_fn)]) (assoc [(n_pct, (1 # 100)%Q)]).

(* author: sum of n^3 over the odd n from -3 to 3 (= 0) *)
Definition sum_author : sumfields := mkSum [45; 51] [51] [110; 94; 51] n_n.

Definition sum_run (en : entered) (author student : sumfields) : gout :=
  sum_check eval1 sum_cfg sum_P ex_oracle en author student [sum_env; sum_env] ex_compare.

Lemma ex_sum_honest : sum_run all_entered sum_author sum_author = credit.
Proof. vm_compute. reflexivity. Qed.

(* limits -3..3, summand n^3+0*z : the instructor variable is rejected when a term is evaluated *)
Lemma ex_sum_instructor_var : sum_run all_entered sum_author (mkSum [45; 51] [51] [110; 94; 51; 43; 48; 42; 122] n_n) = GEvalError EUndefVar.
Proof. vm_compute. reflexivity. Qed.

(* limits 2..2 with even_odd = 1 leave no index; the names of the summand are checked all the same (regression witness
   of the repaired SumGrader.evaluate_sum): the instructor variable z, the undefined name qq and the undefined suffix
   in 2k are rejected, the harmless summand 1 is graded *)
Lemma ex_sum_empty_range :
  sum_run all_entered sum_author (mkSum [50] [50] n_z n_n) = GEvalError EUndefVar
  /\ sum_run all_entered sum_author (mkSum [50] [50] [113; 113] n_n) = GEvalError EUndefVar
  /\ sum_run all_entered sum_author (mkSum [50] [50] [50; 107] n_n) = GEvalError EUndefSuffix
  /\ sum_run all_entered sum_author (mkSum [50] [50] [49] n_n) = credit.
Proof. vm_compute. repeat split; reflexivity. Qed.

(* an instructor variable cannot be the student's summation variable: limits -3..3, summand z^3, variable z *)
Lemma ex_sum_instructor_dummy :
  sum_run all_entered sum_author (mkSum [45; 51] [51] [122; 94; 51] n_z) = GSummationError.
Proof. vm_compute. reflexivity. Qed.

(* functions are read off the parse of the summand, so they are still checked over an empty range *)
Lemma ex_sum_empty_range_function :
  sum_run all_entered sum_author (mkSum [50] [50] [115; 113; 114; 116; 40; 49; 41] n_n) = GInvalid (VNotPermitted [n_sqrt]).
Proof. vm_compute. reflexivity. Qed.

(* REFUTED (the author's own answer is not free): the student enters only the summand; the author's upper limit z
   (an instructor variable), sqrt(16) (a blacklisted function) or 10 (a forbidden string) is validated as if the
   student had typed it, and the correct summand n is refused *)
Lemma ex_sum_author_fields :
  sum_run only_summand (mkSum [49] n_z n_n n_n) (mkSum [] [] n_n []) = GEvalError EUndefVar
  /\ sum_run only_summand (mkSum [49] [115; 113; 114; 116; 40; 49; 54; 41] n_n n_n) (mkSum [] [] n_n []) = GInvalid (VNotPermitted [n_sqrt])
  /\ sum_run only_summand (mkSum [49] [49; 48] n_n n_n) (mkSum [] [] n_n []) = GInvalid VForbidden.
Proof. vm_compute. repeat split; reflexivity. Qed.

(* ---------- how the undefined name is reported ---------- *)
Definition report (scope : names) (input : str) : option gout :=
  match parse_formula (py_strip input) with
  | PTree t => scope_report scope [n_sin; n_cos; n_f] [n_pct] t
  | _ => None
  end.

(* scope {x, y, a_{1}}: x+0*q and x+0*X are reported as UndefinedVariable ... *)
Lemma ex_report_undefined :
  report [n_x; [121]; n_a1] [120; 43; 48; 42; 113] = Some (GEvalError EUndefVar) /\ report [n_x; [121]; n_a1] [120; 43; 48; 42; 88] = Some (GEvalError EUndefVar)
  /\ report [n_x; [121]; n_a1] [120; 42; 97; 95; 123; 49; 125; 43; 121] = None.
Proof. vm_compute. repeat split; reflexivity. Qed.

(* ... and so is x*a_{1}+0*A_{1}, although the suggestion "(did you mean 'a_{1}'?)" contains braces
   (regression witness of the repaired check_scope message formatting) *)
Lemma ex_report_brace_variant : report [n_x; [121]; n_a1] [120; 42; 97; 95; 123; 49; 125; 43; 48; 42; 65; 95; 123; 49; 125] = Some (GEvalError EUndefVar).
Proof. vm_compute. reflexivity. Qed.
