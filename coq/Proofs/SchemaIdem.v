(* Proofs/SchemaIdem.v -- filters return their input; re-validating a validated value returns it unchanged
   (compositional lemmas for every schema shape that occurs in mitxgraders). *)
From Coq Require Import ZArith QArith List Bool String Lia.
From Verif.Model Require Import Result Schema.
From Verif.Proofs Require Import Schema.
Import ListNotations.
Open Scope list_scope.

(* validators that return the value they were given (or refuse it) *)
Fixpoint is_filter (s : schema) : bool :=
  match s with
  | SType _ | SLit _ | SRange _ _ | SLength _ _ | SNotIn _ | SAllUnique | SKeysStr | SCallable | SCallableArgs _ => true
  | SAny l | SAll l | SList l | STuple l =>
      (fix go (l : list schema) : bool := match l with [] => true | a :: r => is_filter a && go r end) l
  | _ => false
  end.

Lemma is_filter_list : forall l,
  (fix go (l : list schema) : bool := match l with [] => true | a :: r => is_filter a && go r end) l = forallb is_filter l.
Proof. induction l as [|a r IH]; [reflexivity|]. simpl. rewrite IH. reflexivity. Qed.

Section Idem.
  Variable orc : Z -> pyval -> outcome pyval.
  Notation V := (validate orc).

  Definition Same (s : schema) : Prop := forall v v', V s v = Ret v' -> v' = v.
  Definition Idem (s : schema) : Prop := forall v v', V s v = Ret v' -> V s v' = Ret v'.

  Lemma any_loop_ret_in : forall (f : schema -> outcome pyval) l y,
    any_loop f l = Ret y -> exists a, In a l /\ f a = Ret y.
  Proof.
    intros f l y. induction l as [|a r IH]; simpl; intro H; [discriminate|].
    destruct (f a) as [z|e] eqn:E.
    - inversion H; subst. exists a. split; [left; reflexivity | exact E].
    - destruct e; try discriminate. destruct (IH H) as [a' [Hin Ha]]. exists a'. split; [right; exact Hin | exact Ha].
  Qed.

  Lemma same_any : forall l, Forall Same l -> Same (SAny l).
  Proof.
    intros l HF v v' H. rewrite validate_SAny in H. apply any_loop_ret_in in H. destruct H as [a [Hin Ha]].
    rewrite Forall_forall in HF. exact (HF a Hin v v' Ha).
  Qed.

  Lemma same_all : forall l, Forall Same l -> Same (SAll l).
  Proof.
    intros l HF v v' H. rewrite validate_SAll in H. revert v H.
    induction HF as [|a r Ha _ IH]; intros v H; simpl in H; [inversion H; reflexivity|].
    destruct (V a v) as [y|e] eqn:E; [|discriminate]. apply Ha in E. subst y. apply IH. exact H.
  Qed.

  Lemma seq_same : forall s xs ys, Same s -> seq_loop (V s) xs = Ret ys -> ys = xs.
  Proof.
    intros s xs ys Hs H. apply seq_loop_ret in H. induction H as [|x y r r' Hxy _ IH]; [reflexivity|].
    apply Hs in Hxy. rewrite Hxy, IH. reflexivity.
  Qed.

  Lemma same_list : forall l, Forall Same l -> Same (SList l).
  Proof.
    intros l HF v v' H. rewrite validate_SList in H. destruct v; try discriminate. unfold seq_result in H.
    destruct l as [|a r].
    - destruct l0; inversion H; reflexivity.
    - destruct (seq_loop _ _) as [ys|e] eqn:E; [|discriminate]. inversion H; subst.
      apply seq_same in E; [subst; reflexivity | apply same_any; exact HF].
  Qed.

  Lemma same_tuple : forall l, Forall Same l -> Same (STuple l).
  Proof.
    intros l HF v v' H. rewrite validate_STuple in H. destruct v; try discriminate. unfold seq_result in H.
    destruct l as [|a r].
    - destruct l0; inversion H; reflexivity.
    - destruct (seq_loop _ _) as [ys|e] eqn:E; [|discriminate]. inversion H; subst.
      apply seq_same in E; [subst; reflexivity | apply same_any; exact HF].
  Qed.

  (* FILTERS return the value they were given *)
  Theorem filter_same : forall s, is_filter s = true -> Same s.
  Proof.
    induction s using schema_ind'; intro HF; try discriminate HF;
      try (intros v0 v' Hv; cbn [validate] in Hv;
           repeat match type of Hv with
                  | (if ?c then _ else _) = _ => destruct c
                  | match ?x with _ => _ end = _ => destruct x
                  end; try discriminate Hv; inversion Hv; reflexivity).
    - apply same_any. simpl in HF. rewrite is_filter_list in HF. rewrite forallb_forall in HF.
      rewrite Forall_forall in *. intros a Hin. apply H; [exact Hin | apply HF; exact Hin].
    - apply same_all. simpl in HF. rewrite is_filter_list in HF. rewrite forallb_forall in HF.
      rewrite Forall_forall in *. intros a Hin. apply H; [exact Hin | apply HF; exact Hin].
    - apply same_list. simpl in HF. rewrite is_filter_list in HF. rewrite forallb_forall in HF.
      rewrite Forall_forall in *. intros a Hin. apply H; [exact Hin | apply HF; exact Hin].
    - apply same_tuple. simpl in HF. rewrite is_filter_list in HF. rewrite forallb_forall in HF.
      rewrite Forall_forall in *. intros a Hin. apply H; [exact Hin | apply HF; exact Hin].
  Qed.

  Lemma same_idem : forall s, Same s -> Idem s.
  Proof. intros s Hs v v' H. pose proof (Hs _ _ H). subst. exact H. Qed.

  Lemma idem_filter : forall s, is_filter s = true -> Idem s.
  Proof. intros s H. apply same_idem. apply filter_same. exact H. Qed.

  (* -------------------------------------------------------------------------------------------- *)
  (* mappings                                                                                     *)
  (* -------------------------------------------------------------------------------------------- *)
  Lemma dict_loop_fixed : forall f l,
    dict_loop f l = Ret l <-> Forall (fun kx => f (fst kx) (snd kx) = Some (Ret (snd kx))) l.
  Proof.
    intros f l. rewrite dict_loop_ret. split; intro H.
    - induction l as [|a r IH]; [constructor|]. inversion H; subst. constructor; [tauto | apply IH; assumption].
    - induction H; constructor; auto.
  Qed.

  Lemma required_present_mono : forall es a b,
    (forall s, has_key s a = true -> has_key s b = true) -> required_present es a = true -> required_present es b = true.
  Proof.
    intros es a b Hm H. unfold required_present in *. rewrite forallb_forall in *. intros e Hin. specialize (H e Hin).
    destruct (negb (de_required e)); [reflexivity|]. destruct (de_default e); [reflexivity|]. simpl in *.
    apply Hm. exact H.
  Qed.

  Definition opt_idem (x : option schema) : Prop := match x with Some e => Idem e | None => True end.

  Theorem idem_dict : forall es extra,
    Forall (fun e => Idem (de_schema e)) es -> opt_idem extra -> Idem (SDict es extra).
  Proof.
    intros es extra HF HX v v' H.
    destruct (dict_only_dicts orc _ _ _ _ H) as [items ->].
    destruct (dict_accept_inv orc _ _ _ _ H) as [out [-> [Hl Hr]]].
    assert (HD : defaults_for es out = []).
    { apply defaults_for_nil. intros e Hin Hd. eapply declared_keys_present; [exact H | exact Hin | right; exact Hd]. }
    rewrite validate_SDict, HD, app_nil_r.
    assert (HK : keys_of out = keys_of items ++ keys_of (defaults_for es items)) by (eapply accepted_keys; exact H).
    assert (Hfix : dict_loop (dict_fn orc es extra) out = Ret out).
    { apply dict_loop_fixed. apply Forall_forall. intros [k y] Hin. simpl.
      destruct (accepted_entries_origin orc _ _ _ _ _ _ H Hin) as [s [x [_ [L Hv]]]].
      unfold dict_fn. rewrite L. simpl. f_equal.
      destruct (lookup_schema_in _ _ _ _ L) as [[e [He Hs]]|Hx].
      - rewrite Forall_forall in HF. specialize (HF e He). rewrite Hs in HF. eapply HF. exact Hv.
      - rewrite Hx in HX. simpl in HX. eapply HX. exact Hv. }
    rewrite Hfix.
    rewrite (required_present_mono es items out); [reflexivity | | exact Hr].
    intros s Hs. apply has_key_in. rewrite HK. apply in_or_app. left. apply has_key_in. exact Hs.
  Qed.

  Lemma dict_output_dict : forall es extra v v', V (SDict es extra) v = Ret v' -> exists out, v' = PDict out.
  Proof.
    intros es extra v v' H. destruct (dict_only_dicts orc _ _ _ _ H) as [items ->].
    destruct (dict_accept_inv orc _ _ _ _ H) as [out [-> _]]. eexists; reflexivity.
  Qed.

  (* replacing the value of a present key by a valid one keeps a fixed point a fixed point *)
  Lemma keys_dict_set : forall s x l, has_key s l = true -> keys_of (dict_set s x l) = keys_of l.
  Proof.
    intros s x l. induction l as [|[k v] r IH]; intro H; [discriminate|].
    unfold has_key in H. simpl in *. destruct (key_is k s) eqn:K; [reflexivity|].
    simpl in *. f_equal. apply IH. exact H.
  Qed.

  Lemma dict_set_fixed : forall es extra out s sch y,
    V (SDict es extra) (PDict out) = Ret (PDict out) -> has_key s out = true ->
    lookup_schema extra es (PStr s) = Some sch -> V sch y = Ret y ->
    V (SDict es extra) (PDict (dict_set s y out)) = Ret (PDict (dict_set s y out)).
  Proof.
    intros es extra out s sch y H Hk L Hy.
    pose proof (keys_dict_set s y out Hk) as HK.
    assert (HD0 : defaults_for es out = []).
    { apply defaults_for_nil. intros e Hin Hd. eapply declared_keys_present; [exact H | exact Hin | right; exact Hd]. }
    assert (HD : defaults_for es (dict_set s y out) = []).
    { apply defaults_for_nil. intros e Hin Hd. rewrite (has_key_keys _ _ _ HK).
      eapply declared_keys_present; [exact H | exact Hin | right; exact Hd]. }
    destruct (dict_accept_inv orc _ _ _ _ H) as [o [Ho [Hl Hr]]]. inversion Ho; subst o. clear Ho.
    rewrite HD0, app_nil_r in Hl.
    rewrite validate_SDict, HD, app_nil_r.
    assert (Hfix : dict_loop (dict_fn orc es extra) (dict_set s y out) = Ret (dict_set s y out)).
    { apply dict_loop_fixed. apply dict_loop_fixed in Hl. clear - Hl L Hy.
      induction out as [|[k v] r IH]; simpl.
      - constructor; [|constructor]. simpl. unfold dict_fn. rewrite L. simpl. rewrite Hy. reflexivity.
      - inversion Hl; subst. destruct (key_is k s) eqn:K.
        + constructor; [|assumption]. simpl. apply key_is_str in K. subst k. unfold dict_fn. rewrite L. simpl. rewrite Hy. reflexivity.
        + constructor; [assumption | apply IH; assumption]. }
    rewrite Hfix.
    rewrite (required_present_mono es out (dict_set s y out)); [reflexivity | | exact Hr].
    intros s0 Hs0. rewrite (has_key_keys _ _ _ HK). exact Hs0.
  Qed.

  (* -------------------------------------------------------------------------------------------- *)
  (* sequences, wrapping, chains                                                                  *)
  (* -------------------------------------------------------------------------------------------- *)
  Lemma any_single : forall a v, V (SAny [a]) v = match V a v with Raise EInvalid => Raise EInvalid | o => o end.
  Proof. intros. rewrite validate_SAny. simpl. destruct (V a v) as [y|[]]; reflexivity. Qed.

  Lemma any_single_ret : forall a v y, V (SAny [a]) v = Ret y <-> V a v = Ret y.
  Proof.
    intros a v y. rewrite any_single. destruct (V a v) as [z|[]]; split; intro H; try discriminate; exact H.
  Qed.

  Lemma seq_idem : forall a xs ys, Idem a -> seq_loop (V (SAny [a])) xs = Ret ys -> seq_loop (V (SAny [a])) ys = Ret ys.
  Proof.
    intros a xs ys Ha H. apply seq_loop_ret in H. apply seq_loop_ret.
    induction H as [|x y r r' Hxy _ IH]; constructor; [|exact IH].
    apply (proj2 (any_single_ret a y y)). apply (proj1 (any_single_ret a x y)) in Hxy. eapply Ha. exact Hxy.
  Qed.

  Lemma idem_list1 : forall a, Idem a -> Idem (SList [a]).
  Proof.
    intros a Ha v v' H. rewrite validate_SList in *. destruct v; try discriminate. unfold seq_result in *.
    destruct (seq_loop _ l) as [ys|e] eqn:E; [|discriminate]. inversion H; subst.
    rewrite (seq_idem a l ys Ha E). reflexivity.
  Qed.

  Lemma idem_tuple1 : forall a, Idem a -> Idem (STuple [a]).
  Proof.
    intros a Ha v v' H. rewrite validate_STuple in *. destruct v; try discriminate. unfold seq_result in *.
    destruct (seq_loop _ l) as [ys|e] eqn:E; [|discriminate]. inversion H; subst.
    rewrite (seq_idem a l ys Ha E). reflexivity.
  Qed.

  Lemma all_cons : forall a r v, V (SAll (a :: r)) v = match V a v with Ret y => V (SAll r) y | Raise e => Raise e end.
  Proof. intros. rewrite (validate_SAll orc (a :: r) v). cbn [all_loop]. destruct (V a v); [rewrite validate_SAll|]; reflexivity. Qed.

  Lemma all_nil : forall v, V (SAll []) v = Ret v.
  Proof. reflexivity. Qed.

  Lemma all_single : forall a v, V (SAll [a]) v = V a v.
  Proof. intros. rewrite all_cons. destruct (V a v); reflexivity. Qed.

  Lemma all_two : forall a b v, V (SAll [a; b]) v = match V a v with Ret y => V b y | Raise e => Raise e end.
  Proof. intros. rewrite all_cons. destruct (V a v); [apply all_single | reflexivity]. Qed.

  (* tuple-of-things after `if not isinstance(x, tuple): x = (x,)` (answers, expect tuples) *)
  Lemma idem_wrap_tuple1 : forall a, Idem a -> Idem (SAll [SWrap KTuple; STuple [a]]).
  Proof.
    intros a Ha v v' H. rewrite all_cons in H.
    assert (Hw : exists w, V (SWrap KTuple) v = Ret w) by (destruct v; eexists; reflexivity).
    destruct Hw as [w Hw]. rewrite Hw in H. rewrite all_single in H. rename H into E.
    pose proof (idem_tuple1 a Ha _ _ E) as E2.
    assert (Ht : exists ys, v' = PTuple ys).
    { rewrite validate_STuple in E. destruct w; try discriminate. unfold seq_result in E.
      destruct (seq_loop _ _); [|discriminate]. inversion E. eexists; reflexivity. }
    destruct Ht as [ys ->]. rewrite all_two. simpl (V (SWrap KTuple) (PTuple ys)). exact E2.
  Qed.

  Lemma idem_wrap_list1 : forall a, Idem a -> Idem (SAll [SWrap KList; SList [a]]).
  Proof.
    intros a Ha v v' H. rewrite all_cons in H.
    assert (Hw : exists w, V (SWrap KList) v = Ret w) by (destruct v; eexists; reflexivity).
    destruct Hw as [w Hw]. rewrite Hw in H. rewrite all_single in H. rename H into E.
    pose proof (idem_list1 a Ha _ _ E) as E2.
    assert (Ht : exists ys, v' = PList ys).
    { rewrite validate_SList in E. destruct w; try discriminate. unfold seq_result in E.
      destruct (seq_loop _ _); [|discriminate]. inversion E. eexists; reflexivity. }
    destruct Ht as [ys ->]. rewrite all_two. simpl (V (SWrap KList) (PList ys)). exact E2.
  Qed.

  (* ListOfType / TupleOfType: wrap, then filters only *)
  Lemma wrap_kind : forall k v w, V (SWrap k) v = Ret w -> V (SWrap k) w = Ret w.
  Proof. intros k v w H. destruct k, v; simpl in H; inversion H; reflexivity. Qed.

  Lemma idem_wrap_filter : forall k f, is_filter f = true -> Idem (SAll [SWrap k; f]).
  Proof.
    intros k f Hf v v' H. rewrite all_two in H.
    destruct (V (SWrap k) v) as [w|e] eqn:Hw; [|discriminate]. rename H into E.
    pose proof (filter_same f Hf _ _ E). subst v'.
    rewrite all_two, (wrap_kind _ _ _ Hw). exact E.
  Qed.

  (* an idempotent step followed by filters *)
  Lemma idem_then_filters : forall s fs, Idem s -> forallb is_filter fs = true -> Idem (SAll (s :: fs)).
  Proof.
    intros s fs Hs Hfs v v' H. rewrite all_cons in H. destruct (V s v) as [y|e] eqn:E; [|discriminate].
    assert (HF : is_filter (SAll fs) = true) by (simpl; rewrite is_filter_list; exact Hfs).
    pose proof (filter_same _ HF _ _ H). subst v'.
    rewrite all_cons, (Hs _ _ E). exact H.
  Qed.

  (* has_keys_of_type(str) in front of a mapping *)
  Lemma keys_all_str : forall es items, forallb (fun kv => match fst kv with PStr _ => true | _ => false end) items = true ->
    forallb (fun kv : pyval * pyval => match fst kv with PStr _ => true | _ => false end) (defaults_for es items) = true.
  Proof.
    intros es items _. induction es as [|e r IH]; [reflexivity|]. simpl.
    destruct (de_default e); [destruct (has_key (de_key e) items)|]; simpl; exact IH.
  Qed.

  Lemma idem_keys_dict : forall es extra, Idem (SDict es extra) -> Idem (SAll [SKeysStr; SDict es extra]).
  Proof.
    intros es extra Hd v v' H. rewrite all_two in H. simpl (V SKeysStr v) in H.
    destruct v; try discriminate.
    destruct (forallb _ l) eqn:Hk; [|discriminate]. rename H into E.
    destruct (dict_output_dict _ _ _ _ E) as [out ->].
    pose proof (accepted_keys orc _ _ _ _ E) as HK.
    assert (Hs : forallb (fun kv : pyval * pyval => match fst kv with PStr _ => true | _ => false end) out = true).
    { pose proof (keys_all_str es l Hk) as Hd'.
      assert (Hall : forall k, In k (keys_of out) -> match k with PStr _ => true | _ => false end = true).
      { intros k Hin. rewrite HK in Hin. apply in_app_or in Hin. unfold keys_of in Hin.
        destruct Hin as [Hin|Hin]; apply in_map_iff in Hin; destruct Hin as [[k0 x0] [Hk0 Hin]]; simpl in Hk0; subst k0.
        - rewrite forallb_forall in Hk. exact (Hk _ Hin).
        - rewrite forallb_forall in Hd'. exact (Hd' _ Hin). }
      apply forallb_forall. intros [k x] Hin. simpl. apply Hall. unfold keys_of. apply in_map_iff. exists (k, x). auto. }
    rewrite all_two. simpl (V SKeysStr (PDict out)). rewrite Hs. exact (Hd _ _ E).
  Qed.

  (* -------------------------------------------------------------------------------------------- *)
  (* alternatives                                                                                 *)
  (* -------------------------------------------------------------------------------------------- *)
  (* Any: every alternative is a filter, or re-validating its outputs with the whole Any returns them *)
  Theorem idem_any : forall alts,
    Forall (fun a => is_filter a = true \/ (forall v v', V a v = Ret v' -> V (SAny alts) v' = Ret v')) alts ->
    Idem (SAny alts).
  Proof.
    intros alts HF v v' H. pose proof H as H0. rewrite validate_SAny in H. apply any_loop_ret_in in H.
    destruct H as [a [Hin Ha]]. rewrite Forall_forall in HF. destruct (HF a Hin) as [Hf|Hg].
    - pose proof (filter_same a Hf _ _ Ha). subst v'. exact H0.
    - eapply Hg. exact Ha.
  Qed.

  Lemma any_head_ret : forall h rest v y, V h v = Ret y -> V (SAny (h :: rest)) v = Ret y.
  Proof. intros. rewrite validate_SAny. simpl. rewrite H. reflexivity. Qed.

  Lemma any_skip : forall h rest v, V h v = Raise EInvalid -> V (SAny (h :: rest)) v = V (SAny rest) v.
  Proof. intros. rewrite !validate_SAny. simpl. rewrite H. reflexivity. Qed.

  (* the first alternative is idempotent and is reached first: Any(Oracle, filter), NumberRange's dict form *)
  Lemma idem_any_head : forall h rest, Idem h ->
    Forall (fun a => is_filter a = true \/ (forall v v', V a v = Ret v' -> V h v' = Ret v')) rest -> Idem (SAny (h :: rest)).
  Proof.
    intros h rest Hh HF. apply idem_any. constructor.
    - right. intros v v' Hv. apply any_head_ret. eapply Hh. exact Hv.
    - rewrite Forall_forall in *. intros a Hin. destruct (HF a Hin) as [Hf|Hg]; [left; exact Hf|].
      right. intros v v' Hv. apply any_head_ret. eapply Hg. exact Hv.
  Qed.

  Lemma all_last_coerce : forall pre tags inner p v v',
    V (SAll (pre ++ [SCoerceObj tags inner p])) v = Ret v' -> exists c, v' = PObj tags c.
  Proof.
    intros pre tags inner p. induction pre as [|a r IH]; intros v v' H.
    - simpl app in H. rewrite all_single in H. simpl in H.
      destruct (validate orc inner v) as [c|[]]; try discriminate.
      destruct (apply_post p c) as [c'|[]]; try discriminate. inversion H. eexists; reflexivity.
    - simpl app in H. rewrite all_cons in H. destruct (V a v); [|discriminate]. eapply IH. exact H.
  Qed.

  Lemma coerce_output : forall tags inner p v v', V (SCoerceObj tags inner p) v = Ret v' -> exists c, v' = PObj tags c.
  Proof. intros. apply (all_last_coerce [] tags inner p v v'). simpl app. rewrite all_single. exact H. Qed.

  Lemma formula_expect_unfold : forall d sch v,
    V (SFormulaExpect d sch) v =
    V sch (match v with
           | PStr _ => PDict [(PStr (zs "comparer"), d); (PStr (zs "comparer_params"), PList [v])]
           | _ => v
           end).
  Proof. intros. destruct v; reflexivity. Qed.

  (* FormulaGrader.validate_expect around a mapping schema *)
  Lemma idem_formula_expect : forall d es extra, Idem (SDict es extra) -> Idem (SFormulaExpect d (SDict es extra)).
  Proof.
    intros d es extra Hd v v' H.
    rewrite formula_expect_unfold in H.
    destruct (dict_output_dict _ _ _ _ H) as [out ->].
    rewrite formula_expect_unfold. eapply Hd. exact H.
  Qed.
End Idem.
