(* ParserStateEx.v -- concrete histories for Props/C10.v: the theorems are not vacuous, and each anchored
   mechanism (reset in `finally`, replacing instead of clearing the collections) is needed. *)
From Coq Require Import ZArith QArith List Bool.
From Verif.Model Require Import Result Lexer Parser Eval EvalSpec ParserStateCb ParserState.
From Verif.Proofs Require Import ParserStateCb ParserState ParserStateNames.
Import ListNotations.
Open Scope Z_scope.

(* callbacks pyparsing may have fired before rejecting a string: here a name 'q' in every collection *)
Definition junk_q (s : str) : names := mkNames [[113]] [[113]] [[113]].

Definition s_bad_args : str := [102;40;120;44;41].                  (* f(x,)   *)
Definition s_bad_tail : str := [120;43].                            (* x+      *)
Definition s_bad_open : str := [40;120].                            (* (x      *)
Definition s_y : str := [121].                                      (* y       *)
Definition s_y_spaced : str := [32;121;32].                         (* " y "   *)
Definition s_ky : str := [50;107;42;121].                           (* 2k*y    *)
Definition s_xf : str := [120;40;102;41;43;50;107;42;120].          (* x(f)+2k*x : x is a function AND a variable *)

Definition s_deep : str := [113;43;50;107;42;40;40;49;41;41].          (* q+2k*((1)) standing for hundreds of bracket levels *)
(* the engine gives up on exactly this string *)
Definition engine_deep (k : str) : bool := str_eqb k s_deep.

Definition env_xy : env :=
  mkEnv (assoc [([120], VS (mkC 2 0)); ([121], VS (mkC 3 0))]) (fun _ => None) (assoc [([107], 1000%Q)]).

Definition history : list op :=
  [OParse s_bad_args; OParse s_bad_tail; OParse s_bad_open; OParse s_deep; OParse s_y_spaced; OParse s_y;
   OEval env_xy None (Some s_deep); OEval env_xy None (Some s_ky); OParse s_ky; OEval env_xy None (Some s_xf)].

(* three malformed strings and one on which the engine gives up first (callbacks fire for x and f inside
   "f(x,)" and junk is recorded), then
   valid ones: nothing leaks, the cached "y" is served for " y ", evaluation sees the same names *)
Lemma ex_history_trace :
  trace junk_q engine_deep faithful init history =
  [ VP (VErr (EUnparse s_bad_args)); VP (VErr (EUnparse s_bad_tail));
    VP (VErr (EUnbal OpenWithoutClose s_bad_open)); VP (VErr EEngine);
    VP (VTree (Var [121]) (mkNames [[121]] [] []));
    VP (VTree (Var [121]) (mkNames [[121]] [] []));
    VE (EvPErr EEngine);
    VE (EvVal (VS (mkC 6000 0)) (mkNames [[121]] [] [[107]]) 0);
    VP (VTree (Prod (Num [50] (Some [107])) [(OpMul, Var [121])]) (mkNames [[121]] [] [[107]]));
    VE (EvErr EUndefVar) ].
Proof. vm_compute. reflexivity. Qed.

(* the junk really was recorded -- into cells that were then abandoned *)
Lemma ex_history_heap :
  cell (run junk_q engine_deep faithful init history) 0 = mkNames [[120]; [102]; [113]] [[113]] [[113]] /\
  scratch (run junk_q engine_deep faithful init history) = no_names /\
  map fst (cache (run junk_q engine_deep faithful init history)) = [s_y; s_ky; s_xf].
Proof. vm_compute. repeat split. Qed.

(* without `finally` (reset only after a successful parse) the next successful parse inherits what the
   failed one recorded: the outcome for "y" depends on the history *)
Definition no_finally : policy := mkPolicy false true false.
Lemma ex_without_finally :
  snd (step junk_q engine_deep no_finally (run junk_q engine_deep no_finally init [OParse s_bad_args]) (OParse s_y))
    = VP (VTree (Var [121]) (mkNames [[120]; [102]; [113]; [121]] [[113]] [[113]])) /\
  snd (step junk_q engine_deep no_finally init (OParse s_y)) = VP (VTree (Var [121]) (mkNames [[121]] [] [])).
Proof. vm_compute. split; reflexivity. Qed.

(* with .clear() instead of new sets the MathExpression's own collections are emptied by the reset:
   nothing is reported for "y" *)
Definition clearing : policy := mkPolicy true false true.
Lemma ex_with_clear :
  snd (step junk_q engine_deep clearing init (OParse s_y)) = VP (VTree (Var [121]) no_names).
Proof. vm_compute. reflexivity. Qed.

(* resetting after parse-class errors only (`except (ParseException, UnableToParse)` instead of `finally`):
   when the engine gives up with another exception the scratch keeps what was recorded, and the next string
   that is not yet cached inherits it *)
Definition parse_errors_only : policy := mkPolicy true true false.
Lemma ex_engine_failure_leaks :
  snd (step junk_q engine_deep parse_errors_only (run junk_q engine_deep parse_errors_only init [OParse s_deep]) (OParse s_y))
    = VP (VTree (Var [121]) (mkNames [[113]; [121]] [[113]] [[113]])) /\
  snd (step junk_q engine_deep parse_errors_only init (OParse s_y)) = VP (VTree (Var [121]) (mkNames [[121]] [] [])) /\
  snd (step junk_q engine_deep faithful (run junk_q engine_deep faithful init [OParse s_deep]) (OParse s_y))
    = VP (VTree (Var [121]) (mkNames [[121]] [] [])).
Proof. vm_compute. repeat split. Qed.

(* a derivation in which the same name is a function head and a variable, and a suffix sits next to a name *)
Definition e_xf : expr := EAdd (EApp [120] [EVar [102]]) (EMul (ENum [50] (Some [107])) (EVar [120])).
Lemma ex_names_hyps :
  wf_expr e_xf = true /\ lex (strip_spaces s_xf) = Some (render e_xf) /\
  enames e_xf = mkNames [[102]; [120]] [[120]] [[107]].
Proof. vm_compute. repeat split. Qed.

Lemma ex_names_after_history : exists l,
  snd (step junk_q engine_deep faithful (run junk_q engine_deep faithful init history) (OParse s_xf)) = VP (VTree (flatten e_xf) l) /\
  nperm l (mkNames [[102]; [120]] [[120]] [[107]]).
Proof.
  destruct ex_names_hyps as (W & L & N). rewrite <- N.
  apply names_exact_string; try assumption. reflexivity.
Qed.

(* ---------- an explicit rendering with white space: the hypotheses of names_exact_rendering hold ---------- *)
From Verif.Proofs Require Import LexerPrint RenderString ParserStateTok.

Definition s_xf_ws : str := [32;120;40;32;102;41;9;43;50;107;32;42;10;120;32].     (* " x( f)<TAB>+2k *<LF>x " *)
Definition seps_xf : list str := [[]; []; []; []; [9]; []; []; [10]].

Lemma valid_plain_name : forall c, is_alpha c = true -> valid_name [c].
Proof.
  intros c H. exists c, [], [], []. split; [reflexivity|]. split; [assumption|].
  split; [reflexivity|]. split; [constructor|reflexivity].
Qed.

Lemma ex_rendering_hyps :
  wf_expr e_xf = true /\ Forall valid_token (render e_xf) /\
  Forall (fun w => forallb is_ws w = true) seps_xf /\ strip_spaces s_xf_ws = spaced seps_xf (render e_xf).
Proof.
  split; [reflexivity|]. split; [|split; [repeat constructor|reflexivity]].
  change (render e_xf) with [TName [120]; TLP; TName [102]; TRP; TPlus; TNum [50] (Some [107]); TStar; TName [120]].
  assert (Hn : valid_token (TNum [50] (Some [107]))).
  { split; [exists [50], []; split; [reflexivity|]; split; [apply man_int; reflexivity|constructor]|].
    split; [reflexivity|]. split; [reflexivity|split; reflexivity]. }
  repeat (apply Forall_cons; [first [exact Hn | apply valid_plain_name; reflexivity | exact I]|]). apply Forall_nil.
Qed.

Lemma ex_rendering_names : exists l,
  snd (step junk_q engine_deep faithful (run junk_q engine_deep faithful init history) (OParse s_xf_ws)) = VP (VTree (flatten e_xf) l) /\
  nperm l (mkNames [[102]; [120]] [[120]] [[107]]).
Proof.
  destruct ex_rendering_hyps as (W & V & S & E).
  destruct ex_names_hyps as (_ & _ & N). rewrite <- N.
  apply (names_exact_rendering junk_q engine_deep history e_xf seps_xf s_xf_ws eq_refl W V S E).
Qed.

Lemma ex_scan : scan_names (render e_xf) = mkNames [[102]; [120]] [[120]] [[107]].
Proof. reflexivity. Qed.
