(* ParserSound.v -- soundness of the token-level parser: whatever it accepts is the canonical print of
   the well-formed tree it returns.  Together with ParserRoundTrip.parse_print this characterises the
   accepted token lists exactly, which yields the rejection lemmas (doubled operators, juxtaposition,
   empty brackets / argument lists, leading and trailing operators) for token lists of any length. *)
From Coq Require Import ZArith List Bool Lia Arith.
From Verif.Model Require Import Result Lexer Parser.
From Verif.Proofs Require Import ParserRoundTrip.
Import ListNotations.

Definition args_toks (l : list tree) : list token :=
  match l with [] => [] | a :: r => print a ++ list_toks r end.

Lemma print_Fun' : forall n l, print (Fun n l) = TName n :: TLP :: args_toks l ++ [TRP].
Proof. reflexivity. Qed.
Lemma print_Arr' : forall l, print (Arr l) = TLB :: args_toks l ++ [TRB].
Proof. reflexivity. Qed.

Lemma forallb_Forall : forall (A : Type) (f : A -> bool) l, Forall (fun x => f x = true) l -> forallb f l = true.
Proof. intros A f l H. apply forallb_forall. rewrite Forall_forall in H. assumption. Qed.

Section Sound.
  Variable rec : list token -> option (tree * list token).
  Hypothesis Hrec : forall ts t rest, rec ts = Some (t, rest) -> ts = print t ++ rest /\ wfb t = true.

  Lemma list_loop_sound : forall k ts l rest,
    list_loop rec k ts = (l, rest) -> ts = list_toks l ++ rest /\ Forall (fun t => wfb t = true) l.
  Proof.
    induction k as [|k IH]; intros ts l rest H; simpl in H.
    - inversion H; subst. split; [reflexivity|constructor].
    - destruct ts as [|c r]; [inversion H; subst; split; [reflexivity|constructor]|].
      destruct c; try (inversion H; subst; split; [reflexivity|constructor]).
      destruct (rec r) as [[t r']|] eqn:Er; [|inversion H; subst; split; [reflexivity|constructor]].
      destruct (list_loop rec k r') as [l' r''] eqn:El. inversion H; subst.
      destruct (Hrec _ _ _ Er) as [E1 W1]. destruct (IH _ _ _ El) as [E2 W2]. subst.
      split; [simpl; rewrite <- app_assoc; reflexivity|constructor; assumption].
  Qed.

  Lemma parse_list_sound : forall ts l rest,
    parse_list rec ts = Some (l, rest) ->
    ts = args_toks l ++ rest /\ nonempty l = true /\ Forall (fun t => wfb t = true) l.
  Proof.
    intros ts l rest H. unfold parse_list in H.
    destruct (rec ts) as [[t r]|] eqn:Er; [|discriminate].
    destruct (list_loop rec (length r) r) as [l' r'] eqn:El. inversion H; subst.
    destruct (Hrec _ _ _ Er) as [E1 W1]. destruct (list_loop_sound _ _ _ _ El) as [E2 W2]. subst.
    split; [simpl; rewrite <- app_assoc; reflexivity|split; [reflexivity|constructor; assumption]].
  Qed.

  Definition sound_at (lvl : nat) (ts : list token) (t : tree) (rest : list token) : Prop :=
    ts = print t ++ rest /\ wfb t = true /\ lvl <= tlevel t.

  Lemma atom_sound : forall ts t rest, parse_atom rec ts = Some (t, rest) -> sound_at 5 ts t rest.
  Proof.
    intros ts t rest H. unfold sound_at. destruct ts as [|c r]; [discriminate|].
    destruct c; simpl in H; try discriminate.
    - inversion H; subst. auto.
    - assert (Hvar : Some (Var n, r) = Some (t, rest) -> TName n :: r = print t ++ rest /\ wfb t = true /\ 5 <= tlevel t)
        by (intro H'; inversion H'; subst; auto).
      destruct r as [|c r]; [exact (Hvar H)|].
      destruct c; try exact (Hvar H).
      destruct (parse_list rec r) as [[args r1]|] eqn:El; [|exact (Hvar H)].
      destruct r1 as [|c r1]; [exact (Hvar H)|].
      destruct c; try exact (Hvar H).
      inversion H; subst. destruct (parse_list_sound _ _ _ El) as (E & N & W). subst.
      rewrite print_Fun', wfb_Fun, N, (forallb_Forall _ _ _ W). simpl. rewrite <- !app_assoc. auto.
    - destruct (rec r) as [[t' r1]|] eqn:Er; [|discriminate].
      destruct r1 as [|c r1]; [discriminate|]. destruct c; try discriminate.
      inversion H; subst. destruct (Hrec _ _ _ Er) as [E W]. subst.
      simpl. rewrite <- app_assoc. auto.
    - destruct (parse_list rec r) as [[items r1]|] eqn:El; [|discriminate].
      destruct r1 as [|c r1]; [discriminate|]. destruct c; try discriminate.
      inversion H; subst. destruct (parse_list_sound _ _ _ El) as (E & N & W). subst.
      rewrite print_Arr', wfb_Arr, N, (forallb_Forall _ _ _ W). simpl. rewrite <- !app_assoc. auto.
  Qed.

  Definition pitem_wf (p : bool * tree) : bool := (5 <=? tlevel (snd p)) && wfb (snd p).

  Lemma pow_loop_sound : forall k ts l rest,
    pow_loop rec k ts = (l, rest) -> ts = pow_toks l ++ rest /\ forallb pitem_wf l = true.
  Proof.
    induction k as [|k IH]; intros ts l rest H.
    - simpl in H. inversion H; subst. auto.
    - destruct ts as [|c r]; [simpl in H; inversion H; subst; auto|].
      destruct c; try (simpl in H; inversion H; subst; auto; fail).
      rewrite pow_loop_S in H.
      destruct (match r with TMinus :: r0 => (true, r0) | _ => (false, r) end) as [sg r1] eqn:Es.
      destruct (parse_atom rec r1) as [[a r2]|] eqn:Ea; [|inversion H; subst; auto].
      destruct (pow_loop rec k r2) as [l' r3] eqn:El. inversion H; subst.
      destruct (atom_sound _ _ _ Ea) as (E1 & W1 & L1). destruct (IH _ _ _ El) as [E2 W2]. subst.
      assert (Er : r = (if sg then [TMinus] else []) ++ print a ++ pow_toks l' ++ rest).
      { destruct r as [|c r']; [inversion Es; subst; reflexivity|].
        destruct c; inversion Es; subst; reflexivity. }
      subst r. split.
      + simpl. rewrite <- !app_assoc. reflexivity.
      + cbn [forallb]. unfold pitem_wf at 1. cbn [snd]. apply Nat.leb_le in L1. rewrite L1, W1, W2. reflexivity.
  Qed.

  Lemma power_sound : forall ts t rest, parse_power rec ts = Some (t, rest) -> sound_at 4 ts t rest.
  Proof.
    intros ts t rest H. unfold parse_power in H.
    destruct (parse_atom rec ts) as [[a r]|] eqn:Ea; [|discriminate].
    destruct (pow_loop rec (length r) r) as [l r'] eqn:El. inversion H; subst.
    destruct (atom_sound _ _ _ Ea) as (E1 & W1 & L1). destruct (pow_loop_sound _ _ _ _ El) as [E2 W2]. subst.
    unfold sound_at. destruct l as [|p l].
    - simpl. split; [reflexivity|split; [assumption|lia]].
    - cbn [mk_pow]. rewrite print_Pow, wfb_Pow, <- app_assoc. apply Nat.leb_le in L1.
      fold pitem_wf. rewrite L1, W1, W2. simpl. auto.
  Qed.

  Lemma negation_sound : forall ts t rest, parse_negation rec ts = Some (t, rest) -> sound_at 3 ts t rest.
  Proof.
    intros ts t rest H. unfold parse_negation in H.
    assert (Hp : parse_power rec ts = Some (t, rest) -> sound_at 3 ts t rest).
    { intro H'. destruct (power_sound _ _ _ H') as (E & W & L). repeat split; auto; lia. }
    destruct ts as [|c r]; [exact (Hp H)|]. destruct c; try exact (Hp H).
    destruct (parse_power rec r) as [[p r']|] eqn:Ep; [|discriminate]. inversion H; subst.
    destruct (power_sound _ _ _ Ep) as (E & W & L). subst.
    unfold sound_at. rewrite wfb_Neg. apply Nat.leb_le in L. rewrite L, W. simpl. auto.
  Qed.

  Definition item_wf (lvl : nat) (t : tree) : bool := (lvl <=? tlevel t) && wfb t.

  Lemma par_loop_sound : forall k ts l rest,
    par_loop rec k ts = (l, rest) -> ts = par_toks l ++ rest /\ forallb (item_wf 3) l = true.
  Proof.
    induction k as [|k IH]; intros ts l rest H.
    - simpl in H. inversion H; subst. auto.
    - destruct ts as [|c r]; [simpl in H; inversion H; subst; auto|].
      destruct c; try (simpl in H; inversion H; subst; auto; fail).
      destruct r as [|c r]; [simpl in H; inversion H; subst; auto|].
      destruct c; try (simpl in H; inversion H; subst; auto; fail).
      rewrite par_loop_S in H.
      destruct (parse_negation rec r) as [[a r2]|] eqn:Ea; [|inversion H; subst; auto].
      destruct (par_loop rec k r2) as [l' r3] eqn:El. inversion H; subst.
      destruct (negation_sound _ _ _ Ea) as (E1 & W1 & L1). destruct (IH _ _ _ El) as [E2 W2]. subst.
      split.
      + simpl. rewrite <- !app_assoc. reflexivity.
      + cbn [forallb]. unfold item_wf at 1. apply Nat.leb_le in L1. rewrite L1, W1, W2. reflexivity.
  Qed.

  Lemma parallel_sound : forall ts t rest, parse_parallel rec ts = Some (t, rest) -> sound_at 2 ts t rest.
  Proof.
    intros ts t rest H. unfold parse_parallel in H.
    destruct (parse_negation rec ts) as [[a r]|] eqn:Ea; [|discriminate].
    destruct (par_loop rec (length r) r) as [l r'] eqn:El. inversion H; subst.
    destruct (negation_sound _ _ _ Ea) as (E1 & W1 & L1). destruct (par_loop_sound _ _ _ _ El) as [E2 W2]. subst.
    unfold sound_at. destruct l as [|p l].
    - simpl. split; [reflexivity|split; [assumption|lia]].
    - cbn [mk_par]. rewrite print_Par, wfb_Par, <- app_assoc. apply Nat.leb_le in L1.
      fold (item_wf 3). rewrite L1, W1, W2. simpl. auto.
  Qed.

  Definition pair_wf {A : Type} (lvl : nat) (p : A * tree) : bool := (lvl <=? tlevel (snd p)) && wfb (snd p).

  Lemma prod_loop_sound : forall k ts l rest,
    prod_loop rec k ts = (l, rest) -> ts = prod_toks l ++ rest /\ forallb (pair_wf 2) l = true.
  Proof.
    induction k as [|k IH]; intros ts l rest H.
    - simpl in H. inversion H; subst. auto.
    - destruct ts as [|c r]; [simpl in H; inversion H; subst; auto|].
      assert (Hstep : forall o, prod_loop rec (S k) (mul_tok o :: r) = (l, rest) ->
                mul_tok o :: r = prod_toks l ++ rest /\ forallb (pair_wf 2) l = true).
      { intros o H'. rewrite prod_loop_S in H'.
        destruct (parse_parallel rec r) as [[a r2]|] eqn:Ea; [|inversion H'; subst; auto].
        destruct (prod_loop rec k r2) as [l' r3] eqn:El. inversion H'; subst.
        destruct (parallel_sound _ _ _ Ea) as (E1 & W1 & L1). destruct (IH _ _ _ El) as [E2 W2]. subst.
        split.
        - simpl. rewrite <- !app_assoc. reflexivity.
        - cbn [forallb]. unfold pair_wf at 1. cbn [snd]. apply Nat.leb_le in L1. rewrite L1, W1, W2. reflexivity. }
      destruct c; try (simpl in H; inversion H; subst; auto; fail).
      + apply (Hstep OpMul H).
      + apply (Hstep OpDiv H).
  Qed.

  Lemma product_sound : forall ts t rest, parse_product rec ts = Some (t, rest) -> sound_at 1 ts t rest.
  Proof.
    intros ts t rest H. unfold parse_product in H.
    destruct (parse_parallel rec ts) as [[a r]|] eqn:Ea; [|discriminate].
    destruct (prod_loop rec (length r) r) as [l r'] eqn:El. inversion H; subst.
    destruct (parallel_sound _ _ _ Ea) as (E1 & W1 & L1). destruct (prod_loop_sound _ _ _ _ El) as [E2 W2]. subst.
    unfold sound_at. destruct l as [|p l].
    - simpl. split; [reflexivity|split; [assumption|lia]].
    - cbn [mk_prod]. rewrite print_Prod, wfb_Prod, <- app_assoc. apply Nat.leb_le in L1.
      fold (@pair_wf mulop 2). rewrite L1, W1, W2. simpl. auto.
  Qed.

  Lemma sum_loop_sound : forall k ts l rest,
    sum_loop rec k ts = (l, rest) -> ts = sum_toks l ++ rest /\ forallb (pair_wf 1) l = true.
  Proof.
    induction k as [|k IH]; intros ts l rest H.
    - simpl in H. inversion H; subst. auto.
    - destruct ts as [|c r]; [simpl in H; inversion H; subst; auto|].
      assert (Hstep : forall o, sum_loop rec (S k) (add_tok o :: r) = (l, rest) ->
                add_tok o :: r = sum_toks l ++ rest /\ forallb (pair_wf 1) l = true).
      { intros o H'. rewrite sum_loop_S in H'.
        destruct (parse_product rec r) as [[a r2]|] eqn:Ea; [|inversion H'; subst; auto].
        destruct (sum_loop rec k r2) as [l' r3] eqn:El. inversion H'; subst.
        destruct (product_sound _ _ _ Ea) as (E1 & W1 & L1). destruct (IH _ _ _ El) as [E2 W2]. subst.
        split.
        - simpl. rewrite <- !app_assoc. reflexivity.
        - cbn [forallb]. unfold pair_wf at 1. cbn [snd]. apply Nat.leb_le in L1. rewrite L1, W1, W2. reflexivity. }
      destruct c; try (simpl in H; inversion H; subst; auto; fail).
      + apply (Hstep OpAdd H).
      + apply (Hstep OpSub H).
  Qed.

  Lemma sum_sound : forall ts t rest, parse_sum rec ts = Some (t, rest) -> ts = print t ++ rest /\ wfb t = true.
  Proof.
    intros ts t rest H. unfold parse_sum in H.
    destruct (match ts with TPlus :: r => (true, r) | _ => (false, ts) end) as [lead ts1] eqn:Es.
    destruct (parse_product rec ts1) as [[a r]|] eqn:Ea; [|discriminate].
    destruct (sum_loop rec (length r) r) as [l r'] eqn:El. inversion H; subst.
    destruct (product_sound _ _ _ Ea) as (E1 & W1 & L1). destruct (sum_loop_sound _ _ _ _ El) as [E2 W2]. subst.
    assert (Ets : ts = (if lead then [TPlus] else []) ++ print a ++ sum_toks l ++ rest).
    { destruct ts as [|c r0]; [inversion Es; subst; reflexivity|].
      destruct c; inversion Es; subst; reflexivity. }
    subst ts. apply Nat.leb_le in L1.
    destruct lead; [|destruct l as [|p l]].
    - cbn [mk_sum]. rewrite print_Sum, wfb_Sum. fold (@pair_wf addop 1). rewrite L1, W1, W2.
      split; [rewrite <- !app_assoc; reflexivity|reflexivity].
    - cbn [mk_sum]. simpl. auto.
    - cbn [mk_sum]. rewrite print_Sum, wfb_Sum. fold (@pair_wf addop 1). rewrite L1, W1, W2.
      split; [rewrite <- !app_assoc; reflexivity|reflexivity].
  Qed.
End Sound.

Theorem parse_expr_sound : forall n ts t rest,
  parse_expr n ts = Some (t, rest) -> ts = print t ++ rest /\ wfb t = true.
Proof.
  induction n as [|n IH]; intros ts t rest H; [discriminate|].
  simpl in H. apply (sum_sound (parse_expr n) IH). assumption.
Qed.

Theorem parse_tokens_sound : forall ts t, parse_tokens ts = Some t -> ts = print t /\ wfb t = true.
Proof.
  intros ts t H. unfold parse_tokens in H.
  destruct (parse_expr (S (length ts)) ts) as [[t' r]|] eqn:E; [|discriminate].
  destruct r; [|discriminate]. inversion H; subst.
  destruct (parse_expr_sound _ _ _ _ E) as [E1 W]. rewrite app_nil_r in E1. auto.
Qed.

(* the accepted token lists are exactly the canonical prints of well-formed trees *)
Theorem parse_tokens_iff : forall ts t, parse_tokens ts = Some t <-> (ts = print t /\ wfb t = true).
Proof.
  intros ts t. split; [apply parse_tokens_sound|]. intros [E W]. subst. apply parse_print. assumption.
Qed.
