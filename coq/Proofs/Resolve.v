(* Proofs/Resolve.v -- lemmas about Model/Resolve.v (C13). *)
From Coq Require Import ZArith List Bool Lia Permutation Arith.
From Verif.Model Require Import Result Resolve.
Import ListNotations.

(* ------------------------------------------------------------------ names, membership, lookup *)
Lemma str_eqb_refl : forall a, str_eqb a a = true.
Proof. intro a. apply str_eqb_eq. reflexivity. Qed.

Lemma str_eqb_false : forall a b, str_eqb a b = false <-> a <> b.
Proof.
  intros a b. split.
  - intros H E. subst. rewrite str_eqb_refl in H. discriminate.
  - intro H. destruct (str_eqb a b) eqn:E; [ | reflexivity]. apply str_eqb_eq in E. contradiction.
Qed.

Lemma str_eqb_sym : forall a b, str_eqb a b = str_eqb b a.
Proof.
  intros a b. destruct (str_eqb a b) eqn:E.
  - apply str_eqb_eq in E. subst. symmetry. apply str_eqb_refl.
  - apply str_eqb_false in E. symmetry. apply str_eqb_false. congruence.
Qed.

Lemma str_eq_dec : forall a b : str, {a = b} + {a <> b}.
Proof.
  intros a b. destruct (str_eqb a b) eqn:E.
  - left. apply str_eqb_eq. exact E.
  - right. apply str_eqb_false. exact E.
Qed.

Lemma smem_In : forall x l, smem x l = true <-> In x l.
Proof.
  intros x l. induction l as [|y l IH]; simpl.
  - split; [discriminate | tauto].
  - rewrite orb_true_iff, IH, str_eqb_eq. split; intros [H|H]; auto.
Qed.

Lemma smem_false : forall x l, smem x l = false <-> ~ In x l.
Proof.
  intros x l. rewrite <- smem_In. destruct (smem x l); split; congruence.
Qed.

Lemma amem_In : forall {A} (e : list (str * A)) x, amem e x = true <-> In x (map fst e).
Proof.
  intros A e x. unfold amem. induction e as [|[y v] e IH]; simpl.
  - split; [discriminate | tauto].
  - destruct (str_eqb x y) eqn:E.
    + apply str_eqb_eq in E. subst. split; auto.
    + apply str_eqb_false in E. rewrite IH. split; [auto | intros [H|H]; [congruence | exact H]].
Qed.

Lemma amem_false : forall {A} (e : list (str * A)) x, amem e x = false <-> ~ In x (map fst e).
Proof.
  intros A e x. rewrite <- amem_In. destruct (amem e x); split; congruence.
Qed.

Lemma amem_alookup : forall {A} (e : list (str * A)) x, amem e x = true <-> exists v, alookup e x = Some v.
Proof.
  intros A e x. unfold amem. destruct (alookup e x) as [v|]; split.
  - eauto.
  - reflexivity.
  - discriminate.
  - intros [v H]. discriminate.
Qed.

Lemma amem_cons : forall {A} (e : list (str * A)) x y (v : A),
  amem ((y, v) :: e) x = str_eqb x y || amem e x.
Proof. intros. unfold amem. simpl. destruct (str_eqb x y); reflexivity. Qed.

Lemma alookup_In : forall {A} (e : list (str * A)) x v, alookup e x = Some v -> In (x, v) e.
Proof.
  intros A e x v. induction e as [|[y w] e IH]; simpl; [discriminate | ].
  destruct (str_eqb x y) eqn:E.
  - apply str_eqb_eq in E. intro H. inversion H. subst. auto.
  - auto.
Qed.

Lemma alookup_NoDup_In : forall {A} (e : list (str * A)) x v,
  NoDup (map fst e) -> In (x, v) e -> alookup e x = Some v.
Proof.
  intros A e x v. induction e as [|[y w] e IH]; simpl; [tauto | ].
  intros ND [H|H].
  - inversion H. subst. rewrite str_eqb_refl. reflexivity.
  - inversion ND as [|? ? Hn ND']. subst.
    destruct (str_eqb x y) eqn:E.
    + apply str_eqb_eq in E. subst. exfalso. apply Hn. apply in_map_iff. exists (y, v). auto.
    + auto.
Qed.

Lemma In_sdedup : forall x l, In x (sdedup l) <-> In x l.
Proof.
  intros x l. induction l as [|y l IH]; simpl; [tauto | ].
  rewrite filter_In, IH. destruct (str_eq_dec y x) as [E|E].
  - subst. tauto.
  - split.
    + intros [H|[H _]]; auto.
    + intros [H|H]; [congruence | ]. right. split; [exact H | ].
      apply negb_true_iff. apply str_eqb_false. exact E.
Qed.

Lemma NoDup_filter : forall {A} (f : A -> bool) l, NoDup l -> NoDup (filter f l).
Proof.
  intros A f l ND. induction ND as [|x l Hn ND IH]; simpl; [constructor | ].
  destruct (f x); [ | exact IH]. constructor; [ | exact IH].
  rewrite filter_In. tauto.
Qed.

Lemma NoDup_sdedup : forall l, NoDup (sdedup l).
Proof.
  induction l as [|x l IH]; simpl; constructor.
  - rewrite filter_In. intros [_ H]. rewrite str_eqb_refl in H. discriminate.
  - apply NoDup_filter. exact IH.
Qed.

Lemma sdedup_NoDup_id : forall l, NoDup l -> sdedup l = l.
Proof.
  intros l ND. induction ND as [|x l Hn ND IH]; simpl; [reflexivity | ].
  rewrite IH. f_equal. clear IH ND. induction l as [|y l IH]; simpl; [reflexivity | ].
  destruct (str_eqb x y) eqn:E.
  - apply str_eqb_eq in E. subst. exfalso. apply Hn. left. reflexivity.
  - simpl. f_equal. apply IH. intro H. apply Hn. right. exact H.
Qed.

Lemma alookup_cons_other_gen : forall {A} (e : list (str * A)) x (v : A) y, y <> x -> alookup ((x, v) :: e) y = alookup e y.
Proof. intros A e x v y H. simpl. apply str_eqb_false in H. rewrite H. reflexivity. Qed.

Lemma NoDup_app_intro : forall {A} (a b : list A), NoDup a -> NoDup b -> (forall x, In x a -> In x b -> False) -> NoDup (a ++ b).
Proof.
  intros A a b Na Nb D. induction Na as [|x a Hn Na IH]; simpl; [exact Nb | ].
  constructor.
  - rewrite in_app_iff. intros [H|H]; [contradiction | ]. apply (D x); [left; reflexivity | exact H].
  - apply IH. intros y Hy. apply D. right. exact Hy.
Qed.

Definition seteq (a b : list str) : Prop := forall x, In x a <-> In x b.

(* ------------------------------------------------------------------ the resolution loop *)
Section ResolveProofs.
  Variable V : Type.
  Variable formula : Type.
  Variable fdeps : formula -> list str.
  Variable ev : formula -> env V -> option V.

  Notation envT := (env V).
  Notation todoT := (list (str * formula)).
  Notation ready := (deps_ready V formula fdeps).
  Notation passM := (pass V formula fdeps ev).
  Notation loopM := (loop V formula fdeps ev).
  Notation resolveM := (resolve V formula fdeps ev).
  Notation diagnoseM := (diagnose V formula fdeps).
  Notation bad_itemsM := (bad_items V formula fdeps).

  (* the value of a formula depends only on the names it uses (C10 names_exact justifies this for the library) *)
  Definition ev_extensional : Prop :=
    forall f (e e' : envT), (forall x, In x (fdeps f) -> alookup e x = alookup e' x) -> ev f e = ev f e'.

  Definition env_equiv (e e' : envT) : Prop := forall x, alookup e x = alookup e' x.
  Definition extends (e e' : envT) : Prop := forall x v, alookup e x = Some v -> alookup e' x = Some v.

  Lemma ready_iff : forall f (e : envT), ready f e = true <-> forall d, In d (fdeps f) -> amem e d = true.
  Proof. intros f e. unfold deps_ready. apply forallb_forall. Qed.

  Lemma ready_false : forall f (e : envT), ready f e = false -> exists d, In d (fdeps f) /\ amem e d = false.
  Proof.
    intros f e H. unfold deps_ready in H.
    induction (fdeps f) as [|d l IH]; simpl in H; [discriminate | ].
    apply andb_false_iff in H. destruct H as [H|H].
    - exists d. split; [left; reflexivity | exact H].
    - destruct (IH H) as [d' [Hin Hd]]. exists d'. split; [right; exact Hin | exact Hd].
  Qed.

  Lemma ready_mono : forall f (e e' : envT),
    (forall y, amem e y = true -> amem e' y = true) -> ready f e = true -> ready f e' = true.
  Proof. intros f e e' H R. rewrite ready_iff in *. auto. Qed.

  (* environments reachable from e0 by evaluating ready dependents of todo0 under fresh names *)
  Inductive Built (todo0 : todoT) (e0 : envT) : envT -> Prop :=
  | Built_base : Built todo0 e0 e0
  | Built_step : forall e x f v,
      Built todo0 e0 e -> In (x, f) todo0 -> amem e x = false -> ready f e = true -> ev f e = Some v ->
      Built todo0 e0 ((x, v) :: e).

  Lemma alookup_cons_other : forall (e : envT) x v y, y <> x -> alookup ((x, v) :: e) y = alookup e y.
  Proof. intros. simpl. apply str_eqb_false in H. rewrite H. reflexivity. Qed.

  Lemma alookup_cons_fresh : forall (e : envT) x v y, amem e x = false -> amem e y = true ->
    alookup ((x, v) :: e) y = alookup e y.
  Proof.
    intros e x v y Hx Hy. apply alookup_cons_other. intro E. subst. congruence.
  Qed.

  Lemma built_extends : forall todo0 e0 e, Built todo0 e0 e -> extends e0 e.
  Proof.
    intros todo0 e0 e B. induction B as [|e x f v B IH Hin Hx Hr Hv].
    - intros y w H. exact H.
    - intros y w H. apply IH in H. rewrite alookup_cons_fresh; auto.
      apply amem_alookup. eauto.
  Qed.

  Lemma built_mem_mono : forall todo0 e0 e y, Built todo0 e0 e -> amem e0 y = true -> amem e y = true.
  Proof.
    intros todo0 e0 e y B H. apply amem_alookup in H. destruct H as [v H].
    apply (built_extends _ _ _ B) in H. apply amem_alookup. eauto.
  Qed.

  Lemma built_keys : forall todo0 e0 e y, Built todo0 e0 e -> amem e y = true ->
    amem e0 y = true \/ In y (map fst todo0).
  Proof.
    intros todo0 e0 e y B. induction B as [|e x f v B IH Hin Hx Hr Hv]; intro H; [auto | ].
    rewrite amem_cons in H. apply orb_true_iff in H. destruct H as [H|H]; [ | auto].
    apply str_eqb_eq in H. subst. right. apply in_map_iff. exists (x, f). auto.
  Qed.

  Lemma built_trans_step : forall todo0 e0 e, Built todo0 e0 e -> forall e', Built todo0 e e' -> Built todo0 e0 e'.
  Proof.
    intros todo0 e0 e B e' B'. induction B'; [exact B | econstructor; eauto].
  Qed.

  Lemma ready_cons_agree : forall f (e : envT) x v, ready f e = true -> amem e x = false ->
    forall d, In d (fdeps f) -> alookup ((x, v) :: e) d = alookup e d.
  Proof.
    intros f e x v R Hx d Hd. apply alookup_cons_fresh; [exact Hx | ]. rewrite ready_iff in R. auto.
  Qed.

  (* every bound name is an initial one or a dependent whose value is its formula on this very environment *)
  Lemma built_consistent : ev_extensional -> forall todo0 e0 e, Built todo0 e0 e ->
    forall x, amem e x = true ->
      amem e0 x = true \/
      exists f, In (x, f) todo0 /\ ready f e = true /\ ev f e = alookup e x /\ ~ In x (fdeps f).
  Proof.
    intros EXT todo0 e0 e B. induction B as [|e x0 f0 v0 B IH Hin Hx Hr Hv]; intros y Hy; [auto | ].
    assert (MONO : forall z, amem e z = true -> amem ((x0, v0) :: e) z = true).
    { intros z Hz. rewrite amem_cons, Hz. apply orb_true_r. }
    destruct (str_eq_dec y x0) as [E|E].
    - subst y. right. exists f0. split; [exact Hin | ]. split; [eapply ready_mono; eauto | ]. split.
      + rewrite (EXT f0 _ e (ready_cons_agree f0 e x0 v0 Hr Hx)). simpl. rewrite str_eqb_refl. exact Hv.
      + intro Hd. rewrite ready_iff in Hr. apply Hr in Hd. congruence.
    - rewrite amem_cons in Hy. apply str_eqb_false in E. rewrite E in Hy. simpl in Hy.
      destruct (IH y Hy) as [H|[f [H1 [H2 [H3 H4]]]]]; [auto | ].
      right. exists f. split; [exact H1 | ]. split; [eapply ready_mono; eauto | ]. split; [ | exact H4].
      rewrite (EXT f _ e (ready_cons_agree f e x0 v0 H2 Hx)). simpl. rewrite E. exact H3.
  Qed.

  (* --- one pass --- *)
  Lemma pass_ok : forall todo0 e0 todo e rem e' p,
    (forall xf, In xf todo -> In xf todo0) ->
    (forall xf, In xf todo -> amem e (fst xf) = false) ->
    NoDup (map fst todo) ->
    Built todo0 e0 e ->
    passM todo e = POk rem e' p ->
    Built todo0 e0 e' /\
    (forall xf, In xf rem -> In xf todo) /\
    NoDup (map fst rem) /\
    (forall xf, In xf rem -> amem e' (fst xf) = false) /\
    (forall xf, In xf todo -> In xf rem \/ amem e' (fst xf) = true) /\
    (forall y, amem e y = true -> amem e' y = true) /\
    (length rem <= length todo)%nat /\
    (p = true -> (length rem < length todo)%nat) /\
    (p = false -> rem = todo /\ e' = e /\ forall xf, In xf todo -> ready (snd xf) e = false).
  Proof.
    intros todo0 e0 todo. induction todo as [|[x f] r IH]; intros e rem e' p P1 P2 P3 P4 HP.
    - simpl in HP. inversion HP. subst. repeat split; auto; try (intros; contradiction); try discriminate.
    - simpl in HP. simpl in P3. inversion P3 as [|? ? Hnx ND]. subst.
      destruct (ready f e) eqn:R.
      + destruct (ev f e) as [v|] eqn:EV; [ | discriminate].
        destruct (passM r ((x, v) :: e)) as [y|rem1 e1 p1] eqn:HR; [discriminate | ].
        inversion HP. subst rem1 e1 p. clear HP.
        assert (Hx : amem e x = false) by (apply (P2 (x, f)); left; reflexivity).
        assert (B1 : Built todo0 e0 ((x, v) :: e)).
        { econstructor; eauto. apply P1. left. reflexivity. }
        assert (P2' : forall xf, In xf r -> amem ((x, v) :: e) (fst xf) = false).
        { intros xf Hxf. rewrite amem_cons. rewrite (P2 xf) by (right; exact Hxf).
          rewrite orb_false_r. apply str_eqb_false. intro E. apply Hnx. rewrite <- E.
          apply in_map. exact Hxf. }
        destruct (IH _ _ _ _ (fun xf H => P1 xf (or_intror H)) P2' ND B1 HR)
          as [Q1 [Q2 [Q3 [Q4 [Q5 [Q6 [Q7 [Q8 Q9]]]]]]]].
        split; [exact Q1 | ]. split; [intros xf H; right; auto | ]. split; [exact Q3 | ].
        split; [exact Q4 | ]. split.
        { intros xf [H|H].
          - subst xf. right. simpl. apply Q6. rewrite amem_cons, str_eqb_refl. reflexivity.
          - apply Q5. exact H. }
        split.
        { intros y Hy. apply Q6. rewrite amem_cons, Hy. apply orb_true_r. }
        split; [simpl; lia | ]. split; [intros _; simpl; lia | discriminate].
      + destruct (passM r e) as [y|rem1 e1 p1] eqn:HR; [discriminate | ].
        inversion HP. subst rem e1 p1. clear HP.
        destruct (IH _ _ _ _ (fun xf H => P1 xf (or_intror H)) (fun xf H => P2 xf (or_intror H)) ND P4 HR)
          as [Q1 [Q2 [Q3 [Q4 [Q5 [Q6 [Q7 [Q8 Q9]]]]]]]].
        split; [exact Q1 | ]. split.
        { intros xf [H|H]; [left; exact H | right; auto]. }
        split.
        { simpl. constructor; [ | exact Q3]. intro H. apply Hnx. apply in_map_iff in H.
          destruct H as [xf [E H]]. apply in_map_iff. exists xf. split; [exact E | auto]. }
        split.
        { intros xf [H|H]; [ | auto]. subst xf. simpl.
          destruct (amem e' x) eqn:A; [ | reflexivity]. exfalso.
          (* x was unbound in e and is not among the names evaluated in r *)
          assert (K : forall todo (e e' : envT) rem p, passM todo e = POk rem e' p ->
                      forall z, amem e' z = true -> amem e z = true \/ In z (map fst todo)).
          { clear. induction todo as [|[a g] t IHt]; intros e e' rem p H z Hz; simpl in H.
            - inversion H. subst. auto.
            - destruct (ready g e).
              + destruct (ev g e) as [w|]; [ | discriminate].
                destruct (passM t ((a, w) :: e)) as [|rem1 e1 p1] eqn:HR; [discriminate | ].
                inversion H. subst. destruct (IHt _ _ _ _ HR z Hz) as [K|K].
                * rewrite amem_cons in K. apply orb_true_iff in K. destruct K as [K|K]; [ | auto].
                  apply str_eqb_eq in K. subst. right. left. reflexivity.
                * right. right. exact K.
              + destruct (passM t e) as [|rem1 e1 p1] eqn:HR; [discriminate | ].
                inversion H. subst. destruct (IHt _ _ _ _ HR z Hz) as [K|K]; [auto | right; right; exact K]. }
          destruct (K _ _ _ _ _ HR x A) as [K1|K1].
          - pose proof (P2 (x, f) (or_introl eq_refl)) as K2. simpl in K2. congruence.
          - contradiction. }
        split.
        { intros xf [H|H]; [left; left; exact H | ]. destruct (Q5 xf H); [left; right; assumption | right; assumption]. }
        split; [exact Q6 | ]. split; [simpl; lia | ]. split; [intro H; specialize (Q8 H); simpl; lia | ].
        intro H. destruct (Q9 H) as [R1 [R2 R3]]. subst. split; [reflexivity | ]. split; [reflexivity | ].
        intros xf [Hx|Hx]; [subst xf; exact R | auto].
  Qed.

  Lemma pass_err : forall todo0 e0 todo e x,
    (forall xf, In xf todo -> In xf todo0) ->
    (forall xf, In xf todo -> amem e (fst xf) = false) ->
    NoDup (map fst todo) ->
    Built todo0 e0 e ->
    passM todo e = PErr x ->
    exists f e1, In (x, f) todo0 /\ Built todo0 e0 e1 /\ ready f e1 = true /\ ev f e1 = None.
  Proof.
    intros todo0 e0 todo. induction todo as [|[a g] r IH]; intros e x P1 P2 P3 P4 HP; simpl in HP; [discriminate | ].
    simpl in P3. inversion P3 as [|? ? Hnx ND]. subst.
    destruct (ready g e) eqn:R.
    - destruct (ev g e) as [v|] eqn:EV.
      + destruct (passM r ((a, v) :: e)) as [y|rem1 e1 p1] eqn:HR; [ | discriminate].
        inversion HP. subst y. eapply IH; [ | | exact ND | | exact HR].
        * intros xf H. apply P1. right. exact H.
        * intros xf Hxf. rewrite amem_cons. rewrite (P2 xf) by (right; exact Hxf).
          rewrite orb_false_r. apply str_eqb_false. intro E. apply Hnx. rewrite <- E. apply in_map. exact Hxf.
        * econstructor; eauto. apply P1. left. reflexivity. apply (P2 (a, g)). left. reflexivity.
      + inversion HP. subst a. exists g, e. repeat split; auto. apply P1. left. reflexivity.
    - destruct (passM r e) as [y|rem1 e1 p1] eqn:HR; [ | discriminate].
      inversion HP. subst y. eapply IH; [ | | exact ND | exact P4 | exact HR].
      + intros xf H. apply P1. right. exact H.
      + intros xf H. apply P2. right. exact H.
  Qed.

  (* --- the while loop --- *)
  Definition Stuck (todo0 rem : todoT) (e : envT) : Prop :=
    rem <> [] /\
    (forall xf, In xf rem -> In xf todo0) /\
    (forall xf, In xf rem -> ready (snd xf) e = false) /\
    (forall xf, In xf rem -> amem e (fst xf) = false) /\
    (forall xf, In xf todo0 -> In xf rem \/ amem e (fst xf) = true).

  Definition Outcome (todo0 : todoT) (e0 : envT) (r : result V) : Prop :=
    match r with
    | ROk e => Built todo0 e0 e /\ forall xf, In xf todo0 -> amem e (fst xf) = true
    | RErr (EFormula x) =>
        exists f e1, In (x, f) todo0 /\ Built todo0 e0 e1 /\ ready f e1 = true /\ ev f e1 = None
    | RErr (EUndefined l) =>
        exists rem e, Built todo0 e0 e /\ Stuck todo0 rem e /\ bad_itemsM rem e = l /\ l <> []
    | RErr (ECircular l) =>
        exists rem e, Built todo0 e0 e /\ Stuck todo0 rem e /\ bad_itemsM rem e = [] /\ l = map fst rem
    | RErr _ => False
    end.

  Lemma loop_outcome : forall todo0 e0 fuel todo e,
    (length todo <= fuel)%nat ->
    (forall xf, In xf todo -> In xf todo0) ->
    (forall xf, In xf todo -> amem e (fst xf) = false) ->
    NoDup (map fst todo) ->
    Built todo0 e0 e ->
    (forall xf, In xf todo0 -> In xf todo \/ amem e (fst xf) = true) ->
    Outcome todo0 e0 (loopM fuel todo e).
  Proof.
    intros todo0 e0 fuel. induction fuel as [|k IH]; intros todo e HL P1 P2 P3 P4 P5.
    - destruct todo as [|a t]; [ | simpl in HL; lia]. simpl. split; [exact P4 | ].
      intros xf H. destruct (P5 xf H) as [K|K]; [contradiction | exact K].
    - destruct todo as [|a t].
      + simpl. split; [exact P4 | ]. intros xf H. destruct (P5 xf H) as [K|K]; [contradiction | exact K].
      + remember (a :: t) as todo eqn:ET.
        assert (NE : todo <> []) by (subst; discriminate).
        assert (EQ : loopM (S k) todo e =
                     match passM todo e with
                     | PErr x => RErr (EFormula x)
                     | POk rem e' true => loopM k rem e'
                     | POk rem e' false => RErr (diagnoseM rem e')
                     end) by (subst todo; reflexivity).
        rewrite EQ. clear EQ.
        destruct (passM todo e) as [x|rem e' p] eqn:HP.
        * simpl. eapply pass_err; eauto.
        * destruct (pass_ok todo0 e0 todo e rem e' p P1 P2 P3 P4 HP)
            as [Q1 [Q2 [Q3 [Q4 [Q5 [Q6 [Q7 [Q8 Q9]]]]]]]].
          destruct p.
          -- apply IH; auto.
             ++ specialize (Q8 eq_refl). lia.
             ++ intros xf H. destruct (P5 xf H) as [K|K]; [apply Q5; exact K | right; apply Q6; exact K].
          -- destruct (Q9 eq_refl) as [R1 [R2 R3]]. subst rem e'.
             assert (ST : Stuck todo0 todo e).
             { split; [exact NE | ]. split; [exact P1 | ]. split; [exact R3 | ]. split; [exact P2 | exact P5]. }
             unfold diagnose. destruct (bad_itemsM todo e) as [|b bs] eqn:BI.
             ++ simpl. exists todo, e. auto.
             ++ simpl. exists todo, e. repeat split; auto. discriminate.
  Qed.

  Definition fresh (todo0 : todoT) (e0 : envT) : Prop := forall xf, In xf todo0 -> amem e0 (fst xf) = false.

  Lemma resolve_outcome : forall todo0 e0,
    NoDup (map fst todo0) -> fresh todo0 e0 -> Outcome todo0 e0 (resolveM todo0 e0).
  Proof.
    intros todo0 e0 ND FR. unfold resolve. apply loop_outcome; auto. constructor.
  Qed.

  (* the loop always stops within #dependents passes *)
  Lemma resolve_terminates : forall todo0 e0,
    NoDup (map fst todo0) -> fresh todo0 e0 -> resolveM todo0 e0 <> RErr EFuel.
  Proof.
    intros todo0 e0 ND FR H. pose proof (resolve_outcome todo0 e0 ND FR) as O. rewrite H in O. exact O.
  Qed.

  Lemma resolve_error_is_config_error : forall todo0 e0 x,
    NoDup (map fst todo0) -> fresh todo0 e0 -> resolveM todo0 e0 = RErr x -> is_config_error x = true.
  Proof.
    intros todo0 e0 x ND FR H. pose proof (resolve_outcome todo0 e0 ND FR) as O. rewrite H in O.
    destruct x; simpl in *; auto; contradiction.
  Qed.

  Lemma fresh_pair : forall todo0 e0 x f, fresh todo0 e0 -> In (x, f) todo0 -> amem e0 x = false.
  Proof. intros todo0 e0 x f FR H. apply (FR (x, f) H). Qed.

  (* --- what a successful resolution guarantees --- *)
  Lemma built_ready : forall todo0 e0 e, NoDup (map fst todo0) -> fresh todo0 e0 -> Built todo0 e0 e ->
    forall x f, In (x, f) todo0 -> amem e x = true -> ready f e = true.
  Proof.
    intros todo0 e0 e ND FR B. induction B as [|e x0 f0 v0 B IH Hin Hx Hr Hv]; intros x f H A.
    - rewrite (fresh_pair _ _ _ _ FR H) in A. discriminate.
    - assert (MONO : forall z, amem e z = true -> amem ((x0, v0) :: e) z = true).
      { intros z Hz. rewrite amem_cons, Hz. apply orb_true_r. }
      rewrite amem_cons in A. apply orb_true_iff in A. destruct A as [A|A].
      + apply str_eqb_eq in A. subst x0.
        assert (f = f0).
        { pose proof (alookup_NoDup_In todo0 x f ND H) as L1.
          pose proof (alookup_NoDup_In todo0 x f0 ND Hin) as L2. congruence. }
        subst. eapply ready_mono; eauto.
      + eapply ready_mono; [exact MONO | ]. eapply IH; eauto.
  Qed.

  Theorem resolve_ok_sound : ev_extensional -> forall todo0 e0 e,
    NoDup (map fst todo0) -> fresh todo0 e0 -> resolveM todo0 e0 = ROk e ->
    extends e0 e /\
    (forall y, amem e y = true -> amem e0 y = true \/ In y (map fst todo0)) /\
    (forall x f, In (x, f) todo0 ->
       (forall d, In d (fdeps f) -> amem e d = true) /\ ~ In x (fdeps f) /\
       exists v, alookup e x = Some v /\ ev f e = Some v).
  Proof.
    intros EXT todo0 e0 e ND FR H. pose proof (resolve_outcome todo0 e0 ND FR) as O. rewrite H in O.
    destruct O as [B ALL]. split; [eapply built_extends; eauto | ]. split; [intros y; eapply built_keys; eauto | ].
    intros x f Hin. pose proof (ALL _ Hin) as A. simpl in A.
    destruct (built_consistent EXT _ _ _ B x A) as [K|[f' [K1 [K2 [K3 K4]]]]].
    - rewrite (fresh_pair _ _ _ _ FR Hin) in K. discriminate.
    - assert (f' = f).
      { pose proof (alookup_NoDup_In todo0 x f ND Hin) as L1.
        pose proof (alookup_NoDup_In todo0 x f' ND K1) as L2. congruence. }
      subst f'. split; [apply ready_iff; exact K2 | ]. split; [exact K4 | ].
      apply amem_alookup in A. destruct A as [v A]. exists v. split; [exact A | congruence].
  Qed.

  (* position of a binding, counted from the bottom of the environment *)
  Fixpoint depth (e : envT) (x : str) : nat :=
    match e with [] => 0 | (y, _) :: r => if str_eqb x y then S (length r) else depth r x end.

  Lemma depth_le : forall e x, (depth e x <= length e)%nat.
  Proof. induction e as [|[y v] e IH]; intro x; simpl; [lia | ]. destruct (str_eqb x y); [lia | specialize (IH x); lia]. Qed.

  Lemma built_ranked : forall todo0 e0 e, NoDup (map fst todo0) -> fresh todo0 e0 -> Built todo0 e0 e ->
    forall x f, In (x, f) todo0 -> amem e x = true -> forall d, In d (fdeps f) -> (depth e d < depth e x)%nat.
  Proof.
    intros todo0 e0 e ND FR B. induction B as [|e x0 f0 v0 B IH Hin Hx Hr Hv]; intros x f H A d Hd.
    - rewrite (fresh_pair _ _ _ _ FR H) in A. discriminate.
    - destruct (str_eq_dec x x0) as [E|E].
      + subst x0.
        assert (f = f0).
        { pose proof (alookup_NoDup_In todo0 x f ND H) as L1.
          pose proof (alookup_NoDup_In todo0 x f0 ND Hin) as L2. congruence. }
        subst f0. simpl. rewrite str_eqb_refl.
        assert (Dd : amem e d = true) by (rewrite ready_iff in Hr; auto).
        assert (d <> x) by (intro; subst; congruence).
        apply str_eqb_false in H0. rewrite H0. pose proof (depth_le e d). lia.
      + rewrite amem_cons in A. pose proof E as E'. apply str_eqb_false in E'. rewrite E' in A. simpl in A.
        pose proof (built_ready _ _ _ ND FR B x f H A) as R. rewrite ready_iff in R.
        assert (d <> x0) by (intro; subst; rewrite (R x0 Hd) in Hx; discriminate).
        simpl. rewrite E'. apply str_eqb_false in H0. rewrite H0. eapply IH; eauto.
  Qed.

  (* a successful resolution exhibits a rank: the dependency graph is closed and acyclic *)
  Theorem resolve_ok_acyclic : forall todo0 e0 e,
    NoDup (map fst todo0) -> fresh todo0 e0 -> resolveM todo0 e0 = ROk e ->
    (forall x f d, In (x, f) todo0 -> In d (fdeps f) -> amem e0 d = true \/ In d (map fst todo0)) /\
    exists rank : str -> nat, forall x f d, In (x, f) todo0 -> In d (fdeps f) -> (rank d < rank x)%nat.
  Proof.
    intros todo0 e0 e ND FR H. pose proof (resolve_outcome todo0 e0 ND FR) as O. rewrite H in O.
    destruct O as [B ALL]. split.
    - intros x f d Hin Hd. eapply built_keys; [exact B | ].
      pose proof (built_ready _ _ _ ND FR B x f Hin (ALL _ Hin)) as R. rewrite ready_iff in R. auto.
    - exists (depth e). intros x f d Hin Hd. eapply built_ranked; eauto. apply (ALL _ Hin).
  Qed.

  (* dependency chains *)
  Inductive chain (todo0 : todoT) : str -> str -> Prop :=
  | chain_one : forall x f d, In (x, f) todo0 -> In d (fdeps f) -> chain todo0 x d
  | chain_more : forall x f d y, In (x, f) todo0 -> In d (fdeps f) -> chain todo0 d y -> chain todo0 x y.

  Lemma chain_rank : forall todo0 (rank : str -> nat),
    (forall x f d, In (x, f) todo0 -> In d (fdeps f) -> (rank d < rank x)%nat) ->
    forall x y, chain todo0 x y -> (rank y < rank x)%nat.
  Proof.
    intros todo0 rank HR x y C. induction C as [x f d H1 H2|x f d y H1 H2 C IH].
    - eauto.
    - specialize (HR _ _ _ H1 H2). lia.
  Qed.

  Theorem cycle_is_config_error : forall todo0 e0 x,
    NoDup (map fst todo0) -> fresh todo0 e0 -> chain todo0 x x ->
    exists er, resolveM todo0 e0 = RErr er /\ is_config_error er = true.
  Proof.
    intros todo0 e0 x ND FR C. destruct (resolveM todo0 e0) as [e|er] eqn:H.
    - exfalso. destruct (resolve_ok_acyclic _ _ _ ND FR H) as [_ [rank HR]].
      pose proof (chain_rank _ rank HR _ _ C). lia.
    - exists er. split; [reflexivity | ]. eapply resolve_error_is_config_error; eauto.
  Qed.

  Theorem dangling_is_config_error : forall todo0 e0 x f d,
    NoDup (map fst todo0) -> fresh todo0 e0 ->
    In (x, f) todo0 -> In d (fdeps f) -> amem e0 d = false -> ~ In d (map fst todo0) ->
    exists er, resolveM todo0 e0 = RErr er /\ is_config_error er = true.
  Proof.
    intros todo0 e0 x f d ND FR H1 H2 H3 H4. destruct (resolveM todo0 e0) as [e|er] eqn:H.
    - exfalso. destruct (resolve_ok_acyclic _ _ _ ND FR H) as [CL _].
      destruct (CL _ _ _ H1 H2); [congruence | contradiction].
    - exists er. split; [reflexivity | ]. eapply resolve_error_is_config_error; eauto.
  Qed.

  (* --- conversely: a closed acyclic graph is never diagnosed as undefined/circular --- *)
  Lemma min_element : forall {A} (m : A -> nat) (l : list A), l <> [] ->
    exists x, In x l /\ forall y, In y l -> (m x <= m y)%nat.
  Proof.
    intros A m l. induction l as [|a l IH]; intro NE; [congruence | ].
    destruct l as [|b l].
    - exists a. split; [left; reflexivity | ]. intros y [H|[]]. subst. lia.
    - destruct IH as [x [Hx Hm]]; [discriminate | ].
      destruct (le_lt_dec (m a) (m x)).
      + exists a. split; [left; reflexivity | ]. intros y [H|H]; [subst; lia | specialize (Hm y H); lia].
      + exists x. split; [right; exact Hx | ]. intros y [H|H]; [subst; lia | auto].
  Qed.

  Definition closed_ranked (todo0 : todoT) (e0 : envT) (rank : str -> nat) : Prop :=
    forall x f d, In (x, f) todo0 -> In d (fdeps f) ->
      amem e0 d = true \/ (In d (map fst todo0) /\ (rank d < rank x)%nat).

  Lemma ranked_not_stuck : forall todo0 e0 rank rem e,
    closed_ranked todo0 e0 rank -> Built todo0 e0 e -> Stuck todo0 rem e -> False.
  Proof.
    intros todo0 e0 rank rem e CR B [NE [S1 [S2 [S3 S4]]]].
    destruct (min_element (fun xf => rank (fst xf)) rem NE) as [[x f] [Hx Hm]].
    destruct (ready_false _ _ (S2 _ Hx)) as [d [Hd Ud]]. simpl in Hd.
    destruct (CR x f d (S1 _ Hx) Hd) as [K|[K1 K2]].
    - rewrite (built_mem_mono _ _ _ _ B K) in Ud. discriminate.
    - apply in_map_iff in K1. destruct K1 as [[d' g] [E K1]]. simpl in E. subst d'.
      destruct (S4 _ K1) as [K|K].
      + specialize (Hm _ K). simpl in Hm. lia.
      + simpl in K. congruence.
  Qed.

  Theorem closed_acyclic_resolves : forall todo0 e0 rank,
    NoDup (map fst todo0) -> fresh todo0 e0 -> closed_ranked todo0 e0 rank ->
    (exists e, resolveM todo0 e0 = ROk e) \/ (exists x, resolveM todo0 e0 = RErr (EFormula x)).
  Proof.
    intros todo0 e0 rank ND FR CR. pose proof (resolve_outcome todo0 e0 ND FR) as O.
    destruct (resolveM todo0 e0) as [e|er]; [left; eauto | ].
    destruct er; simpl in O; try contradiction.
    - right. eauto.
    - exfalso. destruct O as [rem [e [B [ST _]]]]. eapply ranked_not_stuck; eauto.
    - exfalso. destruct O as [rem [e [B [ST _]]]]. eapply ranked_not_stuck; eauto.
  Qed.

  (* --- the two diagnoses are accurate --- *)
  Lemma In_bad_items : forall rem e d,
    In d (bad_itemsM rem e) <->
    (exists xf, In xf rem /\ In d (fdeps (snd xf))) /\ ~ In d (map fst rem) /\ amem e d = false.
  Proof.
    intros rem e d. unfold bad_items. rewrite In_sdedup, filter_In, in_flat_map, andb_true_iff.
    rewrite !negb_true_iff, smem_false. tauto.
  Qed.

  Theorem undefined_diagnosis_accurate : forall todo0 e0 l,
    NoDup (map fst todo0) -> fresh todo0 e0 -> resolveM todo0 e0 = RErr (EUndefined l) ->
    l <> [] /\ forall d, In d l ->
      amem e0 d = false /\ ~ In d (map fst todo0) /\ exists x f, In (x, f) todo0 /\ In d (fdeps f).
  Proof.
    intros todo0 e0 l ND FR H. pose proof (resolve_outcome todo0 e0 ND FR) as O. rewrite H in O.
    destruct O as [rem [e [B [[NE [S1 [S2 [S3 S4]]]] [BI NL]]]]]. split; [exact NL | ].
    intros d Hd. rewrite <- BI in Hd. apply In_bad_items in Hd. destruct Hd as [[[x f] [K1 K2]] [K3 K4]].
    split.
    - destruct (amem e0 d) eqn:A; [ | reflexivity]. rewrite (built_mem_mono _ _ _ _ B A) in K4. discriminate.
    - split.
      + intro K. apply in_map_iff in K. destruct K as [[d' g] [E K]]. simpl in E. subst d'.
        destruct (S4 _ K) as [K'|K'].
        * apply K3. apply in_map_iff. exists (d, g). auto.
        * simpl in K'. congruence.
      + exists x, f. split; [apply S1; exact K1 | exact K2].
  Qed.

  Theorem circular_diagnosis_accurate : forall todo0 e0 l,
    NoDup (map fst todo0) -> fresh todo0 e0 -> resolveM todo0 e0 = RErr (ECircular l) ->
    l <> [] /\ forall x, In x l -> exists f d, In (x, f) todo0 /\ In d (fdeps f) /\ In d l.
  Proof.
    intros todo0 e0 l ND FR H. pose proof (resolve_outcome todo0 e0 ND FR) as O. rewrite H in O.
    destruct O as [rem [e [B [[NE [S1 [S2 [S3 S4]]]] [BI EL]]]]]. subst l. split.
    - destruct rem; [congruence | discriminate].
    - intros x Hx. apply in_map_iff in Hx. destruct Hx as [[x' f] [E Hx]]. simpl in E. subst x'.
      destruct (ready_false _ _ (S2 _ Hx)) as [d [Hd Ud]]. simpl in Hd.
      exists f, d. split; [apply S1; exact Hx | ]. split; [exact Hd | ].
      destruct (in_dec str_eq_dec d (map fst rem)) as [K|K]; [exact K | ].
      exfalso. assert (In d (bad_itemsM rem e)).
      { apply In_bad_items. split; [exists (x, f); auto | auto]. }
      rewrite BI in H0. contradiction.
  Qed.

  (* --- order independence --- *)
  Definition set_equiv_results (r r' : result V) : Prop :=
    match r, r' with
    | ROk e, ROk e' => env_equiv e e'
    | RErr (EFormula _), RErr (EFormula _) => True
    | RErr (EUndefined l), RErr (EUndefined l') => seteq l l'
    | RErr (ECircular l), RErr (ECircular l') => seteq l l'
    | _, _ => False
    end.

  Record Compat (todo0 todo0' : todoT) (e0 e0' : envT) : Prop := {
    c_nd : NoDup (map fst todo0);  c_nd' : NoDup (map fst todo0');
    c_fr : fresh todo0 e0;         c_fr' : fresh todo0' e0';
    c_same : forall xf, In xf todo0 <-> In xf todo0';
    c_env : env_equiv e0 e0' }.

  Lemma Compat_sym : forall a b e f, Compat a b e f -> Compat b a f e.
  Proof.
    intros a b e f [H1 H2 H3 H4 H5 H6]. constructor; auto.
    - intro xf. symmetry. apply H5.
    - intro x. symmetry. apply H6.
  Qed.

  Lemma env_equiv_mem : forall e e' y, env_equiv e e' -> amem e y = amem e' y.
  Proof. intros e e' y H. unfold amem. rewrite (H y). reflexivity. Qed.

  (* no environment reachable in one run binds a name that a stuck run of the same problem leaves unbound *)
  Lemma built_sub_stuck : forall todo0 todo0' e0 e0' rem e1 e2,
    Compat todo0 todo0' e0 e0' ->
    Built todo0 e0 e1 -> Stuck todo0 rem e1 -> Built todo0' e0' e2 ->
    forall y, amem e2 y = true -> amem e1 y = true.
  Proof.
    intros todo0 todo0' e0 e0' rem e1 e2 C B1 [NE [S1 [S2 [S3 S4]]]] B2.
    induction B2 as [|e x f v B2 IH Hin Hx Hr Hv]; intros y Hy.
    - eapply built_mem_mono; [exact B1 | ]. rewrite (env_equiv_mem _ _ y (c_env _ _ _ _ C)). exact Hy.
    - rewrite amem_cons in Hy. apply orb_true_iff in Hy. destruct Hy as [Hy|Hy]; [ | auto].
      apply str_eqb_eq in Hy. subst y.
      apply (c_same _ _ _ _ C) in Hin. destruct (S4 _ Hin) as [K|K]; [ | exact K].
      exfalso. pose proof (S2 _ K) as NR. simpl in NR.
      rewrite (ready_mono f e e1 IH Hr) in NR. discriminate.
  Qed.

  Lemma same_formula : forall (todo0 : todoT) x f f', NoDup (map fst todo0) ->
    In (x, f) todo0 -> In (x, f') todo0 -> f = f'.
  Proof.
    intros todo0 x f f' ND H H'.
    pose proof (alookup_NoDup_In todo0 x f ND H). pose proof (alookup_NoDup_In todo0 x f' ND H'). congruence.
  Qed.

  (* two runs of the same problem agree wherever both have a value *)
  Lemma built_agree : ev_extensional -> forall todo0 todo0' e0 e0' e1 e2,
    Compat todo0 todo0' e0 e0' -> Built todo0 e0 e1 -> Built todo0' e0' e2 ->
    forall y v1 v2, alookup e1 y = Some v1 -> alookup e2 y = Some v2 -> v1 = v2.
  Proof.
    intros EXT todo0 todo0' e0 e0' e1 e2 C B1 B2.
    induction B1 as [|e x f v B1 IH Hin Hx Hr Hv]; intros y v1 v2 H1 H2.
    - rewrite (c_env _ _ _ _ C y) in H1. apply (built_extends _ _ _ B2) in H1. congruence.
    - destruct (str_eq_dec y x) as [E|E].
      + subst y. simpl in H1. rewrite str_eqb_refl in H1. inversion H1. subst v1. clear H1.
        assert (A2 : amem e2 x = true) by (apply amem_alookup; eauto).
        destruct (built_consistent EXT _ _ _ B2 x A2) as [K|[f' [K1 [K2 [K3 K4]]]]].
        * rewrite <- (env_equiv_mem _ _ x (c_env _ _ _ _ C)) in K.
          rewrite (fresh_pair _ _ _ _ (c_fr _ _ _ _ C) Hin) in K. discriminate.
        * apply (c_same _ _ _ _ C) in K1. pose proof (same_formula _ _ _ _ (c_nd _ _ _ _ C) Hin K1). subst f'.
          assert (EQ : ev f e = ev f e2).
          { apply EXT. intros d Hd. rewrite ready_iff in Hr, K2.
            pose proof (Hr d Hd) as D1. pose proof (K2 d Hd) as D2.
            apply amem_alookup in D1. apply amem_alookup in D2. destruct D1 as [a D1]. destruct D2 as [b D2].
            rewrite D1, D2. f_equal. eapply IH; eauto. }
          congruence.
      + rewrite alookup_cons_other in H1 by exact E. eapply IH; eauto.
  Qed.

  Lemma ok_ok : ev_extensional -> forall todo0 todo0' e0 e0' e1 e2,
    Compat todo0 todo0' e0 e0' -> Outcome todo0 e0 (ROk e1) -> Outcome todo0' e0' (ROk e2) -> env_equiv e1 e2.
  Proof.
    intros EXT todo0 todo0' e0 e0' e1 e2 C [B1 A1] [B2 A2] y.
    assert (HALF : forall ta tb ea eb ex ey, Compat ta tb ea eb -> Built ta ea ex -> Built tb eb ey ->
                   (forall xf, In xf tb -> amem ey (fst xf) = true) ->
                   forall z, amem ex z = true -> amem ey z = true).
    { intros ta tb ea eb ex ey C' Bx By Ay z Hz. destruct (built_keys _ _ _ _ Bx Hz) as [K|K].
      - eapply built_mem_mono; [exact By | ]. rewrite <- (env_equiv_mem _ _ z (c_env _ _ _ _ C')). exact K.
      - apply in_map_iff in K. destruct K as [[z' g] [E K]]. simpl in E. subst z'.
        apply (c_same _ _ _ _ C') in K. apply (Ay _ K). }
    destruct (alookup e1 y) as [v1|] eqn:L1; destruct (alookup e2 y) as [v2|] eqn:L2; [ | | | reflexivity].
    - f_equal. eapply built_agree; eauto.
    - exfalso. assert (amem e2 y = true).
      { eapply (HALF _ _ _ _ _ _ C B1 B2 A2). apply amem_alookup. eauto. }
      apply amem_alookup in H. destruct H. congruence.
    - exfalso. assert (amem e1 y = true).
      { eapply (HALF _ _ _ _ _ _ (Compat_sym _ _ _ _ C) B2 B1 A1). apply amem_alookup. eauto. }
      apply amem_alookup in H. destruct H. congruence.
  Qed.

  (* a formula error in one order excludes success and both diagnoses in any other order *)
  Lemma formula_vs_value : ev_extensional -> forall todo0 todo0' e0 e0' x f e1 e2,
    Compat todo0 todo0' e0 e0' ->
    In (x, f) todo0 -> Built todo0 e0 e1 -> ready f e1 = true -> ev f e1 = None ->
    Built todo0' e0' e2 -> (forall y, amem e1 y = true -> amem e2 y = true) -> amem e2 x = true -> False.
  Proof.
    intros EXT todo0 todo0' e0 e0' x f e1 e2 C Hin B1 R1 N1 B2 SUB A2.
    destruct (built_consistent EXT _ _ _ B2 x A2) as [K|[f' [K1 [K2 [K3 K4]]]]].
    - rewrite <- (env_equiv_mem _ _ x (c_env _ _ _ _ C)) in K.
      rewrite (fresh_pair _ _ _ _ (c_fr _ _ _ _ C) Hin) in K. discriminate.
    - apply (c_same _ _ _ _ C) in K1. pose proof (same_formula _ _ _ _ (c_nd _ _ _ _ C) Hin K1). subst f'.
      assert (EQ : ev f e1 = ev f e2).
      { apply EXT. intros d Hd. rewrite ready_iff in R1, K2.
        pose proof (R1 d Hd) as D1. pose proof (K2 d Hd) as D2.
        apply amem_alookup in D1. apply amem_alookup in D2. destruct D1 as [a D1]. destruct D2 as [b D2].
        rewrite D1, D2. f_equal. eapply built_agree; eauto. }
      apply amem_alookup in A2. destruct A2 as [v A2]. congruence.
  Qed.

  Lemma ok_vs_formula : ev_extensional -> forall todo0 todo0' e0 e0' e2 x,
    Compat todo0 todo0' e0 e0' -> Outcome todo0 e0 (RErr (EFormula x)) -> Outcome todo0' e0' (ROk e2) -> False.
  Proof.
    intros EXT todo0 todo0' e0 e0' e2 x C [f [e1 [Hin [B1 [R1 N1]]]]] [B2 A2].
    eapply (formula_vs_value EXT); eauto.
    - intros y Hy. destruct (built_keys _ _ _ _ B1 Hy) as [K|K].
      + eapply built_mem_mono; [exact B2 | ]. rewrite <- (env_equiv_mem _ _ y (c_env _ _ _ _ C)). exact K.
      + apply in_map_iff in K. destruct K as [[z' g] [E K]]. simpl in E. subst z'.
        apply (c_same _ _ _ _ C) in K. apply (A2 _ K).
    - apply (c_same _ _ _ _ C) in Hin. apply (A2 _ Hin).
  Qed.

  Lemma ok_vs_stuck : forall todo0 todo0' e0 e0' rem e1 e2,
    Compat todo0 todo0' e0 e0' -> Built todo0 e0 e1 -> Stuck todo0 rem e1 -> Outcome todo0' e0' (ROk e2) -> False.
  Proof.
    intros todo0 todo0' e0 e0' rem e1 e2 C B1 ST [B2 A2].
    pose proof (built_sub_stuck _ _ _ _ _ _ _ C B1 ST B2) as SUB.
    destruct ST as [NE [S1 [S2 [S3 S4]]]]. destruct rem as [|xf rem]; [congruence | ].
    pose proof (S3 xf (or_introl eq_refl)) as U.
    assert (In xf todo0') by (apply (c_same _ _ _ _ C); apply S1; left; reflexivity).
    rewrite (SUB _ (A2 _ H)) in U. discriminate.
  Qed.

  Lemma formula_vs_stuck : ev_extensional -> forall todo0 todo0' e0 e0' rem e2 x,
    Compat todo0 todo0' e0 e0' -> Outcome todo0 e0 (RErr (EFormula x)) ->
    Built todo0' e0' e2 -> Stuck todo0' rem e2 -> False.
  Proof.
    intros EXT todo0 todo0' e0 e0' rem e2 x C [f [e1 [Hin [B1 [R1 N1]]]]] B2 ST.
    pose proof (built_sub_stuck _ _ _ _ _ _ _ (Compat_sym _ _ _ _ C) B2 ST B1) as SUB.
    eapply (formula_vs_value EXT); eauto.
    destruct ST as [NE [S1 [S2 [S3 S4]]]].
    apply (c_same _ _ _ _ C) in Hin. destruct (S4 _ Hin) as [K|K]; [ | exact K].
    exfalso. pose proof (S2 _ K) as NR. simpl in NR. rewrite (ready_mono f e1 e2 SUB R1) in NR. discriminate.
  Qed.

  Lemma stuck_stuck : forall todo0 todo0' e0 e0' rem1 rem2 e1 e2,
    Compat todo0 todo0' e0 e0' ->
    Built todo0 e0 e1 -> Stuck todo0 rem1 e1 -> Built todo0' e0' e2 -> Stuck todo0' rem2 e2 ->
    seteq (bad_itemsM rem1 e1) (bad_itemsM rem2 e2) /\ seteq (map fst rem1) (map fst rem2).
  Proof.
    intros todo0 todo0' e0 e0' rem1 rem2 e1 e2 C B1 ST1 B2 ST2.
    pose proof (built_sub_stuck _ _ _ _ _ _ _ C B1 ST1 B2) as SUB21.
    pose proof (built_sub_stuck _ _ _ _ _ _ _ (Compat_sym _ _ _ _ C) B2 ST2 B1) as SUB12.
    assert (MEM : forall y, amem e1 y = amem e2 y).
    { intro y. destruct (amem e1 y) eqn:A1; destruct (amem e2 y) eqn:A2; auto.
      - rewrite (SUB12 _ A1) in A2. discriminate.
      - rewrite (SUB21 _ A2) in A1. discriminate. }
    destruct ST1 as [NE1 [S1 [S2 [S3 S4]]]]. destruct ST2 as [NE2 [T1 [T2 [T3 T4]]]].
    assert (REM : forall xf, In xf rem1 <-> In xf rem2).
    { intro xf. split; intro H.
      - destruct (T4 xf) as [K|K]; [apply (c_same _ _ _ _ C); auto | exact K | ].
        rewrite <- MEM in K. rewrite (S3 _ H) in K. discriminate.
      - destruct (S4 xf) as [K|K]; [apply (c_same _ _ _ _ C); auto | exact K | ].
        rewrite MEM in K. rewrite (T3 _ H) in K. discriminate. }
    assert (NAMES : seteq (map fst rem1) (map fst rem2)).
    { intro x. rewrite !in_map_iff. split; intros [xf [E H]]; exists xf; (split; [exact E | apply REM; exact H]). }
    split; [ | exact NAMES].
    intro d. rewrite !In_bad_items. rewrite (NAMES d), (MEM d).
    split; intros [[xf [K1 K2]] K3]; (split; [exists xf; split; [apply REM; exact K1 | exact K2] | exact K3]).
  Qed.

  Lemma seteq_nil : forall l l', seteq l l' -> l = [] -> l' = [].
  Proof. intros l l' H E. subst. destruct l' as [|x l']; [reflexivity | ]. exfalso. apply (H x). left. reflexivity. Qed.

  Lemma seteq_sym : forall l l', seteq l l' -> seteq l' l.
  Proof. intros l l' H x. symmetry. apply H. Qed.

  Lemma outcomes_equiv : ev_extensional -> forall todo0 todo0' e0 e0' r r',
    Compat todo0 todo0' e0 e0' -> Outcome todo0 e0 r -> Outcome todo0' e0' r' -> set_equiv_results r r'.
  Proof.
    intros EXT todo0 todo0' e0 e0' r r' C O O'. pose proof (Compat_sym _ _ _ _ C) as C'.
    destruct r as [e1|[k1| |x1|l1|l1| ]]; simpl in O; try contradiction;
    destruct r' as [e2|[k2| |x2|l2|l2| ]]; simpl in O'; try contradiction; simpl.
    - exact (ok_ok EXT _ _ _ _ _ _ C O O').
    - exact (ok_vs_formula EXT _ _ _ _ _ _ C' O' O).
    - destruct O' as [rem [e [B [ST _]]]]. eapply (ok_vs_stuck _ _ _ _ _ _ _ C' B ST). exact O.
    - destruct O' as [rem [e [B [ST _]]]]. eapply (ok_vs_stuck _ _ _ _ _ _ _ C' B ST). exact O.
    - exact (ok_vs_formula EXT _ _ _ _ _ _ C O O').
    - exact I.
    - destruct O' as [rem [e [B [ST _]]]]. exact (formula_vs_stuck EXT _ _ _ _ _ _ _ C O B ST).
    - destruct O' as [rem [e [B [ST _]]]]. exact (formula_vs_stuck EXT _ _ _ _ _ _ _ C O B ST).
    - destruct O as [rem [e [B [ST _]]]]. eapply (ok_vs_stuck _ _ _ _ _ _ _ C B ST). exact O'.
    - destruct O as [rem [e [B [ST _]]]]. exact (formula_vs_stuck EXT _ _ _ _ _ _ _ C' O' B ST).
    - destruct O as [rem1 [e1 [B1 [ST1 [BI1 NL1]]]]]. destruct O' as [rem2 [e2 [B2 [ST2 [BI2 NL2]]]]].
      destruct (stuck_stuck _ _ _ _ _ _ _ _ C B1 ST1 B2 ST2) as [K _]. rewrite BI1, BI2 in K. exact K.
    - destruct O as [rem1 [e1 [B1 [ST1 [BI1 NL1]]]]]. destruct O' as [rem2 [e2 [B2 [ST2 [BI2 NL2]]]]].
      destruct (stuck_stuck _ _ _ _ _ _ _ _ C B1 ST1 B2 ST2) as [K _]. rewrite BI1, BI2 in K.
      apply NL1. eapply seteq_nil; [apply seteq_sym; exact K | reflexivity].
    - destruct O as [rem [e [B [ST _]]]]. eapply (ok_vs_stuck _ _ _ _ _ _ _ C B ST). exact O'.
    - destruct O as [rem [e [B [ST _]]]]. exact (formula_vs_stuck EXT _ _ _ _ _ _ _ C' O' B ST).
    - destruct O as [rem1 [e1 [B1 [ST1 [BI1 NL1]]]]]. destruct O' as [rem2 [e2 [B2 [ST2 [BI2 NL2]]]]].
      destruct (stuck_stuck _ _ _ _ _ _ _ _ C B1 ST1 B2 ST2) as [K _]. rewrite BI1, BI2 in K.
      apply NL2. eapply seteq_nil; [exact K | reflexivity].
    - destruct O as [rem1 [e1 [B1 [ST1 [BI1 NL1]]]]]. destruct O' as [rem2 [e2 [B2 [ST2 [BI2 NL2]]]]].
      destruct (stuck_stuck _ _ _ _ _ _ _ _ C B1 ST1 B2 ST2) as [_ K]. subst. exact K.
  Qed.

  Theorem resolve_order_independent : ev_extensional -> forall todo0 todo0' e0 e0',
    NoDup (map fst todo0) -> fresh todo0 e0 -> Permutation todo0 todo0' -> env_equiv e0 e0' ->
    set_equiv_results (resolveM todo0 e0) (resolveM todo0' e0').
  Proof.
    intros EXT todo0 todo0' e0 e0' ND FR PM EE.
    assert (ND' : NoDup (map fst todo0')).
    { eapply Permutation_NoDup; [ | exact ND]. apply Permutation_map. exact PM. }
    assert (FR' : fresh todo0' e0').
    { intros xf H. rewrite <- (env_equiv_mem _ _ _ EE). apply FR. eapply Permutation_in; [ | exact H].
      apply Permutation_sym. exact PM. }
    assert (C : Compat todo0 todo0' e0 e0').
    { constructor; auto. intro xf. split; intro H.
      - eapply Permutation_in; eauto.
      - eapply Permutation_in; [apply Permutation_sym; exact PM | exact H]. }
    eapply outcomes_equiv; eauto; apply resolve_outcome; auto.
  Qed.

  (* ---------------------------------------------------------------- one sample of gen_symbols_samples *)
  Notation samplerT := (sampler formula).
  Notation sfT := (list (str * samplerT)).
  Notation gen_sampleM := (gen_sample V formula fdeps ev).
  Notation dependentsM := (dependents formula).
  Notation independentM := (independent formula).
  Notation is_depM := (is_dep formula).

  Lemma alookup_app : forall {A} (a b : list (str * A)) x,
    alookup (a ++ b) x = match alookup a x with Some v => Some v | None => alookup b x end.
  Proof.
    intros A a b x. induction a as [|[y v] a IH]; simpl; [reflexivity | ].
    destruct (str_eqb x y); [reflexivity | exact IH].
  Qed.

  Lemma alookup_filter_key : forall {A} (g : str -> bool) (l : list (str * A)) c,
    alookup (filter (fun kv => g (fst kv)) l) c = if g c then alookup l c else None.
  Proof.
    intros A g l c. induction l as [|[y v] l IH]; simpl.
    - destruct (g c); reflexivity.
    - destruct (g y) eqn:G; simpl.
      + destruct (str_eqb c y) eqn:E.
        * apply str_eqb_eq in E. subst. rewrite G. reflexivity.
        * exact IH.
      + destruct (str_eqb c y) eqn:E.
        * apply str_eqb_eq in E. subst. rewrite G in *. exact IH.
        * exact IH.
  Qed.

  Lemma prune_lookup : forall (constants : envT) symbols c,
    alookup (prune V constants symbols) c = if smem c symbols then None else alookup constants c.
  Proof.
    intros constants symbols c. unfold prune.
    rewrite (alookup_filter_key (fun k => negb (smem k symbols)) constants c).
    destruct (smem c symbols); reflexivity.
  Qed.

  Lemma dependents_names : forall symbols (sf : sfT),
    map fst (dependentsM symbols sf) = filter (is_depM sf) (sdedup symbols).
  Proof.
    intros symbols sf. unfold dependents, is_dep. induction (sdedup symbols) as [|x l IH]; simpl; [reflexivity | ].
    rewrite map_app, IH. destruct (alookup sf x) as [[|f]|]; reflexivity.
  Qed.

  Lemma dependents_NoDup : forall symbols (sf : sfT), NoDup (map fst (dependentsM symbols sf)).
  Proof. intros. rewrite dependents_names. apply NoDup_filter. apply NoDup_sdedup. Qed.

  Lemma In_dependents : forall symbols (sf : sfT) x f,
    In (x, f) (dependentsM symbols sf) <-> In x symbols /\ alookup sf x = Some (SDep f).
  Proof.
    intros symbols sf x f. unfold dependents. rewrite in_flat_map. split.
    - intros [y [Hy H]]. apply (proj1 (In_sdedup _ _)) in Hy. destruct (alookup sf y) as [[|g]|] eqn:L; simpl in H; try contradiction.
      destruct H as [H|[]]. inversion H. subst. auto.
    - intros [H L]. exists x. split; [apply In_sdedup; exact H | ]. rewrite L. left. reflexivity.
  Qed.

  Lemma draw_all_spec : forall names draws (e e' : envT),
    draw_all V names draws e = Some e' -> NoDup names ->
    (forall y, ~ In y names -> alookup e' y = alookup e y) /\
    (forall i x, nth_error names i = Some x -> exists v, nth_error draws i = Some v /\ alookup e' x = Some v).
  Proof.
    induction names as [|x r IH]; intros draws e e' H ND.
    - simpl in H. inversion H. subst. split; [auto | ]. intros [|i] y Hy; discriminate.
    - destruct draws as [|d ds]; [discriminate | ]. simpl in H. inversion ND as [|? ? Hn ND']. subst.
      destruct (IH _ _ _ H ND') as [K1 K2]. split.
      + intros y Hy. rewrite K1 by (intro; apply Hy; right; assumption).
        apply alookup_cons_other. intro; apply Hy; left; congruence.
      + intros [|i] y Hy; simpl in Hy.
        * inversion Hy. subst y. exists d. split; [reflexivity | ]. rewrite (K1 x Hn). simpl.
          rewrite str_eqb_refl. reflexivity.
        * apply K2. exact Hy.
  Qed.

  Lemma draw_all_mem : forall names draws (e e' : envT),
    draw_all V names draws e = Some e' -> forall y, amem e' y = amem e y || smem y names.
  Proof.
    induction names as [|x r IH]; intros draws e e' H y.
    - simpl in H. inversion H. subst. simpl. rewrite orb_false_r. reflexivity.
    - destruct draws as [|d ds]; [discriminate | ]. simpl in H. rewrite (IH _ _ _ H y).
      rewrite amem_cons. simpl. destruct (str_eqb y x); destruct (amem e y); destruct (smem y r); reflexivity.
  Qed.

  Lemma draw_all_some : forall names draws (e : envT), (length names <= length draws)%nat ->
    exists e', draw_all V names draws e = Some e'.
  Proof.
    induction names as [|x r IH]; intros draws e H; simpl; [eauto | ].
    destruct draws as [|d ds]; simpl in H; [lia | ]. apply IH. lia.
  Qed.

  Lemma is_dep_true : forall (sf : sfT) x, is_depM sf x = true <-> exists f, alookup sf x = Some (SDep f).
  Proof.
    intros sf x. unfold is_dep. destruct (alookup sf x) as [[|f]|]; split; try discriminate; eauto;
      intros [g H]; discriminate.
  Qed.

  Lemma gen_sample_inv : forall symbols (sf : sfT) (constants : envT) draws r,
    gen_sampleM symbols sf constants draws = r ->
    (exists x, r = RErr (EKey x) /\ In x symbols /\ amem sf x = false) \/
    (r = RErr EDraws /\ (length draws < length (independentM symbols sf))%nat) \/
    (exists e0, draw_all V (independentM symbols sf) draws (prune V constants symbols) = Some e0 /\
                (forall x, In x symbols -> amem sf x = true) /\
                fresh (dependentsM symbols sf) e0 /\
                r = resolveM (dependentsM symbols sf) e0).
  Proof.
    intros symbols sf constants draws r H. unfold gen_sample in H.
    destruct (missing_key formula symbols sf) as [x|] eqn:MK.
    - left. exists x. unfold missing_key in MK. apply find_some in MK. destruct MK as [K1 K2].
      apply negb_true_iff in K2. auto.
    - right. destruct (draw_all V (independentM symbols sf) draws (prune V constants symbols)) as [e0|] eqn:DA.
      + right. exists e0. split; [reflexivity | ]. split.
        * intros x Hx. unfold missing_key in MK. pose proof (find_none _ _ MK x Hx) as K.
          apply negb_false_iff in K. exact K.
        * split; [ | auto]. intros [x f] Hin. simpl. apply In_dependents in Hin. destruct Hin as [Hs L].
          rewrite (draw_all_mem _ _ _ _ DA x). apply orb_false_iff. split.
          -- unfold amem. rewrite prune_lookup. apply smem_In in Hs. rewrite Hs. reflexivity.
          -- apply smem_false. unfold independent. rewrite filter_In. intros [_ K].
             apply negb_true_iff in K. unfold is_dep in K. rewrite L in K. discriminate.
      + left. split; [auto | ]. destruct (le_lt_dec (length (independentM symbols sf)) (length draws)) as [LE|LT]; [ | exact LT].
        destruct (draw_all_some _ _ (prune V constants symbols) LE) as [e' K]. congruence.
  Qed.

  (* the while loop of every sample stops; anything that goes wrong inside it is a ConfigError *)
  Theorem gen_sample_terminates : forall symbols (sf : sfT) constants draws,
    gen_sampleM symbols sf constants draws <> RErr EFuel.
  Proof.
    intros symbols sf constants draws H.
    destruct (gen_sample_inv _ _ _ _ _ H) as [[x [K _]]|[[K _]|[e0 [DA [MK [FR K]]]]]]; try discriminate.
    symmetry in K. eapply resolve_terminates; [apply dependents_NoDup | exact FR | exact K].
  Qed.

  Theorem gen_sample_error_kinds : forall symbols (sf : sfT) constants draws x,
    (forall s, In s symbols -> amem sf s = true) ->
    (length (independentM symbols sf) <= length draws)%nat ->
    gen_sampleM symbols sf constants draws = RErr x -> is_config_error x = true.
  Proof.
    intros symbols sf constants draws x HK HD H.
    destruct (gen_sample_inv _ _ _ _ _ H) as [[y [K [K1 K2]]]|[[K K1]|[e0 [DA [MK [FR K]]]]]].
    - rewrite (HK _ K1) in K2. discriminate.
    - lia.
    - symmetry in K. eapply resolve_error_is_config_error; [apply dependents_NoDup | exact FR | exact K].
  Qed.

  (* completeness of the key set *)
  Theorem gen_sample_complete : forall symbols (sf : sfT) constants draws e,
    gen_sampleM symbols sf constants draws = ROk e ->
    (forall x, In x symbols -> amem e x = true) /\
    (forall c v, alookup constants c = Some v -> ~ In c symbols -> alookup e c = Some v) /\
    (forall y, amem e y = true -> In y symbols \/ (amem constants y = true /\ ~ In y symbols)).
  Proof.
    intros symbols sf constants draws e H.
    destruct (gen_sample_inv _ _ _ _ _ H) as [[y [K _]]|[[K _]|[e0 [DA [MK [FR K]]]]]]; try discriminate.
    pose proof (resolve_outcome _ _ (dependents_NoDup symbols sf) FR) as O. rewrite <- K in O.
    destruct O as [B ALL]. split; [ | split].
    - intros x Hx. destruct (is_depM sf x) eqn:D.
      + apply is_dep_true in D. destruct D as [f L]. apply (ALL (x, f)). apply In_dependents. auto.
      + eapply built_mem_mono; [exact B | ]. rewrite (draw_all_mem _ _ _ _ DA x). apply orb_true_iff. right.
        apply smem_In. unfold independent. apply filter_In. rewrite D. auto.
    - intros c v L NI. apply (built_extends _ _ _ B).
      assert (NI' : ~ In c (independentM symbols sf)) by (unfold independent; rewrite filter_In; tauto).
      assert (ND : exists e1, Some e1 = Some e0) by eauto.
      clear ND.
      (* lookup through the draws: c is not drawn *)
      assert (G : forall names draws (ea eb : envT), draw_all V names draws ea = Some eb -> ~ In c names ->
                  alookup eb c = alookup ea c).
      { clear. induction names as [|x r IH]; intros draws ea eb H NI; simpl in H.
        - inversion H. reflexivity.
        - destruct draws as [|d ds]; [discriminate | ]. rewrite (IH _ _ _ H) by (intro; apply NI; right; assumption).
          apply alookup_cons_other. intro. apply NI. left. congruence. }
      rewrite (G _ _ _ _ DA NI'). rewrite prune_lookup. apply smem_false in NI. rewrite NI. exact L.
    - intros y Hy. destruct (built_keys _ _ _ _ B Hy) as [K1|K1].
      + rewrite (draw_all_mem _ _ _ _ DA y) in K1. apply orb_true_iff in K1. destruct K1 as [K1|K1].
        * unfold amem in K1. rewrite prune_lookup in K1. destruct (smem y symbols) eqn:S; [discriminate | ].
          right. split; [exact K1 | apply smem_false; exact S].
        * left. apply smem_In in K1. unfold independent in K1. apply filter_In in K1. tauto.
      + left. apply in_map_iff in K1. destruct K1 as [[y' f] [E K1]]. simpl in E. subst y'.
        apply In_dependents in K1. tauto.
  Qed.

  (* independent variables carry exactly the values their sampling sets returned, in call order *)
  Theorem gen_sample_independent_values : forall symbols (sf : sfT) constants draws e,
    NoDup symbols -> gen_sampleM symbols sf constants draws = ROk e ->
    forall i x, nth_error (independentM symbols sf) i = Some x ->
      exists v, nth_error draws i = Some v /\ alookup e x = Some v.
  Proof.
    intros symbols sf constants draws e ND H i x Hi.
    destruct (gen_sample_inv _ _ _ _ _ H) as [[y [K _]]|[[K _]|[e0 [DA [MK [FR K]]]]]]; try discriminate.
    pose proof (resolve_outcome _ _ (dependents_NoDup symbols sf) FR) as O. rewrite <- K in O.
    destruct O as [B _].
    assert (NDI : NoDup (independentM symbols sf)) by (apply NoDup_filter; exact ND).
    destruct (draw_all_spec _ _ _ _ DA NDI) as [_ K2]. destruct (K2 _ _ Hi) as [v [N L]].
    exists v. split; [exact N | ]. apply (built_extends _ _ _ B). exact L.
  Qed.

  (* dependent variables: value = formula evaluated on the same sample, which does not involve the variable itself *)
  Theorem gen_sample_consistent : ev_extensional -> forall symbols (sf : sfT) constants draws e,
    gen_sampleM symbols sf constants draws = ROk e ->
    forall x f, In x symbols -> alookup sf x = Some (SDep f) ->
      (forall d, In d (fdeps f) -> amem e d = true) /\ ~ In x (fdeps f) /\
      exists v, alookup e x = Some v /\ ev f e = Some v.
  Proof.
    intros EXT symbols sf constants draws e H x f Hx L.
    destruct (gen_sample_inv _ _ _ _ _ H) as [[y [K _]]|[[K _]|[e0 [DA [MK [FR K]]]]]]; try discriminate.
    symmetry in K. destruct (resolve_ok_sound EXT _ _ _ (dependents_NoDup symbols sf) FR K) as [_ [_ S]].
    apply S. apply In_dependents. auto.
  Qed.

  Theorem gen_sample_cycle_is_config_error : forall symbols (sf : sfT) constants draws x,
    (forall s, In s symbols -> amem sf s = true) ->
    (length (independentM symbols sf) <= length draws)%nat ->
    chain (dependentsM symbols sf) x x ->
    exists er, gen_sampleM symbols sf constants draws = RErr er /\ is_config_error er = true.
  Proof.
    intros symbols sf constants draws x HK HD C.
    destruct (gen_sample_inv _ _ _ _ _ (eq_refl (gen_sampleM symbols sf constants draws)))
      as [[y [K [K1 K2]]]|[[K K1]|[e0 [DA [MK [FR K]]]]]].
    - rewrite (HK _ K1) in K2. discriminate.
    - lia.
    - rewrite K. eapply cycle_is_config_error; eauto. apply dependents_NoDup.
  Qed.

  Theorem gen_sample_dangling_is_config_error : forall symbols (sf : sfT) constants draws x f d,
    (forall s, In s symbols -> amem sf s = true) ->
    (length (independentM symbols sf) <= length draws)%nat ->
    In x symbols -> alookup sf x = Some (SDep f) -> In d (fdeps f) ->
    ~ In d symbols -> amem constants d = false ->
    exists er, gen_sampleM symbols sf constants draws = RErr er /\ is_config_error er = true.
  Proof.
    intros symbols sf constants draws x f d HK HD Hx L Hd NS NC.
    destruct (gen_sample_inv _ _ _ _ _ (eq_refl (gen_sampleM symbols sf constants draws)))
      as [[y [K [K1 K2]]]|[[K K1]|[e0 [DA [MK [FR K]]]]]].
    - rewrite (HK _ K1) in K2. discriminate.
    - lia.
    - rewrite K. eapply (dangling_is_config_error _ _ x f d); eauto.
      + apply dependents_NoDup.
      + apply In_dependents. auto.
      + rewrite (draw_all_mem _ _ _ _ DA d). apply orb_false_iff. split.
        * unfold amem. rewrite prune_lookup. destruct (smem d symbols); [reflexivity | ].
          unfold amem in NC. exact NC.
        * apply smem_false. unfold independent. rewrite filter_In. tauto.
      + intro K'. apply in_map_iff in K'. destruct K' as [[d' g] [E K']]. simpl in E. subst d'.
        apply In_dependents in K'. tauto.
  Qed.

  (* a closed acyclic declaration whose formulas evaluate always yields a sample *)
  Theorem gen_sample_succeeds : forall symbols (sf : sfT) constants draws (rank : str -> nat),
    (forall s, In s symbols -> amem sf s = true) ->
    (length (independentM symbols sf) <= length draws)%nat ->
    (forall x f d, In x symbols -> alookup sf x = Some (SDep f) -> In d (fdeps f) ->
        (In d symbols \/ amem constants d = true) /\ (is_depM sf d = true -> In d symbols -> (rank d < rank x)%nat)) ->
    (forall f e, ready f e = true -> ev f e <> None) ->
    exists e, gen_sampleM symbols sf constants draws = ROk e.
  Proof.
    intros symbols sf constants draws rank HK HD CR TOT.
    destruct (gen_sample_inv _ _ _ _ _ (eq_refl (gen_sampleM symbols sf constants draws)))
      as [[y [K [K1 K2]]]|[[K K1]|[e0 [DA [MK [FR K]]]]]].
    - rewrite (HK _ K1) in K2. discriminate.
    - lia.
    - rewrite K.
      assert (CRK : closed_ranked (dependentsM symbols sf) e0 rank).
      { intros x f d Hin Hd. apply In_dependents in Hin. destruct Hin as [Hx L].
        destruct (CR x f d Hx L Hd) as [C1 C2].
        destruct (in_dec str_eq_dec d symbols) as [DS|DS].
        - destruct (is_depM sf d) eqn:D.
          + right. split; [ | auto]. apply is_dep_true in D. destruct D as [g Lg].
            apply in_map_iff. exists (d, g). split; [reflexivity | apply In_dependents; auto].
          + left. rewrite (draw_all_mem _ _ _ _ DA d). apply orb_true_iff. right. apply smem_In.
            unfold independent. apply filter_In. rewrite D. auto.
        - left. destruct C1 as [C1|C1]; [contradiction | ].
          rewrite (draw_all_mem _ _ _ _ DA d). apply orb_true_iff. left.
          unfold amem. rewrite prune_lookup. apply smem_false in DS. rewrite DS. exact C1. }
      destruct (closed_acyclic_resolves _ _ rank (dependents_NoDup symbols sf) FR CRK) as [[e E]|[x E]]; [eauto | ].
      exfalso. pose proof (resolve_outcome _ _ (dependents_NoDup symbols sf) FR) as O. rewrite E in O.
      destruct O as [f [e1 [_ [_ [R N]]]]]. exact (TOT _ _ R N).
  Qed.

  (* --- order independence of a whole sample --- *)
  Lemma alookup_perm : forall (a b : envT), NoDup (map fst a) -> Permutation a b ->
    forall x, alookup a x = alookup b x.
  Proof.
    intros a b ND PM x.
    assert (ND' : NoDup (map fst b)) by (eapply Permutation_NoDup; [apply Permutation_map; exact PM | exact ND]).
    destruct (alookup a x) as [v|] eqn:La; destruct (alookup b x) as [w|] eqn:Lb; auto.
    - apply alookup_In in La. apply (Permutation_in _ PM) in La.
      rewrite (alookup_NoDup_In _ _ _ ND' La) in Lb. congruence.
    - apply alookup_In in La. apply (Permutation_in _ PM) in La.
      rewrite (alookup_NoDup_In _ _ _ ND' La) in Lb. congruence.
    - apply alookup_In in Lb. apply (Permutation_in _ (Permutation_sym PM)) in Lb.
      rewrite (alookup_NoDup_In _ _ _ ND Lb) in La. congruence.
  Qed.

  Lemma draw_all_rev : forall names draws (e e' : envT),
    draw_all V names draws e = Some e' -> e' = rev (combine names draws) ++ e.
  Proof.
    induction names as [|x r IH]; intros draws e e' H; simpl in H.
    - inversion H. reflexivity.
    - destruct draws as [|d ds]; [discriminate | ]. rewrite (IH _ _ _ H). simpl. rewrite <- app_assoc. reflexivity.
  Qed.

  Lemma map_fst_combine : forall {A B} (a : list A) (b : list B), (length a <= length b)%nat ->
    map fst (combine a b) = a.
  Proof.
    induction a as [|x a IH]; intros b H; [reflexivity | ].
    destruct b as [|y b]; simpl in H; [lia | ]. simpl. f_equal. apply IH. lia.
  Qed.

  Theorem gen_sample_order_independent : ev_extensional ->
    forall symbols symbols' (sf : sfT) constants draws draws',
    NoDup symbols -> Permutation symbols symbols' ->
    (forall s, In s symbols -> amem sf s = true) ->
    (length (independentM symbols sf) <= length draws)%nat ->
    (length (independentM symbols' sf) <= length draws')%nat ->
    Permutation (combine (independentM symbols sf) draws) (combine (independentM symbols' sf) draws') ->
    set_equiv_results (gen_sampleM symbols sf constants draws) (gen_sampleM symbols' sf constants draws').
  Proof.
    intros EXT symbols symbols' sf constants draws draws' ND PM HK HD HD' PD.
    assert (ND' : NoDup symbols') by (eapply Permutation_NoDup; eauto).
    assert (HK' : forall s, In s symbols' -> amem sf s = true).
    { intros s Hs. apply HK. eapply Permutation_in; [apply Permutation_sym; exact PM | exact Hs]. }
    destruct (gen_sample_inv _ _ _ _ _ (eq_refl (gen_sampleM symbols sf constants draws)))
      as [[y [K [K1 K2]]]|[[K K1]|[e0 [DA [MK [FR K]]]]]];
      [rewrite (HK _ K1) in K2; discriminate | lia | ].
    destruct (gen_sample_inv _ _ _ _ _ (eq_refl (gen_sampleM symbols' sf constants draws')))
      as [[y [K' [K1 K2]]]|[[K' K1]|[e0' [DA' [MK' [FR' K']]]]]];
      [rewrite (HK' _ K1) in K2; discriminate | lia | ].
    rewrite K, K'. apply resolve_order_independent; auto.
    - apply dependents_NoDup.
    - unfold dependents. rewrite (sdedup_NoDup_id _ ND), (sdedup_NoDup_id _ ND'). apply Permutation_flat_map. exact PM.
    - intro x. rewrite (draw_all_rev _ _ _ _ DA), (draw_all_rev _ _ _ _ DA'). rewrite !alookup_app.
      assert (E1 : alookup (rev (combine (independentM symbols sf) draws)) x =
                   alookup (rev (combine (independentM symbols' sf) draws')) x).
      { apply alookup_perm.
        - rewrite map_rev, map_fst_combine by exact HD. apply NoDup_rev. apply NoDup_filter. exact ND.
        - eapply Permutation_trans; [apply Permutation_sym; apply Permutation_rev | ].
          eapply Permutation_trans; [exact PD | apply Permutation_rev]. }
      rewrite E1. destruct (alookup (rev (combine (independentM symbols' sf) draws')) x); [reflexivity | ].
      rewrite !prune_lookup.
      assert (E2 : smem x symbols = smem x symbols').
      { destruct (smem x symbols) eqn:S1; destruct (smem x symbols') eqn:S2; auto.
        - apply smem_In in S1. apply (Permutation_in _ PM) in S1. apply smem_In in S1. congruence.
        - apply smem_In in S2. apply (Permutation_in _ (Permutation_sym PM)) in S2. apply smem_In in S2. congruence. }
      rewrite E2. reflexivity.
  Qed.

  (* --- all samples of a call --- *)
  Notation gen_samples_fromM := (gen_samples_from V formula fdeps ev).
  Notation gen_symbols_samplesM := (gen_symbols_samples V formula fdeps ev).

  Lemma gen_samples_from_ok : forall draws i symbols (sf : sfT) constants l,
    gen_samples_fromM i symbols sf constants draws = RsOk l ->
    Forall2 (fun d e => gen_sampleM symbols sf constants d = ROk e) draws l.
  Proof.
    induction draws as [|d ds IH]; intros i symbols sf constants l H; simpl in H.
    - inversion H. constructor.
    - destruct (gen_sampleM symbols sf constants d) as [e|x] eqn:G; [ | discriminate].
      destruct (gen_samples_fromM (S i) symbols sf constants ds) as [l'|j x] eqn:R; [ | discriminate].
      inversion H. subst. constructor; [exact G | eapply IH; eauto].
  Qed.

  Lemma gen_samples_from_err : forall draws i symbols (sf : sfT) constants j x,
    gen_samples_fromM i symbols sf constants draws = RsErr j x ->
    exists d, nth_error draws (j - i) = Some d /\ (i <= j)%nat /\ gen_sampleM symbols sf constants d = RErr x.
  Proof.
    induction draws as [|d ds IH]; intros i symbols sf constants j x H; simpl in H; [discriminate | ].
    destruct (gen_sampleM symbols sf constants d) as [e|y] eqn:G.
    - destruct (gen_samples_fromM (S i) symbols sf constants ds) as [l'|j' y] eqn:R; [discriminate | ].
      inversion H. subst. destruct (IH _ _ _ _ _ _ R) as [d' [N [LE G']]].
      exists d'. split; [ | split; [lia | exact G']].
      replace (j - i)%nat with (S (j - S i)) by lia. exact N.
    - inversion H. subst. exists d. rewrite Nat.sub_diag. auto.
  Qed.

  (* every sample of a successful call is complete and consistent; the number of samples is the number asked for *)
  Theorem gen_symbols_samples_ok : ev_extensional -> forall symbols (sf : sfT) constants draws l,
    gen_symbols_samplesM symbols sf constants draws = RsOk l ->
    length l = length draws /\
    Forall (fun e =>
      (forall x, In x symbols -> amem e x = true) /\
      (forall c v, alookup constants c = Some v -> ~ In c symbols -> alookup e c = Some v) /\
      (forall y, amem e y = true -> In y symbols \/ (amem constants y = true /\ ~ In y symbols)) /\
      (forall x f, In x symbols -> alookup sf x = Some (SDep f) ->
         (forall d, In d (fdeps f) -> amem e d = true) /\ ~ In x (fdeps f) /\
         exists v, alookup e x = Some v /\ ev f e = Some v)) l.
  Proof.
    intros EXT symbols sf constants draws l H. apply gen_samples_from_ok in H. split.
    - clear EXT. induction H; simpl; [reflexivity | f_equal; assumption].
    - induction H as [|d e ds l G _ IH]; constructor; [ | exact IH].
      destruct (gen_sample_complete _ _ _ _ _ G) as [C1 [C2 C3]].
      split; [exact C1 | ]. split; [exact C2 | ]. split; [exact C3 | ].
      intros x f Hx L. eapply gen_sample_consistent; eauto.
  Qed.

  Theorem gen_symbols_samples_errors : forall symbols (sf : sfT) constants draws j x,
    (forall s, In s symbols -> amem sf s = true) ->
    Forall (fun d => (length (independentM symbols sf) <= length d)%nat) draws ->
    gen_symbols_samplesM symbols sf constants draws = RsErr j x -> is_config_error x = true.
  Proof.
    intros symbols sf constants draws j x HK HD H. apply gen_samples_from_err in H.
    destruct H as [d [N [_ G]]]. eapply gen_sample_error_kinds; eauto.
    rewrite Forall_forall in HD. apply HD. eapply nth_error_In; eauto.
  Qed.

  (* ---------------------------------------------------------------- generate_variable_list, siblings *)
  Notation add_numberedM := (add_numbered formula).
  Notation generate_variable_listM := (generate_variable_list formula).
  Notation add_siblingsM := (add_siblings formula).

  Definition is_instance (heads : list str) (u : str) : bool :=
    match numbered_match heads u with Some _ => true | None => false end.

  (* the head of an instance is not itself an instance (no parseable name has two index groups) *)
  Definition heads_plain (heads used : list str) : Prop :=
    forall u h, In u used -> numbered_match heads u = Some h -> numbered_match heads h = None.

  Lemma add_numbered_spec : forall heads bad vars (sf : sfT) vars' sf',
    add_numberedM heads bad vars sf = Some (vars', sf') ->
    heads_plain heads bad -> NoDup bad ->
    vars' = vars ++ filter (is_instance heads) bad /\
    (forall u h, In u bad -> numbered_match heads u = Some h -> alookup sf' u = alookup sf h) /\
    (forall y, ~ (In y bad /\ is_instance heads y = true) -> alookup sf' y = alookup sf y).
  Proof.
    intros heads bad. induction bad as [|v r IH]; intros vars sf vars' sf' H HP ND; simpl in H.
    - inversion H. subst. simpl. rewrite app_nil_r. repeat split; auto. intros u h [].
    - inversion ND as [|? ? Hn ND']. subst.
      assert (HP' : heads_plain heads r) by (intros u h Hu; apply HP; right; exact Hu).
      simpl. unfold is_instance at 1. destruct (numbered_match heads v) as [hv|] eqn:MV.
      + destruct (alookup sf hv) as [s|] eqn:LH; [ | discriminate].
        destruct (IH _ _ _ _ H HP' ND') as [K1 [K2 K3]]. split; [ | split].
        * rewrite K1. rewrite <- app_assoc. reflexivity.
        * intros u h [Hu|Hu] MU.
          -- subst u. rewrite K3 by tauto. simpl. rewrite str_eqb_refl. congruence.
          -- rewrite (K2 u h Hu MU). apply alookup_cons_other_gen. intro E. subst h.
             pose proof (HP u v (or_intror Hu) MU). congruence.
        * intros y NY. rewrite K3 by (intros [A B]; apply NY; split; [right; exact A | exact B]).
          apply alookup_cons_other_gen. intro E. subst y. apply NY. split; [left; reflexivity | ].
          unfold is_instance. rewrite MV. reflexivity.
      + destruct (IH _ _ _ _ H HP' ND') as [K1 [K2 K3]]. split; [exact K1 | split].
        * intros u h [Hu|Hu] MU; [subst u; congruence | auto].
        * intros y NY. apply K3. intros [A B]. apply NY. split; [right; exact A | exact B].
  Qed.

  Lemma numbered_match_in_heads : forall heads u h, heads <> [] -> numbered_match heads u = Some h -> In h heads.
  Proof.
    intros heads u h NE H. unfold numbered_match in H. destruct heads as [|a t]; [congruence | ].
    apply find_some in H. tauto.
  Qed.

  Lemma add_numbered_some : forall heads bad vars (sf : sfT), heads <> [] ->
    (forall h, In h heads -> amem sf h = true) -> exists r, add_numberedM heads bad vars sf = Some r.
  Proof.
    intros heads bad vars sf NE. revert vars sf. induction bad as [|v r IH]; intros vars sf HH; simpl; [eauto | ].
    destruct (numbered_match heads v) as [hv|] eqn:MV; [ | auto].
    pose proof (HH _ (numbered_match_in_heads _ _ _ NE MV)) as A. apply amem_alookup in A. destruct A as [s A].
    rewrite A. apply IH. intros h Hh. rewrite amem_cons, (HH _ Hh). apply orb_true_r.
  Qed.

  Definition bad_vars (variables used : list str) : list str :=
    filter (fun v => negb (smem v variables)) (sdedup used).

  Lemma In_bad_vars : forall variables used u, In u (bad_vars variables used) <-> In u used /\ ~ In u variables.
  Proof. intros. unfold bad_vars. rewrite filter_In, In_sdedup, negb_true_iff, smem_false. tauto. Qed.

  Theorem generate_variable_list_spec : forall variables heads used (sf : sfT) vars sf',
    generate_variable_listM variables heads used sf = Some (vars, sf') ->
    heads_plain heads used ->
    (forall y, In y vars <-> In y variables \/ (In y used /\ ~ In y variables /\ is_instance heads y = true)) /\
    (NoDup variables -> NoDup vars) /\
    (exists extra, vars = variables ++ extra) /\
    (forall u h, In u used -> ~ In u variables -> numbered_match heads u = Some h -> alookup sf' u = alookup sf h) /\
    (forall y, In y variables \/ ~ In y used \/ is_instance heads y = false -> alookup sf' y = alookup sf y).
  Proof.
    intros variables heads used sf vars sf' H HP. unfold generate_variable_list in H. fold (bad_vars variables used) in H.
    assert (HP' : heads_plain heads (bad_vars variables used)).
    { intros u h Hu. apply HP. apply In_bad_vars in Hu. tauto. }
    assert (NDB : NoDup (bad_vars variables used)) by (apply NoDup_filter; apply NoDup_sdedup).
    destruct (add_numbered_spec _ _ _ _ _ _ H HP' NDB) as [K1 [K2 K3]]. split; [ | split; [ | split; [ | split]]].
    - intro y. rewrite K1, in_app_iff, filter_In, In_bad_vars. tauto.
    - intro ND. rewrite K1. apply NoDup_app_intro; [exact ND | apply NoDup_filter; exact NDB | ].
      intros y Hy Hy'. apply filter_In in Hy'. destruct Hy' as [Hy' _]. apply In_bad_vars in Hy'. tauto.
    - eauto.
    - intros u h Hu NV MU. apply K2; [apply In_bad_vars; auto | exact MU].
    - intros y Hy. apply K3. intros [A B]. apply In_bad_vars in A. destruct Hy as [Hy|[Hy|Hy]]; try tauto. congruence.
  Qed.

  Lemma add_siblings_spec : forall sibs vars (sf : sfT) vars' sf',
    add_siblingsM sibs vars sf = (vars', sf') -> NoDup (map fst sibs) ->
    vars' = vars ++ map fst sibs /\
    (forall k f, In (k, f) sibs -> alookup sf' k = Some (SDep f)) /\
    (forall y, ~ In y (map fst sibs) -> alookup sf' y = alookup sf y).
  Proof.
    induction sibs as [|[k f] r IH]; intros vars sf vars' sf' H ND; simpl in H.
    - inversion H. subst. simpl. rewrite app_nil_r. repeat split; auto. intros k f [].
    - simpl in ND. inversion ND as [|? ? Hn ND']. subst. destruct (IH _ _ _ _ H ND') as [K1 [K2 K3]].
      split; [ | split].
      + rewrite K1. simpl. rewrite <- app_assoc. reflexivity.
      + intros k' f' [E|Hin].
        * inversion E. subst. rewrite K3 by exact Hn. simpl. rewrite str_eqb_refl. reflexivity.
        * apply K2. exact Hin.
      + intros y NY. simpl in NY. rewrite K3 by tauto. apply alookup_cons_other_gen. intro. apply NY. left. congruence.
  Qed.

  Notation gen_var_samplesM := (gen_var_samples V formula fdeps ev).

  (* the variable samples handed to the evaluation of a grader call *)
  Theorem gen_var_samples_ok : ev_extensional ->
    forall variables heads used sibs (sf : sfT) constants draws l,
    heads_plain heads used -> NoDup (map fst sibs) ->
    gen_var_samplesM variables heads used sibs sf constants draws = Some (RsOk l) ->
    length l = length draws /\
    Forall (fun e =>
      (* declared variables *)
      (forall v, In v variables -> amem e v = true) /\
      (* numbered instances used in the expressions *)
      (forall u, In u used -> is_instance heads u = true -> amem e u = true) /\
      (* siblings: dependent on the rest of the same sample *)
      (forall k f, In (k, f) sibs -> exists v, alookup e k = Some v /\ ev f e = Some v) /\
      (* constants not shadowed by a sampled name *)
      (forall c v, alookup constants c = Some v -> ~ In c variables -> ~ In c (map fst sibs) ->
                   ~ (In c used /\ is_instance heads c = true) -> alookup e c = Some v) /\
      (* declared dependent variables *)
      (forall x f, In x variables -> ~ In x (map fst sibs) -> alookup sf x = Some (SDep f) ->
                   ~ In x (fdeps f) /\ exists v, alookup e x = Some v /\ ev f e = Some v) /\
      (* numbered instances of a dependent base name *)
      (forall u h f, In u used -> ~ In u variables -> ~ In u (map fst sibs) -> numbered_match heads u = Some h ->
                     alookup sf h = Some (SDep f) -> exists v, alookup e u = Some v /\ ev f e = Some v) /\
      (* nothing else *)
      (forall y, amem e y = true -> In y variables \/ In y (map fst sibs) \/ (In y used /\ is_instance heads y = true)
                                    \/ amem constants y = true)) l.
  Proof.
    intros EXT variables heads used sibs sf constants draws l HP NDS H. unfold gen_var_samples in H.
    destruct (generate_variable_listM variables heads used sf) as [[vars sf1]|] eqn:G; [ | discriminate].
    destruct (add_siblingsM sibs vars sf1) as [vars2 sf2] eqn:A. inversion H as [H']. clear H.
    destruct (generate_variable_list_spec _ _ _ _ _ _ G HP) as [G1 [_ [_ [G4 G5]]]].
    destruct (add_siblings_spec _ _ _ _ _ A NDS) as [A1 [A2 A3]].
    destruct (gen_symbols_samples_ok EXT _ _ _ _ _ H') as [LEN ALL]. split; [exact LEN | ].
    eapply Forall_impl; [ | exact ALL]. intros e [C1 [C2 [C3 C4]]].
    assert (INV : forall y, In y vars2 <-> In y vars \/ In y (map fst sibs)) by (intro y; rewrite A1; apply in_app_iff).
    split; [ | split; [ | split; [ | split; [ | split; [ | split]]]]].
    - intros v Hv. apply C1. apply INV. left. apply G1. auto.
    - intros u Hu IU. apply C1. apply INV. destruct (in_dec str_eq_dec u variables) as [D|D].
      + left. apply G1. auto.
      + left. apply G1. right. auto.
    - intros k f Hk. destruct (C4 k f) as [_ [_ R]]; [apply INV; right; apply in_map_iff; exists (k, f); auto | auto | exact R].
    - intros c v L NV NS NI. apply C2; [exact L | ]. intro K. apply INV in K. destruct K as [K|K]; [ | contradiction].
      apply G1 in K. tauto.
    - intros x f Hx NS L. destruct (C4 x f) as [_ [R1 R2]]; [apply INV; left; apply G1; auto | | auto].
      rewrite A3 by exact NS. rewrite G5 by auto. exact L.
    - intros u h f Hu NV NS MU L. destruct (C4 u f) as [_ [_ R]]; [ | | exact R].
      + apply INV. left. apply G1. right. unfold is_instance. rewrite MU. auto.
      + rewrite A3 by exact NS. rewrite (G4 u h Hu NV MU). exact L.
    - intros y Hy. destruct (C3 y Hy) as [K|[K _]]; [ | auto].
      apply INV in K. destruct K as [K|K]; [ | auto]. apply G1 in K. tauto.
  Qed.

  (* ---------------------------------------------------------------- the scopes actually used for grading *)
  Notation eval_scopesM := (eval_scopes V).

  Lemma eval_scopes_spec : forall samples (varlist : envT) bl,
    (forall s s' x, In s samples -> In s' samples -> amem s x = amem s' x) ->
    (forall s x, In s samples -> amem varlist x = true -> amem s x = true) ->
    Forall2 (fun s sc => env_equiv (fst sc) s /\
                         forall x, alookup (snd sc) x = if smem x bl then None else alookup s x)
            samples (eval_scopesM varlist bl samples).
  Proof.
    induction samples as [|s r IH]; intros varlist bl SAME SUB; simpl; constructor.
    - assert (E1 : env_equiv (s ++ varlist) s).
      { intro x. rewrite alookup_app. destruct (alookup s x) as [v|] eqn:L; [reflexivity | ].
        destruct (amem varlist x) eqn:A.
        - pose proof (SUB s x (or_introl eq_refl) A) as K. unfold amem in K. rewrite L in K. discriminate.
        - unfold amem in A. destruct (alookup varlist x); [discriminate | reflexivity]. }
      split; [exact E1 | ]. intro x. simpl. unfold remove_keys.
      rewrite (alookup_filter_key (fun k => negb (smem k bl)) (s ++ varlist) x). rewrite (E1 x).
      destruct (smem x bl); reflexivity.
    - apply IH.
      + intros a b x Ha Hb. apply SAME; right; assumption.
      + intros s' x Hs' A. rewrite <- (SAME s s' x (or_introl eq_refl) (or_intror Hs')).
        unfold amem, remove_keys in A. rewrite (alookup_filter_key (fun k => negb (smem k bl)) (s ++ varlist) x) in A.
        destruct (negb (smem x bl)); [ | discriminate].
        rewrite alookup_app in A. unfold amem. destruct (alookup s x) as [v|] eqn:L; [reflexivity | ].
        assert (A' : amem varlist x = true) by (unfold amem; exact A).
        pose proof (SUB s x (or_introl eq_refl) A') as K. unfold amem in K. rewrite L in K. discriminate.
  Qed.

  (* every sample generated by one call has the same key set, so the accumulated scope of sample i IS sample i, and
     the student's scope is sample i without the blacklisted names *)
  Theorem scopes_are_the_samples : forall symbols (sf : sfT) constants draws l bl,
    gen_symbols_samplesM symbols sf constants draws = RsOk l ->
    Forall2 (fun s sc => env_equiv (fst sc) s /\
                         forall x, alookup (snd sc) x = if smem x bl then None else alookup s x)
            l (eval_scopesM [] bl l).
  Proof.
    intros symbols sf constants draws l bl H. apply gen_samples_from_ok in H.
    assert (KEYS : forall e, In e l -> forall y, amem e y = true <-> (In y symbols \/ (amem constants y = true /\ ~ In y symbols))).
    { intros e He. clear bl. induction H as [|d e' ds l' G _ IH]; [contradiction | ].
      destruct He as [He|He]; [ | auto]. subst e'.
      destruct (gen_sample_complete _ _ _ _ _ G) as [C1 [C2 C3]]. intro y. split; [apply C3 | ].
      intros [K|[K1 K2]]; [auto | ]. apply amem_alookup in K1. destruct K1 as [v K1].
      apply amem_alookup. exists v. auto. }
    apply eval_scopes_spec.
    - intros s s' x Hs Hs'. pose proof (KEYS s Hs x) as K1. pose proof (KEYS s' Hs' x) as K2.
      destruct (amem s x); destruct (amem s' x); auto.
      + symmetry. apply K2. apply K1. reflexivity.
      + apply K1. apply K2. reflexivity.
    - intros s x _ A. discriminate.
  Qed.
End ResolveProofs.

(* ------------------------------------------------------------------ the concrete evaluator used by the correspondence
   satisfies the extensionality hypothesis (so the theorems are not vacuous and apply to the evaluated cases) *)
Lemma eval_expr_extensional : ev_extensional val expr expr_vars eval_expr.
Proof.
  unfold ev_extensional. fix IH 1. intros a e e' H. destruct a as [q|x|a|a b|a b|a b|l]; simpl.
  - reflexivity.
  - apply H. left. reflexivity.
  - rewrite (IH a e e'); [reflexivity | exact H].
  - rewrite (IH a e e'), (IH b e e'); [reflexivity | | ]; intros x Hx; apply H; simpl; apply in_or_app; auto.
  - rewrite (IH a e e'), (IH b e e'); [reflexivity | | ]; intros x Hx; apply H; simpl; apply in_or_app; auto.
  - rewrite (IH a e e'), (IH b e e'); [reflexivity | | ]; intros x Hx; apply H; simpl; apply in_or_app; auto.
  - assert (M : map (fun x => eval_expr x e) l = map (fun x => eval_expr x e') l).
    { simpl in H. induction l as [|a l IHl]; [reflexivity | ]. simpl. f_equal.
      - apply IH. intros x Hx. apply H. simpl. apply in_or_app. left. exact Hx.
      - apply IHl. intros x Hx. apply H. simpl. apply in_or_app. right. exact Hx. }
    rewrite M. reflexivity.
Qed.
