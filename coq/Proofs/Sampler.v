(* Proofs/Sampler.v -- lemmas about the scalar / discrete / function samplers (C12) *)
From Coq Require Import ZArith QArith Qabs Lia Lqa List Bool Setoid Ring Field.
From Verif.Lib Require Import QRound.
From Verif.Model Require Import Sampler.
From Verif.Proofs Require Import Credit.
Import ListNotations.
Open Scope Q_scope.

(* ------------------------------------------------------------------------------------------ *)
(* Qmin / Qmax                                                                                *)
(* ------------------------------------------------------------------------------------------ *)
Lemma Qmin_spec : forall a b, (a <= b /\ Qmin a b = a) \/ (b < a /\ Qmin a b = b).
Proof. intros a b. unfold Qmin. destruct (Qle_bool a b) eqn:E; qbool; auto. Qed.
Lemma Qmax_spec : forall a b, (a <= b /\ Qmax a b = b) \/ (b < a /\ Qmax a b = a).
Proof. intros a b. unfold Qmax. destruct (Qle_bool a b) eqn:E; qbool; auto. Qed.

(* ------------------------------------------------------------------------------------------ *)
(* RealInterval                                                                               *)
(* ------------------------------------------------------------------------------------------ *)
Lemma real_interval_init_spec : forall a b,
  fst (real_interval_init a b) == Qmin a b /\ snd (real_interval_init a b) == Qmax a b.
Proof.
  intros a b. unfold real_interval_init.
  destruct (Qmin_spec a b) as [[H1 E1] | [H1 E1]]; destruct (Qmax_spec a b) as [[H2 E2] | [H2 E2]];
    rewrite E1, E2; destruct (Qltb b a) eqn:E; qbool; simpl; split; lra.
Qed.

Lemma real_interval_init_ordered : forall a b,
  fst (real_interval_init a b) <= snd (real_interval_init a b).
Proof. intros a b. unfold real_interval_init. destruct (Qltb b a) eqn:E; qbool; simpl; lra. Qed.

Lemma real_interval_gen_range : forall lo hi u, lo <= hi -> 0 <= u -> u < 1 ->
  lo <= real_interval_gen lo hi u /\ real_interval_gen lo hi u <= hi /\
  (lo < hi -> real_interval_gen lo hi u < hi).
Proof. intros lo hi u H H0 H1. unfold real_interval_gen. repeat split; intros; nra. Qed.

Lemma real_interval_range : forall a b u, 0 <= u -> u < 1 ->
  Qmin a b <= real_interval a b u /\ real_interval a b u <= Qmax a b /\
  (~ a == b -> real_interval a b u < Qmax a b).
Proof.
  intros a b u H0 H1. unfold real_interval. cbv zeta.
  destruct (real_interval_init_spec a b) as [E1 E2].
  pose proof (real_interval_init_ordered a b) as Ho.
  destruct (real_interval_gen_range _ _ u Ho H0 H1) as (G1 & G2 & G3).
  repeat split; try lra.
  intro Hne. assert (Hlt : fst (real_interval_init a b) < snd (real_interval_init a b)).
  { rewrite E1, E2. destruct (Qmin_spec a b) as [[P1 Q1] | [P1 Q1]]; destruct (Qmax_spec a b) as [[P2 Q2] | [P2 Q2]];
      rewrite Q1, Q2; try lra.
    all: destruct (Qlt_le_dec a b); [assumption|]; exfalso; apply Hne; lra. }
  specialize (G3 Hlt). lra.
Qed.

Lemma real_interval_order_irrelevant : forall a b u, real_interval a b u == real_interval b a u.
Proof.
  intros a b u. unfold real_interval, real_interval_init, real_interval_gen. cbv zeta.
  destruct (Qltb b a) eqn:E1; destruct (Qltb a b) eqn:E2; qbool; simpl; try lra.
  assert (a == b) by lra. nra.
Qed.

Lemma real_interval_degenerate : forall a u, real_interval a a u == a.
Proof.
  intros a u. unfold real_interval, real_interval_init, real_interval_gen. cbv zeta.
  destruct (Qltb a a) eqn:E; simpl; ring.
Qed.

(* every point of [min, max) is produced by an admissible PRNG value *)
Lemma real_interval_onto : forall a b v, Qmin a b <= v -> v < Qmax a b ->
  exists u, 0 <= u /\ u < 1 /\ real_interval a b u == v.
Proof.
  intros a b v H1 H2. unfold real_interval. cbv zeta.
  destruct (real_interval_init_spec a b) as [E1 E2].
  set (lo := fst (real_interval_init a b)) in *. set (hi := snd (real_interval_init a b)) in *.
  rewrite <- E1 in H1. rewrite <- E2 in H2.
  assert (Hw : 0 < hi - lo) by lra.
  exists ((v - lo) / (hi - lo)). repeat split.
  - apply div_nonneg; lra.
  - apply Qlt_shift_div_r; lra.
  - unfold real_interval_gen. field. lra.
Qed.

(* ------------------------------------------------------------------------------------------ *)
(* IntegerRange                                                                               *)
(* ------------------------------------------------------------------------------------------ *)
(* contract of np.random.randint(low, high): an integer in [low, high) *)
Definition randint_ok (randint : Z -> Z -> Z) : Prop :=
  forall lo hi, (lo < hi)%Z -> (lo <= randint lo hi < hi)%Z.

Lemma integer_range_init_spec : forall a b,
  fst (integer_range_init a b) = Z.min a b /\ snd (integer_range_init a b) = Z.max a b.
Proof. intros a b. unfold integer_range_init. destruct (b <? a)%Z eqn:E; simpl; lia. Qed.

Lemma integer_range_in : forall r a b, randint_ok r ->
  (Z.min a b <= integer_range r a b <= Z.max a b)%Z.
Proof.
  intros r a b Hr. unfold integer_range, integer_range_call. cbv zeta.
  destruct (integer_range_init_spec a b) as [E1 E2]. simpl. rewrite E1, E2.
  specialize (Hr (Z.min a b) (Z.max a b + 1)%Z). lia.
Qed.

Lemma integer_range_attainable : forall a b v, (Z.min a b <= v <= Z.max a b)%Z ->
  exists r, randint_ok r /\ integer_range r a b = v.
Proof.
  intros a b v Hv.
  exists (fun lo hi => if ((lo <=? v) && (v <? hi))%Z then v else lo). split.
  - intros lo hi H. destruct ((lo <=? v)%Z && (v <? hi)%Z) eqn:E; [|lia].
    apply andb_true_iff in E. lia.
  - unfold integer_range, integer_range_call. cbv zeta.
    destruct (integer_range_init_spec a b) as [E1 E2]. simpl. rewrite E1, E2.
    assert (E : ((Z.min a b <=? v)%Z && (v <? Z.max a b + 1)%Z) = true).
    { apply andb_true_iff. split; [apply Z.leb_le | apply Z.ltb_lt]; lia. }
    rewrite E. reflexivity.
Qed.

Lemma integer_range_order_irrelevant : forall r a b, integer_range r a b = integer_range r b a.
Proof.
  intros r a b. unfold integer_range, integer_range_call. cbv zeta.
  destruct (integer_range_init_spec a b) as [E1 E2]. destruct (integer_range_init_spec b a) as [E3 E4].
  simpl. rewrite E1, E2, E3, E4. rewrite (Z.min_comm b a), (Z.max_comm b a). reflexivity.
Qed.

(* ------------------------------------------------------------------------------------------ *)
(* complex arithmetic: setoid, ring and field structure                                       *)
(* ------------------------------------------------------------------------------------------ *)
Lemma ceq_refl : forall a, ceq a a.
Proof. intros [x y]. split; reflexivity. Qed.
Lemma ceq_sym : forall a b, ceq a b -> ceq b a.
Proof. intros a b [H1 H2]. split; symmetry; assumption. Qed.
Lemma ceq_trans : forall a b c, ceq a b -> ceq b c -> ceq a c.
Proof. intros a b c [H1 H2] [H3 H4]. split; etransitivity; eassumption. Qed.

Add Parametric Relation : C ceq
  reflexivity proved by ceq_refl symmetry proved by ceq_sym transitivity proved by ceq_trans as ceq_rel.

Ltac cdestruct :=
  repeat match goal with
  | z : C |- _ => destruct z
  | H : ceq _ _ |- _ => destruct H
  end; unfold ceq, cadd, csub, cmul, copp, cconj, cscale, cofQ, c0, c1, ci, cre, cim, creal, cnormsq in *; simpl in *.

Add Parametric Morphism : cadd with signature ceq ==> ceq ==> ceq as cadd_mor.
Proof. intros a b H c d H'. cdestruct. split; lra. Qed.
Add Parametric Morphism : csub with signature ceq ==> ceq ==> ceq as csub_mor.
Proof. intros a b H c d H'. cdestruct. split; lra. Qed.
Add Parametric Morphism : copp with signature ceq ==> ceq as copp_mor.
Proof. intros a b H. cdestruct. split; lra. Qed.
Add Parametric Morphism : cconj with signature ceq ==> ceq as cconj_mor.
Proof. intros a b H. cdestruct. split; lra. Qed.
Add Parametric Morphism : cmul with signature ceq ==> ceq ==> ceq as cmul_mor.
Proof. intros a b H c d H'. cdestruct. split; nra. Qed.
Add Parametric Morphism : cnormsq with signature ceq ==> Qeq as cnormsq_mor.
Proof. intros a b H. cdestruct. nra. Qed.
Add Parametric Morphism : cscale with signature Qeq ==> ceq ==> ceq as cscale_mor.
Proof. intros p q Hq a b H. cdestruct. split; nra. Qed.
Add Parametric Morphism : cofQ with signature Qeq ==> ceq as cofQ_mor.
Proof. intros p q Hq. cdestruct. split; lra. Qed.
Add Parametric Morphism : cinv with signature ceq ==> ceq as cinv_mor.
Proof.
  intros a b H. assert (Hn : cnormsq a == cnormsq b) by (rewrite H; reflexivity).
  destruct a as [x y], b as [z w]. destruct H as [H1 H2]. unfold cinv. simpl in *.
  split; simpl; rewrite Hn; [rewrite H1 | rewrite H2]; reflexivity.
Qed.
Add Parametric Morphism : cdiv with signature ceq ==> ceq ==> ceq as cdiv_mor.
Proof. intros a b H c d H'. unfold cdiv. rewrite H, H'. reflexivity. Qed.

Lemma C_ring : ring_theory c0 c1 cadd cmul csub copp ceq.
Proof.
  constructor; intros; cdestruct; split; ring.
Qed.
Add Ring Cring : C_ring.

Lemma cnormsq_zero : forall a, cnormsq a == 0 -> ceq a c0.
Proof. intros [x y] H. cdestruct. split; nra. Qed.
Lemma cnormsq_c0 : cnormsq c0 == 0.
Proof. reflexivity. Qed.
Lemma cnormsq_nonneg : forall a, 0 <= cnormsq a.
Proof. intros [x y]. cdestruct. nra. Qed.
Lemma cnormsq_pos : forall a, ~ ceq a c0 -> 0 < cnormsq a.
Proof.
  intros a H. destruct (Qlt_le_dec 0 (cnormsq a)) as [L|L]; [exact L|].
  exfalso. apply H. apply cnormsq_zero. pose proof (cnormsq_nonneg a). lra.
Qed.

Lemma cinv_l : forall a, ~ ceq a c0 -> ceq (cmul (cinv a) a) c1.
Proof.
  intros a H. pose proof (cnormsq_pos a H) as P. destruct a as [x y]. unfold cinv, cmul, c1, ceq, cnormsq in *. simpl in *.
  split; field; lra.
Qed.

Lemma C_field : field_theory c0 c1 cadd cmul csub copp cdiv cinv ceq.
Proof.
  constructor.
  - exact C_ring.
  - intros [H _]. simpl in H. lra.
  - intros. reflexivity.
  - exact cinv_l.
Qed.
Add Field Cfield : C_field.

Lemma cred_eq : forall z, ceq (cred z) z.
Proof. intros [x y]. unfold cred, ceq. simpl. split; apply Qred_correct. Qed.
Lemma creal_cred : forall z, creal z -> creal (cred z).
Proof. intros [x y]. unfold creal, cred. simpl. intro H. rewrite Qred_correct. exact H. Qed.

Lemma cconj_involutive : forall a, ceq (cconj (cconj a)) a.
Proof. intros. cdestruct. split; ring. Qed.
Lemma cconj_add : forall a b, ceq (cconj (cadd a b)) (cadd (cconj a) (cconj b)).
Proof. intros. cdestruct. split; ring. Qed.
Lemma cconj_sub : forall a b, ceq (cconj (csub a b)) (csub (cconj a) (cconj b)).
Proof. intros. cdestruct. split; ring. Qed.
Lemma cconj_mul : forall a b, ceq (cconj (cmul a b)) (cmul (cconj a) (cconj b)).
Proof. intros. cdestruct. split; ring. Qed.
Lemma cconj_opp : forall a, ceq (cconj (copp a)) (copp (cconj a)).
Proof. intros. cdestruct. split; ring. Qed.
Lemma cscale_cmul : forall q a, ceq (cscale q a) (cmul (cofQ q) a).
Proof. intros. cdestruct. split; ring. Qed.
Lemma cnormsq_mul : forall a b, cnormsq (cmul a b) == cnormsq a * cnormsq b.
Proof. intros. cdestruct. ring. Qed.
Lemma cnormsq_scale : forall q a, cnormsq (cscale q a) == q * q * cnormsq a.
Proof. intros. cdestruct. ring. Qed.
Lemma cnormsq_cofQ : forall q, cnormsq (cofQ q) == q * q.
Proof. intros. cdestruct. ring. Qed.

(* triangle inequality on squares: |a| <= p, |b| <= q  ->  |a + b| <= p + q *)
Lemma cnormsq_add_bound : forall a b p q, 0 <= p -> 0 <= q ->
  cnormsq a <= p * p -> cnormsq b <= q * q -> cnormsq (cadd a b) <= (p + q) * (p + q).
Proof.
  intros [x y] [z w] p q Hp Hq Ha Hb. cdestruct.
  assert (CS : (x * z + y * w) * (x * z + y * w) <= (p * q) * (p * q)).
  { assert ((x * z + y * w) * (x * z + y * w) <= (x * x + y * y) * (z * z + w * w)).
    { assert (E : (x * x + y * y) * (z * z + w * w) - (x * z + y * w) * (x * z + y * w)
                  == (x * w - y * z) * (x * w - y * z)) by ring.
      assert (0 <= (x * w - y * z) * (x * w - y * z)) by (generalize (x * w - y * z); intro t; nra).
      lra. }
    assert ((x * x + y * y) * (z * z + w * w) <= (p * p) * (q * q)).
    { assert (HA : 0 <= x * x + y * y) by nra. assert (HB : 0 <= z * z + w * w) by nra.
      revert Ha Hb HA HB. generalize (x * x + y * y) (z * z + w * w) (p * p) (q * q).
      intros A B P Q0 Ha Hb HA HB. nra. }
    nra. }
  assert (Hpq : 0 <= p * q) by nra.
  assert (x * z + y * w <= p * q).
  { destruct (Qlt_le_dec (p * q) (x * z + y * w)); [|assumption]. exfalso. nra. }
  nra.
Qed.

(* ------------------------------------------------------------------------------------------ *)
(* ComplexRectangle / ComplexSector                                                           *)
(* ------------------------------------------------------------------------------------------ *)
Lemma complex_rectangle_range : forall re0 re1 im0 im1 u1 u2, 0 <= u1 < 1 -> 0 <= u2 < 1 ->
  let z := complex_rectangle re0 re1 im0 im1 u1 u2 in
  Qmin re0 re1 <= cre z <= Qmax re0 re1 /\ Qmin im0 im1 <= cim z <= Qmax im0 im1.
Proof.
  intros re0 re1 im0 im1 u1 u2 [A1 A2] [B1 B2]. cbv zeta. unfold complex_rectangle, cre, cim. simpl.
  destruct (real_interval_range re0 re1 u1 A1 A2) as (R1 & R2 & _).
  destruct (real_interval_range im0 im1 u2 B1 B2) as (I1 & I2 & _).
  repeat split; assumption.
Qed.

(* with the contract |exp(it)| = 1 of the exponential oracle, the modulus of the sample is |m| for an m
   inside the declared modulus range and the sample is m * exp(i theta) for a theta inside the declared
   argument range *)
Lemma complex_sector_spec : forall expi m0 m1 a0 a1 u1 u2, 0 <= u1 < 1 -> 0 <= u2 < 1 ->
  (forall t, cnormsq (expi t) == 1) ->
  exists m theta, Qmin m0 m1 <= m <= Qmax m0 m1 /\ Qmin a0 a1 <= theta <= Qmax a0 a1 /\
    complex_sector expi m0 m1 a0 a1 u1 u2 = cscale m (expi theta) /\
    cnormsq (complex_sector expi m0 m1 a0 a1 u1 u2) == m * m.
Proof.
  intros expi m0 m1 a0 a1 u1 u2 [A1 A2] [B1 B2] He.
  exists (sector_modulus m0 m1 u1), (sector_argument a0 a1 u2).
  destruct (real_interval_range m0 m1 u1 A1 A2) as (R1 & R2 & _).
  destruct (real_interval_range a0 a1 u2 B1 B2) as (I1 & I2 & _).
  unfold sector_modulus, sector_argument, complex_sector.
  split; [split; assumption|]. split; [split; assumption|]. split; [reflexivity|].
  rewrite cnormsq_scale, He. unfold sector_modulus. ring.
Qed.

(* ------------------------------------------------------------------------------------------ *)
(* DiscreteSet / SpecificFunctions                                                            *)
(* ------------------------------------------------------------------------------------------ *)
Lemma choice_member : forall (A : Type) (members : list A) idx d,
  (idx < length members)%nat -> In (choice members idx d) members.
Proof. intros A members idx d H. unfold choice. apply nth_In. exact H. Qed.

Lemma choice_single : forall (A : Type) (v : A) idx d, (idx < 1)%nat -> choice [v] idx d = v.
Proof. intros A v idx d H. destruct idx; [reflexivity | lia]. Qed.

(* every listed member can be drawn *)
Lemma choice_onto : forall (A : Type) (members : list A) v d, In v members ->
  exists idx, (idx < length members)%nat /\ choice members idx d = v.
Proof. intros A members v d H. destruct (In_nth _ _ d H) as (n & Hn & E). exists n. split; assumption. Qed.

(* ------------------------------------------------------------------------------------------ *)
(* RandomFunction                                                                             *)
(* ------------------------------------------------------------------------------------------ *)
Definition sin_ok (sinv : Q -> Q) : Prop := forall t, -1 <= sinv t <= 1.
Definition expi_ok (expi : Q -> C) : Prop := forall t, cnormsq (expi t) == 1.
Definition raw_ok (r : rf_raw) : Prop :=
  0 <= r_a r < 1 /\ 0 <= r_p r < 1 /\ 0 <= r_b r < 1 /\ 0 <= r_c r < 1.

Lemma rf_amp_range : forall u, 0 <= u < 1 -> 1 # 2 <= rf_amp u /\ rf_amp u < 1.
Proof. intros u [H0 H1]. unfold rf_amp. setoid_replace (u / 2) with (u * (1 # 2)) by field. split; lra. Qed.

(* frequencies lie in [-pi, pi), phases in [0, 2 pi) (pi = the float np.pi) *)
Lemma rf_freq_range : forall u, 0 <= u < 1 -> - pi_f <= rf_freq u /\ rf_freq u < pi_f.
Proof. intros u [H0 H1]. unfold rf_freq, pi_f. split; lra. Qed.
Lemma rf_shift_range : forall u, 0 <= u < 1 -> 0 <= rf_shift u /\ rf_shift u < 2 * pi_f.
Proof. intros u [H0 H1]. unfold rf_shift, pi_f. split; lra. Qed.

Lemma rf_coeff_bound : forall expi cplx r, expi_ok expi -> raw_ok r ->
  (1 # 4) <= cnormsq (t_a (rf_coeff expi cplx r)) <= 1.
Proof.
  intros expi cplx r He (Ha & _). unfold expi_ok in He. destruct (rf_amp_range _ Ha) as [A1 A2].
  unfold rf_coeff. simpl. destruct cplx.
  - rewrite cnormsq_mul, He, cnormsq_cofQ. split; nra.
  - rewrite cnormsq_cofQ. split; nra.
Qed.

Lemma rf_coeff_real : forall expi r, creal (t_a (rf_coeff expi false r)).
Proof. intros. unfold rf_coeff, creal, cofQ. simpl. reflexivity. Qed.

Definition term_ok (t : rf_term) : Prop := cnormsq (t_a t) <= 1.

Lemma qnat_succ : forall n, inject_Z (Z.of_nat (S n)) == inject_Z (Z.of_nat n) + 1.
Proof. intro n. rewrite Nat2Z.inj_succ. unfold Z.succ. rewrite inject_Z_plus. reflexivity. Qed.
Lemma qnat_nonneg : forall n, 0 <= inject_Z (Z.of_nat n).
Proof. intro n. rewrite <- (Zle_Qle 0). lia. Qed.

(* |sum_k A_k sin(B_k x_k + C_k)| <= number of terms *)
Lemma rf_inner_bound : forall sinv ts xs, sin_ok sinv -> Forall term_ok ts ->
  cnormsq (rf_inner sinv ts xs) <= inject_Z (Z.of_nat (length ts)) * inject_Z (Z.of_nat (length ts)).
Proof.
  intros sinv ts. induction ts as [|t ts IH]; intros xs Hs Ht.
  - simpl rf_inner. rewrite cnormsq_c0. simpl length. change (inject_Z (Z.of_nat 0)) with 0. lra.
  - inversion Ht as [|? ? Ht1 Ht2]; subst. destruct xs as [|x xs].
    + simpl rf_inner. rewrite cnormsq_c0. pose proof (qnat_nonneg (length (t :: ts))). nra.
    + simpl rf_inner. rewrite cred_eq. simpl length. rewrite qnat_succ.
      setoid_replace (inject_Z (Z.of_nat (length ts)) + 1) with (1 + inject_Z (Z.of_nat (length ts))) by ring.
      apply cnormsq_add_bound; [lra | apply qnat_nonneg | | apply IH; assumption].
      rewrite cnormsq_scale. unfold term_ok in Ht1. pose proof (Hs (t_b t * x + t_c t)) as [S1 S2].
      pose proof (cnormsq_nonneg (t_a t)).
      assert (sinv (t_b t * x + t_c t) * sinv (t_b t * x + t_c t) <= 1) by nra. nra.
Qed.

Lemma csum_list_bound : forall (l : list C) b, 0 <= b -> Forall (fun z => cnormsq z <= b * b) l ->
  cnormsq (csum_list l) <= (inject_Z (Z.of_nat (length l)) * b) * (inject_Z (Z.of_nat (length l)) * b).
Proof.
  intros l b Hb. induction l as [|z l IH]; intro H.
  - simpl csum_list. rewrite cnormsq_c0. simpl length. change (inject_Z (Z.of_nat 0)) with 0. lra.
  - inversion H as [|? ? H1 H2]; subst. simpl csum_list. rewrite cred_eq. simpl length. rewrite qnat_succ.
    setoid_replace ((inject_Z (Z.of_nat (length l)) + 1) * b) with (b + inject_Z (Z.of_nat (length l)) * b) by ring.
    apply cnormsq_add_bound; [lra | | exact H1 | apply IH; exact H2].
    pose proof (qnat_nonneg (length l)). nra.
Qed.

(* the declared bound: |f_i(x) - center| <= amplitude, for every input_dim *)
Lemma rf_component_bound : forall sinv center amplitude (num_terms input_dim : nat) rows xs,
  sin_ok sinv -> 0 <= amplitude -> (0 < num_terms)%nat -> (0 < input_dim)%nat ->
  length rows = num_terms ->
  Forall (fun ts => length ts = input_dim /\ Forall term_ok ts) rows ->
  cnormsq (csub (rf_component sinv input_dim center amplitude (Z.of_nat num_terms) rows xs) center)
  <= amplitude * amplitude.
Proof.
  intros sinv center amplitude num_terms input_dim rows xs Hs Ha Hn Hi Hl Hr.
  unfold rf_component. cbv zeta.
  set (S := csum_list (map (fun ts => rf_inner sinv ts xs) rows)).
  set (N := inject_Z (Z.of_nat num_terms)). set (K := inject_Z (Z.of_nat input_dim)).
  assert (HN : 0 < N). { unfold N. rewrite <- (Zlt_Qlt 0). lia. }
  assert (HK : 0 < K). { unfold K. rewrite <- (Zlt_Qlt 0). lia. }
  assert (HNK : 0 < N * K) by nra.
  assert (HS : cnormsq S <= (N * K) * (N * K)).
  { unfold S, N. rewrite <- Hl. rewrite <- (map_length (fun ts => rf_inner sinv ts xs) rows).
    apply csum_list_bound; [lra|].
    apply Forall_forall. intros z Hz. apply in_map_iff in Hz. destruct Hz as (ts & E & Hin). subst z.
    rewrite Forall_forall in Hr. destruct (Hr ts Hin) as [L T]. unfold K. rewrite <- L.
    apply rf_inner_bound; assumption. }
  assert (E : ceq (csub (cadd (cscale (amplitude / (N * K)) S) center) center) (cscale (amplitude / (N * K)) S)).
  { generalize (cscale (amplitude / (N * K)) S). intro z. cdestruct. split; ring. }
  rewrite E, cnormsq_scale.
  assert (HA : 0 <= amplitude / (N * K)) by (apply div_nonneg; lra).
  assert (E2 : (amplitude / (N * K)) * (N * K) == amplitude) by (field; lra).
  set (a := amplitude / (N * K)) in *.
  assert (H1 : a * a * cnormsq S <= a * a * ((N * K) * (N * K))).
  { assert (H0 : 0 <= a * a) by nra. revert H0 HS. generalize (a * a) (cnormsq S) ((N * K) * (N * K)). intros; nra. }
  assert (H2 : a * a * ((N * K) * (N * K)) == amplitude * amplitude) by (rewrite <- E2; ring).
  lra.
Qed.

(* ---- arity, output dimension, realness ---- *)
Lemma rf_eval_arity : forall sinv input_dim center amplitude num_terms f xs,
  rf_eval sinv input_dim center amplitude num_terms f xs = None <-> length xs <> input_dim.
Proof.
  intros. unfold rf_eval. destruct (Nat.eqb (length xs) input_dim) eqn:E.
  - apply Nat.eqb_eq in E. split; [discriminate | congruence].
  - apply Nat.eqb_neq in E. split; auto.
Qed.

Lemma rf_eval_some : forall sinv input_dim center amplitude num_terms f xs ys,
  rf_eval sinv input_dim center amplitude num_terms f xs = Some ys ->
  length xs = input_dim /\ ys = map (fun rows => rf_component sinv input_dim center amplitude num_terms rows xs) f.
Proof.
  intros until ys. unfold rf_eval. destruct (Nat.eqb (length xs) input_dim) eqn:E; [|discriminate].
  apply Nat.eqb_eq in E. intro H. inversion H. auto.
Qed.

Lemma creal_add : forall a b, creal a -> creal b -> creal (cadd a b).
Proof. intros [x y] [z w]. unfold creal, cadd. simpl. intros. lra. Qed.
Lemma creal_scale : forall q a, creal a -> creal (cscale q a).
Proof. intros q [x y]. unfold creal, cscale. simpl. intros H. rewrite H. ring. Qed.
Lemma creal_c0 : creal c0.
Proof. reflexivity. Qed.

Lemma rf_inner_real : forall sinv ts xs, Forall (fun t => creal (t_a t)) ts -> creal (rf_inner sinv ts xs).
Proof.
  intros sinv ts. induction ts as [|t ts IH]; intros xs H; [apply creal_c0|].
  inversion H; subst. destruct xs; [apply creal_c0|]. simpl. apply creal_cred.
  apply creal_add; [apply creal_scale; assumption | apply IH; assumption].
Qed.

Lemma csum_list_real : forall l, Forall creal l -> creal (csum_list l).
Proof.
  induction l as [|z l IH]; intro H; [apply creal_c0|]. inversion H; subst. simpl. apply creal_cred.
  apply creal_add; auto.
Qed.

Lemma rf_component_real : forall sinv input_dim center amplitude num_terms rows xs, creal center ->
  Forall (Forall (fun t => creal (t_a t))) rows ->
  creal (rf_component sinv input_dim center amplitude num_terms rows xs).
Proof.
  intros. unfold rf_component. cbv zeta. apply creal_add; [|assumption]. apply creal_scale.
  apply csum_list_real. apply Forall_forall. intros z Hz. apply in_map_iff in Hz.
  destruct Hz as (ts & E & Hin). subst. apply rf_inner_real. rewrite Forall_forall in H0. auto.
Qed.

(* ---- the drawn coefficients ---- *)
Definition raw3_ok (raw : list (list (list rf_raw))) : Prop := Forall (Forall (Forall raw_ok)) raw.

Lemma rf_shape_ok_spec : forall (A : Type) o t i (raw : list (list (list A))),
  rf_shape_ok o t i raw = true <->
  length raw = o /\ Forall (fun rows => length rows = t /\ Forall (fun ts => length ts = i) rows) raw.
Proof.
  intros A o t i raw. unfold rf_shape_ok. rewrite andb_true_iff, Nat.eqb_eq, forallb_forall, Forall_forall.
  split; intros [H1 H2]; (split; [exact H1|]); intros rows Hin; specialize (H2 rows Hin).
  - rewrite andb_true_iff, Nat.eqb_eq, forallb_forall in H2. destruct H2 as [H2 H3]. split; [exact H2|].
    apply Forall_forall. intros ts Hts. apply Nat.eqb_eq. auto.
  - destruct H2 as [H2 H3]. rewrite andb_true_iff, Nat.eqb_eq, forallb_forall. split; [exact H2|].
    intros ts Hts. apply Nat.eqb_eq. rewrite Forall_forall in H3. auto.
Qed.

(* the whole statement for one drawn function and one evaluation point *)
Lemma rf_sample_sound : forall expi sinv cplx (input_dim output_dim num_terms : nat) center amplitude raw xs,
  expi_ok expi -> sin_ok sinv -> 0 <= amplitude -> (0 < num_terms)%nat -> (0 < input_dim)%nat ->
  rf_shape_ok output_dim num_terms input_dim raw = true -> raw3_ok raw ->
  let f := rf_draw expi cplx raw in
  (rf_eval sinv input_dim center amplitude (Z.of_nat num_terms) f xs = None <-> length xs <> input_dim) /\
  forall ys, rf_eval sinv input_dim center amplitude (Z.of_nat num_terms) f xs = Some ys ->
    length ys = output_dim /\
    Forall (fun y => cnormsq (csub y center) <= amplitude * amplitude) ys /\
    (cplx = false -> creal center -> Forall creal ys).
Proof.
  intros expi sinv cplx input_dim output_dim num_terms center amplitude raw xs He Hs Ha Hn Hi Hshape Hraw f.
  split; [apply rf_eval_arity|].
  intros ys Hys. apply rf_eval_some in Hys. destruct Hys as [Hlen ->].
  apply rf_shape_ok_spec in Hshape. destruct Hshape as [Ho Hrows].
  unfold f, rf_draw. rewrite !map_length. split; [exact Ho|]. split.
  - apply Forall_forall. intros y Hy. apply in_map_iff in Hy. destruct Hy as (rows' & <- & Hin).
    apply in_map_iff in Hin. destruct Hin as (rows & <- & Hin).
    rewrite Forall_forall in Hrows. destruct (Hrows rows Hin) as [Lt Li].
    unfold raw3_ok in Hraw. rewrite Forall_forall in Hraw. specialize (Hraw rows Hin).
    apply rf_component_bound; try assumption.
    + rewrite map_length. exact Lt.
    + apply Forall_forall. intros ts' Hts'. apply in_map_iff in Hts'. destruct Hts' as (ts & <- & Hts).
      rewrite Forall_forall in Li, Hraw. split; [rewrite map_length; auto|].
      apply Forall_forall. intros t Ht. apply in_map_iff in Ht. destruct Ht as (r & <- & Hr).
      unfold term_ok. specialize (Hraw ts Hts). rewrite Forall_forall in Hraw.
      apply (rf_coeff_bound expi cplx r He (Hraw r Hr)).
  - intros -> Hc. apply Forall_forall. intros y Hy. apply in_map_iff in Hy. destruct Hy as (rows' & <- & Hin).
    apply rf_component_real; [exact Hc|].
    apply in_map_iff in Hin. destruct Hin as (rows & <- & Hin).
    apply Forall_forall. intros ts' Hts'. apply in_map_iff in Hts'. destruct Hts' as (ts & <- & Hts).
    apply Forall_forall. intros t Ht. apply in_map_iff in Ht. destruct Ht as (r & <- & Hr). apply rf_coeff_real.
Qed.

(* regression: the draws that used to leave center +/- amplitude before the scaling was repaired
   (input_dim = 2, one term, amplitude 1, center 0, raw draws (A, B, C) = (0.5, 0.5, 0.25) twice, the only oracle
   answer consulted being np.sin(np.pi/2) = 1.0) now give f(x1, x2) = 3/4 *)
Definition rf_witness_sin (t : Q) : Q := if Qeq_bool t (pi_f / 2) then 1 else 0.
Definition rf_witness_raw : list (list (list rf_raw)) :=
  [[[mkRaw (1#2) 0 (1#2) (1#4); mkRaw (1#2) 0 (1#2) (1#4)]]].

Lemma rf_witness_sin_ok : sin_ok rf_witness_sin.
Proof. intro t. unfold rf_witness_sin. destruct (Qeq_bool t (pi_f / 2)); split; lra. Qed.

Lemma rf_witness_raw_ok : raw3_ok rf_witness_raw.
Proof.
  unfold raw3_ok, rf_witness_raw. repeat constructor; simpl; lra.
Qed.

Lemma rf_former_witness :
  sin_ok rf_witness_sin /\ raw3_ok rf_witness_raw /\ rf_shape_ok 1 1 2 rf_witness_raw = true /\
  match rf_eval rf_witness_sin 2 c0 1 1 (rf_draw (fun _ => c1) false rf_witness_raw) [3; -7] with
  | Some [y] => ceq y (3 # 4, 0)
  | _ => False
  end.
Proof.
  split; [exact rf_witness_sin_ok|]. split; [exact rf_witness_raw_ok|]. split; [reflexivity|].
  vm_compute. split; reflexivity.
Qed.
