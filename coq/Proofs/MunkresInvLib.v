(* Proofs/MunkresInvLib.v -- list / matrix helper lemmas for the Munkres model (upd, upd2, get2, mapi, mapij,
   index_of, cyc) and the Z-instantiated state accessors used by the invariant proofs. *)
From Coq Require Import ZArith List Bool Arith Lia Permutation.
From Verif.Model Require Import Munkres.
Import ListNotations.

(* ---------- square shape ---------- *)
Definition sq {A} (n : nat) (m : list (list A)) : Prop :=
  length m = n /\ Forall (fun row => length row = n) m.

Lemma sq_row_len : forall {A} n (m : list (list A)) i, sq n m -> i < n -> length (nth i m []) = n.
Proof.
  intros A n m i [L F] Hi. rewrite Forall_forall in F. apply F. apply nth_In. lia.
Qed.

(* ---------- upd ---------- *)
Lemma upd_length : forall {A} (l : list A) i v, length (upd l i v) = length l.
Proof. induction l as [|x l IH]; intros [|i] v; simpl; auto. Qed.

Lemma nth_upd_same : forall {A} (l : list A) i v d, i < length l -> nth i (upd l i v) d = v.
Proof.
  induction l as [|x l IH]; intros [|i] v d H; simpl in *; try lia; auto. apply IH. lia.
Qed.

Lemma nth_upd_other : forall {A} (l : list A) i k v d, k <> i -> nth k (upd l i v) d = nth k l d.
Proof.
  induction l as [|x l IH]; intros [|i] [|k] v d H; simpl in *; try lia; auto.
Qed.

Lemma upd_ge : forall {A} (l : list A) i v, length l <= i -> upd l i v = l.
Proof.
  induction l as [|x l IH]; intros [|i] v H; simpl in *; try lia; auto. f_equal. apply IH. lia.
Qed.

Lemma nth_upd : forall {A} (l : list A) i k v d,
  nth k (upd l i v) d = if (Nat.eqb k i && Nat.ltb i (length l))%bool then v else nth k l d.
Proof.
  intros. destruct (Nat.eqb_spec k i) as [->|N]; simpl.
  - destruct (Nat.ltb_spec i (length l)).
    + apply nth_upd_same; assumption.
    + rewrite upd_ge by lia. reflexivity.
  - apply nth_upd_other; assumption.
Qed.

(* ---------- get2 / upd2 ---------- *)
Lemma upd2_length : forall {A} (m : list (list A)) i j v, length (upd2 m i j v) = length m.
Proof. intros. unfold upd2. apply upd_length. Qed.

Lemma Forall_upd : forall {A} (P : A -> Prop) l i v, Forall P l -> P v -> Forall P (upd l i v).
Proof.
  induction l as [|x l IH]; intros [|i] v F Pv; simpl; auto; inversion F; subst; constructor; auto.
Qed.

Lemma sq_upd2 : forall {A} n (m : list (list A)) i j v, sq n m -> sq n (upd2 m i j v).
Proof.
  intros A n m i j v [L F]. split.
  - rewrite upd2_length; exact L.
  - unfold upd2. destruct (Nat.lt_ge_cases i (length m)) as [Hi|Hi].
    + apply Forall_upd; [exact F|]. rewrite upd_length. rewrite Forall_forall in F. apply F. apply nth_In. exact Hi.
    + rewrite upd_ge by lia. exact F.
Qed.

Lemma get2_upd2_same : forall {A} n (m : list (list A)) i j v d, sq n m -> i < n -> j < n ->
  get2 d (upd2 m i j v) i j = v.
Proof.
  intros A n m i j v d S Hi Hj. unfold get2, upd2. destruct S as [L F].
  rewrite nth_upd_same by lia. apply nth_upd_same.
  rewrite Forall_forall in F. rewrite F; [exact Hj | apply nth_In; lia].
Qed.

Lemma get2_upd2_other : forall {A} (m : list (list A)) i j i' j' v d, (i', j') <> (i, j) ->
  get2 d (upd2 m i j v) i' j' = get2 d m i' j'.
Proof.
  intros A m i j i' j' v d N. unfold get2, upd2.
  destruct (Nat.eq_dec i' i) as [->|Ni].
  - destruct (Nat.lt_ge_cases i (length m)) as [Hi|Hi].
    + rewrite nth_upd_same by exact Hi. apply nth_upd_other. intro; subst; apply N; reflexivity.
    + rewrite upd_ge by lia. reflexivity.
  - rewrite nth_upd_other by exact Ni. reflexivity.
Qed.

Lemma get2_range : forall {A} n (m : list (list A)) i j d, sq n m -> get2 d m i j <> d -> i < n /\ j < n.
Proof.
  intros A n m i j d [L F] H. unfold get2 in H.
  destruct (Nat.lt_ge_cases i n) as [Hi|Hi].
  - split; [exact Hi|]. destruct (Nat.lt_ge_cases j n) as [Hj|Hj]; [exact Hj|].
    exfalso. apply H. apply nth_overflow. rewrite Forall_forall in F. rewrite F; [lia | apply nth_In; lia].
  - exfalso. apply H. rewrite (nth_overflow m) by lia. destruct j; reflexivity.
Qed.

(* ---------- mapi / mapij ---------- *)
Lemma mapi_from_length : forall {A B} (f : nat -> A -> B) l k, length (mapi_from f k l) = length l.
Proof. induction l as [|x l IH]; intro k; simpl; auto. Qed.

Lemma mapi_length : forall {A B} (f : nat -> A -> B) l, length (mapi f l) = length l.
Proof. intros. apply mapi_from_length. Qed.

Lemma nth_mapi_from : forall {A B} (f : nat -> A -> B) l k i d d', i < length l ->
  nth i (mapi_from f k l) d' = f (k + i) (nth i l d).
Proof.
  induction l as [|x l IH]; intros k i d d' H; simpl in *; [lia|].
  destruct i as [|i]; [f_equal; lia|]. rewrite (IH (S k) i d d') by lia. f_equal. lia.
Qed.

Lemma nth_mapi : forall {A B} (f : nat -> A -> B) l i d d', i < length l ->
  nth i (mapi f l) d' = f i (nth i l d).
Proof. intros. unfold mapi. rewrite (nth_mapi_from f l 0 i d d') by assumption. reflexivity. Qed.

Lemma Forall_mapi_from : forall {A B} (P : B -> Prop) (f : nat -> A -> B) l k,
  (forall i x, In x l -> P (f i x)) -> Forall P (mapi_from f k l).
Proof.
  induction l as [|x l IH]; intros k H; simpl; constructor.
  - apply H. left; reflexivity.
  - apply IH. intros; apply H; right; assumption.
Qed.

Lemma sq_mapij : forall {A B} n (f : nat -> nat -> A -> B) m, sq n m -> sq n (mapij f m).
Proof.
  intros A B n f m [L F]. split.
  - unfold mapij. rewrite mapi_length. exact L.
  - unfold mapij, mapi. apply Forall_mapi_from. intros i x Hx. rewrite mapi_from_length.
    rewrite Forall_forall in F. apply F. exact Hx.
Qed.

Lemma get2_mapij : forall {A B} n (f : nat -> nat -> A -> B) m i j d d', sq n m -> i < n -> j < n ->
  get2 d' (mapij f m) i j = f i j (get2 d m i j).
Proof.
  intros A B n f m i j d d' S Hi Hj. unfold get2, mapij.
  rewrite (nth_mapi _ m i [] []) by (destruct S; lia).
  apply nth_mapi. rewrite (sq_row_len n m i S Hi). exact Hj.
Qed.

(* ---------- map (map f) ---------- *)
Lemma get2_mapmap : forall {A} (f : A -> A) m i j d, f d = d ->
  get2 d (map (map f) m) i j = f (get2 d m i j).
Proof.
  intros A f m i j d Hd. unfold get2.
  change (@nil A) with (map f []) at 1. rewrite map_nth.
  rewrite <- Hd at 1. apply map_nth.
Qed.

Lemma sq_mapmap : forall {A B} n (f : A -> B) m, sq n m -> sq n (map (map f) m).
Proof.
  intros A B n f m [L F]. split; [rewrite map_length; exact L|].
  rewrite Forall_forall in *. intros row Hr. apply in_map_iff in Hr. destruct Hr as [r0 [<- Hr0]].
  rewrite map_length. apply F. exact Hr0.
Qed.

(* ---------- repeat / clear ---------- *)
Lemma get2_repeat : forall {A} (d : A) n i j, get2 d (repeat (repeat d n) n) i j = d.
Proof.
  intros. unfold get2.
  destruct (Nat.lt_ge_cases i n) as [Hi|Hi].
  - replace (nth i (repeat (repeat d n) n) []) with (repeat d n).
    + apply nth_repeat.
    + symmetry. apply nth_error_nth. rewrite nth_error_repeat; [reflexivity | exact Hi].
  - rewrite (nth_overflow (repeat _ _)) by (rewrite repeat_length; lia). destruct j; reflexivity.
Qed.

Lemma sq_repeat : forall {A} (d : A) n, sq n (repeat (repeat d n) n).
Proof.
  intros. split; [apply repeat_length|]. rewrite Forall_forall. intros row H.
  apply repeat_spec in H. subst. apply repeat_length.
Qed.

Lemma nth_repeat_false : forall n i, nth i (repeat false n) false = false.
Proof. intros. apply nth_repeat. Qed.

Lemma clear_length : forall l, length (clear l) = length l.
Proof. intros. unfold clear. apply map_length. Qed.

Lemma nth_clear : forall l i, nth i (clear l) false = false.
Proof.
  induction l as [|x l IH]; intros [|i]; simpl; auto.
Qed.

(* ---------- index_of ---------- *)
Lemma index_of_some : forall v l k j, index_of v l k = Some j ->
  k <= j /\ j - k < length l /\ nth (j - k) l 0 = v /\ forall j', j' < j - k -> nth j' l 0 <> v.
Proof.
  induction l as [|x l IH]; intros k j H; simpl in H; [discriminate|].
  destruct (Nat.eqb_spec x v) as [E|N].
  - inversion H; subst. rewrite Nat.sub_diag. simpl. repeat split; try lia.
  - apply IH in H. destruct H as [H1 [H2 [H3 H4]]].
    replace (j - k) with (S (j - S k)) by lia. simpl. repeat split; try lia; auto.
    intros [|j'] Hj'; [exact N|]. apply H4. lia.
Qed.

Lemma index_of_none : forall v l k, index_of v l k = None -> forall j, j < length l -> nth j l 0 <> v.
Proof.
  induction l as [|x l IH]; intros k H j Hj; simpl in *; [lia|].
  destruct (Nat.eqb_spec x v) as [E|N]; [discriminate|].
  destruct j as [|j]; [exact N|]. apply (IH (S k) H). lia.
Qed.

Lemma index_of_none_inv : forall v l k, (forall j, j < length l -> nth j l 0 <> v) -> index_of v l k = None.
Proof.
  induction l as [|x l IH]; intros k H; simpl; [reflexivity|].
  destruct (Nat.eqb_spec x v) as [E|N].
  - exfalso. apply (H 0); simpl; [lia | exact E].
  - apply IH. intros j Hj. apply (H (S j)). simpl; lia.
Qed.

Lemma index_of_exists : forall v l k j, j < length l -> nth j l 0 = v -> exists j', index_of v l k = Some j'.
Proof.
  intros v l k j Hj E. destruct (index_of v l k) eqn:I; [eauto|].
  exfalso. exact (index_of_none v l k I j Hj E).
Qed.

Lemma find_in_row_some : forall n v mk i j, sq n mk -> v <> 0 -> find_in_row v mk i = Some j ->
  i < n /\ j < n /\ get2 0 mk i j = v /\ forall j', j' < j -> get2 0 mk i j' <> v.
Proof.
  intros n v mk i j S Hv H. unfold find_in_row in H. apply index_of_some in H.
  rewrite Nat.sub_0_r in H. destruct H as [_ [H2 [H3 H4]]].
  assert (R : get2 0 mk i j <> 0) by (unfold get2; rewrite H3; exact Hv).
  destruct (get2_range n mk i j 0 S R) as [Hi Hj].
  repeat split; auto.
Qed.

Lemma find_in_row_none : forall n v mk i j, sq n mk -> i < n -> j < n -> find_in_row v mk i = None ->
  get2 0 mk i j <> v.
Proof.
  intros n v mk i j S Hi Hj H. unfold find_in_row in H. unfold get2.
  apply (index_of_none v _ 0 H). rewrite (sq_row_len n mk i S Hi). exact Hj.
Qed.

Lemma find_in_row_exists : forall n v mk i j, sq n mk -> i < n -> j < n -> get2 0 mk i j = v ->
  exists j', find_in_row v mk i = Some j'.
Proof.
  intros n v mk i j S Hi Hj E. unfold find_in_row. apply (index_of_exists v _ 0 j); [|exact E].
  rewrite (sq_row_len n mk i S Hi). exact Hj.
Qed.

Lemma nth_col : forall (mk : list (list nat)) i j, nth i (map (fun row => nth j row 0) mk) 0 = get2 0 mk i j.
Proof.
  intros. unfold get2.
  destruct (Nat.lt_ge_cases i (length mk)) as [Hi|Hi].
  - pose (f := fun row : list nat => nth j row 0).
    change (nth i (map f mk) 0 = f (nth i mk [])).
    rewrite (nth_indep _ 0 (f [])) by (rewrite map_length; exact Hi).
    apply map_nth.
  - rewrite nth_overflow by (rewrite map_length; lia). rewrite (nth_overflow mk) by lia. destruct j; reflexivity.
Qed.

Lemma find_in_col_some : forall n v mk i j, sq n mk -> v <> 0 -> find_in_col v mk j = Some i ->
  i < n /\ j < n /\ get2 0 mk i j = v /\ forall i', i' < i -> get2 0 mk i' j <> v.
Proof.
  intros n v mk i j S Hv H. unfold find_in_col in H. apply index_of_some in H.
  rewrite Nat.sub_0_r in H. destruct H as [_ [H2 [H3 H4]]].
  rewrite nth_col in H3.
  assert (R : get2 0 mk i j <> 0) by (rewrite H3; exact Hv).
  destruct (get2_range n mk i j 0 S R) as [Hi Hj].
  repeat split; auto. intros i' Hi'. rewrite <- nth_col. apply H4. exact Hi'.
Qed.

Lemma find_in_col_none : forall n v mk i j, sq n mk -> i < n -> find_in_col v mk j = None ->
  get2 0 mk i j <> v.
Proof.
  intros n v mk i j S Hi H. unfold find_in_col in H. rewrite <- nth_col.
  apply (index_of_none v _ 0 H). rewrite map_length. destruct S; lia.
Qed.

Lemma find_in_col_exists : forall n v mk i j, sq n mk -> i < n -> get2 0 mk i j = v ->
  exists i', find_in_col v mk j = Some i'.
Proof.
  intros n v mk i j S Hi E. unfold find_in_col. apply (index_of_exists v _ 0 i).
  - rewrite map_length. destruct S; lia.
  - rewrite nth_col. exact E.
Qed.

(* ---------- col_has ---------- *)
Lemma col_has_true : forall n v mk j, sq n mk -> v <> 0 ->
  (col_has v mk j = true <-> exists i, i < n /\ get2 0 mk i j = v).
Proof.
  intros n v mk j S Hv. unfold col_has. rewrite existsb_exists. split.
  - intros [row [Hin E]]. apply Nat.eqb_eq in E. apply (In_nth _ _ []) in Hin.
    destruct Hin as [i [Hi Hr]]. exists i. split; [destruct S; lia|]. unfold get2. rewrite Hr. exact E.
  - intros [i [Hi E]]. exists (nth i mk []). split.
    + apply nth_In. destruct S; lia.
    + apply Nat.eqb_eq. exact E.
Qed.

(* ---------- cyc ---------- *)
Lemma cyc_lt : forall n start i, In i (cyc n start) -> i < n.
Proof.
  intros n start i H. unfold cyc in H. apply in_map_iff in H. destruct H as [k [<- Hk]].
  apply in_seq in Hk. apply Nat.mod_upper_bound. lia.
Qed.

Lemma cyc_all : forall n start i, i < n -> In i (cyc n start).
Proof.
  intros n start i Hi. unfold cyc. apply in_map_iff.
  exists ((i + n - start mod n) mod n). split.
  - assert (Hn : n <> 0) by lia.
    pose proof (Nat.mod_upper_bound start n Hn) as Hs.
    rewrite Nat.add_mod_idemp_r by exact Hn.
    rewrite (Nat.div_mod start n Hn) at 1.
    replace (n * (start / n) + start mod n + (i + n - start mod n)) with (i + (S (start / n)) * n) by nia.
    rewrite Nat.mod_add by exact Hn. apply Nat.mod_small. exact Hi.
  - apply in_seq. split; [lia|]. simpl. apply Nat.mod_upper_bound. lia.
Qed.

(* ---------- Z-instantiated accessors ---------- *)
Arguments sC {K} _.
Arguments sM {K} _.
Arguments sRC {K} _.
Arguments sCC {K} _.
Arguments sZ0 {K} _.
Arguments mkState {K} _ _ _ _ _.
Definition st := state Z.
Definition gC (s : st) (i j : nat) : Z := get2 0%Z (sC s) i j.
Definition gM (s : st) (i j : nat) : nat := get2 0 (sM s) i j.
Definition rcov (s : st) (i : nat) : bool := nth i (sRC s) false.
Definition ccov (s : st) (j : nat) : bool := nth j (sCC s) false.

Definition wf (n : nat) (s : st) : Prop :=
  sq n (sC s) /\ sq n (sM s) /\ length (sRC s) = n /\ length (sCC s) = n.

Lemma gM_range : forall n s i j, wf n s -> gM s i j <> 0 -> i < n /\ j < n.
Proof. intros n s i j [_ [S _]] H. exact (get2_range n (sM s) i j 0 S H). Qed.
