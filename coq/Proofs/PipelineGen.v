(* Proofs/PipelineGen.v -- C01, tie (A): every constant result literal found in /repo on THIS run is self-consistent
   (grade in [0,1], ok = the regenerated grade_decimal_to_ok of the grade).  Decided by computation on Gen/PipelineLits.v. *)
From Coq Require Import ZArith QArith Lqa List Bool.
From Verif.Lib Require Import QRound.
From Verif.Model Require Import Result Credit Pipeline.
From Verif.Gen Require PipelineLits.
From Verif.Bridge Require Import Pipeline.
From Verif.Proofs Require Import Credit Pipeline.
Import ListNotations.
Open Scope Q_scope.
Import Gen.PipelineLits.

Definition lit_ok (l : lit) : Prop :=
  match l with
  | LConst o g => 0 <= g <= 1 /\ o = gen_grade_to_ok g
  | LCopy | LInferred => True
  end.

Definition lit_okb (l : lit) : bool :=
  match l with
  | LConst o g => Qle_bool 0 g && Qle_bool g 1 && okv_eqb o (gen_grade_to_ok g)
  | LCopy | LInferred => true
  end.

Lemma okv_eqb_eq : forall a b, okv_eqb a b = true -> a = b.
Proof. intros [] []; simpl; intro H; try discriminate; reflexivity. Qed.

Lemma lit_okb_sound : forall l, lit_okb l = true -> lit_ok l.
Proof.
  intros [o g| |] H; simpl in *; try exact I.
  apply andb_true_iff in H. destruct H as [H H3]. apply andb_true_iff in H. destruct H as [H1 H2].
  qbool. split; [split; assumption | apply okv_eqb_eq; exact H3].
Qed.

Lemma forallb_lit_ok : forall l, forallb lit_okb l = true -> Forall lit_ok l.
Proof.
  induction l as [|x l IH]; intro H; simpl in H; constructor.
  - apply lit_okb_sound. apply andb_true_iff in H. apply H.
  - apply IH. apply andb_true_iff in H. apply H.
Qed.

Lemma gen_literals_consistent : Forall lit_ok gen_all_literals.
Proof. apply forallb_lit_ok. vm_compute. reflexivity. Qed.

(* a consistent constant literal is a well-formed entry of the model (any message) *)
Lemma lit_ok_wf : forall S o g m, lit_ok (LConst o g) -> wf_entry S (mkEntry o g m).
Proof.
  intros S o g m [Hg Ho]. split; [exact Hg | left]. simpl. rewrite Ho. apply grade_to_ok_bridge.
Qed.
