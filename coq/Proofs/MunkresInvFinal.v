(* Proofs/MunkresInvFinal.v -- solver-independent combinatorics for the final assembly:
   pair-list weak duality, read_result, completion of a partial matching to a perfect one, zero padding. *)
From Coq Require Import ZArith List Bool Arith Lia Permutation Sorted.
From Verif.Model Require Import Munkres.
From Verif.Proofs Require Import MunkresDuality MunkresSpec MunkresInvLib.
Import ListNotations.
Local Open Scope nat_scope.

(* ---------- generic list facts ---------- *)
Lemma NoDup_app_intro : forall {A} (a b : list A), NoDup a -> NoDup b -> (forall x, In x a -> ~ In x b) -> NoDup (a ++ b).
Proof.
  induction a as [|x a IH]; intros b Na Nb D; simpl; [exact Nb|].
  inversion Na as [|? ? Nx Na']; subst. constructor.
  - intro H. apply in_app_or in H. destruct H as [H|H]; [exact (Nx H) | exact (D x (or_introl eq_refl) H)].
  - apply IH; auto. intros y Hy. apply D. right; exact Hy.
Qed.

Lemma map_fst_combine : forall {A B} (a : list A) (b : list B), length a = length b -> map fst (combine a b) = a.
Proof. induction a as [|x a IH]; intros [|y b] H; simpl in *; try discriminate; auto. f_equal. apply IH. lia. Qed.

Lemma map_snd_combine : forall {A B} (a : list A) (b : list B), length a = length b -> map snd (combine a b) = b.
Proof. induction a as [|x a IH]; intros [|y b] H; simpl in *; try discriminate; auto. f_equal. apply IH. lia. Qed.

Lemma SSorted_lt_NoDup : forall l, StronglySorted lt l -> NoDup l.
Proof.
  induction 1 as [|a l S IH F]; constructor; auto.
  intro H. rewrite Forall_forall in F. specialize (F a H). lia.
Qed.

Lemma NoDup_snd_of_fst : forall (l : list (nat * nat)), NoDup (map fst l) ->
  (forall p q, In p l -> In q l -> snd p = snd q -> fst p = fst q) -> NoDup (map snd l).
Proof.
  induction l as [|p l IH]; intros N H; simpl; [constructor|].
  simpl in N. inversion N as [|? ? Np N']; subst. constructor.
  - intro Hin. apply in_map_iff in Hin. destruct Hin as [q [E Hq]].
    apply Np. apply in_map_iff. exists q. split; [|exact Hq].
    symmetry. apply H; [left; reflexivity | right; exact Hq | symmetry; exact E].
  - apply IH; [exact N'|]. intros a b Ha Hb. apply H; right; assumption.
Qed.

Definition memb (x : nat) (l : list nat) : bool := existsb (Nat.eqb x) l.
Lemma memb_true : forall x l, memb x l = true <-> In x l.
Proof.
  intros. unfold memb. rewrite existsb_exists. split.
  - intros [y [H E]]. apply Nat.eqb_eq in E. subst. exact H.
  - intro H. exists x. split; [exact H | apply Nat.eqb_refl].
Qed.

Definition compl (n : nat) (l : list nat) : list nat := filter (fun x => negb (memb x l)) (seq 0 n).

Lemma in_compl : forall n l x, In x (compl n l) <-> x < n /\ ~ In x l.
Proof.
  intros. unfold compl. rewrite filter_In, in_seq, negb_true_iff. rewrite <- memb_true.
  destruct (memb x l); split; intros [A B]; split; try lia; auto; try congruence.
Qed.

Lemma compl_perm : forall n l, NoDup l -> (forall x, In x l -> x < n) -> Permutation (l ++ compl n l) (seq 0 n).
Proof.
  intros n l N R. apply NoDup_Permutation.
  - apply NoDup_app_intro; [exact N | apply NoDup_filter; apply seq_NoDup|].
    intros x Hx Hc. apply in_compl in Hc. tauto.
  - apply seq_NoDup.
  - intro x. rewrite in_app_iff, in_compl, in_seq. split.
    + intros [H|[H _]]; [specialize (R x H)|]; lia.
    + intros [_ H]. destruct (in_dec Nat.eq_dec x l); [left; assumption | right; split; [lia | assumption]].
Qed.

Lemma compl_length : forall n l, NoDup l -> (forall x, In x l -> x < n) -> length (compl n l) = n - length l.
Proof.
  intros n l N R. pose proof (Permutation_length (compl_perm n l N R)) as H.
  rewrite app_length, seq_length in H. lia.
Qed.

Lemma lsum_zero : forall {A} (f : A -> Z) l, (forall x, In x l -> f x = 0%Z) -> lsum (map f l) = 0%Z.
Proof.
  induction l as [|x l IH]; intro H; simpl; [reflexivity|].
  rewrite (H x (or_introl eq_refl)). rewrite IH; [reflexivity | intros; apply H; right; assumption].
Qed.

Lemma lsum_filter_split : forall {A} (f : A -> Z) (p : A -> bool) l,
  lsum (map f l) = (lsum (map f (filter p l)) + lsum (map f (filter (fun x => negb (p x)) l)))%Z.
Proof.
  induction l as [|x l IH]; simpl; [reflexivity|]. destruct (p x); simpl; lia.
Qed.

(* ---------- weak duality on pair lists ---------- *)
Definition pcost (M : nat -> nat -> Z) (l : list (nat * nat)) : Z := lsum (map (fun p => M (fst p) (snd p)) l).

Lemma pcost_decomp : forall n (M C : nat -> nat -> Z) (u v : nat -> Z) l,
  (forall i j, i < n -> j < n -> M i j = (C i j + u i + v j)%Z) ->
  Permutation (map fst l) (seq 0 n) -> Permutation (map snd l) (seq 0 n) ->
  pcost M l = (pcost C l + lsum (map u (seq 0 n)) + lsum (map v (seq 0 n)))%Z.
Proof.
  intros n M C u v l HM P1 P2. unfold pcost.
  rewrite <- (lsum_perm _ _ (Permutation_map u P1)), <- (lsum_perm _ _ (Permutation_map v P2)).
  rewrite !map_map. rewrite <- !lsum_map_add. apply lsum_map_ext. intros [i j] Hin. simpl.
  apply HM.
  - assert (In i (seq 0 n)) by (eapply Permutation_in; [exact P1 | apply in_map_iff; exists (i, j); auto]).
    apply in_seq in H. lia.
  - assert (In j (seq 0 n)) by (eapply Permutation_in; [exact P2 | apply in_map_iff; exists (i, j); auto]).
    apply in_seq in H. lia.
Qed.

Theorem weak_duality_pairs : forall n (M C : nat -> nat -> Z) (u v : nat -> Z) (star tau : list (nat * nat)),
  (forall i j, i < n -> j < n -> M i j = (C i j + u i + v j)%Z) ->
  (forall i j, i < n -> j < n -> (0 <= C i j)%Z) ->
  Permutation (map fst star) (seq 0 n) -> Permutation (map snd star) (seq 0 n) ->
  Permutation (map fst tau) (seq 0 n) -> Permutation (map snd tau) (seq 0 n) ->
  (forall p, In p star -> C (fst p) (snd p) = 0%Z) ->
  (pcost M star <= pcost M tau)%Z.
Proof.
  intros n M C u v star tau HM HC S1 S2 T1 T2 HZ.
  rewrite (pcost_decomp n M C u v star HM S1 S2), (pcost_decomp n M C u v tau HM T1 T2).
  assert (Z0 : pcost C star = 0%Z) by (unfold pcost; apply lsum_zero; exact HZ).
  assert (P0 : (0 <= pcost C tau)%Z).
  { unfold pcost. replace 0%Z with (lsum (map (fun _ : nat * nat => 0%Z) tau)) by (apply lsum_zero; reflexivity).
    apply lsum_map_le. intros [i j] Hin. simpl. apply HC.
    - assert (In i (seq 0 n)) by (eapply Permutation_in; [exact T1 | apply in_map_iff; exists (i, j); auto]).
      apply in_seq in H. lia.
    - assert (In j (seq 0 n)) by (eapply Permutation_in; [exact T2 | apply in_map_iff; exists (i, j); auto]).
      apply in_seq in H. lia. }
  lia.
Qed.

(* ---------- read_result ---------- *)
Definition rr_inner (c : nat) (mk : marks) (i : nat) : list (nat * nat) :=
  flat_map (fun j => if Nat.eqb (get2 0 mk i j) 1 then [(i, j)] else []) (seq 0 c).

Lemma read_result_eq : forall r c mk, read_result r c mk = flat_map (rr_inner c mk) (seq 0 r).
Proof. reflexivity. Qed.

Lemma in_rr_inner : forall c mk i p, In p (rr_inner c mk i) <-> fst p = i /\ snd p < c /\ get2 0 mk i (snd p) = 1.
Proof.
  intros c mk i [a b]. unfold rr_inner. rewrite in_flat_map. simpl. split.
  - intros [j [Hj H]]. apply in_seq in Hj. destruct (Nat.eqb_spec (get2 0 mk i j) 1) as [E|N]; [|destruct H].
    destruct H as [H|[]]. inversion H; subst. repeat split; auto; lia.
  - intros [-> [Hb E]]. exists b. split; [apply in_seq; lia|]. rewrite E. simpl. left; reflexivity.
Qed.

Lemma in_read_result : forall r c mk i j, In (i, j) (read_result r c mk) <-> i < r /\ j < c /\ get2 0 mk i j = 1.
Proof.
  intros. rewrite read_result_eq, in_flat_map. split.
  - intros [i' [Hi' H]]. apply in_seq in Hi'. apply in_rr_inner in H. simpl in H. destruct H as [<- [H1 H2]].
    repeat split; auto; lia.
  - intros [Hi [Hj E]]. exists i. split; [apply in_seq; lia|]. apply in_rr_inner. simpl. auto.
Qed.

Lemma flat_map_if_nil : forall {A} (p : nat -> bool) (f : nat -> A) l, (forall b, In b l -> p b = false) ->
  flat_map (fun j => if p j then [f j] else []) l = [].
Proof.
  induction l as [|a l IH]; intro H; simpl; [reflexivity|].
  rewrite (H a (or_introl eq_refl)). simpl. apply IH. intros; apply H; right; assumption.
Qed.

Lemma flat_map_if_le1 : forall {A} (p : nat -> bool) (f : nat -> A) l, NoDup l ->
  (forall a b, In a l -> In b l -> p a = true -> p b = true -> a = b) ->
  length (flat_map (fun j => if p j then [f j] else []) l) <= 1.
Proof.
  induction l as [|a l IH]; intros N U; simpl; [lia|].
  inversion N as [|? ? Na N']; subst.
  destruct (p a) eqn:Pa; simpl.
  - rewrite flat_map_if_nil; [simpl; lia|]. intros b Hb. destruct (p b) eqn:Pb; [|reflexivity].
    exfalso. apply Na. rewrite (U a b); auto; [left; reflexivity | right; exact Hb].
  - apply IH; [exact N'|]. intros x y Hx Hy. apply U; right; assumption.
Qed.

Section ReadResult.
  Variable mk : marks.
  Hypothesis Hrow : forall i j j', get2 0 mk i j = 1 -> get2 0 mk i j' = 1 -> j = j'.
  Hypothesis Hcol : forall i i' j, get2 0 mk i j = 1 -> get2 0 mk i' j = 1 -> i = i'.

  Lemma rr_inner_le1 : forall c i, length (rr_inner c mk i) <= 1.
  Proof.
    intros c i. unfold rr_inner. apply (flat_map_if_le1 (fun j => Nat.eqb (get2 0 mk i j) 1) (fun j => (i, j))).
    - apply seq_NoDup.
    - intros a b _ _ Ha Hb. apply Nat.eqb_eq in Ha, Hb. exact (Hrow i a b Ha Hb).
  Qed.

  Lemma rr_sorted_from : forall c k a,
    StronglySorted lt (map fst (flat_map (rr_inner c mk) (seq a k)))
    /\ Forall (le a) (map fst (flat_map (rr_inner c mk) (seq a k))).
  Proof.
    induction k as [|k IH]; intro a; simpl; [split; constructor|].
    destruct (IH (S a)) as [SS F]. rewrite map_app.
    assert (F' : Forall (le a) (map fst (flat_map (rr_inner c mk) (seq (S a) k)))).
    { eapply Forall_impl; [|exact F]. intros; simpl in *; lia. }
    pose proof (rr_inner_le1 c a) as L.
    destruct (rr_inner c mk a) as [|p [|q t]] eqn:E; simpl in L; try lia; simpl.
    - split; assumption.
    - assert (Hp : fst p = a) by (apply (in_rr_inner c mk a p); rewrite E; left; reflexivity).
      rewrite Hp. split.
      + constructor; [exact SS|]. eapply Forall_impl; [|exact F]. intros; simpl in *; lia.
      + constructor; [lia | exact F'].
  Qed.

  Lemma rr_sorted : forall r c, StronglySorted lt (map fst (read_result r c mk)).
  Proof. intros. rewrite read_result_eq. apply rr_sorted_from. Qed.

  Lemma rr_nodup_fst : forall r c, NoDup (map fst (read_result r c mk)).
  Proof. intros. apply SSorted_lt_NoDup. apply rr_sorted. Qed.

  Lemma rr_nodup_snd : forall r c, NoDup (map snd (read_result r c mk)).
  Proof.
    intros. apply NoDup_snd_of_fst; [apply rr_nodup_fst|].
    intros [i j] [i' j'] H1 H2 E. simpl in *. subst j'.
    apply in_read_result in H1, H2. apply (Hcol i i' j); tauto.
  Qed.

  Lemma rr_matching : forall r c, is_matching r c (read_result r c mk).
  Proof.
    intros. split; [apply rr_nodup_fst|]. split; [apply rr_nodup_snd|].
    rewrite Forall_forall. intros [i j] H. apply in_read_result in H. simpl. tauto.
  Qed.
End ReadResult.

Lemma map_fst_flat_single : forall (f : nat -> list (nat * nat)) l,
  (forall i, In i l -> exists p, f i = [p] /\ fst p = i) -> map fst (flat_map f l) = l.
Proof.
  induction l as [|a l IH]; intro H; simpl; [reflexivity|].
  destruct (H a (or_introl eq_refl)) as [p [E Hp]]. rewrite E. simpl. rewrite Hp. f_equal.
  apply IH. intros; apply H; right; assumption.
Qed.

(* ---------- padding ---------- *)
Lemma width_fold : forall (c : nat) (M : list (list Z)) w, Forall (fun row => length row = c) M ->
  fold_left (fun w row => Nat.max w (length row)) M w = match M with [] => w | _ => Nat.max w c end.
Proof.
  induction M as [|row M IH]; intros w F; simpl; [reflexivity|].
  inversion F as [|? ? Hr F']; subst. rewrite IH by exact F'. destruct M; [reflexivity | lia].
Qed.

Lemma pad_n_rect : forall r c (M : list (list Z)), 1 <= r -> rect r c M -> pad_n Z M = Nat.max c r.
Proof.
  intros r c M Hr [L F]. unfold pad_n, width. rewrite (width_fold c M 0 F). rewrite L.
  destruct M; [simpl in L; lia | lia].
Qed.

Lemma get2_repeat2 : forall {A} (d : A) m k i j, get2 d (repeat (repeat d m) k) i j = d.
Proof.
  intros. unfold get2.
  destruct (Nat.lt_ge_cases i k) as [Hi|Hi].
  - replace (nth i (repeat (repeat d m) k) []) with (repeat d m).
    + apply nth_repeat.
    + symmetry. apply nth_error_nth. rewrite nth_error_repeat; [reflexivity | exact Hi].
  - rewrite (nth_overflow (repeat _ _)) by (rewrite repeat_length; lia). destruct j; reflexivity.
Qed.

Lemma pad_sq : forall r c (M : list (list Z)), 1 <= r -> rect r c M -> sq (Nat.max c r) (pad Z 0%Z M).
Proof.
  intros r c M Hr R. pose proof (pad_n_rect r c M Hr R) as N. destruct R as [L F].
  unfold pad. rewrite N. split.
  - rewrite app_length, map_length, repeat_length. lia.
  - apply Forall_app. split.
    + rewrite Forall_forall in *. intros row H. apply in_map_iff in H. destruct H as [r0 [<- H]].
      rewrite app_length, repeat_length. rewrite (F r0 H). lia.
    + rewrite Forall_forall. intros row H. apply repeat_spec in H. subst. apply repeat_length.
Qed.

Lemma pad_get : forall r c (M : list (list Z)) i j, rect r c M -> get2 0%Z (pad Z 0%Z M) i j = get2 0%Z M i j.
Proof.
  intros r c M i j [L F]. unfold pad. set (n := pad_n Z M). unfold get2.
  destruct (Nat.lt_ge_cases i r) as [Hi|Hi].
  - rewrite app_nth1 by (rewrite map_length; lia).
    rewrite (nth_indep _ [] ((fun row => row ++ repeat 0%Z (n - length row)) [])) by (rewrite map_length; lia).
    rewrite (map_nth (fun row => row ++ repeat 0%Z (n - length row))).
    set (row := nth i M []).
    destruct (Nat.lt_ge_cases j (length row)) as [Hj|Hj].
    + apply app_nth1. exact Hj.
    + rewrite app_nth2 by lia. rewrite nth_repeat. rewrite nth_overflow by lia. reflexivity.
  - rewrite app_nth2 by (rewrite map_length; lia). rewrite map_length.
    change (nth j (nth (i - length M) (repeat (repeat 0%Z n) (n - length M)) []) 0%Z)
      with (get2 0%Z (repeat (repeat 0%Z n) (n - length M)) (i - length M) j).
    rewrite get2_repeat2. rewrite (nth_overflow M) by lia. destruct j; reflexivity.
Qed.

Lemma gz_outside : forall r c M i j, rect r c M -> (r <= i \/ c <= j) -> gz M i j = 0%Z.
Proof.
  intros r c M i j [L F] H. unfold gz, get2.
  destruct (Nat.lt_ge_cases i r) as [Hi|Hi].
  - apply nth_overflow. rewrite Forall_forall in F. rewrite (F (nth i M [])) by (apply nth_In; lia). lia.
  - rewrite (nth_overflow M) by lia. destruct j; reflexivity.
Qed.
