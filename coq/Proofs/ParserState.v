(* ParserState.v -- the shared parser is history independent (C10).

   Inv st   : the parser's own collections (scratch) are empty, they are the newest heap cell, and every
              cached MathExpression holds a reference to an *older* cell whose content, together with the
              tree, is what parsing the key computes.
   inv_init, inv_step (successful, failing, cached and evaluating calls alike)
   step_spec            : on every reachable state the view of a call is spec_view of that call alone
   history_independent  : hence the same as on a freshly constructed parser, for histories of any length
   cells_stable         : collections that were handed out are never altered by later calls
   spec_parse_formula   : spec_parse refines Model/Parser.v's parse_formula (C03's model), its names are
                          those of the accepted tree (cb_exact)
   spec_eval_evaluator  : the evaluating call is Model/Eval.v's evaluator (C03's front door) *)
From Coq Require Import ZArith QArith List Bool Lia Arith Permutation.
From Verif.Model Require Import Result Lexer Parser Eval ParserStateCb ParserState.
From Verif.Proofs Require Import ParserRoundTrip ParserStateCb.
Import ListNotations.
Local Open Scope nat_scope.

(* ---------- list plumbing ---------- *)
Lemma upd_length : forall A (l : list A) i f, length (upd l i f) = length l.
Proof. induction l as [|x l IH]; intros [|i] f; simpl; auto. Qed.

Lemma nth_upd_same : forall A (l : list A) i f d, i < length l -> nth i (upd l i f) d = f (nth i l d).
Proof.
  induction l as [|x l IH]; intros [|i] f d H; simpl in *; try lia; auto. apply IH. lia.
Qed.

Lemma nth_upd_other : forall A (l : list A) i j f d, i <> j -> nth j (upd l i f) d = nth j l d.
Proof.
  induction l as [|x l IH]; intros [|i] [|j] f d H; simpl; auto; try lia.
Qed.

Lemma nth_snoc_old : forall A (l : list A) x i d, i < length l -> nth i (l ++ [x]) d = nth i l d.
Proof. intros. apply app_nth1. assumption. Qed.

Lemma nth_snoc_new : forall A (l : list A) x d, nth (length l) (l ++ [x]) d = x.
Proof. intros. rewrite app_nth2; [|lia]. rewrite Nat.sub_diag. reflexivity. Qed.

Lemma assoc_in : forall A (l : list (str * A)) k v, assoc l k = Some v -> In (k, v) l.
Proof.
  induction l as [|[k' v'] l IH]; intros k v H; simpl in *; [discriminate|].
  destruct (str_eqb k' k) eqn:E.
  - apply str_eqb_eq in E. inversion H; subst. left; reflexivity.
  - right. apply IH. assumption.
Qed.

(* ---------- the invariant ---------- *)
(* what parsing the key computes: bracket check passes, the token stream is accepted with tree t while the
   callbacks record l *)
Definition ok_entry (engine : str -> bool) (k : str) (t : tree) (l : names) : Prop :=
  check_brackets k = None /\ engine k = false /\ exists ts, lex k = Some ts /\ cb_parse_tokens ts = (Some t, l).

Definition Inv (engine : str -> bool) (st : pstate) : Prop :=
  S (cur st) = length (heap st) /\
  scratch st = no_names /\
  forall k p, In (k, p) (cache st) ->
    p_ref p < cur st /\ strip_spaces k = k /\ ok_entry engine k (p_tree p) (cell st (p_ref p)).

(* nothing that existed before is altered; the cache only grows *)
Definition frame (st st' : pstate) : Prop :=
  cur st <= cur st' /\
  (forall i, i < cur st -> cell st' i = cell st i) /\
  (forall e, In e (cache st) -> In e (cache st')).

Lemma frame_refl : forall st, frame st st.
Proof. intro st. repeat split; auto. Qed.

Lemma frame_trans : forall a b c, frame a b -> frame b c -> frame a c.
Proof.
  intros a b c (H1 & H2 & H3) (K1 & K2 & K3). repeat split; [lia| |auto].
  intros i Hi. rewrite K2 by lia. apply H2. assumption.
Qed.

Lemma inv_init : forall engine, Inv engine init.
Proof. intro engine. split; [reflexivity|]. split; [reflexivity|]. intros k p []. Qed.

Lemma strip_spaces_idem : forall s, strip_spaces (strip_spaces s) = strip_spaces s.
Proof.
  intro s. unfold strip_spaces. induction s as [|c s IH]; simpl; [reflexivity|].
  destruct (negb (c =? ch_space)%Z) eqn:E; simpl; [rewrite E, IH|]; auto.
Qed.

Section Faithful.
  Variable junk : str -> names.
  Variable engine : str -> bool.

  Notation raw_parse := (raw_parse junk engine faithful).
  Notation parse_op := (parse_op junk engine faithful).
  Notation eval_op := (eval_op junk engine faithful).
  Notation step := (step junk engine faithful).
  Notation run := (run junk engine faithful).
  Notation trace := (trace junk engine faithful).
  Notation spec_parse := (spec_parse engine).
  Notation spec_eval := (spec_eval engine).
  Notation spec_view := (spec_view engine).
  Notation Inv := (Inv engine).
  Notation ok_entry := (ok_entry engine).
  Notation inv_init := (inv_init engine).

  (* record into the scratch cell, then replace it: every older cell is untouched, the written cell holds
     exactly what was recorded (the scratch was empty), the new scratch is empty *)
  Lemma record_reset : forall st l, Inv st ->
    let st' := reset faithful (record st l) in
    S (cur st') = length (heap st') /\ scratch st' = no_names /\ cur st' = S (cur st) /\
    cache st' = cache st /\ cell st' (cur st) = l /\ (forall i, i < cur st -> cell st' i = cell st i).
  Proof.
    intros st l (Hc & Hs & _). unfold reset, record, scratch, cell in *. simpl.
    set (h := upd (heap st) (cur st) (fun c => c +++ l)).
    assert (Lh : length h = length (heap st)) by apply upd_length.
    repeat split.
    - rewrite app_length. simpl. lia.
    - apply nth_snoc_new.
    - lia.
    - rewrite nth_snoc_old by lia. unfold h.
      rewrite nth_upd_same by lia. rewrite Hs. apply names_app_nil_l.
    - intros i Hi. rewrite nth_snoc_old by lia. unfold h.
      apply nth_upd_other. lia.
  Qed.

  Lemma inv_after : forall st l, Inv st -> Inv (reset faithful (record st l)).
  Proof.
    intros st l HI. pose proof (record_reset st l HI) as (A & B & C & D & E & F).
    destruct HI as (Hc & Hs & Hcache).
    split; [assumption|]. split; [assumption|].
    intros k p Hin. rewrite D in Hin. destruct (Hcache k p Hin) as (R & K & O).
    split; [lia|]. split; [assumption|]. rewrite F by assumption. assumption.
  Qed.

  Lemma frame_after : forall st l, Inv st -> frame st (reset faithful (record st l)).
  Proof.
    intros st l HI. pose proof (record_reset st l HI) as (A & B & C & D & E & F).
    repeat split; [lia|assumption|]. intros e He. rewrite D. assumption.
  Qed.

  (* ---------- raw_parse ---------- *)
  Lemma raw_parse_spec : forall st k, Inv st ->
    let (st', r) := raw_parse st k in
    Inv st' /\ frame st st' /\ cache st' = cache st /\
    match r with
    | inl p => p_ref p = cur st /\ cur st < cur st' /\ ok_entry k (p_tree p) (cell st' (p_ref p))
    | inr (RawUnbal e) => check_brackets k = Some e
    | inr RawUnparsable =>
        check_brackets k = None /\ engine k = false /\
        (lex k = None \/ exists ts l, lex k = Some ts /\ cb_parse_tokens ts = (None, l))
    | inr RawEngine => check_brackets k = None /\ engine k = true
    end.
  Proof.
    intros st k HI. unfold ParserState.raw_parse, fail. simpl.
    destruct (check_brackets k) as [e|] eqn:Eb.
    { pose proof (record_reset st no_names HI) as (A & B & C & D & E & F).
      split; [apply inv_after; assumption|]. split; [apply frame_after; assumption|].
      split; [assumption|reflexivity]. }
    destruct (engine k) eqn:Ee.
    { pose proof (record_reset st (junk k) HI) as (A & B & C & D & E & F).
      split; [apply inv_after; assumption|]. split; [apply frame_after; assumption|].
      split; [assumption|]. split; reflexivity. }
    destruct (lex k) as [ts|] eqn:El.
    2:{ pose proof (record_reset st (junk k) HI) as (A & B & C & D & E & F).
        split; [apply inv_after; assumption|]. split; [apply frame_after; assumption|].
        split; [assumption|]. split; [reflexivity|]. split; [reflexivity|]. left; reflexivity. }
    destruct (cb_parse_tokens ts) as [[t|] l] eqn:Ec.
    - pose proof (record_reset st l HI) as (A & B & C & D & E & F).
      split; [apply inv_after; assumption|]. split; [apply frame_after; assumption|].
      split; [assumption|]. cbn [p_ref p_tree]. split; [reflexivity|]. split; [lia|].
      rewrite E. split; [assumption|]. split; [assumption|]. exists ts. split; assumption.
    - pose proof (record_reset st (l +++ junk k) HI) as (A & B & C & D & E & F).
      split; [apply inv_after; assumption|]. split; [apply frame_after; assumption|].
      split; [assumption|]. split; [reflexivity|]. split; [reflexivity|]. right. exists ts, l. split; (reflexivity || assumption).
  Qed.

  (* ---------- parse ---------- *)
  Lemma spec_parse_ok : forall s t l, ok_entry (strip_spaces s) t l -> spec_parse s = VTree t l.
  Proof.
    intros s t l (Hb & He & ts & Hl & Hc). unfold ParserState.spec_parse. rewrite Hb, He, Hl, Hc. reflexivity.
  Qed.

  Lemma parse_op_spec : forall st s, Inv st ->
    let (st', r) := parse_op st s in
    Inv st' /\ frame st st' /\ view_parse st' r = spec_parse s /\
    match r with inl p => p_ref p < cur st' | inr _ => True end.
  Proof.
    intros st s HI. unfold ParserState.parse_op, lookup_cache.
    destruct (assoc (cache st) (strip_spaces s)) as [p|] eqn:Ea.
    - (* cached *)
      split; [assumption|]. split; [apply frame_refl|].
      apply assoc_in in Ea. destruct HI as (_ & _ & Hcache).
      destruct (Hcache _ _ Ea) as (Hr & _ & O). split; [|assumption].
      simpl. symmetry. apply spec_parse_ok. assumption.
    - pose proof (raw_parse_spec st (strip_spaces s) HI) as R.
      destruct (raw_parse st (strip_spaces s)) as [st' [p|[e| |]]].
      + (* parsed and cached *)
        destruct R as (HI' & HF & HC & Hp & Hlt & O).
        destruct HI' as (A & B & Hcache').
        assert (Cell : forall i, cell (mkState (cache st' ++ [(strip_spaces s, p)]) (heap st') (cur st')) i
                                 = cell st' i) by reflexivity.
        split; [|split; [|split]].
        * split; [assumption|]. split; [assumption|].
          intros k q Hin. simpl in Hin. apply in_app_or in Hin. destruct Hin as [Hin|[Hin|[]]].
          -- rewrite Cell. apply Hcache'. assumption.
          -- inversion Hin; subst. rewrite Cell. simpl.
             split; [lia|]. split; [apply strip_spaces_idem|assumption].
        * destruct HF as (F1 & F2 & F3). repeat split; simpl; [assumption|assumption|].
          intros e He. apply in_or_app. left. apply F3. assumption.
        * simpl. rewrite Cell. symmetry. apply spec_parse_ok. assumption.
        * simpl. lia.
      + destruct R as (HI' & HF & HC & Hb). split; [assumption|]. split; [assumption|]. split; [|exact I].
        simpl. unfold ParserState.spec_parse. rewrite Hb. reflexivity.
      + destruct R as (HI' & HF & HC & Hb & He & Hl). split; [assumption|]. split; [assumption|]. split; [|exact I].
        simpl. unfold ParserState.spec_parse. rewrite Hb, He.
        destruct Hl as [Hl|(ts & l & Hl & Hc)]; rewrite Hl; [reflexivity|]. rewrite Hc. reflexivity.
      + destruct R as (HI' & HF & HC & Hb & He). split; [assumption|]. split; [assumption|]. split; [|exact I].
        simpl. unfold ParserState.spec_parse. rewrite Hb, He. reflexivity.
  Qed.

  (* ---------- evaluate ---------- *)
  Lemma eval_op_spec : forall st E m f, Inv st ->
    let (st', v) := eval_op st E m f in
    Inv st' /\ frame st st' /\ v = spec_eval E m f.
  Proof.
    intros st E m f HI. unfold ParserState.eval_op, ParserState.spec_eval.
    destruct f as [s|]; [|split; [assumption|split; [apply frame_refl|reflexivity]]].
    destruct (py_strip s) as [|c s'] eqn:Es; [split; [assumption|split; [apply frame_refl|reflexivity]]|].
    pose proof (parse_op_spec st (c :: s') HI) as P.
    destruct (parse_op st (c :: s')) as [st' [p|e]]; destruct P as (HI' & HF & HV & _);
      (split; [assumption|]); (split; [assumption|]); rewrite <- HV; reflexivity.
  Qed.

  (* ---------- one call, any call ---------- *)
  Theorem step_spec : forall st o, Inv st ->
    let (st', v) := step st o in Inv st' /\ frame st st' /\ v = spec_view o.
  Proof.
    intros st [s|E m f] HI; unfold ParserState.step.
    - pose proof (parse_op_spec st s HI) as P. destruct (parse_op st s) as [st' r].
      destruct P as (A & B & C & _). simpl. rewrite C. auto.
    - pose proof (eval_op_spec st E m f HI) as P. destruct (eval_op st E m f) as [st' v].
      destruct P as (A & B & C). simpl. rewrite C. auto.
  Qed.

  Theorem inv_step : forall st o, Inv st -> Inv (fst (step st o)).
  Proof. intros st o HI. pose proof (step_spec st o HI) as P. destruct (step st o). apply P. Qed.

  Theorem inv_run : forall ops st, Inv st -> Inv (run st ops).
  Proof.
    induction ops as [|o ops IH]; intros st HI; [assumption|].
    unfold ParserState.run in *. simpl. apply IH. apply inv_step. assumption.
  Qed.

  Theorem reachable_inv : forall ops, Inv (run init ops).
  Proof. intro ops. apply inv_run, inv_init. Qed.

  (* the outcome of a call after any history of calls -- valid, malformed, parsing, evaluating -- is the
     outcome of that call on a freshly constructed parser *)
  Theorem history_independent : forall ops o,
    snd (step (run init ops) o) = snd (step init o).
  Proof.
    intros ops o.
    pose proof (step_spec (run init ops) o (reachable_inv ops)) as P.
    pose proof (step_spec init o inv_init) as Q.
    destruct (step (run init ops) o) as [s1 v1]. destruct (step init o) as [s2 v2].
    destruct P as (_ & _ & ->). destruct Q as (_ & _ & ->). reflexivity.
  Qed.

  (* the same for every intermediate call of a history: the whole sequence of outcomes is the sequence of
     the stateless descriptions *)
  Theorem trace_spec : forall ops st, Inv st -> trace st ops = map spec_view ops.
  Proof.
    induction ops as [|o ops IH]; intros st HI; [reflexivity|]. simpl.
    pose proof (step_spec st o HI) as P. destruct (step st o) as [st' v].
    destruct P as (A & _ & ->). rewrite (IH st' A). reflexivity.
  Qed.

  Corollary trace_history_independent : forall before ops,
    trace (run init before) ops = trace init ops.
  Proof.
    intros. rewrite (trace_spec ops _ (reachable_inv before)), (trace_spec ops _ inv_init). reflexivity.
  Qed.

  (* the order of two histories is irrelevant too: outcomes depend on the call alone *)
  Corollary fresh_is_spec : forall o, snd (step init o) = spec_view o.
  Proof. intro o. pose proof (step_spec init o inv_init) as P. destruct (step init o). apply P. Qed.

  (* ---------- results that were handed out stay as they were ---------- *)
  Lemma frame_run : forall ops st, Inv st -> frame st (run st ops).
  Proof.
    induction ops as [|o ops IH]; intros st HI; [apply frame_refl|].
    unfold ParserState.run in *. simpl.
    pose proof (step_spec st o HI) as P. destruct (step st o) as [st' v]. destruct P as (A & B & _).
    simpl. eapply frame_trans; [exact B|]. apply IH. assumption.
  Qed.

  Theorem cells_stable : forall before later i,
    i < cur (run init before) ->
    cell (run (run init before) later) i = cell (run init before) i.
  Proof.
    intros before later i Hi.
    destruct (frame_run later _ (reachable_inv before)) as (_ & F & _). apply F. assumption.
  Qed.

  (* a MathExpression returned by parse() -- after any history, from the cache or not -- shows what the
     stateless description says, and keeps showing it after any later calls *)
  Theorem returned_object_stable : forall before s later,
    let st1 := fst (parse_op (run init before) s) in
    match snd (parse_op (run init before) s) with
    | inl p => VTree (p_tree p) (cell st1 (p_ref p)) = spec_parse s /\
               cell (run st1 later) (p_ref p) = cell st1 (p_ref p)
    | inr _ => True
    end.
  Proof.
    intros before s later.
    pose proof (parse_op_spec (run init before) s (reachable_inv before)) as P.
    destruct (parse_op (run init before) s) as [st1 [p|e]]; simpl; [|exact I].
    destruct P as (HI & HF & HV & Hlt). split; [exact HV|].
    destruct (frame_run later st1 HI) as (_ & F & _). apply F. assumption.
  Qed.
End Faithful.

(* ---------- the stateless description is C03's model plus the callback names ---------- *)
(* (wherever the engine does not give up) *)
Theorem spec_parse_formula : forall engine s, engine (strip_spaces s) = false ->
  match spec_parse engine s, parse_formula s with
  | VTree t l, PTree t' => t = t' /\ nperm l (names_of t)
  | VErr (EUnbal e k), PUnbalanced e' => e = e' /\ k = strip_spaces s
  | VErr (EUnparse q), PUnparsable => q = s
  | _, _ => False
  end.
Proof.
  intros engine s He. unfold spec_parse, parse_formula.
  destruct (check_brackets (strip_spaces s)) as [e|]; [split; reflexivity|]. rewrite He.
  destruct (lex (strip_spaces s)) as [ts|]; [|reflexivity].
  pose proof (cb_tree ts) as T. destruct (cb_parse_tokens ts) as [[t|] l] eqn:Ec; simpl in T; rewrite <- T.
  - split; [reflexivity|]. apply (cb_exact ts). assumption.
  - reflexivity.
Qed.

(* where the engine gives up, the exception escapes whatever C03's model would have said *)
Theorem spec_parse_engine : forall engine s,
  check_brackets (strip_spaces s) = None -> engine (strip_spaces s) = true -> spec_parse engine s = VErr EEngine.
Proof. intros engine s B E. unfold spec_parse. rewrite B, E. reflexivity. Qed.

Lemma forallb_perm : forall A (f : A -> bool) l l', Permutation l l' -> forallb f l = forallb f l'.
Proof.
  intros A f l l' H. induction H as [|x l l' H IH|x y l|l l' l'' H1 IH1 H2 IH2]; simpl.
  - reflexivity.
  - rewrite IH. reflexivity.
  - destruct (f x), (f y); reflexivity.
  - congruence.
Qed.

Lemma check_scope_perm : forall E l t, nperm l (names_of t) -> check_scope_names E l = check_scope E t.
Proof.
  intros E l t (H1 & H2 & H3). unfold check_scope_names, check_scope. simpl in *.
  rewrite (forallb_perm _ _ _ _ H1), (forallb_perm _ _ _ _ H2), (forallb_perm _ _ _ _ H3). reflexivity.
Qed.

(* the evaluating call, after any history, is Model/Eval.v's evaluator (where the engine does not give up) *)
Theorem spec_eval_evaluator : forall engine E m f,
  (forall s, f = Some s -> engine (strip_spaces (py_strip s)) = false) ->
  eview_outcome (spec_eval engine E m f) = evaluator E m f.
Proof.
  intros engine E m f He. unfold spec_eval, evaluator. destruct f as [s|]; [|reflexivity].
  specialize (He s eq_refl).
  destruct (py_strip s) as [|c s']; [reflexivity|].
  pose proof (spec_parse_formula engine (c :: s') He) as P.
  destruct (spec_parse engine (c :: s')) as [t l|[e k|q|]]; destruct (parse_formula (c :: s')) as [t'|e'|];
    try contradiction.
  - destruct P as [<- P]. rewrite (check_scope_perm E l t P).
    destruct (check_scope E t); [reflexivity|].
    destruct (eval E t); [|reflexivity].
    destruct m as [d|]; [|reflexivity]. destruct (d <? max_dim_used E t); reflexivity.
  - destruct P as [<- _]. reflexivity.
  - reflexivity.
Qed.

(* the reported collections, as sets, are those of the tree Model/Parser.v builds -- on any reachable state *)
Theorem reported_names_exact : forall junk engine ops s t,
  engine (strip_spaces s) = false ->
  parse_formula s = PTree t ->
  exists l, snd (step junk engine faithful (run junk engine faithful init ops) (OParse s)) = VP (VTree t l) /\
            nperm l (names_of t).
Proof.
  intros junk engine ops s t He H.
  pose proof (step_spec junk engine (run junk engine faithful init ops) (OParse s) (reachable_inv junk engine ops)) as P.
  destruct (step junk engine faithful (run junk engine faithful init ops) (OParse s)) as [st' v].
  destruct P as (_ & _ & ->). simpl.
  pose proof (spec_parse_formula engine s He) as Q. rewrite H in Q.
  destruct (spec_parse engine s) as [t' l|[e k|q|]]; try contradiction.
  destruct Q as [<- Q]. exists l. split; [reflexivity|assumption].
Qed.
