(* Proofs/ListGraderFinal.v -- C05, part 4: the theorems at the solver the model actually calls (solveZ), with
   the solver hypothesis DISCHARGED by C06's munkres_partial_correct; totality of the unordered branch from
   C06's munkres_terminates; examples. *)
From Coq Require Import ZArith QArith Qabs List Bool Arith Lia Lqa Permutation Sorted.
From Verif.Lib Require Import QRound.
From Verif.Model Require Import Result Munkres ListGrader ListGraderAgree.
From Verif.Proofs Require Import Credit MunkresDuality MunkresSpec MunkresCorrect MunkresTerm
                                 ListGraderGroup ListGraderAssign ListGrader.
Import ListNotations.
Close Scope Q_scope.
Open Scope nat_scope.

Theorem solveZ_ok : solver_optimal solveZ.
Proof. exact (solveZ_optimal munkres_partial_correct). Qed.

Section AtSolveZ.
  Variables X A : Type.
  Variable dX : X.
  Variable check : nat -> A -> ginput X -> option (list (nat * ginput X)) -> option result.

  Definition unordered_flat_optimal_Z :=
    unordered_flat_optimal X A dX check solveZ solveZ_ok solveZ_row_major.
  Definition unordered_grouped_optimal_Z :=
    unordered_grouped_optimal X A dX check solveZ solveZ_ok solveZ_row_major.
End AtSolveZ.

(* ---------- examples (evaluated) ---------- *)
Example ex_group_map_docstring : group_map [3; 1; 1; 2; 2; 1; 2] = [[1; 2; 5]; [3; 4; 6]; [0]].
Proof. reflexivity. Qed.

Example ex_valid_grouping_docstring : valid_grouping [3; 1; 1; 2; 2; 1; 2].
Proof. apply valid_groupingb_spec; [discriminate | reflexivity]. Qed.

Example ex_groupify_docstring :
  groupify 0%Z (group_map [3; 1; 1; 2; 2; 1; 2]) [10; 11; 12; 13; 14; 15; 16]%Z
  = [GMany [11; 12; 15]%Z; GMany [13; 14; 16]%Z; GOne 10%Z].
Proof. reflexivity. Qed.

(* an unordered ListGrader over three boxes, credit table: answer j is worth (j+1)/4 for input j and,
   for the first input, answer 2 is worth 1; the best assignment gives input 0 -> answer 2 *)
Definition ex_item : item_oracle := fun _ aid x _ =>
  match x with
  | GOne v =>
      if (Z.of_nat aid =? v)%Z then Some (mkEntry OkPartial (inject_Z (v + 1) / 4)%Q [])
      else if ((v =? 0)%Z && Nat.eqb aid 2)%bool then Some (mkEntry OkTrue 1%Q [])
      else Some (mkEntry OkFalse 0%Q [])
  | GMany _ => None
  end.
Definition ex_tree : gtree := TList 1 (mkLgCfg false true false 0 []) [TItem 2].
Definition ex_answers : atree := AAlts [[AItem 0; AItem 1; AItem 2]].

Example ex_unordered_call :
  option_map (map (fun e => (e_ok e, Qred (e_grade e)))) (lg_call ex_item solveZ 3 ex_tree ex_answers [0; 1; 2]%Z)
  = Some [(OkTrue, 1%Q); (OkPartial, (1 # 2)%Q); (OkFalse, 0%Q)].
Proof. vm_compute. reflexivity. Qed.

(* the documented tie rule of get_best_result ("the result where high-scoring subparts occur early") is not what
   the loop implements: it tests the grades for being non-zero.  Both lists total 1; the list scoring 1 on the
   first box is NOT chosen.  (The property only demands a list of maximal total, which holds.) *)
Example ex_tie_rule_is_nonzero_first :
  get_best [[mkEntry OkPartial (1 # 2) []; mkEntry OkPartial (1 # 2) []];
            [mkEntry OkTrue 1 []; mkEntry OkFalse 0 []]]
  = Some [mkEntry OkPartial (1 # 2) []; mkEntry OkPartial (1 # 2) []].
Proof. vm_compute. reflexivity. Qed.

Example ex_zeroing :
  apply_partial false [mkEntry OkTrue 1 [109%Z]; mkEntry OkPartial (1 # 2) []]
  = [mkEntry OkFalse 0 [109%Z]; mkEntry OkFalse 0 []].
Proof. reflexivity. Qed.
