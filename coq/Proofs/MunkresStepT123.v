(* Proofs/MunkresStepT123.v -- termination invariants through steps 1, 2, 3. *)
From Coq Require Import ZArith List Bool Arith Lia Permutation.
From Verif.Model Require Import Munkres.
From Verif.Proofs Require Import MunkresDuality MunkresInvLib MunkresInvDefs MunkresStep123 MunkresInvTerm.
Import ListNotations.
Local Open Scope Z_scope.

Lemma kmin_fold_in : forall r x, In (fold_left (fun m y => if Z.ltb y m then y else m) r x) (x :: r).
Proof.
  induction r as [|a r IH]; intro x; simpl; [left; reflexivity|].
  destruct (IH (if Z.ltb a x then a else x)) as [E|H].
  - destruct (Z.ltb a x); [right; left; exact E | left; exact E].
  - right; right; exact H.
Qed.

Lemma kmin_in : forall d row, row <> [] -> In (kmin Z Z.ltb d row) row.
Proof. intros d [|a r] H; [congruence|]. simpl. apply kmin_fold_in. Qed.

Lemma step1_T : forall n M0 s, T1 n M0 s -> T2 n M0 (zstep1 s).
Proof. intros n M0 s P. apply step1_P. exact P. Qed.

Lemma step2_T : forall n M0 s, T2 n M0 s -> T3 n M0 (zstep2 s).
Proof. intros n M0 s P. apply step2_P. exact P. Qed.

(* step 3 with clear covers counts exactly the starred columns *)
Lemma step3_count : forall n M0 s, P3 n M0 s ->
  snd (zstep3 n s) = if Nat.leb n (kc n s) then 7%nat else 4%nat.
Proof.
  intros n M0 s [B [_ [CR CC]]]. pose proof (b_wf _ _ _ B) as [_ [_ [_ Lc]]].
  assert (E : length (filter (fun b => b) (mapi (fun j c => negb c && col_has 1 (sM s) j) (sCC s))) = kc n s).
  { change (length (filter (fun b => b) ?l)) with (cnt l).
    rewrite cnt_eq_filter. rewrite mapi_length, Lc. unfold kc. f_equal.
    apply filter_ext_in. intros j Hj. apply in_seq in Hj.
    rewrite (nth_mapi _ _ j false false) by lia. fold (ccov s j). rewrite CC. reflexivity. }
  unfold zstep3, step3. simpl. rewrite E. reflexivity.
Qed.

Lemma step3_T : forall n M0 s, T3 n M0 s ->
  snd (zstep3 n s) = 7%nat
  \/ (snd (zstep3 n s) = 4%nat /\ T4 n M0 (fst (zstep3 n s))
      /\ cnt (sRC (fst (zstep3 n s))) = 0%nat /\ kc n (fst (zstep3 n s)) = kc n s).
Proof.
  intros n M0 s P. rewrite (step3_count n M0 s P).
  destruct (Nat.leb_spec n (kc n s)) as [L|L]; [left; reflexivity|]. right. split; [reflexivity|].
  pose proof P as [B [NP [CR CC]]]. pose proof (b_wf _ _ _ B) as [_ [_ [Lr Lc]]].
  rewrite (step3_state n s).
  assert (R0 : cnt (sRC s) = 0%nat) by (apply cnt_all_false; exact CR).
  assert (K : kc n (mkState (sC s) (sM s) (sRC s) (mapi (fun j c => c || col_has 1 (sM s) j) (sCC s)) (sZ0 s)) = kc n s)
    by reflexivity.
  split; [|split; [exact R0 | exact K]].
  split; [rewrite <- (step3_state n s); apply step3_P4; exact P|].
  split; [rewrite K; exact L|].
  split; [|split].
  - rewrite K. simpl. rewrite R0. simpl. rewrite cnt_eq_filter. rewrite mapi_length, Lc. unfold kc. f_equal.
    apply filter_ext_in. intros j Hj. apply in_seq in Hj.
    rewrite (nth_mapi _ _ j false false) by lia. fold (ccov s j). rewrite CC. reflexivity.
  - intros i H. unfold rcov in H; simpl in H. fold (rcov s i) in H. rewrite CR in H. discriminate.
  - exists (fun _ => 0%nat), 0%nat. split.
    + intros i H. unfold rcov in H; simpl in H. fold (rcov s i) in H. rewrite CR in H. discriminate.
    + intros i j i' H. exfalso. exact (NP i j H).
Qed.
