(* Proofs/MunkresStepT6.v -- step 6 never raises (events > 0) and creates an uncovered zero: an uncovered row and
   an uncovered column exist, so find_smallest returns the true minimum of the uncovered cells. *)
From Coq Require Import ZArith List Bool Arith Lia Permutation.
From Verif.Model Require Import Munkres.
From Verif.Proofs Require Import MunkresDuality MunkresSpec MunkresInvLib MunkresInvDefs MunkresStep123 MunkresStep46
  MunkresInvFinal MunkresInvTerm.
Import ListNotations.
Local Open Scope Z_scope.

Lemma events_pos : forall n s i0 j0, length (sRC s) = n -> length (sCC s) = n ->
  (i0 < n)%nat -> (j0 < n)%nat -> rcov s i0 = false -> ccov s j0 = false -> 1 <= events Z s.
Proof.
  intros n s i0 j0 Lr Lc Hi Hj Ri Cj. unfold events. rewrite Lr, Lc.
  rewrite fold_left_add_lsum. rewrite Z.add_0_l.
  set (t := fun i j => (if nth i (sRC s) false then 1 else 0) + (if nth j (sCC s) false then 0 else 1)
                       - (if nth i (sRC s) false && negb (nth j (sCC s) false) then 2 else 0)).
  assert (T0 : forall i j, 0 <= t i j).
  { intros i j. unfold t. destruct (nth i (sRC s) false); destruct (nth j (sCC s) false); simpl; lia. }
  apply (lsum_ge_one _ _ i0).
  - intros i _. rewrite fold_left_add_lsum. rewrite Z.add_0_l. apply (lsum_nonneg (t i)). intros; apply T0.
  - apply in_seq. lia.
  - rewrite fold_left_add_lsum. rewrite Z.add_0_l. apply (lsum_ge_one (t i0) _ j0).
    + intros; apply T0.
    + apply in_seq. lia.
    + unfold t. unfold rcov in Ri. unfold ccov in Cj. rewrite Ri, Cj. simpl. lia.
Qed.

Section StepT6.
  Variable n : nat.
  Variable M0 : nat -> nat -> Z.

  Lemma step6_T : forall s, T4 n M0 s ->
    exists s', zstep6 s = Some s' /\ T4 n M0 s' /\ sRC s' = sRC s /\ kc n s' = kc n s
      /\ exists i j, (i < n)%nat /\ (j < n)%nat /\ uncovered_zero Z 0 Z.eqb s' i j = true.
  Proof.
    intros s T. pose proof T as [P [K [CN [CP RK]]]].
    pose proof P as [B [SCV PO]]. pose proof (b_wf _ _ _ B) as W. pose proof W as [SC [SM [Lr Lc]]].
    pose proof (cnt_le (sRC s)) as CR. pose proof (cnt_le (sCC s)) as CCl.
    destruct (cnt_exists_false (sRC s) ltac:(lia)) as [i0 [Hi0 Ri0]].
    destruct (cnt_exists_false (sCC s) ltac:(lia)) as [j0 [Hj0 Cj0]].
    pose proof (events_pos n s i0 j0 Lr Lc ltac:(lia) ltac:(lia) Ri0 Cj0) as EV.
    assert (E : exists s', zstep6 s = Some s').
    { unfold zstep6, step6. destruct (Z.eqb_spec (events Z s) 0) as [X|_]; [lia | eexists; reflexivity]. }
    destruct E as [s' E]. exists s'. split; [exact E|].
    pose proof (step6_P n M0 s s' P E) as P'.
    destruct (find_smallest_spec n s W) as [F2 [F3 F4]]. set (m := zfind_smallest s) in *.
    assert (GC : forall i j, (i < n)%nat -> (j < n)%nat ->
              gC s' i j = gC s i j + (if rcov s i then m else 0) - (if ccov s j then 0 else m))
      by (intros; apply (step6_C n); assumption).
    assert (ES : s' = mkState (sC s') (sM s) (sRC s) (sCC s) (sZ0 s)) by (rewrite (step6_some s s' E); reflexivity).
    assert (GM : forall i j, gM s' i j = gM s i j) by (intros; rewrite ES; reflexivity).
    assert (GR : forall i, rcov s' i = rcov s i) by (intros; rewrite ES; reflexivity).
    assert (GCC : forall j, ccov s' j = ccov s j) by (intros; rewrite ES; reflexivity).
    assert (ERC : sRC s' = sRC s) by (rewrite ES; reflexivity).
    assert (ECC : sCC s' = sCC s) by (rewrite ES; reflexivity).
    assert (EK : kc n s' = kc n s) by (rewrite ES; reflexivity).
    split; [|split; [exact ERC | split; [exact EK|]]].
    - split; [exact P'|].
      split; [rewrite EK; exact K|]. split; [rewrite ERC, ECC, EK; exact CN|]. split.
      + intros i H. rewrite GR in H. destruct (CP i H) as [j Hj]. exists j. rewrite GM. exact Hj.
      + destruct RK as [rank [bound [HB PR]]]. exists rank, bound. split.
        * intros i H. rewrite GR in H. apply HB. exact H.
        * intros i j i'. rewrite !GM. apply PR.
    - destruct F4 as [i [j [Hi [Hj [Ri [Cj X]]]]]].
      { exists i0, j0. rewrite Lr in Hi0. rewrite Lc in Hj0. auto. }
      exists i, j. split; [exact Hi|]. split; [exact Hj|].
      apply uncovered_zero_true. rewrite GR, GCC. split; [|split; assumption].
      rewrite GC by assumption. rewrite Ri, Cj. lia.
  Qed.
End StepT6.
