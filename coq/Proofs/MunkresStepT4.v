(* Proofs/MunkresStepT4.v -- the step 4 loop never runs out of fuel and keeps the termination invariant. *)
From Coq Require Import ZArith List Bool Arith Lia Permutation.
From Verif.Model Require Import Munkres.
From Verif.Proofs Require Import MunkresDuality MunkresInvLib MunkresInvDefs MunkresStep123 MunkresStep46 MunkresInvTerm.
Import ListNotations.
Local Open Scope nat_scope.

Section StepT4.
  Variable n : nat.
  Variable M0 : nat -> nat -> Z.

  (* facts shared by both outcomes of an iteration: priming an uncovered zero *)
  Lemma prime_facts : forall s r c rc cc z, T4 n M0 s -> r < n -> c < n ->
    rcov s r = false -> ccov s c = false -> length rc = n -> length cc = n ->
    let s1 := mkState (sC s) (upd2 (sM s) r c 2) rc cc z in
    (forall i j, gM s1 i j = if (Nat.eqb i r && Nat.eqb j c)%bool then 2 else gM s i j)
    /\ (forall i j, gM s1 i j = 1 <-> gM s i j = 1)
    /\ wf n s1 /\ kc n s1 = kc n s
    /\ (forall i j, gM s i j = 2 -> gM s1 i j = 2)
    /\ (forall rank bound, (forall i, rcov s i = true -> rank i < bound) -> prime_rank rank s ->
          prime_rank (fun i => if Nat.eqb i r then bound else rank i) s1).
  Proof.
    intros s r c rc cc z [[B [SCV PO]] _] Hr Hc Rr Cc Lr Lc s1.
    pose proof (b_wf _ _ _ B) as W. pose proof W as [SC [SM _]].
    assert (GM : forall i j, gM s1 i j = if (Nat.eqb i r && Nat.eqb j c)%bool then 2 else gM s i j)
      by (intros; apply (gM_prime n); assumption).
    assert (NS : gM s r c <> 1).
    { intro H. pose proof (SCV r c H) as E. rewrite Rr, Cc in E. discriminate. }
    assert (ST : forall i j, gM s1 i j = 1 <-> gM s i j = 1).
    { intros i j. rewrite GM. destruct (Nat.eqb_spec i r) as [->|]; simpl; [|tauto].
      destruct (Nat.eqb_spec j c) as [->|]; [|tauto]. split; [discriminate | intro; contradiction]. }
    assert (W1 : wf n s1) by (unfold s1; repeat split; simpl; auto; try apply SC; apply sq_upd2; exact SM).
    split; [exact GM|]. split; [exact ST|]. split; [exact W1|].
    split; [apply kc_ext; assumption|].
    split.
    - intros i j H. rewrite GM. destruct (Nat.eqb i r && Nat.eqb j c)%bool; [reflexivity | exact H].
    - intros rank bound HB PR i j i' H2 H1. apply ST in H1. rewrite GM in H2.
      assert (Ri' : rcov s i' = true -> i' <> r) by (intros E ->; congruence).
      destruct (Nat.eqb_spec i r) as [->|Ni]; simpl in H2.
      + destruct (Nat.eqb_spec j c) as [->|Nj].
        * assert (E : rcov s i' = true) by (rewrite (SCV i' c H1), Cc; reflexivity).
          destruct (Nat.eqb_spec i' r) as [->|_]; [congruence|]. apply HB. exact E.
        * destruct (PO r j H2) as [_ [A _]]. congruence.
      + destruct (PO i j H2) as [_ [A1 A2]].
        assert (E : rcov s i' = true) by (rewrite (SCV i' j H1), A2; reflexivity).
        destruct (Nat.eqb_spec i' r) as [->|_]; [congruence|]. exact (PR i j i' H2 H1).
  Qed.

  Lemma step4_iter_cont_T : forall s r c sc, T4 n M0 s ->
    r < n -> c < n -> gC s r c = 0%Z -> rcov s r = false -> ccov s c = false ->
    find_in_row 1 (upd2 (sM s) r c 2) r = Some sc ->
    let s1 := mkState (sC s) (upd2 (sM s) r c 2) (upd (sRC s) r true) (upd (sCC s) sc false) (sZ0 s) in
    T4 n M0 s1 /\ cnt (sRC s1) = S (cnt (sRC s)) /\ kc n s1 = kc n s.
  Proof.
    intros s r c sc T Hr Hc HC Rr Cc F s1.
    pose proof T as [P [K [CN [CP [rank [bound [HB PR]]]]]]].
    pose proof P as [B [SCV PO]]. pose proof (b_wf _ _ _ B) as [SC [SM [Lr Lc]]].
    destruct (prime_facts s r c (upd (sRC s) r true) (upd (sCC s) sc false) (sZ0 s) T Hr Hc Rr Cc
                ltac:(rewrite upd_length; exact Lr) ltac:(rewrite upd_length; exact Lc))
      as [GM [ST [W1 [K1 [PP RK]]]]]. fold s1 in GM, ST, W1, K1, PP, RK.
    pose proof F as F'. apply (find_in_row_some n) in F'; [|apply sq_upd2; exact SM | discriminate].
    destruct F' as [_ [Hsc [F' _]]]. change (get2 0 (upd2 (sM s) r c 2) r sc) with (gM s1 r sc) in F'.
    apply ST in F'.
    assert (Csc : ccov s sc = true).
    { pose proof (SCV r sc F') as E. rewrite Rr in E. destruct (ccov s sc); [reflexivity | discriminate]. }
    assert (GR : forall i, rcov s1 i = if Nat.eqb i r then true else rcov s i).
    { intro i. unfold rcov, s1; simpl. rewrite nth_upd. rewrite Lr.
      destruct (Nat.ltb_spec r n); [|lia]. rewrite andb_true_r. reflexivity. }
    assert (R1 : cnt (sRC s1) = S (cnt (sRC s))) by (apply cnt_upd_true; [lia | exact Rr]).
    assert (C1 : S (cnt (sCC s1)) = cnt (sCC s)) by (apply cnt_upd_false; [lia | exact Csc]).
    split; [|split; [exact R1 | exact K1]].
    split; [apply step4_iter_cont; assumption|]. split; [rewrite K1; exact K|].
    split; [rewrite K1; lia|]. split.
    - intros i H. rewrite GR in H. destruct (Nat.eqb_spec i r) as [E|Ni]; [subst i|].
      + exists c. rewrite GM. rewrite !Nat.eqb_refl. reflexivity.
      + destruct (CP i H) as [j Hj]. exists j. apply PP. exact Hj.
    - exists (fun i => if Nat.eqb i r then bound else rank i), (S bound). split.
      + intros i H. rewrite GR in H. destruct (Nat.eqb_spec i r) as [E|Ni]; [subst i; lia|].
        specialize (HB i H). lia.
      + apply RK; assumption.
  Qed.

  Lemma step4_iter_exit5_T : forall s r c, T4 n M0 s ->
    r < n -> c < n -> gC s r c = 0%Z -> rcov s r = false -> ccov s c = false ->
    find_in_row 1 (upd2 (sM s) r c 2) r = None ->
    let s1 := mkState (sC s) (upd2 (sM s) r c 2) (sRC s) (sCC s) (r, c) in
    T5 n M0 s1 /\ kc n s1 = kc n s.
  Proof.
    intros s r c T Hr Hc HC Rr Cc F s1.
    pose proof T as [P [K [CN [CP [rank [bound [HB PR]]]]]]].
    pose proof P as [B [SCV PO]]. pose proof (b_wf _ _ _ B) as [SC [SM [Lr Lc]]].
    destruct (prime_facts s r c (sRC s) (sCC s) (r, c) T Hr Hc Rr Cc Lr Lc)
      as [GM [ST [W1 [K1 [PP RK]]]]]. fold s1 in GM, ST, W1, K1, PP, RK.
    split; [|exact K1].
    split; [apply step4_iter_exit5; assumption|]. split; [rewrite K1; exact K|].
    split; [|split; [|split]].
    - intros i j H. apply ST in H. exact (SCV i j H).
    - intros i j H. rewrite GM in H. change (ccov s1 j) with (ccov s j).
      destruct (Nat.eqb_spec i r) as [->|Ni]; simpl in H.
      + destruct (Nat.eqb_spec j c) as [E|Nj]; [subst j; exact Cc | apply (PO r j H)].
      + apply (PO i j H).
    - intros i H. change (rcov s1 i) with (rcov s i) in H. destruct (CP i H) as [j Hj]. exists j. apply PP. exact Hj.
    - exists (fun i => if Nat.eqb i r then bound else rank i). apply RK; assumption.
  Qed.

  Lemma step4_loop_T : forall fuel s row col, T4 n M0 s -> n - cnt (sRC s) + 1 <= fuel ->
    exists s' nx, zstep4_loop fuel n s row col = Some (s', nx) /\ kc n s' = kc n s /\
      ((nx = 5 /\ T5 n M0 s')
       \/ (nx = 6 /\ T4 n M0 s' /\ cnt (sRC s) <= cnt (sRC s') /\ (cnt (sRC s') = cnt (sRC s) -> noZero n s))).
  Proof.
    induction fuel as [|f IH]; intros s row col T Hf; [lia|].
    simpl. fold zfind_a_zero. fold zstep4_loop.
    destruct (zfind_a_zero n s row col) as [[r c]|] eqn:FZ.
    - apply find_a_zero_some in FZ. destruct FZ as [Hr [Hc [HC [Rr Cc]]]].
      destruct (find_in_row 1 (upd2 (sM s) r c 2) r) as [sc|] eqn:F.
      + destruct (step4_iter_cont_T s r c sc T Hr Hc HC Rr Cc F) as [T1 [R1 K1]].
        assert (Lr : length (sRC s) = n) by (destruct T as [[B _] _]; apply (b_wf _ _ _ B)).
        pose proof (cnt_lt (sRC s) r ltac:(lia) Rr) as LT.
        destruct (IH _ r sc T1 ltac:(rewrite R1; lia)) as [s' [nx [E [K' O]]]].
        exists s', nx. split; [exact E|]. split; [lia|].
        destruct O as [O|[N6 [T' [LE _]]]]; [left; exact O|]. right.
        split; [exact N6|]. split; [exact T'|]. rewrite R1 in LE. split; [lia | intro; lia].
      + destruct (step4_iter_exit5_T s r c T Hr Hc HC Rr Cc F) as [T5' K1].
        eexists; eexists. split; [reflexivity|]. split; [exact K1|]. left. split; [reflexivity | exact T5'].
    - exists s, 6. split; [reflexivity|]. split; [reflexivity|]. right.
      split; [reflexivity|]. split; [exact T|]. split; [lia|].
      intros _ i j Hi Hj. exact (find_a_zero_none n s row col i j FZ Hi Hj).
  Qed.

  Lemma step4_T : forall s, T4 n M0 s ->
    exists s' nx, zstep4 n s = Some (s', nx) /\ kc n s' = kc n s /\
      ((nx = 5 /\ T5 n M0 s')
       \/ (nx = 6 /\ T4 n M0 s' /\ cnt (sRC s) <= cnt (sRC s') /\ (cnt (sRC s') = cnt (sRC s) -> noZero n s))).
  Proof. intros s T. apply step4_loop_T; [exact T | lia]. Qed.
End StepT4.
