(* Proofs/MathFuncs.v -- C15: argument-count / shape validation (SpecifyDomain), eval_function's arity check and
   recasting of failures, the numpy error state, and the finite facts about the regenerated tables. *)
From Coq Require Import ZArith QArith List String Bool Arith Lia.
From Verif.Lib Require Import MathFuncsBase.
From Verif.Gen Require MathFuncs.
From Verif.Model Require Import MathFuncs.
From Verif.Bridge Require Import MathFuncs.
Import ListNotations.

(* ---------------- SpecifyDomain ---------------- *)
Definition arity_ok (sp : domspec) (n : nat) : Prop :=
  match ds_min sp with Some m => (m <= n)%nat | None => List.length (ds_shapes sp) = n end.

Lemma validate_arity : forall sp args,
  ~ arity_ok sp (List.length args) ->
  exists e a, validate sp args = VArity e a (List.length args).
Proof.
  intros sp args H. unfold validate, arity_ok in *. destruct (ds_min sp) as [m | ].
  - destruct (Nat.ltb (List.length args) m) eqn:E.
    + eauto.
    + apply Nat.ltb_ge in E. contradiction.
  - destruct (Nat.eqb (List.length (ds_shapes sp)) (List.length args)) eqn:E; simpl.
    + apply Nat.eqb_eq in E. contradiction.
    + eauto.
Qed.

Lemma validate_ok_arity : forall sp args,
  arity_ok sp (List.length args) ->
  validate sp args =
    let flags := zip_ok (expected_shapes sp (List.length args)) args in
    if forallb (fun b => b) flags then VCall else VShape flags.
Proof.
  intros sp args H. unfold validate, arity_ok, expected_shapes in *. destruct (ds_min sp) as [m | ].
  - apply Nat.ltb_ge in H. rewrite H. reflexivity.
  - rewrite H, Nat.eqb_refl. reflexivity.
Qed.

Lemma zip_ok_length : forall ss args, List.length ss = List.length args -> List.length (zip_ok ss args) = List.length args.
Proof.
  induction ss as [|s ss IH]; destruct args as [|a args]; simpl; intro H; try discriminate; try reflexivity.
  f_equal. apply IH. lia.
Qed.

Lemma zip_ok_nth : forall ss args i, List.length ss = List.length args -> (i < List.length args)%nat ->
  nth i (zip_ok ss args) true = shape_ok (nth i ss ShScalar) (nth i args ANumber).
Proof.
  induction ss as [|s ss IH]; destruct args as [|a args]; simpl; intros i H Hi; try discriminate; try lia.
  destruct i; [reflexivity | ]. apply IH; lia.
Qed.

Lemma expected_shapes_length : forall sp n, arity_ok sp n -> List.length (expected_shapes sp n) = n.
Proof.
  intros sp n H. unfold expected_shapes, arity_ok in *. destruct (ds_min sp); [apply repeat_length | exact H].
Qed.

Lemma forallb_id_nth : forall l, forallb (fun b : bool => b) l = true <-> (forall i, (i < List.length l)%nat -> nth i l true = true).
Proof.
  induction l as [|b l IH]; simpl.
  - split; [intros _ i Hi; lia | reflexivity].
  - rewrite andb_true_iff, IH. split.
    + intros [Hb Hl] i Hi. destruct i; [exact Hb | apply Hl; lia].
    + intro H. split; [apply (H 0%nat); lia | intros i Hi; apply (H (S i)); lia].
Qed.

(* the decorated function is called  iff  the count is right and every argument has the expected shape *)
Lemma validate_call_iff : forall sp args,
  validate sp args = VCall <->
  arity_ok sp (List.length args) /\
  forall i, (i < List.length args)%nat ->
            shape_ok (nth i (expected_shapes sp (List.length args)) ShScalar) (nth i args ANumber) = true.
Proof.
  intros sp args. split.
  - intro H. assert (A : arity_ok sp (List.length args)).
    { unfold validate, arity_ok in *. destruct (ds_min sp) as [m|].
      - destruct (Nat.ltb (List.length args) m) eqn:E; [discriminate | ]. apply Nat.ltb_ge in E. exact E.
      - destruct (Nat.eqb (List.length (ds_shapes sp)) (List.length args)) eqn:E; simpl in H; [ | discriminate].
        apply Nat.eqb_eq in E. exact E. }
    split; [exact A | ].
    rewrite (validate_ok_arity sp args A) in H. cbv zeta in H.
    destruct (forallb (fun b => b) _) eqn:F; [ | discriminate].
    rewrite forallb_id_nth in F. intros i Hi.
    rewrite <- zip_ok_nth; [ | rewrite expected_shapes_length; [reflexivity | exact A] | exact Hi].
    apply F. rewrite zip_ok_length; [exact Hi | ]. rewrite expected_shapes_length; [reflexivity | exact A].
  - intros [A Hs]. rewrite (validate_ok_arity sp args A). cbv zeta.
    assert (F : forallb (fun b => b) (zip_ok (expected_shapes sp (List.length args)) args) = true).
    { apply forallb_id_nth. intros i Hi.
      rewrite zip_ok_length in Hi by (rewrite expected_shapes_length; [reflexivity | exact A]).
      rewrite zip_ok_nth; [apply Hs; exact Hi | rewrite expected_shapes_length; [reflexivity | exact A] | exact Hi]. }
    rewrite F. reflexivity.
Qed.

(* right count, some argument of the wrong shape: ArgumentShapeError whose per-argument lines are exactly shape_ok *)
Lemma validate_shape_error : forall sp args i,
  arity_ok sp (List.length args) -> (i < List.length args)%nat ->
  shape_ok (nth i (expected_shapes sp (List.length args)) ShScalar) (nth i args ANumber) = false ->
  exists flags, validate sp args = VShape flags /\ List.length flags = List.length args /\ nth i flags true = false
                /\ forall k, (k < List.length args)%nat ->
                   nth k flags true = shape_ok (nth k (expected_shapes sp (List.length args)) ShScalar) (nth k args ANumber).
Proof.
  intros sp args i A Hi Hbad.
  pose proof (expected_shapes_length sp _ A) as L.
  exists (zip_ok (expected_shapes sp (List.length args)) args).
  rewrite (validate_ok_arity sp args A). cbv zeta.
  assert (N : nth i (zip_ok (expected_shapes sp (List.length args)) args) true = false).
  { rewrite zip_ok_nth; [exact Hbad | exact L | exact Hi]. }
  destruct (forallb (fun b => b) _) eqn:F.
  - rewrite forallb_id_nth in F. rewrite F in N; [discriminate | ]. rewrite zip_ok_length; [exact Hi | exact L].
  - split; [reflexivity | ]. split; [apply zip_ok_length; exact L | ]. split; [exact N | ].
    intros k Hk. apply zip_ok_nth; [exact L | exact Hk].
Qed.

(* the wrapper as a callable *)
Lemma wrap_wrong_count : forall V sp (shape_of : V -> argshape) item f args,
  ~ arity_ok sp (List.length args) -> wrap sp shape_of item f args = Raise XArgumentError.
Proof.
  intros V sp shape_of item f args H. unfold wrap.
  destruct (validate_arity sp (map shape_of args)) as [e [a E]]; [rewrite map_length; exact H | ].
  rewrite E. reflexivity.
Qed.

Lemma wrap_wrong_shape : forall V sp (shape_of : V -> argshape) item f args i,
  arity_ok sp (List.length args) -> (i < List.length args)%nat ->
  shape_ok (nth i (expected_shapes sp (List.length args)) ShScalar) (nth i (map shape_of args) ANumber) = false ->
  wrap sp shape_of item f args = Raise XArgumentShapeError.
Proof.
  intros V sp shape_of item f args i A Hi Hbad. unfold wrap.
  destruct (validate_shape_error sp (map shape_of args) i) as [flags [E _]];
    rewrite ?map_length; try assumption.
  rewrite E. reflexivity.
Qed.

(* when validation passes the function is called on the validated values *)
Lemma wrap_calls : forall V sp (shape_of : V -> argshape) item f args,
  validate sp (map shape_of args) = VCall ->
  wrap sp shape_of item f args = f (coerce item (expected_shapes sp (List.length args)) args).
Proof. intros. unfold wrap. rewrite H. reflexivity. Qed.

Lemma coerce_length : forall V (item : V -> V) ss args, List.length ss = List.length args ->
  List.length (coerce item ss args) = List.length args.
Proof.
  induction ss as [|s ss IH]; destruct args as [|a args]; simpl; intro H; try discriminate; try reflexivity.
  f_equal. apply IH. lia.
Qed.

Lemma coerce_nth : forall V (item : V -> V) ss args i d, List.length ss = List.length args -> (i < List.length args)%nat ->
  nth i (coerce item ss args) d =
  match nth i ss ShSquare with ShScalar => item (nth i args d) | _ => nth i args d end.
Proof.
  induction ss as [|s ss IH]; destruct args as [|a args]; simpl; intros i d H Hi; try discriminate; try lia.
  destruct i; [destruct s; reflexivity | ]. apply IH; lia.
Qed.

(* what a scalar-domain function receives is a number (never a one-element array), and what any other position
   receives is the argument itself *)
Lemma validated_arguments : forall V sp (shape_of : V -> argshape) (item : V -> V) args d,
  (forall a, shape_ok ShScalar (shape_of a) = true -> shape_of (item a) = ANumber) ->
  validate sp (map shape_of args) = VCall ->
  List.length (coerce item (expected_shapes sp (List.length args)) args) = List.length args /\
  forall i, (i < List.length args)%nat ->
    match nth i (expected_shapes sp (List.length args)) ShSquare with
    | ShScalar => shape_of (nth i (coerce item (expected_shapes sp (List.length args)) args) d) = ANumber
    | _ => nth i (coerce item (expected_shapes sp (List.length args)) args) d = nth i args d
    end.
Proof.
  intros V sp shape_of item args d Hitem Hv.
  apply validate_call_iff in Hv. rewrite map_length in Hv. destruct Hv as [A Hs].
  pose proof (expected_shapes_length sp _ A) as L.
  split; [apply coerce_length; exact L | ].
  intros i Hi. rewrite coerce_nth by assumption.
  destruct (nth i (expected_shapes sp (List.length args)) ShSquare) eqn:E; try reflexivity.
  apply Hitem. specialize (Hs i Hi).
  rewrite (nth_indep _ ShScalar ShSquare) in Hs by (rewrite L; exact Hi). rewrite E in Hs.
  rewrite (nth_indep _ ANumber (shape_of d)) in Hs by (rewrite map_length; exact Hi).
  rewrite map_nth in Hs. exact Hs.
Qed.

(* ---------------- eval_function ---------------- *)
Lemma handle_student_facing : forall e, student_facing (handle Gen.MathFuncs.gen_eval_function_handlers e) = true.
Proof. destruct e; reflexivity. Qed.

Lemma handle_classes : forall e,
  handle Gen.MathFuncs.gen_eval_function_handlers e =
  if student_facing e then e
  else match e with XZeroDivisionError => XCalcZeroDivisionError | XOverflowError => XCalcOverflowError | _ => XFunctionEvalError end.
Proof. destruct e; reflexivity. Qed.

(* whatever the called function does, only a value or a student-facing error comes out *)
Lemma eval_function_student_facing : forall V validated nargs (f : list V -> outcome V) args e,
  eval_function Gen.MathFuncs.gen_eval_function_handlers Gen.MathFuncs.gen_arity_mismatch validated nargs f args = Raise e ->
  student_facing e = true.
Proof.
  intros V validated nargs f args e. unfold eval_function.
  destruct (negb validated && negb (Nat.eqb nargs (List.length args))).
  - intro H. inversion H. reflexivity.
  - destruct (f args); intro H; inversion H. apply handle_student_facing.
Qed.

Lemma eval_function_wrong_count : forall V nargs (f : list V -> outcome V) args,
  nargs <> List.length args ->
  eval_function Gen.MathFuncs.gen_eval_function_handlers Gen.MathFuncs.gen_arity_mismatch false nargs f args = Raise XArgumentError.
Proof.
  intros V nargs f args H. unfold eval_function. simpl negb.
  apply Nat.eqb_neq in H. rewrite H. reflexivity.
Qed.

Lemma eval_function_value : forall V validated nargs (f : list V -> outcome V) args v,
  eval_function Gen.MathFuncs.gen_eval_function_handlers Gen.MathFuncs.gen_arity_mismatch validated nargs f args = Val v ->
  f args = Val v.
Proof.
  intros V validated nargs f args v. unfold eval_function.
  destruct (negb validated && negb (Nat.eqb nargs (List.length args))); [discriminate | ].
  destruct (f args); intro H; inversion H; reflexivity.
Qed.

(* a call of a table entry: wrong count -> ArgumentError; wrong shape -> ArgumentShapeError; anything else that goes
   wrong inside the function -> a student-facing error *)
Lemma call_entry_student_facing : forall V e (shape_of : V -> argshape) item nargs raw args x,
  call_entry Gen.MathFuncs.gen_eval_function_handlers Gen.MathFuncs.gen_arity_mismatch e shape_of item nargs raw args = Raise x ->
  student_facing x = true.
Proof.
  intros V e shape_of item nargs raw args x. unfold call_entry. destruct (fe_spec e); apply eval_function_student_facing.
Qed.

Lemma call_entry_wrong_count_validated : forall V e sp (shape_of : V -> argshape) item nargs raw args,
  fe_spec e = Some sp -> ~ arity_ok sp (List.length args) ->
  call_entry Gen.MathFuncs.gen_eval_function_handlers Gen.MathFuncs.gen_arity_mismatch e shape_of item nargs raw args = Raise XArgumentError.
Proof.
  intros V e sp shape_of item nargs raw args E H. unfold call_entry. rewrite E. unfold eval_function. simpl.
  rewrite wrap_wrong_count by exact H. reflexivity.
Qed.

Lemma call_entry_wrong_count_unvalidated : forall V e (shape_of : V -> argshape) item nargs raw args,
  fe_spec e = None -> nargs <> List.length args ->
  call_entry Gen.MathFuncs.gen_eval_function_handlers Gen.MathFuncs.gen_arity_mismatch e shape_of item nargs raw args = Raise XArgumentError.
Proof.
  intros V e shape_of item nargs raw args E H. unfold call_entry. rewrite E. apply eval_function_wrong_count. exact H.
Qed.

Lemma call_entry_wrong_shape : forall V e sp (shape_of : V -> argshape) item nargs raw args i,
  fe_spec e = Some sp -> arity_ok sp (List.length args) -> (i < List.length args)%nat ->
  shape_ok (nth i (expected_shapes sp (List.length args)) ShScalar) (nth i (map shape_of args) ANumber) = false ->
  call_entry Gen.MathFuncs.gen_eval_function_handlers Gen.MathFuncs.gen_arity_mismatch e shape_of item nargs raw args = Raise XArgumentShapeError.
Proof.
  intros V e sp shape_of item nargs raw args i E A Hi Hb. unfold call_entry. rewrite E. unfold eval_function. simpl.
  rewrite (wrap_wrong_shape V sp shape_of item raw args i A Hi Hb). reflexivity.
Qed.

(* ---------------- numpy error state ---------------- *)
Definition configured_fp_event (k : fpkind) : option pyexc :=
  fp_event Gen.MathFuncs.gen_seterr Gen.MathFuncs.gen_seterrcall_installed Gen.MathFuncs.gen_np_handler
           Gen.MathFuncs.gen_np_handler_default k.

(* division by zero, overflow and invalid operations inside a ufunc never produce inf/nan or a warning: they raise,
   and eval_function turns what they raise into a student-facing error *)
Lemma fp_events_raise : forall k, k <> FPUnder ->
  exists e, configured_fp_event k = Some e /\
            student_facing (handle Gen.MathFuncs.gen_eval_function_handlers e) = true /\
            handle Gen.MathFuncs.gen_eval_function_handlers e =
              match k with FPDivide => XCalcZeroDivisionError | FPOver => XCalcOverflowError | _ => XFunctionEvalError end.
Proof.
  intros k H. destruct k; try contradiction; eexists; repeat split.
Qed.

(* ---------------- finite facts about the regenerated tables ---------------- *)
Inductive arity := Exactly (n : nat) | AtLeast (n : nat) | Unvalidated.

Definition entry_arity (e : fentry) : arity :=
  match fe_spec e with
  | None => Unvalidated
  | Some sp => match ds_min sp with Some m => AtLeast m | None => Exactly (List.length (ds_shapes sp)) end
  end.

Definition arity_eqb (a b : arity) : bool :=
  match a, b with
  | Exactly n, Exactly m | AtLeast n, AtLeast m => Nat.eqb n m
  | Unvalidated, Unvalidated => true
  | _, _ => false
  end.

Open Scope string_scope.
(* docs/grading_math/functions_and_constants.md *)
Definition documented_default : list (string * arity) :=
  map (fun n => (n, Exactly 1%nat))
      ["sin"; "cos"; "tan"; "sec"; "csc"; "cot"; "sqrt"; "log10"; "log2"; "ln"; "exp"; "arccos"; "arcsin"; "arctan";
       "arcsec"; "arccsc"; "arccot"; "abs"; "factorial"; "fact"; "sinh"; "cosh"; "tanh"; "sech"; "csch"; "coth";
       "arcsinh"; "arccosh"; "arctanh"; "arcsech"; "arccsch"; "arccoth"; "floor"; "ceil"]
  ++ [("arctan2", Exactly 2%nat); ("kronecker", Exactly 2%nat); ("min", AtLeast 2%nat); ("max", AtLeast 2%nat);
      ("re", Unvalidated); ("im", Unvalidated); ("conj", Unvalidated)].
Definition documented_matrix_extra : list (string * arity) :=
  [("norm", Unvalidated); ("abs", Unvalidated); ("trans", Unvalidated); ("det", Exactly 1%nat); ("trace", Exactly 1%nat);
   ("ctrans", Unvalidated); ("adj", Unvalidated); ("cross", Exactly 2%nat)].

Definition table_matches (t : table) (doc : list (string * arity)) : bool :=
  forallb (fun d => match lookup t (fst d) with Some e => arity_eqb (entry_arity e) (snd d) | None => false end) doc
  && forallb (fun k => existsb (String.eqb k) (map fst doc)) (keys t).

Lemma default_table_documented : table_matches Gen.MathFuncs.gen_default_functions documented_default = true.
Proof. vm_compute. reflexivity. Qed.

Lemma matrix_table_documented :
  table_matches Gen.MathFuncs.gen_matrix_functions
                (filter (fun d => negb (String.eqb (fst d) "abs")) documented_default ++ documented_matrix_extra) = true.
Proof. vm_compute. reflexivity. Qed.

(* every one-argument scalar function is validated as (scalar) under its own name; arctan2/kronecker as (scalar, scalar) *)
Lemma scalar_entries_validated : forall k t, In (k, t) elementwise ->
  lookup Gen.MathFuncs.gen_default_functions k = Some (mkF t (Some (mkSpec [ShScalar] None (Some k)))).
Proof.
  intros k t H. unfold elementwise in H. simpl in H.
  repeat (destruct H as [H | H]; [inversion H; subst; vm_compute; reflexivity | ]). contradiction.
Qed.

Lemma constants_table : Gen.MathFuncs.gen_default_variables =
  [("i", KComplex 0 1); ("j", KComplex 0 1); ("e", KNpE); ("pi", KNpPi)].
Proof. reflexivity. Qed.
