(* Proofs/SamplerReal.v -- the two places of C12 where transcendental functions enter, over Coq's real numbers
   with the genuine sin / cos (the rational model treats np.sin / np.exp as oracles):
     * ComplexSector: m * exp(i theta) has modulus |m|;
     * RandomFunction (real-valued): |f(x) - center| <= amplitude for every input_dim.
   The coefficients are those the rational model draws (rf_draw), the evaluation points are rational. *)
From Coq Require Import Lqa Reals Lra Lia ZArith QArith Qreals List.
From Verif.Lib Require Import QRound.
From Verif.Model Require Import Sampler.
From Verif.Proofs Require Import Credit Sampler.
Import ListNotations.
Open Scope R_scope.

(* ------------------------------------------------------------------------------------------ *)
(* ComplexSector                                                                              *)
(* ------------------------------------------------------------------------------------------ *)
Definition sectorR (m theta : Q) : R * R := (Q2R m * cos (Q2R theta), Q2R m * sin (Q2R theta)).

Lemma sectorR_modulus : forall m theta,
  sqrt ((fst (sectorR m theta))² + (snd (sectorR m theta))²) = Rabs (Q2R m).
Proof.
  intros m theta. unfold sectorR. simpl.
  replace ((Q2R m * cos (Q2R theta))² + (Q2R m * sin (Q2R theta))²)
    with ((Q2R m)² * ((sin (Q2R theta))² + (cos (Q2R theta))²)) by (unfold Rsqr; ring).
  rewrite sin2_cos2, Rmult_1_r. apply sqrt_Rsqr_abs.
Qed.

Lemma sector_real_sound : forall m0 m1 a0 a1 u1 u2 : Q,
  (0 <= u1 < 1)%Q -> (0 <= u2 < 1)%Q ->
  let m := sector_modulus m0 m1 u1 in
  let theta := sector_argument a0 a1 u2 in
  let z := sectorR m theta in
  (Qmin m0 m1 <= m <= Qmax m0 m1)%Q /\ (Qmin a0 a1 <= theta <= Qmax a0 a1)%Q /\
  sqrt ((fst z)² + (snd z)²) = Rabs (Q2R m) /\
  ((0 <= Qmin m0 m1)%Q -> Q2R (Qmin m0 m1) <= sqrt ((fst z)² + (snd z)²) <= Q2R (Qmax m0 m1)).
Proof.
  intros m0 m1 a0 a1 u1 u2 [A1 A2] [B1 B2]. cbv zeta.
  destruct (real_interval_range m0 m1 u1 A1 A2) as (R1 & R2 & _).
  destruct (real_interval_range a0 a1 u2 B1 B2) as (I1 & I2 & _).
  unfold sector_modulus, sector_argument.
  split; [split; assumption|]. split; [split; assumption|]. split; [apply sectorR_modulus|].
  intro Hpos. rewrite sectorR_modulus.
  assert (H0 : 0 <= Q2R (real_interval m0 m1 u1)).
  { replace 0 with (Q2R 0) by (unfold Q2R; simpl; lra). apply Qle_Rle. apply Qle_trans with (Qmin m0 m1); assumption. }
  rewrite Rabs_right by lra. split; apply Qle_Rle; assumption.
Qed.

(* ------------------------------------------------------------------------------------------ *)
(* RandomFunction, real-valued                                                                *)
(* ------------------------------------------------------------------------------------------ *)
Fixpoint rfR_inner (ts : list rf_term) (xs : list Q) : R :=
  match ts, xs with
  | t :: ts', x :: xs' => Q2R (cre (t_a t)) * sin (Q2R (t_b t) * Q2R x + Q2R (t_c t)) + rfR_inner ts' xs'
  | _, _ => 0
  end.

Fixpoint rsum (l : list R) : R := match l with [] => 0 | x :: r => x + rsum r end.

Definition rfR_component (input_dim : nat) (center amplitude : Q) (num_terms : nat) (rows : list (list rf_term)) (xs : list Q) : R :=
  rsum (map (fun ts => rfR_inner ts xs) rows) * Q2R amplitude / (INR num_terms * INR input_dim) + Q2R center.

Definition ampl_ok (t : rf_term) : Prop := (-1 <= cre (t_a t) <= 1)%Q.

Lemma Q2R_1 : Q2R 1 = 1.
Proof. unfold Q2R. simpl. lra. Qed.
Lemma Q2R_m1 : Q2R (-1) = -1.
Proof. unfold Q2R. simpl. lra. Qed.
Lemma Q2R_0 : Q2R 0 = 0.
Proof. unfold Q2R. simpl. lra. Qed.

Lemma rfR_inner_bound : forall ts xs, Forall ampl_ok ts -> Rabs (rfR_inner ts xs) <= INR (length ts).
Proof.
  induction ts as [|t ts IH]; intros xs H.
  - simpl. rewrite Rabs_R0. lra.
  - inversion H as [|? ? [H1 H2] Hr]; subst. destruct xs as [|x xs].
    + simpl rfR_inner. rewrite Rabs_R0. apply pos_INR.
    + simpl rfR_inner. change (length (t :: ts)) with (S (length ts)). rewrite S_INR.
      apply Qle_Rle in H1. apply Qle_Rle in H2. rewrite Q2R_m1 in H1. rewrite Q2R_1 in H2.
      pose proof (SIN_bound (Q2R (t_b t) * Q2R x + Q2R (t_c t))) as [S1 S2].
      specialize (IH xs Hr).
      set (a := Q2R (cre (t_a t))) in *. set (s := sin (Q2R (t_b t) * Q2R x + Q2R (t_c t))) in *.
      assert (Ha : Rabs (a * s) <= 1).
      { rewrite Rabs_mult. assert (Rabs a <= 1) by (apply Rabs_le; lra). assert (Rabs s <= 1) by (apply Rabs_le; lra).
        pose proof (Rabs_pos a). pose proof (Rabs_pos s). nra. }
      eapply Rle_trans; [apply Rabs_triang|]. lra.
Qed.

Lemma rsum_bound : forall l b, Forall (fun x => Rabs x <= b) l -> Rabs (rsum l) <= INR (length l) * b.
Proof.
  induction l as [|x l IH]; intros b H.
  - simpl. rewrite Rabs_R0. lra.
  - inversion H; subst. simpl rsum. simpl length. rewrite S_INR.
    eapply Rle_trans; [apply Rabs_triang|]. specialize (IH b H3). lra.
Qed.

(* the declared bound, with the genuine sine *)
Lemma rfR_component_bound : forall center amplitude (num_terms input_dim : nat) rows xs,
  (0 <= amplitude)%Q -> (0 < num_terms)%nat -> (0 < input_dim)%nat -> length rows = num_terms ->
  Forall (fun ts => length ts = input_dim /\ Forall ampl_ok ts) rows ->
  Rabs (rfR_component input_dim center amplitude num_terms rows xs - Q2R center) <= Q2R amplitude.
Proof.
  intros center amplitude num_terms input_dim rows xs Ha Hn Hi Hl Hr. unfold rfR_component.
  set (S := rsum (map (fun ts => rfR_inner ts xs) rows)).
  assert (HS : Rabs S <= INR num_terms * INR input_dim).
  { unfold S. rewrite <- Hl, <- (map_length (fun ts => rfR_inner ts xs) rows). apply rsum_bound.
    apply Forall_forall. intros y Hy. apply in_map_iff in Hy. destruct Hy as (ts & <- & Hin).
    rewrite Forall_forall in Hr. destruct (Hr ts Hin) as [L T]. rewrite <- L. apply rfR_inner_bound. exact T. }
  assert (HN : 0 < INR num_terms) by (apply lt_0_INR; exact Hn).
  assert (HK : 0 < INR input_dim) by (apply lt_0_INR; exact Hi).
  assert (HNK : 0 < INR num_terms * INR input_dim) by (apply Rmult_lt_0_compat; assumption).
  assert (HA : 0 <= Q2R amplitude) by (rewrite <- Q2R_0; apply Qle_Rle; exact Ha).
  set (NK := INR num_terms * INR input_dim) in *.
  replace (S * Q2R amplitude / NK + Q2R center - Q2R center) with (S * (Q2R amplitude / NK)) by (field; lra).
  rewrite Rabs_mult. rewrite (Rabs_right (Q2R amplitude / NK)).
  - replace (Q2R amplitude) with (NK * (Q2R amplitude / NK)) at 2 by (field; lra).
    apply Rmult_le_compat_r; [|exact HS]. apply Rle_mult_inv_pos; assumption.
  - apply Rle_ge. apply Rle_mult_inv_pos; assumption.
Qed.

(* drawn real coefficients have amplitude in [1/2, 1) *)
Lemma rf_coeff_ampl_ok : forall expi r, raw_ok r -> ampl_ok (rf_coeff expi false r).
Proof.
  intros expi r (Ha & _). destruct (rf_amp_range _ Ha) as [A1 A2].
  unfold ampl_ok, rf_coeff, cre, cofQ. simpl. split; Lqa.lra.
Qed.

Lemma rf_real_sound : forall expi (input_dim output_dim num_terms : nat) center amplitude raw xs,
  (0 <= amplitude)%Q -> (0 < num_terms)%nat -> (0 < input_dim)%nat ->
  rf_shape_ok output_dim num_terms input_dim raw = true -> raw3_ok raw ->
  Forall (fun rows => Q2R center - Q2R amplitude <= rfR_component input_dim center amplitude num_terms rows xs
                      <= Q2R center + Q2R amplitude) (rf_draw expi false raw).
Proof.
  intros expi input_dim output_dim num_terms center amplitude raw xs Ha Hn Hi Hshape Hraw.
  apply rf_shape_ok_spec in Hshape. destruct Hshape as [_ Hrows].
  apply Forall_forall. intros rows' Hin. unfold rf_draw in Hin. apply in_map_iff in Hin. destruct Hin as (rows & <- & Hin).
  rewrite Forall_forall in Hrows. destruct (Hrows rows Hin) as [Lt Li].
  unfold raw3_ok in Hraw. rewrite Forall_forall in Hraw. specialize (Hraw rows Hin).
  assert (Hb : Rabs (rfR_component input_dim center amplitude num_terms (map (map (rf_coeff expi false)) rows) xs - Q2R center)
               <= Q2R amplitude).
  { apply rfR_component_bound; try assumption.
    - rewrite map_length. exact Lt.
    - apply Forall_forall. intros ts' Hts'. apply in_map_iff in Hts'. destruct Hts' as (ts & <- & Hts).
      rewrite Forall_forall in Li, Hraw. split; [rewrite map_length; auto|].
      apply Forall_forall. intros t Ht. apply in_map_iff in Ht. destruct Ht as (r & <- & Hr).
      specialize (Hraw ts Hts). rewrite Forall_forall in Hraw. apply rf_coeff_ampl_ok. apply Hraw. exact Hr. }
  revert Hb. unfold Rabs. destruct (Rcase_abs _); intro Hb; lra.
Qed.

(* regression: the draws that used to exceed the bound with the genuine sine (input_dim = 3, one term,
   A = 7/8, B = 1/2, C = 1/8 three times) stay inside center +/- amplitude now *)
Definition rfR_witness_raw : list (list (list rf_raw)) :=
  [[[mkRaw (7#8) 0 (1#2) (1#8); mkRaw (7#8) 0 (1#2) (1#8); mkRaw (7#8) 0 (1#2) (1#8)]]].

Lemma rfR_witness_raw_ok : raw3_ok rfR_witness_raw.
Proof. unfold raw3_ok, rfR_witness_raw. repeat constructor; simpl; Lqa.lra. Qed.

Lemma rf_real_former_witness : forall xs,
  Forall (fun rows => -1 <= rfR_component 3 0 1 1 rows xs <= 1) (rf_draw (fun _ => c1) false rfR_witness_raw).
Proof.
  intro xs.
  pose proof (rf_real_sound (fun _ => c1) 3 1 1 0%Q 1%Q rfR_witness_raw xs) as H.
  assert (H' := H ltac:(Lqa.lra) ltac:(lia) ltac:(lia) eq_refl rfR_witness_raw_ok).
  eapply Forall_impl; [|exact H']. intros rows Hb. cbv beta in Hb. rewrite Q2R_0, Q2R_1 in Hb. lra.
Qed.
