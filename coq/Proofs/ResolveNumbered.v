(* Proofs/ResolveNumbered.v -- specification of the numbered-variable matcher of Model/Resolve.v (C13):
   numbered_match heads s = Some h  iff  h is the first head with  s = h ++ "_{" ++ decimal(z) ++ "}"  for an integer z,
   where decimal(z) is the standard library's canonical rendering Z.to_int (no leading zeros, no "-0", no "+"). *)
From Coq Require Import ZArith List Bool Lia Decimal DecimalFacts DecimalZ.
From Verif.Model Require Import Result Resolve.
From Verif.Proofs Require Import Resolve.
Import ListNotations.
Local Open Scope Z_scope.

Fixpoint uint_codes (d : uint) : str :=
  match d with
  | Nil => []
  | D0 d => 48%Z :: uint_codes d | D1 d => 49%Z :: uint_codes d | D2 d => 50%Z :: uint_codes d
  | D3 d => 51%Z :: uint_codes d | D4 d => 52%Z :: uint_codes d | D5 d => 53%Z :: uint_codes d
  | D6 d => 54%Z :: uint_codes d | D7 d => 55%Z :: uint_codes d | D8 d => 56%Z :: uint_codes d
  | D9 d => 57%Z :: uint_codes d
  end.

Definition int_codes (d : int) : str :=
  match d with Pos u => uint_codes u | Neg u => 45%Z :: uint_codes u end.

(* str(z) in Python for an int z *)
Definition render_Z (z : Z) : str := int_codes (Z.to_int z).

Definition starts_nonzero (d : uint) : bool := match d with Nil | D0 _ => false | _ => true end.

Lemma nzhead_fix : forall d, nzhead d = d <-> d = Nil \/ starts_nonzero d = true.
Proof.
  intro d. destruct d; simpl; try (split; [intros _; right; reflexivity | reflexivity]).
  - split; auto.
  - split.
    + intro H. exfalso. exact (nzhead_nonzero _ _ H).
    + intros [H|H]; discriminate.
Qed.

Lemma unorm_fix : forall u, unorm u = u <-> u = zero \/ starts_nonzero u = true.
Proof.
  intro u. split.
  - intro H. destruct u; try (right; reflexivity).
    + discriminate.
    + left. rewrite unorm_D0 in H. unfold unorm in H. destruct (nzhead u) eqn:N.
      * inversion H. reflexivity.
      * exfalso. rewrite H in N. exact (nzhead_nonzero _ _ N).
      * exfalso. rewrite H in N. exact (nzhead_nonzero _ _ N).
      * exfalso. rewrite H in N. exact (nzhead_nonzero _ _ N).
      * exfalso. rewrite H in N. exact (nzhead_nonzero _ _ N).
      * exfalso. rewrite H in N. exact (nzhead_nonzero _ _ N).
      * exfalso. rewrite H in N. exact (nzhead_nonzero _ _ N).
      * exfalso. rewrite H in N. exact (nzhead_nonzero _ _ N).
      * exfalso. rewrite H in N. exact (nzhead_nonzero _ _ N).
      * exfalso. rewrite H in N. exact (nzhead_nonzero _ _ N).
      * exfalso. rewrite H in N. exact (nzhead_nonzero _ _ N).
  - intros [H|H]; [subst; reflexivity | ]. destruct u; try discriminate; reflexivity.
Qed.

Lemma norm_fix : forall d, norm d = d <->
  match d with Pos u => u = zero \/ starts_nonzero u = true | Neg u => starts_nonzero u = true end.
Proof.
  intros [u|u]; simpl.
  - rewrite <- unorm_fix. split; [intro H; inversion H as [H']; rewrite H'; exact H' | intro H; rewrite H; reflexivity].
  - split.
    + intro H. destruct u; try reflexivity.
      * simpl in H. discriminate.
      * exfalso. simpl in H. destruct (nzhead u) eqn:N; inversion H as [H']; exact (nzhead_nonzero _ _ N).
    + intro H. destruct u; try discriminate; reflexivity.
Qed.

Lemma render_range : forall s, (exists z, s = render_Z z) <-> exists d, norm d = d /\ s = int_codes d.
Proof.
  intro s. unfold render_Z. split.
  - intros [z H]. exists (Z.to_int z). split; [ | exact H].
    rewrite <- DecimalZ.to_of. rewrite DecimalZ.of_to. reflexivity.
  - intros [d [N H]]. exists (Z.of_int d). rewrite DecimalZ.to_of, N. exact H.
Qed.

Lemma uint_codes_digits : forall d, forallb is_digit (uint_codes d) = true.
Proof. induction d; simpl; auto. Qed.

Lemma digit_cases : forall c, is_digit c = true ->
  c = 48 \/ c = 49 \/ c = 50 \/ c = 51 \/ c = 52 \/ c = 53 \/ c = 54 \/ c = 55 \/ c = 56 \/ c = 57.
Proof. intros c H. unfold is_digit in H. apply andb_true_iff in H. destruct H as [A B]. apply Z.leb_le in A, B. lia. Qed.

Lemma digits_uint : forall r, forallb is_digit r = true -> exists d, uint_codes d = r.
Proof.
  induction r as [|c r IH]; intro H; [exists Nil; reflexivity | ].
  simpl in H. apply andb_true_iff in H. destruct H as [Hc Hr]. destruct (IH Hr) as [d Hd].
  destruct (digit_cases c Hc) as [E|[E|[E|[E|[E|[E|[E|[E|[E|E]]]]]]]]]; subst c.
  - exists (D0 d). simpl. congruence.
  - exists (D1 d). simpl. congruence.
  - exists (D2 d). simpl. congruence.
  - exists (D3 d). simpl. congruence.
  - exists (D4 d). simpl. congruence.
  - exists (D5 d). simpl. congruence.
  - exists (D6 d). simpl. congruence.
  - exists (D7 d). simpl. congruence.
  - exists (D8 d). simpl. congruence.
  - exists (D9 d). simpl. congruence.
Qed.

(* lists of code points c :: r with c in 1..9 and r digits are exactly the renderings of the uints that start nonzero *)
Lemma nonzero_codes : forall s,
  (exists d, starts_nonzero d = true /\ uint_codes d = s) <->
  (exists c r, s = c :: r /\ is_nonzero_digit c = true /\ forallb is_digit r = true).
Proof.
  intro s. split.
  - intros [d [S H]]. destruct d; try discriminate; simpl in H; subst s;
      eexists; eexists; (split; [reflexivity | split; [reflexivity | apply uint_codes_digits]]).
  - intros [c [r [E [Hc Hr]]]]. subst s. destruct (digits_uint r Hr) as [d Hd].
    assert (Dc : is_digit c = true).
    { unfold is_nonzero_digit in Hc. unfold is_digit. apply andb_true_iff in Hc. destruct Hc as [A B].
      apply Z.leb_le in A, B. apply andb_true_iff. split; apply Z.leb_le; lia. }
    assert (NZ : c <> 48).
    { unfold is_nonzero_digit in Hc. apply andb_true_iff in Hc. destruct Hc as [A _]. apply Z.leb_le in A. lia. }
    destruct (digit_cases c Dc) as [E|[E|[E|[E|[E|[E|[E|[E|[E|E]]]]]]]]]; subst c; try congruence.
    + exists (D1 d). simpl. split; congruence.
    + exists (D2 d). simpl. split; congruence.
    + exists (D3 d). simpl. split; congruence.
    + exists (D4 d). simpl. split; congruence.
    + exists (D5 d). simpl. split; congruence.
    + exists (D6 d). simpl. split; congruence.
    + exists (D7 d). simpl. split; congruence.
    + exists (D8 d). simpl. split; congruence.
    + exists (D9 d). simpl. split; congruence.
Qed.

Lemma nonzero_digit_not : forall c, is_nonzero_digit c = true -> Z.eqb c 48 = false /\ Z.eqb c 45 = false.
Proof.
  intros c H. unfold is_nonzero_digit in H. apply andb_true_iff in H. destruct H as [A B]. apply Z.leb_le in A, B.
  split; apply Z.eqb_neq; lia.
Qed.

Theorem canonical_index_spec : forall s, is_canonical_index s = true <-> exists z : Z, s = render_Z z.
Proof.
  intro s. rewrite render_range. split.
  - intro H. destruct s as [|c r]; [discriminate | ]. simpl in H.
    destruct (Z.eqb c 48) eqn:E0.
    + apply Z.eqb_eq in E0. subst c. destruct r; [ | discriminate].
      exists (Pos zero). split; reflexivity.
    + destruct (Z.eqb c 45) eqn:E1.
      * apply Z.eqb_eq in E1. subst c. destruct r as [|d r']; [discriminate | ].
        apply andb_true_iff in H. destruct H as [Hd Hr].
        destruct (proj2 (nonzero_codes (d :: r'))) as [u [S U]]; [exists d, r'; auto | ].
        exists (Neg u). split; [apply norm_fix; exact S | simpl; congruence].
      * apply andb_true_iff in H. destruct H as [Hc Hr].
        destruct (proj2 (nonzero_codes (c :: r))) as [u [S U]]; [exists c, r; auto | ].
        exists (Pos u). split; [apply norm_fix; right; exact S | simpl; congruence].
  - intros [d [N H]]. apply norm_fix in N. destruct d as [u|u]; simpl in H.
    + destruct N as [N|N].
      * subst u. subst s. reflexivity.
      * destruct (proj1 (nonzero_codes s)) as [c [r [E [Hc Hr]]]]; [exists u; auto | ].
        subst s. rewrite E. simpl. destruct (nonzero_digit_not c Hc) as [A B]. rewrite A, B, Hc, Hr. reflexivity.
    + destruct (proj1 (nonzero_codes (uint_codes u))) as [c [r [E [Hc Hr]]]]; [exists u; auto | ].
      subst s. rewrite E. simpl. rewrite Hc, Hr. reflexivity.
Qed.

Lemma strip_prefix_spec : forall p s rest, strip_prefix p s = Some rest <-> s = p ++ rest.
Proof.
  induction p as [|a p IH]; intros s rest; simpl.
  - split; [intro H; inversion H; reflexivity | intro H; subst; reflexivity].
  - destruct s as [|b s].
    + split; [discriminate | intro H; discriminate].
    + destruct (Z.eqb a b) eqn:E.
      * apply Z.eqb_eq in E. subst b. rewrite IH. split; [intro; subst; reflexivity | intro H; inversion H; reflexivity].
      * apply Z.eqb_neq in E. split; [discriminate | intro H; inversion H; congruence].
Qed.

Lemma strip_last_spec : forall s body c, strip_last s = Some (body, c) <-> s = body ++ [c].
Proof.
  induction s as [|a s IH]; intros body c.
  - simpl. split; [discriminate | intro H; destruct body; discriminate].
  - destruct s as [|b s'].
    + simpl. split.
      * intro H. inversion H. reflexivity.
      * intro H. destruct body as [|x [|y body]]; inversion H; try reflexivity; destruct body; discriminate.
    + change (strip_last (a :: b :: s')) with
        (match strip_last (b :: s') with Some (bd, c') => Some (a :: bd, c') | None => None end).
      remember (strip_last (b :: s')) as o eqn:R in |- *. symmetry in R. destruct o as [[bd c']|].
      * apply IH in R. split.
        -- intro H. inversion H. subst. rewrite R. reflexivity.
        -- intro H. destruct body as [|x body]; [inversion H | ].
           inversion H. subst x. rewrite R in H2. apply app_inj_tail in H2. destruct H2. subst. reflexivity.
      * split; [discriminate | ]. intro H. destruct body as [|x body]; [inversion H | ].
        inversion H. assert (K : strip_last (b :: s') = Some (body, c)) by (apply IH; assumption). congruence.
Qed.

Definition index_suffix (z : Z) : str := 95%Z :: 123%Z :: render_Z z ++ [125%Z].      (* "_{z}" *)

Lemma index_tail_spec : forall s, is_index_tail s = true <-> exists z, s = index_suffix z.
Proof.
  intro s. unfold index_suffix. split.
  - intro H. destruct s as [|a [|b r]]; try discriminate. simpl in H.
    apply andb_true_iff in H. destruct H as [H H3]. apply andb_true_iff in H. destruct H as [H1 H2].
    apply Z.eqb_eq in H1, H2. subst a b.
    destruct (strip_last r) as [[body c]|] eqn:SL; [ | discriminate].
    apply andb_true_iff in H3. destruct H3 as [H3 H4]. apply Z.eqb_eq in H3. subst c.
    apply strip_last_spec in SL. apply canonical_index_spec in H4. destruct H4 as [z H4].
    exists z. subst. reflexivity.
  - intros [z H]. subst s. simpl.
    assert (SL : strip_last (render_Z z ++ [125%Z]) = Some (render_Z z, 125%Z)) by (apply strip_last_spec; reflexivity).
    rewrite SL. simpl. apply canonical_index_spec. eauto.
Qed.

Lemma head_matches_spec : forall s h, head_matches s h = true <-> exists z, s = h ++ index_suffix z.
Proof.
  intros s h. unfold head_matches. destruct (strip_prefix h s) as [rest|] eqn:SP.
  - apply strip_prefix_spec in SP. subst s. rewrite index_tail_spec. split.
    + intros [z H]. exists z. congruence.
    + intros [z H]. apply app_inv_head in H. eauto.
  - split; [discriminate | ]. intros [z H].
    assert (K : strip_prefix h s = Some (index_suffix z)) by (apply strip_prefix_spec; exact H). congruence.
Qed.

Lemma find_first : forall {A} (f : A -> bool) l x,
  find f l = Some x <-> exists pre post, l = pre ++ x :: post /\ f x = true /\ forall y, In y pre -> f y = false.
Proof.
  intros A f l x. induction l as [|a l IH]; simpl.
  - split; [discriminate | intros [pre [post [H _]]]; destruct pre; discriminate].
  - destruct (f a) eqn:Fa.
    + split.
      * intro H. inversion H. subst. exists [], l. repeat split; auto. intros y [].
      * intros [pre [post [H [Fx Hp]]]]. destruct pre as [|b pre].
        -- inversion H. reflexivity.
        -- inversion H. subst b. rewrite (Hp a (or_introl eq_refl)) in Fa. discriminate.
    + rewrite IH. split.
      * intros [pre [post [H [Fx Hp]]]]. exists (a :: pre), post. subst l. repeat split; auto.
        intros y [E|Hy]; [subst; exact Fa | auto].
      * intros [pre [post [H [Fx Hp]]]]. destruct pre as [|b pre].
        -- inversion H. subst. congruence.
        -- inversion H. subst. exists pre, post. repeat split; auto. intros y Hy. apply Hp. right. exact Hy.
Qed.

(* the regular expression of numbered_vars_regexp, as a specification (for a non-empty list of heads; with no heads the
   pattern degenerates to the empty head, see numbered_match_no_heads) *)
Theorem numbered_match_spec : forall heads s h, heads <> [] ->
  (numbered_match heads s = Some h <->
   exists pre post, heads = pre ++ h :: post /\
     (exists z : Z, s = h ++ index_suffix z) /\
     (forall h', In h' pre -> ~ exists z : Z, s = h' ++ index_suffix z)).
Proof.
  intros heads s h NE. unfold numbered_match. destruct heads as [|a t]; [congruence | ]. rewrite find_first. split.
  - intros [pre [post [H [M N]]]]. exists pre, post. split; [exact H | ]. split; [apply head_matches_spec; exact M | ].
    intros h' Hh' K. apply head_matches_spec in K. rewrite (N h' Hh') in K. discriminate.
  - intros [pre [post [H [M N]]]]. exists pre, post. split; [exact H | ]. split; [apply head_matches_spec; exact M | ].
    intros h' Hh'. destruct (head_matches s h') eqn:E; [ | reflexivity]. exfalso. apply (N h' Hh').
    apply head_matches_spec. exact E.
Qed.

Theorem numbered_match_none : forall heads s, heads <> [] ->
  (numbered_match heads s = None <-> forall h, In h heads -> ~ exists z : Z, s = h ++ index_suffix z).
Proof.
  intros heads s NE. unfold numbered_match. destruct heads as [|a t]; [congruence | ]. split.
  - intros H h Hh K. apply head_matches_spec in K. rewrite (find_none _ _ H h Hh) in K. discriminate.
  - intro H. destruct (find (head_matches s) (a :: t)) as [h|] eqn:F; [ | reflexivity].
    apply find_some in F. destruct F as [F1 F2]. exfalso. apply (H h F1). apply head_matches_spec. exact F2.
Qed.

Theorem numbered_match_no_heads : forall s h,
  numbered_match [] s = Some h <-> h = [] /\ exists z : Z, s = index_suffix z.
Proof.
  intros s h. unfold numbered_match. simpl. destruct (head_matches s []) eqn:E.
  - apply head_matches_spec in E. split; [intro H; inversion H; auto | intros [H _]; subst; reflexivity].
  - split; [discriminate | ]. intros [H K]. subst. exfalso.
    assert (head_matches s [] = true) by (apply head_matches_spec; exact K). congruence.
Qed.

(* renderings: the usual decimal forms, including negative and multi-digit indices *)
Example render_examples :
  map render_Z [0; 7; -3; 12; -120; 1005]%Z =
  [[48]; [55]; [45; 51]; [49; 50]; [45; 49; 50; 48]; [49; 48; 48; 53]]%Z.
Proof. reflexivity. Qed.
