(* ProtocolSyntax.v -- syntax shared by Gen/Protocol.v (regenerated from /repo) and Model/Protocol.v (C11):
   the command language of the item-grader call protocol, the context-manager programs, and the rows of the
   write-site inventory.  No semantics, no proofs. *)
From Coq Require Import List Bool String.
Import ListNotations.

(* ---------------------------------------------------------------------------------------------- *)
(* the command language                                                                           *)
(* ---------------------------------------------------------------------------------------------- *)
Inductive loc := Tmp | Cfg.          (* a local variable  |  self.config['answers'] *)

Inductive bexp :=
| BExpectGiven                       (* expect is not None *)
| BInferring                         (* self.inferring_answers *)
| BHasAnswers                        (* bool(self.config['answers']) *)
| BLogCreated                        (* self.log_created *)
| BNot (b : bexp) | BAnd (a b : bexp) | BOr (a b : bexp).

Inductive cmd :=
| CInfer                             (* inferred = self.infer_from_expect(expect) *)
| CSchema (dst : loc)                (* dst = self.schema_answers(inferred) *)
| CPost (src dst : loc)              (* dst = self.post_schema_ans_val(src)   -- mutates the object in src *)
| CMove (src dst : loc)              (* dst = src *)
| CCreateLog                         (* self.create_debuglog(student_input) *)
| CLogInferred                       (* self.log("Expect value inferred to be ...") *)
| CSetInferring (b : bool)           (* self.inferring_answers = b *)
| CSetLogCreated (b : bool)          (* self.log_created = b *)
| CEnsureText                        (* student_input = self.ensure_text_inputs(student_input) *)
| CCheck.                            (* try: result = self.check(None, student_input) except ...; ...; return result *)

(* the body of create_debuglog *)
Inductive lcmd :=
| LcReset                            (* self.debuglog = [] *)
| LcVersion                          (* the two version lines *)
| LcResponse                         (* "Student Response(s):\n" + ... *)
| LcDefaults                         (* if self.modified_defaults: log them *)
| LcSetCreated (b : bool).           (* self.log_created = b *)

Record create_program := mkCreate { cp_return_if : bexp; cp_body : list lcmd }.

Record call_program := mkProg {
  p_guard   : bexp;                  (* ItemGrader.__call__: condition of the inference block *)
  p_block   : list cmd;              (* the inference block *)
  p_super   : list cmd;              (* AbstractGrader.__call__ *)
  p_finally : list cmd               (* run on every exit (empty in the code as it stands) *)
}.

(* ---------------------------------------------------------------------------------------------- *)
(* MathArray.enable_negative_powers                                                               *)
(* ---------------------------------------------------------------------------------------------- *)
Inductive swval := SvArg | SvDefault.                (* `value`  |  cls._default_negative_powers *)
Inductive swcmd := SwSet (v : swval).                (* cls._negative_powers = v *)

Record cm_program := mkCm {
  cm_setup : list swcmd;          (* before the yield *)
  cm_in_finally : bool;           (* is the teardown inside `finally:` *)
  cm_teardown : list swcmd
}.

Record switch := mkSwitch { sw_flag : bool; sw_default : bool }.

(* ---------------------------------------------------------------------------------------------- *)
(* write-site inventory rows (translate/protocol.py, part 2)                                      *)
(* ---------------------------------------------------------------------------------------------- *)
Inductive rootk :=
| RSelf | RCls | RParam          (* the object written is reached from self / cls / a parameter *)
| RGlobal | REnclosing           (* ... from a module-level name / a variable of an enclosing function *)
| RProcess                       (* a call that changes interpreter-wide state *)
| ROther.

Inductive shapek :=
| ShAttr                         (* root.x = v *)
| ShItem                         (* root.x[k] = v, root.x.append(v), root[k] = v *)
| ShDeep                         (* anything reaching further in, or through a local alias *)
| ShCall.

Inductive flagk :=
| FPlain
| FRebound                       (* self.<class-level attr>[..] written AFTER self.<attr> was rebound to a fresh object here *)
| FShared                        (* self.<class-level attr>[..] written with no such rebinding: the class-level object changes *)
| FImport.                       (* executed at import time *)

Inductive settingk :=
| SNone | SDefaultValues | SNegPowers | SDefaultTables | SNumpyErr | SRandomSeed | SNamespace | SDefaultComparer
| SOtherProcess.

Record row := mkRow {
  r_file : string; r_func : string; r_root : rootk; r_rootname : string; r_via : string; r_target : string;
  r_kind : string; r_flag : flagk; r_shape : shapek; r_setting : settingk; r_count : nat
}.
