(* PyNum.v -- numeric vocabulary emitted by translate/pyq.py *)
From Coq Require Import ZArith QArith Qround Qabs Qpower Lia Lqa.
From Verif.Lib Require Export QRound.
Open Scope Q_scope.

(* x ** e for an integer-valued rational e (the translated code only raises to integer expressions) *)
Definition Qpowq (x e : Q) : Q := Qpower x (Qfloor e).

Fixpoint qpow_nat (x : Q) (k : nat) : Q :=
  match k with O => 1 | S k' => x * qpow_nat x k' end.

Lemma Qpower_nat : forall x k, Qpower x (Z.of_nat k) == qpow_nat x k.
Proof.
  intros x k. induction k as [|k IH].
  - reflexivity.
  - rewrite Nat2Z.inj_succ. unfold Z.succ.
    rewrite Qpower_plus' by lia. rewrite IH. change (x ^ 1) with x. simpl qpow_nat. ring.
Qed.

Lemma qpow_nat_unit : forall x k, 0 <= x <= 1 -> 0 <= qpow_nat x k <= 1.
Proof.
  intros x k [H0 H1]. induction k as [|k [IH0 IH1]]; simpl.
  - lra.
  - split; [apply Qmult_le_0_compat; assumption | ]. nra.
Qed.

Lemma qpow_nat_anti : forall x k k', 0 <= x <= 1 -> (k <= k')%nat -> qpow_nat x k' <= qpow_nat x k.
Proof.
  intros x k k' Hx Hk. induction Hk as [|k' Hk IH].
  - lra.
  - simpl. pose proof (qpow_nat_unit x k' Hx) as [P0 P1]. destruct Hx as [H0 H1]. nra.
Qed.
