(* MathFuncsBase.v -- vocabulary shared by the regenerated Gen/MathFuncs.v and the hand-written Model/MathFuncs*.v (C15).
   No proofs here.  The numpy primitives a derived function is built from are fields of a record, so that the same
   regenerated definition can be read over the reals (theorems), over pairs of reals (complex plane, Interval
   certificates) and over Gaussian rationals with recorded oracle answers (correspondence). *)
From Coq Require Import ZArith QArith List String Bool.
Import ListNotations.

Record prims (V : Type) := mkPrims {
  p_num : Q -> V;                       (* a numeric literal of the source: 1, 1., 2, 0 *)
  p_add : V -> V -> V; p_sub : V -> V -> V; p_mul : V -> V -> V; p_div : V -> V -> V; p_neg : V -> V;
  p_pi : V;                             (* np.pi *)
  p_cos : V -> V; p_sin : V -> V; p_tan : V -> V;
  p_arccos : V -> V; p_arcsin : V -> V; p_arctan : V -> V;
  p_cosh : V -> V; p_sinh : V -> V; p_tanh : V -> V;
  p_arccosh : V -> V; p_arcsinh : V -> V; p_arctanh : V -> V;
  p_arctan2 : V -> V -> V;              (* np.arctan2(first, second): first is the ordinate *)
  p_real : V -> V; p_imag : V -> V;     (* np.real, np.imag *)
  p_conj : V -> V; p_transpose : V -> V; p_norm : V -> V;     (* np.conj, np.transpose, np.linalg.norm *)
  p_ltb : V -> V -> bool; p_eqb : V -> V -> bool;             (* Python  a < b ,  a == b  *)
  p_ndim_gtb : V -> nat -> bool         (* isinstance(obj, MathArray) and obj.ndim > n *)
}.
Arguments p_num {V}. Arguments p_add {V}. Arguments p_sub {V}. Arguments p_mul {V}. Arguments p_div {V}.
Arguments p_neg {V}. Arguments p_pi {V}. Arguments p_cos {V}. Arguments p_sin {V}. Arguments p_tan {V}.
Arguments p_arccos {V}. Arguments p_arcsin {V}. Arguments p_arctan {V}. Arguments p_cosh {V}. Arguments p_sinh {V}.
Arguments p_tanh {V}. Arguments p_arccosh {V}. Arguments p_arcsinh {V}. Arguments p_arctanh {V}.
Arguments p_arctan2 {V}. Arguments p_real {V}. Arguments p_imag {V}. Arguments p_conj {V}. Arguments p_transpose {V}.
Arguments p_norm {V}. Arguments p_ltb {V}. Arguments p_eqb {V}. Arguments p_ndim_gtb {V}.

(* Python exception classes that matter to eval_function; the student-facing ones are the subclasses of
   mitxgraders.exceptions.StudentFacingError *)
Inductive pyexc :=
| XStudentFacing                 (* some other StudentFacingError raised by the called function itself *)
| XArgumentError | XArgumentShapeError | XFunctionEvalError | XCalcZeroDivisionError | XCalcOverflowError
| XZeroDivisionError | XOverflowError | XValueError | XTypeError | XException (* any other Exception subclass *).

Definition student_facing (e : pyexc) : bool :=
  match e with
  | XStudentFacing | XArgumentError | XArgumentShapeError | XFunctionEvalError
  | XCalcZeroDivisionError | XCalcOverflowError => true
  | _ => false
  end.

Inductive outcome (A : Type) := Val (a : A) | Raise (e : pyexc).
Arguments Val {A}. Arguments Raise {A}.

(* what a table entry points at *)
Inductive target :=
| TNp (name : string)          (* np.<name> *)
| TScimath (name : string)     (* np.lib.scimath.<name> *)
| TLinalg (name : string)      (* np.linalg.<name> *)
| TLocal (name : string)       (* a function defined in mathfuncs.py *)
| TBuiltin (name : string)     (* a Python builtin (min, max) *)
| TLambda (name : string).     (* a lambda of the table, regenerated under this name *)

(* SpecifyDomain shapes:  (1,) scalar | (k,) vector | 'square' | (k1, k2, ...) *)
Inductive shape := ShScalar | ShVector (n : nat) | ShSquare | ShArray (dims : list nat).

Record domspec := mkSpec {
  ds_shapes : list shape;
  ds_min : option nat;            (* min_length *)
  ds_name : option string         (* display_name *)
}.

Record fentry := mkF { fe_target : target; fe_spec : option domspec }.

Definition table := list (string * fentry).

(* dict semantics: a later binding of the same key replaces the earlier one (dict literal order, dict.update) *)
Fixpoint lookup (t : table) (k : string) : option fentry :=
  match t with
  | [] => None
  | (k', v) :: r => match lookup r k with Some w => Some w | None => if String.eqb k k' then Some v else None end
  end.

Fixpoint keys (t : table) : list string :=
  match t with [] => [] | (k, _) :: r => let ks := keys r in if existsb (String.eqb k) ks then ks else k :: ks end.

(* values of DEFAULT_VARIABLES *)
Inductive constant := KNpE | KNpPi | KComplex (re im : Z).

(* handlers of a try statement, in order: (caught class, what is raised instead; None = re-raise) *)
Definition handlers := list (string * option pyexc).
