(* QRound.v -- round-half-even on rationals (Python's round(x, 4) on the exact value) and helpers. *)
From Coq Require Import ZArith QArith Qround Qabs Lia Lqa List Bool.
Import ListNotations.
Open Scope Q_scope.

(* round half to even of a rational, as an integer *)
Definition rhe (q : Q) : Z :=
  let f := Qfloor q in
  match Qcompare (q - inject_Z f) (1 # 2) with
  | Lt => f
  | Gt => (f + 1)%Z
  | Eq => if Z.even f then f else (f + 1)%Z
  end.

Definition round4 (q : Q) : Q := inject_Z (rhe (q * 10000)) / 10000.

(* distance of q*10^4 from a rounding tie; used by the correspondence guard band only *)
Definition tie_distance4 (q : Q) : Q :=
  let x := q * 10000 in Qabs ((x - inject_Z (Qfloor x)) - (1 # 2)).

Definition Qmax (a b : Q) : Q := if Qle_bool a b then b else a.
Definition Qmin (a b : Q) : Q := if Qle_bool a b then a else b.
Definition Qltb (a b : Q) : bool := negb (Qle_bool b a).
Definition Qclose (eps a b : Q) : bool := Qle_bool (Qabs (a - b)) eps.

Lemma rhe_comp : forall q q', q == q' -> rhe q = rhe q'.
Proof.
  intros q q' H. unfold rhe.
  assert (Hf : Qfloor q = Qfloor q') by (apply Qfloor_comp; exact H).
  rewrite <- Hf.
  assert (Hc : (q - inject_Z (Qfloor q) ?= 1 # 2) = (q' - inject_Z (Qfloor q) ?= 1 # 2)).
  { apply Qcompare_comp; [lra | reflexivity]. }
  rewrite Hc. reflexivity.
Qed.

Lemma Qfloor_frac : forall q, 0 <= q - inject_Z (Qfloor q) /\ q - inject_Z (Qfloor q) < 1.
Proof.
  intro q. pose proof (Qfloor_le q) as H1. pose proof (Qlt_floor q) as H2.
  rewrite inject_Z_plus in H2. change (inject_Z 1) with 1 in H2. split; lra.
Qed.

Lemma rhe_floor_bounds : forall q, (Qfloor q <= rhe q <= Qfloor q + 1)%Z.
Proof.
  intro q. unfold rhe. destruct (q - inject_Z (Qfloor q) ?= 1 # 2); [destruct (Z.even (Qfloor q))|..]; lia.
Qed.

Lemma rhe_Z : forall z, rhe (inject_Z z) = z.
Proof.
  intro z. unfold rhe. rewrite Qfloor_Z.
  assert (H : (inject_Z z - inject_Z z ?= 1 # 2) = Lt).
  { rewrite <- Qlt_alt. lra. }
  rewrite H. reflexivity.
Qed.

Lemma rhe_mono : forall q q', q <= q' -> (rhe q <= rhe q')%Z.
Proof.
  intros q q' H.
  pose proof (Qfloor_resp_le _ _ H) as Hf.
  destruct (Z.eq_dec (Qfloor q) (Qfloor q')) as [E | NE].
  - unfold rhe. rewrite <- E.
    destruct (q - inject_Z (Qfloor q) ?= 1 # 2) eqn:C1;
      destruct (q' - inject_Z (Qfloor q) ?= 1 # 2) eqn:C2;
      try (destruct (Z.even (Qfloor q))); try lia;
      try rewrite <- Qeq_alt in *; try rewrite <- Qlt_alt in *; try rewrite <- Qgt_alt in *;
      exfalso; lra.
  - pose proof (rhe_floor_bounds q). pose proof (rhe_floor_bounds q'). lia.
Qed.

Lemma round4_comp : forall q q', q == q' -> round4 q == round4 q'.
Proof.
  intros q q' H. unfold round4. rewrite (rhe_comp (q * 10000) (q' * 10000)); [reflexivity | rewrite H; reflexivity].
Qed.

Lemma round4_mono : forall q q', q <= q' -> round4 q <= round4 q'.
Proof.
  intros q q' H. unfold round4.
  assert (Hm : (rhe (q * 10000) <= rhe (q' * 10000))%Z) by (apply rhe_mono; lra).
  rewrite Zle_Qle in Hm. apply Qmult_le_compat_r; [exact Hm | ].
  apply Qinv_le_0_compat. lra.
Qed.

Lemma round4_0 : round4 0 == 0.
Proof. reflexivity. Qed.

Lemma round4_1 : round4 1 == 1.
Proof. reflexivity. Qed.

Lemma round4_unit : forall q, 0 <= q <= 1 -> 0 <= round4 q <= 1.
Proof.
  intros q [H0 H1]. split.
  - rewrite <- round4_0. apply round4_mono; exact H0.
  - rewrite <- round4_1. apply round4_mono; exact H1.
Qed.

(* a value that is already a multiple of 1/10000 is a fixed point *)
Lemma round4_fix : forall z, round4 (inject_Z z / 10000) == inject_Z z / 10000.
Proof.
  intro z. unfold round4.
  rewrite (rhe_comp (inject_Z z / 10000 * 10000) (inject_Z z)); [rewrite rhe_Z; reflexivity | field].
Qed.

Lemma round4_idem : forall q, round4 (round4 q) == round4 q.
Proof. intro q. unfold round4 at 2 3. apply round4_fix. Qed.

Lemma round4_error : forall q, Qabs (round4 q - q) <= 1 # 20000.
Proof.
  intro q. unfold round4. set (x := q * 10000).
  assert (Hx : q == x / 10000) by (unfold x; field).
  pose proof (Qfloor_frac x) as [F0 F1].
  assert (Hr : Qabs (inject_Z (rhe x) - x) <= 1 # 2).
  { unfold rhe. destruct (x - inject_Z (Qfloor x) ?= 1 # 2) eqn:C;
      [rewrite <- Qeq_alt in C | rewrite <- Qlt_alt in C | rewrite <- Qgt_alt in C].
    - destruct (Z.even (Qfloor x)); [| rewrite inject_Z_plus; change (inject_Z 1) with 1];
        apply Qabs_case; intros; lra.
    - apply Qabs_case; intros; lra.
    - rewrite inject_Z_plus. change (inject_Z 1) with 1. apply Qabs_case; intros; lra. }
  setoid_replace (inject_Z (rhe x) / 10000 - q) with ((inject_Z (rhe x) - x) * (1 # 10000)) by (rewrite Hx; field).
  revert Hr. generalize (inject_Z (rhe x) - x). intro y. apply Qabs_case; intros; apply Qabs_case; intros; lra.
Qed.
