(* CallGuardBase.v -- vocabulary shared by the regenerated Gen/CallGuard.v and the hand-written Model/CallGuard.v (C02).
   Only data types and the two string conversions; no proofs. *)
From Coq Require Import ZArith List String Ascii Bool.
Import ListNotations.

(* text = list of code points (same representation as Verif.Model.Result.str) *)
Definition cstr := list Z.

Definition s2z (s : string) : cstr := map (fun a => Z.of_nat (nat_of_ascii a)) (list_ascii_of_string s).

(* message templates:  "...{name}...".format(name=...)  ->  [Lit "..."; Hole "name"; Lit "..."] *)
Inductive tpart := Lit (s : cstr) | Hole (name : string).

(* what an `except C:` clause does *)
Inductive action :=
| Reraise                                           (* bare `raise` *)
| RaiseNew (cls : string) (parts : list tpart).     (* raise cls(template) *)

(* conditions of the if/elif chains in ensure_text_inputs, over named atoms *)
Inductive cond := CAtom (name : string) | CNot (c : cond) | CAnd (a b : cond).

(* the two validations ensure_text_inputs can perform *)
Inductive schema_kind := SListOfStr | SStr.

(* the try/except of AbstractGrader.__call__ *)
Record guard_spec := mkGuardSpec {
  g_catch      : string;        (* except <g_catch> as error *)
  g_debug_key  : string;        (* if self.config[<key>]: raise *)
  g_keep_root  : string;        (* elif isinstance(error, <root>): raise error.__class__(str(error).replace(a, b)) *)
  g_replace    : cstr * cstr;
  g_list_msg   : list tpart;    (* generic message for list input, hole "0" = g_list_sep.join(student_input) *)
  g_list_sep   : cstr;
  g_single_msg : list tpart;    (* generic message for a single input, hole "0" = student_input *)
  g_generic_cls : string
}.

(* ensure_text_inputs(student_input, allow_lists, allow_single) *)
Record ensure_spec := mkEnsureSpec {
  en_defaults : bool * bool;                          (* defaults of (allow_lists, allow_single) *)
  en_validate : list (cond * schema_kind);            (* if/elif chain inside the try *)
  en_invalid  : string;                               (* exception class caught around the validation *)
  en_pos_cond : cond;                                 (* condition under which `pos` is recorded *)
  en_messages : list (cond * list tpart);             (* if/elif chain choosing the message *)
  en_else     : string * cstr;                        (* else: raise <cls>(<text>) *)
  en_cls      : string;                               (* raise <en_cls>(msg) *)
  en_item_call : list (string * bool);                (* keyword arguments ItemGrader passes *)
  en_list_call : list (string * bool)                 (* keyword arguments ListGrader passes *)
}.
