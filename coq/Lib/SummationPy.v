(* Lib/SummationPy.v -- value vocabulary emitted by translate/summation.py (C19, SumGrader).

   pyv  : what a summation limit (or the cutoff / even_odd option) can be at run time:
          a Python float/int (finite rational, +inf, -inf, nan), a complex number, an array, or
          "an exception has been raised while computing it" (PExc, poison).
   tbool: the truth value of a Python condition; TExc = evaluating the condition raises a
          non-library exception (ambiguous truth value of an array, TypeError on complex ordering ...).
   Finite results are kept in reduced form (Qred) so that integer-valued computations are
   syntactically integers (inject_Z z); Q is a setoid, Qred is the identity on the quotient. *)
From Coq Require Import ZArith QArith Qround Qabs Qreduction Bool List Lia.
Import ListNotations.
Open Scope Q_scope.

Definition str := list Z.

Inductive sum_msg :=
| MConflict      (* Summation variable {} conflicts with another previously-defined variable. *)
| MComplex       (* Summation limits must be real but have evaluated to complex numbers. *)
| MLowerInt      (* Lower summation limit does not evaluate to an integer. *)
| MUpperInt      (* Upper summation limit does not evaluate to an integer. *)
| MNegInf        (* Cannot sum from -infty to -infty. *)
| MPosInf.       (* Cannot sum from infty to infty. *)

Inductive err :=
| EConfig                    (* ConfigError *)
| EMissing                   (* MissingInput *)
| EInvalid                   (* InvalidInput *)
| ESummation (m : sum_msg)   (* SummationError *)
| ECalc                      (* CalcError family raised by the expression evaluator / parser *)
| EOther                     (* any exception that is not an MITxError (ValueError, OverflowError ...) *)
| EGeneric                   (* StudentFacingError("Invalid Input: Could not check input(s) ...") made by __call__ *)
| EUnrecorded.               (* harness only: an oracle query the implementation never made (never produced by the model) *)

Definition student_facing (e : err) : bool :=
  match e with EConfig => false | EOther => false | EUnrecorded => false | _ => true end.
Definition is_mitx (e : err) : bool := match e with EOther => false | EUnrecorded => false | _ => true end.

Inductive outcome (A : Type) := Ret (a : A) | Raise (e : err).
Arguments Ret {A} a.
Arguments Raise {A} e.

Definition bind {A B} (x : outcome A) (k : A -> outcome B) : outcome B :=
  match x with Ret a => k a | Raise e => Raise e end.

Inductive xnum := XFin (q : Q) | XPInf | XNInf | XNaN.
Inductive pyv := PNum (x : xnum) | PCplx | PArr | PExc.
Inductive tbool := TT | FF | TExc.

Definition tb (b : bool) : tbool := if b then TT else FF.

Definition tif {A} (c : tbool) (a b : outcome A) : outcome A :=
  match c with TT => a | FF => b | TExc => Raise EOther end.

(* Python `and` / `or` on conditions: the right operand is evaluated only when needed *)
Definition t_and (a b : tbool) : tbool := match a with TT => b | FF => FF | TExc => TExc end.
Definition t_or (a b : tbool) : tbool := match a with TT => TT | FF => b | TExc => TExc end.
Definition t_not (a : tbool) : tbool := match a with TT => FF | FF => TT | TExc => TExc end.

Definition Qlt_b (a b : Q) : bool := negb (Qle_bool b a).

(* literals *)
Definition p_lit (z : Z) : pyv := PNum (XFin (inject_Z z)).
Definition p_inf : pyv := PNum XPInf.          (* float('inf') *)

(* unary minus *)
Definition p_neg (a : pyv) : pyv :=
  match a with
  | PNum (XFin q) => PNum (XFin (Qred (- q)))
  | PNum XPInf => PNum XNInf
  | PNum XNInf => PNum XPInf
  | PNum XNaN => PNum XNaN
  | PCplx => PCplx
  | PArr => PArr
  | PExc => PExc
  end.

Definition p_abs (a : pyv) : pyv :=
  match a with
  | PNum (XFin q) => PNum (XFin (Qred (Qabs q)))
  | PNum XPInf | PNum XNInf => PNum XPInf
  | PNum XNaN => PNum XNaN
  | PCplx => PExc          (* |z| of a complex limit is not modelled: the source rejects complex limits first *)
  | PArr => PArr
  | PExc => PExc
  end.

Definition p_add (a b : pyv) : pyv :=
  match a, b with
  | PNum (XFin x), PNum (XFin y) => PNum (XFin (Qred (x + y)))
  | PNum XNaN, PNum _ | PNum _, PNum XNaN => PNum XNaN
  | PNum XPInf, PNum XNInf | PNum XNInf, PNum XPInf => PNum XNaN
  | PNum XPInf, PNum _ | PNum _, PNum XPInf => PNum XPInf
  | PNum XNInf, PNum _ | PNum _, PNum XNInf => PNum XNInf
  | _, _ => PExc
  end.

(* Python float/int `%` : x - floor(x/m)*m ; zero modulus raises ; inf % m = nan (x % inf is never
   computed by the translated code and is given as nan too) *)
Definition p_mod (a m : pyv) : pyv :=
  match a, m with
  | PNum (XFin x), PNum (XFin y) =>
      if Qeq_bool y 0 then PExc else PNum (XFin (Qred (x - inject_Z (Qfloor (x / y)) * y)))
  | PNum _, PNum _ => PNum XNaN
  | _, _ => PExc
  end.

(* int(x): truncation toward zero; int(inf), int(nan), int(complex), int(array) raise *)
Definition qtrunc (q : Q) : Z := if Qlt_b q 0 then (- Qfloor (- q))%Z else Qfloor q.
Definition p_int (a : pyv) : pyv :=
  match a with
  | PNum (XFin q) => PNum (XFin (inject_Z (qtrunc q)))
  | _ => PExc
  end.

Definition x_eq (a b : xnum) : bool :=
  match a, b with
  | XFin x, XFin y => Qeq_bool x y
  | XPInf, XPInf | XNInf, XNInf => true
  | _, _ => false
  end.

Definition x_gt (a b : xnum) : bool :=
  match a, b with
  | XNaN, _ | _, XNaN => false
  | XFin x, XFin y => Qlt_b y x
  | XPInf, XPInf => false
  | XPInf, _ => true
  | _, XPInf => false
  | XNInf, _ => false
  | XFin _, XNInf => true
  end.

Definition p_eq (a b : pyv) : tbool :=
  match a, b with
  | PNum x, PNum y => tb (x_eq x y)
  | _, _ => TExc
  end.
Definition p_ne (a b : pyv) : tbool := t_not (p_eq a b).
Definition p_gt (a b : pyv) : tbool :=
  match a, b with
  | PNum x, PNum y => tb (x_gt x y)
  | _, _ => TExc
  end.
Definition p_lt (a b : pyv) : tbool := p_gt b a.
Definition p_ge (a b : pyv) : tbool :=
  match a, b with
  | PNum x, PNum y => tb (x_gt x y || x_eq x y)
  | _, _ => TExc
  end.
Definition p_le (a b : pyv) : tbool := p_ge b a.

(* isinstance(x, complex) *)
Definition p_is_complex (a : pyv) : tbool :=
  match a with PCplx => TT | PExc => TExc | _ => FF end.

(* range(a, b, d) needs three Python ints *)
Definition p_range (a b d : pyv) : outcome (Z * Z * Z) :=
  match a, b, d with
  | PNum (XFin x), PNum (XFin y), PNum (XFin z) =>
      if (Qden x =? 1)%positive && (Qden y =? 1)%positive && (Qden z =? 1)%positive && negb (Qnum z =? 0)%Z
      then Ret (Qnum x, Qnum y, Qnum z) else Raise EOther
  | _, _, _ => Raise EOther
  end.

(* range(a, b, d) for d > 0, as the list of its elements *)
Fixpoint zrange_go (fuel : nat) (a b d : Z) : list Z :=
  match fuel with
  | O => []
  | S f => if (a <? b)%Z then a :: zrange_go f (a + d)%Z b d else []
  end.
Definition zrange (a b d : Z) : list Z :=
  if (0 <? d)%Z then zrange_go (Z.to_nat (b - a)) a b d else [].

(* sum(evals) where evals = [f(n) for n in l]: the list is built first (the first failing evaluation
   aborts), then Python's sum folds from the left starting at the integer 0 *)
Section Sum.
  Context {V : Type}.
  Variable vzero : V.
  Variable vadd : V -> V -> V.

  Fixpoint eval_all (f : Z -> outcome V) (l : list Z) : outcome (list V) :=
    match l with
    | [] => Ret []
    | n :: r => bind (f n) (fun v => bind (eval_all f r) (fun vs => Ret (v :: vs)))
    end.

  Definition py_sum (vs : list V) : V := fold_left vadd vs vzero.

  Definition sum_over (f : Z -> outcome V) (l : list Z) : outcome V :=
    bind (eval_all f l) (fun vs => Ret (py_sum vs)).

  Definition sum_range (f : Z -> outcome V) (plan : Z * Z * Z) : outcome V :=
    match plan with (a, b, d) => sum_over f (zrange a b d) end.
End Sum.
