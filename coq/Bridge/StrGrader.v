(* Bridge/StrGrader.v -- the definitions regenerated from mitxgraders/stringgrader.py (Gen/StrGrader.v)
   coincide with the hand-written model (Model/StrGrader.v). *)
From Coq Require Import ZArith QArith List Bool.
From Verif.Model Require Import Result StrGrader.
From Verif.Gen Require StrGrader.
Import ListNotations.

Lemma clean_input_bridge : forall T cfg s,
  Gen.StrGrader.gen_clean_input T cfg s = clean_input T cfg s.
Proof. reflexivity. Qed.

Lemma construct_message_bridge : forall cfg msg ty,
  Gen.StrGrader.gen_construct_message cfg msg ty = construct_message cfg msg ty.
Proof. reflexivity. Qed.

Lemma check_response_bridge : forall T rematch refull cfg answer expect student,
  Gen.StrGrader.gen_check_response T rematch refull cfg answer expect student
  = check_response T rematch refull cfg answer expect student.
Proof. reflexivity. Qed.

Lemma call_expect_bridge : forall cfg expect,
  Gen.StrGrader.gen_call_expect cfg expect = call_expect cfg expect.
Proof. reflexivity. Qed.
