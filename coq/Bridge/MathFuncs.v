(* Bridge/MathFuncs.v -- the definitions regenerated from mathfuncs.py / expressions.py coincide with the model *)
From Coq Require Import ZArith QArith List String Bool.
From Verif.Lib Require Import MathFuncsBase.
From Verif.Gen Require MathFuncs.
From Verif.Model Require Import MathFuncs.
Import ListNotations.

Section Bridge.
  Context {V : Type} (P : prims V).
  Lemma sec_bridge : forall x, Gen.MathFuncs.gen_sec P x = sec P x. Proof. reflexivity. Qed.
  Lemma csc_bridge : forall x, Gen.MathFuncs.gen_csc P x = csc P x. Proof. reflexivity. Qed.
  Lemma cot_bridge : forall x, Gen.MathFuncs.gen_cot P x = cot P x. Proof. reflexivity. Qed.
  Lemma arcsec_bridge : forall x, Gen.MathFuncs.gen_arcsec P x = arcsec P x. Proof. reflexivity. Qed.
  Lemma arccsc_bridge : forall x, Gen.MathFuncs.gen_arccsc P x = arccsc P x. Proof. reflexivity. Qed.
  Lemma arccot_bridge : forall x, Gen.MathFuncs.gen_arccot P x = arccot P x. Proof. reflexivity. Qed.
  Lemma sech_bridge : forall x, Gen.MathFuncs.gen_sech P x = sech P x. Proof. reflexivity. Qed.
  Lemma csch_bridge : forall x, Gen.MathFuncs.gen_csch P x = csch P x. Proof. reflexivity. Qed.
  Lemma coth_bridge : forall x, Gen.MathFuncs.gen_coth P x = coth P x. Proof. reflexivity. Qed.
  Lemma arcsech_bridge : forall x, Gen.MathFuncs.gen_arcsech P x = arcsech P x. Proof. reflexivity. Qed.
  Lemma arccsch_bridge : forall x, Gen.MathFuncs.gen_arccsch P x = arccsch P x. Proof. reflexivity. Qed.
  Lemma arccoth_bridge : forall x, Gen.MathFuncs.gen_arccoth P x = arccoth P x. Proof. reflexivity. Qed.
  Lemma arctan2_bridge : forall x y, Gen.MathFuncs.gen_arctan2 P x y = arctan2 P x y. Proof. reflexivity. Qed.
  Lemma kronecker_bridge : forall x y, Gen.MathFuncs.gen_kronecker P x y = kronecker P x y. Proof. reflexivity. Qed.
  Lemma real_bridge : forall z, Gen.MathFuncs.gen_real P z = real P z. Proof. reflexivity. Qed.
  Lemma imag_bridge : forall z, Gen.MathFuncs.gen_imag P z = imag P z. Proof. reflexivity. Qed.
  Lemma cross_bridge : forall a b, Gen.MathFuncs.gen_cross P a b = cross P a b. Proof. reflexivity. Qed.
  Lemma array_abs_bridge : forall x, Gen.MathFuncs.gen_array_abs P x = array_abs P x. Proof. reflexivity. Qed.
  Lemma ctrans_bridge : forall x, Gen.MathFuncs.gen_lambda_ctrans P x = ctrans P x. Proof. reflexivity. Qed.
  Lemma adj_bridge : forall x, Gen.MathFuncs.gen_lambda_adj P x = ctrans P x. Proof. reflexivity. Qed.
End Bridge.

Lemma default_functions_bridge : Gen.MathFuncs.gen_default_functions = default_functions.
Proof. reflexivity. Qed.
Lemma matrix_functions_bridge : Gen.MathFuncs.gen_matrix_functions = matrix_functions.
Proof. reflexivity. Qed.
Lemma default_variables_bridge : Gen.MathFuncs.gen_default_variables = default_variables.
Proof. reflexivity. Qed.
Lemma handlers_bridge : Gen.MathFuncs.gen_eval_function_handlers = eval_function_handlers.
Proof. reflexivity. Qed.
Lemma arity_mismatch_bridge : Gen.MathFuncs.gen_arity_mismatch = XArgumentError.
Proof. reflexivity. Qed.
