(* Bridge/Summation.v -- the definitions regenerated from integralgrader.py coincide with the model (C19) *)
From Coq Require Import ZArith QArith List.
From Verif.Lib Require Import SummationPy.
From Verif.Gen Require Summation.
From Verif.Model Require Import Summation.

Lemma summation_plan_bridge : forall lower upper even_odd infty_val,
  Gen.Summation.gen_summation_plan lower upper even_odd infty_val = summation_plan lower upper even_odd infty_val.
Proof. reflexivity. Qed.

Lemma perform_summation_bridge : forall (V : Type) (vzero : V) vadd f lower upper even_odd infty_val,
  Gen.Summation.gen_perform_summation vzero vadd f lower upper even_odd infty_val
  = perform_summation vzero vadd f lower upper even_odd infty_val.
Proof. reflexivity. Qed.

Lemma evaluate_sum_pre_bridge : forall c, Gen.Summation.gen_evaluate_sum_pre c = evaluate_sum_pre c.
Proof. reflexivity. Qed.

Lemma evaluate_sum_limits_bridge : forall lower upper,
  Gen.Summation.gen_evaluate_sum_limits lower upper = evaluate_sum_limits lower upper.
Proof. reflexivity. Qed.

Lemma evaluate_sum_cutoff_bridge : forall a b c d,
  Gen.Summation.gen_evaluate_sum_cutoff a b c d = evaluate_sum_cutoff a b c d.
Proof. reflexivity. Qed.
