(* Bridge/SingleList.v -- the definitions regenerated from mitxgraders/listgrader.py (Gen/SingleList.v) coincide
   with the hand-written model (Model/SingleList.v).  The theorems of Proofs/SingleList.v are about the model;
   through these lemmas they are about what the source says now. *)
From Coq Require Import ZArith QArith List Bool Arith Lia.
From Verif.Lib Require Import QRound.
From Verif.Model Require Import Result SingleList.
From Verif.Gen Require SingleList.
Import ListNotations.
Open Scope Q_scope.

(* consolidate_grades(grade_decimals, n_expect) *)
Lemma consolidate_grades_bridge : forall gs n,
  Gen.SingleList.gen_consolidate_grades gs (Some (Z.of_nat n)) = consolidate_grades gs n.
Proof. reflexivity. Qed.

(* n_expect=None means len(grade_decimals) *)
Lemma consolidate_grades_default_bridge : forall gs,
  Gen.SingleList.gen_consolidate_grades gs None = consolidate_grades gs (length gs).
Proof. reflexivity. Qed.

(* consolidate_single_return(input_list, n_expect, partial_credit): (grade_decimal, msg); 'ok' is derived *)
Lemma consolidate_single_bridge : forall rs n partial,
  Gen.SingleList.gen_consolidate_single_return rs (Some (Z.of_nat n)) partial = consolidate_single rs n partial.
Proof.
  intros rs n partial. unfold Gen.SingleList.gen_consolidate_single_return, consolidate_single. cbv zeta.
  rewrite consolidate_grades_bridge.
  destruct partial; simpl negb; simpl andb; [reflexivity|].
  destruct (Qltb (consolidate_grades (map sr_grade rs) n) 1); reflexivity.
Qed.

(* get_padded_lists(list1, list2) *)
Lemma get_padded_lists_bridge : forall {T1 T2} (l1 : list T1) (l2 : list T2),
  Gen.SingleList.gen_get_padded_lists l1 l2 =
  (pad (Nat.max (length l1) (length l2)) l1, pad (Nat.max (length l1) (length l2)) l2).
Proof.
  intros T1 T2 l1 l2. unfold Gen.SingleList.gen_get_padded_lists, pad. cbv zeta.
  rewrite <- Nat2Z.inj_max, <- !Nat2Z.inj_sub by lia. rewrite !Nat2Z.id. reflexivity.
Qed.

(* padded_check(check) *)
Lemma padded_check_bridge : forall {A} (cr : A -> str -> res sres) oa oi,
  Gen.SingleList.gen_padded_check cr oa oi = checker cr oa oi.
Proof. intros A cr [a|] [i|]; reflexivity. Qed.

(* SingleListGrader.process_grade_list(grade_list, num_answers, msg, grade_decimal) *)
Lemma process_grade_list_bridge : forall c rs n msg credit,
  Gen.SingleList.gen_process_grade_list (c_partial c) (c_nested c) rs (Z.of_nat n) msg credit = process c rs n msg credit.
Proof.
  intros c rs n msg credit. unfold Gen.SingleList.gen_process_grade_list, process. rewrite consolidate_single_bridge.
  destruct (consolidate_single rs n (c_partial c)) as [g m]. cbv zeta. simpl fst. simpl snd.
  unfold all_awarded, add_msg, nl. destruct (c_nested c); simpl negb; cbv iota;
    (destruct (forallb _ rs); simpl andb; [|reflexivity]);
    (destruct (negb (is_empty msg)); [|reflexivity]);
    (destruct (is_empty m); [reflexivity | rewrite <- app_assoc; reflexivity]).
Qed.
