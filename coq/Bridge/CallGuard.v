(* Bridge/CallGuard.v -- the tables regenerated from /repo (Gen/CallGuard.v) coincide with the constants of the
   hand-written model on which the C02 theorems are proved. *)
From Coq Require Import ZArith List String.
From Verif.Lib Require Import CallGuardBase.
From Verif.Gen Require CallGuard.
From Verif.Model Require Import CallGuard.

Lemma exc_table_bridge : Gen.CallGuard.exc_table = exc_table.
Proof. reflexivity. Qed.

Lemma np_err_rules_bridge : Gen.CallGuard.np_err_rules = np_err_rules.
Proof. reflexivity. Qed.

Lemma np_err_default_bridge : Gen.CallGuard.np_err_default = np_err_default.
Proof. reflexivity. Qed.

Lemma np_seterr_bridge : Gen.CallGuard.np_seterr = np_seterr /\ Gen.CallGuard.np_seterrcall = np_seterrcall.
Proof. split; reflexivity. Qed.

Lemma eval_handlers_bridge : Gen.CallGuard.eval_handlers = eval_handlers.
Proof. reflexivity. Qed.

Lemma evalfn_handlers_bridge : Gen.CallGuard.evalfn_handlers = evalfn_handlers.
Proof. reflexivity. Qed.

Lemma arity_error_bridge : Gen.CallGuard.arity_error = arity_error.
Proof. reflexivity. Qed.

Lemma parse_bridge :
  Gen.CallGuard.parse_handlers = parse_handlers /\ Gen.CallGuard.parse_strip = parse_strip
  /\ Gen.CallGuard.raw_parse_steps = raw_parse_steps.
Proof. repeat split; reflexivity. Qed.

Lemma guard_bridge : Gen.CallGuard.guard = guard.
Proof. reflexivity. Qed.

Lemma ensure_bridge : Gen.CallGuard.ensure = ensure.
Proof. reflexivity. Qed.
