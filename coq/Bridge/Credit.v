(* Bridge/Credit.v -- the definitions regenerated from attemptcredit.py coincide with the model *)
From Coq Require Import ZArith QArith.
From Verif.Lib Require Import QRound PyNum.
From Verif.Gen Require Credit.
From Verif.Model Require Import Credit.

Lemma linear_bridge : forall a s m n, Gen.Credit.gen_linear_credit a s m n = linear_credit a s m n.
Proof. reflexivity. Qed.

Lemma geometric_bridge : forall f n, Gen.Credit.gen_geometric_credit f n = geometric_credit f n.
Proof. reflexivity. Qed.

Lemma reciprocal_bridge : forall n, Gen.Credit.gen_reciprocal_credit n = reciprocal_credit n.
Proof. reflexivity. Qed.
