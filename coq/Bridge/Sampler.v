(* Bridge/Sampler.v -- the definitions regenerated from sampling.py / matrixsampling.py coincide with the
   hand-written model (C12) *)
From Coq Require Import ZArith QArith Bool.
From Verif.Lib Require Import QRound PyNum.
From Verif.Model Require Import Sampler SamplerMat.
From Verif.Gen Require Sampler.
Open Scope Q_scope.

Lemma real_interval_init_bridge : forall a b, Gen.Sampler.gen_real_interval_init a b = real_interval_init a b.
Proof. reflexivity. Qed.

Lemma real_interval_gen_bridge : forall a b u, Gen.Sampler.gen_real_interval_gen a b u = real_interval_gen a b u.
Proof. reflexivity. Qed.

Lemma integer_range_init_bridge : forall a b, Gen.Sampler.gen_integer_range_init a b = integer_range_init a b.
Proof. reflexivity. Qed.

Lemma integer_range_call_bridge : forall a b, Gen.Sampler.gen_integer_range_call a b = integer_range_call a b.
Proof. reflexivity. Qed.

Lemma rf_amp_bridge : forall u, Gen.Sampler.gen_rf_amp u = rf_amp u.
Proof. reflexivity. Qed.
Lemma rf_phase_arg_bridge : forall u, Gen.Sampler.gen_rf_phase_arg u = rf_phase_arg u.
Proof. reflexivity. Qed.
Lemma rf_freq_bridge : forall u, Gen.Sampler.gen_rf_freq u = rf_freq u.
Proof. reflexivity. Qed.
Lemma rf_shift_bridge : forall u, Gen.Sampler.gen_rf_shift u = rf_shift u.
Proof. reflexivity. Qed.
(* fullsum * amplitude / (num_terms * input_dim), componentwise, is the model's scaling *)
Lemma rf_scale_bridge : forall z amplitude num_terms input_dim,
  ceq (Gen.Sampler.gen_rf_scale (fst z) amplitude num_terms input_dim,
       Gen.Sampler.gen_rf_scale (snd z) amplitude num_terms input_dim)
      (cscale (amplitude / (num_terms * input_dim)) z).
Proof.
  intros [x y] a n k. unfold Gen.Sampler.gen_rf_scale, cscale, ceq. simpl. split; unfold Qdiv; ring.
Qed.

Lemma sqm_init_bridge : forall sym traceless det cplx dim,
  Gen.Sampler.gen_sqm_init sym traceless det cplx dim = sqm_init sym traceless det cplx dim.
Proof.
  intros sym traceless det cplx dim. unfold Gen.Sampler.gen_sqm_init, sqm_init.
  destruct sym, traceless, det, cplx; cbn -[Z.modulo Z.eqb];
    repeat match goal with |- context [(?a =? ?b)%Z] => destruct (a =? b)%Z; cbn -[Z.modulo Z.eqb] end;
    reflexivity.
Qed.

Lemma sq_apply_symmetry_bridge : forall sym traceless dim array,
  Gen.Sampler.gen_sq_apply_symmetry sym traceless dim array = sq_apply_symmetry sym traceless dim array.
Proof. intros sym traceless dim array. destruct sym, traceless; reflexivity. Qed.

Lemma tri_apply_bridge : forall tri array, Gen.Sampler.gen_tri_apply tri array = tri_apply tri array.
Proof. intros tri array. destruct tri; reflexivity. Qed.
