(* Bridge/Schemas.v -- the validatorfuncs combinators REGENERATED from mitxgraders/helpers/validatorfuncs.py coincide
   with the shapes the proofs are written about (Proofs/SchemaIdem2.v, Proofs/SchemaGen.v). *)
From Coq Require Import ZArith QArith List Bool String.
From Verif.Model Require Import Result Schema.
From Verif.Gen Require Schemas.
From Verif.Proofs Require Import Schema SchemaIdem SchemaIdem2.
Import ListNotations.
Open Scope list_scope.

Lemma positive_bridge : forall t,
  Schemas.gen_Positive t =
  if pytype_eqb t TInt then SAll [SType t; SRange (BQ 1) BPosInf]
  else SAll [SType t; SRange (BQ 0) BPosInf; SNotIn [PInt 0]].
Proof. reflexivity. Qed.

Lemma nonnegative_bridge : forall t, Schemas.gen_NonNegative t = SAll [SType t; SRange (BQ 0) BPosInf].
Proof. reflexivity. Qed.

Lemma number_range_bridge : forall t, Schemas.gen_NumberRange t = number_range t.
Proof. reflexivity. Qed.

Lemma list_of_type_bridge : forall t v,
  Schemas.gen_ListOfType t (Some v) = SAll [SWrap KList; SAll [SList [SType t]; SLength (Some 1%Z) None; SList [v]]].
Proof. reflexivity. Qed.

Lemma tuple_of_type_bridge : forall ts,
  Schemas.gen_TupleOfType ts None = SAll [SWrap KTuple; SAll [STuple [SAny (map SType ts)]; SLength (Some 1%Z) None]].
Proof. reflexivity. Qed.

Lemma shape_specification_bridge : forall lo hi,
  Schemas.gen_is_shape_specification lo hi = SAll [shape_any (Schemas.gen_Positive TInt); SLength (Some lo) hi].
Proof. reflexivity. Qed.

Lemma nullable_bridge : forall s, Schemas.gen_Nullable s = SAny [SLit PNone; s].
Proof. reflexivity. Qed.

Lemma user_constants_bridge : forall ts,
  Schemas.gen_validate_user_constants ts = SAll [SKeysStr; SDict [] (Some (SAny [SAny (map SType ts); SLit PNone]))].
Proof. reflexivity. Qed.
