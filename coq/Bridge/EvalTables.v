(* Bridge/EvalTables.v -- the tables and the grammar regenerated from /repo coincide with the reference
   copy the model was written against *)
From Coq Require Import ZArith QArith List.
From Verif.Model Require Import Result ParserGrammar EvalTables.
From Verif.Gen Require EvalTables.

Lemma default_suffixes_bridge : Gen.EvalTables.gen_default_suffixes = ref_default_suffixes.
Proof. reflexivity. Qed.

Lemma metric_suffixes_bridge : Gen.EvalTables.gen_metric_suffixes = ref_metric_suffixes.
Proof. reflexivity. Qed.

Lemma default_constants_bridge : Gen.EvalTables.gen_default_constants = ref_default_constants.
Proof. reflexivity. Qed.

Lemma grammar_bridge : Gen.EvalTables.gen_grammar = ref_grammar.
Proof. reflexivity. Qed.

Lemma precedence_chain_bridge : precedence_chain Gen.EvalTables.gen_grammar = documented_levels.
Proof. vm_compute. reflexivity. Qed.
