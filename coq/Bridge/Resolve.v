(* Bridge/Resolve.v -- the definitions regenerated from /repo coincide with the hand-written model (C13, tie A) *)
From Coq Require Import ZArith List Bool String.
From Verif.Model Require Import Result Resolve.
From Verif.Gen Require Resolve.
From Verif.Proofs Require Import Resolve.
Import ListNotations.

(* the text of the regular expression that Model.numbered_match implements (Proofs/ResolveNumbered.v gives its meaning) *)
Lemma rx_prefix_bridge : Gen.Resolve.gen_rx_prefix = rx_prefix.
Proof. reflexivity. Qed.

Lemma rx_suffix_bridge : Gen.Resolve.gen_rx_suffix = rx_suffix.
Proof. reflexivity. Qed.

Lemma rx_heads_bridge : Gen.Resolve.gen_rx_separator = "|"%string /\ Gen.Resolve.gen_rx_heads_escaped = true.
Proof. split; reflexivity. Qed.

(* is_subset(dependencies, sample_dict) is the readiness test of the model *)
Lemma is_subset_bridge : forall V formula (fdeps : formula -> list str) f (e : env V),
  Gen.Resolve.gen_is_subset (fdeps f) e = deps_ready V formula fdeps f e.
Proof. reflexivity. Qed.

(* construct_constants: same dictionary as the model's, read through lookup *)
Lemma construct_constants_fold : forall {A} (u : list (str * A)) keys acc x,
  alookup (fold_left (fun constants var => match alookup u var with Some v => (var, v) :: constants | None => constants end)
                     keys acc) x
  = if smem x keys then match alookup u x with Some v => Some v | None => alookup acc x end else alookup acc x.
Proof.
  intros A u keys. induction keys as [|k ks IH]; intros acc x; simpl; [reflexivity | ].
  rewrite IH. destruct (str_eqb x k) eqn:E.
  - apply str_eqb_eq in E. subst k. simpl. destruct (alookup u x) as [v|] eqn:L.
    + destruct (smem x ks); [reflexivity | ]. simpl. rewrite str_eqb_refl. reflexivity.
    + destruct (smem x ks); reflexivity.
  - simpl. destruct (smem x ks); [ | ].
    + destruct (alookup u x); [reflexivity | ]. destruct (alookup u k); [ | reflexivity]. simpl. rewrite E. reflexivity.
    + destruct (alookup u k); [ | reflexivity]. simpl. rewrite E. reflexivity.
Qed.

Lemma construct_constants_bridge : forall V (defaults user : env V) x,
  alookup (Gen.Resolve.gen_construct_constants defaults user) x = alookup (construct_constants V defaults user) x.
Proof.
  intros V defaults user x. unfold Gen.Resolve.gen_construct_constants, construct_constants.
  rewrite construct_constants_fold. rewrite alookup_app.
  rewrite (alookup_filter_key (fun k => negb (amem user k)) defaults x).
  destruct (alookup user x) as [v|] eqn:L.
  - assert (S : smem x (map fst user) = true).
    { apply smem_In. apply amem_In. unfold amem. rewrite L. reflexivity. }
    rewrite S. reflexivity.
  - assert (M : amem user x = false) by (unfold amem; rewrite L; reflexivity). rewrite M. simpl.
    destruct (smem x (map fst user)); reflexivity.
Qed.

Lemma construct_constants_lookup : forall V (defaults user : env V) x,
  alookup (Gen.Resolve.gen_construct_constants defaults user) x =
  match alookup user x with Some v => Some v | None => alookup defaults x end.
Proof.
  intros V defaults user x. rewrite construct_constants_bridge. unfold construct_constants.
  rewrite alookup_app. rewrite (alookup_filter_key (fun k => negb (amem user k)) defaults x).
  destruct (alookup user x) as [v|] eqn:L; [reflexivity | ].
  assert (M : amem user x = false) by (unfold amem; rewrite L; reflexivity). rewrite M. reflexivity.
Qed.
