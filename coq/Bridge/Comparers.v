(* Bridge/Comparers.v -- the definitions regenerated from the source (Gen/Comparers.v, translate/comparers.py)
   coincide with the hand-written model (Model/Comparers.v) *)
From Coq Require Import ZArith QArith Lia Lqa List Bool.
From Verif.Lib Require Import QRound.
From Verif.Model Require Import Result Comparers.
From Verif.Gen Require Comparers.
From Verif.Proofs Require Import Credit ComparersCredit.
Import ListNotations.
Open Scope Q_scope.

Module G := Verif.Gen.Comparers.

Lemma all_modes_bridge : G.gen_all_modes = all_modes.
Proof. reflexivity. Qed.

Lemma zero_compatible_bridge : forall m, existsb (G.lmode_eqb m) G.gen_zero_compatible_modes = zero_compatible m.
Proof. intros []; reflexivity. Qed.

Lemma default_credits_bridge : G.gen_default_credits = mkL (Some 1) (Some (1 # 2)) None None.
Proof. reflexivity. Qed.

Lemma configured_bridge : forall cfg, G.gen_configured cfg = configured cfg.
Proof. reflexivity. Qed.

Lemma valid_modes_bridge : forall cfg z, G.gen_valid_modes cfg z = valid_modes cfg z.
Proof.
  intros cfg z. unfold G.gen_valid_modes, valid_modes. rewrite configured_bridge. destruct z; [|reflexivity].
  apply filter_ext. exact zero_compatible_bridge.
Qed.

(* the model's dispatch equals -> |x - y|, proportional -> lstsq on one column, offset -> mean shift,
   linear -> lstsq on two columns follows the table *)
Lemma error_calculators_bridge :
  G.gen_error_calculators = [(LEquals, 0%Z); (LProportional, 1%Z); (LOffset, 2%Z); (LLinear, 3%Z)].
Proof. reflexivity. Qed.

Lemma comparing_zero_bridge : forall tl ss,
  comparing_zero tl ss =
  G.gen_comparing_zero
    (forallb (fun es => nearly_zero tl (norm2 (flat (snd es))) (norm2 (flat (fst es)))) ss)
    (forallb (fun es => all_zero (flat (fst es))) ss).
Proof. reflexivity. Qed.

Lemma div_mul_cancel x y : 0 < y -> x == x / y * y.
Proof. intro H. field. lra. Qed.

Lemma frac_eq_1 k n : (0 < n)%nat -> (k <= n)%nat ->
  Qeq_bool (inject_Z (Z.of_nat k) / inject_Z (Z.of_nat n)) 1 = Nat.eqb k n.
Proof.
  intros Hn Hk. assert (P : 0 < inject_Z (Z.of_nat n)) by (change 0 with (inject_Z 0); rewrite <- Zlt_Qlt; lia).
  destruct (Nat.eqb k n) eqn:E.
  - apply Nat.eqb_eq in E. subst k. apply Qeq_bool_iff. unfold Qdiv. apply Qmult_inv_r. intro Z0. rewrite Z0 in P. apply (Qlt_irrefl 0). exact P.
  - apply Nat.eqb_neq in E. destruct (Qeq_bool _ 1) eqn:F; [|reflexivity]. apply Qeq_bool_iff in F.
    assert (X : inject_Z (Z.of_nat k) == inject_Z (Z.of_nat n)).
    { rewrite (div_mul_cancel (inject_Z (Z.of_nat k)) _ P), F. ring. }
    assert (Y : Z.of_nat k = Z.of_nat n) by (apply inject_Z_injective; exact X). lia.
Qed.

Lemma frac_eq_0 k n : (0 < n)%nat ->
  Qeq_bool (inject_Z (Z.of_nat k) / inject_Z (Z.of_nat n)) 0 = Nat.eqb k 0.
Proof.
  intros Hn. assert (P : 0 < inject_Z (Z.of_nat n)) by (change 0 with (inject_Z 0); rewrite <- Zlt_Qlt; lia).
  destruct (Nat.eqb k 0) eqn:E.
  - apply Nat.eqb_eq in E. subst k. apply Qeq_bool_iff. unfold Qdiv. change (inject_Z (Z.of_nat 0)) with 0. ring.
  - apply Nat.eqb_neq in E. destruct (Qeq_bool _ 0) eqn:F; [|reflexivity]. apply Qeq_bool_iff in F.
    assert (X : inject_Z (Z.of_nat k) == inject_Z 0).
    { rewrite (div_mul_cancel (inject_Z (Z.of_nat k)) _ P), F. change (inject_Z 0) with 0. ring. }
    assert (Y : Z.of_nat k = 0%Z) by (apply inject_Z_injective; exact X). lia.
Qed.

Lemma entry_credit_bridge : forall pc locs, locs <> [] ->
  G.gen_entry_credit (G.gen_percent_correct locs) pc locs = entry_credit pc locs.
Proof.
  intros pc locs Hne. unfold G.gen_entry_credit, G.gen_percent_correct, entry_credit.
  assert (Hn : (0 < length locs)%nat) by (destruct locs; [contradiction | simpl; lia]).
  rewrite (frac_eq_1 _ _ Hn (count_true_le locs)), (frac_eq_0 _ _ Hn).
  destruct (Nat.eqb (count_true locs) (length locs)); [reflexivity|].
  destruct (Nat.eqb (count_true locs) 0); [reflexivity|]. destruct pc; reflexivity.
Qed.

Lemma policy_bridge : forall p m, mismatch_policy (GMatrix p) (XInputType m) = G.gen_input_type_policy p m.
Proof.
  intros p m. unfold mismatch_policy, G.gen_input_type_policy. destruct (p_suppress p); [reflexivity|].
  destruct (p_raised p); reflexivity.
Qed.

(* properties restated on the regenerated definitions *)
Lemma gen_zero_rule : forall cfg m, In m (G.gen_valid_modes cfg true) -> m = LEquals \/ m = LOffset.
Proof.
  intros cfg m H. unfold G.gen_valid_modes in H. apply filter_In in H. destruct H as [_ H].
  destruct m; simpl in H; try discriminate; auto.
Qed.

Lemma gen_entry_credit_spec : forall pc locs, locs <> [] ->
  (all_match locs = true -> G.gen_entry_credit (G.gen_percent_correct locs) pc locs = CBool true) /\
  (none_match locs = true -> G.gen_entry_credit (G.gen_percent_correct locs) pc locs = CDict 0 (MsgEntries locs)) /\
  (all_match locs = false -> none_match locs = false ->
     G.gen_entry_credit (G.gen_percent_correct locs) pc locs = CDict (partial_value pc locs) (MsgEntries locs)).
Proof. intros pc locs Hne. rewrite (entry_credit_bridge pc locs Hne). apply entry_credit_spec. exact Hne. Qed.

Lemma gen_policy_spec : forall p exp inp,
  G.gen_input_type_policy p (MsgShape (shape_msg (p_detail p) exp inp)) = mismatch_outcome p exp inp.
Proof. intros. rewrite <- policy_bridge. apply policy_on_shape_error. Qed.
