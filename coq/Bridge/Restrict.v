(* Bridge/Restrict.v -- the definitions regenerated from math_helpers.py / formulagrader.py / integralgrader.py
   (Gen/Restrict.v) coincide with the hand-written model on which the C09 theorems are proved. *)
From Coq Require Import ZArith List Bool.
From Verif.Model Require Import Result Lexer RestrictBase Restrict.
From Verif.Gen Require Restrict.

Lemma permitted_bridge : forall d w b a,
  Gen.Restrict.gen_get_permitted_functions d w b a = get_permitted_functions d w b a.
Proof. reflexivity. Qed.

Lemma forbidden_bridge : forall e f,
  Gen.Restrict.gen_validate_forbidden_strings_not_used e f = validate_forbidden_strings_not_used e f.
Proof. reflexivity. Qed.

Lemma only_permitted_bridge : forall u p,
  Gen.Restrict.gen_validate_only_permitted_functions_used u p = validate_only_permitted_functions_used u p.
Proof. reflexivity. Qed.

Lemma required_bridge : forall u r,
  Gen.Restrict.gen_validate_required_functions_used u r = validate_required_functions_used u r.
Proof. reflexivity. Qed.

Lemma post_eval_bridge : forall e u f r p,
  Gen.Restrict.gen_post_eval_validation e u f r p = post_eval_validation e u f r p.
Proof. reflexivity. Qed.

Lemma gate_bridge : forall ok, Gen.Restrict.gen_runs_post_validation ok = runs_post_validation ok.
Proof. reflexivity. Qed.

Lemma regexp_bridge : Gen.Restrict.gen_numbered_regexp = numbered_regexp.
Proof. reflexivity. Qed.

Lemma loops_bridge :
  Gen.Restrict.gen_formula_loop = loop_events /\ Gen.Restrict.gen_sum_loop = sum_loop_events
  /\ Gen.Restrict.gen_integral_loop = loop_events.
Proof. repeat split; reflexivity. Qed.

Lemma blacklists_bridge :
  Gen.Restrict.gen_formula_blacklist = formula_blacklist /\ Gen.Restrict.gen_sum_blacklist = summation_blacklist
  /\ Gen.Restrict.gen_integral_blacklist = summation_blacklist.
Proof. repeat split; reflexivity. Qed.
