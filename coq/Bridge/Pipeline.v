(* Bridge/Pipeline.v -- the definitions regenerated from /repo (Gen/PipelineLits.v: grade_decimal_to_ok and every
   result-dictionary literal of the functions that fabricate results) coincide with the constants of Model/Pipeline.v *)
From Coq Require Import ZArith QArith List Bool.
From Verif.Lib Require Import QRound.
From Verif.Model Require Import Result Credit Pipeline.
From Verif.Gen Require PipelineLits.
Import ListNotations.
Open Scope Q_scope.
Import Gen.PipelineLits.

Definition lit_of (e : entry) : lit := LConst (e_ok e) (e_grade e).

(* AbstractGrader.grade_decimal_to_ok *)
Lemma grade_to_ok_bridge : forall g, gen_grade_to_ok g = grade_to_ok g.
Proof. reflexivity. Qed.

(* ItemGrader.standardize_cfn_return: the three constant branches, then the inferred one *)
Lemma standardize_bridge :
  gen_lits_standardize_cfn_return
  = [lit_of (standardize CfTrue); lit_of (standardize CfPartial); lit_of (standardize CfFalse); LInferred].
Proof. reflexivity. Qed.

Lemma standardize_inferred_bridge : forall g m,
  e_ok (standardize (CfDict g m)) = gen_grade_to_ok g /\ e_grade (standardize (CfDict g m)) = g.
Proof. intros g m. split; reflexivity. Qed.

(* listgrader.padded_check *)
Lemma padded_check_bridge : gen_lits_padded_check = [lit_of (i_e auto_fail)].
Proof. reflexivity. Qed.

(* StringGrader.construct_message / check_response *)
Lemma construct_message_bridge : forall m, gen_lits_construct_message = [lit_of (i_e (string_response 1 [] OkTrue (SInvalid m)))].
Proof. reflexivity. Qed.

Lemma string_check_response_bridge : forall c m o,
  gen_lits_string_check_response = [lit_of (i_e (string_response c m o SReject)); LCopy]
  /\ i_e (string_response c m o SAccept) = mkEntry o c m.
Proof. intros c m o. split; reflexivity. Qed.

(* MatrixGrader.check_response: five except-branch literals, all the zero result the model returns *)
Lemma matrix_check_response_bridge : forall c k m r,
  gen_lits_matrix_check_response = repeat (lit_of (i_e (zero_res []))) 5
  /\ (matrix_err c k m = Ret r -> lit_of (i_e r) = lit_of (i_e (zero_res []))).
Proof.
  intros c k m r. split; [reflexivity|]. unfold matrix_err.
  destruct (m_suppress c); [intro H; injection H as <-; reflexivity|].
  destruct k; [destruct (m_shape_errors c) | destruct (m_is_raised c) |]; intro H; try discriminate;
    injection H as <-; reflexivity.
Qed.
