(* Bridge/Protocol.v -- the programs regenerated from mitxgraders/ coincide with the ones the C11 theorems are about *)
From Coq Require Import List Bool.
From Verif.Lib Require Import ProtocolSyntax.
From Verif.Gen Require Protocol.
From Verif.Model Require Import Protocol.
Import ListNotations.

(* ItemGrader.__call__ + AbstractGrader.__call__ *)
Lemma call_prog_bridge : Verif.Gen.Protocol.gen_call_prog = call_prog.
Proof. reflexivity. Qed.

(* AbstractGrader.create_debuglog *)
Lemma create_prog_bridge : Verif.Gen.Protocol.gen_create_prog = create_prog.
Proof. reflexivity. Qed.

(* MathArray.enable_negative_powers, the initial value of the switch, and its use by MatrixGrader.check_response *)
Lemma cm_prog_bridge : Verif.Gen.Protocol.gen_cm_prog = cm_prog.
Proof. reflexivity. Qed.

Lemma switch_initial_bridge : Verif.Gen.Protocol.gen_switch_initial = mkSwitch true true.
Proof. reflexivity. Qed.

Lemma matrix_check_bridge : Verif.Gen.Protocol.gen_matrix_check_in_switch = true.
Proof. reflexivity. Qed.
