(* Bridge/Tolerance.v -- the definitions regenerated from mathfuncs.py / math_helpers.py (Gen/Tolerance.v)
   coincide with the hand-written model (Model/Tolerance.v). *)
From Coq Require Import ZArith QArith List Bool.
From Verif.Lib Require Import QRound.
From Verif.Model Require Import Result Tolerance.
From Verif.Gen Require Tolerance.
Import ListNotations.

(* The proofs tolerate harmless rewritings of the source (renamed locals, `not (a > b)` for `a <= b`, nesting of
   the two `if`s); anything that changes the decision makes them fail. *)
Lemma percentage_bridge : forall t, Gen.Tolerance.gen_percentage_as_number t = percentage_as_number t.
Proof. reflexivity. Qed.

Lemma within_tolerance_bridge : forall x y t,
  Gen.Tolerance.gen_within_tolerance x y t = within_tolerance x y t.
Proof.
  intros x y t. unfold Gen.Tolerance.gen_within_tolerance, within_tolerance, n_lt.
  cbv zeta. rewrite ?negb_involutive.
  destruct (v_is_number x);
    destruct (v_eqb x v_pinf || v_eqb y v_pinf || v_eqb x (v_neg v_pinf) || v_eqb y (v_neg v_pinf)); reflexivity.
Qed.

Lemma consolidate_bridge : forall results answer failable,
  Gen.Tolerance.gen_consolidate_results results answer failable = consolidate_results results answer failable.
Proof. reflexivity. Qed.
