(* Props/C19.v -- SumGrader accepts exactly the sums equal in value to the author's.
   Only statements, `exact lemma`, Print Assumptions, and Examples.

   perform_summation and the evaluate_sum fragments are stated on the definitions REGENERATED from
   mitxgraders/formulagrader/integralgrader.py (Gen.Summation, through Bridge/Summation.v); the grader flow
   (check / raw_check / gen_evaluations / __call__) on the hand-written model, tied by trace correspondence.
   Oracles (parser, evaluator, tolerance comparison, name syntax) are universally quantified.

   One full-strength error statement of the property does NOT hold of the faithful model (nor of the code): failures in
   the author's own sum outside the guarded evaluation.  It is kept as a comment next to the _partial theorem, with
   _refuted witnesses (known findings).  The instructor-variable statements became full after fixes 390fac8 / e54e9a1. *)
From Coq Require Import ZArith QArith Bool List Permutation Sorted.
From Verif.Lib Require Import SummationPy.
From Verif.Gen Require Summation.
From Verif.Model Require Import Summation.
From Verif.Bridge Require Import Summation.
From Verif.Proofs Require Import Summation SummationGen.
Import ListNotations.
Open Scope Z_scope.

(* ---------------------------------------------------------------------------------------------- *)
(* The index set and the sum                                                                       *)
(* ---------------------------------------------------------------------------------------------- *)
(* index_set eo l h: exactly the integers between l and h inclusive of the requested parity, increasing *)
Theorem C19_index_set_exact : forall eo l h k,
  In k (index_set eo l h) <-> (l <= k <= h /\ parity_ok eo k = true).
Proof. exact index_set_In. Qed.
Print Assumptions C19_index_set_exact.

Theorem C19_index_set_increasing : forall eo l h, StronglySorted Z.lt (index_set eo l h).
Proof. exact index_set_sorted. Qed.
Print Assumptions C19_index_set_increasing.

(* what is handed to range(): for ALL integer or infinite limits in either order, every cutoff, every even_odd *)
Theorem C19_plan : forall lo hi eo cut,
  Gen.Summation.gen_summation_plan (pl lo) (pl hi) (p_lit eo) (p_lit cut) =
  match code_bounds lo hi cut with
  | Bounds l h => Ret (adjust eo l, h + 1, step_of eo)
  | BErr m => Raise (ESummation m)
  end.
Proof. exact gen_plan_spec. Qed.
Print Assumptions C19_plan.

Theorem C19_range_enumerates_index_set : forall eo l h,
  zrange (adjust eo l) (h + 1) (step_of eo) = index_set eo l h.
Proof. exact zrange_spec. Qed.
Print Assumptions C19_range_enumerates_index_set.

(* sum_spec: any value type, any summand evaluator (which may fail: the first failure in increasing order wins) *)
Theorem C19_sum_spec : forall (V : Type) (vzero : V) (vadd : V -> V -> V) (f : Z -> outcome V) lo hi eo cut,
  Gen.Summation.gen_perform_summation vzero vadd f (pl lo) (pl hi) (p_lit eo) (p_lit cut)
  = match code_bounds lo hi cut with
    | Bounds l h => sum_over vzero vadd f (index_set eo l h)
    | BErr m => Raise (ESummation m)
    end.
Proof. exact @gen_sum_spec. Qed.
Print Assumptions C19_sum_spec.

Theorem C19_sum_value : forall (V : Type) (vzero : V) (vadd : V -> V -> V) (g : Z -> V) (f : Z -> outcome V) l,
  (forall k, In k l -> f k = Ret (g k)) -> sum_over vzero vadd f l = Ret (fold_left vadd (map g l) vzero).
Proof. exact @sum_over_total. Qed.
Print Assumptions C19_sum_value.

(* the order of the limits is irrelevant *)
Theorem C19_sum_symmetric : forall (V : Type) (vzero : V) (vadd : V -> V -> V) (f : Z -> outcome V) lo hi eo cut,
  Gen.Summation.gen_perform_summation vzero vadd f (pl lo) (pl hi) (p_lit eo) (p_lit cut)
  = Gen.Summation.gen_perform_summation vzero vadd f (pl hi) (pl lo) (p_lit eo) (p_lit cut).
Proof. exact @gen_sum_symmetric. Qed.
Print Assumptions C19_sum_symmetric.

(* index shift (any shift without parity filter, even shifts with one) *)
Theorem C19_sum_reindex_shift : forall (V : Type) (vzero : V) (vadd : V -> V -> V) (f : Z -> outcome V) a b eo cut s,
  (step_of eo = 1 \/ Z.even s = true) ->
  Gen.Summation.gen_perform_summation vzero vadd (fun k => f (k - s)) (pl (IFin (a + s))) (pl (IFin (b + s))) (p_lit eo) (p_lit cut)
  = Gen.Summation.gen_perform_summation vzero vadd f (pl (IFin a)) (pl (IFin b)) (p_lit eo) (p_lit cut).
Proof. exact @gen_sum_shift. Qed.
Print Assumptions C19_sum_reindex_shift.

(* reversal, in a commutative monoid of values *)
Theorem C19_sum_reindex_reverse : forall (V : Type) (vzero : V) (vadd : V -> V -> V),
  (forall x y z, vadd x (vadd y z) = vadd (vadd x y) z) -> (forall x y, vadd x y = vadd y x) ->
  forall (g : Z -> V) a b eo cut,
  Gen.Summation.gen_perform_summation vzero vadd (fun k => Ret (g (- k))) (pl (IFin (- b))) (pl (IFin (- a))) (p_lit eo) (p_lit cut)
  = Gen.Summation.gen_perform_summation vzero vadd (fun k => Ret (g k)) (pl (IFin a)) (pl (IFin b)) (p_lit eo) (p_lit cut).
Proof. exact @gen_sum_reverse. Qed.
Print Assumptions C19_sum_reindex_reverse.

(* the value depends on the index SET only: any enumeration order gives the same sum *)
Theorem C19_sum_is_over_the_index_set : forall (V : Type) (vzero : V) (vadd : V -> V -> V),
  (forall x y z, vadd x (vadd y z) = vadd (vadd x y) z) -> (forall x y, vadd x y = vadd y x) ->
  forall (g : Z -> V) l l', Permutation l l' -> fold_left vadd (map g l) vzero = fold_left vadd (map g l') vzero.
Proof. exact @sum_over_set. Qed.
Print Assumptions C19_sum_is_over_the_index_set.

(* renaming of the summation variable (evaluate_sum level): if the renamed summand evaluates like the original *)
Theorem C19_sum_reindex_rename : forall (V : Type) (vzero : V) (vadd : V -> V -> V) (parses : str -> outcome unit)
    (uses_fact uses_factorial : str -> bool) (eval_limit : str -> list str -> nat -> outcome pyv) (scope_check : str -> list str -> str -> outcome unit)
    (eval_term : str -> list str -> str -> Z -> nat -> outcome V) (cfg : config) (s s' lower upper v v' : str)
    (scope : list str) (i : nat),
  mem v' scope = mem v scope -> parses s' = parses s ->
  uses_fact s' = uses_fact s -> uses_factorial s' = uses_factorial s ->
  scope_check s' scope v' = scope_check s scope v ->
  (forall n, eval_term s' scope v' n i = eval_term s scope v n i) ->
  evaluate_sum vzero vadd parses uses_fact uses_factorial eval_limit scope_check eval_term cfg s' lower upper v' scope i
  = evaluate_sum vzero vadd parses uses_fact uses_factorial eval_limit scope_check eval_term cfg s lower upper v scope i.
Proof. exact @rename_variable. Qed.
Print Assumptions C19_sum_reindex_rename.

(* an infinite limit is replaced by the cutoff *)
Theorem C19_infinite_cutoff_upper : forall (V : Type) (vzero : V) (vadd : V -> V -> V) (f : Z -> outcome V) a eo cut,
  a <= cut ->
  Gen.Summation.gen_perform_summation vzero vadd f (pl (IFin a)) (pl IPInf) (p_lit eo) (p_lit cut)
  = Gen.Summation.gen_perform_summation vzero vadd f (pl (IFin a)) (pl (IFin cut)) (p_lit eo) (p_lit cut).
Proof. exact @gen_cutoff_upper. Qed.
Print Assumptions C19_infinite_cutoff_upper.

Theorem C19_infinite_cutoff_lower : forall (V : Type) (vzero : V) (vadd : V -> V -> V) (f : Z -> outcome V) a eo cut,
  - cut <= a ->
  Gen.Summation.gen_perform_summation vzero vadd f (pl INInf) (pl (IFin a)) (p_lit eo) (p_lit cut)
  = Gen.Summation.gen_perform_summation vzero vadd f (pl (IFin (- cut))) (pl (IFin a)) (p_lit eo) (p_lit cut).
Proof. exact @gen_cutoff_lower. Qed.
Print Assumptions C19_infinite_cutoff_lower.

Theorem C19_infinite_cutoff_both : forall (V : Type) (vzero : V) (vadd : V -> V -> V) (f : Z -> outcome V) eo cut,
  0 <= cut ->
  Gen.Summation.gen_perform_summation vzero vadd f (pl INInf) (pl IPInf) (p_lit eo) (p_lit cut)
  = Gen.Summation.gen_perform_summation vzero vadd f (pl (IFin (- cut))) (pl (IFin cut)) (p_lit eo) (p_lit cut).
Proof. exact @gen_cutoff_both. Qed.
Print Assumptions C19_infinite_cutoff_both.

(* the cutoff: infty_val_fact as soon as a factorial occurs in one of the three fields, else infty_val *)
Theorem C19_cutoff_choice : forall a b cf c,
  Gen.Summation.gen_evaluate_sum_cutoff (tb a) (tb b) cf c = Ret (if a || b then cf else c).
Proof. exact gen_cutoff_choice. Qed.
Print Assumptions C19_cutoff_choice.

(* ---------------------------------------------------------------------------------------------- *)
(* evaluate_sum on integer / infinite limits                                                       *)
(* ---------------------------------------------------------------------------------------------- *)
Theorem C19_evaluate_sum_spec : forall (V : Type) (vzero : V) (vadd : V -> V -> V) (parses : str -> outcome unit)
    (uses_fact uses_factorial : str -> bool) (eval_limit : str -> list str -> nat -> outcome pyv) (scope_check : str -> list str -> str -> outcome unit)
    (eval_term : str -> list str -> str -> Z -> nat -> outcome V) (cfg : config) (summand lower upper var : str)
    (scope : list str) (i : nat) (lo hi : pyv),
  mem var scope = false -> eval_limit lower scope i = Ret lo -> eval_limit upper scope i = Ret hi ->
  parses summand = Ret tt ->
  forall (l h : ilim) (eo c cf : Z),
  scope_check summand scope var = Ret tt ->
  lo = pl l -> hi = pl h -> c_even_odd cfg = p_lit eo -> c_infty_val cfg = p_lit c -> c_infty_val_fact cfg = p_lit cf ->
  evaluate_sum vzero vadd parses uses_fact uses_factorial eval_limit scope_check eval_term cfg summand lower upper var scope i =
  bounds_sum vzero vadd (fun n => eval_term summand scope var n i) eo
    (code_bounds l h (if any_fact uses_fact uses_factorial lower upper summand then cf else c)).
Proof. exact @evaluate_sum_spec. Qed.
Print Assumptions C19_evaluate_sum_spec.

(* ---------------------------------------------------------------------------------------------- *)
(* limit errors (student-facing SummationError)                                                    *)
(* ---------------------------------------------------------------------------------------------- *)
Theorem C19_summation_errors_are_student_facing : forall m, student_facing (ESummation m) = true.
Proof. exact (fun m => eq_refl). Qed.
Print Assumptions C19_summation_errors_are_student_facing.

Theorem C19_limit_checks_pass_on_integers_and_infinities : forall l h,
  Gen.Summation.gen_evaluate_sum_limits (pl l) (pl h) = Ret tt.
Proof. exact gen_limits_integers_pass. Qed.
Print Assumptions C19_limit_checks_pass_on_integers_and_infinities.

Theorem C19_limit_error_complex : forall (V : Type) (vzero : V) (vadd : V -> V -> V) (parses : str -> outcome unit)
    (uses_fact uses_factorial : str -> bool) (eval_limit : str -> list str -> nat -> outcome pyv) (scope_check : str -> list str -> str -> outcome unit)
    (eval_term : str -> list str -> str -> Z -> nat -> outcome V) (cfg : config) (summand lower upper var : str)
    (scope : list str) (i : nat) (lo hi : pyv),
  mem var scope = false -> eval_limit lower scope i = Ret lo -> eval_limit upper scope i = Ret hi ->
  parses summand = Ret tt ->
  lo = PCplx \/ (hi = PCplx /\ lo <> PExc) ->
  evaluate_sum vzero vadd parses uses_fact uses_factorial eval_limit scope_check eval_term cfg summand lower upper var scope i
  = Raise (ESummation MComplex).
Proof. exact @complex_limit_error. Qed.
Print Assumptions C19_limit_error_complex.

Theorem C19_limit_error_noninteger_lower : forall (V : Type) (vzero : V) (vadd : V -> V -> V) (parses : str -> outcome unit)
    (uses_fact uses_factorial : str -> bool) (eval_limit : str -> list str -> nat -> outcome pyv) (scope_check : str -> list str -> str -> outcome unit)
    (eval_term : str -> list str -> str -> Z -> nat -> outcome V) (cfg : config) (summand lower upper var : str)
    (scope : list str) (i : nat) (lo hi : pyv),
  mem var scope = false -> eval_limit lower scope i = Ret lo -> eval_limit upper scope i = Ret hi ->
  parses summand = Ret tt ->
  forall (q : Q) (y : xnum), lo = PNum (XFin q) -> ~ (inject_Z (qtrunc q) == q)%Q -> hi = PNum y ->
  evaluate_sum vzero vadd parses uses_fact uses_factorial eval_limit scope_check eval_term cfg summand lower upper var scope i
  = Raise (ESummation MLowerInt).
Proof. exact @noninteger_lower_error. Qed.
Print Assumptions C19_limit_error_noninteger_lower.

Theorem C19_limit_error_noninteger_upper : forall (V : Type) (vzero : V) (vadd : V -> V -> V) (parses : str -> outcome unit)
    (uses_fact uses_factorial : str -> bool) (eval_limit : str -> list str -> nat -> outcome pyv) (scope_check : str -> list str -> str -> outcome unit)
    (eval_term : str -> list str -> str -> Z -> nat -> outcome V) (cfg : config) (summand lower upper var : str)
    (scope : list str) (i : nat) (lo hi : pyv),
  mem var scope = false -> eval_limit lower scope i = Ret lo -> eval_limit upper scope i = Ret hi ->
  parses summand = Ret tt ->
  forall (l : ilim) (q : Q), lo = pl l -> hi = PNum (XFin q) -> ~ (inject_Z (qtrunc q) == q)%Q ->
  evaluate_sum vzero vadd parses uses_fact uses_factorial eval_limit scope_check eval_term cfg summand lower upper var scope i
  = Raise (ESummation MUpperInt).
Proof. exact @noninteger_upper_error. Qed.
Print Assumptions C19_limit_error_noninteger_upper.

Theorem C19_limit_error_same_infinity : forall (V : Type) (vzero : V) (vadd : V -> V -> V) (parses : str -> outcome unit)
    (uses_fact uses_factorial : str -> bool) (eval_limit : str -> list str -> nat -> outcome pyv) (scope_check : str -> list str -> str -> outcome unit)
    (eval_term : str -> list str -> str -> Z -> nat -> outcome V) (cfg : config) (summand lower upper var : str)
    (scope : list str) (i : nat) (lo hi : pyv),
  mem var scope = false -> eval_limit lower scope i = Ret lo -> eval_limit upper scope i = Ret hi ->
  parses summand = Ret tt ->
  forall eo c cf : Z, scope_check summand scope var = Ret tt ->
  c_even_odd cfg = p_lit eo -> c_infty_val cfg = p_lit c -> c_infty_val_fact cfg = p_lit cf ->
  (lo = pl IPInf /\ hi = pl IPInf ->
   evaluate_sum vzero vadd parses uses_fact uses_factorial eval_limit scope_check eval_term cfg summand lower upper var scope i
   = Raise (ESummation MPosInf)) /\
  (lo = pl INInf /\ hi = pl INInf ->
   evaluate_sum vzero vadd parses uses_fact uses_factorial eval_limit scope_check eval_term cfg summand lower upper var scope i
   = Raise (ESummation MNegInf)).
Proof. exact @same_infinity_error. Qed.
Print Assumptions C19_limit_error_same_infinity.

(* ---------------------------------------------------------------------------------------------- *)
(* the summation variable                                                                          *)
(* ---------------------------------------------------------------------------------------------- *)
(* "a summation variable that already has a meaning raises a student-facing error": every name bound in the sample
   dictionaries (variables, numbered-variable instances and constants, including the instructor-only ones: fix e54e9a1),
   every name of c_reserved = self.functions (default and deterministic user functions) ++ self.random_funcs
   (RandomFunction / SpecificFunctions entries of user_functions) ++ self.constants (default and user constants),
   and everything that is not a variable name.  Metric-suffix letters and the bare head of a numbered variable are
   not names with a meaning of their own and are accepted (checked by the harness' contrast cases). *)
Theorem C19_dummy_with_meaning_rejected :
  (forall (V : Type) (vzero : V) (vadd : V -> V -> V) (parses : str -> outcome unit)
     (uses_fact uses_factorial : str -> bool) (eval_limit : str -> list str -> nat -> outcome pyv)
     (scope_check : str -> list str -> str -> outcome unit)
     (eval_term : str -> list str -> str -> Z -> nat -> outcome V) (cfg : config) (student : list str) (i : nat),
   mem (f_var student) (c_scope cfg) = true ->
   student_eval vzero vadd parses uses_fact uses_factorial eval_limit scope_check eval_term cfg student i
   = Raise (ESummation MConflict))
  /\
  (forall (V : Type) (vzero : V) (vadd : V -> V -> V) (within : V -> V -> bool) (parses : str -> outcome unit)
     (uses_fact uses_factorial : str -> bool) (eval_limit : str -> list str -> nat -> outcome pyv)
     (scope_check : str -> list str -> str -> outcome unit)
     (eval_term : str -> list str -> str -> Z -> nat -> outcome V) (valid_name : str -> outcome bool)
     (cfg : config) (tp : list (option Z)) (inputs fields : list str),
   structure_input cfg tp inputs = Ret fields -> existsb is_empty fields = false ->
   mem (f_var fields) (c_reserved cfg) = true ->
   call vzero vadd within parses uses_fact uses_factorial eval_limit scope_check eval_term valid_name cfg tp inputs = Raise EInvalid)
  /\
  (forall (V : Type) (vzero : V) (vadd : V -> V -> V) (within : V -> V -> bool) (parses : str -> outcome unit)
     (uses_fact uses_factorial : str -> bool) (eval_limit : str -> list str -> nat -> outcome pyv)
     (scope_check : str -> list str -> str -> outcome unit)
     (eval_term : str -> list str -> str -> Z -> nat -> outcome V) (valid_name : str -> outcome bool)
     (cfg : config) (tp : list (option Z)) (inputs fields : list str),
   structure_input cfg tp inputs = Ret fields -> existsb is_empty fields = false ->
   mem (f_var fields) (c_reserved cfg) = false -> valid_name (f_var fields) = Ret false ->
   call vzero vadd within parses uses_fact uses_factorial eval_limit scope_check eval_term valid_name cfg tp inputs = Raise EInvalid).
Proof. exact (conj (@dummy_in_problem_scope_error) (conj (@dummy_reserved_error) (@dummy_invalid_name_error))). Qed.
Print Assumptions C19_dummy_with_meaning_rejected.

(* the same at the level of evaluate_sum (also used for the author's sum): the variable is bound in the scope it runs in *)
Theorem C19_dummy_in_scope_error : forall (V : Type) (vzero : V) (vadd : V -> V -> V) (parses : str -> outcome unit)
    (uses_fact uses_factorial : str -> bool) (eval_limit : str -> list str -> nat -> outcome pyv)
    (scope_check : str -> list str -> str -> outcome unit)
    (eval_term : str -> list str -> str -> Z -> nat -> outcome V) (cfg : config) (summand lower upper var : str)
    (scope : list str) (i : nat),
  mem var scope = true ->
  evaluate_sum vzero vadd parses uses_fact uses_factorial eval_limit scope_check eval_term cfg summand lower upper var scope i
  = Raise (ESummation MConflict).
Proof. exact @dummy_in_scope_error. Qed.
Print Assumptions C19_dummy_in_scope_error.

(* ---------------------------------------------------------------------------------------------- *)
(* blank fields                                                                                    *)
(* ---------------------------------------------------------------------------------------------- *)
Theorem C19_blank_field_error : forall (V : Type) (vzero : V) (vadd : V -> V -> V) (within : V -> V -> bool)
    (parses : str -> outcome unit) (uses_fact uses_factorial : str -> bool)
    (eval_limit : str -> list str -> nat -> outcome pyv) (scope_check : str -> list str -> str -> outcome unit) (eval_term : str -> list str -> str -> Z -> nat -> outcome V)
    (valid_name : str -> outcome bool) (cfg : config) (tp : list (option Z)) (inputs fields : list str),
  structure_input cfg tp inputs = Ret fields -> existsb is_empty fields = true ->
  call vzero vadd within parses uses_fact uses_factorial eval_limit scope_check eval_term valid_name cfg tp inputs = Raise EMissing.
Proof. exact @blank_field_error. Qed.
Print Assumptions C19_blank_field_error.

Theorem C19_every_blank_box_is_seen : forall (cfg : config) (tp : list (option Z)) (inputs fields : list str) (k : Z) (a : str),
  structure_input cfg tp inputs = Ret fields ->
  In (Some k, a) (combine tp (c_answers cfg)) -> nth (Z.to_nat k) inputs [] = [] -> existsb is_empty fields = true.
Proof. exact student_blank_is_field. Qed.
Print Assumptions C19_every_blank_box_is_seen.

(* ---------------------------------------------------------------------------------------------- *)
(* instructor-only variables                                                                       *)
(* ---------------------------------------------------------------------------------------------- *)
(* "use of instructor-only variables raises a student-facing error", in either limit or in the summand, whatever the
   index set (fix 390fac8: the summand's names are checked even when no term is summed), assuming the evaluator and
   check_scope test the scope they are given (C09 / C10) *)
Theorem C19_instructor_var_rejected : forall (V : Type) (vzero : V) (vadd : V -> V -> V) (parses : str -> outcome unit)
    (uses_fact uses_factorial : str -> bool) (eval_limit : str -> list str -> nat -> outcome pyv)
    (scope_check : str -> list str -> str -> outcome unit)
    (eval_term : str -> list str -> str -> Z -> nat -> outcome V) (cfg : config) (mentions : str -> str -> bool),
  (forall (s : str) (sc : list str) (i : nat) (v : str),
   mentions s v = true -> mem v sc = false -> eval_limit s sc i = Raise ECalc) ->
  (forall (s : str) (sc : list str) (x v : str),
   mentions s v = true -> mem v sc = false -> str_eqb v x = false -> scope_check s sc x = Raise ECalc) ->
  forall (summand lower upper var v : str) (i : nat),
  In v (c_instructor cfg) -> mem v (c_scope cfg) = true -> mem var (student_scope cfg) = false ->
  (mentions lower v = true ->
   evaluate_sum vzero vadd parses uses_fact uses_factorial eval_limit scope_check eval_term cfg summand lower upper var
     (student_scope cfg) i = Raise ECalc) /\
  (forall lo : pyv, eval_limit lower (student_scope cfg) i = Ret lo -> mentions upper v = true ->
   evaluate_sum vzero vadd parses uses_fact uses_factorial eval_limit scope_check eval_term cfg summand lower upper var
     (student_scope cfg) i = Raise ECalc) /\
  (forall lo hi : pyv, eval_limit lower (student_scope cfg) i = Ret lo -> eval_limit upper (student_scope cfg) i = Ret hi ->
   parses summand = Ret tt -> evaluate_sum_limits lo hi = Ret tt ->
   mentions summand v = true -> str_eqb v var = false ->
   evaluate_sum vzero vadd parses uses_fact uses_factorial eval_limit scope_check eval_term cfg summand lower upper var
     (student_scope cfg) i = Raise ECalc).
Proof. exact @instructor_var_rejected. Qed.
Print Assumptions C19_instructor_var_rejected.

(* unconditionally (whatever else is wrong with the submission): a sum that uses an instructor variable never yields a value *)
Theorem C19_instructor_var_never_evaluates : forall (V : Type) (vzero : V) (vadd : V -> V -> V) (parses : str -> outcome unit)
    (uses_fact uses_factorial : str -> bool) (eval_limit : str -> list str -> nat -> outcome pyv)
    (scope_check : str -> list str -> str -> outcome unit)
    (eval_term : str -> list str -> str -> Z -> nat -> outcome V) (cfg : config) (mentions : str -> str -> bool),
  (forall (s : str) (sc : list str) (i : nat) (v : str),
   mentions s v = true -> mem v sc = false -> eval_limit s sc i = Raise ECalc) ->
  (forall (s : str) (sc : list str) (x v : str),
   mentions s v = true -> mem v sc = false -> str_eqb v x = false -> scope_check s sc x = Raise ECalc) ->
  forall (summand lower upper var v : str) (i : nat),
  In v (c_instructor cfg) -> mem v (c_scope cfg) = true -> str_eqb v var = false ->
  mentions lower v = true \/ mentions upper v = true \/ mentions summand v = true ->
  exists e, evaluate_sum vzero vadd parses uses_fact uses_factorial eval_limit scope_check eval_term cfg summand lower upper var
              (student_scope cfg) i = Raise e.
Proof. exact @instructor_var_never_evaluates. Qed.
Print Assumptions C19_instructor_var_never_evaluates.

(* ---------------------------------------------------------------------------------------------- *)
(* input positions: every subset, every order                                                      *)
(* ---------------------------------------------------------------------------------------------- *)
Theorem C19_input_positions_valid : forall pos : list (option Z),
  NoDup (somes pos) /\ (forall z, In z (somes pos) -> 1 <= z <= Z.of_nat (length (somes pos))) ->
  validate_input_positions pos = Ret (map (option_map (fun z => z - 1)) pos).
Proof. exact validate_input_positions_spec. Qed.
Print Assumptions C19_input_positions_valid.

Theorem C19_input_positions_invalid : forall pos : list (option Z),
  ~ (NoDup (somes pos) /\ (forall z, In z (somes pos) -> 1 <= z <= Z.of_nat (length (somes pos)))) ->
  validate_input_positions pos = Raise EConfig.
Proof. exact invalid_input_positions_config_error. Qed.
Print Assumptions C19_input_positions_invalid.

Theorem C19_wrong_number_of_inputs : forall (V : Type) (vzero : V) (vadd : V -> V -> V) (within : V -> V -> bool)
    (parses : str -> outcome unit) (uses_fact uses_factorial : str -> bool)
    (eval_limit : str -> list str -> nat -> outcome pyv) (scope_check : str -> list str -> str -> outcome unit) (eval_term : str -> list str -> str -> Z -> nat -> outcome V)
    (valid_name : str -> outcome bool) (cfg : config) (tp : list (option Z)) (inputs : list str),
  count_used tp <> length inputs ->
  call vzero vadd within parses uses_fact uses_factorial eval_limit scope_check eval_term valid_name cfg tp inputs = Raise EConfig.
Proof. exact @wrong_count_config_error. Qed.
Print Assumptions C19_wrong_number_of_inputs.

(* ---------------------------------------------------------------------------------------------- *)
(* author failures                                                                                 *)
(* ---------------------------------------------------------------------------------------------- *)
(* FULL STATEMENT (property text): "failures in the author's own sum are reported as configuration errors".
   Proved: every library error raised while the author's sum is evaluated (limit checks, dummy variable bound in the
   scope, evaluator errors, same-sign infinities) becomes ConfigError, at whichever sample it occurs.
   Missing (see C19_author_failure_is_config_error_refuted): author fields are also run through the student's
   pre-checks (blank field, dummy-variable name), parsed before the guarded evaluation, and non-library exceptions
   (int(nan), ambiguous truth value of an array limit) are not caught. *)
Theorem C19_author_failure_is_config_error_partial : forall (V : Type) (vzero : V) (vadd : V -> V -> V) (within : V -> V -> bool)
    (parses : str -> outcome unit) (uses_fact uses_factorial : str -> bool)
    (eval_limit : str -> list str -> nat -> outcome pyv) (scope_check : str -> list str -> str -> outcome unit) (eval_term : str -> list str -> str -> Z -> nat -> outcome V)
    (valid_name : str -> outcome bool) (cfg : config) (tp : list (option Z)) (inputs fields : list str),
  structure_input cfg tp inputs = Ret fields -> existsb is_empty fields = false ->
  validate_dummy valid_name cfg (f_var fields) = Ret tt -> parse_all parses (c_answers cfg ++ fields) = Ret tt ->
  forall (i : nat) (e : err), (i < c_samples cfg)%nat ->
  (forall j : nat, (j < i)%nat -> exists a s : V,
     author_eval vzero vadd parses uses_fact uses_factorial eval_limit scope_check eval_term cfg j = Ret a /\
     student_eval vzero vadd parses uses_fact uses_factorial eval_limit scope_check eval_term cfg fields j = Ret s) ->
  evaluate_fields vzero vadd parses uses_fact uses_factorial eval_limit scope_check eval_term cfg (c_answers cfg) (c_scope cfg) i = Raise e ->
  is_mitx e = true ->
  call vzero vadd within parses uses_fact uses_factorial eval_limit scope_check eval_term valid_name cfg tp inputs = Raise EConfig.
Proof. exact @author_failure_is_config_error_guarded. Qed.
Print Assumptions C19_author_failure_is_config_error_partial.

Theorem C19_author_failure_is_config_error_refuted :
  (w_grade author_blank_cfg [Snn] = Raise EMissing) /\
  (w_grade author_reserved_cfg [S2] = Raise EInvalid) /\
  (w_grade author_unparsable_cfg [S1; S4; Snn; Sn] = Raise ECalc) /\
  (w_author_sum author_nan_cfg = Raise EOther /\ w_grade author_nan_cfg [S1; S4; Snn; Sn] = Raise EGeneric).
Proof. exact author_failure_refuted. Qed.
Print Assumptions C19_author_failure_is_config_error_refuted.

(* a failure of the student's sum (author fine) leaves the grader with its own, student-facing, class *)
Theorem C19_student_error_is_passed_on : forall (V : Type) (vzero : V) (vadd : V -> V -> V) (within : V -> V -> bool)
    (parses : str -> outcome unit) (uses_fact uses_factorial : str -> bool)
    (eval_limit : str -> list str -> nat -> outcome pyv) (scope_check : str -> list str -> str -> outcome unit) (eval_term : str -> list str -> str -> Z -> nat -> outcome V)
    (valid_name : str -> outcome bool) (cfg : config) (tp : list (option Z)) (inputs fields : list str),
  structure_input cfg tp inputs = Ret fields -> existsb is_empty fields = false ->
  validate_dummy valid_name cfg (f_var fields) = Ret tt -> parse_all parses (c_answers cfg ++ fields) = Ret tt ->
  forall (i : nat) (e : err) (a : V), (i < c_samples cfg)%nat ->
  (forall j : nat, (j < i)%nat -> exists a0 s : V,
     author_eval vzero vadd parses uses_fact uses_factorial eval_limit scope_check eval_term cfg j = Ret a0 /\
     student_eval vzero vadd parses uses_fact uses_factorial eval_limit scope_check eval_term cfg fields j = Ret s) ->
  author_eval vzero vadd parses uses_fact uses_factorial eval_limit scope_check eval_term cfg i = Ret a ->
  student_eval vzero vadd parses uses_fact uses_factorial eval_limit scope_check eval_term cfg fields i = Raise e ->
  e <> EOther ->
  call vzero vadd within parses uses_fact uses_factorial eval_limit scope_check eval_term valid_name cfg tp inputs = Raise e.
Proof. exact @student_error_is_passed_on. Qed.
Print Assumptions C19_student_error_is_passed_on.

(* ---------------------------------------------------------------------------------------------- *)
(* the verdict                                                                                     *)
(* ---------------------------------------------------------------------------------------------- *)
Theorem C19_consolidate_spec : forall (rs : list bool) (failable : nat),
  consolidate rs failable = true <->
  ((count_false rs <= failable)%nat \/ count_false rs = 0%nat) /\ (length rs = 1%nat -> count_false rs = 0%nat).
Proof. exact consolidate_spec. Qed.
Print Assumptions C19_consolidate_spec.

Theorem C19_verdict_general : forall (V : Type) (vzero : V) (vadd : V -> V -> V) (within : V -> V -> bool)
    (parses : str -> outcome unit) (uses_fact uses_factorial : str -> bool)
    (eval_limit : str -> list str -> nat -> outcome pyv) (scope_check : str -> list str -> str -> outcome unit) (eval_term : str -> list str -> str -> Z -> nat -> outcome V)
    (valid_name : str -> outcome bool) (cfg : config) (tp : list (option Z)) (inputs fields : list str),
  structure_input cfg tp inputs = Ret fields -> existsb is_empty fields = false ->
  validate_dummy valid_name cfg (f_var fields) = Ret tt -> parse_all parses (c_answers cfg ++ fields) = Ret tt ->
  forall A S : nat -> V,
  (forall i : nat, (i < c_samples cfg)%nat ->
     author_eval vzero vadd parses uses_fact uses_factorial eval_limit scope_check eval_term cfg i = Ret (A i) /\
     student_eval vzero vadd parses uses_fact uses_factorial eval_limit scope_check eval_term cfg fields i = Ret (S i)) ->
  call vzero vadd within parses uses_fact uses_factorial eval_limit scope_check eval_term valid_name cfg tp inputs =
  Ret (consolidate (map (fun i : nat => within (A i) (S i)) (seq 0 (c_samples cfg))) (c_failable cfg)).
Proof. exact @verdict_general. Qed.
Print Assumptions C19_verdict_general.

(* graded correct exactly when the evaluated sum equals the author's within tolerance at every sample *)
Theorem C19_graded_correct_iff : forall (V : Type) (vzero : V) (vadd : V -> V -> V) (within : V -> V -> bool)
    (parses : str -> outcome unit) (uses_fact uses_factorial : str -> bool)
    (eval_limit : str -> list str -> nat -> outcome pyv) (scope_check : str -> list str -> str -> outcome unit) (eval_term : str -> list str -> str -> Z -> nat -> outcome V)
    (valid_name : str -> outcome bool) (cfg : config) (tp : list (option Z)) (inputs fields : list str),
  structure_input cfg tp inputs = Ret fields -> existsb is_empty fields = false ->
  validate_dummy valid_name cfg (f_var fields) = Ret tt -> parse_all parses (c_answers cfg ++ fields) = Ret tt ->
  forall A S : nat -> V,
  c_failable cfg = 0%nat ->
  (forall i : nat, (i < c_samples cfg)%nat ->
     author_eval vzero vadd parses uses_fact uses_factorial eval_limit scope_check eval_term cfg i = Ret (A i) /\
     student_eval vzero vadd parses uses_fact uses_factorial eval_limit scope_check eval_term cfg fields i = Ret (S i)) ->
  exists b : bool,
    call vzero vadd within parses uses_fact uses_factorial eval_limit scope_check eval_term valid_name cfg tp inputs = Ret b /\
    (b = true <-> (forall i : nat, (i < c_samples cfg)%nat -> within (A i) (S i) = true)).
Proof. exact @graded_correct_iff. Qed.
Print Assumptions C19_graded_correct_iff.

(* ---------------------------------------------------------------------------------------------- *)
(* non-vacuity and reading notes                                                                   *)
(* ---------------------------------------------------------------------------------------------- *)
Example C19_ex_graded_correct :
  w_grade (w_cfg [S1; S4; Snn; Sn] all_four 0 [] []) [S4; S1; Skk; Sk] = Ret true
  /\ w_author_sum (w_cfg [S1; S4; Snn; Sn] all_four 0 [] []) = Ret 30.
Proof. exact ex_graded_correct. Qed.
Print Assumptions C19_ex_graded_correct.

Example C19_ex_graded_incorrect :
  w_grade (w_cfg [S1; S4; Snn; Sn] all_four 0 [] []) [S1; S2; Skk; Sk] = Ret false.
Proof. exact ex_graded_incorrect. Qed.
Print Assumptions C19_ex_graded_incorrect.

Example C19_ex_parity_and_cutoff :
  map (fun eo => Gen.Summation.gen_perform_summation 0 Z.add (fun n => Ret n) (p_lit 5) (p_lit 1) (p_lit eo) (p_lit 1000))
      [0; 1; 2] = [Ret 15; Ret 9; Ret 6]
  /\ Gen.Summation.gen_perform_summation 0 Z.add (fun n => Ret n) (p_lit 1) (PNum XPInf) (p_lit 0) (p_lit 1000) = Ret 500500
  /\ Gen.Summation.gen_summation_plan (p_lit (-3)) (p_lit 4) (p_lit 1) (p_lit 1000) = Ret (-3, 5, 2)
  /\ Gen.Summation.gen_summation_plan (p_lit 2) (p_lit 2) (p_lit 1) (p_lit 1000) = Ret (3, 3, 2).
Proof. exact ex_parity. Qed.
Print Assumptions C19_ex_parity_and_cutoff.

(* regression examples for the two repaired defects (formerly _refuted witnesses) *)
Example C19_ex_instructor_var_rejected_on_empty_range :
  w_grade (instr_cfg S2 S2 1) [S2; S2; Scn; Sn] = Raise ECalc
  /\ w_grade (instr_cfg S1 S2 0) [S1; S2; Scn; Sn] = Raise ECalc
  /\ w_grade (w_cfg [S1; S2; Scn; Sn] all_four 0 [Sc] [Sc]) [S1; S2; Sn; Sn] = Ret false.
Proof. exact ex_instructor_var_rejected. Qed.
Print Assumptions C19_ex_instructor_var_rejected_on_empty_range.

Example C19_ex_instructor_var_as_dummy_rejected :
  mem Sc (c_scope (w_cfg [S1; S2; Snn; Sn] all_four 0 [Sc] [Sc])) = true
  /\ w_grade (w_cfg [S1; S2; Snn; Sn] all_four 0 [Sc] [Sc]) [S1; S2; Scc; Sc] = Raise (ESummation MConflict).
Proof. exact ex_instructor_var_as_dummy_rejected. Qed.
Print Assumptions C19_ex_instructor_var_as_dummy_rejected.

(* the limits are sorted BEFORE infinity is replaced: a finite limit beyond the cutoff gives the empty sum, not the sum
   from the cutoff to the limit (outside the property's quantifier: cutoffs are meant to be large) *)
Example C19_ex_limit_beyond_cutoff :
  Gen.Summation.gen_perform_summation 0 Z.add (fun n => Ret n) (p_lit 5) (PNum XPInf) (p_lit 0) (p_lit 3) = Ret 0.
Proof. exact ex_limit_beyond_cutoff. Qed.
Print Assumptions C19_ex_limit_beyond_cutoff.
