(* Props/C11.v -- a grader's verdict depends only on its configuration and the current call.
   Only statements, `exact lemma`, and Print Assumptions.

   Vocabulary (Model/Protocol.v): `call dm cfg O cp p m e s` runs grader(expect e, input s) from instance state m under
   the call program p (ItemGrader.__call__ + AbstractGrader.__call__) and the create_debuglog program cp; O holds the
   oracles the protocol does not decide (validation stages of an expect value, text check of the input, self.check);
   `run` folds `call` over a history of events; `spec` is what the property demands: the outcome of a freshly
   constructed grader given the current expect value, else the last successfully supplied one (its debug log then
   carrying no "Expect value inferred" entry), and of a fresh grader ignoring expect when answers are configured.
   `call_prog` / `create_prog` / `cm_prog` are the programs of the code as it stands (call_prog_before_fix is the call
   protocol before the fixes 6d40b94 / a320343, kept only as a regression reference); Bridge/Protocol.v shows that
   translate/protocol.py regenerates exactly these from mitxgraders/ on every run. *)
From Coq Require Import ZArith QArith List Bool String.
From Verif.Lib Require Import ProtocolSyntax.
From Verif.Model Require Import Result Protocol ProtocolEffects.
From Verif.Gen Require Protocol.
From Verif.Bridge Require Import Protocol.
From Verif.Proofs Require Import Protocol ProtocolEffects.
Import ListNotations.

(* ---- tie A: the regenerated programs are the ones the theorems below speak about ---- *)
Theorem C11_code_call_program : Verif.Gen.Protocol.gen_call_prog = call_prog.
Proof. exact call_prog_bridge. Qed.
Print Assumptions C11_code_call_program.

Theorem C11_code_create_debuglog_program : Verif.Gen.Protocol.gen_create_prog = create_prog.
Proof. exact create_prog_bridge. Qed.
Print Assumptions C11_code_create_debuglog_program.

Theorem C11_code_switch_program :
  Verif.Gen.Protocol.gen_cm_prog = cm_prog /\ Verif.Gen.Protocol.gen_switch_initial = mkSwitch true true
  /\ Verif.Gen.Protocol.gen_matrix_check_in_switch = true.
Proof. exact (conj cm_prog_bridge (conj switch_initial_bridge matrix_check_bridge)). Qed.
Print Assumptions C11_code_switch_program.

(* ---- the call protocol ---------------------------------------------------------------------------------------- *)

(* FULL STATEMENT (C11, call part): for every oracle assignment O, debug on or off, answers configured or not,
   every history h of any length (raising calls included) and every next call (e, s), the call returns what the
   property demands.  It holds of the code as it stands (since the fixes 6d40b94 / a320343 to ItemGrader.__call__). *)
Theorem C11_call_history_independent :
  forall (E S A L : Type) (dm : bool) (cfg : config) (O : oracles E S A L) (configured : option A)
         (h : list (event E S)) (e : option E) (s : S),
  snd (call dm cfg O create_prog call_prog (run dm cfg O create_prog call_prog (init_state configured) h) e s)
  = spec dm cfg O create_prog call_prog configured h e s.
Proof. exact code_history_independent. Qed.
Print Assumptions C11_call_history_independent.

(* graders with configured answers: the special case, and no history ever replaces the configured answers or
   leaves a flag set *)
Theorem C11_configured_grader_history_independent :
  forall (E S A L : Type) (dm : bool) (cfg : config) (O : oracles E S A L) (a : A)
         (h : list (event E S)) (e : option E) (s : S),
  snd (call dm cfg O create_prog call_prog (run dm cfg O create_prog call_prog (init_state (Some a)) h) e s)
  = spec dm cfg O create_prog call_prog (Some a) h e s.
Proof. exact configured_code. Qed.
Print Assumptions C11_configured_grader_history_independent.

Theorem C11_configured_grader_state_untouched :
  forall (E S A L : Type) (dm : bool) (cfg : config) (O : oracles E S A L) (a : A) (h : list (event E S)),
  let m := run dm cfg O create_prog call_prog (init_state (Some a)) h in
  st_answers m = Some a /\ st_inferring m = false /\ st_created m = false.
Proof. exact configured_state_untouched. Qed.
Print Assumptions C11_configured_grader_state_untouched.

(* graders inferring their answers from expect: after any history the instance state is a function of the last
   successfully supplied expect value alone *)
Theorem C11_state_determined_by_last_supplied_expect :
  forall (E S A L : Type) (dm : bool) (cfg : config) (O : oracles E S A L) (h : list (event E S)),
  let m := run dm cfg O create_prog call_prog (init_state None) h in
  st_created m = false /\
  match last_supplied O None h with
  | None => st_answers m = None /\ st_inferring m = false
  | Some ev => exists a, validated O ev = Some a /\ st_answers m = Some a /\ st_inferring m = true
  end.
Proof. exact repaired_state_determined. Qed.
Print Assumptions C11_state_determined_by_last_supplied_expect.

(* a call whose expect value is rejected (at inference, by the schema, or by post-validation) leaves the stored
   answers, the inferring flag and log_created exactly as they were *)
Theorem C11_rejected_expect_leaves_no_trace :
  forall (E S A L : Type) (dm : bool) (cfg : config) (O : oracles E S A L)
         (h : list (event E S)) (x : E) (s : S),
  is_valid O x = false ->
  let m0 := run dm cfg O create_prog call_prog (init_state None) h in
  let m1 := fst (call dm cfg O create_prog call_prog m0 (Some x) s) in
  st_answers m1 = st_answers m0 /\ st_inferring m1 = st_inferring m0 /\ st_created m1 = false.
Proof. exact code_failed_expect_leaves_no_trace. Qed.
Print Assumptions C11_rejected_expect_leaves_no_trace.

(* the debug log handed back speaks of the current call only (its input, its expect value) *)
Theorem C11_debuglog_fresh_each_call :
  forall (E S A L : Type) (dm : bool) (cfg : config) (O : oracles E S A L) (configured : option A)
         (h : list (event E S)) (e : option E) (s : S) (v : entry) (lg : list (line E S L)),
  snd (call dm cfg O create_prog call_prog (run dm cfg O create_prog call_prog (init_state configured) h) e s)
    = ORet v (Some lg) ->
  Forall (line_current e s) lg.
Proof. exact code_log_current. Qed.
Print Assumptions C11_debuglog_fresh_each_call.

(* regression corpus, model side.  Witness.O1 mirrors SingleListGrader(subgrader=StringGrader()): expect 0 = 'a,,b'
   (passes the schema, fails post-validation), expect 1 = 'c,d', inputs 0 = 'a,b', 1 = 'c,d'; Witness.O2 mirrors
   FormulaGrader(debug=True): expect 0 = 5 (fails the schema), expect 1 = '1', inputs 0 = 'x', 1 = '1', 5 = a non-text
   input.  The histories that used to go wrong now give what a fresh grader gives ... *)
Example C11_ex_corpus_histories_pass :
  (Witness.reused false (mkConfig false) Witness.O1 call_prog None [(Some 0, 0)]%Z (Some 1%Z) 1%Z
     = ORet Witness.ok_entry None
   /\ Witness.reused false (mkConfig false) Witness.O1 call_prog None [(Some 1, 1); (Some 0, 0)]%Z None 1%Z
     = ORet Witness.ok_entry None)
  /\ (Witness.reused false (mkConfig true) Witness.O2 call_prog None [(Some 0, 0)]%Z (Some 1%Z) 1%Z
     = ORet Witness.ok_entry (Some [LVersion; LResp 1; LInferred 1; LChk 7]%Z)
   /\ Witness.reused false (mkConfig true) Witness.O2 call_prog None [(Some 1, 5)]%Z (Some 1%Z) 1%Z
     = ORet Witness.ok_entry (Some [LVersion; LResp 1; LInferred 1; LChk 7]%Z)).
Proof. exact (conj Witness.w1_repaired Witness.w2_repaired). Qed.
Print Assumptions C11_ex_corpus_histories_pass.

(* ... and the corpus is discriminating: the protocol as it was before the fixes fails the statement on it, so a
   recurrence cannot pass unnoticed *)
Example C11_ex_corpus_tells_the_old_protocol_apart :
  (Witness.reused false (mkConfig false) Witness.O1 call_prog_before_fix None [(Some 0, 0)]%Z (Some 1%Z) 1%Z
     = ORaise (Witness.ce 3)
   /\ Witness.demanded false (mkConfig false) Witness.O1 call_prog_before_fix None [(Some 0, 0)]%Z (Some 1%Z) 1%Z
     = ORet Witness.ok_entry None)
  /\ (Witness.reused false (mkConfig true) Witness.O2 call_prog_before_fix None [(Some 0, 0)]%Z (Some 1%Z) 1%Z
     = ORet Witness.ok_entry (Some [LVersion; LResp 0; LInferred 0; LInferred 1; LChk 7]%Z)
   /\ Witness.demanded false (mkConfig true) Witness.O2 call_prog_before_fix None [(Some 0, 0)]%Z (Some 1%Z) 1%Z
     = ORet Witness.ok_entry (Some [LVersion; LResp 1; LInferred 1; LChk 7]%Z)).
Proof. exact (conj Witness.w1_poison Witness.w2_debuglog). Qed.
Print Assumptions C11_ex_corpus_tells_the_old_protocol_apart.

(* non-vacuity: a history with inference, an absent expect, a second valid expect; the outcome is a grade with a log *)
Example C11_ex_history :
  Witness.reused false (mkConfig true) Witness.O2 call_prog None [(Some 1, 0); (None, 1); (Some 2, 2)]%Z None 2%Z
    = ORet Witness.ok_entry (Some [LVersion; LResp 2; LChk 7]%Z).
Proof. exact Witness.code_example. Qed.
Print Assumptions C11_ex_history.

(* ---- the matrix negative-power switch --------------------------------------------------------------------------- *)

(* whatever the body does (nested graders, exceptions), on exit the flag is back at the default *)
Theorem C11_negative_powers_restored :
  forall (R : Type) (arg : bool) (body : switch -> switch * R * bool) (w : switch),
  keeps_default body ->
  let '(w', _, _) := with_switch cm_prog arg body w in
  sw_flag w' = sw_default w /\ sw_default w' = sw_default w.
Proof. exact (@switch_restored). Qed.
Print Assumptions C11_negative_powers_restored.

(* any sequence of MatrixGrader checks with arbitrary settings, raising or not: each returns what it returns when
   run alone on the pristine switch, and the switch ends pristine *)
Theorem C11_negative_powers_history_independent :
  forall (R : Type) (calls : list (bool * (switch -> switch * R * bool))) (d : bool),
  Forall (fun c => keeps_default (snd c)) calls ->
  run_switch cm_prog calls (pristine d)
  = (pristine d,
     map (fun c => let '(_, r, raised) := with_switch cm_prog (fst c) (snd c) (pristine d) in (r, raised)) calls).
Proof. exact (@switch_history_independent). Qed.
Print Assumptions C11_negative_powers_history_independent.

Example C11_ex_switch_needs_finally :
  let p := mkCm [SwSet SvArg] false [SwSet SvDefault] in
  let raising : switch -> switch * unit * bool := fun w => (w, tt, true) in
  sw_flag (fst (fst (with_switch p false raising (pristine true)))) = false.
Proof. exact switch_needs_finally. Qed.
Print Assumptions C11_ex_switch_needs_finally.

(* ---- frame conditions: finite theorems over the regenerated write-site inventory ------------------------------ *)

(* FULL STATEMENT (C11, frame part): no write site of mitxgraders/ reachable from construction or grading changes an
   author's configuration object, a scope handed to the evaluator, another grader, or a process-wide setting.
   PROVED (partial -- a static inventory by translator plus review table, no heap model; backed by run-time
   snapshots in harness/props/c11.py): every write site is instance-own state or reviewed with a fitting reason. *)
Theorem C11_frame_every_write_site_accounted_partial :
  forall r, In r Verif.Gen.Protocol.gen_rows -> accounted r = true.
Proof. exact all_accounted_In. Qed.
Print Assumptions C11_frame_every_write_site_accounted_partial.

(* registered class defaults, the negative-power switch, the default constant/function tables, numpy's error
   handling, the random seed, the module namespace and the class default comparer are written only by their
   designated writers (registration API, the context manager, import-time code, per-instance copies) *)
Theorem C11_frame_process_settings_writers :
  forall r, In r Verif.Gen.Protocol.gen_rows -> setting_writer_ok r = true.
Proof. exact settings_writers_In. Qed.
Print Assumptions C11_frame_process_settings_writers.

Theorem C11_frame_no_class_table_written_through_instance :
  forallb (fun r => match r_flag r with FShared => false | _ => true end) Verif.Gen.Protocol.gen_rows = true.
Proof. exact no_shared_class_attr_write. Qed.
Print Assumptions C11_frame_no_class_table_written_through_instance.

(* no write site changes an object supplied by the author (IntervalGrader.__init__ did, before ff4d9d4; the review
   table rejects such a row: see old_interval_row_rejected) *)
Theorem C11_frame_author_config_untouched_partial :
  forall r, In r Verif.Gen.Protocol.gen_rows -> harmless r = true.
Proof. exact all_harmless_In. Qed.
Print Assumptions C11_frame_author_config_untouched_partial.

Example C11_ex_review_table_rejects_a_write_into_the_author_dict :
  accounted (mkRow "mitxgraders/formulagrader/intervalgrader.py" "IntervalGrader.__init__" RParam "config" "use_config"
                   "use_config['subgrader']" "assign" FPlain ShItem SNone 1) = false.
Proof. exact old_interval_row_rejected. Qed.
Print Assumptions C11_ex_review_table_rejects_a_write_into_the_author_dict.
