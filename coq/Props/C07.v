(* Props/C07.v -- SingleListGrader scores a delimited list by the documented credit formula.
   Only statements, `exact lemma`, Examples.  Vocabulary (Proofs/SingleList.v, Proofs/SingleListMatch.v):

     cr : A -> str -> res sres          the subgrader's check(answer, item): ARBITRARY (a result or an exception)
     solve                              the assignment solver; `solver_optimal solve` says: on a square cost matrix, IF it
                                        returns, the result is a complete one-to-one assignment of minimum total cost.
                                        C07_solver_is_optimal discharges it for the model's solver (Munkres.computeZ on the
                                        costs scaled to integers) from C06's theorem -- nothing about the solver is assumed.
     credit_at cr la li i j             credit of submitted item i against expected item j, 0 outside the lists
     max_total G r c best               best is the largest total of G over ALL one-to-one assignments of rows<r to columns<c
     best_total cr c la li best         ordered: best = positional sum;  unordered: max_total (credit_at cr la li) |li| |la| best
     formula cr c a li q                q == credit_a * score partial_credit ((best - surplus)/n_expect), score p x =
                                        max(0,x), zeroed below 1 when p is off;  surplus = |li| - |la| (truncated at 0)
     unit_on cr la                      the credits the subgrader awards against the items of la lie in [0,1]
   Statements are of the form "if the model returns a grade, then ..."; C07_returns shows that the executable model always
   does when no input error is due (and the subgrader answers), without any bound. *)
From Coq Require Import ZArith QArith List Bool Arith Permutation.
From Verif.Lib Require Import QRound.
From Verif.Model Require Import Result Munkres SingleList.
From Verif.Gen Require SingleList.
From Verif.Bridge Require Import SingleList.
From Verif.Proofs Require Import MunkresSpec SingleListStr SingleListMatch SingleList.
Import ListNotations.
Open Scope Q_scope.

(* ---------------- the string layer ---------------- *)
Theorem C07_join_split : forall d s, d <> [] -> join d (split d s) = s.
Proof. exact join_split. Qed.

Theorem C07_split_join_one_character : forall c items, items <> [] -> Forall (fun it => ~ In c it) items ->
  split [c] (join [c] items) = items.
Proof. exact split_join_single. Qed.

Theorem C07_blank_positions : forall items p,
  In p (blank_positions items) <-> exists i, (i < length items)%nat /\ p = S i /\ is_blank (nth i items []) = true.
Proof. exact blank_positions_spec. Qed.

(* ---------------- the solver hypothesis, discharged ---------------- *)
Theorem C07_solver_is_optimal : solver_optimal solveZ.
Proof. exact solveZ_solver_optimal. Qed.

(* ---------------- the grade of one list of expected items ---------------- *)
(* the formula determines the grade: there is at most one value it allows *)
Theorem C07_formula_determines_grade : forall A (cr : A -> str -> res sres) c a li q1 q2,
  formula cr c a li q1 -> formula cr c a li q2 -> q1 == q2.
Proof. exact formula_unique. Qed.

Theorem C07_grade_formula : forall A (cr : A -> str -> res sres) solve, solver_optimal solve ->
  forall c a li r, unit_on cr (al_items a) -> al_items a <> [] ->
    check_items cr solve c a li = inl r -> formula cr c a li (sr_grade r).
Proof. exact slg_grade_formula. Qed.

Theorem C07_no_partial_credit : forall A (cr : A -> str -> res sres) solve, solver_optimal solve ->
  forall c a li r, unit_on cr (al_items a) -> al_items a <> [] -> c_partial c = false ->
    check_items cr solve c a li = inl r ->
    exists best, best_total cr c (al_items a) li best /\
      ((length li = length (al_items a) /\ best == inject_Z (Z.of_nat (length (al_items a))) /\ sr_grade r == al_credit a)
       \/ (~ (length li = length (al_items a) /\ best == inject_Z (Z.of_nat (length (al_items a)))) /\ sr_grade r == 0)).
Proof. exact slg_no_partial. Qed.

Theorem C07_grade_in_unit_interval : forall A (cr : A -> str -> res sres) solve, solver_optimal solve ->
  forall c a li r, unit_on cr (al_items a) -> al_items a <> [] -> 0 <= al_credit a <= 1 ->
    check_items cr solve c a li = inl r -> 0 <= sr_grade r <= 1.
Proof. exact slg_grade_in_unit_interval. Qed.

(* ---------------- the answer-level message ---------------- *)
Theorem C07_message_rule : forall A (cr : A -> str -> res sres) solve, solver_optimal solve ->
  forall c a li r, unit_on cr (al_items a) -> al_items a <> [] -> check_items cr solve c a li = inl r ->
    exists rs, grade_list cr solve c a li = inl rs /\
      sr_msg r = (if sr_all r && negb (is_empty (al_msg a)) then add_msg (join_msgs (map sr_msg rs)) (al_msg a)
                  else join_msgs (map sr_msg rs)) /\
      sr_all r = forallb (earned_test c) rs /\
      (sr_all r = true -> length li = length (al_items a) /\ used_pairs_pass cr c (al_items a) li (earned_test c)).
Proof. exact slg_msg_rule. Qed.

Theorem C07_message_rule_ordered : forall A (cr : A -> str -> res sres) solve c a li r,
  c_ordered c = true -> check_items cr solve c a li = inl r ->
  (sr_all r = true <-> (length (al_items a) = length li /\ Forall (passes cr (earned_test c)) (combine (al_items a) li))).
Proof. exact slg_msg_rule_ordered. Qed.

(* ---------------- permutation invariance (unordered) ---------------- *)
Theorem C07_permutation_invariant : forall A (cr : A -> str -> res sres) solve, solver_optimal solve ->
  forall c a li li' r r', unit_on cr (al_items a) -> al_items a <> [] -> c_ordered c = false -> Permutation li li' ->
    check_items cr solve c a li = inl r -> check_items cr solve c a li' = inl r' -> sr_grade r == sr_grade r'.
Proof. exact slg_perm_invariant. Qed.

Theorem C07_permutation_invariant_string : forall A (cr : A -> str -> res sres) solve, solver_optimal solve ->
  forall c a d items items' r r', c_delim c = [d] -> items <> [] -> Forall (fun it => ~ In d it) items ->
    unit_on cr (al_items a) -> al_items a <> [] -> c_ordered c = false -> Permutation items items' ->
    check_response cr solve c a (join [d] items) = inl r -> check_response cr solve c a (join [d] items') = inl r' ->
    sr_grade r == sr_grade r'.
Proof. exact slg_perm_invariant_string. Qed.

Theorem C07_input_errors_permutation_invariant : forall A c (a : alt A) li li',
  Permutation li li' -> input_error c a li -> input_error c a li'.
Proof. exact input_error_perm. Qed.

(* ---------------- the two student-facing errors ---------------- *)
Theorem C07_length_error : forall A (cr : A -> str -> res sres) solve c (a : alt A) (li : list str),
  c_length_error c = true -> length (al_items a) <> length li ->
  check_items cr solve c a li = inr (ErrLength (length (al_items a)) (length li)).
Proof. exact slg_length_error. Qed.

Theorem C07_missing_error : forall A (cr : A -> str -> res sres) solve c (a : alt A) (li : list str),
  (c_length_error c = false \/ length (al_items a) = length li) ->
  c_missing_error c = true -> (exists it, In it li /\ is_blank it = true) ->
  check_items cr solve c a li = inr (ErrMissing (blank_positions li)) /\ blank_positions li <> [].
Proof. exact slg_missing_error. Qed.

Theorem C07_graded_otherwise : forall A (cr : A -> str -> res sres) solve c (a : alt A) (li : list str),
  (c_length_error c = false \/ length (al_items a) = length li) ->
  (c_missing_error c = false \/ Forall (fun it => is_blank it = false) li) ->
  check_items cr solve c a li =
  match grade_list cr solve c a li with
  | inl rs => inl (process c rs (length (al_items a)) (al_msg a) (al_credit a))
  | inr e => inr e
  end.
Proof. exact slg_graded_otherwise. Qed.

Theorem C07_length_error_counts_split_pieces : forall A (cr : A -> str -> res sres) solve c (a : alt A) s,
  c_length_error c = true -> length (al_items a) <> length (split (c_delim c) s) ->
  check_response cr solve c a s = inr (ErrLength (length (al_items a)) (length (split (c_delim c) s))).
Proof. exact slg_length_error_string. Qed.

(* with the model's own solver a grade IS returned whenever no input error applies and the subgrader answers
   (termination of the solver is C06's theorem for arbitrary integer costs: no bound on sizes or credits) *)
Theorem C07_returns : forall A (cr : A -> str -> res sres), (forall a it, exists r, cr a it = inl r) ->
  forall c (a : alt A) (li : list str),
    (1 <= Nat.max (length (al_items a)) (length li))%nat ->
    (c_length_error c = false \/ length (al_items a) = length li) ->
    (c_missing_error c = false \/ Forall (fun it => is_blank it = false) li) ->
    exists r, check_items cr solveZ c a li = inl r.
Proof. exact slg_returns. Qed.

Theorem C07_returns_string : forall A (cr : A -> str -> res sres), (forall a it, exists r, cr a it = inl r) ->
  forall c (a : alt A) (s : str),
    (c_length_error c = false \/ length (al_items a) = length (split (c_delim c) s)) ->
    (c_missing_error c = false \/ Forall (fun it => is_blank it = false) (split (c_delim c) s)) ->
    exists r, check_response cr solveZ c a s = inl r.
Proof. exact slg_returns_string. Qed.

(* ---------------- the whole check: alternative lists, through the string ---------------- *)
Theorem C07_best_alternative : forall A (cr : A -> str -> res sres) solve c answers s r,
  check cr solve c answers s = inl r ->
  (exists a r0, In a (all_alts answers) /\ check_response cr solve c a s = inl r0 /\
      sr_grade r = sr_grade r0 /\ sr_all r = sr_all r0 /\
      (sr_msg r = sr_msg r0 \/ (sr_msg r0 = [] /\ sr_grade r0 == 0 /\ sr_msg r = c_wrong_msg c))) /\
  (forall a', In a' (all_alts answers) -> exists r', check_response cr solve c a' s = inl r' /\ sr_grade r' <= sr_grade r).
Proof. exact slg_check_best. Qed.

(* the property's first sentence for the executable model, no hypothesis on the solver *)
Theorem C07_grade_formula_whole : forall A (cr : A -> str -> res sres) c answers s r,
  valid_answers cr answers -> check cr solveZ c answers s = inl r ->
  (exists a, In a (all_alts answers) /\ formula cr c a (items_of c s) (sr_grade r)) /\
  (forall a q, In a (all_alts answers) -> formula cr c a (items_of c s) q -> q <= sr_grade r) /\
  0 <= sr_grade r <= 1.
Proof. exact (fun A cr => slg_check_formula A cr solveZ solveZ_solver_optimal). Qed.

Theorem C07_message_rule_whole : forall A (cr : A -> str -> res sres) c answers s r,
  valid_answers cr answers -> check cr solveZ c answers s = inl r -> sr_all r = true ->
  exists a, In a (all_alts answers) /\ length (items_of c s) = length (al_items a) /\
            used_pairs_pass cr c (al_items a) (items_of c s) (earned_test c).
Proof. exact (fun A cr => slg_check_msg_rule A cr solveZ solveZ_solver_optimal). Qed.

Theorem C07_input_error_whole : forall A (cr : A -> str -> res sres) solve c answers s a rest,
  all_alts answers = a :: rest -> input_error c a (items_of c s) ->
  check cr solve c answers s = inr (ErrLength (length (al_items a)) (length (items_of c s))) \/
  check cr solve c answers s = inr (ErrMissing (blank_positions (items_of c s))).
Proof. exact slg_check_input_error. Qed.

(* the grade reported by the whole grader (all alternative lists) is invariant under permuting the submitted items *)
Theorem C07_permutation_invariant_whole : forall A (cr : A -> str -> res sres) solve, solver_optimal solve ->
  forall c answers d items items' r r', c_delim c = [d] -> items <> [] -> Forall (fun it => ~ In d it) items ->
    valid_answers cr answers -> c_ordered c = false -> Permutation items items' ->
    check cr solve c answers (join [d] items) = inl r -> check cr solve c answers (join [d] items') = inl r' ->
    sr_grade r == sr_grade r'.
Proof. exact slg_check_perm_invariant. Qed.

(* what grader(expect, input) hands back: the grade, ok derived from it, the message with <br/> line breaks *)
Theorem C07_reported_entry : forall r, e_grade (to_entry r) = sr_grade r /\ e_ok (to_entry r) = grade_to_ok (sr_grade r) /\
  e_msg (to_entry r) = format_msg (sr_msg r).
Proof. exact to_entry_spec. Qed.

(* answers written as a string: one list (the pieces of the string) at full credit; a blank piece is refused when missing_error is on *)
Theorem C07_inferred_answers : forall c s,
  (c_missing_error c = true /\ (exists it, In it (split (c_delim c) s) /\ is_blank it = true) /\ infer_flat c s = inr ErrConfig)
  \/ ((c_missing_error c = false \/ Forall (fun it => is_blank it = false) (split (c_delim c) s))
      /\ infer_flat c s = inl [mkAnswer [split (c_delim c) s] 1 []]).
Proof. exact infer_flat_spec. Qed.

(* ---------------- one level of nesting ---------------- *)
Theorem C07_nested_grade_formula : forall A (cr : A -> str -> res sres) co ci answers s r,
  valid_nested A cr answers -> nested_check cr solveZ co ci answers s = inl r ->
  (exists a, In a (all_alts answers) /\ formula (inner_cr A cr solveZ ci) co a (items_of co s) (sr_grade r)) /\
  (forall a q, In a (all_alts answers) -> formula (inner_cr A cr solveZ ci) co a (items_of co s) q -> q <= sr_grade r) /\
  0 <= sr_grade r <= 1.
Proof. exact (fun A cr => slg_nested_formula A cr solveZ solveZ_solver_optimal). Qed.

Theorem C07_nested_message_rule : forall A (cr : A -> str -> res sres) co ci answers s r,
  c_nested co = true -> valid_nested A cr answers -> nested_check cr solveZ co ci answers s = inl r -> sr_all r = true ->
  exists a, In a (all_alts answers) /\ length (items_of co s) = length (al_items a) /\
            used_pairs_pass (inner_cr A cr solveZ ci) co (al_items a) (items_of co s) sr_all.
Proof. exact (fun A cr => slg_nested_msg_rule A cr solveZ solveZ_solver_optimal). Qed.

Theorem C07_nested_inner_all_awarded : forall A (cr : A -> str -> res sres) ci ia it r,
  c_nested ci = false -> valid_answers cr ia -> inner_cr A cr solveZ ci ia it = inl r -> sr_all r = true ->
  exists a, In a (all_alts ia) /\ length (items_of ci it) = length (al_items a) /\
            used_pairs_pass cr ci (al_items a) (items_of ci it) (fun x => Qltb 0 (sr_grade x)).
Proof. exact (fun A cr => inner_all_awarded A cr solveZ solveZ_solver_optimal). Qed.

(* ---------------- what the source says now (tie A): the regenerated helpers are the model's ---------------- *)
Theorem C07_source_consolidate_grades : forall gs ne ns, length gs = Nat.max ne ns ->
  Gen.SingleList.gen_consolidate_grades gs (Some (Z.of_nat ne)) == Qmax 0 ((qsum gs - surplus ne ns) / inject_Z (Z.of_nat ne)).
Proof. exact consolidate_formula. Qed.

Theorem C07_source_process_grade_list : forall c rs n msg credit,
  Gen.SingleList.gen_process_grade_list (c_partial c) (c_nested c) rs (Z.of_nat n) msg credit = process c rs n msg credit.
Proof. exact process_grade_list_bridge. Qed.

Theorem C07_source_padding : forall (A : Type) (cr : A -> str -> res sres) (la : list A) (li : list str) oa oi,
  Gen.SingleList.gen_get_padded_lists la li = (pad (Nat.max (length la) (length li)) la, pad (Nat.max (length la) (length li)) li)
  /\ Gen.SingleList.gen_padded_check cr oa oi = checker cr oa oi.
Proof. exact (fun A cr la li oa oi => conj (get_padded_lists_bridge la li) (padded_check_bridge cr oa oi)). Qed.

(* ---------------- Examples: the hypotheses are satisfiable, the model computes ---------------- *)
Definition ex_x : str := [120%Z]. Definition ex_y : str := [121%Z]. Definition ex_z : str := [122%Z].
Definition ex_comma : str := [44%Z].
(* credits: answer 1 likes x (1) and y (1/2), answer 2 likes x (1/2) and y (1/2, with a message), nothing else earns credit *)
Definition ex_cr (a : Z) (it : str) : res sres :=
  if (a =? 1)%Z && str_eqb it ex_x then inl (mkSres 1 [] false)
  else if (a =? 1)%Z && str_eqb it ex_y then inl (mkSres (1#2) [] false)
  else if (a =? 2)%Z && str_eqb it ex_x then inl (mkSres (1#2) [] false)
  else if (a =? 2)%Z && str_eqb it ex_y then inl (mkSres (1#2) [104%Z] false)
  else inl (mkSres 0 [] false).
Definition ex_cfg : cfg := mkCfg ex_comma false false true true false [].
Definition ex_answers : list (answer Z) := [mkAnswer [[1%Z; 2%Z]] (1#2) [65%Z]].
Definition ex_join (l : list str) : str := join ex_comma l.

Example C07_ex_hypotheses_hold : valid_answers ex_cr ex_answers /\ (forall a it, exists r, ex_cr a it = inl r).
Proof.
  split.
  - constructor; [|constructor]. split; [discriminate|]. split; [|simpl; split; [discriminate | discriminate]].
    intros a it r _ H. unfold ex_cr in H.
    repeat match type of H with (if ?b then _ else _) = _ => destruct b end; inversion H; subst; simpl; split; discriminate.
  - intros a it. unfold ex_cr.
    repeat match goal with |- exists r, (if ?b then _ else _) = _ => destruct b end; eexists; reflexivity.
Qed.

(* 'x,y' against [1,2] with answer credit 1/2: best = 1 + 1/2, grade = 1/2 * (3/2)/2 = 3/8, the item message then the answer's *)
Example C07_ex_grade : 
  match check ex_cr solveZ ex_cfg ex_answers (ex_join [ex_x; ex_y]) with
  | inl r => Qred (sr_grade r) = 3#8 /\ sr_msg r = [104; 10; 65]%Z /\ sr_all r = true
  | inr _ => False
  end.
Proof. vm_compute. repeat split. Qed.

(* one surplus item costs 1/n_expect; a missing item counts zero; a blank item raises when missing_error is on *)
Example C07_ex_surplus_missing_blank :
  (match check ex_cr solveZ ex_cfg ex_answers (ex_join [ex_x; ex_y; ex_z]) with
   | inl r => Qred (sr_grade r) = 1#8 /\ sr_all r = false | inr _ => False end) /\
  (match check ex_cr solveZ ex_cfg ex_answers (ex_join [ex_x]) with
   | inl r => Qred (sr_grade r) = 1#4 /\ sr_msg r = [] | inr _ => False end) /\
  check ex_cr solveZ ex_cfg ex_answers (ex_join [ex_x; []; ex_y]) = inr (ErrMissing [2%nat]) /\
  check ex_cr solveZ (mkCfg ex_comma false true true true false []) ex_answers (ex_join [ex_x; []; ex_y]) = inr (ErrLength 2 3).
Proof. vm_compute. repeat split. Qed.

(* the grade is the same for 'x,z' ... and its permutation; with partial_credit off both score 0, 'x,y' too (3/4 < 1) *)
Example C07_ex_permutation_and_no_partial :
  (match check ex_cr solveZ ex_cfg ex_answers (ex_join [ex_z; ex_x]), check ex_cr solveZ ex_cfg ex_answers (ex_join [ex_x; ex_z]) with
   | inl r, inl r' => Qeq_bool (sr_grade r) (sr_grade r') = true /\ Qred (sr_grade r) = 1#4 | _, _ => False end) /\
  (match check ex_cr solveZ (mkCfg ex_comma false false true false false []) ex_answers (ex_join [ex_x; ex_y]) with
   | inl r => Qred (sr_grade r) = 0 | inr _ => False end).
Proof. vm_compute. repeat split. Qed.

(* Two assignments of 'x,y' to [1,3] have the maximal total 1: (x->1, y->3) where y earns nothing, and (x->3, y->1) where both
   earn 1/2.  The grade is 1/2 either way and for either order of the submission; whether the answer-level message appears
   depends on which of the two the solver returns, and that depends on the order.  So "the message is shown ONLY when every
   item earned credit" cannot be strengthened to "exactly when some optimal assignment lets every item earn credit". *)
Definition ex_tie_cr (a : Z) (it : str) : res sres :=
  if (a =? 1)%Z && str_eqb it ex_x then inl (mkSres 1 [] false)
  else if (a =? 1)%Z && str_eqb it ex_y then inl (mkSres (1#2) [] false)
  else if (a =? 3)%Z && str_eqb it ex_x then inl (mkSres (1#2) [] false)
  else inl (mkSres 0 [] false).
Example C07_ex_message_depends_on_the_assignment_returned :
  match check ex_tie_cr solveZ ex_cfg [mkAnswer [[1%Z; 3%Z]] 1 [65%Z]] (ex_join [ex_x; ex_y]),
        check ex_tie_cr solveZ ex_cfg [mkAnswer [[1%Z; 3%Z]] 1 [65%Z]] (ex_join [ex_y; ex_x]) with
  | inl r, inl r' => Qred (sr_grade r) = 1#2 /\ Qred (sr_grade r') = 1#2 /\ sr_msg r = [] /\ sr_msg r' = [65%Z]
  | _, _ => False
  end.
Proof. vm_compute. repeat split. Qed.

(* nesting: 'x,y;x' against [[1,2],[1]] with ';' outside and ',' inside *)
Example C07_ex_nested :
  match nested_check ex_cr solveZ (mkCfg [59%Z] false false true true true []) ex_cfg
          [mkAnswer [[ [mkAnswer [[1%Z; 2%Z]] 1 []]; [mkAnswer [[1%Z]] 1 []] ]] 1 [65%Z]]
          (join [59%Z] [ex_join [ex_x; ex_y]; ex_x]) with
  | inl r => Qred (sr_grade r) = 7#8 /\ sr_all r = true /\ sr_msg r = [104; 10; 65]%Z
  | inr _ => False
  end.
Proof. vm_compute. repeat split. Qed.
