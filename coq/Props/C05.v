(* Props/C05.v -- ListGrader gives the best consistent assignment and reports it per input box.
   Only statements, `exact lemma`, and Print Assumptions.

   Model: Model/ListGrader.v (one nesting level over an ARBITRARY subgrader oracle `check`; nested ListGraders
   by instantiating the oracle with the model itself, C05_nesting_list, C05_nesting_item).  X = inputs, A = answers, lists of any
   length.  None = the grader raises.  The assignment solver the model calls is solveZ = the integer instance
   of the Munkres model (C06) on the costs D*(1 - grade) for a common denominator D; its optimality on
   rational cost matrices is PROVED here from C06's munkres_partial_correct (C05_solver_transfer, C05_solver_optimal), so the unordered
   theorems carry no solver hypothesis.  They are also stated for any solver that is optimal and row-major. *)
From Coq Require Import ZArith QArith List Bool Arith Permutation Sorted.
From Verif.Lib Require Import QRound.
From Verif.Model Require Import Result Munkres ListGrader.
From Verif.Proofs Require Import MunkresSpec ListGraderGroup ListGraderAssign ListGrader ListGraderFinal ListGraderTotal ListGraderHeadline.
Import ListNotations.
Close Scope Q_scope.
Open Scope nat_scope.

(* ---------------------------------------------------------------------------------------------------------
   0. THE PROPERTY FOR THE WHOLE OF ListGrader.check (no grouping), one theorem per mode; the parts follow
   --------------------------------------------------------------------------------------------------------- *)
(* ORDERED.  What check returns is, up to the partial_credit=False rule, the list es of one of the alternative
   answer lists al: entry p of es is exactly what subgrader p returns for answer p of al and input p (siblings
   unchanged), and no alternative list totals more. *)
Theorem C05_ordered_check : forall (X A : Type) (dX : X)
    (check : nat -> A -> ginput X -> option (list (nat * ginput X)) -> option result)
    (solve : list (list Q) -> option (list (nat * nat))) c alts xs out,
  lg_ordered c = true -> lg_grouping c = [] -> (forall al, In al alts -> cfg_matches A c al) ->
  check_level X A dX check solve c alts xs = Some out ->
  exists al es,
    In al alts /\ length es = length xs /\ length al = length xs
    /\ (forall p a x, nth_error al p = Some a -> nth_error xs p = Some x ->
          exists e, nth_error es p = Some e
                    /\ check (gidx c p) a (GOne x) (Some (ordered_siblings X A c al (map GOne xs))) = Some (GOne e))
    /\ (forall al' es', In al' alts -> perform_check X A dX check solve c al' xs = Some es' ->
          (total es' <= total es)%Q)
    /\ out = apply_partial (lg_partial c) es
    /\ length out = length xs.
Proof. exact ordered_check. Qed.
Print Assumptions C05_ordered_check.

(* UNORDERED.  What check returns is, up to the partial_credit=False rule, the list es obtained from one
   alternative answer list al by a one-to-one assignment sigma of inputs to answers (entry i = what the subgrader
   returns for input i and answer sigma(i)), and NO one-to-one assignment of NO alternative list has a larger
   total credit.  (credit rs' = sum of the grades of the results rs' selected by tau.) *)
Theorem C05_unordered_check : forall (X A : Type) (dX : X)
    (check : nat -> A -> ginput X -> option (list (nat * ginput X)) -> option result) c alts xs out,
  lg_ordered c = false -> lg_grouping c = [] -> 1 <= length xs ->
  check_level X A dX check solveZ c alts xs = Some out ->
  let n := length xs in
  exists al es R sigma,
    In al alts /\ length es = n /\ length al = n
    /\ result_matrix X A check al (map GOne xs) = Some R
    /\ Permutation sigma (seq 0 n)
    /\ all_some (map (pick R) (combine (seq 0 n) sigma)) = Some (map GOne es)
    /\ (forall al' R' tau rs', In al' alts -> result_matrix X A check al' (map GOne xs) = Some R' ->
          Permutation tau (seq 0 n) ->
          all_some (map (pick R') (combine (seq 0 n) tau)) = Some rs' -> (credit rs' <= total es)%Q)
    /\ out = apply_partial (lg_partial c) es
    /\ length out = n.
Proof. exact unordered_check. Qed.
Print Assumptions C05_unordered_check.

(* ORDERED, GROUPED.  The reported list belongs to one alternative answer list al; group t was graded by subgrader
   t against answer t of al, and the k-th entry of that result is reported at the box of the k-th input of group
   t; no alternative list totals more. *)
Theorem C05_ordered_check_grouped : forall (X A : Type) (dX : X)
    (check : nat -> A -> ginput X -> option (list (nat * ginput X)) -> option result)
    (solve : list (list Q) -> option (list (nat * nat))) c alts xs out,
  lg_ordered c = true -> valid_grouping (lg_grouping c) -> (forall al, In al alts -> cfg_matches A c al) ->
  check_level X A dX check solve c alts xs = Some out ->
  let gm := group_map (lg_grouping c) in
  let gin := groupify dX gm xs in
  exists al es,
    In al alts /\ length es = length xs
    /\ (forall t grp a, nth_error gm t = Some grp -> nth_error al t = Some a ->
          exists gi r,
            nth_error gin t = Some gi
            /\ entries_of gi = map (fun i => nth i xs dX) grp
            /\ check (gidx c t) a gi (Some (ordered_siblings X A c al gin)) = Some r
            /\ forall k i, nth_error grp k = Some i ->
                 exists e, nth_error (entries_of r) k = Some e /\ nth_error es i = Some e)
    /\ (forall al' es', In al' alts -> perform_check X A dX check solve c al' xs = Some es' ->
          (total es' <= total es)%Q)
    /\ out = apply_partial (lg_partial c) es
    /\ length out = length xs.
Proof. exact ordered_check_grouped. Qed.
Print Assumptions C05_ordered_check_grouped.

(* UNORDERED, GROUPED (groups of k boxes, every subgrader result with one non-negative entry per box).  The reported
   entries are those of a one-to-one assignment of groups to the answers of one alternative list, each at the box
   of the input it grades, and their SUM is at least the sum of the entries of ANY one-to-one assignment of ANY
   alternative list. *)
Theorem C05_unordered_check_grouped : forall (X A : Type) (dX : X)
    (check : nat -> A -> ginput X -> option (list (nat * ginput X)) -> option result) c alts xs out k,
  lg_ordered c = false -> valid_grouping (lg_grouping c) ->
  (forall al, In al alts -> length al = list_max (lg_grouping c)) ->
  1 <= k -> (forall grp, In grp (group_map (lg_grouping c)) -> length grp = k) ->
  (forall al R, In al alts ->
     result_matrix X A check al (groupify dX (group_map (lg_grouping c)) xs) = Some R ->
     forall p r, pick R p = Some r -> well_shaped k r) ->
  check_level X A dX check solveZ c alts xs = Some out ->
  let gm := group_map (lg_grouping c) in
  let gin := groupify dX gm xs in
  let n := length gm in
  exists al es R sigma rs,
    In al alts /\ length es = length xs
    /\ result_matrix X A check al gin = Some R
    /\ Permutation sigma (seq 0 n)
    /\ all_some (map (pick R) (combine (seq 0 n) sigma)) = Some rs
    /\ ungroupify gm rs = Some es
    /\ (forall t grp r j i, nth_error gm t = Some grp -> nth_error rs t = Some r -> nth_error grp j = Some i ->
          exists e, nth_error (entries_of r) j = Some e /\ nth_error es i = Some e)
    /\ (forall al' R' tau rs', In al' alts -> result_matrix X A check al' gin = Some R' ->
          Permutation tau (seq 0 n) ->
          all_some (map (pick R') (combine (seq 0 n) tau)) = Some rs' ->
          (total (concat (map entries_of rs')) <= total es)%Q)
    /\ out = apply_partial (lg_partial c) es
    /\ length out = length xs.
Proof. exact unordered_check_grouped. Qed.
Print Assumptions C05_unordered_check_grouped.

(* ---------------------------------------------------------------------------------------------------------
   1. ordered: the i-th result is exactly what the i-th subgrader returns for the i-th answer and the i-th
      input (siblings passed unchanged: one (grader, input) pair per position, in order)
   --------------------------------------------------------------------------------------------------------- *)
Theorem C05_ordered_pointwise : forall (X A : Type) (dX : X)
    (check : nat -> A -> ginput X -> option (list (nat * ginput X)) -> option result)
    (solve : list (list Q) -> option (list (nat * nat))) c answers xs es,
  lg_ordered c = true -> lg_grouping c = [] -> cfg_matches A c answers ->
  perform_check X A dX check solve c answers xs = Some es ->
  length es = length xs /\ length answers = length xs
  /\ forall p a x, nth_error answers p = Some a -> nth_error xs p = Some x ->
       exists e, nth_error es p = Some e
                 /\ check (gidx c p) a (GOne x) (Some (ordered_siblings X A c answers (map GOne xs))) = Some (GOne e).
Proof. exact ordered_flat_pointwise. Qed.
Print Assumptions C05_ordered_pointwise.

Theorem C05_siblings_passed_unchanged : forall (X A : Type) c (answers : list A) (gin : list (ginput X)) p a x,
  p < n_graders A c answers -> nth_error answers p = Some a -> nth_error gin p = Some x ->
  nth_error (ordered_siblings X A c answers gin) p = Some (gidx c p, x).
Proof. exact ordered_siblings_nth. Qed.
Print Assumptions C05_siblings_passed_unchanged.

(* ordered with a grouping: group t goes to subgrader t with answer t; the k-th entry of what it returns is
   reported at the box of the k-th input of group t -- "also when inputs are grouped for nested graders" *)
Theorem C05_ordered_grouped_boxes : forall (X A : Type) (dX : X)
    (check : nat -> A -> ginput X -> option (list (nat * ginput X)) -> option result)
    (solve : list (list Q) -> option (list (nat * nat))) c answers xs es,
  lg_ordered c = true -> valid_grouping (lg_grouping c) -> cfg_matches A c answers ->
  perform_check X A dX check solve c answers xs = Some es ->
  let gm := group_map (lg_grouping c) in
  let gin := groupify dX gm xs in
  length es = length xs
  /\ forall t grp a, nth_error gm t = Some grp -> nth_error answers t = Some a ->
       exists gi r,
         nth_error gin t = Some gi
         /\ entries_of gi = map (fun i => nth i xs dX) grp
         /\ check (gidx c t) a gi (Some (ordered_siblings X A c answers gin)) = Some r
         /\ forall k i, nth_error grp k = Some i ->
              exists e, nth_error (entries_of r) k = Some e /\ nth_error es i = Some e.
Proof. exact ordered_grouped_boxes. Qed.
Print Assumptions C05_ordered_grouped_boxes.

(* ---------------------------------------------------------------------------------------------------------
   2. groupings: group_map partitions the boxes; ungroupify inverts groupify; results follow the boxes
   --------------------------------------------------------------------------------------------------------- *)
Theorem C05_group_map_membership : forall grouping t grp j,
  nth_error (group_map grouping) t = Some grp -> (In j grp <-> nth_error grouping j = Some (S t)).
Proof. exact group_map_In. Qed.
Print Assumptions C05_group_map_membership.

Theorem C05_groups_partition_boxes : forall grouping, valid_grouping grouping ->
  NoDup (concat (group_map grouping))
  /\ (forall j, j < length grouping -> In j (concat (group_map grouping)))
  /\ (forall j, In j (concat (group_map grouping)) -> j < length grouping).
Proof. exact groups_partition. Qed.
Print Assumptions C05_groups_partition_boxes.

Theorem C05_ungroup_group_id : forall (T : Type) (d : T) grouping (l : list T),
  valid_grouping grouping -> length l = length grouping ->
  ungroupify (group_map grouping) (groupify d (group_map grouping) l) = Some l.
Proof. exact @ungroup_group_id. Qed.
Print Assumptions C05_ungroup_group_id.

Theorem C05_results_follow_boxes : forall (T : Type) grouping (rs : list (ginput T)) es,
  valid_grouping grouping ->
  ungroupify (group_map grouping) rs = Some es ->
  length es = length grouping /\
  forall t grp r k i, nth_error (group_map grouping) t = Some grp -> nth_error rs t = Some r ->
    nth_error grp k = Some i ->
    exists e, nth_error (entries_of r) k = Some e /\ nth_error es i = Some e.
Proof. exact @ungroupify_follows_boxes. Qed.
Print Assumptions C05_results_follow_boxes.

(* ---------------------------------------------------------------------------------------------------------
   3. unordered: a one-to-one assignment of inputs to answers whose total credit is maximal over all
      one-to-one assignments; every result at the box of the input it grades
   --------------------------------------------------------------------------------------------------------- *)
(* the solver: C06 for integer costs  ==>  optimal on rational costs (scaling proved, nothing assumed) *)
Theorem C05_solver_transfer : munkres_partial_correct_statement -> solver_optimal solveZ.
Proof. exact solveZ_optimal. Qed.
Print Assumptions C05_solver_transfer.

Theorem C05_solver_optimal : forall (r c : nat) (M : list (list Q)) (res : list (nat * nat)),
  1 <= r -> 1 <= c -> rect r c M -> solveZ M = Some res ->
  is_matching r c res /\ length res = Nat.min r c
  /\ forall m, is_matching r c m -> length m = Nat.min r c -> (qcost M res <= qcost M m)%Q.
Proof. exact solveZ_ok. Qed.
Print Assumptions C05_solver_optimal.

Theorem C05_solver_rows_in_order : forall M res, solveZ M = Some res -> StronglySorted le (map fst res).
Proof. exact solveZ_row_major. Qed.
Print Assumptions C05_solver_rows_in_order.

(* R[i][j] = what the (single) subgrader returns for answer j and input i *)
Theorem C05_result_matrix : forall (X A : Type)
    (check : nat -> A -> ginput X -> option (list (nat * ginput X)) -> option result) answers gin R,
  result_matrix X A check answers gin = Some R ->
  rect (length gin) (length answers) R /\
  forall i j x a, nth_error gin i = Some x -> nth_error answers j = Some a ->
    exists r, check 0 a x None = Some r /\ pick R (i, j) = Some r.
Proof. exact result_matrix_spec. Qed.
Print Assumptions C05_result_matrix.

Theorem C05_unordered_max_assignment : forall (X A : Type) (dX : X)
    (check : nat -> A -> ginput X -> option (list (nat * ginput X)) -> option result) c answers xs es,
  lg_ordered c = false -> lg_grouping c = [] -> 1 <= length xs ->
  perform_check X A dX check solveZ c answers xs = Some es ->
  let n := length xs in
  length es = n /\ length answers = n
  /\ exists R sigma,
       result_matrix X A check answers (map GOne xs) = Some R
       /\ Permutation sigma (seq 0 n)
       /\ all_some (map (pick R) (combine (seq 0 n) sigma)) = Some (map GOne es)
       /\ forall tau rs', Permutation tau (seq 0 n) ->
            all_some (map (pick R) (combine (seq 0 n) tau)) = Some rs' -> (credit rs' <= total es)%Q.
Proof. exact unordered_flat_optimal_Z. Qed.
Print Assumptions C05_unordered_max_assignment.

Theorem C05_unordered_grouped_max_assignment : forall (X A : Type) (dX : X)
    (check : nat -> A -> ginput X -> option (list (nat * ginput X)) -> option result) c answers xs es,
  lg_ordered c = false -> valid_grouping (lg_grouping c) ->
  length answers = list_max (lg_grouping c) ->
  perform_check X A dX check solveZ c answers xs = Some es ->
  let gm := group_map (lg_grouping c) in
  let gin := groupify dX gm xs in
  let n := length gm in
  length es = length xs
  /\ exists R sigma rs,
       result_matrix X A check answers gin = Some R
       /\ Permutation sigma (seq 0 n)
       /\ all_some (map (pick R) (combine (seq 0 n) sigma)) = Some rs
       /\ ungroupify gm rs = Some es
       /\ (forall t grp r k i, nth_error gm t = Some grp -> nth_error rs t = Some r -> nth_error grp k = Some i ->
             exists e, nth_error (entries_of r) k = Some e /\ nth_error es i = Some e)
       /\ forall tau rs', Permutation tau (seq 0 n) ->
            all_some (map (pick R) (combine (seq 0 n) tau)) = Some rs' -> (credit rs' <= credit rs)%Q.
Proof. exact unordered_grouped_optimal_Z. Qed.
Print Assumptions C05_unordered_grouped_max_assignment.

(* equal-size groups of k boxes, every subgrader result with one non-negative entry per box of its group: the
   reported entries are a rearrangement of the entries of the chosen results, and THE SUM OF ALL REPORTED ENTRIES
   is at least the sum of the entries of any other one-to-one assignment of groups to answers *)
Theorem C05_unordered_grouped_total_max : forall (X A : Type) (dX : X)
    (check : nat -> A -> ginput X -> option (list (nat * ginput X)) -> option result) c answers xs es k,
  lg_ordered c = false -> valid_grouping (lg_grouping c) ->
  length answers = list_max (lg_grouping c) ->
  1 <= k -> (forall grp, In grp (group_map (lg_grouping c)) -> length grp = k) ->
  (forall R, result_matrix X A check answers (groupify dX (group_map (lg_grouping c)) xs) = Some R ->
             forall p r, pick R p = Some r -> well_shaped k r) ->
  perform_check X A dX check solveZ c answers xs = Some es ->
  let gm := group_map (lg_grouping c) in
  let gin := groupify dX gm xs in
  let n := length gm in
  exists R sigma rs,
    result_matrix X A check answers gin = Some R
    /\ Permutation sigma (seq 0 n)
    /\ all_some (map (pick R) (combine (seq 0 n) sigma)) = Some rs
    /\ Permutation es (concat (map entries_of rs))
    /\ forall tau rs', Permutation tau (seq 0 n) ->
         all_some (map (pick R) (combine (seq 0 n) tau)) = Some rs' ->
         (total (concat (map entries_of rs')) <= total es)%Q.
Proof. exact unordered_grouped_total_max. Qed.
Print Assumptions C05_unordered_grouped_total_max.

(* the unordered branch ALWAYS returns when every subgrader call returns (C06: the solver terminates on every
   integer matrix): the "if the model returns" of the theorems above is not vacuous and hides no failure mode *)
Theorem C05_unordered_returns : forall (X A : Type)
    (check : nat -> A -> ginput X -> option (list (nat * ginput X)) -> option result) n answers gin R,
  1 <= n -> length answers = n -> length gin = n ->
  result_matrix X A check answers gin = Some R ->
  exists rs, unordered_results X A check solveZ answers gin = Some rs.
Proof. exact unordered_returns. Qed.
Print Assumptions C05_unordered_returns.

Theorem C05_unordered_flat_returns : forall (X A : Type)
    (check : nat -> A -> ginput X -> option (list (nat * ginput X)) -> option result) (dX : X) c answers xs R,
  lg_ordered c = false -> lg_grouping c = [] -> 1 <= length xs -> length answers = length xs ->
  result_matrix X A check answers (map GOne xs) = Some R ->
  (forall p r, pick R p = Some r -> exists e, r = GOne e) ->
  exists es, perform_check X A dX check solveZ c answers xs = Some es.
Proof. exact unordered_flat_returns. Qed.
Print Assumptions C05_unordered_flat_returns.

(* the same for ANY solver that returns complete minimum-cost assignments with the rows in order *)
Theorem C05_unordered_max_assignment_any_solver : forall (X A : Type) (dX : X)
    (check : nat -> A -> ginput X -> option (list (nat * ginput X)) -> option result)
    (solve : list (list Q) -> option (list (nat * nat))),
  solver_optimal solve -> solver_row_major solve ->
  forall c answers xs es,
  lg_ordered c = false -> lg_grouping c = [] -> 1 <= length xs ->
  perform_check X A dX check solve c answers xs = Some es ->
  let n := length xs in
  length es = n /\ length answers = n
  /\ exists R sigma,
       result_matrix X A check answers (map GOne xs) = Some R
       /\ Permutation sigma (seq 0 n)
       /\ all_some (map (pick R) (combine (seq 0 n) sigma)) = Some (map GOne es)
       /\ forall tau rs', Permutation tau (seq 0 n) ->
            all_some (map (pick R) (combine (seq 0 n) tau)) = Some rs' -> (credit rs' <= total es)%Q.
Proof. exact unordered_flat_optimal. Qed.
Print Assumptions C05_unordered_max_assignment_any_solver.

(* with groups of equal size k whose results have one non-negative entry per input, the consolidated credit the
   solver maximises is the total credit of the entries divided by k *)
Theorem C05_grouped_credit_is_total_over_k : forall k rs, 1 <= k -> Forall (well_shaped k) rs ->
  (credit rs * inject_Z (Z.of_nat k) == total (concat (map entries_of rs)))%Q.
Proof. exact credit_grouped. Qed.
Print Assumptions C05_grouped_credit_is_total_over_k.

(* ---------------------------------------------------------------------------------------------------------
   4. several alternative answer lists: the reported list is one with maximal total credit;
   5. partial_credit = False: every entry is zeroed unless every entry is fully correct
   --------------------------------------------------------------------------------------------------------- *)
Theorem C05_best_list_max_total : forall rs b, get_best rs = Some b ->
  In b rs /\ forall r, In r rs -> (total r <= total b)%Q.
Proof. exact get_best_max. Qed.
Print Assumptions C05_best_list_max_total.

Theorem C05_best_list_exists : forall rs, rs <> [] -> exists b, get_best rs = Some b.
Proof. exact get_best_total. Qed.
Print Assumptions C05_best_list_exists.

Theorem C05_no_partial_zeroing : forall partial es,
  (partial = true -> apply_partial partial es = es)
  /\ (partial = false ->
        (Forall (fun e => e_ok e = OkTrue) es /\ apply_partial partial es = es)
        \/ (~ Forall (fun e => e_ok e = OkTrue) es
            /\ apply_partial partial es = map zero_entry es)).
Proof. exact apply_partial_spec. Qed.
Print Assumptions C05_no_partial_zeroing.

Theorem C05_zeroed_entry : forall e,
  e_ok (zero_entry e) = OkFalse /\ e_grade (zero_entry e) = 0%Q /\ e_msg (zero_entry e) = e_msg e.
Proof. exact zero_entry_spec. Qed.
Print Assumptions C05_zeroed_entry.

(* the whole of ListGrader.check *)
Theorem C05_check_sound : forall (X A : Type) (dX : X)
    (check : nat -> A -> ginput X -> option (list (nat * ginput X)) -> option result)
    (solve : list (list Q) -> option (list (nat * nat))) c alts xs out,
  check_level X A dX check solve c alts xs = Some out ->
  exists rs b,
    Forall2 (fun al r => perform_check X A dX check solve c al xs = Some r) alts rs
    /\ In b rs /\ (forall r, In r rs -> (total r <= total b)%Q)
    /\ out = apply_partial (lg_partial c) b.
Proof. exact check_level_sound. Qed.
Print Assumptions C05_check_sound.

Theorem C05_check_returns : forall (X A : Type) (dX : X)
    (check : nat -> A -> ginput X -> option (list (nat * ginput X)) -> option result)
    (solve : list (list Q) -> option (list (nat * nat))) c alts xs rs,
  alts <> [] -> Forall2 (fun al r => perform_check X A dX check solve c al xs = Some r) alts rs ->
  exists out, check_level X A dX check solve c alts xs = Some out.
Proof. exact check_level_total. Qed.
Print Assumptions C05_check_returns.

Theorem C05_one_entry_per_input : forall (X A : Type) (dX : X)
    (check : nat -> A -> ginput X -> option (list (nat * ginput X)) -> option result)
    (solve : list (list Q) -> option (list (nat * nat))) c alts xs out n,
  check_level X A dX check solve c alts xs = Some out ->
  (forall al es, In al alts -> perform_check X A dX check solve c al xs = Some es -> length es = n) ->
  length out = n.
Proof. exact check_level_length. Qed.
Print Assumptions C05_one_entry_per_input.

(* ---------------------------------------------------------------------------------------------------------
   6. nesting: a nested ListGrader is the same function one level down, so 1-5 hold at every depth
   --------------------------------------------------------------------------------------------------------- *)
Theorem C05_nesting_list : forall item solve f id c subs alts xs sibs,
  run item solve (S f) (TList id c subs) (AAlts alts) (GMany xs) sibs
  = match check_level Z atree 0%Z (sub_closure (run item solve f) subs) solve c alts xs with
    | Some es => Some (GMany es)
    | None => None
    end.
Proof. exact run_list_unfold. Qed.
Print Assumptions C05_nesting_list.

Theorem C05_nesting_item : forall item solve f id aid x sibs,
  run item solve (S f) (TItem id) (AItem aid) x sibs
  = match item id aid x sibs with Some e => Some (GOne e) | None => None end.
Proof. exact run_item_unfold. Qed.
Print Assumptions C05_nesting_item.

Theorem C05_call_formats_messages_only : forall item solve f g a xs out,
  lg_call item solve f g a xs = Some out ->
  exists es, run item solve f g a (GMany xs) None = Some (GMany es) /\ out = map fmt_entry es
             /\ forall e, e_ok (fmt_entry e) = e_ok e /\ e_grade (fmt_entry e) = e_grade e.
Proof. exact lg_call_spec'. Qed.
Print Assumptions C05_call_formats_messages_only.

(* ---------------------------------------------------------------------------------------------------------
   non-vacuity and reading notes
   --------------------------------------------------------------------------------------------------------- *)
Example C05_ex_group_map_docstring : group_map [3; 1; 1; 2; 2; 1; 2] = [[1; 2; 5]; [3; 4; 6]; [0]].
Proof. exact ex_group_map_docstring. Qed.
Print Assumptions C05_ex_group_map_docstring.

Example C05_ex_valid_grouping : valid_grouping [3; 1; 1; 2; 2; 1; 2].
Proof. exact ex_valid_grouping_docstring. Qed.
Print Assumptions C05_ex_valid_grouping.

Example C05_ex_unordered_call :
  option_map (map (fun e => (e_ok e, Qred (e_grade e)))) (lg_call ex_item solveZ 3 ex_tree ex_answers [0; 1; 2]%Z)
  = Some [(OkTrue, 1%Q); (OkPartial, (1 # 2)%Q); (OkFalse, 0%Q)].
Proof. exact ex_unordered_call. Qed.
Print Assumptions C05_ex_unordered_call.

Example C05_ex_zeroing :
  apply_partial false [mkEntry OkTrue 1 [109%Z]; mkEntry OkPartial (1 # 2) []]
  = [mkEntry OkFalse 0 [109%Z]; mkEntry OkFalse 0 []].
Proof. exact ex_zeroing. Qed.
Print Assumptions C05_ex_zeroing.

(* observation (not a violation: the property asks for a list of maximal total, which C05_best_list_max_total
   gives): among lists of equal maximal total the code keeps those with a NON-ZERO grade at the earliest box,
   not those with the highest grade there, although get_best_result's docstring says "high-scoring" *)
Example C05_ex_tie_rule_is_nonzero_first :
  get_best [[mkEntry OkPartial (1 # 2) []; mkEntry OkPartial (1 # 2) []];
            [mkEntry OkTrue 1 []; mkEntry OkFalse 0 []]]
  = Some [mkEntry OkPartial (1 # 2) []; mkEntry OkPartial (1 # 2) []].
Proof. exact ex_tie_rule_is_nonzero_first. Qed.
Print Assumptions C05_ex_tie_rule_is_nonzero_first.
