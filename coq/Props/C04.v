(* Props/C04.v -- a formula is marked correct exactly when enough samples agree within tolerance.
   Only statements, `exact lemma`, and Print Assumptions.

   All statements are about the definitions REGENERATED from the source on every run
     gen_within      = Gen.Tolerance.gen_within_tolerance     (mathfuncs.within_tolerance, percentage_as_number)
     gen_consolidate = Gen.Tolerance.gen_consolidate_results  (MathMixin.consolidate_results)
     gen_raw_check   = raw_check_with gen_within gen_consolidate
   (the comparer call, standardize_cfn_return and the credit multiplication of raw_check are hand-written in
   Model/Tolerance.v and tied to the code by the correspondence of harness/props/c04.py).

   Values: VNum (re, im) finite real/complex number, VInf sign, VArr shape entries (row-major).  Norms are decided on
   squares: v_norm2 is the squared absolute value / squared Frobenius norm.  A tolerance is t_abs t (a number) or
   XStr p (the validated string "p%").  `enough n k f` = (k = 0) when n = 1, (k <= f) otherwise. *)
From Coq Require Import ZArith QArith Qabs List Bool.
From Verif.Lib Require Import QRound.
From Verif.Model Require Import Result Tolerance.
From Verif.Gen Require Tolerance.
From Verif.Bridge Require Import Tolerance.
From Verif.Proofs Require Import Tolerance ToleranceGen.
Import ListNotations.
Open Scope Q_scope.

(* ---------- what a tolerance means ---------- *)
(* absolute tolerance t:  ||expected - student|| <= t   (on squares; any shape, real or complex) *)
Theorem C04_within_absolute : forall x y d t, 0 <= t -> v_finite x = true -> v_finite y = true ->
  v_sub x y = Some d ->
  exists b, gen_within x y (t_abs t) = Some b /\ (b = true <-> v_norm2 d <= t * t).
Proof. exact c04_within_abs. Qed.
Print Assumptions C04_within_absolute.

(* percentage tolerance p%:  ||expected - student|| <= p% of ||expected||  -- relative to the FIRST argument *)
Theorem C04_within_percentage : forall x y d p, 0 <= p -> v_finite x = true -> v_finite y = true ->
  v_sub x y = Some d ->
  exists b, gen_within x y (XStr p) = Some b /\ (b = true <-> v_norm2 d <= (p / 100) * (p / 100) * v_norm2 x).
Proof. exact c04_within_pct. Qed.
Print Assumptions C04_within_percentage.

(* the same for real scalars, literally as in the property text *)
Theorem C04_within_absolute_real : forall e s t, 0 <= t ->
  exists b, gen_within (vreal e) (vreal s) (t_abs t) = Some b /\ (b = true <-> Qabs (e - s) <= t).
Proof. exact c04_within_abs_real. Qed.
Print Assumptions C04_within_absolute_real.

Theorem C04_within_percentage_real : forall e s p, 0 <= p ->
  exists b, gen_within (vreal e) (vreal s) (XStr p) = Some b /\ (b = true <-> Qabs (e - s) <= (p / 100) * Qabs e).
Proof. exact c04_within_pct_real. Qed.
Print Assumptions C04_within_percentage_real.

(* deciding on squares is deciding on the norm: for every rational r >= 0 that is / bounds the norm from below / above *)
Theorem C04_squares_decide_the_norm : forall n2 T r, 0 <= T -> 0 <= r ->
  (r * r == n2 -> (n2 <= T * T <-> r <= T)) /\
  (r * r <= n2 -> n2 <= T * T -> r <= T) /\
  (n2 <= r * r -> r <= T -> n2 <= T * T).
Proof. exact c04_norm_on_squares. Qed.
Print Assumptions C04_squares_decide_the_norm.

(* an infinite value matches only the same infinity, whatever the tolerance *)
Theorem C04_infinite_matches_only_same_infinity : forall x y t, v_is_number x = true ->
  v_finite x = false \/ v_finite y = false ->
  exists b, gen_within x y t = Some b /\ (b = true <-> exists p, x = VInf p /\ y = VInf p).
Proof. exact c04_within_inf. Qed.
Print Assumptions C04_infinite_matches_only_same_infinity.

(* ---------- counting failures against failable_evals ---------- *)
(* any list of comparer results: the answer is returned iff the failures fit the budget (none for one result),
   otherwise one of the failing results is returned *)
Theorem C04_consolidate_counts_failures : forall results answer failable, (0 <= failable)%Z ->
  (enough (zlen results) (zlen (fails results)) failable = true ->
     gen_consolidate results (Some answer) failable = answer) /\
  (enough (zlen results) (zlen (fails results)) failable = false ->
     exists r, In r (fails results) /\ gen_consolidate results (Some answer) failable = r).
Proof. exact c04_consolidate_counts. Qed.
Print Assumptions C04_consolidate_counts_failures.

(* THE PROPERTY.  For every tolerance, failable_evals >= 0, answer, and sample list of any length whose comparisons
   are defined (bs = the per-sample outcomes of the tolerance decision): the grader returns the matched answer's
   (ok, grade, msg) exactly when the number of samples outside the tolerance is within the budget, and the zero-credit
   result otherwise. *)
Theorem C04_verdict_iff_failures : forall t failable answer evs bs, (0 <= failable)%Z ->
  sample_oks (fun x y => gen_within x y t) evs = Some bs ->
  gen_raw_check t failable answer evs =
    Some (if enough (zlen evs) (nfail bs) failable then answer else fail_entry answer).
Proof. exact c04_verdict_iff_failures. Qed.
Print Assumptions C04_verdict_iff_failures.

(* the same with the decision spelled out, for finite values of any kind (real, complex, arrays of any shape):
   sample_miss t (e :: _, s) = (tol_sq t e < ||e - s||^2)  where tol_sq is t^2 resp. (p/100)^2 * ||e||^2, and
   misses t evs = the number of such samples.  tol_neg t = false says t >= 0 resp. p >= 0. *)
Theorem C04_verdict_general : forall t failable answer evs, tol_neg t = false -> (0 <= failable)%Z ->
  Forall finite_sample evs ->
  gen_raw_check t failable answer evs =
    Some (if enough (zlen evs) (misses t evs) failable then answer else fail_entry answer).
Proof. exact c04_verdict_general. Qed.
Print Assumptions C04_verdict_general.

(* the hypothesis of C04_verdict_iff_failures is satisfiable for every list of well-shaped samples (same shape, or
   two numbers one of which may be infinite): the outcome list exists and the verdict follows *)
Theorem C04_verdict_total : forall t failable answer evs, (0 <= failable)%Z -> Forall well_shaped evs ->
  exists bs, sample_oks (fun x y => gen_within x y t) evs = Some bs /\ length bs = length evs /\
    gen_raw_check t failable answer evs =
      Some (if enough (zlen evs) (nfail bs) failable then answer else fail_entry answer).
Proof. exact c04_verdict_total. Qed.
Print Assumptions C04_verdict_total.

(* end to end for real scalar samples (expected, student), with the decision spelled out:
   misses_abs t l = #{ (e, s) in l : |e - s| > t },  misses_pct p l = #{ (e, s) in l : |e - s| > p/100 * |e| } *)
Theorem C04_verdict_absolute_real : forall t failable answer (l : list (Q * Q)), 0 <= t -> (0 <= failable)%Z ->
  gen_raw_check (t_abs t) failable answer (map real_sample l) =
    Some (if enough (zlen l) (misses_abs t l) failable then answer else fail_entry answer).
Proof. exact c04_verdict_abs_real. Qed.
Print Assumptions C04_verdict_absolute_real.

Theorem C04_verdict_percentage_real : forall p failable answer (l : list (Q * Q)), 0 <= p -> (0 <= failable)%Z ->
  gen_raw_check (XStr p) failable answer (map real_sample l) =
    Some (if enough (zlen l) (misses_pct p l) failable then answer else fail_entry answer).
Proof. exact c04_verdict_pct_real. Qed.
Print Assumptions C04_verdict_percentage_real.

(* ---------- consequences ---------- *)
(* a rewriting that has the author's value at every sample (equal as numbers; same infinity; same array) earns the
   answer's full credit: any well-formed tolerance including 0, any number of samples, any failable_evals *)
Theorem C04_identical_rewrite_full_credit : forall t failable answer evs, (0 <= failable)%Z -> tol_wf t ->
  Forall same_value evs -> gen_raw_check t failable answer evs = Some answer.
Proof. exact c04_identical_rewrite_full_credit. Qed.
Print Assumptions C04_identical_rewrite_full_credit.

(* missing by more than the tolerance at every sample earns nothing -- for one sample, or failable_evals < samples *)
Theorem C04_always_off_no_credit : forall t failable answer evs, (0 <= failable)%Z ->
  evs <> [] -> (zlen evs = 1%Z \/ (failable < zlen evs)%Z) -> Forall (gen_off_sample t) evs ->
  gen_raw_check t failable answer evs = Some (fail_entry answer) /\ e_grade (fail_entry answer) == 0.
Proof. exact c04_always_off_no_credit. Qed.
Print Assumptions C04_always_off_no_credit.

(* ... and that side condition is necessary: with failable_evals >= samples > 1 the first sentence of the property
   (credit iff failures <= failable_evals) awards the credit to everything, so the "never earn any" clause of the last
   sentence cannot hold there.  Reported as an observation (the schema admits such configurations). *)
Theorem C04_budget_not_below_samples_accepts_all : forall t failable answer evs bs,
  (1 < zlen evs <= failable)%Z ->
  sample_oks (fun x y => gen_within x y t) evs = Some bs ->
  gen_raw_check t failable answer evs = Some answer.
Proof. exact c04_budget_not_below_samples_accepts_all. Qed.
Print Assumptions C04_budget_not_below_samples_accepts_all.

(* ---------- non-vacuity / reading notes ---------- *)
(* the docstring of within_tolerance, including "10% of x, not of y" and the infinities *)
Example C04_ex_docstring :
  gen_within (vreal 10) (vreal (901 # 100)) (t_abs 1) = Some true /\
  gen_within (vreal 10) (vreal (901 # 100)) (t_abs (1 # 2)) = Some false /\
  gen_within (vreal 10) (vreal (901 # 100)) (XStr 10) = Some true /\
  gen_within (vreal (901 # 100)) (vreal 10) (XStr 10) = Some false /\
  gen_within (arr22 1 2 (-3) 1) (arr22 (11 # 10) 2 (-(28 # 10)) 1) (t_abs (1 # 4)) = Some true /\
  gen_within (arr22 1 2 (-3) 1) (arr22 (11 # 10) 2 (-(28 # 10)) 1) (t_abs (22 # 100)) = Some false /\
  gen_within (VInf true) (VInf true) (t_abs 0) = Some true /\
  gen_within (VInf false) (VInf false) (t_abs 0) = Some true /\
  gen_within (VInf true) (VInf false) (t_abs 0) = Some false /\
  gen_within (vreal 1) (VInf true) (XStr 100) = Some false /\
  gen_within (VInf true) (vreal 1) (XStr 100) = Some false.
Proof. exact c04_ex_docstring. Qed.
Print Assumptions C04_ex_docstring.

(* the boundary is inside (<=); the percentage is of the expected value; modulus / Frobenius norm (diag(3,4): 5) *)
Example C04_ex_boundary :
  gen_within (vreal 4) (vreal 6) (t_abs 2) = Some true /\
  gen_within (vreal 4) (vreal 6) (XStr 50) = Some true /\
  gen_within (vreal 6) (vreal 4) (XStr 50) = Some true /\
  gen_within (vreal 4) (vreal 2) (XStr 50) = Some true /\
  gen_within (vreal 2) (vreal 4) (XStr 50) = Some false /\
  gen_within (VNum (0, 0)) (VNum (3, 4)) (t_abs 5) = Some true /\
  gen_within (VNum (0, 0)) (VNum (3, 4)) (t_abs (49 # 10)) = Some false /\
  gen_within (arr22 0 0 0 0) (arr22 3 0 0 4) (t_abs 5) = Some true /\
  gen_within (arr22 0 0 0 0) (arr22 3 0 0 4) (t_abs (9 # 2)) = Some false /\
  gen_within (arr22 0 0 0 0) (VArr [4]%Z [(3, 0); (0, 0); (0, 0); (4, 0)]) (t_abs 5) = None.
Proof. exact c04_ex_boundary. Qed.
Print Assumptions C04_ex_boundary.

(* five samples with two misses: failable_evals 0 and 1 reject, 2 accepts; one sample tolerates no miss *)
Example C04_ex_counting :
  gen_raw_check (t_abs 1) 0 ans_half (map real_sample five) = Some (mkEntry OkFalse (0 * (1 # 2)) []) /\
  gen_raw_check (t_abs 1) 1 ans_half (map real_sample five) = Some (mkEntry OkFalse (0 * (1 # 2)) []) /\
  gen_raw_check (t_abs 1) 2 ans_half (map real_sample five) = Some ans_half /\
  gen_raw_check (t_abs 8) 0 ans_half (map real_sample five) = Some ans_half /\
  gen_raw_check (t_abs 1) 3 ans_half (map real_sample [(-3, 1)]) = Some (mkEntry OkFalse (0 * (1 # 2)) []) /\
  gen_raw_check (t_abs 1) 3 ans_half (map real_sample [(3, 3)]) = Some ans_half.
Proof. exact c04_ex_counting. Qed.
Print Assumptions C04_ex_counting.

(* the corner: two samples, both off by 100, failable_evals = 2 earns the credit; failable_evals = 1 does not *)
Example C04_ex_all_off_credited_when_failable_ge_samples :
  gen_raw_check (t_abs 1) 2 ans_half (map real_sample [(1, 101); (2, 102)]) = Some ans_half /\
  gen_raw_check (t_abs 1) 1 ans_half (map real_sample [(1, 101); (2, 102)]) = Some (mkEntry OkFalse (0 * (1 # 2)) []).
Proof. exact c04_ex_all_off_credited_when_failable_ge_samples. Qed.
Print Assumptions C04_ex_all_off_credited_when_failable_ge_samples.
