(* Props/C09.v -- restrictions on student formulas cannot be bypassed to obtain credit.
   Only statements, `exact lemma`, Print Assumptions and Examples.

   What the theorems are about.  Model/Restrict.v: the permitted-function set, the three validators, the gate of
   check_math_response and the order of scope-scrubbing inside the sampling loops are stated on the definitions
   REGENERATED from the source (Gen/Restrict.v, bridged by reflexivity); check_math_response for
   Formula/Numerical/Matrix graders (formula_check), ordered lists with sibling references (ordered_list_check)
   and SumGrader (sum_check) are hand-written models over the C03 parser/evaluator model, tied to the code by the
   differential correspondence of harness/props/c09.py.  Valuations, function bodies and the comparison are
   universally quantified oracles: "for every valuation" is literal.

   FULL: sections 1-6, C09_ordered_list_credit_implies_permitted, and section 8 except the author's own fields.
   PARTIAL (with what is missing) and REFUTED (witnesses in the faithful model, reproduced on the real code by the
   harness on every run; both are recorded known findings): the error class for ordered lists (section 7) and
   SumGrader validating the author's own non-entered fields (section 8). *)
From Coq Require Import ZArith QArith List Bool.
From Verif.Model Require Import Result Lexer Parser Eval RestrictBase Restrict.
From Verif.Gen Require Restrict.
From Verif.Bridge Require Import Restrict.
From Verif.Proofs Require Import Restrict RestrictGrade RestrictSum RestrictGen RestrictReport RestrictExamples.
Import ListNotations.
Local Open Scope Z_scope.

(* ================================================================================================
   1. the permitted set (get_permitted_functions as it stands in the source)
      D = default functions, W = whitelist, B = blacklist, U = user functions
   ================================================================================================ *)
Theorem C09_permitted_spec : forall D W B U P,
  Gen.Restrict.gen_get_permitted_functions D W B U = Some P ->
  forall f, In f P <->
    (W = [] /\ (In f U \/ In f D) /\ ~ In f B)               (* no whitelist: everything but the blacklist *)
    \/ (W = [None] /\ In f U)                                 (* whitelist=[None]: user functions only *)
    \/ (W <> [] /\ W <> [None] /\ (In f U \/ In (Some f) W)). (* whitelist: it and the user functions *)
Proof. exact gen_permitted_spec. Qed.
Print Assumptions C09_permitted_spec.

Theorem C09_blacklisted_function_never_permitted : forall D W B U P f,
  Gen.Restrict.gen_get_permitted_functions D W B U = Some P -> In f B -> ~ In f U -> ~ In f P.
Proof. exact gen_blacklisted_not_permitted. Qed.
Print Assumptions C09_blacklisted_function_never_permitted.

Theorem C09_user_function_always_permitted : forall D W B U P f,
  Gen.Restrict.gen_get_permitted_functions D W B U = Some P -> In f U -> ~ In f B -> In f P.
Proof. exact gen_user_function_permitted. Qed.
Print Assumptions C09_user_function_always_permitted.

(* ================================================================================================
   2. post_eval_validation (regenerated): passes iff all three restrictions hold; otherwise it raises one of the
      three student-facing InvalidInput messages; it runs exactly when the raw verdict is True or 'partial'
   ================================================================================================ *)
Theorem C09_validation_passes_iff : forall e used F R P,
  Gen.Restrict.gen_post_eval_validation e used F R P = VPass <->
  (forall x f, In x (si_values e) -> In f F -> substr (strip_spaces f) (strip_spaces x) = false)
  /\ (forall r, In r R -> In r used)
  /\ (forall f, In f used -> In f P).
Proof. exact gen_post_eval_pass. Qed.
Print Assumptions C09_validation_passes_iff.

Theorem C09_validation_refuses_with_invalid_input : forall e used F R P v,
  Gen.Restrict.gen_post_eval_validation e used F R P = VRaise v ->
  v = VForbidden
  \/ (exists r, v = VRequired r /\ In r R /\ ~ In r used)
  \/ (exists fs, v = VNotPermitted fs /\ fs <> [] /\ forall f, In f fs <-> In f used /\ ~ In f P).
Proof. exact gen_post_eval_raise. Qed.
Print Assumptions C09_validation_refuses_with_invalid_input.

Theorem C09_validation_runs_iff_credit : forall ok, Gen.Restrict.gen_runs_post_validation ok = true <-> ok <> OkFalse.
Proof. exact gen_gate. Qed.
Print Assumptions C09_validation_runs_iff_credit.

(* `a in b` on strings *)
Theorem C09_substring_spec : forall a b, substr a b = true <-> exists p q, b = p ++ a ++ q.
Proof. exact substr_exists. Qed.
Print Assumptions C09_substring_spec.

(* forbidden strings are compared ignoring spaces -- in the input and in the configured strings -- and the parser
   reads the same space-free text *)
Theorem C09_forbidden_ignores_spaces_in_input : forall a b F, strip_spaces a = strip_spaces b ->
  Gen.Restrict.gen_validate_forbidden_strings_not_used (SIStr a) F
  = Gen.Restrict.gen_validate_forbidden_strings_not_used (SIStr b) F.
Proof. exact forbidden_input_spaces. Qed.
Print Assumptions C09_forbidden_ignores_spaces_in_input.

Theorem C09_forbidden_ignores_spaces_in_config : forall e F,
  Gen.Restrict.gen_validate_forbidden_strings_not_used e (map strip_spaces F)
  = Gen.Restrict.gen_validate_forbidden_strings_not_used e F.
Proof. exact forbidden_list_spaces. Qed.
Print Assumptions C09_forbidden_ignores_spaces_in_config.

Theorem C09_parser_ignores_spaces : forall a b, strip_spaces a = strip_spaces b -> parse_formula a = parse_formula b.
Proof. exact parse_spaces. Qed.
Print Assumptions C09_parser_ignores_spaces.

(* ================================================================================================
   The grader-level theorems below hold for every evaluation [ev] that (a) reports errors as errors and (b) checks
   the scope before evaluating (scope_first).  Two instances: the C03 evaluator model, and the evaluation the
   correspondence harness runs the model with (it stops after the scope check).
   ================================================================================================ *)
Theorem C09_evaluator_checks_scope_first : scope_first eval1 /\ scope_first scope_eval.
Proof. exact (conj eval1_scope_first scope_eval_scope_first). Qed.
Print Assumptions C09_evaluator_checks_scope_first.

(* ================================================================================================
   3. Formula / Numerical / Matrix graders: credit implies every restriction is met.
      Any configuration, permitted set, max_array_dim, author expressions, sibling formulas, any number of samples
      with any valuations, any comparison, any input string.
   ================================================================================================ *)
Theorem C09_credit_implies_permitted : forall ev, scope_first ev -> forall c P md params sf Es compare input e,
  formula_check ev c P md params sf Es compare input = GResult e -> e_ok e <> OkFalse ->
  (forall f, In f (used_functions input) -> In f P)
  /\ (forall r, In r (c_required c) -> In r (used_functions input))
  /\ (forall fs, In fs (c_forbidden c) -> substr (strip_spaces fs) (strip_spaces input) = false).
Proof. exact formula_credit_implies. Qed.
Print Assumptions C09_credit_implies_permitted.

(* used_functions is the set of function heads of the parse tree *)
Theorem C09_used_functions_are_the_calls : forall s t, py_strip s <> [] -> parse_formula (py_strip s) = PTree t ->
  forall f, In f (used_functions s) <-> In f (funcs_of t).
Proof. exact used_functions_tree. Qed.
Print Assumptions C09_used_functions_are_the_calls.

(* the property's first sentence: a formula that calls a function outside the permitted set, omits a required
   function or contains a forbidden string is never graded correct or partially correct ... *)
Theorem C09_restricted_never_credited : forall ev, scope_first ev -> forall c P md params sf Es compare input,
  restricted c P (SIStr input) (used_functions input) ->
  forall e, formula_check ev c P md params sf Es compare input = GResult e -> e_ok e = OkFalse.
Proof. exact formula_restricted_never_credited. Qed.
Print Assumptions C09_restricted_never_credited.

(* ... and when it would otherwise earn credit it is refused with InvalidInput carrying one of the three messages *)
Theorem C09_restricted_refused_with_invalid_input : forall ev c P md params sf Es compare input evals,
  restricted c P (SIStr input) (used_functions input) ->
  gen_evaluations ev (student_scope formula_blacklist c
                     (sample_names c (used_variables input ++ flat_map (fun p => used_variables (snd p)) sf
                                      ++ flat_map used_variables params) (map fst sf)) (map fst sf))
                  md params input Es = inr evals ->
  e_ok (compare evals) <> OkFalse ->
  exists v, formula_check ev c P md params sf Es compare input = GInvalid v
    /\ (v = VForbidden
        \/ (exists r, v = VRequired r /\ In r (c_required c) /\ ~ In r (used_functions input))
        \/ (exists fs, v = VNotPermitted fs /\ fs <> [] /\
                       forall f, In f fs <-> In f (used_functions input) /\ ~ In f P)).
Proof. exact formula_restricted_refused. Qed.
Print Assumptions C09_restricted_refused_with_invalid_input.

(* ================================================================================================
   4. undefined names.  allowed c siblings n: n is a declared variable, a constant or head_{integer} for a numbered
      variable, and neither an instructor variable nor a sibling key.  A formula that mentions any other name as a
      variable, calls an unknown function or uses an unknown suffix is rejected by the scope check FOR EVERY
      VALUATION (E, Es arbitrary) and every comparison -- so a cancelling term cannot matter.
   ================================================================================================ *)
Theorem C09_undefined_name_rejected : forall ev, scope_first ev -> forall c P md params sf E Es compare input t,
  py_strip input <> [] -> parse_formula (py_strip input) = PTree t ->
  mentions_undefined c (map fst sf) t -> env_for c E ->
  (forall e, formula_check ev c P md params sf (E :: Es) compare input <> GResult e)
  /\ (forall pv, eval_all ev E params = inr pv ->       (* the author's own expressions evaluate *)
        exists e, formula_check ev c P md params sf (E :: Es) compare input = GEvalError e /\ undef_class e
                  /\ ((exists n, In n (vars_of t) /\ ~ allowed c (map fst sf) n) -> e = EUndefVar)).
Proof. exact formula_undefined_rejected. Qed.
Print Assumptions C09_undefined_name_rejected.

(* instructor variables and sibling keys are never allowed to the student ... *)
Theorem C09_instructor_and_sibling_names_not_allowed : forall c sib n,
  In n (c_instructor c) \/ In n sib -> ~ allowed c sib n.
Proof. exact reserved_not_allowed. Qed.
Print Assumptions C09_instructor_and_sibling_names_not_allowed.

(* ... although they are sampled, i.e. present in the author's scope *)
Theorem C09_author_scope_contains_reserved_names : forall c used sib n,
  In n (c_variables c) \/ In n (c_constants c) \/ In n sib -> In n (sample_names c used sib).
Proof. exact author_scope_has. Qed.
Print Assumptions C09_author_scope_contains_reserved_names.

(* the student's scope is exactly the allowed names (for the names the student uses) *)
Theorem C09_student_scope_is_allowed_names : forall c used sib n, In n used ->
  (In n (student_scope formula_blacklist c (sample_names c used sib) sib) <-> allowed c sib n).
Proof. exact formula_scope_allowed. Qed.
Print Assumptions C09_student_scope_is_allowed_names.

(* names are found wherever they occur: operands, function arguments, array entries, exponents, parentheses *)
Theorem C09_names_found_anywhere : forall u t, subtree u t ->
  (forall x, In x (vars_of u) -> In x (vars_of t))
  /\ (forall x, In x (funcs_of u) -> In x (funcs_of t))
  /\ (forall x, In x (suffixes_of u) -> In x (suffixes_of t)).
Proof.
  exact (fun u t H => conj (fun x => subtree_vars u t x H)
                     (conj (fun x => subtree_funcs u t x H) (fun x => subtree_suffixes u t x H))).
Qed.
Print Assumptions C09_names_found_anywhere.

Theorem C09_variable_call_suffix_anywhere : forall t,
  (forall n, subtree (Var n) t -> In n (vars_of t))
  /\ (forall f args, subtree (Fun f args) t -> In f (funcs_of t))
  /\ (forall x u, subtree (Num x (Some u)) t -> In u (suffixes_of t)).
Proof.
  exact (fun t => conj (fun n => var_anywhere n t)
                 (conj (fun f args => call_anywhere f args t) (fun x u => suffix_anywhere x u t))).
Qed.
Print Assumptions C09_variable_call_suffix_anywhere.

(* numbered-variable instances: the language of the regular expression of numbered_vars_regexp *)
Theorem C09_numbered_instances : forall heads n,
  numbered_match heads n = true <->
  exists h num, In h heads /\ n = h ++ [95; 123] ++ num ++ [125] /\ num_ok num.      (* h_{num} *)
Proof. exact numbered_match_spec. Qed.
Print Assumptions C09_numbered_instances.

Theorem C09_numbered_regexp_of_source : Gen.Restrict.gen_numbered_regexp = numbered_regexp.
Proof. exact regexp_bridge. Qed.
Print Assumptions C09_numbered_regexp_of_source.

(* how the rejection is REPORTED (check_scope's messages, over explicit name lists): it is the scope check itself --
   the same formulas are rejected and always with the undefined-name class.  (Until /repo ff844fe the "did you mean"
   suggestion was appended before .format() and a suggested name with braces turned the error into the generic one;
   the witness is kept as the example below and in the harness corpus.) *)
Theorem C09_undefined_name_report : forall v f s t,
  scope_report v f s t = option_map GEvalError (check_scope (name_env v f s) t).
Proof. exact scope_report_spec. Qed.
Print Assumptions C09_undefined_name_report.

Example C09_ex_case_variant_with_braces_reported_as_undefined :
  (* scope {x, y, a_{1}}, input x*a_{1}+0*A_{1} *)
  report [n_x; [121]; n_a1] [120; 42; 97; 95; 123; 49; 125; 43; 48; 42; 65; 95; 123; 49; 125] = Some (GEvalError EUndefVar).
Proof. exact ex_report_brace_variant. Qed.
Print Assumptions C09_ex_case_variant_with_braces_reported_as_undefined.

(* ================================================================================================
   5. the sampling loops of FormulaGrader, SumGrader and IntegralGrader as they stand in the source: in every
      iteration k, for any number of samples, the author's expressions see every sampled name with the k-th sample's
      value, the student's input sees the same bindings minus var_blacklist
   ================================================================================================ *)
Theorem C09_sampling_loop_scopes : forall evs,
  In evs [Gen.Restrict.gen_formula_loop; Gen.Restrict.gen_sum_loop; Gen.Restrict.gen_integral_loop] ->
  forall sample bl n,
  let l := run_loop evs sample bl n 0 [] in
  length l = n /\
  forall k s, nth_error l k = Some s ->
    exists ba bs, seen_author s = [ba] /\ seen_student s = [bs]
      /\ (forall x j, In (x, j) ba <-> j = k /\ In x sample)
      /\ (forall x j, In (x, j) bs <-> j = k /\ In x sample /\ ~ In x bl).
Proof. exact gen_loop_scopes. Qed.
Print Assumptions C09_sampling_loop_scopes.

Theorem C09_var_blacklist_of_source : forall instr sample sib n,
  (In n (var_blacklist Gen.Restrict.gen_formula_blacklist instr sample sib) <-> (In n instr /\ In n sample) \/ In n sib)
  /\ (In n (var_blacklist Gen.Restrict.gen_sum_blacklist instr sample sib) <-> In n instr /\ In n sample)
  /\ (In n (var_blacklist Gen.Restrict.gen_integral_blacklist instr sample sib) <-> In n instr /\ In n sample).
Proof. exact gen_blacklists. Qed.
Print Assumptions C09_var_blacklist_of_source.

(* ================================================================================================
   6. the author's own answers are free: a formula that is not itself restricted is never refused by the
      restrictions, whatever the author's expressions and sibling formulas contain (they are evaluated in the full
      scope and never validated)
   ================================================================================================ *)
Theorem C09_author_answers_unrestricted : forall ev c P md params sf Es compare input,
  ~ restricted c P (SIStr input) (used_functions input) ->
  formula_check ev c P md params sf Es compare input =
  match gen_evaluations ev (student_scope formula_blacklist c
                           (sample_names c (used_variables input ++ flat_map (fun p => used_variables (snd p)) sf
                                            ++ flat_map used_variables params) (map fst sf)) (map fst sf))
                        md params input Es with
  | inl g => g
  | inr evals => GResult (compare evals)
  end.
Proof. exact formula_clean_not_refused. Qed.
Print Assumptions C09_author_answers_unrestricted.

(* ================================================================================================
   7. ordered lists whose answers reference sibling inputs
   ================================================================================================ *)
Theorem C09_ordered_list_credit_implies_permitted : forall ev, scope_first ev -> forall boxes es,
  ordered_list_check ev boxes = inr es ->
  Forall2 (fun b e => e_ok e <> OkFalse ->
             exists P, cfg_permitted (b_cfg b) = Some P
               /\ (forall f, In f (used_functions (b_input b)) -> In f P)
               /\ (forall r, In r (c_required (b_cfg b)) -> In r (used_functions (b_input b)))
               /\ (forall fs, In fs (c_forbidden (b_cfg b)) ->
                              substr (strip_spaces fs) (strip_spaces (b_input b)) = false)) boxes es.
Proof. exact ordered_list_credit_implies. Qed.
Print Assumptions C09_ordered_list_credit_implies_permitted.

(* FULL STATEMENT WANTED: a list in which some box mentions an undefined name (a sibling key, an instructor
   variable, ...) raises UndefinedVariable / UndefinedFunction.
   PROVED (partial): such a list is never graded -- lists of any length, the offending box anywhere.
   MISSING: the class of the error.  It is the undefined-name error when the offending box is reached
   (C09_undefined_name_rejected), but an EARLIER box whose answer references the offending box fails first, while
   sampling, with the author-facing ConfigError: C09_ordered_list_config_error_refuted. *)
Theorem C09_ordered_list_undefined_never_graded_partial : forall ev, scope_first ev -> forall boxes b t E Es,
  In b boxes ->
  py_strip (b_input b) <> [] -> parse_formula (py_strip (b_input b)) = PTree t ->
  mentions_undefined (b_cfg b) (map fst (sibling_formulas_of boxes b)) t ->
  b_envs b = E :: Es -> env_for (b_cfg b) E ->
  exists g, ordered_list_check ev boxes = inl g /\ is_result g = false.
Proof. exact ordered_list_undefined_never_graded. Qed.
Print Assumptions C09_ordered_list_undefined_never_graded_partial.

Example C09_ordered_list_config_error_refuted :
  (* answers ['sibling_2^2', 'x+1'], inputs ['(x+1)^2', 'x+1+0*sibling_1'] and ['(x+1)^2', 'x+1+0*qq'] *)
  ordered_list_check eval1 [mk_box n_sib1 [115; 105; 98; 108; 105; 110; 103; 95; 50; 94; 50] [40; 120; 43; 49; 41; 94; 50];
                      mk_box n_sib2 s_honest [120; 43; 49; 43; 48; 42; 115; 105; 98; 108; 105; 110; 103; 95; 49]]
  = inl GConfigError
  /\ ordered_list_check eval1 [mk_box n_sib1 [115; 105; 98; 108; 105; 110; 103; 95; 50; 94; 50] [40; 120; 43; 49; 41; 94; 50];
                         mk_box n_sib2 s_honest [120; 43; 49; 43; 48; 42; 113; 113]]
  = inl GConfigError.
Proof. exact ex_list_sibling_config_error. Qed.
Print Assumptions C09_ordered_list_config_error_refuted.

Example C09_ex_sibling_through_dependent_sampler_is_undefined :
  (* sample_from = {'s': DependentSampler(depends=['sibling_1'], ...)}, answers ['1','s'], inputs ['1','sibling_1+1'] *)
  map (fun b => map fst (sibling_formulas_of dep_boxes b)) dep_boxes = [[n_sib1]; [n_sib1]]
  /\ ordered_list_check eval1 dep_boxes = inl (GEvalError EUndefVar).
Proof. exact ex_list_sibling_through_sampler. Qed.
Print Assumptions C09_ex_sibling_through_dependent_sampler_is_undefined.

(* ================================================================================================
   8. SumGrader
   ================================================================================================ *)
Theorem C09_sum_credit_implies_permitted : forall ev, scope_first ev -> forall c P O en author student E Es compare e,
  sum_check ev c P O en author student (E :: Es) compare = GResult e -> e_ok e <> OkFalse ->
  let inp := structure_input en author student in
  (forall f, In f (sum_used inp) -> In f P)
  /\ (forall r, In r (c_required c) -> In r (sum_used inp))
  /\ (forall x fs, In x [s_lower inp; s_upper inp; s_summand inp; s_variable inp] -> In fs (c_forbidden c) ->
                   substr (strip_spaces fs) (strip_spaces x) = false).
Proof. exact sum_credit_implies. Qed.
Print Assumptions C09_sum_credit_implies_permitted.

Theorem C09_sum_limit_names_never_graded : forall ev, scope_first ev -> forall c P O en author student E Es compare t n,
  let inp := structure_input en author student in
  (py_strip (s_lower inp) <> [] /\ parse_formula (py_strip (s_lower inp)) = PTree t
   \/ py_strip (s_upper inp) <> [] /\ parse_formula (py_strip (s_upper inp)) = PTree t) ->
  In n (vars_of t) -> ~ allowed c [] n ->
  forall e, sum_check ev c P O en author student (E :: Es) compare <> GResult e.
Proof. exact sum_limit_undefined_never_graded. Qed.
Print Assumptions C09_sum_limit_names_never_graded.

(* the same for names in the summand, unconditionally: evaluate_sum checks the summand's names (with the summation
   variable bound) before any term is evaluated, so an empty index range does not matter (since /repo 390fac8) *)
Theorem C09_sum_summand_names_never_graded : forall ev, scope_first ev -> forall c P O en author student E Es compare t n,
  let inp := structure_input en author student in
  parse_formula (s_summand inp) = PTree t ->
  In n (vars_of t) -> n <> s_variable inp -> ~ allowed c [] n ->
  forall e, sum_check ev c P O en author student (E :: Es) compare <> GResult e.
Proof. exact sum_summand_undefined_never_graded. Qed.
Print Assumptions C09_sum_summand_names_never_graded.

(* a sampled instructor variable cannot be re-used as the student's summation variable (since /repo e54e9a1) *)
Theorem C09_sum_instructor_variable_not_a_summation_variable :
  forall ev, scope_first ev -> forall c P O en author student E Es compare,
  let inp := structure_input en author student in
  In (s_variable inp) (c_instructor c) ->
  In (s_variable inp) (c_variables c) \/ In (s_variable inp) (c_constants c) ->
  forall e, sum_check ev c P O en author student (E :: Es) compare <> GResult e.
Proof. exact sum_instructor_variable_not_a_dummy. Qed.
Print Assumptions C09_sum_instructor_variable_not_a_summation_variable.

Example C09_ex_sum_empty_range_rejected :
  (* author: odd n from -3 to 3 of n^3 (= 0); student limits 2..2 (no odd index): summand z (instructor variable),
     qq (undefined), 2k (undefined suffix) are rejected; summand 1 is graded; z as summation variable is refused *)
  sum_run all_entered sum_author (mkSum [50] [50] n_z n_n) = GEvalError EUndefVar
  /\ sum_run all_entered sum_author (mkSum [50] [50] [113; 113] n_n) = GEvalError EUndefVar
  /\ sum_run all_entered sum_author (mkSum [50] [50] [50; 107] n_n) = GEvalError EUndefSuffix
  /\ sum_run all_entered sum_author (mkSum [50] [50] [49] n_n) = credit
  /\ sum_run all_entered sum_author (mkSum [45; 51] [51] [122; 94; 51] n_z) = GSummationError.
Proof.
  exact (conj (proj1 ex_sum_empty_range) (conj (proj1 (proj2 ex_sum_empty_range))
        (conj (proj1 (proj2 (proj2 ex_sum_empty_range))) (conj (proj2 (proj2 (proj2 ex_sum_empty_range))) ex_sum_instructor_dummy)))).
Qed.
Print Assumptions C09_ex_sum_empty_range_rejected.

Example C09_sum_author_fields_refuted :
  (* the student enters only the summand n (correct); the author's own upper limit -- z (instructor variable),
     sqrt(16) (blacklisted), 10 (forbidden string) -- is validated as student input and the answer is refused *)
  sum_run only_summand (mkSum [49] n_z n_n n_n) (mkSum [] [] n_n []) = GEvalError EUndefVar
  /\ sum_run only_summand (mkSum [49] [115; 113; 114; 116; 40; 49; 54; 41] n_n n_n) (mkSum [] [] n_n [])
     = GInvalid (VNotPermitted [n_sqrt])
  /\ sum_run only_summand (mkSum [49] [49; 48] n_n n_n) (mkSum [] [] n_n []) = GInvalid VForbidden.
Proof. exact ex_sum_author_fields. Qed.
Print Assumptions C09_sum_author_fields_refuted.

(* ================================================================================================
   9. non-vacuity: the model run on concrete formulas (Proofs/RestrictExamples.v gives the texts)
   ================================================================================================ *)
Example C09_ex_honest_is_credited : run ex_cfg ex_P s_honest s_honest = credit.
Proof. exact ex_honest. Qed.
Print Assumptions C09_ex_honest_is_credited.

Example C09_ex_blacklisted_call_refused :        (* x+1+sin(0)*0   and   x + f(sin(0)) + 1 *)
  run ex_cfg ex_P s_honest [120; 43; 49; 43; 115; 105; 110; 40; 48; 41; 42; 48] = GInvalid (VNotPermitted [n_sin])
  /\ run ex_cfg ex_P s_honest [120; 32; 43; 32; 102; 40; 115; 105; 110; 40; 48; 41; 41; 32; 43; 32; 49]
     = GInvalid (VNotPermitted [n_sin]).
Proof. exact (conj ex_blacklisted_call ex_blacklisted_nested). Qed.
Print Assumptions C09_ex_blacklisted_call_refused.

Example C09_ex_instructor_variable_cancelling :   (* x+1+z-z , (x+1)*z^0 , x+1+0*f(z) *)
  run ex_cfg ex_P s_honest [120; 43; 49; 43; 122; 45; 122] = GEvalError EUndefVar
  /\ run ex_cfg ex_P s_honest [40; 120; 43; 49; 41; 42; 122; 94; 48] = GEvalError EUndefVar
  /\ run ex_cfg ex_P s_honest [120; 43; 49; 43; 48; 42; 102; 40; 122; 41] = GEvalError EUndefVar.
Proof. exact ex_instructor_var_cancelling. Qed.
Print Assumptions C09_ex_instructor_variable_cancelling.

Example C09_ex_author_may_use_everything :        (* answer x+1+z-z+sin(0), student x+1 *)
  run ex_cfg ex_P [120; 43; 49; 43; 122; 45; 122; 43; 115; 105; 110; 40; 48; 41] s_honest = credit.
Proof. exact ex_author_free. Qed.
Print Assumptions C09_ex_author_may_use_everything.

Example C09_ex_forbidden_required_whitelist :
  run ex_cfg ex_P s_honest [49; 32; 43; 120] = GInvalid VForbidden                      (* '1 +x' vs forbidden '1 + x' *)
  /\ run ex_cfg_required (set_union [n_f] [n_sin; n_cos; n_sqrt]) s_honest s_honest = GInvalid (VRequired n_cos)
  /\ cfg_permitted ex_cfg_whitelist = Some [n_f; n_cos].
Proof. exact (conj ex_forbidden_string (conj (proj1 ex_required_function) (proj1 ex_whitelist))). Qed.
Print Assumptions C09_ex_forbidden_required_whitelist.

Example C09_ex_sibling_in_own_box_is_undefined :  (* answers ['sibling_2^2','x+1'], inputs ['(x+1)^2+0*sibling_2','x+1'] *)
  ordered_list_check eval1 [mk_box n_sib1 [115; 105; 98; 108; 105; 110; 103; 95; 50; 94; 50]
                                   [40; 120; 43; 49; 41; 94; 50; 43; 48; 42; 115; 105; 98; 108; 105; 110; 103; 95; 50];
                      mk_box n_sib2 s_honest s_honest] = inl (GEvalError EUndefVar).
Proof. exact ex_list_sibling_in_own_box. Qed.
Print Assumptions C09_ex_sibling_in_own_box_is_undefined.
