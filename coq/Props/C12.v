(* Props/C12.v -- every random draw satisfies all constraints its sampling set declares.
   Only statements, `exact lemma`, Print Assumptions.

   Reading guide.  The models (Model/Sampler.v, Model/SamplerMat.v) take every PRNG draw and every numerical
   library answer as an argument; the theorems quantify over ALL such answers that satisfy the stated contracts
   (0 <= u < 1; low <= randint low high < high; |sin| <= 1; |exp(it)| = 1; det / n-th root / eigenvalue / norm
   answers are what their names say).  Statements marked (Gen) are about definitions regenerated from
   mitxgraders/sampling.py / matrixsampling.py on every run (Gen/Sampler.v).  Arithmetic is exact (Q, Gaussian
   rationals); "to numerical precision" of the property shows up only in the zero-determinant statement, where
   the code itself accepts |det| < 5e-13.

   History: before /repo commit 857063e the scaling of RandomFunction divided by num_terms only and the declared
   bound failed for input_dim >= 2 (two refuted theorems stood here); the model follows the repaired code and
   C12_random_function_sound is the full bound; the former witnesses are kept as passing examples. *)
From Coq Require Import ZArith QArith Qabs List Bool Arith Reals Qreals.
From Verif.Lib Require Import QRound PyNum.
From Verif.Model Require Import Sampler SamplerMat.
From Verif.Gen Require Sampler.
From Verif.Bridge Require Import Sampler.
From Verif.Proofs Require Import Sampler SamplerMat SamplerDet SamplerSq SamplerGen SamplerReal.
Import ListNotations.
Open Scope Q_scope.

(* ---------------------------------------------------------------------------------------------- *)
(* bridges: the regenerated definitions are the model's                                           *)
(* ---------------------------------------------------------------------------------------------- *)
Theorem C12_bridge_real_interval : forall a b u, gen_real_interval a b u = real_interval a b u.
Proof. exact gen_real_interval_eq. Qed.
Print Assumptions C12_bridge_real_interval.

Theorem C12_bridge_integer_range : forall r a b, gen_integer_range r a b = integer_range r a b.
Proof. exact gen_integer_range_eq. Qed.
Print Assumptions C12_bridge_integer_range.

Theorem C12_bridge_sqm_init : forall sym traceless det cplx dim,
  Gen.Sampler.gen_sqm_init sym traceless det cplx dim = sqm_init sym traceless det cplx dim.
Proof. exact sqm_init_bridge. Qed.
Print Assumptions C12_bridge_sqm_init.

Theorem C12_bridge_sq_apply_symmetry : forall sym traceless dim array,
  Gen.Sampler.gen_sq_apply_symmetry sym traceless dim array = sq_apply_symmetry sym traceless dim array.
Proof. exact sq_apply_symmetry_bridge. Qed.
Print Assumptions C12_bridge_sq_apply_symmetry.

Theorem C12_bridge_tri_apply : forall tri array, Gen.Sampler.gen_tri_apply tri array = tri_apply tri array.
Proof. exact tri_apply_bridge. Qed.
Print Assumptions C12_bridge_tri_apply.

Theorem C12_bridge_random_function_formulas : forall u,
  Gen.Sampler.gen_rf_amp u = rf_amp u /\ Gen.Sampler.gen_rf_phase_arg u = rf_phase_arg u /\
  Gen.Sampler.gen_rf_freq u = rf_freq u /\ Gen.Sampler.gen_rf_shift u = rf_shift u.
Proof. exact (fun u => conj (rf_amp_bridge u) (conj (rf_phase_arg_bridge u) (conj (rf_freq_bridge u) (rf_shift_bridge u)))). Qed.
Print Assumptions C12_bridge_random_function_formulas.

Theorem C12_bridge_random_function_scaling : forall z amplitude num_terms input_dim,
  ceq (Gen.Sampler.gen_rf_scale (fst z) amplitude num_terms input_dim,
       Gen.Sampler.gen_rf_scale (snd z) amplitude num_terms input_dim)
      (cscale (amplitude / (num_terms * input_dim)) z).
Proof. exact rf_scale_bridge. Qed.
Print Assumptions C12_bridge_random_function_scaling.

(* ---------------------------------------------------------------------------------------------- *)
(* real and integer intervals (Gen)                                                               *)
(* ---------------------------------------------------------------------------------------------- *)
(* any start/stop (reversed, negative, degenerate), any PRNG value in [0,1): the sample lies in
   [min, max], and strictly below max unless the interval is degenerate *)
Theorem C12_real_interval_in_range : forall a b u, 0 <= u -> u < 1 ->
  Qmin a b <= gen_real_interval a b u /\ gen_real_interval a b u <= Qmax a b /\
  (~ a == b -> gen_real_interval a b u < Qmax a b).
Proof. exact c12_real_interval_in_range. Qed.
Print Assumptions C12_real_interval_in_range.

Theorem C12_real_interval_order_irrelevant : forall a b u, gen_real_interval a b u == gen_real_interval b a u.
Proof. exact c12_real_interval_order_irrelevant. Qed.
Print Assumptions C12_real_interval_order_irrelevant.

Theorem C12_real_interval_degenerate : forall a u, gen_real_interval a a u == a.
Proof. exact c12_real_interval_degenerate. Qed.
Print Assumptions C12_real_interval_degenerate.

Theorem C12_real_interval_onto : forall a b v, Qmin a b <= v -> v < Qmax a b ->
  exists u, 0 <= u /\ u < 1 /\ gen_real_interval a b u == v.
Proof. exact c12_real_interval_onto. Qed.
Print Assumptions C12_real_interval_onto.

Theorem C12_integer_range_in_range : forall randint a b, randint_ok randint ->
  (Z.min a b <= gen_integer_range randint a b <= Z.max a b)%Z.
Proof. exact c12_integer_range_in_range. Qed.
Print Assumptions C12_integer_range_in_range.

(* both endpoints (indeed every integer in between) are attainable *)
Theorem C12_integer_range_endpoints_attainable : forall a b v, (Z.min a b <= v <= Z.max a b)%Z ->
  exists randint, randint_ok randint /\ gen_integer_range randint a b = v.
Proof. exact c12_integer_range_attainable. Qed.
Print Assumptions C12_integer_range_endpoints_attainable.

Theorem C12_integer_range_order_irrelevant : forall randint a b,
  gen_integer_range randint a b = gen_integer_range randint b a.
Proof. exact c12_integer_range_order_irrelevant. Qed.
Print Assumptions C12_integer_range_order_irrelevant.

(* ---------------------------------------------------------------------------------------------- *)
(* complex rectangles and sectors                                                                 *)
(* ---------------------------------------------------------------------------------------------- *)
Theorem C12_complex_rectangle_in_range : forall re0 re1 im0 im1 u1 u2, 0 <= u1 < 1 -> 0 <= u2 < 1 ->
  let z := complex_rectangle re0 re1 im0 im1 u1 u2 in
  Qmin re0 re1 <= cre z <= Qmax re0 re1 /\ Qmin im0 im1 <= cim z <= Qmax im0 im1.
Proof. exact complex_rectangle_range. Qed.
Print Assumptions C12_complex_rectangle_in_range.

(* with np.exp(1j*t) as an oracle of modulus 1 *)
Theorem C12_complex_sector_in_sector : forall expi m0 m1 a0 a1 u1 u2, 0 <= u1 < 1 -> 0 <= u2 < 1 ->
  (forall t, cnormsq (expi t) == 1) ->
  exists m theta, Qmin m0 m1 <= m <= Qmax m0 m1 /\ Qmin a0 a1 <= theta <= Qmax a0 a1 /\
    complex_sector expi m0 m1 a0 a1 u1 u2 = cscale m (expi theta) /\
    cnormsq (complex_sector expi m0 m1 a0 a1 u1 u2) == m * m.
Proof. exact complex_sector_spec. Qed.
Print Assumptions C12_complex_sector_in_sector.

(* with the genuine cos / sin over the reals: modulus and argument of m*exp(i theta) *)
Theorem C12_complex_sector_real : forall m0 m1 a0 a1 u1 u2 : Q,
  0 <= u1 < 1 -> 0 <= u2 < 1 ->
  let m := sector_modulus m0 m1 u1 in
  let theta := sector_argument a0 a1 u2 in
  let z := sectorR m theta in
  (Qmin m0 m1 <= m <= Qmax m0 m1) /\ (Qmin a0 a1 <= theta <= Qmax a0 a1) /\
  sqrt (Rsqr (fst z) + Rsqr (snd z)) = Rabs (Q2R m) /\
  (0 <= Qmin m0 m1 ->
   (Q2R (Qmin m0 m1) <= sqrt (Rsqr (fst z) + Rsqr (snd z)) <= Q2R (Qmax m0 m1))%R).
Proof. exact sector_real_sound. Qed.
Print Assumptions C12_complex_sector_real.

(* ---------------------------------------------------------------------------------------------- *)
(* discrete sets and function lists                                                               *)
(* ---------------------------------------------------------------------------------------------- *)
Theorem C12_discrete_member : forall (A : Type) (members : list A) idx d,
  (idx < length members)%nat -> In (choice members idx d) members.
Proof. exact choice_member. Qed.
Print Assumptions C12_discrete_member.

Theorem C12_discrete_single : forall (A : Type) (v : A) idx d, (idx < 1)%nat -> choice [v] idx d = v.
Proof. exact choice_single. Qed.
Print Assumptions C12_discrete_single.

Theorem C12_discrete_every_member_attainable : forall (A : Type) (members : list A) v d, In v members ->
  exists idx, (idx < length members)%nat /\ choice members idx d = v.
Proof. exact choice_onto. Qed.
Print Assumptions C12_discrete_every_member_attainable.

(* ---------------------------------------------------------------------------------------------- *)
(* random functions                                                                               *)
(* ---------------------------------------------------------------------------------------------- *)
(* drawn coefficients (Gen): amplitudes in [1/2,1), frequencies in [-pi,pi), phases in [0,2pi) *)
Theorem C12_random_function_coefficients : forall u, 0 <= u < 1 ->
  (1 # 2 <= Gen.Sampler.gen_rf_amp u /\ Gen.Sampler.gen_rf_amp u < 1) /\
  (- pi_f <= Gen.Sampler.gen_rf_freq u /\ Gen.Sampler.gen_rf_freq u < pi_f) /\
  (0 <= Gen.Sampler.gen_rf_shift u /\ Gen.Sampler.gen_rf_shift u < 2 * pi_f).
Proof. exact c12_rf_coefficient_ranges. Qed.
Print Assumptions C12_random_function_coefficients.

(* declared arity (ConfigError otherwise), declared output dimension, realness, and values within
   center +/- amplitude, for real and complex functions, every input_dim / output_dim / num_terms, any drawn
   coefficients, any evaluation point *)
Theorem C12_random_function_sound :
  forall expi sinv cplx (input_dim output_dim num_terms : nat) center amplitude raw xs,
  expi_ok expi -> sin_ok sinv -> 0 <= amplitude -> (0 < num_terms)%nat -> (0 < input_dim)%nat ->
  rf_shape_ok output_dim num_terms input_dim raw = true -> raw3_ok raw ->
  let f := rf_draw expi cplx raw in
  (rf_eval sinv input_dim center amplitude (Z.of_nat num_terms) f xs = None <-> length xs <> input_dim) /\
  forall ys, rf_eval sinv input_dim center amplitude (Z.of_nat num_terms) f xs = Some ys ->
    length ys = output_dim /\
    Forall (fun y => cnormsq (csub y center) <= amplitude * amplitude) ys /\
    (cplx = false -> creal center -> Forall creal ys).
Proof. exact rf_sample_sound. Qed.
Print Assumptions C12_random_function_sound.

(* the same bound with the genuine sine over the reals (real-valued functions, rational points) *)
Theorem C12_random_function_real_sine : forall expi (input_dim output_dim num_terms : nat) center amplitude raw xs,
  0 <= amplitude -> (0 < num_terms)%nat -> (0 < input_dim)%nat ->
  rf_shape_ok output_dim num_terms input_dim raw = true -> raw3_ok raw ->
  Forall (fun rows => (Q2R center - Q2R amplitude <= rfR_component input_dim center amplitude num_terms rows xs
                       <= Q2R center + Q2R amplitude)%R) (rf_draw expi false raw).
Proof. exact rf_real_sound. Qed.
Print Assumptions C12_random_function_real_sine.

(* regression: the draws that violated the bound before the repair *)
Example C12_ex_random_function_former_witness :
  sin_ok rf_witness_sin /\ raw3_ok rf_witness_raw /\ rf_shape_ok 1 1 2 rf_witness_raw = true /\
  match rf_eval rf_witness_sin 2 c0 1 1 (rf_draw (fun _ => c1) false rf_witness_raw) [3; -7] with
  | Some [y] => ceq y (3 # 4, 0)
  | _ => False
  end.
Proof. exact rf_former_witness. Qed.
Print Assumptions C12_ex_random_function_former_witness.

Example C12_ex_random_function_former_witness_real_sine : forall xs,
  Forall (fun rows => (-1 <= rfR_component 3 0 1 1 rows xs <= 1)%R) (rf_draw (fun _ => c1) false rfR_witness_raw).
Proof. exact rf_real_former_witness. Qed.
Print Assumptions C12_ex_random_function_former_witness_real_sine.

(* ---------------------------------------------------------------------------------------------- *)
(* vectors, matrices, tensors (flattened n x m), triangular options, identity multiples            *)
(* ---------------------------------------------------------------------------------------------- *)
Theorem C12_array_sample_sound : forall tri cplx n m lo hi a,
  0 <= a_u a < 1 ->
  (let X := materialize n m (tri_apply tri (raw_array cplx (a_re a) (a_im a))) in
   a_norm a * a_norm a == mnormsq n m X /\ ~ a_norm a == 0) ->
  let M := array_attempt tri cplx n m lo hi a in
  tri_spec tri n m M /\
  (exists d, Qmin lo hi <= d <= Qmax lo hi /\ mnormsq n m M == d * d) /\
  (cplx = false -> is_real n m M).
Proof. exact array_attempt_sound. Qed.
Print Assumptions C12_array_sample_sound.

Theorem C12_triangular_step : forall tri n m array, tri_spec tri n m (Gen.Sampler.gen_tri_apply tri array).
Proof. exact c12_tri_apply. Qed.
Print Assumptions C12_triangular_step.

Theorem C12_identity_multiple : forall s i j,
  ceq (identity_multiple s i j) (if Nat.eqb i j then s else c0).
Proof. exact identity_multiple_spec. Qed.
Print Assumptions C12_identity_multiple.

(* ---------------------------------------------------------------------------------------------- *)
(* square matrices                                                                                *)
(* ---------------------------------------------------------------------------------------------- *)
(* the symmetry / traceless step (Gen), any dimension, any input array *)
Theorem C12_square_apply_symmetry : forall sym traceless dim array, (0 < dim)%nat ->
  let W := Gen.Sampler.gen_sq_apply_symmetry sym traceless dim array in
  has_symmetry sym dim W /\ (traceless = true -> ceq (mtrace dim W) c0) /\
  (is_real dim dim array -> is_real dim dim W).
Proof. exact c12_sq_apply_symmetry. Qed.
Print Assumptions C12_square_apply_symmetry.

(* the constructor (Gen) *)
Theorem C12_square_constructor : forall sym traceless det cplx0 dim cplx,
  Gen.Sampler.gen_sqm_init sym traceless det cplx0 dim = Some cplx ->
  (herm_like sym = true -> cplx = true) /\ (herm_like sym = false -> cplx = cplx0) /\
  (traceless = true -> det <> DZero).
Proof. exact c12_sqm_init_facts. Qed.
Print Assumptions C12_square_constructor.

(* every dimension, every option combination the constructor accepts, any number of retries, all oracle
   answers within their contracts: the pipeline never reaches its "cannot happen" branches, makes at most 100
   passes, and the returned matrix has the requested symmetry, trace, determinant, norm and realness *)
Theorem C12_square_matrices_sound : forall sym traceless det cplx0 dim lo hi atts r,
  (0 < dim)%nat ->
  square_matrices sym traceless det cplx0 dim lo hi atts = Some r ->
  exists cplx, sqm_init sym traceless det cplx0 (Z.of_nat dim) = Some cplx /\
    r <> GUnknown /\
    forall M passes traces, r = GDone M passes traces ->
      (passes <= 100)%nat /\
      ((forall a, In a atts -> oracle_ok sym traceless det cplx dim a) ->
       sq_spec sym traceless det cplx dim lo hi M).
Proof. exact square_matrices_sound. Qed.
Print Assumptions C12_square_matrices_sound.

(* zero determinant is exact whenever the code's early return (|det| < 5e-13 already) was not taken *)
Theorem C12_square_det_zero_exact : forall sym traceless cplx dim lo hi a M tr,
  (herm_like sym = true -> cplx = true) ->
  (sym = SAnti -> Nat.odd dim = true) ->
  oracle_ok sym traceless DZero cplx dim a ->
  cabs_lt (a_det a) tiny = false ->
  sq_attempt sym traceless DZero cplx dim lo hi a = Done M tr ->
  ceq (mdet dim M) c0.
Proof. exact sq_attempt_det_zero_exact. Qed.
Print Assumptions C12_square_det_zero_exact.

(* the linear algebra behind the branches of make_det_one / make_det_zero, for every dimension: the Laplace
   determinant is invariant under transposition, hence determinants of hermitian matrices are real, of
   antihermitian matrices of even dimension real, and antisymmetric matrices of odd dimension are singular *)
Theorem C12_determinant_transpose : forall n A, ceq (mdet n (mT A)) (mdet n A).
Proof. exact mdet_transpose. Qed.
Print Assumptions C12_determinant_transpose.

Theorem C12_hermitian_determinant_real : forall n A, has_symmetry SHerm n A -> creal (mdet n A).
Proof. exact herm_det_real. Qed.
Print Assumptions C12_hermitian_determinant_real.

Theorem C12_antihermitian_even_determinant_real : forall n A,
  has_symmetry SAHerm n A -> Nat.even n = true -> creal (mdet n A).
Proof. exact antiherm_even_det_real. Qed.
Print Assumptions C12_antihermitian_even_determinant_real.

Theorem C12_antisymmetric_odd_determinant_zero : forall n A,
  has_symmetry SAnti n A -> Nat.odd n = true -> ceq (mdet n A) c0.
Proof. exact antisym_odd_det_zero. Qed.
Print Assumptions C12_antisymmetric_odd_determinant_zero.

(* the determinant the case checker evaluates (partial results in lowest terms) is the determinant *)
Theorem C12_reduced_determinant : forall n A, ceq (mdetr n A) (mdet n A).
Proof. exact mdetr_eq. Qed.
Print Assumptions C12_reduced_determinant.

(* ... and so is the denominator-free evaluation over Gaussian integers *)
Theorem C12_fast_determinant : forall n W d, fast_det n W = Some d -> ceq d (mdet n W).
Proof. exact fast_det_correct. Qed.
Print Assumptions C12_fast_determinant.

(* ---------------------------------------------------------------------------------------------- *)
(* non-vacuity                                                                                    *)
(* ---------------------------------------------------------------------------------------------- *)
Example C12_ex_accepted_count :
  length sq_grid = 288%nat /\ length (filter sq_accepts sq_grid) = 214%nat.
Proof. exact c12_ex_accepted_count. Qed.
Print Assumptions C12_ex_accepted_count.

Example C12_ex_square_det_one :
  oracle_ok SSym false DOne false 2 ex_one /\
  match square_matrices SSym false DOne false 2 1 5 [ex_one] with
  | Some (GDone M passes traces) =>
      to_rows 2 2 M = q_of_rows [[1; 0]; [0; 1]] /\ passes = 1%nat /\ traces = [[ODet; ORoot]]
  | _ => False
  end.
Proof. exact c12_ex_square_det_one. Qed.
Print Assumptions C12_ex_square_det_one.

Example C12_ex_square_det_zero :
  oracle_ok SDiag false DZero false 2 ex_zero /\
  match square_matrices SDiag false DZero false 2 1 5 [ex_zero] with
  | Some (GDone M passes traces) =>
      to_rows 2 2 M = q_of_rows [[0; 0]; [0; -2]] /\ traces = [[ODet; OIndex; ONorm]]
  | _ => False
  end.
Proof. exact c12_ex_square_det_zero. Qed.
Print Assumptions C12_ex_square_det_zero.

Example C12_ex_square_retry :
  match square_matrices SSym false DOne false 2 1 5 [ex_retry; ex_one] with
  | Some (GDone M passes traces) => passes = 2%nat /\ traces = [[ODet]; [ODet; ORoot]]
  | _ => False
  end.
Proof. exact c12_ex_square_retry. Qed.
Print Assumptions C12_ex_square_retry.

Example C12_ex_rejected : square_matrices SAnti false DOne false 3 1 5 [] = None
                          /\ square_matrices SNone true DZero false 2 1 5 [] = None.
Proof. exact c12_ex_rejected. Qed.
Print Assumptions C12_ex_rejected.
