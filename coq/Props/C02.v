(* Props/C02.v -- Grading failures surface only as library errors with student-safe messages.
   Only statements, `exact lemma`, Print Assumptions, and Examples.

   The statements are about the interpreters of Model/CallGuard.v applied to the tables REGENERATED from /repo on
   every run (Gen.CallGuard: exception class headers, the try/except of AbstractGrader.__call__, ensure_text_inputs
   and its wrappers, the except clauses of MathExpression.eval / eval_function / MathParser.parse, numpy's error
   handler); Bridge/CallGuard.v proves those tables equal to the model's constants.

   Reading guide (Proofs/CallGuard.v):
     exc  = (names along type(e).__mro__, str(e));  isinst e C = C occurs in the mro
     is_exception e   : isinstance(e, Exception)          lib_error e     : isinstance(e, MITxError)
     student_facing e : isinstance(e, StudentFacingError)  config_error e  : isinstance(e, ConfigError)
     in_family e      : student_facing e \/ config_error e
     pyval            : PStr (text) | PList (items) | POther, each carrying the text of type(x)
     shape_ok m v     : v is text (item graders), a list of text (ListGrader), either (user-defined graders)

   FULL STATEMENT OF THE PROPERTY (kept here verbatim in logical form):
     for every grader g with debug off, every student input x:  g(expect, x) TERMINATES and
       either returns a result or raises e with in_family e;
       if check raised a library error e0, then e has the class of e0 and str(e) = str(e0) with "\n" -> "<br/>";
       if check raised anything else, e = StudentFacingError("Invalid Input: Could not check input(s) '...'") naming x;
       if x is not text of the required shape, e = ConfigError(..) and x is not graded.
   What is proved: all of it for the model of the call with `check` an arbitrary TOTAL function (every exception a
   Python Exception); the theorem carrying the outcome part is therefore named ..._partial.  Missing: termination of
   the interpreter/numpy/pyparsing inside check (the harness puts a wall-clock alarm on every call instead), and
   which raw exception a numeric leaf raises (observed by the harness, quantified over here). *)
From Coq Require Import ZArith QArith List Bool String.
From Verif.Lib Require Import CallGuardBase.
From Verif.Model Require Import Result Credit CallGuard.
From Verif.Gen Require CallGuard.
From Verif.Bridge Require Import CallGuard.
From Verif.Proofs Require Import CallGuard.
Import ListNotations.
Open Scope string_scope.
Open Scope list_scope.

Module G := Verif.Gen.CallGuard.

(* ---- the exception hierarchy (mitxgraders/exceptions.py, helpers/calc/exceptions.py, integralgrader.py) ---- *)
Theorem C02_exception_tree_rooted : forall c b, In (c, b) G.exc_table ->
  In "MITxError" (mro_of G.exc_table c) /\ In "Exception" (mro_of G.exc_table c).
Proof. exact exc_tree_rooted. Qed.
Print Assumptions C02_exception_tree_rooted.

Theorem C02_exception_tree_student_facing_or_config : forall c b, In (c, b) G.exc_table ->
  c = "MITxError" \/ In "StudentFacingError" (mro_of G.exc_table c) \/ In "ConfigError" (mro_of G.exc_table c).
Proof. exact exc_tree_family. Qed.
Print Assumptions C02_exception_tree_student_facing_or_config.

(* ---- input that is not text of the required shape is refused with a configuration error ---- *)
Theorem C02_text_input_accepted_unchanged : forall m v, shape_ok m v = true ->
  ensure_mode G.exc_table G.ensure m v = Ret v.
Proof. exact ensure_accepts. Qed.
Print Assumptions C02_text_input_accepted_unchanged.

Theorem C02_non_text_input_refused_with_config_error : forall m v, shape_ok m v = false ->
  exists msg, ensure_mode G.exc_table G.ensure m v = Raise (config_exc msg).
Proof. exact ensure_refuses. Qed.
Print Assumptions C02_non_text_input_refused_with_config_error.

Theorem C02_list_refusal_names_first_non_text_item : forall t items, all_str items = false ->
  exists k, first_bad items 0 = Some k
    /\ (k < List.length items)%nat
    /\ is_str (nth k items (POther [])) = false
    /\ (forall j, (j < k)%nat -> is_str (nth j items (POther [])) = true)
    /\ ensure_mode G.exc_table G.ensure ModeList (PList t items)
       = Raise (config_exc (s2z "Expected a list of text strings for student_input, but item at position "
                            ++ dec k ++ s2z " has " ++ ty_of (nth k items (POther [])))).
Proof. exact ensure_list_position. Qed.
Print Assumptions C02_list_refusal_names_first_non_text_item.

(* refused means not graded: the outcome does not depend on check (nor on the attempt number) at all *)
Theorem C02_wrong_shape_refused_without_grading : forall cfg check1 check2 att1 att2 inp,
  shape_ok (cc_mode cfg) inp = false ->
  call G.exc_table G.guard G.ensure cfg check1 att1 inp = call G.exc_table G.guard G.ensure cfg check2 att2 inp
  /\ exists msg, call G.exc_table G.guard G.ensure cfg check1 att1 inp = Raise (config_exc msg).
Proof. exact call_refuses_ungraded. Qed.
Print Assumptions C02_wrong_shape_refused_without_grading.

(* ---- MAIN: only library errors escape (termination = totality of the model, see header) ---- *)
Theorem C02_grader_call_returns_or_raises_library_error_partial : forall cfg check att inp,
  cc_debug cfg = false ->
  (forall v e, check v = Raise e -> is_exception e) ->
  match call G.exc_table G.guard G.ensure cfg check att inp with
  | Ret _ => True
  | Raise e => lib_error e /\ is_exception e
  end.
Proof. exact call_family. Qed.
Print Assumptions C02_grader_call_returns_or_raises_library_error_partial.

Theorem C02_escaping_error_is_student_facing_or_config : forall cfg check att inp,
  cc_debug cfg = false ->
  (forall v e, check v = Raise e -> is_exception e /\ (lib_error e -> in_family e)) ->
  match call G.exc_table G.guard G.ensure cfg check att inp with
  | Ret _ => True
  | Raise e => in_family e
  end.
Proof. exact call_family_strict. Qed.
Print Assumptions C02_escaping_error_is_student_facing_or_config.

(* ---- anticipated problems keep class and message, line breaks rendered as <br/> ---- *)
Theorem C02_anticipated_error_keeps_class_and_message : forall cfg check att inp e,
  cc_debug cfg = false -> shape_ok (cc_mode cfg) inp = true ->
  check inp = Raise e -> is_exception e -> lib_error e ->
  call G.exc_table G.guard G.ensure cfg check att inp = Raise (mkExc (x_mro e) (replace1 NL BR (x_msg e))).
Proof. exact call_anticipated. Qed.
Print Assumptions C02_anticipated_error_keeps_class_and_message.

Theorem C02_line_breaks_rendered : forall s,
  replace1 NL BR s = flat_map (fun c => if Z.eqb c NL then BR else [c]) s /\ ~ In NL (replace1 NL BR s).
Proof. exact br_rendering. Qed.
Print Assumptions C02_line_breaks_rendered.

(* ---- unanticipated failures become the generic student-facing error naming the submission ---- *)
Theorem C02_unanticipated_failure_becomes_generic_error : forall cfg check att inp e,
  cc_debug cfg = false -> shape_ok (cc_mode cfg) inp = true ->
  check inp = Raise e -> is_exception e -> ~ lib_error e ->
  call G.exc_table G.guard G.ensure cfg check att inp
  = Raise (mkExc (mro_of G.exc_table "StudentFacingError") (generic_msg G.guard inp)).
Proof. exact call_unanticipated. Qed.
Print Assumptions C02_unanticipated_failure_becomes_generic_error.

Theorem C02_generic_message_single : forall t s,
  generic_msg G.guard (PStr t s) = s2z "Invalid Input: Could not check input '" ++ s ++ s2z "'".
Proof. exact generic_single. Qed.
Print Assumptions C02_generic_message_single.

Theorem C02_generic_message_names_every_input : forall t items s, In s (map text_of items) ->
  infix s (generic_msg G.guard (PList t items))
  /\ generic_msg G.guard (PList t items)
     = s2z "Invalid Input: Could not check inputs '" ++ join (s2z "', '") (map text_of items) ++ s2z "'".
Proof. exact generic_list_full. Qed.
Print Assumptions C02_generic_message_names_every_input.

(* a check that returns is never turned into an error by the guard; only a missing attempt number can still fail *)
Theorem C02_successful_check_fails_only_for_missing_attempt : forall cfg check att inp r,
  shape_ok (cc_mode cfg) inp = true -> check inp = Ret r ->
  call G.exc_table G.guard G.ensure cfg check att inp = post cfg att r
  /\ (forall e, post cfg att r = Raise e -> e = config_exc ATTEMPT_MSG)
  /\ (forall n, att = Some n -> exists r', post cfg att r = Ret r')
  /\ (cc_credit cfg = None -> exists r', post cfg att r = Ret r').
Proof. exact call_check_returned_full. Qed.
Print Assumptions C02_successful_check_fails_only_for_missing_attempt.

(* ---- numpy floating point errors are Python exceptions process-wide; eval recasts them ---- *)
Theorem C02_numpy_errors_become_python_exceptions : forall err,
  is_exception (np_raise G.np_err_rules G.np_err_default err)
  /\ arith_or_value (np_raise G.np_err_rules G.np_err_default err).
Proof. exact np_exc_classes. Qed.
Print Assumptions C02_numpy_errors_become_python_exceptions.

Theorem C02_numpy_divide_by_zero_surfaces_as_calc_error : forall err env,
  containsb (s2z "divide by zero") err = true ->
  apply_handlers G.exc_table G.eval_handlers env (np_raise G.np_err_rules G.np_err_default err)
  = lib_exc "CalcZeroDivisionError" DIV_MSG.
Proof. exact np_divide_by_zero_surfaces. Qed.
Print Assumptions C02_numpy_divide_by_zero_surfaces_as_calc_error.

Theorem C02_numpy_overflow_surfaces_as_calc_error : forall err env,
  containsb (s2z "divide by zero") err = false -> containsb (s2z "overflow") err = true ->
  apply_handlers G.exc_table G.eval_handlers env (np_raise G.np_err_rules G.np_err_default err)
  = lib_exc "CalcOverflowError" OVF_MSG.
Proof. exact np_overflow_surfaces. Qed.
Print Assumptions C02_numpy_overflow_surfaces_as_calc_error.

(* ---- eval_function: arbitrary function failures are recast; MathExpression.eval: every tree ---- *)
Theorem C02_function_failure_recast_student_facing : forall name e, is_exception e ->
  let e' := apply_handlers G.exc_table G.evalfn_handlers (fun _ => name) e in
  student_facing e'
  /\ ((student_facing e /\ e' = e)
      \/ (~ student_facing e /\ isinst e "ZeroDivisionError" = true /\ e' = lib_exc "CalcZeroDivisionError" (fn_domain_msg name))
      \/ (~ student_facing e /\ isinst e "ZeroDivisionError" = false /\ isinst e "OverflowError" = true
          /\ e' = lib_exc "CalcOverflowError" (fn_overflow_msg name))
      \/ (~ student_facing e /\ isinst e "ZeroDivisionError" = false /\ isinst e "OverflowError" = false
          /\ e' = lib_exc "FunctionEvalError" (fn_domain_msg name))).
Proof. exact evalfn_full. Qed.
Print Assumptions C02_function_failure_recast_student_facing.

Theorem C02_eval_errors_student_facing : forall (val : Type) (isnan isinf : val -> bool) (nanv : val) (allow_inf : bool)
  (n : node val), oracles_ok val is_exception arith_or_sf n ->
  forall e, eval_top val isnan isinf nanv G.exc_table G.evalfn_handlers G.eval_handlers G.arity_error allow_inf n = Raise e ->
  student_facing e.
Proof. exact eval_top_student_facing. Qed.
Print Assumptions C02_eval_errors_student_facing.

Theorem C02_eval_inside_guard_only_library_errors : forall (val : Type) (isnan isinf : val -> bool) (nanv : val)
  (allow_inf : bool) (n : node val) inp (k : val -> outcome result),
  oracles_ok val is_exception is_exception n ->
  (forall v e, k v = Raise e -> is_exception e) ->
  match guarded G.exc_table G.guard false inp
          (match eval_top val isnan isinf nanv G.exc_table G.evalfn_handlers G.eval_handlers G.arity_error allow_inf n with
           | Raise e => Raise e | Ret v => k v end) with
  | Ret _ => True
  | Raise e => lib_error e
  end.
Proof. exact eval_inside_guard_family. Qed.
Print Assumptions C02_eval_inside_guard_only_library_errors.

Theorem C02_wrong_arity_is_argument_error : forall (val : Type) name ex (f : list val -> outcome val) vs,
  ex <> List.length vs ->
  call_function val G.exc_table G.evalfn_handlers G.arity_error name false ex f vs
  = Raise (lib_exc "ArgumentError"
             (s2z "Wrong number of arguments passed to " ++ name ++ s2z "(...): Expected " ++ dec ex
              ++ s2z " inputs, but received " ++ dec (List.length vs) ++ s2z ".")).
Proof. exact call_function_arity. Qed.
Print Assumptions C02_wrong_arity_is_argument_error.

(* ---- BracketValidator and MathParser.parse ---- *)
Theorem C02_bracket_validator_accepts_exactly_balanced : forall s, bv_validate s = BvOk <-> Balanced s.
Proof. exact bv_ok_iff_balanced. Qed.
Print Assumptions C02_bracket_validator_accepts_exactly_balanced.

Theorem C02_unbalanced_rejected_before_grammar : forall expr gram, ~ Balanced (remove_chars G.parse_strip expr) ->
  exists m, parse_model G.exc_table G.parse_handlers G.parse_strip G.raw_parse_steps expr gram
            = Raise (lib_exc "UnbalancedBrackets" m)
         /\ forall gram', parse_model G.exc_table G.parse_handlers G.parse_strip G.raw_parse_steps expr gram'
                          = parse_model G.exc_table G.parse_handlers G.parse_strip G.raw_parse_steps expr gram.
Proof. exact parse_unbalanced. Qed.
Print Assumptions C02_unbalanced_rejected_before_grammar.

Theorem C02_malformed_text_is_unable_to_parse : forall expr gram e,
  Balanced (remove_chars G.parse_strip expr) -> gram (remove_chars G.parse_strip expr) = GRaise e ->
  isinst e "ParseException" = true ->
  parse_model G.exc_table G.parse_handlers G.parse_strip G.raw_parse_steps expr gram
  = Raise (lib_exc "UnableToParse" (PARSE_PRE ++ expr ++ PARSE_POST)).
Proof. exact parse_malformed. Qed.
Print Assumptions C02_malformed_text_is_unable_to_parse.

Theorem C02_parse_raises_only_student_facing : forall expr gram,
  (forall s e, gram s = GRaise e -> isinst e "ParseException" = true) ->
  match parse_model G.exc_table G.parse_handlers G.parse_strip G.raw_parse_steps expr gram with
  | Ret _ => True
  | Raise e => student_facing e /\ lib_error e /\ is_exception e
  end.
Proof. exact parse_family. Qed.
Print Assumptions C02_parse_raises_only_student_facing.

(* ---- Examples: hypotheses are satisfiable, and what lies outside the property's quantifier ---- *)
Definition ex_cfg (m : gmode) : call_cfg := mkCallCfg false m None true.
Definition value_error : exc := mkExc (builtin_mro "ValueError") (s2z "internal detail").
Definition STR : cstr := s2z "<class 'str'>".
Definition LIST : cstr := s2z "<class 'list'>".

Example C02_ex_unanticipated_list :
  call G.exc_table G.guard G.ensure (ex_cfg ModeList) (fun _ => Raise value_error) None
       (PList LIST [PStr STR (s2z "1/0"); PStr STR (s2z "x")])
  = Raise (mkExc ["StudentFacingError"; "MITxError"; "Exception"; "BaseException"; "object"]
                 (s2z "Invalid Input: Could not check inputs '1/0', 'x'")).
Proof. vm_compute. reflexivity. Qed.
Print Assumptions C02_ex_unanticipated_list.

Example C02_ex_anticipated_br :
  call G.exc_table G.guard G.ensure (ex_cfg ModeItem)
       (fun _ => Raise (lib_exc "UnbalancedBrackets" (s2z "Invalid Input:" ++ [NL] ++ s2z "1 parenthesis was opened")))
       None (PStr STR (s2z "(1"))
  = Raise (lib_exc "UnbalancedBrackets" (s2z "Invalid Input:<br/>1 parenthesis was opened")).
Proof. vm_compute. reflexivity. Qed.
Print Assumptions C02_ex_anticipated_br.

Example C02_ex_list_with_number_refused :
  ensure_mode G.exc_table G.ensure ModeList (PList LIST [PStr STR (s2z "a"); POther (s2z "<class 'int'>")])
  = Raise (config_exc (s2z "Expected a list of text strings for student_input, but item at position 1 has <class 'int'>")).
Proof. vm_compute. reflexivity. Qed.
Print Assumptions C02_ex_list_with_number_refused.

Example C02_ex_list_to_item_grader_refused :
  call G.exc_table G.guard G.ensure (ex_cfg ModeItem) (fun _ => Ret (RSingle (mkEntry OkTrue 1 []))) None
       (PList LIST [PStr STR (s2z "a")])
  = Raise (config_exc (s2z "Expected string for student_input, received <class 'list'>")).
Proof. vm_compute. reflexivity. Qed.
Print Assumptions C02_ex_list_to_item_grader_refused.

(* outside the property: KeyboardInterrupt/SystemExit are not Exceptions and are deliberately not caught *)
Example C02_ex_keyboard_interrupt_not_caught : forall inp,
  guard_exc G.exc_table G.guard false inp (mkExc (builtin_mro "KeyboardInterrupt") [])
  = mkExc (builtin_mro "KeyboardInterrupt") [].
Proof. exact keyboard_interrupt_not_caught. Qed.
Print Assumptions C02_ex_keyboard_interrupt_not_caught.

(* outside the property's quantifier (it ranges over student input): an invalid author `expect` value fails during
   answer inference, before the guarded region, and escapes as voluptuous' MultipleInvalid (DESIGN section 5) *)
Example C02_ex_invalid_expect_escapes_outside_quantifier : forall cfg e check att inp,
  item_call G.exc_table G.guard G.ensure cfg (Raise e) true check att inp = Raise e.
Proof. exact item_call_invalid_expect_escapes. Qed.
Print Assumptions C02_ex_invalid_expect_escapes_outside_quantifier.

(* debug on re-raises the raw exception: why the property says "with debug off" *)
Example C02_ex_debug_reraises_raw :
  call G.exc_table G.guard G.ensure (mkCallCfg true ModeItem None true) (fun _ => Raise value_error) None (PStr STR (s2z "x"))
  = Raise value_error.
Proof. vm_compute. reflexivity. Qed.
Print Assumptions C02_ex_debug_reraises_raw.

Example C02_ex_bracket_messages :
  bv_message (s2z "(1") = Some (s2z "Invalid Input:" ++ [NL] ++ s2z "1 parenthesis was opened without being closed (highlighted below)"
                                ++ [NL] ++ s2z "<code><mark>(</mark>1</code>")
  /\ bv_message (s2z "[(1])") = Some (s2z "Invalid Input: a parenthesis was opened and then closed by a square bracket, highlighted below."
                                      ++ [NL] ++ s2z "<code>[<mark>(</mark>1<mark>]</mark>)</code>")
  /\ bv_message (s2z "f(x[1]){y}") = None.
Proof. vm_compute. repeat split; reflexivity. Qed.
Print Assumptions C02_ex_bracket_messages.

(* sin(1/0)-like tree: the division fails inside the operator node below the function; the error is the
   expression-level CalcZeroDivisionError, not the function-level one; a failing function gives the function-level text *)
Definition zde : exc := mkExc (builtin_mro "ZeroDivisionError") (s2z "float division by zero").
Example C02_ex_eval_tree :
  eval_top Z (fun _ => false) (fun _ => false) 0%Z G.exc_table G.evalfn_handlers G.eval_handlers G.arity_error false
           (Fn (s2z "sin") false 1 (fun _ => Ret 0%Z) [Op (fun _ => Raise zde) [Leaf 1%Z; Leaf 0%Z]])
  = Raise (lib_exc "CalcZeroDivisionError" DIV_MSG)
  /\ eval_top Z (fun _ => false) (fun _ => false) 0%Z G.exc_table G.evalfn_handlers G.eval_handlers G.arity_error false
           (Op (fun vs => Ret 0%Z) [Fn (s2z "cot") false 1 (fun _ => Raise zde) [Leaf 0%Z]; Leaf 1%Z])
  = Raise (lib_exc "CalcZeroDivisionError" (fn_domain_msg (s2z "cot")))
  /\ eval_top Z (fun _ => false) (fun _ => false) 0%Z G.exc_table G.evalfn_handlers G.eval_handlers G.arity_error false
           (Fn (s2z "f") false 2 (fun _ => Raise value_error) [Leaf 1%Z])
  = Raise (lib_exc "ArgumentError" (s2z "Wrong number of arguments passed to f(...): Expected 2 inputs, but received 1.")).
Proof. vm_compute. repeat split; reflexivity. Qed.
Print Assumptions C02_ex_eval_tree.
