(* Props/C15.v -- Built-in functions and constants agree with their mathematical definitions.
   Only statements, `exact lemma`, Examples.  The derived functions and the tables are the definitions REGENERATED from
   mitxgraders/helpers/calc/{mathfuncs,expressions}.py (Gen.MathFuncs); Rprims reads the numpy primitives as the textbook
   real functions (cos, acos, cosh, ... of the Coq standard library, arccosh/arctanh/atan2 of Model/MathFuncsR.v).

   FULL STATEMENT (C15): every default function returns the value of its textbook definition on real AND COMPLEX
   arguments in its domain, in floating point; outside the domain or for a wrong count/shape a student-facing error is
   raised instead of nan, a warning or a wrong-shaped value.
   What is proved below, and what is not:
     * `_partial` theorems on the reals: exact real arithmetic, real arguments.  Missing: the complex continuation and
       the accuracy of numpy/libm (both are covered point-wise by the Interval-certified correspondence and by the
       oracle of harness/props/c15.py, not by a theorem).
     * theorems without suffix are full for what they state (any ring / all rationals / all argument lists).
     * no refuted theorem stands: since the repair of SpecifyDomain's wrapper (the function is called on the validated
       values) a number-like array at a scalar position reaches the function as the number it holds. *)
From Coq Require Import Reals ZArith QArith List String Bool.
From Verif.Lib Require Import QRound MathFuncsBase.
From Verif.Gen Require MathFuncs.
From Verif.Model Require Import MathFuncs MathFuncsR MathFuncsExact.
From Verif.Bridge Require Import MathFuncs.
From Verif.Proofs Require Import MathFuncs MathFuncsR MathFuncsExact.
Import ListNotations.
Module G := Verif.Gen.MathFuncs.

(* ---------------------------------------- reciprocal functions ---------------------------------------- *)
Theorem C15_sec_csc_cot_partial : forall x : R,
  G.gen_sec Rprims x = (1 / cos x)%R /\ G.gen_csc Rprims x = (1 / sin x)%R /\ G.gen_cot Rprims x = (1 / tan x)%R.
Proof. exact (fun x => conj (sec_def x) (conj (csc_def x) (cot_def x))). Qed.

Theorem C15_cot_is_cos_over_sin_partial : forall x : R, sin x <> 0%R -> cos x <> 0%R ->
  G.gen_cot Rprims x = (cos x / sin x)%R.
Proof. exact cot_cos_sin. Qed.

Theorem C15_sec_pythagoras_partial : forall x : R, cos x <> 0%R ->
  (G.gen_sec Rprims x * G.gen_sec Rprims x = 1 + tan x * tan x)%R.
Proof. exact sec_pythagoras. Qed.

Theorem C15_sech_partial : forall x : R, G.gen_sech Rprims x = (2 / (exp x + exp (- x)))%R.
Proof. exact sech_def. Qed.

Theorem C15_csch_partial : forall x : R, x <> 0%R -> G.gen_csch Rprims x = (2 / (exp x - exp (- x)))%R.
Proof. exact csch_def. Qed.

Theorem C15_coth_partial : forall x : R, x <> 0%R ->
  G.gen_coth Rprims x = ((exp x + exp (- x)) / (exp x - exp (- x)))%R.
Proof. exact coth_def. Qed.

(* ------------------- inverse functions: f (f_inverse x) = x and the principal range, real domain ------------------- *)
Theorem C15_arcsec_partial : forall x : R, (1 <= Rabs x)%R ->
  G.gen_sec Rprims (G.gen_arcsec Rprims x) = x /\ (0 <= G.gen_arcsec Rprims x <= PI)%R.
Proof. exact arcsec_spec. Qed.

Theorem C15_arccsc_partial : forall x : R, (1 <= Rabs x)%R ->
  G.gen_csc Rprims (G.gen_arccsc Rprims x) = x /\ (- (PI / 2) <= G.gen_arccsc Rprims x <= PI / 2)%R.
Proof. exact arccsc_spec. Qed.

Theorem C15_arccot_partial : forall x : R, x <> 0%R ->
  G.gen_cot Rprims (G.gen_arccot Rprims x) = x
  /\ (- (PI / 2) < G.gen_arccot Rprims x <= PI / 2)%R /\ G.gen_arccot Rprims x <> 0%R.
Proof. exact arccot_spec. Qed.

Theorem C15_arccot_at_zero_partial : G.gen_arccot Rprims 0%R = (PI / 2)%R.
Proof. exact arccot_zero. Qed.

Theorem C15_arcsech_partial : forall x : R, (0 < x <= 1)%R ->
  G.gen_sech Rprims (G.gen_arcsech Rprims x) = x /\ (0 <= G.gen_arcsech Rprims x)%R.
Proof. exact arcsech_spec. Qed.

Theorem C15_arccsch_partial : forall x : R, x <> 0%R -> G.gen_csch Rprims (G.gen_arccsch Rprims x) = x.
Proof. exact arccsch_spec. Qed.

Theorem C15_arccoth_partial : forall x : R, (1 < Rabs x)%R -> G.gen_coth Rprims (G.gen_arccoth Rprims x) = x.
Proof. exact arccoth_spec. Qed.

(* the inverse hyperbolic primitives the model reads numpy's arccosh / arctanh as *)
Theorem C15_arccosh_model : forall y : R, (1 <= y)%R -> cosh (arccoshR y) = y /\ (0 <= arccoshR y)%R.
Proof. exact cosh_arccoshR. Qed.
Theorem C15_arctanh_model : forall y : R, (-1 < y < 1)%R -> tanh (arctanhR y) = y.
Proof. exact tanh_arctanhR. Qed.

(* ---------------------------------------- arctan2, kronecker ---------------------------------------- *)
(* documented order arctan2(x, y): the angle in (-pi, pi] of the point with abscissa x and ordinate y *)
Theorem C15_arctan2_argument_order_and_quadrant : forall x y : R, ~ (x = 0%R /\ y = 0%R) ->
  exists th, G.gen_arctan2 Rprims x y = Val th /\ (- PI < th <= PI)%R
             /\ x = (sqrt (x * x + y * y) * cos th)%R /\ y = (sqrt (x * x + y * y) * sin th)%R.
Proof. exact arctan2_spec. Qed.

Theorem C15_arctan2_origin_is_student_error :
  G.gen_arctan2 Rprims 0%R 0%R = Raise XFunctionEvalError /\ student_facing XFunctionEvalError = true.
Proof. exact (conj arctan2_origin eq_refl). Qed.

Theorem C15_kronecker_real : forall x y : R, G.gen_kronecker Rprims x y = if Req_EM_T x y then 1%R else 0%R.
Proof. exact kronecker_spec. Qed.

Theorem C15_kronecker_complex_rational : forall pi tr (x y : GQ),
  G.gen_kronecker (ExactPrims pi tr) x y = if geqb x y then (1%Q, 0%Q) else (0%Q, 0%Q).
Proof. exact kronecker_exact. Qed.

(* ---------------------------------------- cross product: any commutative ring ---------------------------------------- *)
Theorem C15_cross_formula : forall (A : Type) (K : ops A) a0 a1 a2 b0 b1 b2,
  G.gen_cross (prims_of_ops K) (vnth K [a0; a1; a2]) (vnth K [b0; b1; b2]) =
  [o_sub K (o_mul K a1 b2) (o_mul K b1 a2); o_sub K (o_mul K a2 b0) (o_mul K b2 a0); o_sub K (o_mul K a0 b1) (o_mul K b0 a1)].
Proof. exact (fun A K a0 a1 a2 b0 b1 b2 => eq_refl). Qed.

Theorem C15_cross_orthogonal_and_anticommutative : forall (A : Type) (K : ops A),
  ring_theory (o_zero K) (o_one K) (o_add K) (o_mul K) (o_sub K) (o_opp K) eq ->
  forall a b, List.length a = 3%nat -> List.length b = 3%nat ->
  dot K a (cross3 K a b) = o_zero K /\ dot K b (cross3 K a b) = o_zero K
  /\ cross3 K a b = map (o_opp K) (cross3 K b a).
Proof.
  exact (fun A K Rth a b Ha Hb => conj (cross3_orthogonal_left K Rth a b Ha Hb)
                                  (conj (cross3_orthogonal_right K Rth a b Ha Hb) (cross3_anticommutative K Rth a b Ha Hb))).
Qed.

(* ---------------------------------------- trans, ctrans, trace, det: any commutative ring ---------------------------------------- *)
Theorem C15_transpose_entries : forall (A : Type) (K : ops A) c m i j, (j < c)%nat -> (i < List.length m)%nat ->
  entry K (transpose K c m) j i = entry K m i j.
Proof. exact (fun A K => transpose_entry K). Qed.

Theorem C15_transpose_involutive : forall (A : Type) (K : ops A) r c m,
  List.length m = r -> Forall (fun row => List.length row = c) m -> transpose K r (transpose K c m) = m.
Proof. exact (fun A K => transpose_involutive K). Qed.

Theorem C15_trace_of_transpose : forall (A : Type) (K : ops A) n m, List.length m = n ->
  trace K n (transpose K n m) = trace K n m.
Proof. exact (fun A K => trace_transpose K). Qed.

Theorem C15_det_small : forall (A : Type) (K : ops A),
  ring_theory (o_zero K) (o_one K) (o_add K) (o_mul K) (o_sub K) (o_opp K) eq ->
  (forall a, det K 1 [[a]] = a) /\
  (forall a b c d, det K 2 [[a; b]; [c; d]] = o_sub K (o_mul K a d) (o_mul K b c)) /\
  (forall a b c d e f g h i, det K 3 [[a; b; c]; [d; e; f]; [g; h; i]] =
     o_add K (o_sub K (o_mul K a (o_sub K (o_mul K e i) (o_mul K f h))) (o_mul K b (o_sub K (o_mul K d i) (o_mul K f g))))
             (o_mul K c (o_sub K (o_mul K d h) (o_mul K e g)))).
Proof. exact (fun A K Rth => conj (det_1 K Rth) (conj (det_2 K Rth) (det_3 K Rth))). Qed.

(* every dimension: a lower-triangular matrix has the product of its diagonal as determinant; det I = 1 *)
Theorem C15_det_lower_triangular : forall (A : Type) (K : ops A),
  ring_theory (o_zero K) (o_one K) (o_add K) (o_mul K) (o_sub K) (o_opp K) eq ->
  forall n m diag, lower_tri K n m diag -> det K n m = fold_right (o_mul K) (o_one K) diag.
Proof. exact (fun A K Rth => det_lower_triangular K Rth). Qed.

Theorem C15_det_identity : forall (A : Type) (K : ops A),
  ring_theory (o_zero K) (o_one K) (o_add K) (o_mul K) (o_sub K) (o_opp K) eq ->
  forall n, det K n (ident K n) = o_one K.
Proof. exact (fun A K Rth => det_ident K Rth). Qed.

(* the ring hypotheses are satisfiable: integers, complex numbers *)
Example C15_rings_exist :
  ring_theory (o_zero Zops) (o_one Zops) (o_add Zops) (o_mul Zops) (o_sub Zops) (o_opp Zops) eq /\
  ring_theory (o_zero Cops) (o_one Cops) (o_add Cops) (o_mul Cops) (o_sub Cops) (o_opp Cops) eq.
Proof. exact (conj Z_ring C_ring). Qed.

(* ---------------------------------------- floor, ceil, min, max, re, im, conj ---------------------------------------- *)
Open Scope Q_scope.
Theorem C15_floor : forall x : Q, floorQ x <= x /\ x < floorQ x + 1 /\ exists z, floorQ x = inject_Z z.
Proof. exact floorQ_spec. Qed.

Theorem C15_ceil : forall x : Q, ceilQ x - 1 < x /\ x <= ceilQ x /\ exists z, ceilQ x = inject_Z z.
Proof. exact ceilQ_spec. Qed.

Theorem C15_min : forall l : list Q, (2 <= List.length l)%nat ->
  exists m, py_min l = Some m /\ In m l /\ forall y, In y l -> m <= y.
Proof. exact py_min_spec. Qed.

Theorem C15_max : forall l : list Q, (2 <= List.length l)%nat ->
  exists m, py_max l = Some m /\ In m l /\ forall y, In y l -> y <= m.
Proof. exact py_max_spec. Qed.

Theorem C15_conj : forall z : GQ,
  gconj (gconj z) = z /\ fst (gconj z) = fst z /\ snd (gconj z) = - snd z
  /\ fst (gmul z (gconj z)) == gabs2 z /\ snd (gmul z (gconj z)) == 0 /\ 0 <= gabs2 z.
Proof.
  exact (fun z => conj (gconj_involutive z) (conj (proj1 (gconj_parts z)) (conj (proj2 (gconj_parts z))
                  (conj (proj1 (gmul_conj z)) (conj (proj2 (gmul_conj z)) (gabs2_nonneg z)))))).
Qed.

Close Scope Q_scope.
(* ---------------------------------------- constants ---------------------------------------- *)
Theorem C15_constants_table :
  G.gen_default_variables = [("i", KComplex 0 1); ("j", KComplex 0 1); ("e", KNpE); ("pi", KNpPi)]%string.
Proof. exact constants_table. Qed.

Theorem C15_i_squared : (geqb (gmul (0, 1) (0, 1)) (- (1), 0) = true)%Q.
Proof. exact (proj2 i_squared). Qed.

(* That the doubles behind np.pi and np.e are the doubles nearest to pi and e is certified by Interval on every run
   (harness, Interval stream, on the values evaluator('pi') / evaluator('e') actually returned); the same statement is the
   lemma pair pi_double_nearest / e_double_nearest of Proofs/MathFuncsConst.v.  It is kept out of this file so that the
   closure of Props/C15.v does not contain Interval, Coquelicot, Flocq and MathComp: coqchk on that closure does not
   finish within the thorough tier's budget. *)

(* ---------------------------------------- wrong count, wrong shape, failures ---------------------------------------- *)
(* any specification, any argument list: a wrong number of arguments is an ArgumentError *)
Theorem C15_wrong_count_is_argument_error : forall (V : Type) e (shape_of : V -> argshape) item nargs raw args,
  (forall sp, fe_spec e = Some sp -> ~ arity_ok sp (List.length args)) ->
  (fe_spec e = None -> nargs <> List.length args) ->
  call_entry G.gen_eval_function_handlers G.gen_arity_mismatch e shape_of item nargs raw args = Raise XArgumentError.
Proof.
  exact (fun V e shape_of item nargs raw args Hv Hu =>
           match fe_spec e as o return fe_spec e = o -> _ with
           | Some sp => fun E => call_entry_wrong_count_validated V e sp shape_of item nargs raw args E (Hv sp E)
           | None => fun E => call_entry_wrong_count_unvalidated V e shape_of item nargs raw args E (Hu E)
           end eq_refl).
Qed.

(* right count, an argument whose shape the validator rejects: ArgumentShapeError *)
Theorem C15_rejected_shape_is_argument_shape_error : forall (V : Type) e sp (shape_of : V -> argshape) item nargs raw args i,
  fe_spec e = Some sp -> arity_ok sp (List.length args) -> (i < List.length args)%nat ->
  shape_ok (nth i (expected_shapes sp (List.length args)) ShScalar) (nth i (map shape_of args) ANumber) = false ->
  call_entry G.gen_eval_function_handlers G.gen_arity_mismatch e shape_of item nargs raw args = Raise XArgumentShapeError.
Proof. exact call_entry_wrong_shape. Qed.

(* FULL: the decorated function is called iff the count is right and every argument has a shape its validator accepts
   (a scalar position accepts a number or a number-like, i.e. one-element, array -- by design of the library) ... *)
Theorem C15_wrong_shape_rejected : forall sp args,
  validate sp args = VCall <->
  arity_ok sp (List.length args) /\
  forall i, (i < List.length args)%nat ->
            shape_ok (nth i (expected_shapes sp (List.length args)) ShScalar) (nth i args ANumber) = true.
Proof. exact validate_call_iff. Qed.

(* ... and then it is called on the validated values: every scalar position receives a NUMBER (a number-like array is
   replaced by the number it holds), every other position the argument itself -- never a wrong-shaped value *)
Theorem C15_scalar_positions_receive_numbers : forall (V : Type) sp (shape_of : V -> argshape) (item : V -> V) f args d,
  (forall a, shape_ok ShScalar (shape_of a) = true -> shape_of (item a) = ANumber) ->
  validate sp (map shape_of args) = VCall ->
  wrap sp shape_of item f args = f (coerce item (expected_shapes sp (List.length args)) args) /\
  List.length (coerce item (expected_shapes sp (List.length args)) args) = List.length args /\
  forall i, (i < List.length args)%nat ->
    match nth i (expected_shapes sp (List.length args)) ShSquare with
    | ShScalar => shape_of (nth i (coerce item (expected_shapes sp (List.length args)) args) d) = ANumber
    | _ => nth i (coerce item (expected_shapes sp (List.length args)) args) d = nth i args d
    end.
Proof.
  exact (fun V sp shape_of item f args d Hitem Hv =>
           conj (wrap_calls V sp shape_of item f args Hv) (validated_arguments V sp shape_of item args d Hitem Hv)).
Qed.

(* the hypothesis on `item` holds for the values of the correspondence: obj.item() of a one-element array is a number *)
Theorem C15_item_of_a_numberlike_array_is_a_number : forall a,
  shape_ok ShScalar (shape_of_val a) = true -> shape_of_val (item_val a) = ANumber.
Proof. exact item_val_number. Qed.

Example C15_ex_sin_of_one_element_vector :
  exists sp, lookup G.gen_default_functions "sin" = Some (mkF (TNp "sin") (Some sp))
    /\ validate sp [AArray [1%nat]] = VCall
    /\ coerce item_val (expected_shapes sp 1) [VArr false [1%nat] [(3 # 2, 0)%Q]] = [VNum false (3 # 2, 0)%Q].
Proof. exists (mkSpec [ShScalar] None (Some "sin"%string)). repeat split. Qed.

(* whatever a table function does (any Python exception), only a value or a student-facing error leaves the evaluator *)
Theorem C15_only_student_facing_errors_escape : forall (V : Type) e (shape_of : V -> argshape) item nargs raw args x,
  call_entry G.gen_eval_function_handlers G.gen_arity_mismatch e shape_of item nargs raw args = Raise x ->
  student_facing x = true.
Proof. exact call_entry_student_facing. Qed.

(* division by zero / overflow / invalid operation inside a numpy ufunc raise (no inf, nan or warning flows on) and
   reach the student as CalcZeroDivisionError / CalcOverflowError / FunctionEvalError *)
Theorem C15_floating_point_errors_become_student_errors : forall k, k <> FPUnder ->
  exists e, configured_fp_event k = Some e /\
            student_facing (handle G.gen_eval_function_handlers e) = true /\
            handle G.gen_eval_function_handlers e =
              match k with FPDivide => XCalcZeroDivisionError | FPOver => XCalcOverflowError | _ => XFunctionEvalError end.
Proof. exact fp_events_raise. Qed.

(* the tables hold exactly the documented names, each validated with the documented number of arguments *)
Theorem C15_tables_are_the_documented_ones :
  table_matches G.gen_default_functions documented_default = true /\
  table_matches G.gen_matrix_functions
    (filter (fun d => negb (String.eqb (fst d) "abs")) documented_default ++ documented_matrix_extra) = true.
Proof. exact (conj default_table_documented matrix_table_documented). Qed.

(* ---------------------------------------- non-vacuity ---------------------------------------- *)
Example C15_ex_cross : cross3 Zops [1; 0; 0]%Z [0; 1; 0]%Z = [0; 0; 1]%Z.
Proof. reflexivity. Qed.

Example C15_ex_det : det Zops 3 [[2; 0; 1]; [1; 3; 2]; [1; 1; 2]]%Z = 6%Z /\ det Zops 4 (ident Zops 4) = 1%Z.
Proof. split; reflexivity. Qed.

Example C15_ex_validate :
  validate (mkSpec [ShVector 3; ShVector 3] None None) [AArray [3%nat]; AArray [2%nat]] = VShape [true; false]
  /\ validate (mkSpec [ShScalar] (Some 2%nat) None) [ANumber] = VArity 2 true 1
  /\ validate (mkSpec [ShSquare] None None) [AArray [2%nat; 2%nat]] = VCall.
Proof. repeat split. Qed.

Example C15_ex_min_floor :
  (py_min [3; 1 # 2; 2] = Some (1 # 2) /\ floorQ (- (3 # 2)) = - (2) /\ ceilQ (- (3 # 2)) = - (1))%Q.
Proof. repeat split. Qed.
